(** Shared executable helpers for the models: lists as arrays, exact rationals, comparison functions
    used by the correspondence shards.  Definitions only plus a few basic lemmas. *)
From Coq Require Export List ZArith QArith Bool Lia.
From Coq Require String.
Export ListNotations.

(** * generic list utilities *)
Fixpoint list_eqb {A} (eqb : A -> A -> bool) (l1 l2 : list A) : bool :=
  match l1, l2 with
  | [], [] => true
  | x :: t1, y :: t2 => eqb x y && list_eqb eqb t1 t2
  | _, _ => false
  end.
Definition opt_eqb {A} (eqb : A -> A -> bool) (a b : option A) : bool :=
  match a, b with Some x, Some y => eqb x y | None, None => true | _, _ => false end.
Definition zl_eqb := list_eqb Z.eqb.
Definition zll_eqb := list_eqb zl_eqb.
Definition zlll_eqb := list_eqb zll_eqb.
Definition bl_eqb := list_eqb Bool.eqb.
Definition ql_eqb := list_eqb Qeq_bool.
Definition qll_eqb := list_eqb ql_eqb.
Definition natl_eqb := list_eqb Nat.eqb.
Definition sl_eqb := list_eqb String.eqb.

Fixpoint map2 {A B C} (f : A -> B -> C) (l1 : list A) (l2 : list B) : list C :=
  match l1, l2 with
  | x :: t1, y :: t2 => f x y :: map2 f t1 t2
  | _, _ => []
  end.

Definition sumZ (l : list Z) : Z := fold_right Z.add 0%Z l.
Definition sumQ (l : list Q) : Q := fold_right Qplus 0%Q l.
Definition dotQ (a b : list Q) : Q := sumQ (map2 Qmult a b).
Definition dotZ (a b : list Z) : Z := sumZ (map2 Z.mul a b).

(** column sums of an (n x p) matrix given as a list of rows; [p] is explicit so that n = 0 is fine *)
Definition colsumsZ (p : nat) (rows : list (list Z)) : list Z :=
  fold_right (map2 Z.add) (repeat 0%Z p) rows.
Definition colsumsQ (p : nat) (rows : list (list Q)) : list Q :=
  fold_right (map2 Qplus) (repeat 0%Q p) rows.

(** j-th column *)
Definition col {A} (d : A) (j : nat) (rows : list (list A)) : list A := map (fun r => nth j r d) rows.
Definition cols {A} (d : A) (p : nat) (rows : list (list A)) : list (list A) := map (fun j => col d j rows) (seq 0 p).

Definition count_if {A} (f : A -> bool) (l : list A) : Z := Z.of_nat (length (filter f l)).

(** * exact rationals *)
Definition Qabs' (x : Q) : Q := if Qle_bool 0 x then x else Qopp x.
(** tolerance regime T: |x - y| <= 2^-30 (1 + |y|), y the model value *)
Definition Qclose (x y : Q) : bool := Qle_bool (Qabs' (x - y)) ((1 # 1073741824) * (1 + Qabs' y)).
Definition qclose_l := list_eqb Qclose.
Definition qclose_ll := list_eqb qclose_l.
Definition Qmin' (x y : Q) : Q := if Qle_bool x y then x else y.
Definition Qmax' (x y : Q) : Q := if Qle_bool x y then y else x.
Definition Zq (z : Z) : Q := inject_Z z.

(** * error enum shared by models of functions that raise *)
Inductive err := EIndex | EValue | EType | ERecursion | EOther.
Definition err_eqb (a b : err) : bool :=
  match a, b with EIndex, EIndex | EValue, EValue | EType, EType | ERecursion, ERecursion | EOther, EOther => true | _, _ => false end.

Lemma list_eqb_refl {A} (eqb : A -> A -> bool) : (forall x, eqb x x = true) -> forall l, list_eqb eqb l l = true.
Proof. intros H l; induction l as [|x t IH]; cbn; [reflexivity|]. now rewrite H, IH. Qed.

Lemma list_eqb_eq {A} (eqb : A -> A -> bool) : (forall x y, eqb x y = true -> x = y) ->
  forall l1 l2, list_eqb eqb l1 l2 = true -> l1 = l2.
Proof.
  intros H l1; induction l1 as [|x t IH]; intros [|y t2]; cbn; try discriminate; [reflexivity|].
  intros E. apply andb_prop in E as [E1 E2]. f_equal; [now apply H | now apply IH].
Qed.

Lemma map2_length {A B C} (f : A -> B -> C) l1 l2 : length (map2 f l1 l2) = Nat.min (length l1) (length l2).
Proof. revert l2; induction l1 as [|x t IH]; intros [|y t2]; cbn; try reflexivity. now rewrite IH. Qed.
