(** Bit-exact binary64 kernels shared by the models (regime B of DESIGN.md 3.2). Definitions only. *)
From Coq Require Import ZArith PrimFloat Uint63.
Local Open Scope Z_scope.

(** integer -> binary64, as numpy does when an int64 value meets a float operand (exact below 2^53) *)
Definition f_of_Z (z : Z) : float :=
  if z <? 0 then PrimFloat.opp (of_uint63 (Uint63.of_Z (- z))) else of_uint63 (Uint63.of_Z z).

(** quotient of two integers in binary64: numpy  int_array / int  *)
Definition fdivZ (c N : Z) : float := PrimFloat.div (f_of_Z c) (f_of_Z N).
(** the rounded-reciprocal form  (1.0 / N) * c  *)
Definition frecipZ (c N : Z) : float := PrimFloat.mul (PrimFloat.div 1%float (f_of_Z N)) (f_of_Z c).
