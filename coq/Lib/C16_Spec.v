(** C16 — types of the tables that harness/translate/c16_fields.py extracts from the pybrops source
    (coq/Gen/C16_Fields.v) and the checks that are run on them.  Definitions only. *)
From Coq Require Import List Bool String.
Import ListNotations.
Local Open Scope string_scope.

(** typed HDF5 readers of pybrops/core/util/h5py.py *)
Inductive reader := RNd | RNdUtf8 | RInt | RNdInt8 | RNdInt | RUtf8 | RDict.

Definition reader_eqb (a b : reader) : bool :=
  match a, b with
  | RNd, RNd | RNdUtf8, RNdUtf8 | RInt, RInt | RNdInt8, RNdInt8 | RNdInt, RNdInt | RUtf8, RUtf8 | RDict, RDict => true
  | _, _ => false
  end.

(** one field read by [from_hdf5]: HDF5 key, key of the [data] dictionary it is stored under, reader,
    whether the read is guarded by [if groupname + key in h5file] *)
Record rfield := mkR { rkey : string; rslot : string; rrd : reader; ropt : bool }.

(** how an attribute is duplicated inside [__copy__] / [__deepcopy__] *)
Inductive cpmode := CShallow      (* copy.copy(self.a) *)
                  | CDeep         (* copy.deepcopy(self.a, memo)  or  copy.deepcopy(self.a) *)
                  | CPlain.       (* self.a passed on as is *)
Definition cpmode_eqb (a b : cpmode) : bool :=
  match a, b with CShallow, CShallow | CDeep, CDeep | CPlain, CPlain => true | _, _ => false end.

(** (target, source attribute, mode): constructor keyword [target = copy(self.source)] or
    assignment [out.target = copy(self.source)] *)
Record cpfield := mkC { ctgt : string; csrc : string; cmode : cpmode }.

Record cls_spec := mkSpec {
  cname    : string;                      (* harness key of the class *)
  pyclass  : string;                      (* python class name *)
  h5_def   : string;                      (* class whose to_hdf5 body builds the data dictionary *)
  written  : list (string * string);      (* to_hdf5: (HDF5 key, attribute read from self), in order *)
  rd_def   : string;                      (* class whose from_hdf5 body reads the fields *)
  required : list string;                 (* from_hdf5: required_fields *)
  reads    : list rfield;                 (* from_hdf5: reads, in order *)
  rd_ctor  : list (string * string);      (* from_hdf5: cls(kw = data[slot]) *)
  rd_post  : list (string * string);      (* from_hdf5: out.attr = data[slot] *)
  init_params : list string;              (* __init__ parameters (without self, **kwargs) *)
  init_accepts : list string;             (* keywords the constructor accepts, following forwarded **kwargs along the MRO *)
  cp_ctor  : list cpfield;  cp_post : list cpfield;      (* __copy__ *)
  dp_ctor  : list cpfield;  dp_post : list cpfield;      (* __deepcopy__ *)
  meta     : list string                  (* group-metadata attributes of the class (set to None by __init__) *)
}.

Definition smem (s : string) (l : list string) : bool := existsb (String.eqb s) l.
Definition subset (a b : list string) : bool := forallb (fun s => smem s b) a.
Definition seteq (a b : list string) : bool := subset a b && subset b a.
Fixpoint nodup_s (l : list string) : bool := match l with [] => true | x :: t => negb (smem x t) && nodup_s t end.

(** ** the table checks (each is a [forallb … = true] theorem over Gen.C16_Fields.all_specs) *)

(** every key written is read back under the same name, every key read is written, no key twice,
    every key is the attribute of the same name *)
Definition written_eq_read (s : cls_spec) : bool :=
  seteq (map fst (written s)) (map rkey (reads s))
  && nodup_s (map fst (written s)) && nodup_s (map rkey (reads s))
  && forallb (fun kv => String.eqb (fst kv) (snd kv)) (written s)
  && forallb (fun r => String.eqb (rkey r) (rslot r)) (reads s).

(** every required field is read, and read unguarded (no presence test that could silently skip it) *)
Definition required_unguarded (s : cls_spec) : bool :=
  forallb (fun k => existsb (fun r => String.eqb (rkey r) k && negb (ropt r)) (reads s)) (required s).

(** every slot read reaches the object: as constructor keyword of the same name or by assignment *)
Definition reads_reach_object (s : cls_spec) : bool :=
  seteq (map rslot (reads s)) (map snd (rd_ctor s) ++ map snd (rd_post s))
  && forallb (fun kv => String.eqb (fst kv) (snd kv)) (rd_ctor s ++ rd_post s)
  && subset (map fst (rd_ctor s)) (init_accepts s)
  && nodup_s (map fst (rd_ctor s) ++ map fst (rd_post s)).

(** group metadata is written, and restored after construction (the constructor resets it) *)
Definition meta_persisted (s : cls_spec) : bool :=
  subset (meta s) (map fst (written s)) && subset (meta s) (map fst (rd_post s)).

(** constructor parameters that are options rather than state: a copy may pass a constant for them *)
Definition const_params : list string := ["vrnt_genpos_units"; "auto_group"; "auto_build_spline"].
(** copies rebuild through the constructor with every constructor parameter and copy the group metadata;
    source and target attribute coincide *)
Definition copy_covers (ctor post : list cpfield) (s : cls_spec) : bool :=
  subset (init_params s) (map ctgt ctor)
  && subset (map ctgt ctor) (init_params s)
  && subset (meta s) (map ctgt post)
  && forallb (fun c => if String.eqb (csrc c) "" then smem (ctgt c) const_params else String.eqb (ctgt c) (csrc c)) (ctor ++ post)
  && nodup_s (map ctgt ctor ++ map ctgt post).
Definition copied_superset (s : cls_spec) : bool := copy_covers (cp_ctor s) (cp_post s) s && copy_covers (dp_ctor s) (dp_post s) s.

(** a deep copy deep-copies every attribute except those listed as shared on purpose *)
Definition deep_is_deep (shared : list string) (s : cls_spec) : bool :=
  forallb (fun c => if String.eqb (csrc c) "" || smem (csrc c) shared then true else cpmode_eqb (cmode c) CDeep) (dp_ctor s ++ dp_post s).
(** a shallow copy never passes a mutable attribute on as is *)
Definition shallow_copies (shared : list string) (s : cls_spec) : bool :=
  forallb (fun c => if String.eqb (csrc c) "" || smem (csrc c) shared then true else negb (cpmode_eqb (cmode c) CPlain)) (cp_ctor s ++ cp_post s).

Definition find_spec (n : string) (l : list cls_spec) : option cls_spec := find (fun s => String.eqb (cname s) n) l.
