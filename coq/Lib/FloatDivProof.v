(** Boundary behaviour of the binary64 quotient  c / N  of two integers (regime B of DESIGN.md 3.2).

    [fdivZ c N] is computed with Coq primitive floats.  Through Flocq's [Prim2B] bridge it is
    the IEEE-754 round-to-nearest-even of the real quotient, and for 0 <= c <= N <= 2^53 that
    rounding is 1 exactly when c = N, 0 exactly when c = 0, and lies in [0,1].
    The rounded-reciprocal form (1/N)*c does not have this property ([frecipZ_refuted]). *)
From Coq Require Import ZArith Reals Lra Lia PrimFloat Uint63.
From Flocq Require Import Core IEEE754.BinarySingleNaN IEEE754.PrimFloat.
From PV Require Import Lib.FloatK.

(* ------------------------------------------------------------------ *)
(** * Real-number part: rounding of c/N in binary64 *)
Section RealPart.
Local Open Scope R_scope.

Definition fexp64 := FLT_exp (-1074) 53.
Definition rnd64 := round radix2 fexp64 ZnearestE.
Instance prec53 : Prec_gt_0 53. Proof. unfold Prec_gt_0. lia. Qed.
Instance fexp64_valid : Valid_exp fexp64. Proof. unfold fexp64. apply FLT_exp_valid. exact prec53. Qed.
Definition P53 := IZR (2^53).
Lemma P53pos : 0 < P53. Proof. apply IZR_lt. reflexivity. Qed.
Lemma bpow_m53 : bpow radix2 (-53) = / P53.
Proof. change (-53)%Z with (- (53))%Z. rewrite bpow_opp. reflexivity. Qed.
Lemma bpow_53 : bpow radix2 53 = P53.
Proof. reflexivity. Qed.

Lemma fmt_eps : generic_format radix2 fexp64 (/ P53).
Proof. rewrite <- bpow_m53. apply generic_format_bpow. unfold fexp64, FLT_exp. simpl. lia. Qed.
Lemma fmt_1 : generic_format radix2 fexp64 1.
Proof. change 1 with (bpow radix2 0). apply generic_format_bpow. unfold fexp64, FLT_exp. simpl. lia. Qed.
Lemma fmt_pred1 : generic_format radix2 fexp64 (1 - / P53).
Proof.
  assert (E : 1 - / P53 = F2R (Float radix2 (2^53 - 1) (-53))).
  { unfold F2R. cbn [Fnum Fexp]. rewrite bpow_m53, minus_IZR. fold P53. field. pose proof P53pos; lra. }
  rewrite E. apply generic_format_F2R. intros _. unfold cexp, fexp64, FLT_exp.
  rewrite (mag_unique radix2 _ 0).
  - simpl. lia.
  - rewrite <- E. pose proof P53pos.
    assert (/P53 <= /2). { apply Rinv_le_contravar; [lra|]. unfold P53. apply IZR_le. lia. }
    assert (0 < /P53) by (apply Rinv_0_lt_compat; lra).
    rewrite Rabs_pos_eq by lra. change (bpow radix2 (0-1)) with (/2). change (bpow radix2 0) with 1. lra.
Qed.

Lemma rnd64_le : forall x y, x <= y -> rnd64 x <= rnd64 y.
Proof. intros x y Hxy. unfold rnd64. apply round_le; auto with typeclass_instances. Qed.

Theorem div_boundary : forall c N : Z, (0 <= c <= N)%Z -> (0 < N <= 2^53)%Z ->
  (rnd64 (IZR c / IZR N) = 1 <-> c = N) /\ (rnd64 (IZR c / IZR N) = 0 <-> c = 0%Z) /\
  0 <= rnd64 (IZR c / IZR N) <= 1.
Proof.
  intros c N [Hc0 HcN] [HN0 HN].
  pose proof P53pos as HP.
  assert (HNr : 0 < IZR N) by (apply IZR_lt; lia).
  assert (HN53 : IZR N <= P53) by (apply IZR_le; lia).
  assert (HiP : 0 < / P53) by (apply Rinv_0_lt_compat; lra).
  assert (HiN : 0 < / IZR N) by (apply Rinv_0_lt_compat; lra).
  assert (Hinv : / P53 <= / IZR N) by (apply Rinv_le_contravar; lra).
  pose proof rnd64_le as Hmono.
  assert (H1 : rnd64 1 = 1) by (apply round_generic; [auto with typeclass_instances | apply fmt_1]).
  assert (H0 : rnd64 0 = 0) by (apply round_0; auto with typeclass_instances).
  assert (He : rnd64 (/P53) = /P53) by (apply round_generic; [auto with typeclass_instances | apply fmt_eps]).
  assert (Hp : rnd64 (1 - /P53) = 1 - /P53) by (apply round_generic; [auto with typeclass_instances | apply fmt_pred1]).
  assert (Hc0r : 0 <= IZR c) by (apply IZR_le; lia).
  split; [|split].
  - split.
    + intro E. destruct (Z.eq_dec c N) as [->|Hne]; [reflexivity|exfalso].
      assert (Hlt : IZR c <= IZR N - 1). { rewrite <- minus_IZR. apply IZR_le. lia. }
      assert (H : IZR c / IZR N <= 1 - / P53).
      { unfold Rdiv. assert (IZR c * / IZR N <= (IZR N - 1) * / IZR N) by (apply Rmult_le_compat_r; lra).
        replace ((IZR N - 1) * / IZR N) with (1 - / IZR N) in H by (field; lra). lra. }
      apply Hmono in H. rewrite Hp, E in H. lra.
    + intros ->. unfold Rdiv. rewrite Rinv_r by lra. exact H1.
  - split.
    + intro E. destruct (Z.eq_dec c 0) as [->|Hne]; [reflexivity|exfalso].
      assert (Hge : 1 <= IZR c) by (apply IZR_le; lia).
      assert (H : / P53 <= IZR c / IZR N).
      { unfold Rdiv. assert (1 * / IZR N <= IZR c * / IZR N) by (apply Rmult_le_compat_r; lra). lra. }
      apply Hmono in H. rewrite He, E in H. lra.
    + intros ->. unfold Rdiv. rewrite Rmult_0_l. exact H0.
  - split.
    + rewrite <- H0. apply Hmono. apply Rmult_le_pos; lra.
    + rewrite <- H1. apply Hmono. apply Rmult_le_reg_r with (IZR N); [lra|].
      unfold Rdiv. rewrite Rmult_assoc, Rinv_l by lra. apply IZR_le in HcN. lra.
Qed.

(** integers of magnitude at most 2^53 are binary64 numbers *)
Lemma fmt_int : forall z : Z, (0 <= z <= 2^53)%Z -> generic_format radix2 fexp64 (IZR z).
Proof.
  intros z [Hz0 Hz]. destruct (Z.eq_dec z (2^53)) as [->|Hne].
  - fold P53. rewrite <- bpow_53. apply generic_format_bpow. unfold fexp64, FLT_exp. simpl. lia.
  - unfold fexp64. apply generic_format_FLT. apply (FLT_spec radix2 (-1074) 53 _ (Float radix2 z 0)).
    + unfold F2R. cbn [Fnum Fexp]. simpl bpow. ring.
    + cbn [Fnum]. change (Zpower radix2 53) with (2^53)%Z. lia.
    + cbn [Fexp]. lia.
Qed.

Lemma bpow_1024_big : P53 < bpow radix2 1024.
Proof. rewrite <- bpow_53. apply bpow_lt. lia. Qed.

End RealPart.

(* ------------------------------------------------------------------ *)
(** * Bridge from primitive floats to the real-number statement *)

Lemma fexp_eq : SpecFloat.fexp FloatOps.prec FloatOps.emax = fexp64.
Proof. reflexivity. Qed.

Lemma small_lt_wB : forall z : Z, (0 <= z <= 2^53)%Z -> (0 <= z < wB)%Z.
Proof.
  intros z [H0 H1]. split; [exact H0|].
  apply Z.le_lt_trans with (1 := H1). reflexivity.
Qed.

Lemma f_of_Z_exact : forall z : Z, (0 <= z <= 2^53)%Z ->
  B2R (Prim2B (f_of_Z z)) = IZR z /\ is_finite (Prim2B (f_of_Z z)) = true.
Proof.
  intros z Hz. unfold f_of_Z.
  assert (Hneg : (z <? 0)%Z = false) by (apply Z.ltb_ge; lia). rewrite Hneg.
  rewrite of_int63_equiv, Uint63.of_Z_spec, Z.mod_small by (apply small_lt_wB; exact Hz).
  pose proof (binary_normalize_correct FloatOps.prec FloatOps.emax Hprec Hmax mode_NE z 0 false) as H.
  cbv zeta in H. rewrite fexp_eq in H.
  assert (EF : F2R (Float radix2 z 0) = IZR z).
  { unfold F2R. cbn [Fnum Fexp]. simpl bpow. ring. }
  rewrite EF in H.
  change (round radix2 fexp64 (round_mode mode_NE)) with rnd64 in H.
  assert (ER : rnd64 (IZR z) = IZR z).
  { apply round_generic; [auto with typeclass_instances | apply fmt_int; exact Hz]. }
  rewrite ER in H.
  rewrite Rlt_bool_true in H.
  - destruct H as [H1 [H2 _]]. split; assumption.
  - assert (0 <= IZR z)%R by (apply IZR_le; lia).
    assert (IZR z <= P53)%R by (apply IZR_le; lia).
    rewrite Rabs_pos_eq by assumption.
    pose proof bpow_1024_big. change FloatOps.emax with 1024%Z. lra.
Qed.

Theorem fdivZ_exact : forall c N : Z, (0 <= c <= N)%Z -> (0 < N <= 2^53)%Z ->
  B2R (Prim2B (fdivZ c N)) = round radix2 (FLT_exp (-1074) 53) ZnearestE (IZR c / IZR N) /\
  is_finite (Prim2B (fdivZ c N)) = true.
Proof.
  intros c N Hc HN.
  destruct (f_of_Z_exact c ltac:(lia)) as [Rc Fc].
  destruct (f_of_Z_exact N ltac:(lia)) as [RN FN].
  unfold fdivZ. rewrite div_equiv.
  assert (HN0 : B2R (Prim2B (f_of_Z N)) <> 0%R).
  { rewrite RN. apply not_0_IZR. lia. }
  pose proof (Bdiv_correct FloatOps.prec FloatOps.emax Hprec Hmax mode_NE
                (Prim2B (f_of_Z c)) (Prim2B (f_of_Z N)) HN0) as H.
  rewrite fexp_eq, Rc, RN in H.
  change (round radix2 fexp64 (round_mode mode_NE)) with rnd64 in H.
  fold fexp64. fold rnd64.
  destruct (div_boundary c N Hc HN) as [_ [_ [Hlo Hhi]]].
  rewrite Rlt_bool_true in H.
  - destruct H as [H1 [H2 _]]. split; [exact H1 | rewrite H2; exact Fc].
  - rewrite Rabs_pos_eq by assumption.
    pose proof bpow_1024_big. pose proof P53pos.
    assert (1 <= P53)%R by (apply IZR_le; lia).
    change FloatOps.emax with 1024%Z. lra.
Qed.

Lemma Prim2B_one : Prim2B 1%float = @Bone _ _ Hprec Hmax.
Proof. change 1%float with one. rewrite one_equiv. apply Prim2B_B2Prim. Qed.
Lemma Prim2B_zero : Prim2B 0%float = B754_zero false.
Proof. change 0%float with zero. rewrite zero_equiv. apply Prim2B_B2Prim. Qed.

Lemma B2R_one : B2R (Prim2B 1%float) = 1%R /\ is_finite (Prim2B 1%float) = true.
Proof. rewrite Prim2B_one. split; [apply (@Bone_correct _ _ Hprec Hmax) | apply (@is_finite_Bone _ _ Hprec Hmax)]. Qed.
Lemma B2R_zero : B2R (Prim2B 0%float) = 0%R /\ is_finite (Prim2B 0%float) = true.
Proof. rewrite Prim2B_zero. split; reflexivity. Qed.

Lemma Req_bool_iff : forall x y : R, Req_bool x y = true <-> x = y.
Proof. intros x y. case Req_bool_spec; intros H; split; auto; discriminate. Qed.
Lemma Rlt_bool_iff : forall x y : R, Rlt_bool x y = true <-> (x < y)%R.
Proof. intros x y. case Rlt_bool_spec; intros H; split; auto; try discriminate. intro; lra. Qed.
Lemma Rle_bool_iff : forall x y : R, Rle_bool x y = true <-> (x <= y)%R.
Proof. intros x y. case Rle_bool_spec; intros H; split; auto; try discriminate. intro; lra. Qed.

(* ------------------------------------------------------------------ *)
(** * Main statements *)

Theorem fdivZ_boundary : forall c N : Z, (0 <= c <= N)%Z -> (0 < N <= 2^53)%Z ->
  (PrimFloat.eqb (fdivZ c N) 1%float = true <-> c = N) /\
  (PrimFloat.eqb (fdivZ c N) 0%float = true <-> c = 0%Z) /\
  PrimFloat.leb 0%float (fdivZ c N) = true /\
  PrimFloat.leb (fdivZ c N) 1%float = true /\
  (PrimFloat.ltb 0%float (fdivZ c N) = true <-> (0 < c)%Z) /\
  (PrimFloat.ltb (fdivZ c N) 1%float = true <-> (c < N)%Z).
Proof.
  intros c N Hc HN.
  destruct (fdivZ_exact c N Hc HN) as [Rq Fq].
  fold fexp64 in Rq. fold rnd64 in Rq.
  destruct B2R_one as [R1 F1]. destruct B2R_zero as [R0 F0].
  destruct (div_boundary c N Hc HN) as [B1 [B0 [Blo Bhi]]].
  set (q := rnd64 (IZR c / IZR N)) in *.
  rewrite !eqb_equiv, !leb_equiv, !ltb_equiv.
  rewrite !Beqb_correct, !Bleb_correct, !Bltb_correct by assumption.
  rewrite Rq, R1, R0.
  rewrite !Req_bool_iff, !Rlt_bool_iff, !Rle_bool_iff.
  repeat split; try assumption.
  - apply B1.
  - apply B1.
  - apply B0.
  - apply B0.
  - intro H. destruct (Z.eq_dec c 0) as [E|E]; [|lia].
    apply B0 in E. lra.
  - intro H. assert (q <> 0%R); [|lra]. intro E. apply B0 in E. lia.
  - intro H. destruct (Z.eq_dec c N) as [E|E]; [|lia].
    apply B1 in E. lra.
  - intro H. assert (q <> 1%R); [|lra]. intro E. apply B1 in E. lia.
Qed.

Theorem fdivZ_mono : forall c1 c2 N : Z, (0 <= c1 <= c2)%Z -> (c2 <= N)%Z -> (0 < N <= 2^53)%Z ->
  PrimFloat.leb (fdivZ c1 N) (fdivZ c2 N) = true.
Proof.
  intros c1 c2 N H1 H2 HN.
  destruct (fdivZ_exact c1 N ltac:(lia) HN) as [R1 F1].
  destruct (fdivZ_exact c2 N ltac:(lia) HN) as [R2 F2].
  rewrite leb_equiv, Bleb_correct, R1, R2 by assumption.
  apply Rle_bool_iff. apply rnd64_le.
  assert (0 < IZR N)%R by (apply IZR_lt; lia).
  assert (0 < / IZR N)%R by (apply Rinv_0_lt_compat; assumption).
  unfold Rdiv. apply Rmult_le_compat_r; [lra|]. apply IZR_le. lia.
Qed.

(** the reciprocal form is NOT safe: a concrete counterexample, by computation *)
Theorem frecipZ_refuted : PrimFloat.eqb (frecipZ 98 98) 1%float = false.
Proof. vm_compute. reflexivity. Qed.

Print Assumptions fdivZ_boundary.
