(** C19 — property theorems only. *)
From PV Require Import Lib.Common Model.C19_Pareto Proofs.C19_Pareto.
