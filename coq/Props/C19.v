(** C19 — property theorems only: statement, [exact] of a lemma proved elsewhere, [Print Assumptions].
    Model: Model/C19_Pareto.v (mirrors core/util/pareto.py is_pareto_efficient, opt/algo/pymoo_addon.py dominates,
    core/util/trans.py trans_ndpt_pseudo_dist, breed/prot/sel/prob/trans.py and breed/prot/sel/transfn.py
    trans_ndpt_to_vec_dist).  Weighted rows: [nth i (weighted wt fmat) []]; larger is better after weighting. *)
From Coq Require Import Permutation.
From PV Require Import Lib.Common Model.C19_Pareto Proofs.C19_Pareto Proofs.C19_Order Proofs.C19_Dist Proofs.C19_Norm.
Local Open Scope Q_scope.

(** the while loop ends within npt iterations, for every point set and weight vector (no fuel exhaustion) *)
Theorem C19_filter_terminates : forall wt fmat, exists idx, pareto_idx wt fmat = Some idx.
Proof. intros wt fmat. eexists. apply pareto_idx_eq. Qed.
Print Assumptions C19_filter_terminates.

(** a marked point is dominated by no point of the set (at least as good in every weighted objective, strictly
    better in one) *)
Theorem C19_filter_sound : forall m wt fmat idx i j, rectm m fmat -> length wt = m -> pareto_idx wt fmat = Some idx ->
  In i idx -> (j < length fmat)%nat ->
  ~ (Forall2 Qle (nth i (weighted wt fmat) []) (nth j (weighted wt fmat) []) /\
     exists k, (k < length (nth i (weighted wt fmat) []))%nat /\
               nth k (nth i (weighted wt fmat) []) 0 < nth k (nth j (weighted wt fmat) []) 0).
Proof. exact filter_sound_rel. Qed.
Print Assumptions C19_filter_sound.

(** every unmarked point is equalled or dominated by a marked one *)
Theorem C19_filter_complete : forall m wt fmat idx i, rectm m fmat -> length wt = m -> pareto_idx wt fmat = Some idx ->
  (i < length fmat)%nat -> ~ In i idx ->
  exists j, In j idx /\ j <> i /\
    (Forall2 Qeq (nth i (weighted wt fmat) []) (nth j (weighted wt fmat) []) \/
     (Forall2 Qle (nth i (weighted wt fmat) []) (nth j (weighted wt fmat) []) /\
      exists k, (k < length (nth i (weighted wt fmat) []))%nat /\
                nth k (nth i (weighted wt fmat) []) 0 < nth k (nth j (weighted wt fmat) []) 0)).
Proof. exact filter_complete_rel. Qed.
Print Assumptions C19_filter_complete.

(** mask and index forms agree: the index form is flatnonzero of the mask (increasing, duplicate-free, in range) *)
Theorem C19_mask_index_agree : forall wt fmat, exists idx mask,
  pareto_idx wt fmat = Some idx /\ pareto_mask wt fmat = Some mask /\ length mask = length fmat /\
  idx = filter (fun i => nth i mask false) (seq 0 (length fmat)) /\
  (forall i, (i < length fmat)%nat -> (nth i mask false = true <-> In i idx)) /\
  (forall i, In i idx -> (i < length fmat)%nat) /\ NoDup idx.
Proof. exact mask_index_agree_lemma. Qed.
Print Assumptions C19_mask_index_agree.

(** the set of efficient vectors is exactly the set of vectors of the point set that no point dominates
    (an order-free description) ... *)
Theorem C19_efficient_set_characterised : forall m wt fmat, rectm m fmat -> length wt = m ->
  forall v, (exists idx i, pareto_idx wt fmat = Some idx /\ In i idx /\ Forall2 Qeq (nth i (weighted wt fmat) []) v) <->
            ((exists r, In r (weighted wt fmat) /\ Forall2 Qeq r v) /\ forall q, In q (weighted wt fmat) -> domB q v = false).
Proof. exact eff_char. Qed.
Print Assumptions C19_efficient_set_characterised.

(** ... hence unaffected by the order of the points *)
Theorem C19_order_invariant : forall m wt fmat fmat', rectm m fmat -> length wt = m -> Permutation fmat fmat' ->
  forall v, eff_vec wt fmat v <-> eff_vec wt fmat' v.
Proof. exact order_invariant. Qed.
Print Assumptions C19_order_invariant.

(** positive rescaling of the objectives (column k of the weighted matrix times c_k > 0) changes neither the index
    form nor the mask *)
Theorem C19_positive_rescale_invariant : forall m wt c fmat, rectm m fmat -> length wt = m -> length c = m ->
  Forall (fun a => 0 < a) c ->
  pareto_idx (map2 Qmult wt c) fmat = pareto_idx wt fmat /\ pareto_mask (map2 Qmult wt c) fmat = pareto_mask wt fmat.
Proof. exact positive_rescale_invariant. Qed.
Print Assumptions C19_positive_rescale_invariant.

(** the same for the point matrix itself: multiplying objective k of every point by c_k > 0 *)
Theorem C19_positive_rescale_invariant_columns : forall m wt c fmat, rectm m fmat -> length wt = m -> length c = m ->
  Forall (fun a => 0 < a) c ->
  pareto_idx wt (map (fun r => map2 Qmult r c) fmat) = pareto_idx wt fmat /\
  pareto_mask wt (map (fun r => map2 Qmult r c) fmat) = pareto_mask wt fmat.
Proof. exact positive_rescale_columns. Qed.
Print Assumptions C19_positive_rescale_invariant_columns.

(** dominates: Pareto dominance (minimisation) on two feasible solutions, order of the violations otherwise;
    a feasible solution dominates every infeasible one and is never dominated by one *)
Theorem C19_dominates_spec : forall o1 c1 o2 c2, length o1 = length o2 ->
  (c1 <= 0 -> c2 <= 0 -> (dominates_m o1 c1 o2 c2 = true <->
       Forall2 Qle o1 o2 /\ exists k, (k < length o1)%nat /\ nth k o1 0 < nth k o2 0)) /\
  (~ (c1 <= 0 /\ c2 <= 0) -> (dominates_m o1 c1 o2 c2 = true <-> c1 < c2)) /\
  (c1 <= 0 -> ~ c2 <= 0 -> dominates_m o1 c1 o2 c2 = true) /\
  (~ c1 <= 0 -> c2 <= 0 -> dominates_m o1 c1 o2 c2 = false).
Proof. exact dominates_spec_lemma. Qed.
Print Assumptions C19_dominates_spec.

(** dominates is a strict partial order on (objective vector, violation) pairs *)
Theorem C19_dominates_strict_order :
  (forall o c, dominates_m o c o c = false) /\
  (forall o1 c1 o2 c2, dominates_m o1 c1 o2 c2 = true -> dominates_m o2 c2 o1 c1 = false) /\
  (forall o1 c1 o2 c2 o3 c3, length o1 = length o2 -> length o2 = length o3 ->
     dominates_m o1 c1 o2 c2 = true -> dominates_m o2 c2 o3 c3 = true -> dominates_m o1 c1 o3 c3 = true).
Proof. exact dominates_strict_order_lemma. Qed.
Print Assumptions C19_dominates_strict_order.

(** the (squared) result of the common body is the squared norm of the residual of the orthogonal projection of the
    min-max-normalised point on the line spanned by [lin]: closed form  |p|^2 - (p.lin)^2/|lin|^2,  minimal among the
    squared distances to all points t*lin of the line, residual orthogonal to the line *)
Theorem C19_dist_is_residual_norm2 : forall m mat mulv lin, rectm m mat -> mat <> [] -> length mulv = m -> length lin = m ->
  Exists (fun x => ~ x == 0) lin ->
  trans_body true mat mulv lin = TFinite (map (residual2 lin (/ dotQ lin lin)) (normalised mat mulv)) /\
  length (normalised mat mulv) = length mat /\
  Forall (fun p => length p = m /\
                   residual2 lin (/ dotQ lin lin) p == dotQ p p - dotQ p lin * dotQ p lin / dotQ lin lin /\
                   (forall t, residual2 lin (/ dotQ lin lin) p <= dist2_to lin p t) /\
                   dotQ (map2 Qminus p (map (fun l => (/ dotQ lin lin * dotQ p lin) * l) lin)) lin == 0)
         (normalised mat mulv).
Proof. exact dist_geometric. Qed.
Print Assumptions C19_dist_is_residual_norm2.

(** the normalised points are the min-max scaling of the signed columns: entry (i,k) is (x_ik - min_k)/(max_k - min_k)
    with min_k, max_k the attained column extremes, and 0 when the objective is constant; all entries lie in [0,1] *)
Theorem C19_normalised_is_minmax_scaling : forall m mat mulv i k, rectm m mat -> length mulv = m -> (i < length mat)%nat -> (k < m)%nat ->
  let colk := map (fun r => nth k r 0) (map (fun r => map2 Qmult r mulv) mat) in
  exists mn mx, In mn colk /\ In mx colk /\ Forall (fun y => mn <= y <= mx) colk /\
    nth k (nth i (normalised mat mulv) []) 0 == (if Qeq_bool (mx - mn) 0 then 0 else (nth i colk 0 - mn) / (mx - mn)).
Proof. exact normalised_minmax. Qed.
Print Assumptions C19_normalised_is_minmax_scaling.

Theorem C19_normalised_range : forall m mat mulv, rectm m mat -> length mulv = m ->
  Forall (Forall (fun y => 0 <= y <= 1)) (normalised mat mulv).
Proof. exact normalised_range. Qed.
Print Assumptions C19_normalised_range.

(** core/util/trans.py is that body with the columns signed by objfn_minmax and the line spanned by the pseudoweights *)
Theorem C19_dist_core_roles : forall mat minmax pw, Forall (fun x => 0 <= x) pw -> Exists (fun x => 0 < x) pw ->
  trans_core mat minmax pw = trans_body true mat minmax pw.
Proof. exact trans_core_body. Qed.
Print Assumptions C19_dist_core_roles.

(** translation of the front does not change the distances: all three functions (the selection copies are
    [trans_body true mat obj_wt vec_wt]), and also their former code and the unguarded variant *)
Theorem C19_translation_invariant : forall m guard mat t mulv lin, rectm m mat -> length t = m -> length mulv = m ->
  tres_eq (trans_body guard (map (fun r => map2 Qplus r t) mat) mulv lin) (trans_body guard mat mulv lin).
Proof. exact translation_invariant_lemma. Qed.
Print Assumptions C19_translation_invariant.

(** in particular both selection copies (the hypothesis is on the sign vector, which multiplies the columns) *)
Theorem C19_translation_invariant_sel : forall m mat t sign pref, rectm m mat -> length t = m -> length sign = m ->
  tres_eq (trans_sel_prob (map (fun r => map2 Qplus r t) mat) sign pref) (trans_sel_prob mat sign pref) /\
  tres_eq (trans_sel_fn (map (fun r => map2 Qplus r t) mat) sign pref) (trans_sel_fn mat sign pref).
Proof. intros m mat t sign pref Hr Ht Hs. split; now apply (translation_invariant_lemma m true). Qed.
Print Assumptions C19_translation_invariant_sel.

Theorem C19_translation_invariant_core : forall m mat t minmax pw, rectm m mat -> length t = m -> length minmax = m ->
  tres_eq (trans_core (map (fun r => map2 Qplus r t) mat) minmax pw) (trans_core mat minmax pw).
Proof. exact translation_invariant_core. Qed.
Print Assumptions C19_translation_invariant_core.

(** finite (and non-negative, one value per point) whatever the columns are — in particular when an objective is
    constant: the core function for every non-negative non-zero preference vector ... *)
Theorem C19_finite_when_constant_core : forall mat minmax pw, mat <> [] -> Forall (fun x => 0 <= x) pw -> Exists (fun x => 0 < x) pw ->
  exists d2, trans_core mat minmax pw = TFinite d2 /\ length d2 = length mat /\ Forall (fun d => 0 <= d) d2.
Proof. exact finite_core. Qed.
Print Assumptions C19_finite_when_constant_core.

(** ... and both selection copies (current code: guard present, documented roles) for every sign vector and every
    non-zero line vector vec_wt / wt, in particular every non-negative non-zero preference vector *)
Theorem C19_finite_when_constant_sel : forall mat obj_wt vec_wt, mat <> [] -> Exists (fun x => ~ x == 0) vec_wt ->
  (exists d2, trans_sel_prob mat obj_wt vec_wt = TFinite d2 /\ length d2 = length mat /\ Forall (fun d => 0 <= d) d2) /\
  (exists d2, trans_sel_fn mat obj_wt vec_wt = TFinite d2 /\ length d2 = length mat /\ Forall (fun d => 0 <= d) d2).
Proof. intros mat o v Hm Hv. split; now apply finite_guarded. Qed.
Print Assumptions C19_finite_when_constant_sel.

(** the selection copies as they were before commit 47ce3c75 (no guard): a constant objective gives NaN *)
Theorem C19_finite_unguarded_refuted : exists mat obj_wt vec_wt, mat <> [] /\ Forall (fun x => 0 <= x) vec_wt /\
  Exists (fun x => 0 < x) vec_wt /\ Exists (fun x => ~ x == 0) obj_wt /\ trans_sel_unguarded mat obj_wt vec_wt = TNonFinite.
Proof. exact unguarded_refuted. Qed.
Print Assumptions C19_finite_unguarded_refuted.

(** the selection copies multiply the columns by obj_wt / objfn_wt (the objective signs) and measure the distance to the
    line spanned by vec_wt / wt (the preference vector), as documented: for every sign vector and every non-negative
    non-zero preference vector they are the core function with the same roles, hence (C19_dist_core_roles,
    C19_dist_is_residual_norm2) the geometric distance to the preference vector.  Full strength since commit 9b993ed9
    (formerly only for two coinciding vectors: C19_sel_documented_roles_partial) *)
Theorem C19_sel_documented_roles : forall mat sign pref, Forall (fun x => 0 <= x) pref -> Exists (fun x => 0 < x) pref ->
  trans_sel_prob mat sign pref = trans_core mat sign pref /\ trans_sel_fn mat sign pref = trans_core mat sign pref.
Proof. exact sel_is_core. Qed.
Print Assumptions C19_sel_documented_roles.

(** the same as a statement about the common body, without any hypothesis on the vectors *)
Theorem C19_sel_is_body_with_documented_roles : forall mat sign pref,
  trans_sel_prob mat sign pref = trans_body true mat sign pref /\ trans_sel_fn mat sign pref = trans_body true mat sign pref.
Proof. intros. split; reflexivity. Qed.
Print Assumptions C19_sel_is_body_with_documented_roles.

(** regression witnesses about the FORMER code of the selection copies ([old_trans_sel], before commit 9b993ed9, finding
    C19-trans-roles-swapped): it was the core function with the two vectors exchanged ... *)
Theorem C19_old_sel_is_core_with_exchanged_roles : forall mat obj_wt vec_wt, Forall (fun x => 0 <= x) obj_wt -> Exists (fun x => 0 < x) obj_wt ->
  old_trans_sel mat obj_wt vec_wt = trans_core mat vec_wt obj_wt.
Proof. exact old_sel_is_core_swapped. Qed.
Print Assumptions C19_old_sel_is_core_with_exchanged_roles.

(** ... so with the documented roles it did not compute the distance to the preference vector, on an input where the
    current code does *)
Theorem C19_old_sel_documented_roles_refuted : exists mat sign pref,
  Forall (fun s => s == 1 \/ s == -(1)) sign /\ Forall (fun x => 0 <= x) pref /\ Exists (fun x => 0 < x) pref /\
  ~ tres_eq (old_trans_sel mat sign pref) (trans_core mat sign pref) /\
  tres_eq (trans_sel_prob mat sign pref) (trans_core mat sign pref) /\
  tres_eq (trans_sel_fn mat sign pref) (trans_core mat sign pref).
Proof. exact old_sel_roles_refuted. Qed.
Print Assumptions C19_old_sel_documented_roles_refuted.

(** non-vacuity: concrete values meeting the hypotheses *)
Example C19_hyps_satisfiable :
  rectm 2 [[1; 2]; [2; 1]; [1; 1]; [2; 1]] /\ length [1; -(1 # 2)] = 2%nat /\ Forall (fun a => 0 < a) [2; 1 # 4] /\
  pareto_idx [1; 1] [[1; 2]; [2; 1]; [1; 1]; [2; 1]] = Some [0%nat; 1%nat] /\
  pareto_mask [1; 1] [[1; 2]; [2; 1]; [1; 1]; [2; 1]] = Some [true; true; false; false] /\
  Forall (fun x => 0 <= x) [1 # 2; 0] /\ Exists (fun x => 0 < x) [1 # 2; 0] /\ Exists (fun x => ~ x == 0) [1; -(1)] /\
  dominates_m [1; 2] 0 [1; 3] (-(1)) = true /\ dominates_m [5; 5] (-(1)) [0; 0] (1 # 2) = true /\
  tres_eq (trans_core [[1; 5]; [2; 5]; [4; 5]] [1; 1] [1; 1]) (TFinite [0; 1 # 18; 1 # 2]).
Proof.
  repeat split; try reflexivity; repeat constructor; try (unfold Qlt, Qle; cbn; lia); try (intro H; discriminate H).
Qed.
