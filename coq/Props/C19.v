(** C19 — property theorems only: statement, [exact] of a lemma proved elsewhere, [Print Assumptions].
    Model: Model/C19_Pareto.v (mirrors core/util/pareto.py is_pareto_efficient, opt/algo/pymoo_addon.py dominates,
    core/util/trans.py trans_ndpt_pseudo_dist, breed/prot/sel/prob/trans.py and breed/prot/sel/transfn.py
    trans_ndpt_to_vec_dist).  Weighted rows: [nth i (weighted wt fmat) []]; larger is better after weighting. *)
From Coq Require Import Permutation.
From PV Require Import Lib.Common Model.C19_Pareto Proofs.C19_Pareto Proofs.C19_Order Proofs.C19_Dist Proofs.C19_Norm
  Gen.C19_Kernel Proofs.C19_Kernel Proofs.C19_Unit Model.C19_Tol Proofs.C19_Online.
Local Open Scope Q_scope.

(** the while loop ends within npt iterations, for every point set and weight vector (no fuel exhaustion) *)
Theorem C19_filter_terminates : forall wt fmat, exists idx, pareto_idx wt fmat = Some idx.
Proof. intros wt fmat. eexists. apply pareto_idx_eq. Qed.
Print Assumptions C19_filter_terminates.

(** a marked point is dominated by no point of the set (at least as good in every weighted objective, strictly
    better in one) *)
Theorem C19_filter_sound : forall m wt fmat idx i j, rectm m fmat -> length wt = m -> pareto_idx wt fmat = Some idx ->
  In i idx -> (j < length fmat)%nat ->
  ~ (Forall2 Qle (nth i (weighted wt fmat) []) (nth j (weighted wt fmat) []) /\
     exists k, (k < length (nth i (weighted wt fmat) []))%nat /\
               nth k (nth i (weighted wt fmat) []) 0 < nth k (nth j (weighted wt fmat) []) 0).
Proof. exact filter_sound_rel. Qed.
Print Assumptions C19_filter_sound.

(** every unmarked point is equalled or dominated by a marked one *)
Theorem C19_filter_complete : forall m wt fmat idx i, rectm m fmat -> length wt = m -> pareto_idx wt fmat = Some idx ->
  (i < length fmat)%nat -> ~ In i idx ->
  exists j, In j idx /\ j <> i /\
    (Forall2 Qeq (nth i (weighted wt fmat) []) (nth j (weighted wt fmat) []) \/
     (Forall2 Qle (nth i (weighted wt fmat) []) (nth j (weighted wt fmat) []) /\
      exists k, (k < length (nth i (weighted wt fmat) []))%nat /\
                nth k (nth i (weighted wt fmat) []) 0 < nth k (nth j (weighted wt fmat) []) 0)).
Proof. exact filter_complete_rel. Qed.
Print Assumptions C19_filter_complete.

(** mask and index forms agree: the index form is flatnonzero of the mask (increasing, duplicate-free, in range) *)
Theorem C19_mask_index_agree : forall wt fmat, exists idx mask,
  pareto_idx wt fmat = Some idx /\ pareto_mask wt fmat = Some mask /\ length mask = length fmat /\
  idx = filter (fun i => nth i mask false) (seq 0 (length fmat)) /\
  (forall i, (i < length fmat)%nat -> (nth i mask false = true <-> In i idx)) /\
  (forall i, In i idx -> (i < length fmat)%nat) /\ NoDup idx.
Proof. exact mask_index_agree_lemma. Qed.
Print Assumptions C19_mask_index_agree.

(** the set of efficient vectors is exactly the set of vectors of the point set that no point dominates
    (an order-free description) ... *)
Theorem C19_efficient_set_characterised : forall m wt fmat, rectm m fmat -> length wt = m ->
  forall v, (exists idx i, pareto_idx wt fmat = Some idx /\ In i idx /\ Forall2 Qeq (nth i (weighted wt fmat) []) v) <->
            ((exists r, In r (weighted wt fmat) /\ Forall2 Qeq r v) /\ forall q, In q (weighted wt fmat) -> domB q v = false).
Proof. exact eff_char. Qed.
Print Assumptions C19_efficient_set_characterised.

(** ... hence unaffected by the order of the points *)
Theorem C19_order_invariant : forall m wt fmat fmat', rectm m fmat -> length wt = m -> Permutation fmat fmat' ->
  forall v, eff_vec wt fmat v <-> eff_vec wt fmat' v.
Proof. exact order_invariant. Qed.
Print Assumptions C19_order_invariant.

(** positive rescaling of the objectives (column k of the weighted matrix times c_k > 0) changes neither the index
    form nor the mask *)
Theorem C19_positive_rescale_invariant : forall m wt c fmat, rectm m fmat -> length wt = m -> length c = m ->
  Forall (fun a => 0 < a) c ->
  pareto_idx (map2 Qmult wt c) fmat = pareto_idx wt fmat /\ pareto_mask (map2 Qmult wt c) fmat = pareto_mask wt fmat.
Proof. exact positive_rescale_invariant. Qed.
Print Assumptions C19_positive_rescale_invariant.

(** the same for the point matrix itself: multiplying objective k of every point by c_k > 0 *)
Theorem C19_positive_rescale_invariant_columns : forall m wt c fmat, rectm m fmat -> length wt = m -> length c = m ->
  Forall (fun a => 0 < a) c ->
  pareto_idx wt (map (fun r => map2 Qmult r c) fmat) = pareto_idx wt fmat /\
  pareto_mask wt (map (fun r => map2 Qmult r c) fmat) = pareto_mask wt fmat.
Proof. exact positive_rescale_columns. Qed.
Print Assumptions C19_positive_rescale_invariant_columns.

(** dominates: Pareto dominance (minimisation) on two feasible solutions, order of the violations otherwise;
    a feasible solution dominates every infeasible one and is never dominated by one *)
Theorem C19_dominates_spec : forall o1 c1 o2 c2, length o1 = length o2 ->
  (c1 <= 0 -> c2 <= 0 -> (dominates_m o1 c1 o2 c2 = true <->
       Forall2 Qle o1 o2 /\ exists k, (k < length o1)%nat /\ nth k o1 0 < nth k o2 0)) /\
  (~ (c1 <= 0 /\ c2 <= 0) -> (dominates_m o1 c1 o2 c2 = true <-> c1 < c2)) /\
  (c1 <= 0 -> ~ c2 <= 0 -> dominates_m o1 c1 o2 c2 = true) /\
  (~ c1 <= 0 -> c2 <= 0 -> dominates_m o1 c1 o2 c2 = false).
Proof. exact dominates_spec_lemma. Qed.
Print Assumptions C19_dominates_spec.

(** dominates is a strict partial order on (objective vector, violation) pairs *)
Theorem C19_dominates_strict_order :
  (forall o c, dominates_m o c o c = false) /\
  (forall o1 c1 o2 c2, dominates_m o1 c1 o2 c2 = true -> dominates_m o2 c2 o1 c1 = false) /\
  (forall o1 c1 o2 c2 o3 c3, length o1 = length o2 -> length o2 = length o3 ->
     dominates_m o1 c1 o2 c2 = true -> dominates_m o2 c2 o3 c3 = true -> dominates_m o1 c1 o3 c3 = true).
Proof. exact dominates_strict_order_lemma. Qed.
Print Assumptions C19_dominates_strict_order.

(** the (squared) result of the common body is the squared norm of the residual of the orthogonal projection of the
    min-max-normalised point on the line spanned by [lin]: closed form  |p|^2 - (p.lin)^2/|lin|^2,  minimal among the
    squared distances to all points t*lin of the line, residual orthogonal to the line *)
Theorem C19_dist_is_residual_norm2 : forall m mat mulv lin, rectm m mat -> mat <> [] -> length mulv = m -> length lin = m ->
  Exists (fun x => ~ x == 0) lin ->
  trans_body true mat mulv lin = TFinite (map (residual2 lin (/ dotQ lin lin)) (normalised mat mulv)) /\
  length (normalised mat mulv) = length mat /\
  Forall (fun p => length p = m /\
                   residual2 lin (/ dotQ lin lin) p == dotQ p p - dotQ p lin * dotQ p lin / dotQ lin lin /\
                   (forall t, residual2 lin (/ dotQ lin lin) p <= dist2_to lin p t) /\
                   dotQ (map2 Qminus p (map (fun l => (/ dotQ lin lin * dotQ p lin) * l) lin)) lin == 0)
         (normalised mat mulv).
Proof. exact dist_geometric. Qed.
Print Assumptions C19_dist_is_residual_norm2.

(** the normalised points are the min-max scaling of the signed columns: entry (i,k) is (x_ik - min_k)/(max_k - min_k)
    with min_k, max_k the attained column extremes, and 0 when the objective is constant; all entries lie in [0,1] *)
Theorem C19_normalised_is_minmax_scaling : forall m mat mulv i k, rectm m mat -> length mulv = m -> (i < length mat)%nat -> (k < m)%nat ->
  let colk := map (fun r => nth k r 0) (map (fun r => map2 Qmult r mulv) mat) in
  exists mn mx, In mn colk /\ In mx colk /\ Forall (fun y => mn <= y <= mx) colk /\
    nth k (nth i (normalised mat mulv) []) 0 == (if Qeq_bool (mx - mn) 0 then 0 else (nth i colk 0 - mn) / (mx - mn)).
Proof. exact normalised_minmax. Qed.
Print Assumptions C19_normalised_is_minmax_scaling.

Theorem C19_normalised_range : forall m mat mulv, rectm m mat -> length mulv = m ->
  Forall (Forall (fun y => 0 <= y <= 1)) (normalised mat mulv).
Proof. exact normalised_range. Qed.
Print Assumptions C19_normalised_range.

(** core/util/trans.py is that body with the columns signed by objfn_minmax and the line spanned by the pseudoweights *)
Theorem C19_dist_core_roles : forall mat minmax pw, Forall (fun x => 0 <= x) pw -> Exists (fun x => 0 < x) pw ->
  trans_core mat minmax pw = trans_body true mat minmax pw.
Proof. exact trans_core_body. Qed.
Print Assumptions C19_dist_core_roles.

(** translation of the front does not change the distances: all three functions (the selection copies are
    [trans_body true mat obj_wt vec_wt]), and also their former code and the unguarded variant *)
Theorem C19_translation_invariant : forall m guard mat t mulv lin, rectm m mat -> length t = m -> length mulv = m ->
  tres_eq (trans_body guard (map (fun r => map2 Qplus r t) mat) mulv lin) (trans_body guard mat mulv lin).
Proof. exact translation_invariant_lemma. Qed.
Print Assumptions C19_translation_invariant.

(** in particular both selection copies (the hypothesis is on the sign vector, which multiplies the columns) *)
Theorem C19_translation_invariant_sel : forall m mat t sign pref, rectm m mat -> length t = m -> length sign = m ->
  tres_eq (trans_sel_prob (map (fun r => map2 Qplus r t) mat) sign pref) (trans_sel_prob mat sign pref) /\
  tres_eq (trans_sel_fn (map (fun r => map2 Qplus r t) mat) sign pref) (trans_sel_fn mat sign pref).
Proof. intros m mat t sign pref Hr Ht Hs. split; now apply (translation_invariant_lemma m true). Qed.
Print Assumptions C19_translation_invariant_sel.

Theorem C19_translation_invariant_core : forall m mat t minmax pw, rectm m mat -> length t = m -> length minmax = m ->
  tres_eq (trans_core (map (fun r => map2 Qplus r t) mat) minmax pw) (trans_core mat minmax pw).
Proof. exact translation_invariant_core. Qed.
Print Assumptions C19_translation_invariant_core.

(** finite (and non-negative, one value per point) whatever the columns are — in particular when an objective is
    constant: the core function for every non-negative non-zero preference vector ... *)
Theorem C19_finite_when_constant_core : forall mat minmax pw, mat <> [] -> Forall (fun x => 0 <= x) pw -> Exists (fun x => 0 < x) pw ->
  exists d2, trans_core mat minmax pw = TFinite d2 /\ length d2 = length mat /\ Forall (fun d => 0 <= d) d2.
Proof. exact finite_core. Qed.
Print Assumptions C19_finite_when_constant_core.

(** ... and both selection copies (current code: guard present, documented roles) for every sign vector and every
    non-zero line vector vec_wt / wt, in particular every non-negative non-zero preference vector *)
Theorem C19_finite_when_constant_sel : forall mat obj_wt vec_wt, mat <> [] -> Exists (fun x => ~ x == 0) vec_wt ->
  (exists d2, trans_sel_prob mat obj_wt vec_wt = TFinite d2 /\ length d2 = length mat /\ Forall (fun d => 0 <= d) d2) /\
  (exists d2, trans_sel_fn mat obj_wt vec_wt = TFinite d2 /\ length d2 = length mat /\ Forall (fun d => 0 <= d) d2).
Proof. intros mat o v Hm Hv. split; now apply finite_guarded. Qed.
Print Assumptions C19_finite_when_constant_sel.

(** the selection copies as they were before commit 47ce3c75 (no guard): a constant objective gives NaN *)
Theorem C19_finite_unguarded_refuted : exists mat obj_wt vec_wt, mat <> [] /\ Forall (fun x => 0 <= x) vec_wt /\
  Exists (fun x => 0 < x) vec_wt /\ Exists (fun x => ~ x == 0) obj_wt /\ trans_sel_unguarded mat obj_wt vec_wt = TNonFinite.
Proof. exact unguarded_refuted. Qed.
Print Assumptions C19_finite_unguarded_refuted.

(** the selection copies multiply the columns by obj_wt / objfn_wt (the objective signs) and measure the distance to the
    line spanned by vec_wt / wt (the preference vector), as documented: for every sign vector and every non-negative
    non-zero preference vector they are the core function with the same roles, hence (C19_dist_core_roles,
    C19_dist_is_residual_norm2) the geometric distance to the preference vector.  Full strength since commit 9b993ed9
    (formerly only for two coinciding vectors: C19_sel_documented_roles_partial) *)
Theorem C19_sel_documented_roles : forall mat sign pref, Forall (fun x => 0 <= x) pref -> Exists (fun x => 0 < x) pref ->
  trans_sel_prob mat sign pref = trans_core mat sign pref /\ trans_sel_fn mat sign pref = trans_core mat sign pref.
Proof. exact sel_is_core. Qed.
Print Assumptions C19_sel_documented_roles.

(** the same as a statement about the common body, without any hypothesis on the vectors *)
Theorem C19_sel_is_body_with_documented_roles : forall mat sign pref,
  trans_sel_prob mat sign pref = trans_body true mat sign pref /\ trans_sel_fn mat sign pref = trans_body true mat sign pref.
Proof. intros. split; reflexivity. Qed.
Print Assumptions C19_sel_is_body_with_documented_roles.

(** regression witnesses about the FORMER code of the selection copies ([old_trans_sel], before commit 9b993ed9, finding
    C19-trans-roles-swapped): it was the core function with the two vectors exchanged ... *)
Theorem C19_old_sel_is_core_with_exchanged_roles : forall mat obj_wt vec_wt, Forall (fun x => 0 <= x) obj_wt -> Exists (fun x => 0 < x) obj_wt ->
  old_trans_sel mat obj_wt vec_wt = trans_core mat vec_wt obj_wt.
Proof. exact old_sel_is_core_swapped. Qed.
Print Assumptions C19_old_sel_is_core_with_exchanged_roles.

(** ... so with the documented roles it did not compute the distance to the preference vector, on an input where the
    current code does *)
Theorem C19_old_sel_documented_roles_refuted : exists mat sign pref,
  Forall (fun s => s == 1 \/ s == -(1)) sign /\ Forall (fun x => 0 <= x) pref /\ Exists (fun x => 0 < x) pref /\
  ~ tres_eq (old_trans_sel mat sign pref) (trans_core mat sign pref) /\
  tres_eq (trans_sel_prob mat sign pref) (trans_core mat sign pref) /\
  tres_eq (trans_sel_fn mat sign pref) (trans_core mat sign pref).
Proof. exact old_sel_roles_refuted. Qed.
Print Assumptions C19_old_sel_documented_roles_refuted.

(** change of unit: expressing objective k of every point of the front in another unit (column k times c_k > 0, however small
    or large, e.g. 2^-40) changes none of the distances, for all three functions *)
Theorem C19_unit_invariant : forall m mat c sign pref, rectm m mat -> length c = m -> length sign = m -> Forall (fun a => 0 < a) c ->
  tres_eq (trans_core (map (fun r => map2 Qmult r c) mat) sign pref) (trans_core mat sign pref) /\
  tres_eq (trans_sel_prob (map (fun r => map2 Qmult r c) mat) sign pref) (trans_sel_prob mat sign pref) /\
  tres_eq (trans_sel_fn (map (fun r => map2 Qmult r c) mat) sign pref) (trans_sel_fn mat sign pref).
Proof. exact unit_invariant_all. Qed.
Print Assumptions C19_unit_invariant.

(** the same about the common body, for both vectors arbitrary *)
Theorem C19_unit_invariant_body : forall m mat c mulv lin, rectm m mat -> length c = m -> length mulv = m -> Forall (fun a => 0 < a) c ->
  tres_eq (trans_body true (map (fun r => map2 Qmult r c) mat) mulv lin) (trans_body true mat mulv lin).
Proof. exact unit_invariant_lemma. Qed.
Print Assumptions C19_unit_invariant_body.

(** * the kernel expressions of the CURRENT source

    Gen/C19_Kernel.v is regenerated from pareto.py, pymoo_addon.py and the three transformation files on every run.  The
    expressions of the source are the operations the model is built from: the weighting, the strict comparison with the pivot,
    the loop guard, the next pivot index and the whole loop re-assembled from them; the body of [dominates]; and, for each of
    the three distance transformations, the twelve expressions of its body — assembled in the statement order of the source
    ([kern_body]) they give the model's result for every matrix and every pair of vectors. *)
Theorem C19_kernel_is_model :
  (forall wt r, map2 k_par_weight r wt = wrow wt r) /\
  (forall q p, existsb (fun b : bool => b) (map2 k_par_better q p) = gt_any q p) /\
  (forall ix n : nat, k_par_guard (Z.of_nat ix) (Z.of_nat n) = (ix <? n)%nat) /\
  (forall c : nat, k_par_next (Z.of_nat c) = Z.of_nat (c + 1)) /\
  (forall wt fmat, kern_pareto_idx wt fmat = pareto_idx wt fmat) /\
  (forall o1 c1 o2 c2, k_dominates o1 c1 o2 c2 = dominates_m o1 c1 o2 c2) /\
  tkern_ok K_core /\ tkern_ok K_prob /\ tkern_ok K_fn /\
  (forall mat minmax pw, tres_eq (kern_core mat minmax pw) (trans_core mat minmax pw)) /\
  (forall mat obj_wt vec_wt, tres_eq (kern_body K_prob mat obj_wt vec_wt) (trans_sel_prob mat obj_wt vec_wt)) /\
  (forall mat objfn_wt wt, tres_eq (kern_body K_fn mat objfn_wt wt) (trans_sel_fn mat objfn_wt wt)).
Proof. exact kernel_is_model. Qed.
Print Assumptions C19_kernel_is_model.

(** the zero-range guard of every copy, as written in the source, is the EXACT test (it fires on a zero range and on no
    other, however small); with it the scale is always finite, 0 for a constant objective and the exact reciprocal otherwise
    (the entry attaining the maximum is mapped to 1); measuring an objective in another unit (entries and range times any
    c <> 0, e.g. 2^-40) leaves every normalised entry unchanged; the normalised entry is (x*s - min)/range *)
Theorem C19_kernel_guard_and_scale : all_copies (fun K =>
  (forall m, t_guard K m = true <-> m == 0) /\
  (forall m, kern_scale1 K m = Some (kern_scale K m)) /\
  (forall m, m == 0 -> kern_scale K m == 0) /\
  (forall m, ~ m == 0 -> t_scaled K (kern_scale K m) m == 1) /\
  (forall c m x, ~ c == 0 -> t_scaled K (kern_scale K (c * m)) (c * x) == t_scaled K (kern_scale K m) x) /\
  (forall x s mn range, kern_norm_entry K x s mn range == (if Qeq_bool range 0 then 0 else (x * s - mn) / range))).
Proof. exact kernel_scale_laws. Qed.
Print Assumptions C19_kernel_guard_and_scale.

Theorem C19_kernel_guards_exact : forall m,
  (k_core_guard m = true <-> m == 0) /\ (k_prob_guard m = true <-> m == 0) /\ (k_fn_guard m = true <-> m == 0).
Proof. exact kernel_guards_exact. Qed.
Print Assumptions C19_kernel_guards_exact.

(** the selection copies assembled from their generated kernels are the core function, with the documented roles *)
Theorem C19_kernel_sel_is_core : forall mat sign pref, Forall (fun x => 0 <= x) pref -> Exists (fun x => 0 < x) pref ->
  tres_eq (kern_body K_prob mat sign pref) (trans_core mat sign pref) /\ tres_eq (kern_body K_fn mat sign pref) (trans_core mat sign pref).
Proof. exact kern_sel_is_core. Qed.
Print Assumptions C19_kernel_sel_is_core.

(** [dominates] as written in the source: Pareto dominance on feasible pairs, violation order otherwise *)
Theorem C19_kernel_dominates_spec : forall o1 c1 o2 c2, length o1 = length o2 ->
  (c1 <= 0 -> c2 <= 0 -> (k_dominates o1 c1 o2 c2 = true <->
       Forall2 Qle o1 o2 /\ exists k, (k < length o1)%nat /\ nth k o1 0 < nth k o2 0)) /\
  (~ (c1 <= 0 /\ c2 <= 0) -> (k_dominates o1 c1 o2 c2 = true <-> c1 < c2)) /\
  (c1 <= 0 -> ~ c2 <= 0 -> k_dominates o1 c1 o2 c2 = true) /\
  (~ c1 <= 0 -> c2 <= 0 -> k_dominates o1 c1 o2 c2 = false).
Proof. exact kern_dominates_spec. Qed.
Print Assumptions C19_kernel_dominates_spec.

(** the filter re-assembled from the generated loop guard, comparison, weighting and pivot-index expressions terminates,
    marks only non-dominated points, and every unmarked point is equalled or dominated by a marked one; the comparison with
    the pivot is strict (a duplicate of the pivot does not survive it) *)
Theorem C19_kernel_filter : forall m wt fmat, rectm m fmat -> length wt = m ->
  exists idx, kern_pareto_idx wt fmat = Some idx /\
    (forall i j, In i idx -> (j < length fmat)%nat ->
       ~ (Forall2 Qle (nth i (weighted wt fmat) []) (nth j (weighted wt fmat) []) /\
          exists k, (k < length (nth i (weighted wt fmat) []))%nat /\
                    nth k (nth i (weighted wt fmat) []) 0 < nth k (nth j (weighted wt fmat) []) 0)) /\
    (forall i, (i < length fmat)%nat -> ~ In i idx ->
       exists j, In j idx /\ j <> i /\
         (Forall2 Qeq (nth i (weighted wt fmat) []) (nth j (weighted wt fmat) []) \/
          (Forall2 Qle (nth i (weighted wt fmat) []) (nth j (weighted wt fmat) []) /\
           exists k, (k < length (nth i (weighted wt fmat) []))%nat /\
                     nth k (nth i (weighted wt fmat) []) 0 < nth k (nth j (weighted wt fmat) []) 0))).
Proof.
  intros m wt fmat HR HW. destruct (kern_filter_terminates wt fmat) as [idx E]. exists idx. split; [exact E|]. split.
  - intros i j. exact (kern_filter_sound m wt fmat idx i j HR HW E).
  - intros i. exact (kern_filter_complete m wt fmat idx i HR HW E).
Qed.
Print Assumptions C19_kernel_filter.

Theorem C19_kernel_pivot_comparison_strict : forall q p, (k_par_better q p = true <-> p < q) /\ k_par_better q q = false.
Proof. intros q p. split; [apply k_par_better_strict | apply k_par_better_irrefl]. Qed.
Print Assumptions C19_kernel_pivot_comparison_strict.

(** * points ON the preference line

    a min-max-scaled point that is a multiple of the line vector has squared residual exactly 0 (so the distance returned for a
    knee point of a symmetric front under an equal preference, or for a point collinear with a preference vector that has zero
    entries, is 0 whatever the magnitude of the preference vector), and no other point has *)
Theorem C19_on_line_distance_zero : forall lin p t, length p = length lin -> ~ dotQ lin lin == 0 ->
  Forall2 Qeq p (map (fun l => t * l) lin) -> residual2 lin (/ dotQ lin lin) p == 0.
Proof. exact on_line_zero. Qed.
Print Assumptions C19_on_line_distance_zero.

Theorem C19_residual_zero_iff_multiple : forall lin p, length p = length lin -> ~ dotQ lin lin == 0 ->
  (residual2 lin (/ dotQ lin lin) p == 0 <-> exists t, Forall2 Qeq p (map (fun l => t * l) lin)).
Proof. exact residual2_zero_iff. Qed.
Print Assumptions C19_residual_zero_iff_multiple.

(** all three functions: the distance of point i is 0 iff its scaled point is a NON-NEGATIVE multiple of the preference vector *)
Theorem C19_distance_zero_iff_on_preference_line : forall m mat sign pref i, rectm m mat -> length sign = m -> length pref = m ->
  Forall (fun x => 0 <= x) pref -> Exists (fun x => 0 < x) pref -> (i < length mat)%nat ->
  exists d2, trans_core mat sign pref = TFinite d2 /\ trans_sel_prob mat sign pref = TFinite d2 /\ trans_sel_fn mat sign pref = TFinite d2 /\
    length d2 = length mat /\
    (nth i d2 0 == 0 <-> exists t, 0 <= t /\ Forall2 Qeq (nth i (normalised mat sign) []) (map (fun l => t * l) pref)).
Proof. exact zero_iff_on_line. Qed.
Print Assumptions C19_distance_zero_iff_on_preference_line.

(** the same about the three bodies assembled from the kernel expressions of the current source *)
Theorem C19_kernel_distance_zero_iff_on_preference_line : forall m mat sign pref i, rectm m mat -> length sign = m -> length pref = m ->
  Forall (fun x => 0 <= x) pref -> Exists (fun x => 0 < x) pref -> (i < length mat)%nat ->
  forall r, In r [kern_core mat sign pref; kern_body K_prob mat sign pref; kern_body K_fn mat sign pref] ->
  exists d2, r = TFinite d2 /\ length d2 = length mat /\
    (nth i d2 0 == 0 <-> exists t, 0 <= t /\ Forall2 Qeq (nth i (normalised mat sign) []) (map (fun l => t * l) pref)).
Proof. exact kern_zero_iff_on_line. Qed.
Print Assumptions C19_kernel_distance_zero_iff_on_preference_line.

(** the comparison used for non-dyadic preference vectors (regime T on the distance itself, |x - sqrt y| <= 2^-40): against a
    model distance of exactly 0 it admits exactly the results in [0, 2^-40]; it implies the comparison on the squares *)
Theorem C19_tolerance_at_zero : forall x y, y == 0 -> (dist_close x y = true <-> 0 <= x <= 1 # 1099511627776).
Proof. exact dist_close_zero. Qed.
Print Assumptions C19_tolerance_at_zero.

Theorem C19_tolerance_strengthens : forall m o, tres_agree_t m o = true -> tres_agree m o = true.
Proof. exact tres_agree_t_implies. Qed.
Print Assumptions C19_tolerance_strengthens.

(** non-vacuity: the knee point of a symmetric front under the preference (3/10, 3/10) and a point collinear with (0, 7/10, 7/10);
    7.45e-9 (what a difference of squares leaves on the line) is rejected against 0, 1e-16 is accepted *)
Example C19_on_line_hyps_satisfiable :
  tres_eq (trans_core [[10; 30]; [20; 20]; [30; 10]] [-(1); -(1)] [3 # 10; 3 # 10]) (TFinite [1 # 2; 0; 1 # 2]) /\
  Forall2 Qeq (nth 1%nat (normalised [[10; 30]; [20; 20]; [30; 10]] [-(1); -(1)]) []) (map (fun l => (5 # 3) * l) [3 # 10; 3 # 10]) /\
  tres_eq (kern_body K_prob [[5; 1; 1]; [1; 5; 3]; [3; 3; 5]] [-(1); 1; 1] [0; 7 # 10; 7 # 10]) (TFinite [0; 9 # 8; 3 # 8]) /\
  ~ dotQ [0; 7 # 10; 7 # 10] [0; 7 # 10; 7 # 10] == 0 /\
  dist_close (745 # 100000000000) 0 = false /\ dist_close (1 # 10000000000000000) 0 = true /\
  tres_agree_t (TFinite [1 # 2; 0]) (OVals [6369051672525773 # 9007199254740992; 1 # 10000000000000000]) = true.
Proof.
  split; [vm_compute; repeat constructor|]. split; [vm_compute; repeat constructor|]. split; [vm_compute; repeat constructor|].
  split; [intro H; discriminate H|]. repeat split; vm_compute; reflexivity.
Qed.

(** non-vacuity: concrete values meeting the hypotheses *)
Example C19_hyps_satisfiable :
  rectm 2 [[1; 2]; [2; 1]; [1; 1]; [2; 1]] /\ length [1; -(1 # 2)] = 2%nat /\ Forall (fun a => 0 < a) [2; 1 # 4] /\
  pareto_idx [1; 1] [[1; 2]; [2; 1]; [1; 1]; [2; 1]] = Some [0%nat; 1%nat] /\
  pareto_mask [1; 1] [[1; 2]; [2; 1]; [1; 1]; [2; 1]] = Some [true; true; false; false] /\
  Forall (fun x => 0 <= x) [1 # 2; 0] /\ Exists (fun x => 0 < x) [1 # 2; 0] /\ Exists (fun x => ~ x == 0) [1; -(1)] /\
  dominates_m [1; 2] 0 [1; 3] (-(1)) = true /\ dominates_m [5; 5] (-(1)) [0; 0] (1 # 2) = true /\
  tres_eq (trans_core [[1; 5]; [2; 5]; [4; 5]] [1; 1] [1; 1]) (TFinite [0; 1 # 18; 1 # 2]).
Proof.
  repeat split; try reflexivity; repeat constructor; try (unfold Qlt, Qle; cbn; lia); try (intro H; discriminate H).
Qed.

(** the generated kernels on the same values; a change of unit by 2^-40 of the first objective *)
Example C19_kernel_hyps_satisfiable :
  kern_pareto_idx [1; 1] [[1; 2]; [2; 1]; [1; 1]; [2; 1]] = Some [0%nat; 1%nat] /\
  k_dominates [1; 2] 0 [1; 3] (-(1)) = true /\ ~ (1 # 1099511627776) == 0 /\ Forall (fun a => 0 < a) [1 # 1099511627776; 1] /\
  tres_eq (kern_body K_fn [[1; 5]; [2; 5]; [4; 5]] [1; 1] [1; 1]) (TFinite [0; 1 # 18; 1 # 2]) /\
  tres_eq (kern_body K_prob (map (fun r => map2 Qmult r [1 # 1099511627776; 1]) [[1; 5]; [2; 5]; [4; 5]]) [1; 1] [1; 1]) (TFinite [0; 1 # 18; 1 # 2]).
Proof.
  split; [vm_compute; reflexivity|]. split; [vm_compute; reflexivity|]. split; [intro H; discriminate H|].
  split; [repeat constructor|].
  split; vm_compute; repeat constructor.
Qed.
