(** C12 — property theorems only: statement, [exact] of a lemma proved in Proofs/C12_*.v, [Print Assumptions].
    Model: Model/C12_Var.v (mirrors the from_algmod loop nests of all variance / covariance classes, util.py, srange, _calc_uc);
    specification: Model/C12_Enum.v (exhaustive gamete enumeration). *)
From Coq Require Import Reals.
From PV Require Import Lib.Common Model.C12_Var Model.C12_Enum Proofs.C12_Sums Proofs.C12_Chunks Proofs.C12_Var Proofs.C12_Selfing
  Proofs.C12_Meiosis Proofs.C12_Exact Proofs.C12_Genic Proofs.C12_Findings Proofs.C12_Lift Proofs.C12_Multi Proofs.C12_Top
  Model.C12_KernelBase Gen.C12_Kernel Proofs.C12_Kernel Proofs.C12_Scale.
Local Open Scope Q_scope.

(** ** memory chunking *)
(** zip(range(l,u,s), srange(l+s,u,s)) tiles the linkage group [l,u) exactly once and in order, for every step s >= 1 *)
Theorem C12_chunks_partition : forall lst lsp step : nat, (1 <= step)%nat ->
  concat (map ixs (chunks lst lsp step)) = seq lst (lsp - lst).
Proof. exact chunks_partition. Qed.
Print Assumptions C12_chunks_partition.

(** hence no entry of any of the four genetic (co)variance matrices depends on the chunk size (any two admissible values of mem) *)
Theorem C12_chunk_invariant : forall S m geno geno1 t1 t2, mem_ok (s_mem S) -> mem_ok m ->
  (forall f ml, twoway_entry (with_mem S m) geno t1 t2 f ml == twoway_entry S geno t1 t2 f ml) /\
  (forall r f ml, threeway_entry (with_mem S m) geno t1 t2 r f ml == threeway_entry S geno t1 t2 r f ml) /\
  (forall f2 m2 f1 m1, fourway_entry (with_mem S m) geno t1 t2 f2 m2 f1 m1 == fourway_entry S geno t1 t2 f2 m2 f1 m1) /\
  (forall f ml, dihybrid_entry (with_mem S m) geno geno1 t1 t2 f ml == dihybrid_entry S geno geno1 t1 t2 f ml).
Proof. exact chunk_invariant. Qed.
Print Assumptions C12_chunk_invariant.

(** ** two-way cross, nself = 0: exact for every number of loci *)
(** For every vector [ps] of gap recombination probabilities (L = |ps|+1 loci; the gap in front of every linkage group but the first
    is 1/2), every layout of linkage groups, every pair of parents and traits: if the D1 table holds the coded cov_D1s of the pair's
    recombination fraction, the accumulated value is the covariance of the two doubled-haploid trait values under the exhaustively
    enumerated gamete distribution (uniform initial strand, independent crossovers). *)
Theorem C12_twoway_nself0_exact : forall S ps t1 t2 gA gB,
  let L := Datatypes.S (length ps) in
  mem_ok (s_mem S) -> consecutive (s_chroms S) 0 L -> free_between ps 0 (s_chroms S) ->
  (forall c i j, In c (s_chroms S) -> In i (ixs c) -> In j (ixs c) -> s_D1 S i j == cov_D1s (rpair ps i j) (Some 0%nat)) ->
  twoway_low S t1 t2 gA gB ==
  cov_gam ps (vals (s_u S) t1 gA L) (vals (s_u S) t1 gB L) (vals (s_u S) t2 gA L) (vals (s_u S) t2 gB L).
Proof. exact twoway_nself0_exact. Qed.
Print Assumptions C12_twoway_nself0_exact.

(** the enumerated covariance as an explicit double sum with the product of (1 - 2 p_k) over the gaps between the loci *)
Theorem C12_gamete_covariance_closed_form : forall ps a1 b1 a2 b2,
  length a1 = S (length ps) -> length b1 = S (length ps) -> length a2 = S (length ps) -> length b2 = S (length ps) ->
  cov_gam ps a1 b1 a2 b2 == dsum (rho ps) (nthq (wdiff a1 b1)) (nthq (wdiff a2 b2)) (seq 0 (S (length ps))) (seq 0 (S (length ps))).
Proof. exact cov_gam_dsum. Qed.
Print Assumptions C12_gamete_covariance_closed_form.

(** Haldane's map function has no interference: over any chain of gaps, 1 - 2 r(total) is the product of the gaps' 1 - 2 r —
    the recombination fractions mapfn(|x_i - x_j|) have exactly the [rpair] form quantified over above *)
Theorem C12_haldane_no_interference : forall gaps : list R,
  (1 - 2 * haldane (rsum gaps) = rprod (map (fun g => 1 - 2 * haldane g) gaps))%R.
Proof. exact haldane_chain. Qed.
Print Assumptions C12_haldane_no_interference.

(** ** selfing: closed form derived from the enumeration, for every depth *)
Theorem C12_selfing_closed_form : forall r k i, 0 <= r ->
  Egen r k i (fun g => fst g * snd g) == (1 - rprob_filial r (Some (S k))) * cis i + rprob_filial r (Some (S k)) * trans i.
Proof. exact selfing_closed_form. Qed.
Print Assumptions C12_selfing_closed_form.

(** two-locus doubled-haploid covariance of every scheme after k selfing generations = the coded D1 / D2 combination *)
Theorem C12_twoway_selfing_exact : forall r k (A B : hap), 0 <= r ->
  dhcov (E_two r k A B) == (fst A - fst B) * cov_D1s r (Some k) * (snd A - snd B).
Proof. exact twoway_selfing_exact. Qed.
Print Assumptions C12_twoway_selfing_exact.

Theorem C12_threeway_selfing_exact : forall r k (R F M : hap), 0 <= r ->
  dhcov (E_three r k R F M) ==
  (1#4) * (2 * ((fst F - fst R) * cov_D1s r (Some k) * (snd F - snd R) + (fst M - fst R) * cov_D1s r (Some k) * (snd M - snd R))
           + (fst F - fst M) * cov_D2s r (Some k) * (snd F - snd M)).
Proof. exact threeway_selfing_exact. Qed.
Print Assumptions C12_threeway_selfing_exact.

Theorem C12_fourway_selfing_exact : forall r k (P1 P2 P3 P4 : hap), 0 <= r ->
  dhcov (E_four r k P1 P2 P3 P4) ==
  (1#4) * ((fst P2 - fst P1) * cov_D2s r (Some k) * (snd P2 - snd P1) + (fst P3 - fst P1) * cov_D1s r (Some k) * (snd P3 - snd P1)
         + (fst P3 - fst P2) * cov_D1s r (Some k) * (snd P3 - snd P2) + (fst P4 - fst P1) * cov_D1s r (Some k) * (snd P4 - snd P1)
         + (fst P4 - fst P2) * cov_D1s r (Some k) * (snd P4 - snd P2) + (fst P4 - fst P3) * cov_D2s r (Some k) * (snd P4 - snd P3)).
Proof. exact fourway_selfing_exact. Qed.
Print Assumptions C12_fourway_selfing_exact.

(** nself = inf: the finite-depth D1 decreases towards the coded limit formula and is within 2^-(k+1) of it *)
Theorem C12_selfing_limit : forall r k, 0 <= r -> r <= 1#2 ->
  0 <= cov_D1s r (Some k) - cov_D1s r None /\ cov_D1s r (Some k) - cov_D1s r None <= qpow (1#2) (S k).
Proof. exact D1_limit. Qed.
Print Assumptions C12_selfing_limit.

(** ** matrix entries = sum over the locus pairs of every linkage group of the enumerated pair covariance *)
Theorem C12_twoway_entry_exact : forall S R k geno t1 t2 f m, mem_ok (s_mem S) -> D_tables S R k ->
  twoway_entry S geno t1 t2 f m == two_truth S R k geno t1 t2 f m.
Proof. exact twoway_entry_exact. Qed.
Print Assumptions C12_twoway_entry_exact.

(** every entry, the repeated last parent (female = male, female1 = male1) and the dihybrid selfs included *)
Theorem C12_threeway_entry_exact : forall S R k geno t1 t2 r f m, mem_ok (s_mem S) -> D_tables S R k ->
  threeway_entry S geno t1 t2 r f m == three_truth S R k geno t1 t2 r f m.
Proof. exact threeway_entry_exact. Qed.
Print Assumptions C12_threeway_entry_exact.

Theorem C12_fourway_entry_exact : forall S R k geno t1 t2 f2 m2 f1 m1, mem_ok (s_mem S) -> D_tables S R k ->
  fourway_entry S geno t1 t2 f2 m2 f1 m1 == four_truth S R k (row geno f2) (row geno m2) (row geno f1) (row geno m1) t1 t2.
Proof. exact fourway_entry_exact. Qed.
Print Assumptions C12_fourway_entry_exact.

Theorem C12_dihybrid_entry_exact : forall S R k geno geno1 t1 t2 f m, mem_ok (s_mem S) -> D_tables S R k ->
  dihybrid_entry S geno geno1 t1 t2 f m == four_truth S R k (row geno1 f) (row geno f) (row geno1 m) (row geno m) t1 t2.
Proof. exact dihybrid_entry_exact. Qed.
Print Assumptions C12_dihybrid_entry_exact.

(** a repeated last parent reduces the cross by one way: the enumerated value of (f x f) x r is that of the two-way cross f x r,
    and that of (f2 x m2) x (f1 x f1) is that of the three-way cross (f2 x m2) x f1 *)
Theorem C12_repeated_parent_truth : forall S R k geno t1 t2,
  (forall r f, three_truth S R k geno t1 t2 r f f == two_truth S R k geno t1 t2 f r) /\
  (forall f2 m2 f1, four_truth S R k (row geno f2) (row geno m2) (row geno f1) (row geno f1) t1 t2 == three_truth S R k geno t1 t2 f1 f2 m2).
Proof. intros. split; intros; [apply three_truth_repeated | apply four_truth_repeated]. Qed.
Print Assumptions C12_repeated_parent_truth.

(** ** MULTI-LOCUS exactness with selfing: every scheme, every number of loci, every linkage-group layout, every depth k.
    [layout_ok S ps k]: mem admissible; the linkage groups tile [0,L); the gap in front of every group but the first has p = 1/2;
    the D tables hold the coded cov_D1s / cov_D2s of the pair fractions rpair ps i j at depth k; pair fractions are >= 0.
    The right-hand sides are covariances of the two doubled-haploid trait values under the exhaustive enumeration of whole
    multi-locus gametes: [EL_two] = k selfing generations of the F1 (two independent multi-locus meioses each) and a last meiosis;
    [EL_three] / [EL_four] = the same after uniting a gamete of the first cross(es). *)
Theorem C12_pairwise_marginal : forall ps i j, (i <= length ps)%nat -> (j <= length ps)%nat -> forall k h1 h2 (psi : hap -> Q),
  length h1 = S (length ps) -> length h2 = S (length ps) ->
  EgenL ps k h1 h2 (fun g => psi (pr g i j)) == Egen (rpair ps i j) k (pr h1 i j, pr h2 i j) psi.
Proof. exact EgenL_marginal. Qed.
Print Assumptions C12_pairwise_marginal.

Theorem C12_twoway_entry_multilocus : forall S ps k t1 t2, layout_ok S ps k -> forall geno f m,
  let L := Datatypes.S (length ps) in
  twoway_entry S geno t1 t2 f m ==
  covL L (EL_two ps k (alleles (row geno f) L) (alleles (row geno m) L)) (ucol (s_u S) t1 L) (ucol (s_u S) t2 L).
Proof. exact twoway_entry_multilocus. Qed.
Print Assumptions C12_twoway_entry_multilocus.

Theorem C12_threeway_entry_multilocus : forall S ps k t1 t2, layout_ok S ps k -> forall geno r f m,
  let L := Datatypes.S (length ps) in
  threeway_entry S geno t1 t2 r f m ==
  covL L (EL_three ps k (alleles (row geno r) L) (alleles (row geno f) L) (alleles (row geno m) L)) (ucol (s_u S) t1 L) (ucol (s_u S) t2 L).
Proof. exact threeway_entry_multilocus. Qed.
Print Assumptions C12_threeway_entry_multilocus.

Theorem C12_fourway_entry_multilocus : forall S ps k t1 t2, layout_ok S ps k -> forall geno f2 m2 f1 m1,
  let L := Datatypes.S (length ps) in
  fourway_entry S geno t1 t2 f2 m2 f1 m1 ==
  covL L (EL_four ps k (alleles (row geno f2) L) (alleles (row geno m2) L) (alleles (row geno f1) L) (alleles (row geno m1) L))
       (ucol (s_u S) t1 L) (ucol (s_u S) t2 L).
Proof. exact fourway_entry_multilocus. Qed.
Print Assumptions C12_fourway_entry_multilocus.

Theorem C12_dihybrid_entry_multilocus : forall S ps k t1 t2, layout_ok S ps k -> forall geno geno1 f m,
  let L := Datatypes.S (length ps) in
  dihybrid_entry S geno geno1 t1 t2 f m ==
  covL L (EL_four ps k (alleles (row geno1 f) L) (alleles (row geno f) L) (alleles (row geno1 m) L) (alleles (row geno m) L))
       (ucol (s_u S) t1 L) (ucol (s_u S) t2 L).
Proof. exact dihybrid_entry_multilocus. Qed.
Print Assumptions C12_dihybrid_entry_multilocus.

(** regression witnesses about the FORMER code ([old_..._entry]: `for male in range(0,female)`, the diagonal of the last two axes never
    visited): it agreed with the repaired code off that diagonal, reported 0 on it although the enumeration is non-zero, and the
    repaired entry equals the enumeration there (witnesses by computation) *)
Theorem C12_old_entries_offdiag : forall S geno geno1 t1 t2,
  (forall r f m, f <> m -> old_threeway_entry S geno t1 t2 r f m = threeway_entry S geno t1 t2 r f m) /\
  (forall f2 m2 f1 m1, f1 <> m1 -> old_fourway_entry S geno t1 t2 f2 m2 f1 m1 = fourway_entry S geno t1 t2 f2 m2 f1 m1) /\
  (forall f m, f <> m -> old_dihybrid_entry S geno geno1 t1 t2 f m = dihybrid_entry S geno geno1 t1 t2 f m).
Proof. exact old_entries_offdiag. Qed.
Print Assumptions C12_old_entries_offdiag.

Theorem C12_old_threeway_repeated_parent_refuted : exists S R k geno r f,
  mem_ok (s_mem S) /\ D_tables S R k /\ old_threeway_entry S geno 0 0 r f f == 0 /\ ~ three_truth S R k geno 0 0 r f f == 0 /\
  threeway_entry S geno 0 0 r f f == three_truth S R k geno 0 0 r f f.
Proof. exact old_threeway_repeated_parent_refuted. Qed.
Print Assumptions C12_old_threeway_repeated_parent_refuted.

Theorem C12_old_fourway_repeated_parent_refuted : exists S R k geno f2 m2 f1,
  mem_ok (s_mem S) /\ D_tables S R k /\ old_fourway_entry S geno 0 0 f2 m2 f1 f1 == 0 /\
  ~ four_truth S R k (row geno f2) (row geno m2) (row geno f1) (row geno f1) 0 0 == 0 /\
  fourway_entry S geno 0 0 f2 m2 f1 f1 == four_truth S R k (row geno f2) (row geno m2) (row geno f1) (row geno f1) 0 0.
Proof. exact old_fourway_repeated_parent_refuted. Qed.
Print Assumptions C12_old_fourway_repeated_parent_refuted.

Theorem C12_old_dihybrid_self_refuted : exists S R k geno geno1 f,
  mem_ok (s_mem S) /\ D_tables S R k /\ old_dihybrid_entry S geno geno1 0 0 f f == 0 /\
  ~ four_truth S R k (row geno1 f) (row geno f) (row geno1 f) (row geno f) 0 0 == 0 /\
  dihybrid_entry S geno geno1 0 0 f f == four_truth S R k (row geno1 f) (row geno f) (row geno1 f) (row geno f) 0 0.
Proof. exact old_dihybrid_self_refuted. Qed.
Print Assumptions C12_old_dihybrid_self_refuted.

(** the D tables built by mk_setup (what the correspondence shards evaluate) satisfy [D_tables] *)
Theorem C12_mk_setup_tables : forall p u chroms mem k R, in_range p chroms ->
  (forall i j, (i < p)%nat -> (j < p)%nat -> 0 <= lookup R i j) ->
  D_tables (mk_setup p u chroms mem (Some k) R) (lookup R) k.
Proof. exact mk_setup_tables. Qed.
Print Assumptions C12_mk_setup_tables.

(** ** symmetry, identical parents, reordering of taxa *)
(** the value copied by the mirror step is the value the loop body computes for the exchanged parents *)
Theorem C12_mirror_correct : forall S t1 t2 ga gb gc gd,
  twoway_low S t1 t2 ga gb == twoway_low S t1 t2 gb ga /\
  threeway_low S t1 t2 ga gb gc == threeway_low S t1 t2 ga gc gb /\
  quad_low S t1 t2 ga gb gc gd == quad_low S t1 t2 ga gb gd gc /\
  quad_low S t1 t2 ga gb gc gd == quad_low S t1 t2 gb ga gc gd /\
  quad_low S t1 t2 ga gb gc gd == quad_low S t1 t2 gc gd ga gb.
Proof. exact mirror_correct. Qed.
Print Assumptions C12_mirror_correct.

Theorem C12_symmetric : forall S geno geno1 t1 t2,
  (forall f m, twoway_entry S geno t1 t2 f m == twoway_entry S geno t1 t2 m f) /\
  (forall r f m, threeway_entry S geno t1 t2 r f m == threeway_entry S geno t1 t2 r m f) /\
  (forall f2 m2 f1 m1, fourway_entry S geno t1 t2 f2 m2 f1 m1 == fourway_entry S geno t1 t2 f2 m2 m1 f1) /\
  (forall f m, dihybrid_entry S geno geno1 t1 t2 f m == dihybrid_entry S geno geno1 t1 t2 m f).
Proof. exact symmetric. Qed.
Print Assumptions C12_symmetric.

Theorem C12_zero_for_identical_parents : forall S geno geno1 t1 t2,
  (forall f m, row geno f = row geno m -> twoway_entry S geno t1 t2 f m == 0) /\
  (forall r f m, row geno f = row geno r -> row geno m = row geno r -> threeway_entry S geno t1 t2 r f m == 0) /\
  (forall f2 m2 f1 m1, row geno m2 = row geno f2 -> row geno f1 = row geno f2 -> row geno m1 = row geno f2 ->
                       fourway_entry S geno t1 t2 f2 m2 f1 m1 == 0) /\
  (forall f m, row geno1 f = row geno f -> row geno m = row geno f -> row geno1 m = row geno f -> dihybrid_entry S geno geno1 t1 t2 f m == 0).
Proof. exact zero_for_identical_parents. Qed.
Print Assumptions C12_zero_for_identical_parents.

(** for EVERY index map pi (a permutation, or a selection with repeats): no side condition on the indices *)
Theorem C12_taxa_equivariant : forall S geno geno1 geno' geno1' (pi : nat -> nat) t1 t2,
  (forall a, row geno' a = row geno (pi a)) -> (forall a, row geno1' a = row geno1 (pi a)) ->
  (forall f m, twoway_entry S geno' t1 t2 f m == twoway_entry S geno t1 t2 (pi f) (pi m)) /\
  (forall r f m, threeway_entry S geno' t1 t2 r f m == threeway_entry S geno t1 t2 (pi r) (pi f) (pi m)) /\
  (forall f2 m2 f1 m1, fourway_entry S geno' t1 t2 f2 m2 f1 m1 == fourway_entry S geno t1 t2 (pi f2) (pi m2) (pi f1) (pi m1)) /\
  (forall f m, dihybrid_entry S geno' geno1' t1 t2 f m == dihybrid_entry S geno geno1 t1 t2 (pi f) (pi m)).
Proof. exact taxa_equivariant. Qed.
Print Assumptions C12_taxa_equivariant.

(** every covariance block is symmetric in the two traits when the D tables are symmetric (they are functions of |x_i - x_j|) *)
Theorem C12_trait_symmetric : forall S t1 t2 g1 g2 g3 g4, mem_ok (s_mem S) -> D_symmetric S ->
  twoway_low S t1 t2 g1 g2 == twoway_low S t2 t1 g1 g2 /\
  threeway_low S t1 t2 g1 g2 g3 == threeway_low S t2 t1 g1 g2 g3 /\
  quad_low S t1 t2 g1 g2 g3 g4 == quad_low S t2 t1 g1 g2 g3 g4.
Proof. exact trait_symmetric. Qed.
Print Assumptions C12_trait_symmetric.

(** on the ln2/2 grid used by the exact correspondence cases, the model's recombination fractions of a sorted linkage group are the
    chain fractions [rpair] of its gap vector: the hypothesis of C12_twoway_nself0_exact is what the shards evaluate *)
Theorem C12_r_ln2_is_chain : forall pos i j, nondecreasing pos -> (i < length pos)%nat -> (j < length pos)%nat ->
  r_ln2 pos i j == rpair (gaps_ln2 pos) i j.
Proof. exact r_ln2_is_chain. Qed.
Print Assumptions C12_r_ln2_is_chain.

(** ** genic = genetic with linkage ignored: only the i = j terms, whose D(r = 0) is 1 at every depth *)
Theorem C12_genic_twoway : forall u p tr gA gB, allele01 gA -> allele01 gB ->
  genic_pair u p tr (tafreq gA gA) (tafreq gB gB) ==
  sumQ (map (fun i => eff u tr gA gB i * cov_D1s 0 (Some 0%nat) * eff u tr gA gB i) (ix p)).
Proof. exact genic_twoway. Qed.
Print Assumptions C12_genic_twoway.

Theorem C12_genic_dihybrid : forall u p tr a0 a1 b0 b1, allele01 a0 -> allele01 a1 -> allele01 b0 -> allele01 b1 ->
  genic_pair u p tr (tafreq a0 a1) (tafreq b0 b1) ==
  sumQ (map (fun i => (1#4) * (eff u tr a0 a1 i * eff u tr a0 a1 i + eff u tr b1 a1 i * eff u tr b1 a1 i + eff u tr b1 a0 i * eff u tr b1 a0 i
                             + eff u tr b0 a1 i * eff u tr b0 a1 i + eff u tr b0 a0 i * eff u tr b0 a0 i + eff u tr b0 b1 i * eff u tr b0 b1 i)) (ix p)).
Proof. exact genic_dihybrid. Qed.
Print Assumptions C12_genic_dihybrid.

Theorem C12_linkage_free_D : forall k, cov_D1s 0 k == 1 /\ cov_D2s 0 k == 1.
Proof. exact linkage_free_D. Qed.
Print Assumptions C12_linkage_free_D.

Theorem C12_genic_threeway : forall u p tr gR gF gM, allele01 gR -> allele01 gF -> allele01 gM ->
  genic_tri u p tr (tafreq gR gR) (tafreq gF gF) (tafreq gM gM) ==
  sumQ (map (fun i => (1#4) * (2 * (eff u tr gF gR i * eff u tr gF gR i + eff u tr gM gR i * eff u tr gM gR i)
                             + eff u tr gF gM i * eff u tr gF gM i)) (ix p)).
Proof. exact genic_threeway. Qed.
Print Assumptions C12_genic_threeway.

Theorem C12_genic_fourway : forall u p tr g1 g2 g3 g4, allele01 g1 -> allele01 g2 -> allele01 g3 -> allele01 g4 ->
  genic_quad u p tr (tafreq g1 g1) (tafreq g2 g2) (tafreq g3 g3) (tafreq g4 g4) ==
  sumQ (map (fun i => (1#4) * (eff u tr g2 g1 i * eff u tr g2 g1 i + eff u tr g3 g1 i * eff u tr g3 g1 i + eff u tr g3 g2 i * eff u tr g3 g2 i
                             + eff u tr g4 g1 i * eff u tr g4 g1 i + eff u tr g4 g2 i * eff u tr g4 g2 i + eff u tr g4 g3 i * eff u tr g4 g3 i)) (ix p)).
Proof. exact genic_fourway. Qed.
Print Assumptions C12_genic_fourway.

(** every entry of every genic matrix, the diagonal of the last two parent axes included, is the linkage-free (i = j, D = 1) part of the
    corresponding genetic block *)
Theorem C12_genic_entry_exact : forall u p geno tr f m, allele01 (row geno f) -> allele01 (row geno m) ->
  genic_entry u p geno geno tr f m ==
  sumQ (map (fun i => eff u tr (row geno f) (row geno m) i * cov_D1s 0 (Some 0%nat) * eff u tr (row geno f) (row geno m) i) (ix p)).
Proof. exact genic_entry_exact. Qed.
Print Assumptions C12_genic_entry_exact.

Theorem C12_genic_dihybrid_entry_exact : forall u p geno geno1 tr f m,
  allele01 (row geno f) -> allele01 (row geno1 f) -> allele01 (row geno m) -> allele01 (row geno1 m) ->
  genic_entry u p geno geno1 tr f m ==
  sumQ (map (fun i => let a0 := row geno f in let a1 := row geno1 f in let b0 := row geno m in let b1 := row geno1 m in
     (1#4) * (eff u tr a0 a1 i * eff u tr a0 a1 i + eff u tr b1 a1 i * eff u tr b1 a1 i + eff u tr b1 a0 i * eff u tr b1 a0 i
            + eff u tr b0 a1 i * eff u tr b0 a1 i + eff u tr b0 a0 i * eff u tr b0 a0 i + eff u tr b0 b1 i * eff u tr b0 b1 i)) (ix p)).
Proof. exact genic_dihybrid_entry_exact. Qed.
Print Assumptions C12_genic_dihybrid_entry_exact.

Theorem C12_genic_threeway_entry_exact : forall u p geno tr r f m, allele01 (row geno r) -> allele01 (row geno f) -> allele01 (row geno m) ->
  genic3_entry u p geno geno tr r f m ==
  sumQ (map (fun i => let gR := row geno r in let gF := row geno f in let gM := row geno m in
     (1#4) * (2 * (eff u tr gF gR i * eff u tr gF gR i + eff u tr gM gR i * eff u tr gM gR i) + eff u tr gF gM i * eff u tr gF gM i)) (ix p)).
Proof. exact genic3_entry_exact. Qed.
Print Assumptions C12_genic_threeway_entry_exact.

Theorem C12_genic_fourway_entry_exact : forall u p geno tr f2 m2 f1 m1,
  allele01 (row geno f2) -> allele01 (row geno m2) -> allele01 (row geno f1) -> allele01 (row geno m1) ->
  genic4_entry u p geno geno tr f2 m2 f1 m1 ==
  sumQ (map (fun i => let g1 := row geno f2 in let g2 := row geno m2 in let g3 := row geno f1 in let g4 := row geno m1 in
     (1#4) * (eff u tr g2 g1 i * eff u tr g2 g1 i + eff u tr g3 g1 i * eff u tr g3 g1 i + eff u tr g3 g2 i * eff u tr g3 g2 i
            + eff u tr g4 g1 i * eff u tr g4 g1 i + eff u tr g4 g2 i * eff u tr g4 g2 i + eff u tr g4 g3 i * eff u tr g4 g3 i)) (ix p)).
Proof. exact genic4_entry_exact. Qed.
Print Assumptions C12_genic_fourway_entry_exact.

(** regression witness: the FORMER two-way / dihybrid genic code (numpy.empty, only male < female written) reported no value on its diagonal *)
Theorem C12_old_genic_diagonal_refuted : forall u p geno geno1 tr f, old_genic_entry u p geno geno1 tr f f = None.
Proof. exact old_genic_diagonal_refuted. Qed.
Print Assumptions C12_old_genic_diagonal_refuted.

(** ** usefulness criterion: a value accepted exactly by [uc_ok]'s two conditions is mean + i * sqrt(var) *)
Theorem C12_uc_def : forall si mean var x y, 0 <= si -> 0 <= x - mean -> (x - mean) * (x - mean) == si * si * var ->
  0 <= y -> y * y == var -> x == mean + si * y.
Proof. exact uc_def. Qed.
Print Assumptions C12_uc_def.

(** ** the kernel expressions of the CURRENT source (Gen/C12_Kernel.v is regenerated from pybrops on every run by
    harness/translate/c12_kernel.py) are the expressions of the model, and the statements above hold of the matrices
    RE-ASSEMBLED FROM THE GENERATED DEFINITIONS: [gen_*_low] = scale * sum over the generated group / row-chunk / column-chunk
    loops of the generated combination of the generated partial sums (which D table, which two haplotypes);
    [gen_*_entry] = content of the zero-initialised array after the accumulation over the generated visited tuples and the
    generated mirror assignment ([loop_entry]).  A change of any of these expressions in the source changes the regenerated
    definitions and these theorems are re-checked against it. *)
Theorem C12_kernel_is_model :
  (forall r k, k_rprob_filial r k = rprob_filial r k) /\ (forall r d, k_cov_D1s r d = cov_D1s r d) /\ (forall r d, k_cov_D2s r d = cov_D2s r d) /\
  (forall a b c, k_srange a b c = srange a b c) /\
  (forall S t1 t2 geno f m, gen_two_low S t1 t2 (g_inbred geno) f m = twoway_low S t1 t2 (row geno f) (row geno m)) /\
  (forall S t1 t2 geno r f m, gen_three_low S t1 t2 (g_inbred geno) r f m = threeway_low S t1 t2 (row geno r) (row geno f) (row geno m)) /\
  (forall S t1 t2 geno f2 m2 f m, gen_four_low S t1 t2 (g_inbred geno) f2 m2 f m = quad_low S t1 t2 (row geno f2) (row geno m2) (row geno f) (row geno m)) /\
  (forall S t1 t2 geno geno1 f m, gen_di_low S t1 t2 (g_phased geno geno1) f m = quad_low S t1 t2 (row geno1 f) (row geno f) (row geno1 m) (row geno m)) /\
  (forall S t1 t2 geno f m, gen_twoc_low S t1 t2 (g_inbred geno) f m = twoway_low S t1 t2 (row geno f) (row geno m)) /\
  (forall S t1 t2 geno r f m, gen_threec_low S t1 t2 (g_inbred geno) r f m = threeway_low S t1 t2 (row geno r) (row geno f) (row geno m)) /\
  (forall S t1 t2 geno f2 m2 f m, gen_fourc_low S t1 t2 (g_inbred geno) f2 m2 f m = quad_low S t1 t2 (row geno f2) (row geno m2) (row geno f) (row geno m)) /\
  (forall S t1 t2 geno geno1 f m, gen_dic_low S t1 t2 (g_phased geno geno1) f m = quad_low S t1 t2 (row geno1 f) (row geno f) (row geno1 m) (row geno m)) /\
  (forall mean si y, k_uc mean si y = mean + si * y) /\
  (forall epgc (bvf : nat -> nat -> Q) c (tr : nat), k_uc_pmean epgc (fun k => bvf k tr) c = pmean epgc (map (fun k => bvf k tr) c)).
Proof. exact kernel_is_model. Qed.
Print Assumptions C12_kernel_is_model.

(** the generated loop ranges, index tuples and mirror assignment produce the model's entries (variance and covariance classes) *)
Theorem C12_kernel_entries_are_model : forall n S geno geno1 t1 t2,
  (forall f m, (f < n)%nat -> (m < n)%nat -> gen_two_entry n S geno t1 t2 f m = twoway_entry S geno t1 t2 f m /\
                                               gen_twoc_entry n S geno t1 t2 f m = twoway_entry S geno t1 t2 f m) /\
  (forall r f m, (r < n)%nat -> (f < n)%nat -> (m < n)%nat -> gen_three_entry n S geno t1 t2 r f m = threeway_entry S geno t1 t2 r f m /\
                                                                gen_threec_entry n S geno t1 t2 r f m = threeway_entry S geno t1 t2 r f m) /\
  (forall f2 m2 f m, (f2 < n)%nat -> (m2 < n)%nat -> (f < n)%nat -> (m < n)%nat ->
     gen_four_entry n S geno t1 t2 f2 m2 f m = fourway_entry S geno t1 t2 f2 m2 f m /\
     gen_fourc_entry n S geno t1 t2 f2 m2 f m = fourway_entry S geno t1 t2 f2 m2 f m) /\
  (forall f m, (f < n)%nat -> (m < n)%nat -> gen_di_entry n S geno geno1 t1 t2 f m = dihybrid_entry S geno geno1 t1 t2 f m /\
                                               gen_dic_entry n S geno geno1 t1 t2 f m = dihybrid_entry S geno geno1 t1 t2 f m).
Proof. exact kernel_entries_are_model. Qed.
Print Assumptions C12_kernel_entries_are_model.

(** every entry of the matrices assembled from the generated definitions equals the enumeration (every taxa count n, every index
    tuple below n, repeated last parents and selfs included; [gen_tables]: the D tables hold the values of the helpers the class calls) *)
Theorem C12_kernel_twoway_exact : forall n S R k geno t1 t2 f m, (f < n)%nat -> (m < n)%nat -> mem_ok (s_mem S) ->
  (gen_tables k_two_D1 k_cov_D2s S R k -> gen_two_entry n S geno t1 t2 f m == two_truth S R k geno t1 t2 f m) /\
  (gen_tables k_twoc_D1 k_cov_D2s S R k -> gen_twoc_entry n S geno t1 t2 f m == two_truth S R k geno t1 t2 f m).
Proof. exact kernel_twoway_exact. Qed.
Print Assumptions C12_kernel_twoway_exact.

Theorem C12_kernel_threeway_exact : forall n S R k geno t1 t2 r f m, (r < n)%nat -> (f < n)%nat -> (m < n)%nat -> mem_ok (s_mem S) ->
  (gen_tables k_three_D1 k_three_D2 S R k -> gen_three_entry n S geno t1 t2 r f m == three_truth S R k geno t1 t2 r f m) /\
  (gen_tables k_threec_D1 k_threec_D2 S R k -> gen_threec_entry n S geno t1 t2 r f m == three_truth S R k geno t1 t2 r f m).
Proof. exact kernel_threeway_exact. Qed.
Print Assumptions C12_kernel_threeway_exact.

Theorem C12_kernel_fourway_exact : forall n S R k geno t1 t2 f2 m2 f m, (f2 < n)%nat -> (m2 < n)%nat -> (f < n)%nat -> (m < n)%nat -> mem_ok (s_mem S) ->
  (gen_tables k_four_D1 k_four_D2 S R k ->
   gen_four_entry n S geno t1 t2 f2 m2 f m == four_truth S R k (row geno f2) (row geno m2) (row geno f) (row geno m) t1 t2) /\
  (gen_tables k_fourc_D1 k_fourc_D2 S R k ->
   gen_fourc_entry n S geno t1 t2 f2 m2 f m == four_truth S R k (row geno f2) (row geno m2) (row geno f) (row geno m) t1 t2).
Proof. exact kernel_fourway_exact. Qed.
Print Assumptions C12_kernel_fourway_exact.

Theorem C12_kernel_dihybrid_exact : forall n S R k geno geno1 t1 t2 f m, (f < n)%nat -> (m < n)%nat -> mem_ok (s_mem S) ->
  (gen_tables k_di_D1 k_di_D2 S R k ->
   gen_di_entry n S geno geno1 t1 t2 f m == four_truth S R k (row geno1 f) (row geno f) (row geno1 m) (row geno m) t1 t2) /\
  (gen_tables k_dic_D1 k_dic_D2 S R k ->
   gen_dic_entry n S geno geno1 t1 t2 f m == four_truth S R k (row geno1 f) (row geno f) (row geno1 m) (row geno m) t1 t2).
Proof. exact kernel_dihybrid_exact. Qed.
Print Assumptions C12_kernel_dihybrid_exact.

(** the generated chunk loops (row and column loop of all eight classes) tile every linkage group for every step >= 1 *)
Theorem C12_kernel_chunks_partition : forall ch, In ch all_chunk_fns -> forall lst lsp step : nat, (1 <= step)%nat ->
  concat (map ixs (ch lst lsp step)) = seq lst (lsp - lst).
Proof. exact kernel_chunks_partition. Qed.
Print Assumptions C12_kernel_chunks_partition.

(** the generated rprob_filial / cov_D1s / cov_D2s and the generated combinations are the closed forms derived from the enumeration *)
Theorem C12_kernel_selfing_closed_form : forall r k i, 0 <= r ->
  Egen r k i (fun g => fst g * snd g) == (1 - k_rprob_filial r (Some (S k))) * cis i + k_rprob_filial r (Some (S k)) * trans i.
Proof. exact kernel_selfing_closed_form. Qed.
Print Assumptions C12_kernel_selfing_closed_form.

Theorem C12_kernel_twoway_selfing_exact : forall r k (A B : hap), 0 <= r ->
  dhcov (E_two r k A B) == (fst A - fst B) * k_cov_D1s r (Some k) * (snd A - snd B).
Proof. exact kernel_twoway_selfing_exact. Qed.
Print Assumptions C12_kernel_twoway_selfing_exact.

Theorem C12_kernel_threeway_selfing_exact : forall r k (R F M : hap), 0 <= r ->
  dhcov (E_three r k R F M) ==
  k_three_scale * k_three_comb ((fst F - fst R) * k_cov_D1s r (Some k) * (snd F - snd R)) ((fst M - fst R) * k_cov_D1s r (Some k) * (snd M - snd R))
                               ((fst F - fst M) * k_cov_D2s r (Some k) * (snd F - snd M)).
Proof. exact kernel_threeway_selfing_exact. Qed.
Print Assumptions C12_kernel_threeway_selfing_exact.

Theorem C12_kernel_fourway_selfing_exact : forall r k (P1 P2 P3 P4 : hap), 0 <= r ->
  dhcov (E_four r k P1 P2 P3 P4) ==
  k_four_scale * k_four_comb ((fst P2 - fst P1) * k_cov_D2s r (Some k) * (snd P2 - snd P1)) ((fst P3 - fst P1) * k_cov_D1s r (Some k) * (snd P3 - snd P1))
         ((fst P3 - fst P2) * k_cov_D1s r (Some k) * (snd P3 - snd P2)) ((fst P4 - fst P1) * k_cov_D1s r (Some k) * (snd P4 - snd P1))
         ((fst P4 - fst P2) * k_cov_D1s r (Some k) * (snd P4 - snd P2)) ((fst P4 - fst P3) * k_cov_D2s r (Some k) * (snd P4 - snd P3)).
Proof. exact kernel_fourway_selfing_exact. Qed.
Print Assumptions C12_kernel_fourway_selfing_exact.

Theorem C12_kernel_selfing_limit : forall r k, 0 <= r -> r <= 1#2 ->
  0 <= k_cov_D1s r (Some k) - k_cov_D1s r None /\ k_cov_D1s r (Some k) - k_cov_D1s r None <= qpow (1#2) (S k).
Proof. exact kernel_selfing_limit. Qed.
Print Assumptions C12_kernel_selfing_limit.

(** genic classes: the generated per-marker term with the generated parental weights over the generated parent tuple *)
Theorem C12_kernel_genic_exact : forall u p tr geno,
  (forall f m, allele01 (row geno f) -> allele01 (row geno m) ->
     gen_genic k_gtwo_term k_gtwo_varcoef k_gtwo_epgc_local u p tr (taf geno geno) (k_gtwo_freq_ix f m) ==
     sumQ (map (fun i => eff u tr (row geno f) (row geno m) i * k_cov_D1s 0 (Some 0%nat) * eff u tr (row geno f) (row geno m) i) (ix p))) /\
  (forall r f m, allele01 (row geno r) -> allele01 (row geno f) -> allele01 (row geno m) ->
     gen_genic k_gthree_term k_gthree_varcoef k_gthree_epgc_local u p tr (taf geno geno) (k_gthree_freq_ix r f m) ==
     sumQ (map (fun i => let gR := row geno r in let gF := row geno f in let gM := row geno m in
       k_three_scale * k_three_comb (eff u tr gF gR i * eff u tr gF gR i) (eff u tr gM gR i * eff u tr gM gR i) (eff u tr gF gM i * eff u tr gF gM i)) (ix p))) /\
  (forall f2 m2 f m, allele01 (row geno f2) -> allele01 (row geno m2) -> allele01 (row geno f) -> allele01 (row geno m) ->
     gen_genic k_gfour_term k_gfour_varcoef k_gfour_epgc_local u p tr (taf geno geno) (k_gfour_freq_ix f2 m2 f m) ==
     sumQ (map (fun i => let g1 := row geno f2 in let g2 := row geno m2 in let g3 := row geno f in let g4 := row geno m in
       k_four_scale * k_four_comb (eff u tr g2 g1 i * eff u tr g2 g1 i) (eff u tr g3 g1 i * eff u tr g3 g1 i) (eff u tr g3 g2 i * eff u tr g3 g2 i)
                                  (eff u tr g4 g1 i * eff u tr g4 g1 i) (eff u tr g4 g2 i * eff u tr g4 g2 i) (eff u tr g4 g3 i * eff u tr g4 g3 i)) (ix p))).
Proof. exact kernel_genic_exact. Qed.
Print Assumptions C12_kernel_genic_exact.

(** which loop variable addresses which axis, the allocated shape, which array / label goes to which constructor keyword, and the
    parental contributions, as the current source says them, for all twelve classes *)
Theorem C12_kernel_layout : forall n t r f2 m2 f m,
  (k_two_shape n t = [n; n; t]%nat /\ k_two_acc_ix f m = [f; m] /\ tl k_two_ctor = expected_ctor_tail /\ k_two_epgc = uc_epgc 2) /\
  (k_three_shape n t = [n; n; n; t]%nat /\ k_three_acc_ix r f m = [r; f; m] /\ tl k_three_ctor = expected_ctor_tail /\ k_three_epgc = uc_epgc 3) /\
  (k_four_shape n t = [n; n; n; n; t]%nat /\ k_four_acc_ix f2 m2 f m = [f2; m2; f; m] /\ tl k_four_ctor = expected_ctor_tail /\ k_four_epgc = uc_epgc 4) /\
  (k_di_shape n t = [n; n; t]%nat /\ k_di_acc_ix f m = [f; m] /\ tl k_di_ctor = expected_ctor_tail /\ k_di_epgc = uc_epgc 0) /\
  (k_twoc_shape n t = [n; n; t; t]%nat /\ k_twoc_acc_ix f m = [f; m] /\ tl k_twoc_ctor = expected_ctor_tail /\ k_twoc_epgc = uc_epgc 2) /\
  (k_threec_shape n t = [n; n; n; t; t]%nat /\ k_threec_acc_ix r f m = [r; f; m] /\ tl k_threec_ctor = expected_ctor_tail /\ k_threec_epgc = uc_epgc 3) /\
  (k_fourc_shape n t = [n; n; n; n; t; t]%nat /\ k_fourc_acc_ix f2 m2 f m = [f2; m2; f; m] /\ tl k_fourc_ctor = expected_ctor_tail /\ k_fourc_epgc = uc_epgc 4) /\
  (k_dic_shape n t = [n; n; t; t]%nat /\ k_dic_acc_ix f m = [f; m] /\ tl k_dic_ctor = expected_ctor_tail /\ k_dic_epgc = uc_epgc 0) /\
  (k_gtwo_epgc = uc_epgc 2 /\ k_gthree_epgc = uc_epgc 3 /\ k_gfour_epgc = uc_epgc 4 /\ k_gdi_epgc = uc_epgc 0 /\
   tl k_gtwo_ctor = expected_ctor_tail /\ tl k_gthree_ctor = expected_ctor_tail /\ tl k_gfour_ctor = expected_ctor_tail /\ tl k_gdi_ctor = expected_ctor_tail).
Proof. exact kernel_layout. Qed.
Print Assumptions C12_kernel_layout.

(** the usefulness criterion as the source writes it *)
Theorem C12_kernel_uc_def : forall si mean var x y, 0 <= si -> 0 <= x - mean -> (x - mean) * (x - mean) == si * si * var ->
  0 <= y -> y * y == var -> x == k_uc mean si y.
Proof. exact kernel_uc_def. Qed.
Print Assumptions C12_kernel_uc_def.

(** non-vacuity of the kernel exactness theorems: one marker, parents 0 and 1 — the tables hypotheses hold and the entry
    [0,1,1] of the three-way matrix (repeated last parent) is non-zero *)
Example C12_kernel_hyps_satisfiable : mem_ok (s_mem wS) /\ gen_tables k_three_D1 k_three_D2 wS wR 0 /\ gen_tables k_two_D1 k_cov_D2s wS wR 0 /\
  ~ gen_three_entry 2 wS [[0%Z]; [1%Z]] 0 0 0 1 1 == 0.
Proof. exact kernel_hyps_example. Qed.

(** ** scale covariance and sessions (the laws behind the phase-2 generators) *)
(** multiplying every marker effect by c multiplies every entry of every genetic (co)variance matrix by c*c *)
Theorem C12_scale_covariant : forall c S geno geno1 t1 t2,
  (forall f m, twoway_entry (scale_setup c S) geno t1 t2 f m == c * c * twoway_entry S geno t1 t2 f m) /\
  (forall r f m, threeway_entry (scale_setup c S) geno t1 t2 r f m == c * c * threeway_entry S geno t1 t2 r f m) /\
  (forall f2 m2 f1 m1, fourway_entry (scale_setup c S) geno t1 t2 f2 m2 f1 m1 == c * c * fourway_entry S geno t1 t2 f2 m2 f1 m1) /\
  (forall f m, dihybrid_entry (scale_setup c S) geno geno1 t1 t2 f m == c * c * dihybrid_entry S geno geno1 t1 t2 f m).
Proof. exact entries_scale. Qed.
Print Assumptions C12_scale_covariant.

Theorem C12_genic_scale_covariant : forall c u p tr pf, genic_freq (scale_u c u) p tr pf == c * c * genic_freq u p tr pf.
Proof. exact genic_scale. Qed.
Print Assumptions C12_genic_scale_covariant.

Theorem C12_uc_scale_covariant : forall c si mean var x, 0 <= c -> 0 <= x - mean -> (x - mean) * (x - mean) == si * si * var ->
  0 <= c * x - c * mean /\ (c * x - c * mean) * (c * x - c * mean) == si * si * (c * c * var).
Proof. exact uc_scale. Qed.
Print Assumptions C12_uc_scale_covariant.
Example C12_uc_scale_hyps_satisfiable : 0 <= 2 /\ 0 <= 5 - 3 /\ (5 - 3) * (5 - 3) == 1 * 1 * 4.
Proof. repeat split; vm_compute; discriminate. Qed.

(** in any history of in-place updates and calls on the same objects, the result of a call is the function of the state at that call,
    and that state is determined by the updates alone (earlier calls leave no trace): what the session cases observe of the library *)
Theorem C12_session_call : forall (St Res : Type) (f : St -> Res) (s : St) (ops : list (op (St := St))),
  run f s (ops ++ [Call]) = run f s ops ++ [f (final_state s ops)].
Proof. exact @session_call. Qed.
Print Assumptions C12_session_call.

Theorem C12_session_calls_leave_no_trace : forall (St : Type) (s : St) (ops : list (op (St := St))),
  final_state s ops = final_state s (filter is_upd ops).
Proof. exact @session_calls_leave_no_trace. Qed.
Print Assumptions C12_session_calls_leave_no_trace.

(** non-vacuity: a 4-locus, 2-linkage-group, 2-trait setup meets every hypothesis of the exactness theorem and has a non-zero covariance *)
Example C12_hyps_satisfiable : mem_ok (s_mem ex_S) /\ consecutive (s_chroms ex_S) 0 (S (length ex_ps)) /\ free_between ex_ps 0 (s_chroms ex_S) /\
  (forall c i j, In c (s_chroms ex_S) -> In i (ixs c) -> In j (ixs c) -> s_D1 ex_S i j == cov_D1s (rpair ex_ps i j) (Some 0%nat)) /\
  ~ twoway_low ex_S 0 1 [0; 1; 1; 0]%Z [1; 0; 0; 0]%Z == 0.
Proof. exact ex_hyps. Qed.
Example C12_layout_satisfiable : layout_ok ex_S ex_ps 0.
Proof. exact ex_layout. Qed.
