(** C15 — property theorems (under construction) *)
From PV Require Import Lib.Common Model.C15_Bv Proofs.C15_Bv.
