(** C15 — property theorems only: statement, [exact] of a lemma proved in Proofs/C15_Bv.v, [Print Assumptions].
    Model: Model/C15_Bv.v (mirrors DenseBreedingValueMatrix + subclasses incl. its in-place taxa operations and
    concat_taxa, and DenseScaledMatrix; [old_step] / [old_c_mean] are the FORMER code of the in-place operations, concat_taxa
    and tmean, kept only for the regression witnesses [C15_old_..._refuted]).  Numbers are exact rationals, a missing value is [None]; [coleq]/[oeq] is
    entrywise equality of possibly-missing rationals, [raw_equiv] that of raw matrices with their labels.
    The hypotheses [loc_ok]/[sc_ok]/[params_ok]/[run_ok] are exactly the booleans the correspondence shards evaluate
    on every step of every generated history with the location/scale the implementation produced. *)
From Coq Require Import String.
From Coq Require Import PrimFloat.
From Coq Require Import Reals.
From Flocq Require Import Core.
From PV Require Import Lib.Common Model.C15_Bv Proofs.C15_Bv Proofs.C15_Round Gen.C15_Kernel Proofs.C15_Kernel Proofs.C15_Laws.
Local Open Scope Q_scope.

(** unscale(from_numpy(raw)) = raw for every trait column, every location/scale the run-time check accepts
    (location ~ nanmean; scale = 1 iff the variance is exactly 0, else positive with scale^2 ~ nanvar); missing stays missing *)
Theorem C15_unscale_from_numpy : forall (raw : list oq) (l s : oq),
  loc_ok raw l = true -> sc_ok raw s = true -> coleq (col_unscale (col_from_numpy raw l s)) raw.
Proof. exact unscale_from_numpy_col. Qed.
Print Assumptions C15_unscale_from_numpy.

(** ... and in floating point "to rounding error": in the standard model of floating-point arithmetic (each operation returns the
    exact result times (1+e), |e| <= u) the value  rnd(rnd(s * rnd(rnd(1/s) * rnd(x - l))) + l)  computed by unscale() after from_numpy()
    differs from x by at most |x-l| ((1+u)^4 - 1) + u (|x| + |x-l| ((1+u)^4 - 1))  ~  4u|x-l| + u|x| ... *)
Theorem C15_roundtrip_rounding_error : forall (rnd : R -> R) (u : R), (0 <= u)%R ->
  (forall r, exists e, (Rabs e <= u)%R /\ rnd r = (r * (1 + e))%R) ->
  forall x l s : R, s <> 0%R ->
  (Rabs (roundtrip rnd x l s - x) <= Rabs (x - l) * B4 u + u * (Rabs x + Rabs (x - l) * B4 u))%R.
Proof. exact roundtrip_error. Qed.
Print Assumptions C15_roundtrip_rounding_error.
(** ... which radix-2, 53-bit round-to-nearest-even arithmetic satisfies with u = 2^-53 (Flocq FLX format: binary64 barring overflow/underflow) *)
Theorem C15_roundtrip_rounding_error_binary64 : forall x l s : R, s <> 0%R ->
  let u := (/ 2 * bpow radix2 (- 53 + 1))%R in
  (Rabs (roundtrip rnd64 x l s - x) <= Rabs (x - l) * B4 u + u * (Rabs x + Rabs (x - l) * B4 u))%R.
Proof. exact roundtrip_error_binary64. Qed.
Print Assumptions C15_roundtrip_rounding_error_binary64.

(** a missing value stays missing and contaminates no other entry: the NaN patterns of unscale() and of the stored
    matrix are those of the raw values *)
Theorem C15_nan_isolated : forall (raw : list oq) (l s : oq), loc_ok raw l = true -> sc_ok raw s = true ->
  map is_none (col_unscale (col_from_numpy raw l s)) = map is_none raw
  /\ (forall l' s', l = Some l' -> s = Some s' -> map is_none (cdat (col_from_numpy raw l s)) = map is_none raw).
Proof.
  intros raw l s H1 H2. split; [now apply nan_isolated_col|]. intros l' s' -> ->. apply stored_nan_pattern.
Qed.
Print Assumptions C15_nan_isolated.

(** maximum, minimum, range on the original scale and both arg-extrema equal those of the raw column (numpy semantics:
    the reduction raises on an empty column, is NaN as soon as a value is missing, the first NaN wins the arg-extrema),
    for every location and every positive scale *)
Theorem C15_stat_commutes_extrema : forall (raw : list oq) (l s : Q), 0 < s ->
  let c := col_from_numpy raw (Some l) (Some s) in
  ooeq (c_max true c) (st_max raw) /\ ooeq (c_min true c) (st_min raw) /\ ooeq (c_range true c) (st_range raw)
  /\ c_argmax c = st_argmax raw /\ c_argmin c = st_argmin raw.
Proof.
  intros raw l s Hs c. repeat split.
  - now apply tmax_commutes. - now apply tmin_commutes. - now apply trange_commutes.
  - now apply targmax_commutes. - now apply targmin_commutes.
Qed.
Print Assumptions C15_stat_commutes_extrema.

(** tvar(unscale=True) (and the square of tstd(unscale=True)) is the variance of the raw column for every non-zero scale and
    every location — hence 0 for a constant trait although its scale is 1 *)
Theorem C15_stat_commutes_variance : forall (raw : list oq) (l s : Q), ~ s == 0 ->
  ooeq (c_var true (col_from_numpy raw (Some l) (Some s))) (Some (np_var raw)).
Proof. exact tvar_commutes. Qed.
Print Assumptions C15_stat_commutes_variance.

(** tmean(unscale=True) is the (numpy) mean of the raw column for every location and every non-zero scale: NaN as soon as a value
    is missing (or the column is empty), like every other summary *)
Theorem C15_stat_commutes_mean : forall (raw : list oq) (l s : Q), ~ s == 0 ->
  ooeq (c_mean true (col_from_numpy raw (Some l) (Some s))) (Some (np_mean raw)).
Proof. exact tmean_commutes. Qed.
Print Assumptions C15_stat_commutes_mean.
Theorem C15_tmean_missing_is_nan : forall (raw : list oq) (l s : oq), allsome raw = None ->
  c_mean true (col_from_numpy raw l s) = Some None.
Proof. exact tmean_missing_nan. Qed.
Print Assumptions C15_tmean_missing_is_nan.

(** regression witness: the FORMER tmean (return the location) was the only NaN-aware summary — with a missing value it was
    finite while the maximum and the numpy mean are NaN (repaired finding C15-tmean-ignores-nan) *)
Theorem C15_old_tmean_nan_refuted : exists raw l s, loc_ok raw l = true /\ sc_ok raw s = true /\
  c_max true (col_from_numpy raw l s) = Some None /\ np_mean raw = None /\ old_c_mean true (col_from_numpy raw l s) = Some (Some 2).
Proof. exact old_tmean_nan_refuted. Qed.
Print Assumptions C15_old_tmean_nan_refuted.

(** the stored column is centred and has unit variance (over the observed entries) when the location is the exact mean and
    the scale a square root of the exact variance *)
Theorem C15_stored_standardised : forall (raw : list oq) (l s : Q) (x : Q) (t : list Q),
  somes raw = x :: t -> ~ s == 0 -> l == mean_q (x :: t) -> s * s == var_q (x :: t) ->
  oeq (nanmean (cdat (col_from_numpy raw (Some l) (Some s)))) (Some 0)
  /\ oeq (nanvar (cdat (col_from_numpy raw (Some l) (Some s)))) (Some 1).
Proof. intros raw l s x t Hv Hs Hl Hvar. split; [eapply stored_centred | eapply stored_unit_variance]; eassumption. Qed.
Print Assumptions C15_stored_standardised.

(** a constant trait: the run-time check accepts scale 1 only, and the column is stored as zeros *)
Theorem C15_constant_trait_unit_scale : forall (raw : list oq) (l s : Q) (x : Q) (t : list Q),
  somes raw = x :: t -> var_q (x :: t) == 0 -> sc_ok raw (Some s) = true -> l == mean_q (x :: t) ->
  s == 1 /\ Forall (fun m => match m with Some v => v == 0 | None => True end) (cdat (col_from_numpy raw (Some l) (Some s))).
Proof. exact constant_trait. Qed.
Print Assumptions C15_constant_trait_unit_scale.

(** in binary64 the mean of three equal values need not be that value: from_numpy then sees a non-zero deviation,
    hence a scale of ~1e-17 instead of 1 (the known finding C15-constant-rounding) *)
Theorem C15_constant_float_mean_refuted : exists x : PrimFloat.float,
  let m := PrimFloat.div (PrimFloat.add (PrimFloat.add x x) x) 3%float in PrimFloat.eqb (PrimFloat.sub x m) 0%float = false.
Proof. exists 0x1.999999999999ap-4%float. vm_compute. reflexivity. Qed.
Print Assumptions C15_constant_float_mean_refuted.

(** every history of select_taxa / delete_taxa / insert_taxa / adjoin_taxa / remove_taxa / append_taxa / incorp_taxa / concat_taxa
    (operands as arrays or as matrices with their own location and scale, failing operations leaving the matrix unchanged):
    the matrix reached stands for exactly the raw rows and labels obtained by applying the list operations to the initial raw
    rows and labels *)
Theorem C15_ops_preserve_raw : forall (r0 : rawst) (p0 : list prm) (b0 : bv) (ops : list (op * list prm)),
  from_numpy r0 p0 = Some b0 -> params_ok (r_cols r0) p0 = true -> run_ok b0 ops = true ->
  raw_equiv (run_spec r0 (map fst ops)) (unscale (run b0 ops)).
Proof. exact history_preserves_raw. Qed.
Print Assumptions C15_ops_preserve_raw.

(** one step of any of the eight operations: source and raw-level specification fail together or succeed together *)
Theorem C15_step_sound : forall b o p r, raw_equiv r (unscale b) -> step_ok b o p = true ->
  orel (fun r' b' => raw_equiv r' (unscale b')) (raw_step opd_raw p_cols r o) (step b o p).
Proof. exact step_sound. Qed.
Print Assumptions C15_step_sound.

(** nothing is stale after a step: the location / scale of the result are the parameters computed for (and, under [step_ok],
    accepted for) the raw values it stands for — also after the in-place operations and concat_taxa *)
Theorem C15_step_params_fresh : forall b o p b' r, step b o p = Some b' ->
  raw_step opd_unscaled part_unscaled (unscale b) o = Some r ->
  map (fun c => (cloc c, csc c)) (bcols b') = firstn (length (r_cols r)) p /\ length (r_cols r) = length p.
Proof. exact step_params_fresh. Qed.
Print Assumptions C15_step_params_fresh.

(** regression witnesses about the FORMER code ([old_step]: the routines inherited from DenseTaxaMatrix, which edit / glue the
    stored standardised values) — repaired findings C15-inplace-not-restandardised and C15-concat-raw-lost:
    remove_taxa kept the raw values of the retained taxa but left location/scale stale ... *)
Theorem C15_old_remove_preserves_retained : forall (b b' : bv) (ob : idx) (p : list prm), old_step b (ORemove ob) p = Some b' ->
  Forall2 (fun c c' => delete_any (col_unscale c) ob = Some (col_unscale c') /\ cloc c' = cloc c /\ csc c' = csc c) (bcols b) (bcols b')
  /\ olabels (fun l => delete_any l ob) (btaxa b) = Some (btaxa b') /\ olabels (fun l => delete_any l ob) (bgrp b) = Some (bgrp b').
Proof. exact old_remove_preserves_raw. Qed.
Print Assumptions C15_old_remove_preserves_retained.
Theorem C15_old_remove_location_stale_refuted : exists r p b b',
  from_numpy r p = Some b /\ params_ok (r_cols r) p = true /\ old_step b (ORemove (IInt 0)) [] = Some b' /\
  params_ok (r_cols (unscale b')) (map (fun c => (cloc c, csc c)) (bcols b')) = false.
Proof. exact old_remove_stale_refuted. Qed.
Print Assumptions C15_old_remove_location_stale_refuted.
(** ... appending / incorporating / concatenating did NOT preserve the raw values ... *)
Theorem C15_old_append_preserves_raw_refuted : exists r p b v b' r',
  from_numpy r p = Some b /\ params_ok (r_cols r) p = true /\ old_step b (OAppend v) [] = Some b' /\
  raw_step opd_raw p_cols (unscale b) (OAppend v) = Some r' /\ ~ raw_equiv r' (unscale b').
Proof. exact old_append_refuted. Qed.
Print Assumptions C15_old_append_preserves_raw_refuted.
Theorem C15_old_incorp_preserves_raw_refuted : exists r p b v b' r',
  from_numpy r p = Some b /\ params_ok (r_cols r) p = true /\ old_step b (OIncorp (IInt 0) v) [] = Some b' /\
  raw_step opd_raw p_cols (unscale b) (OIncorp (IInt 0) v) = Some r' /\ ~ raw_equiv r' (unscale b').
Proof. exact old_incorp_refuted. Qed.
Print Assumptions C15_old_incorp_preserves_raw_refuted.
Theorem C15_old_concat_preserves_raw_refuted : exists r p b q b' r',
  from_numpy r p = Some b /\ params_ok (r_cols r) p = true /\ params_ok (p_cols q) (p_prm q) = true /\
  old_step b (OConcat true [] [q]) [] = Some b' /\
  raw_step opd_raw p_cols (unscale b) (OConcat true [] [q]) = Some r' /\ ~ raw_equiv r' (unscale b').
Proof. exact old_concat_refuted. Qed.
Print Assumptions C15_old_concat_preserves_raw_refuted.
(** ... and the subclasses could not concatenate at all *)
Theorem C15_old_concat_subclass_raises : forall b before after p, old_step b (OConcat false before after) p = None.
Proof. exact old_concat_subclass_fails. Qed.
Print Assumptions C15_old_concat_subclass_raises.
(** the repaired code on the same witnesses (append of [10] to [0;2;2;0], concat with [10;30], tmean of [1;NaN;3]) *)
Theorem C15_repaired_on_witnesses :
  (exists b b' r', from_numpy wit_raw wit_prm = Some b /\ step b (OAppend wit_nd) [(Some (14 # 5), Some 4)] = Some b' /\
     raw_step opd_raw p_cols (unscale b) (OAppend wit_nd) = Some r' /\ raw_equiv r' (unscale b'))
  /\ (exists b b' r', from_numpy wit_raw wit_prm = Some b /\ step b (OConcat true [] [wit_part]) [(Some (22 # 3), Some 11)] = Some b' /\
     raw_step opd_raw p_cols (unscale b) (OConcat true [] [wit_part]) = Some r' /\ raw_equiv r' (unscale b'))
  /\ c_mean true (col_from_numpy [Some 1; None; Some 3] (Some 2) (Some 1)) = Some None.
Proof. exact new_witnesses_preserved. Qed.
Print Assumptions C15_repaired_on_witnesses.

(** DenseScaledMatrix: untransform inverts transform; unscale(inplace) and rescale(inplace) keep the raw values scale*mat+location *)
Theorem C15_scaled_untransform_transform : forall (c : tcol) (m : list oq) l s, cloc c = Some l -> csc c = Some s -> ~ s == 0 ->
  coleq (col_untransform c (col_transform c m)) m.
Proof. exact untransform_transform. Qed.
Print Assumptions C15_scaled_untransform_transform.
Theorem C15_scaled_unscale_inplace : forall (c : tcol), coleq (col_raw (col_unscale_ip c)) (col_raw c)
  /\ cloc (col_unscale_ip c) = Some 0 /\ csc (col_unscale_ip c) = Some 1.
Proof. exact unscale_inplace_raw. Qed.
Print Assumptions C15_scaled_unscale_inplace.
Theorem C15_scaled_rescale : forall (c : tcol) (l s : oq), loc_ok (col_raw c) l = true -> sc_ok (col_raw c) s = true ->
  coleq (col_raw (col_rescale c l s)) (col_raw c).
Proof. exact rescale_raw. Qed.
Print Assumptions C15_scaled_rescale.

(** non-vacuity: a concrete column meets the parameter checks (also one with a missing value, a constant one and an all-missing one),
    and a concrete history (select, adjoin of a matrix operand, a failing select, delete, insert of an array with an index list,
    in-place append of a matrix operand, in-place remove, concat_taxa with a second matrix) meets [run_ok] *)
Example C15_hyps_satisfiable :
  loc_ok [Some 0; Some 2; Some 2; Some 0] (Some 1) = true /\ sc_ok [Some 0; Some 2; Some 2; Some 0] (Some 1) = true
  /\ loc_ok [Some 1; None; Some 3] (Some 2) = true /\ sc_ok [Some 1; None; Some 3] (Some 1) = true
  /\ sc_ok [Some 5; Some 5] (Some 1) = true /\ loc_ok [None; None] None = true /\ sc_ok [None; None] None = true
  /\ (exists b0, from_numpy wit_raw wit_prm = Some b0 /\ params_ok (r_cols wit_raw) wit_prm = true /\
      let ops := [(OSelect [0%Z; (-3)%Z], [(Some 1, Some 1)]);
                  (OAdjoin (mkopd [[Some 4; Some 8]] 2 (Some [(Some 6, Some 2)]) true None None None None), [(Some (7 # 2), Some (6660913676665389 # 2251799813685248))]);
                  (OSelect [9%Z], []);
                  (ODelete (IList [2%Z; 3%Z]), [(Some 1, Some 1)]);
                  (OInsert (IList [0%Z; 2%Z]) (mkopd [[Some 0; Some 2]] 2 None true None None None None), [(Some 1, Some 1)]);
                  (OAppend (mkopd [[Some 4; Some 8]] 2 (Some [(Some 6, Some 2)]) true None None None None), [(Some (8 # 3), Some (1547401413261741 # 562949953421312))]);
                  (ORemove (IList [4%Z; 5%Z]), [(Some 1, Some 1)]);
                  (OConcat true [] [mkpart [[Some 1; Some 3]] 2 [(Some 2, Some 1)] None None], [(Some (4 # 3), Some (2489458361662055 # 2251799813685248))])] in
      run_ok b0 ops = true /\ length (r_cols (run_spec wit_raw (map fst ops))) = 1%nat
      /\ r_cols (run_spec wit_raw (map fst ops)) = [[Some 0; Some 0; Some 2; Some 2; Some 1; Some 3]]).
Proof.
  split; [vm_compute; reflexivity|]. split; [vm_compute; reflexivity|]. split; [vm_compute; reflexivity|].
  split; [vm_compute; reflexivity|]. split; [vm_compute; reflexivity|]. split; [vm_compute; reflexivity|].
  split; [vm_compute; reflexivity|].
  eexists. split; [reflexivity|]. split; [vm_compute; reflexivity|]. cbv zeta.
  split; [vm_compute; reflexivity|]. split; vm_compute; reflexivity.
Qed.

(** * The kernel expressions of the CURRENT source (Gen/C15_Kernel.v is regenerated from DenseBreedingValueMatrix.py and
    DenseScaledMatrix.py on every run) are the ones the model is built from: the standardisation (1/scale)*(x-location), the
    un-scaling scale*mat+location, for each summary the numpy reduction of the stored matrix and its un-scaling rule, the
    NaN-aware mean / standard deviation of from_numpy and rescale with the exact zero-scale rule, the contribution of a matrix
    operand (its unscaled values) in every taxa routine and in concat_taxa, the placeholders of concat_taxa and the resets of
    DenseScaledMatrix.unscale.  ([lift2]/[lift3]: the element kernel with NaN propagation; a standard deviation is its square.) *)
Theorem C15_kernel_is_model :
  (forall raw l s, coleq (cdat (col_from_numpy raw l s)) (map (fun x => lift3 k_fn_standardize x l s) raw)
                   /\ cloc (col_from_numpy raw l s) = l /\ csc (col_from_numpy raw l s) = s)
  /\ (forall c, coleq (col_unscale c) (map (fun m => lift3 k_unscale m (csc c) (cloc c)) (cdat c)))
  /\ (forall u c, ooeq (c_max u c) (omap (fun m => if u then lift3 k_tmax_unscale m (csc c) (cloc c) else m) (red_stat k_tmax_red (cdat c))))
  /\ (forall u c, ooeq (c_min u c) (omap (fun m => if u then lift3 k_tmin_unscale m (csc c) (cloc c) else m) (red_stat k_tmin_red (cdat c))))
  /\ (forall u c, ooeq (c_mean u c) (omap (fun m => if u then lift3 k_tmean_unscale m (csc c) (cloc c) else m) (red_stat k_tmean_red (cdat c))))
  /\ (forall u c, ooeq (c_range u c) (omap (fun r => if u then lift2 k_trange_unscale r (csc c) else r) (red_stat k_trange_red (cdat c))))
  /\ (forall u c, ooeq (c_var u c) (omap (fun v => if u then lift2 k_tvar_unscale v (csc c) else v) (red_stat k_tvar_red (cdat c))))
  /\ (forall c, red_stat k_tstd_red (cdat c) = Some (np_var (cdat c)))
  /\ (forall sd s, k_tstd_unscale sd s * k_tstd_unscale sd s == k_tvar_unscale (sd * sd) s)
  /\ (forall c, c_argmax c = red_arg k_targmax_red (cdat c)) /\ (forall c, c_argmin c = red_arg k_targmin_red (cdat c))
  /\ (forall raw, red_stat k_fn_location_red raw = Some (nanmean raw) /\ red_stat k_fn_scale_red raw = Some (nanvar raw)
                  /\ red_stat k_sm_rescale_loc_red raw = Some (nanmean raw) /\ red_stat k_sm_rescale_scale_red raw = Some (nanvar raw))
  /\ (forall s, k_fn_scale_zero s = Qeq_bool s 0 /\ k_fn_scale_fill = 1 /\ k_sm_rescale_zero s = Qeq_bool s 0 /\ k_sm_rescale_fill = 1)
  /\ (forall b o p, step b o p = match raw_step (contrib_opd (op_contrib o)) (contrib_part k_concat_part) (unscale b) o with
                                 | Some r => restd r p | None => None end)
  /\ zero_one = (fun c => mkcol c (Some k_concat_loc0) (Some k_concat_sc0))
  /\ (forall x l s : oq, oeq (omul (osub x l) (oinv s)) (lift3 k_sm_transform x l s))
  /\ (forall x s l : oq, oeq (oadd (omul x s) l) (lift3 k_sm_untransform x s l))
  /\ (forall x s l : oq, oeq (oadd (omul x s) l) (lift3 k_sm_unscale x s l))
  /\ (forall x s l : oq, oeq (oadd (omul x s) l) (lift3 k_sm_rescale_up x s l))
  /\ (forall x l s : oq, oeq (omul (osub x l) (oinv s)) (lift3 k_sm_rescale_down x l s))
  /\ (forall c, cloc (col_unscale_ip c) = Some k_sm_unscale_location_reset /\ csc (col_unscale_ip c) = Some k_sm_unscale_scale_reset).
Proof.
  exact (conj col_from_numpy_kernel (conj col_unscale_kernel (conj c_max_kernel (conj c_min_kernel (conj c_mean_kernel
        (conj c_range_kernel (conj c_var_kernel (conj c_std_kernel (conj k_tstd_unscale_model (conj c_argmax_kernel (conj c_argmin_kernel
        (conj fn_reductions_kernel (conj k_fn_scale_rule_model (conj step_kernel (conj concat_placeholders_kernel
        (conj k_sm_transform_model (conj k_sm_untransform_model (conj k_sm_unscale_model (conj k_sm_rescale_up_model
        (conj k_sm_rescale_down_model sm_unscale_reset_kernel)))))))))))))))))))).
Qed.
Print Assumptions C15_kernel_is_model.

(** the round trip stated about the generated expressions: the source's unscale expression applied to the source's standardisation
    gives back the raw value for every location and every non-zero scale — in particular for whatever the zero-scale rule of the
    source lets through ([fn_scale sd] = if <zero test> then <fill value> else sd), entrywise with missing values kept *)
Theorem C15_kernel_roundtrip :
  (forall x l s : Q, ~ s == 0 -> k_unscale (k_fn_standardize x l s) s l == x)
  /\ (forall (raw : list oq) (l sd : Q), let s := Some (fn_scale sd) in
       coleq (map (fun m => lift3 k_unscale m s (Some l)) (map (fun x => lift3 k_fn_standardize x (Some l) s) raw)) raw).
Proof. exact (conj kernel_roundtrip kernel_roundtrip_col). Qed.
Print Assumptions C15_kernel_roundtrip.

(** the scale from_numpy stores (the exact standard deviation put through the source's zero-scale rule) passes the run-time check
    [sc_ok] under which the model theorems are stated: 1 exactly for a constant trait, the standard deviation otherwise *)
Theorem C15_kernel_scale_rule : forall (raw : list oq) (v sd : Q), nanvar raw = Some v -> 0 <= sd -> sd * sd == v ->
  sc_ok raw (Some (fn_scale sd)) = true.
Proof. exact kernel_scale_rule. Qed.
Print Assumptions C15_kernel_scale_rule.

(** covariance of the summaries, about the generated un-scaling rules: each inverts the source's standardisation on its own kind
    of quantity (value, difference, variance, standard deviation), and the standardisation is strictly increasing for a positive
    scale — so maximum, minimum, mean, range, variance, standard deviation on the original scale are those of the raw values *)
Theorem C15_kernel_stats_commute : forall x y l s : Q, 0 < s ->
  k_tmax_unscale (k_fn_standardize x l s) s l == x /\ k_tmin_unscale (k_fn_standardize x l s) s l == x
  /\ k_tmean_unscale (k_fn_standardize x l s) s l == x
  /\ k_trange_unscale (k_fn_standardize x l s - k_fn_standardize y l s) s == x - y
  /\ (forall v, k_tvar_unscale (v / (s * s)) s == v) /\ (forall d, k_tstd_unscale (d / s) s == d)
  /\ (k_fn_standardize x l s <= k_fn_standardize y l s <-> x <= y).
Proof. exact kernel_stats_commute. Qed.
Print Assumptions C15_kernel_stats_commute.

(** DenseScaledMatrix, about the generated expressions: untransform inverts transform; unscale(inplace) with its reset values and
    rescale with any new location and the new scale the zero rule lets through keep the raw value scale * mat + location *)
Theorem C15_kernel_scaled : forall x m l s l' sd : Q, ~ s == 0 ->
  k_sm_untransform (k_sm_transform x l s) s l == x
  /\ k_sm_untransform (k_sm_unscale m s l) k_sm_unscale_scale_reset k_sm_unscale_location_reset == k_sm_untransform m s l
  /\ k_sm_untransform (k_sm_rescale_down (k_sm_rescale_up m s l) l' (sm_scale sd)) (sm_scale sd) l' == k_sm_untransform m s l.
Proof. exact kernel_scaled. Qed.
Print Assumptions C15_kernel_scaled.

Example C15_kernel_hyps_satisfiable :
  nanvar [Some 0; Some 2; Some 2; Some 0] = Some 1 /\ 0 <= 1 /\ 1 * 1 == 1 /\ fn_scale 1 == 1 /\ fn_scale 0 == 1
  /\ nanvar [Some 5; Some 5] = Some 0 /\ 0 < 2 /\ ~ 2 == 0.
Proof. repeat split; try (vm_compute; reflexivity); discriminate. Qed.

(** * Operations that do not re-standardise (reorder_taxa, sort_taxa, group_taxa, copies: the rows of the stored matrix are
    selected / permuted, location and scale are kept): un-scaling commutes with every taxa selection and deletion, so every retained
    taxon keeps its raw value — for every index list, every location and scale (also missing ones) *)
Theorem C15_reorder_keeps_raw : forall (c : tcol) (ix : list Z) (ob : idx),
  take_l (col_unscale c) ix = omap (fun d => col_unscale (mkcol d (cloc c) (csc c))) (take_l (cdat c) ix)
  /\ delete_any (col_unscale c) ob = omap (fun d => col_unscale (mkcol d (cloc c) (csc c))) (delete_any (cdat c) ob).
Proof. intros c ix ob. exact (conj (unscale_commutes_take c ix) (unscale_commutes_delete c ob)). Qed.
Print Assumptions C15_reorder_keeps_raw.

(** covariance under a change of unit and origin of the raw values (x -> a x + b, a <> 0; e.g. values scaled by 2^-40 or 2^20):
    the stored standardised column is the same when location and scale are transformed accordingly, and un-scaling with the
    transformed parameters yields the transformed raw values *)
Theorem C15_standardise_affine_covariant : forall (raw : list oq) (c : tcol) (l s a b : Q), ~ s == 0 -> ~ a == 0 ->
  coleq (cdat (col_from_numpy (map (omapf (fun x => a * x + b)) raw) (Some (a * l + b)) (Some (a * s)))) (cdat (col_from_numpy raw (Some l) (Some s)))
  /\ (cloc c = Some l -> csc c = Some s ->
      coleq (col_unscale (mkcol (cdat c) (Some (a * l + b)) (Some (a * s)))) (map (omapf (fun x => a * x + b)) (col_unscale c))).
Proof. intros raw c l s a b Hs Ha. split; [now apply standardise_affine | now apply unscale_affine]. Qed.
Print Assumptions C15_standardise_affine_covariant.

(** sessions: a history is compositional — the matrix, the acceptance of the given parameters and the raw-level specification after
    ops1 ++ ops2 are what ops2 makes of the state ops1 reached: a result depends on the state at the call, never on an earlier call *)
Theorem C15_history_compositional :
  (forall ops1 ops2 b, run b (ops1 ++ ops2) = run (run b ops1) ops2)
  /\ (forall ops1 ops2 b, run_ok b (ops1 ++ ops2) = run_ok b ops1 && run_ok (run b ops1) ops2)
  /\ (forall ops1 ops2 r, run_spec r (ops1 ++ ops2) = run_spec (run_spec r ops1) ops2).
Proof. exact (conj run_app (conj run_ok_app run_spec_app)). Qed.
Print Assumptions C15_history_compositional.

Example C15_laws_hyps_satisfiable : ~ 2 == 0 /\ ~ (1 # 1099511627776) == 0
  /\ take_l (col_unscale (mkcol [Some 1; None; Some (-1)] (Some 5) (Some 2))) [2%Z; 0%Z; (-2)%Z] = Some [Some 3; Some 7; None].
Proof. repeat split; try discriminate. Qed.

(** the numpy calls of the copy-on-manipulation routines and what is handed on: within one routine the values and both label arrays
    go through the same numpy function with the same index object and no further keyword (no [mode]); select/delete work on
    self.unscale() (the table shows the variable, the model theorem [C15_kernel_is_model] the contribution); the results are passed
    to from_numpy / the constructor / the inherited in-place routine under their own names, and _restandardize takes matrix,
    location and scale from the re-standardised temporary in this order *)
Local Open Scope string_scope.
Theorem C15_kernel_taxa_calls :
  (same_calls "numpy.take" k_select_calls = true /\ map call_middle k_select_calls = [["indices"]; ["indices"]; ["indices"]]
   /\ same_calls "numpy.delete" k_delete_calls = true /\ map call_middle k_delete_calls = [["obj"]; ["obj"]; ["obj"]]
   /\ same_calls "numpy.insert" k_insert_calls = true /\ map call_middle k_insert_calls = [["obj"; "values"]; ["obj"; "taxa"]; ["obj"; "taxa_grp"]]
   /\ same_calls "numpy.append" k_adjoin_calls = true /\ map call_middle k_adjoin_calls = [["values"]; ["taxa"]; ["taxa_grp"]])
  /\ (k_fn_ctor = [("mat", "mat"); ("location", "location"); ("scale", "scale"); ("taxa", "taxa"); ("taxa_grp", "taxa_grp"); ("trait", "trait"); ("**", "kwargs")]
   /\ k_select_build = [("mat", "mat"); ("taxa", "taxa"); ("taxa_grp", "taxa_grp"); ("trait", "trait"); ("**", "kwargs")]
   /\ k_delete_build = [("mat", "mat"); ("taxa", "taxa"); ("taxa_grp", "taxa_grp"); ("trait", "trait"); ("**", "kwargs")]
   /\ k_insert_build = [("mat", "values"); ("taxa", "taxa"); ("taxa_grp", "taxa_grp"); ("trait", "self.trait"); ("**", "kwargs")]
   /\ k_adjoin_build = [("mat", "values"); ("taxa", "taxa"); ("taxa_grp", "taxa_grp"); ("trait", "self.trait"); ("**", "kwargs")]
   /\ k_restd_assign = [("self._mat", "tmp._mat"); ("self._location", "tmp._location"); ("self._scale", "tmp._scale")])
  /\ (k_manip_steps = ["mat = self._mat"; "self._mat = self.unscale()"; "try: method(**kwargs)"; "except Exception: self._mat = mat";
                       "except Exception: raise"; "self._restandardize(self._mat)"]
   /\ k_append_pass = [("method", "super(DenseBreedingValueMatrix, self).append_taxa"); ("values", "values"); ("taxa", "taxa"); ("taxa_grp", "taxa_grp"); ("**", "kwargs")]
   /\ k_remove_pass = [("method", "super(DenseBreedingValueMatrix, self).remove_taxa"); ("obj", "obj"); ("**", "kwargs")]
   /\ k_incorp_pass = [("method", "super(DenseBreedingValueMatrix, self).incorp_taxa"); ("obj", "obj"); ("values", "values"); ("taxa", "taxa"); ("taxa_grp", "taxa_grp"); ("**", "kwargs")]).
Proof. exact (conj calls_uniform (conj builds_kernel inplace_kernel)). Qed.
Print Assumptions C15_kernel_taxa_calls.

(** * Label keywords of insert_taxa / adjoin_taxa / append_taxa / incorp_taxa (taxa= / taxa_grp= given explicitly or omitted, in any
    combination; [with_kw] / [op_with_kw] replace the keywords of an operand / of an operation): what the operand contributes is
    values.unscale() — its raw values as soon as its parameters pass the run-time check — whichever keywords accompany it; two calls
    that differ only in the keywords and both succeed yield the same stored columns, locations, scales and number of taxa; and
    omitting the keywords with a matrix operand is exactly handing over the operand's own labels (the explicit ones override them) *)
Theorem C15_label_keywords_do_not_touch_values :
  (forall (v : operand) (kt kg : option (list Z)), opd_unscaled (with_kw v kt kg) = opd_unscaled v
     /\ (opd_params_ok v = true -> cols_eq (opd_unscaled (with_kw v kt kg)) (opd_raw v)))
  /\ (forall (b : bv) (o : op) (p : list prm) (kt kg : option (list Z)) (b1 b2 : bv),
        step b o p = Some b1 -> step b (op_with_kw o kt kg) p = Some b2 -> bcols b1 = bcols b2 /\ bn b1 = bn b2)
  /\ (forall (b : bv) (o : op) (p : list prm) (v : operand), op_operand o = Some v -> o_bv v <> None ->
        step b (op_with_kw o None None) p = step b (op_with_kw o (o_vtaxa v) (o_vgrp v)) p).
Proof.
  exact (conj (fun v kt kg => conj (opd_unscaled_kw v kt kg) (opd_unscaled_kw_raw v kt kg))
        (conj (fun b o p kt kg b1 b2 => step_values_kw_independent b o p kt kg b1 b2) step_kw_default)).
Qed.
Print Assumptions C15_label_keywords_do_not_touch_values.

(** non-vacuity: a grouped matrix of two taxa (raw values 1, 3), an operand matrix on another scale (1034, 1290: location 1162,
    scale 128) with labels of its own, incorporated at position 1 without keywords and with both keywords: both calls succeed, the
    labels differ as the keywords say, the values are the operand's raw values in both *)
Example C15_label_keywords_hyps_satisfiable :
  let b := mkbv [mkcol [Some (-1); Some 1] (Some 2) (Some 1)] 2 (Some [0%Z; 1%Z]) (Some [0%Z; 1%Z]) in
  let v := mkopd [[Some 1034; Some 1290]] 2 (Some [(Some 1162, Some 128)]) true (Some [2%Z; 3%Z]) (Some [2%Z; 2%Z]) None None in
  let p := [(Some 582, Some 580)] in
  opd_params_ok v = true /\ o_bv v <> None /\ op_operand (OIncorp (IInt 1) v) = Some v
  /\ exists b1 b2, step b (OIncorp (IInt 1) v) p = Some b1
       /\ step b (op_with_kw (OIncorp (IInt 1) v) (Some [8%Z; 9%Z]) (Some [3%Z; 3%Z])) p = Some b2
       /\ btaxa b1 = Some [0%Z; 2%Z; 3%Z; 1%Z] /\ btaxa b2 = Some [0%Z; 8%Z; 9%Z; 1%Z] /\ bgrp b2 = Some [0%Z; 3%Z; 3%Z; 1%Z]
       /\ map col_unscale (bcols b2) = [[Some 1; Some 1034; Some 1290; Some 3]].
Proof.
  cbv zeta. split; [vm_compute; reflexivity|]. split; [discriminate|]. split; [reflexivity|].
  eexists. eexists. split; [vm_compute; reflexivity|]. split; [vm_compute; reflexivity|].
  repeat split; vm_compute; reflexivity.
Qed.
