(** C16 — property theorems only: statement, [exact] of a lemma proved elsewhere, [Print Assumptions].
    Models: Model/C16_Store.v (HDF5 store, h5py_File_write_dict, typed readers, to_hdf5/from_hdf5 driven by the field tables
    of Gen/C16_Fields.v), Model/C16_Heap.v (copy / deepcopy), Model/C16_Codec.v (VCF import, data-frame codecs). *)
From Coq Require Import String PrimFloat Permutation Sorted.
From PV Require Import Lib.Common Lib.FloatK Lib.C16_Spec Model.C16_Store Model.C16_Heap Model.C16_Codec Gen.C16_Fields
                       Gen.C16_Kernel Model.C16_Kernel Model.C16_Maps Proofs.C16_Maps
                       Proofs.C16_Utf8 Proofs.C16_Store Proofs.C16_Nested Proofs.C16_Tables Proofs.C16_Heap Proofs.C16_Alias Proofs.C16_Codec Proofs.C16_Kernel
                       Model.C16_Multi Proofs.C16_Frame Model.C16_Vcf Proofs.C16_Vcf.
Local Open Scope Z_scope.

(** ** labels: every string of unicode scalar values survives the UTF-8 storage of HDF5 (non-ASCII labels included) *)
Theorem C16_utf8_roundtrip : forall s : str, Forall scalar s -> exists b, utf8_enc s = Some b /\ utf8_dec b = Some s.
Proof. exact utf8_roundtrip. Qed.
Print Assumptions C16_utf8_roundtrip.

(** ** HDF5: for every persistable class (the genomic models with their dictionary of hyper-parameters included), every
    well-formed file content [f] (every entry's parent group exists, as in any HDF5 file), every group name [g], every
    well-typed object [o]: if the overwrite succeeds, the object read back has exactly the attributes of [o] (passed through
    the class constructor) — whatever was in the file before.  [proj_rd] takes the attributes as they are, except that a
    dictionary comes back as [back_dict]: its members that are not None (see C16_codec_roundtrip_hyperparams_none_refuted),
    python numbers as numpy scalars; C16_dict_observable shows this is observably the dictionary written *)
Theorem C16_codec_roundtrip_hdf5 : forall (s : cls_spec), In s persistable ->
  forall (o : obj) (nt : Z) (f f' : file) (g : option str), parents_ok f ->
  wf_obj s o = true -> to_hdf5 VCur s f g o true = (f', None) -> from_hdf5 s nt f' g = construct s nt (proj_rd s o).
Proof. intros s Hs o nt f f' g Hpar Hwf. apply roundtrip_gen; [apply gen_spec_of; exact Hs | exact Hwf | exact Hpar]. Qed.
Print Assumptions C16_codec_roundtrip_hdf5.

(** after any sequence of overwrites of one location the last object is read back (all persistable classes; before the
    repair of h5py_File_write_dict, commit 6c7554cf, this held only for the classes without a dictionary-valued field) *)
Theorem C16_read_after_writes : forall (s : cls_spec), In s persistable ->
  forall (os : list obj) (o : obj) (f f' : file) (g : option str) (nt : Z), parents_ok f ->
  wf_obj s o = true -> write_all VCur s f g (os ++ [o]) = (f', None) -> from_hdf5 s nt f' g = construct s nt (proj_rd s o).
Proof. intros s Hs. apply read_after_writes_gen. apply gen_spec_of. exact Hs. Qed.
Print Assumptions C16_read_after_writes.

(** a dictionary without None members is read back observably equal (as a finite map; python int/float = numpy scalar) *)
Theorem C16_dict_observable : forall l, wf_dict l = true -> Forall (fun kv => snd kv <> None) l -> dict_obs l (back_dict l) = true.
Proof. exact back_dict_observable. Qed.
Print Assumptions C16_dict_observable.

(** for the classes without a dictionary-valued field the file may be any list of entries, and the attributes come back
    literally *)
Theorem C16_read_after_writes_flat : forall (s : cls_spec), In s flat_classes ->
  forall (os : list obj) (o : obj) (f f' : file) (g : option str) (nt : Z),
  wf_obj s o = true -> write_all VCur s f g (os ++ [o]) = (f', None) -> from_hdf5 s nt f' g = construct s nt (proj s o).
Proof.
  intros s Hs os o f f' g nt Hwf. apply read_after_writes_flat; [apply flat_spec_of; exact Hs|].
  apply wf_obj_flat_of; [apply flat_spec_of; exact Hs | exact Hwf].
Qed.
Print Assumptions C16_read_after_writes_flat.

(** the hypothesis "the overwrite succeeds" holds whenever the group path does not run through a dataset *)
Theorem C16_overwrite_succeeds : forall (s : cls_spec), In s flat_classes ->
  forall (o : obj) (f : file) (g : option str), wf_obj s o = true -> g <> Some [] ->
  (forall gn, norm_group g = inl gn -> group_free f (split_path gn)) -> exists f', to_hdf5 VCur s f g o true = (f', None).
Proof.
  intros s Hs o f g Hwf Hg Hfree. apply to_hdf5_succeeds; [apply flat_spec_of; exact Hs | | exact Hg | exact Hfree].
  apply wf_obj_flat_of; [apply flat_spec_of; exact Hs | exact Hwf].
Qed.
Print Assumptions C16_overwrite_succeeds.

(** the constructor returns complete data unchanged, so "read back" is the object itself *)
Theorem C16_construct_identity : forall s nt data,
  (plain_class s = true -> construct s nt data = inl data)
  /\ (cname s = "GM"%string -> attr "ploidy" data <> None -> construct s nt data = inl data)
  /\ (cname s = "GE"%string -> Forall (fun kv => snd kv <> None) data -> construct s nt data = inl data).
Proof. intros s nt data. split; [apply construct_plain|]. split; [apply construct_GM | apply construct_GE]. Qed.
Print Assumptions C16_construct_identity.

(** typed values satisfy the hypothesis [wf_obj]: arrays of any dtype through the plain reader, int8 / int64 arrays, python
    ints, and str labels / names of unicode scalar values come back identical *)
Theorem C16_typed_values_survive :
  (forall t sh d, reader_exact RNd (VArr t sh d) = true) /\ (forall sh d, reader_exact RNdInt8 (VArr TI8 sh d) = true)
  /\ (forall sh d, reader_exact RNdInt (VArr TI64 sh d) = true) /\ (forall z, in_i64 z = true -> reader_exact RInt (VInt z) = true)
  /\ (forall l, Forall (Forall scalar) l -> reader_exact RNdUtf8 (VStrs l) = true)
  /\ (forall s0, Forall scalar s0 -> reader_exact RUtf8 (VStr s0) = true).
Proof.
  split; [exact exact_nd|]. split; [exact exact_nd_int8|]. split; [exact exact_nd_int|]. split; [exact exact_int|]. split; [exact exact_strs | exact exact_str].
Qed.
Print Assumptions C16_typed_values_survive.

(** dictionary members that survive: arrays, python int / float (as numpy scalars), str of unicode scalar values, bytes *)
Theorem C16_dict_members_survive :
  (forall t sh d, member_exact (VArr t sh d) = true) /\ (forall z, in_i64 z = true -> member_exact (VInt z) = true)
  /\ (forall b, member_exact (VFloat b) = true) /\ (forall s0, Forall scalar s0 -> member_exact (VStr s0) = true) /\ (forall b, member_exact (VBytes b) = true).
Proof.
  split; [intros; unfold member_exact; cbn; rewrite dtype_eqb_refl, !zl_eqb_refl; reflexivity|].
  split; [intros z Hz; unfold member_exact; cbn; rewrite Hz; cbn; rewrite Z.eqb_refl; reflexivity|].
  split; [intros; unfold member_exact; cbn; rewrite Z.eqb_refl; reflexivity|].
  split; [|intros; unfold member_exact; cbn; apply zl_eqb_refl].
  intros s0 H. unfold member_exact. cbn [encode]. destruct (utf8_roundtrip s0 H) as [b [E D]]. rewrite E. cbn. rewrite D. cbn. apply zl_eqb_refl.
Qed.
Print Assumptions C16_dict_members_survive.

(** the behaviour before commit 5ae6bde7 (None fields skipped): overwriting a labelled genotype matrix with an unlabelled one
    read the old labels back; the code as it stands reads the second object *)
Theorem C16_read_after_writes_old_refuted :
  exists f1 f2, to_hdf5 VOld0 spec_GM [] w_group w_rich true = (f1, None) /\ to_hdf5 VOld0 spec_GM f1 w_group w_poor true = (f2, None)
    /\ exists o', from_hdf5 spec_GM 0 f2 w_group = inl o' /\ attr "taxa" o' = Some (OS (VStrs [[97]; [98]])) /\ attr "taxa" w_poor = None.
Proof. exact stale_fields_old. Qed.
Print Assumptions C16_read_after_writes_old_refuted.

(** the behaviour before commit 6c7554cf ([VOld1]: nested dictionaries never cleared): a genomic model written over another
    one read back with the hyper-parameter of the first; the code as it stands reads the second model *)
Theorem C16_read_after_writes_old1_refuted :
  exists f1 f2, to_hdf5 VOld1 spec_ALGM [] (Some [109]) (w_model [([97], Some (VFloat 4609434218613702656))]) true = (f1, None)
    /\ to_hdf5 VOld1 spec_ALGM f1 (Some [109]) (w_model []) true = (f2, None)
    /\ exists o', from_hdf5 spec_ALGM 1 f2 (Some [109]) = inl o'
                  /\ attr "hyperparams" o' = Some (OD [([97], Some (VArr TF64 [] [4609434218613702656]))]) /\ attr "hyperparams" (w_model []) = Some (OD []).
Proof. exact stale_hyperparams_old. Qed.
Print Assumptions C16_read_after_writes_old1_refuted.

(** the reader before commit 06cf6bbd ([old_from_hdf5]) handed a str hyper-parameter back as bytes *)
Theorem C16_codec_roundtrip_hyperparams_old_refuted :
  exists f1, to_hdf5 VCur spec_ALGM [] (Some [109]) (w_model [([107], Some (VStr [114]))]) true = (f1, None)
    /\ exists o', old_from_hdf5 spec_ALGM 1 f1 (Some [109]) = inl o' /\ attr "hyperparams" o' = Some (OD [([107], Some (VBytes [114]))]).
Proof. exact lossy_hyperparams_old. Qed.
Print Assumptions C16_codec_roundtrip_hyperparams_old_refuted.

(** still false of the code as it stands: a hyper-parameter whose value is None is dropped (HDF5 cannot represent None) *)
Theorem C16_codec_roundtrip_hyperparams_none_refuted :
  exists f1, to_hdf5 VCur spec_ALGM [] (Some [109]) (w_model [([107], None)]) true = (f1, None)
    /\ from_hdf5 spec_ALGM 1 f1 (Some [109]) = inl (w_model []).
Proof. exact none_hyperparam_dropped. Qed.
Print Assumptions C16_codec_roundtrip_hyperparams_none_refuted.

(** ** the tables extracted from the source on this run: written = read, every read reaches the object, group metadata is
    persisted, copies cover constructor parameters and metadata, deep copies deep-copy (finite domain: the 14 classes) *)
Theorem C16_tables_written_eq_read :
  forallb written_eq_read all_specs = true /\ forallb required_unguarded all_specs = true
  /\ forallb reads_reach_object all_specs = true /\ forallb meta_persisted persistable = true
  /\ map cname persistable = ["DM"; "TM"; "VrM"; "GM"; "PGM"; "BV"; "CM"; "STT"; "VM"; "ALGM"; "ADLGM"; "GE"]%string.
Proof.
  split; [exact tables_written_eq_read|]. split; [exact tables_required_unguarded|]. split; [exact tables_reads_reach_object|].
  split; [exact tables_meta_persisted | exact persistable_names].
Qed.
Print Assumptions C16_tables_written_eq_read.

Theorem C16_tables_copied_superset :
  forallb copied_superset all_specs = true /\ forallb (deep_is_deep shared_ok) all_specs = true
  /\ forallb (shallow_copies shared_ok) all_specs = true /\ length all_specs = 14%nat.
Proof. split; [exact tables_copied_superset|]. split; [exact tables_deep_is_deep|]. split; [exact tables_shallow_copies | reflexivity]. Qed.
Print Assumptions C16_tables_copied_superset.

(** ** copies *)
(** copy.copy and copy.deepcopy of an attribute value observe the value of the source *)
Theorem C16_copy_equal : forall specs fuel deep h v h' v', closed h -> copy_hv specs fuel deep h v = Some (h', v') -> resolve1 h' v' = resolve1 h v.
Proof. exact copy_hv_equal. Qed.
Print Assumptions C16_copy_equal.

(** __copy__ and __deepcopy__ of a whole object, any class table: attribute by attribute the copy observes the source's value *)
Theorem C16_copy_equal_object : forall specs fuel deep s h o h' o',
  closed h -> Forall (hv_lt (length h)) (map snd o) -> class_copy specs fuel deep s h o = Some (h', o') ->
  Forall2 (fun c kv => fst kv = ctgt c /\ resolve1 h' (snd kv) = resolve1 h (hattr (csrc c) o))
          (filter (fun c => negb (String.eqb (csrc c) "")) (if deep then dp_ctor s ++ dp_post s else cp_ctor s ++ cp_post s)) o'.
Proof. exact class_copy_equal. Qed.
Print Assumptions C16_copy_equal_object.

(** __deepcopy__ of any class whose table has no shallow copy (nested classes deep-copy everything): the heap is only
    extended, the new region refers only to itself, every deep-copied attribute points into it *)
Theorem C16_deepcopy_allocates : forall specs s fuel h h' o o',
  forallb strict_deep specs = true -> no_shallow (dp_ctor s ++ dp_post s) = true -> class_copy specs fuel true s h o = Some (h', o') ->
  exists e, h' = h ++ e /\ closed_from (length h) h'
            /\ Forall2 (field_rel (length h) o) (filter (fun c => negb (String.eqb (csrc c) "")) (dp_ctor s ++ dp_post s)) o'.
Proof. intros. eapply deepcopy_allocates; eauto. Qed.
Print Assumptions C16_deepcopy_allocates.

(** whatever is reachable from a deep-copied attribute lies in the new region, after any mutations of that region *)
Theorem C16_deepcopy_reach_fresh : forall specs s fuel h h' o o',
  forallb strict_deep specs = true -> no_shallow (dp_ctor s ++ dp_post s) = true -> class_copy specs fuel true s h o = Some (h', o') ->
  forall ms, Forall (mut_ok (length h)) ms -> forall v l, hv_ge (length h) v -> reach (fold_left apply_mut ms h') v l -> (length h <= l)%nat.
Proof. intros. eapply deepcopy_reach_fresh; eauto. Qed.
Print Assumptions C16_deepcopy_reach_fresh.

(** any sequence of mutations of the new region leaves every attribute of the source unchanged *)
Theorem C16_deepcopy_independent : forall specs s fuel h h' o o',
  forallb strict_deep specs = true -> no_shallow (dp_ctor s ++ dp_post s) = true -> closed h -> class_copy specs fuel true s h o = Some (h', o') ->
  forall ms, Forall (mut_ok (length h)) ms -> Forall (fun kv => hv_lt (length h) (snd kv)) o ->
  forall a, resolve1 (fold_left apply_mut ms h') (hattr a o) = resolve1 h (hattr a o).
Proof. intros. eapply deepcopy_independent; eauto. Qed.
Print Assumptions C16_deepcopy_independent.

(** the hypotheses hold for the tables of this run: the classes that occur nested deep-copy everything, no __deepcopy__
    uses a shallow copy *)
Theorem C16_deepcopy_tables : forallb strict_deep [spec_ALGM; spec_ADLGM] = true /\ forallb (fun s => no_shallow (dp_ctor s ++ dp_post s)) all_specs = true.
Proof. split; vm_compute; reflexivity. Qed.
Print Assumptions C16_deepcopy_tables.

(** ** VCF import *)
Theorem C16_vcf_import_exact : forall (phased : bool) (n : nat) (recs : list vrec),
  let o := vcf_import phased n recs false in
  vo_chr o = map vchrom recs /\ vo_pos o = map vpos recs
  /\ vo_name o = map (fun r => match vid r with Some s => s | None => none_str end) recs
  /\ vo_meta o = None
  /\ (forall i j, (i < n)%nat -> (j < length recs)%nat ->
        let g := nth i (vgt (nth j recs (mkV 0 0 None []))) (0, 0) in
        if phased then nth j (nth i (nth 0 (vo_mat o) []) []) 0 = fst g /\ nth j (nth i (nth 1 (vo_mat o) []) []) 0 = snd g
        else nth j (nth i (nth 0 (vo_mat o) []) []) 0 = fst g + snd g).
Proof. exact vcf_import_exact. Qed.
Print Assumptions C16_vcf_import_exact.

Theorem C16_vcf_import_grouped : forall (phased : bool) (n : nat) (recs : list vrec),
  let rs := isort vkey_leb recs in
  Permutation rs recs /\ StronglySorted (fun a b => vkey_leb a b = true) rs
  /\ vo_mat (vcf_import phased n recs true) = vo_mat (vcf_import phased n rs false)
  /\ vo_chr (vcf_import phased n recs true) = map vchrom rs /\ vo_pos (vcf_import phased n recs true) = map vpos rs
  /\ vo_name (vcf_import phased n recs true) = vo_name (vcf_import phased n rs false)
  /\ vo_meta (vcf_import phased n recs true) = Some (grp_meta (map vchrom rs)).
Proof. exact vcf_import_grouped. Qed.
Print Assumptions C16_vcf_import_grouped.

(** ** VCF import from the text of the file.  [vcf_text_import] builds each record from the attributes cyvcf2 derives from a data line
    (CHROM, POS, start, end, ID) through the selectors regenerated from BOTH from_vcf bodies (the k_vcf_ definitions of Gen/C16_Kernel.v), so these
    statements are about the attribute each field is read from in the current source *)
Theorem C16_kernel_vcf_fields : forall (phased : bool) (l : vline),
  rec_of_line phased l = mkV (l_chrom l) (l_pos l) (Some (id_text l)) (l_gt l)
  /\ layout_ok true = true /\ layout_ok false = true.
Proof. intros phased l. split; [apply rec_of_line_model | exact layout_current]. Qed.
Print Assumptions C16_kernel_vcf_fields.

(** every array is the file, line by line — CHROM, POS, ID ('.' read as "None"), the GT calls — whatever REF and ALT are
    (deletions, insertions, MNPs, several ALT alleles), for EVERY coordinate: the importers read variant.start + 1 (64-bit), so the
    former guard "a coordinate a 32-bit POS holds" is gone *)
Theorem C16_vcf_text_import_exact : forall (phased : bool) (n : nat) (lines : list vline),
  let o := vcf_text_import phased n lines false in
  vo_chr o = map l_chrom lines /\ vo_pos o = map l_pos lines /\ vo_name o = map id_text lines /\ vo_meta o = None
  /\ (forall i j, (i < n)%nat -> (j < length lines)%nat ->
        let g := nth i (l_gt (nth j lines dline)) (0, 0) in
        if phased then nth j (nth i (nth 0 (vo_mat o) []) []) 0 = fst g /\ nth j (nth i (nth 1 (vo_mat o) []) []) 0 = snd g
        else nth j (nth i (nth 0 (vo_mat o) []) []) 0 = fst g + snd g).
Proof. exact vcf_text_import_exact. Qed.
Print Assumptions C16_vcf_text_import_exact.
Example C16_vcf_text_hyps_satisfiable :
  vo_pos (vcf_text_import true 2 w_lines false) = [100; 50; 2147483647; 5000000000]
  /\ vo_pos (vcf_text_import false 2 w_lines true) = [50; 2147483647; 5000000000; 100].
Proof. exact w_lines_result. Qed.

Theorem C16_vcf_text_import_grouped : forall (phased : bool) (n : nat) (lines : list vline),
  let recs := map (rec_of_line phased) lines in
  let rs := isort vkey_leb recs in
  Permutation rs recs /\ StronglySorted (fun a b => vkey_leb a b = true) rs
  /\ vo_mat (vcf_text_import phased n lines true) = vo_mat (vcf_import phased n rs false)
  /\ vo_chr (vcf_text_import phased n lines true) = map vchrom rs /\ vo_pos (vcf_text_import phased n lines true) = map vpos rs
  /\ vo_name (vcf_text_import phased n lines true) = vo_name (vcf_import phased n rs false)
  /\ vo_meta (vcf_text_import phased n lines true) = Some (grp_meta (map vchrom rs)).
Proof. exact vcf_text_import_grouped. Qed.
Print Assumptions C16_vcf_text_import_grouped.

(** REF and ALT play no part: files that agree in CHROM, POS, ID and the calls import to the same object (both importers, both
    values of auto_group_vrnt); a position read from [variant.end] would move with the length of REF *)
Theorem C16_vcf_ref_alt_irrelevant : forall (phased : bool) (n : nat) (auto_group : bool) (ls ls' : list vline),
  map line_core ls = map line_core ls' -> vcf_text_import phased n ls auto_group = vcf_text_import phased n ls' auto_group.
Proof. exact vcf_text_import_ref_alt_irrelevant. Qed.
Print Assumptions C16_vcf_ref_alt_irrelevant.
Example C16_vcf_ref_alt_hyps_satisfiable :
  exists ls ls', ls <> ls' /\ map line_core ls = map line_core ls'.
Proof. exists [mkL 1 5 None [65] [67] [(0, 1)]], [mkL 1 5 None [65; 67; 71] [65] [(0, 1)]]. split; [discriminate | reflexivity]. Qed.

(** regression witness for the repaired finding C16-vcf-pos-int32-wrap, about the FORMER importers ([old_vcf_text_import]:
    vrnt_phypos.append(variant.POS), cyvcf2's 32-bit field): a coordinate beyond 2^31 - 1 was not reproduced by either of them; the
    current importers reproduce the same line.  On coordinates a 32-bit field holds the former and the current importers coincide *)
Theorem C16_vcf_text_pos_old_refuted :
  exists l : vline, l_pos l = 2147483648 /\ (forall ph ag, vo_pos (old_vcf_text_import ph 1 [l] ag) = [-2147483648])
                    /\ (forall ph ag, vo_pos (vcf_text_import ph 1 [l] ag) = [2147483648]).
Proof. exact old_vcf_text_pos_refuted. Qed.
Print Assumptions C16_vcf_text_pos_old_refuted.
Theorem C16_vcf_text_old_agrees_in_range : forall ph n lines ag,
  Forall in_range32 lines -> old_vcf_text_import ph n lines ag = vcf_text_import ph n lines ag.
Proof. exact old_vcf_text_import_in_range. Qed.
Print Assumptions C16_vcf_text_old_agrees_in_range.
Example C16_vcf_text_old_hyps_satisfiable : Forall in_range32 (firstn 3 w_lines) /\ length (firstn 3 w_lines) = 3%nat.
Proof. split; [exact w_lines_prefix_in_range | reflexivity]. Qed.

(** the group metadata tiles the chromosome array: expanding (name, length) gives it back, lengths are positive *)
Theorem C16_group_runs : forall l i, flat_map (fun e => repeat (fst (fst e)) (Z.to_nat (snd e))) (runs l i) = l /\ Forall (fun e => 0 < snd e) (runs l i).
Proof. exact runs_expand. Qed.
Print Assumptions C16_group_runs.

(** ** data-frame codecs *)
Theorem C16_codec_roundtrip_gmap_morgans : forall (g : gmap) (auto_group : bool), g_stop g = None -> g_name g = None -> g_fn g = None ->
  gmap_from_pandas false UM false false auto_group (gmap_to_pandas false UM g) = Some (gmap_construct auto_group g).
Proof. exact gmap_roundtrip_M. Qed.
Print Assumptions C16_codec_roundtrip_gmap_morgans.

Theorem C16_codec_roundtrip_gmap_cM_refuted : exists x : float, PrimFloat.eqb (PrimFloat.mul centi (PrimFloat.mul hundred x)) x = false.
Proof. exact cM_roundtrip_fails. Qed.
Print Assumptions C16_codec_roundtrip_gmap_cM_refuted.
(** finite domain: the 1025 positions k/256, k = 0..1024 *)
Theorem C16_codec_roundtrip_gmap_cM_partial :
  forallb (fun k => feqb (PrimFloat.mul centi (PrimFloat.mul hundred (grid256 k))) (grid256 k)) (seq 0 1025) = true.
Proof. exact cM_roundtrip_grid. Qed.
Print Assumptions C16_codec_roundtrip_gmap_cM_partial.

Theorem C16_codec_roundtrip_bv_pandas_refuted :
  exists m', bv_from_pandas false false (bv_to_pandas false w_bv) = Some m'
             /\ fl_eqb (bv_loc m') (bv_loc w_bv) = false /\ fl_eqb (bv_scale m') (bv_scale w_bv) = false /\ fll_eqb (bv_mat m') (bv_mat w_bv) = true.
Proof. exact bv_pandas_loses_location_scale. Qed.
Print Assumptions C16_codec_roundtrip_bv_pandas_refuted.

Theorem C16_codec_roundtrip_vmat_pandas_refuted :
  exists m', vm_from_pandas false (vm_to_pandas false w_vm) = Some m'
             /\ vm_taxa m' = Some [[97]; [98]] /\ vm_mat m' = [[[3%float]; [2%float]]; [[1%float]; [0%float]]].
Proof. exact vm_pandas_sorts_labels. Qed.
Print Assumptions C16_codec_roundtrip_vmat_pandas_refuted.

Theorem C16_codec_roundtrip_absent_labels_refuted : exists m', cm_from_pandas false (cm_to_pandas false w_cm) = Some m' /\ cm_taxa m' = Some [[48]].
Proof. exact cm_pandas_invents_taxa. Qed.
Print Assumptions C16_codec_roundtrip_absent_labels_refuted.

(** ** the kernel expressions of the CURRENT source (Gen/C16_Kernel.v is regenerated from pybrops/core/util/h5py.py, the 18
    to_hdf5 / from_hdf5 bodies, the genetic-map classes and the variance-matrix codec on every run).  [write_dict_k],
    [to_hdf5_k], [raw_member_k], [gmap_to_cM_k], [gmap_from_cM_k], [vm_to_pandas_k] (Model/C16_Kernel.v) are the code written with
    the generated field-name, delete-condition, recursive-call, group-name, decode, unit-conversion and column/index
    definitions; they ARE the hand model.  A changed expression in the source breaks this theorem. *)
Theorem C16_kernel_is_model :
  (forall l f g ow, write_dict_k f g l ow = write_dict VCur f g l ow)
  /\ (forall s f g o ow, to_hdf5_k s f g o ow = to_hdf5 VCur s f g o ow)
  /\ (forall g, norm_group_k g = norm_group g)
  /\ (forall d, raw_member_k d = raw_member true d)
  /\ (forall ext x, gmap_to_cM_k ext x = PrimFloat.mul hundred x) /\ (forall ext x, gmap_from_cM_k ext x = PrimFloat.mul centi x)
  /\ (units_of_k "M" = Some UM /\ units_of_k "Morgans" = Some UM /\ units_of_k "cM" = Some UcM /\ units_of_k "centiMorgans" = Some UcM
      /\ k_gmap_units_M = ["M"; "Morgans"]%string /\ k_gmap_units_cM = ["cM"; "centiMorgans"]%string)
  /\ (forall grp_cols m, vm_to_pandas_k grp_cols m = vm_to_pandas grp_cols m)
  /\ k_vm_from_axes = ["female_col"; "male_col"; "trait_col"]%string.
Proof.
  split; [exact write_dict_k_model|]. split; [exact to_hdf5_k_model|]. split; [exact norm_group_k_model|]. split; [exact raw_member_k_model|].
  split; [exact gmap_to_cM_k_model|]. split; [exact gmap_from_cM_k_model|]. split; [exact units_of_k_model|].
  split; [exact vm_to_pandas_k_model | exact k_vm_from_axes_model].
Qed.
Print Assumptions C16_kernel_is_model.

(** the HDF5 round trip and "the last object written is the one read back", about the writer as the source has it now *)
Theorem C16_kernel_roundtrip_hdf5 : forall (s : cls_spec), In s persistable ->
  forall (o : obj) (nt : Z) (f f' : file) (g : option str), parents_ok f ->
  wf_obj s o = true -> to_hdf5_k s f g o true = (f', None) -> from_hdf5 s nt f' g = construct s nt (proj_rd s o).
Proof. exact kernel_roundtrip. Qed.
Print Assumptions C16_kernel_roundtrip_hdf5.

Theorem C16_kernel_read_after_writes : forall (s : cls_spec), In s persistable ->
  forall (os : list obj) (o : obj) (f f' : file) (g : option str) (nt : Z), parents_ok f ->
  wf_obj s o = true -> write_all_k s f g (os ++ [o]) = (f', None) -> from_hdf5 s nt f' g = construct s nt (proj_rd s o).
Proof. exact kernel_read_after_writes. Qed.
Print Assumptions C16_kernel_read_after_writes.

(** genetic maps: the exported genetic-position column is the generated conversion of every position, and the constructor
    receives the generated back-conversion of every cell of the column handed in (both map classes) *)
Theorem C16_kernel_gmap_columns : forall ext g,
  col_of (CS (zs "cM")) (gmap_to_pandas ext UcM g) = Some (map CF (map (gmap_to_cM_k ext) (g_gen g)))
  /\ col_of (CS (zs "cM")) (gmap_to_pandas ext UM g) = Some (map CF (g_gen g))
  /\ forall wn wf ag t r, gmap_from_pandas ext UcM wn wf ag t = Some r ->
       exists c fl g0, col_of (CS (zs "cM")) t = Some c /\ opt_all (map as_float c) = Some fl
                       /\ g_gen g0 = map (gmap_from_cM_k ext) fl /\ r = gmap_construct ag g0.
Proof. intros ext g. destruct (gmap_to_pandas_k ext g) as [A B]. split; [exact A|]. split; [exact B|]. intros wn wf ag t r. apply gmap_from_pandas_k. Qed.
Print Assumptions C16_kernel_gmap_columns.

(** the centiMorgan round trip with the conversions of the current source: refuted in general, exact on the grid k/256 (k <= 1024) *)
Theorem C16_kernel_gmap_cM_refuted : forall ext, exists x : float, PrimFloat.eqb (gmap_from_cM_k ext (gmap_to_cM_k ext x)) x = false.
Proof. exact kernel_cM_roundtrip_fails. Qed.
Print Assumptions C16_kernel_gmap_cM_refuted.
Theorem C16_kernel_gmap_cM_partial : forall ext,
  forallb (fun k => feqb (gmap_from_cM_k ext (gmap_to_cM_k ext (grid256 k))) (grid256 k)) (seq 0 1025) = true.
Proof. exact kernel_cM_roundtrip_grid. Qed.
Print Assumptions C16_kernel_gmap_cM_partial.

(** ** genetic maps: constructor settings, default arguments, egmap files (Model/C16_Maps.v; which arguments, defaults and column
    names the source uses is regenerated into Gen/C16_Kernel.v on every run) *)
(** StandardGeneticMap keeps the interpolation kind and fill value it is constructed with *)
Theorem C16_gmap_ctor_keeps_spline_settings : forall k a, ctor_kind false k a = k /\ ctor_fill false k a = k.
Proof. exact sgm_ctor_keeps. Qed.
Print Assumptions C16_gmap_ctor_keeps_spline_settings.
(** so does ExtendedGeneticMap (repaired in the library: its constructor hands self.spline_kind, self.spline_fill_value to
    build_spline), for every kind and fill value, whether or not the spline is built: reading a map back with the source's
    spline_kind reproduces that parameter *)
Theorem C16_codec_roundtrip_egmap_spline_kind : forall k a, ctor_kind true k a = k /\ ctor_fill true k a = k.
Proof. exact egm_ctor_keeps. Qed.
Print Assumptions C16_codec_roundtrip_egmap_spline_kind.
(** regression witness, about the FORMER constructor ([old_egmap_ctor_kind]: build_spline called with nothing but the keyword
    dictionary): whenever it built its spline it fell back to the defaults of build_spline *)
Theorem C16_codec_roundtrip_egmap_spline_kind_old_refuted : exists k, old_egmap_ctor_kind k true <> k /\ old_egmap_ctor_kind k true = zs "linear".
Proof. exact old_egm_ctor_drops_kind. Qed.
Print Assumptions C16_codec_roundtrip_egmap_spline_kind_old_refuted.

(** to_pandas() followed by from_pandas(), both with their default arguments: the writer's default unit is the centiMorgan, the
    reader's the Morgan - positions come back multiplied by 100 *)
Theorem C16_codec_roundtrip_gmap_defaults_refuted :
  exists ut uf g' m, default_units_to false = Some ut /\ default_units_from false = Some uf
    /\ gmap_from_pandas false uf false false true (gmap_to_pandas false ut w_map) = Some (g', m)
    /\ fl_eqb (g_gen g') (g_gen w_map) = false /\ fl_eqb (g_gen g') [0%float; 50%float; 100%float] = true.
Proof. exact default_roundtrip_scales. Qed.
Print Assumptions C16_codec_roundtrip_gmap_defaults_refuted.

(** to_egmap followed by from_egmap reproduces every extended genetic map, marker names and function codes included (repaired in the
    library: the writer uses the column names the reader looks for, the reader takes an entirely empty optional column as absent).
    The hypotheses exclude only what the file format cannot express: a present array of length zero (an empty column, like an
    absent one) *)
Theorem C16_codec_roundtrip_egmap : forall (g : gmap) (auto_group : bool) s, g_stop g = Some s -> g_name g <> Some [] -> g_fn g <> Some [] ->
  egmap_from auto_group (egmap_to g) = Some (gmap_construct auto_group g).
Proof. exact egmap_roundtrip. Qed.
Print Assumptions C16_codec_roundtrip_egmap.
(** the header of the current writer carries the reader's two names at the positions (4, 5) the reader takes the columns from *)
Theorem C16_kernel_egmap_header :
  nth_error k_egmap_file_header 4 = nth_error k_egmap_file_optional 0 /\ nth_error k_egmap_file_header 5 = nth_error k_egmap_file_optional 1
  /\ length k_egmap_file_header = 6%nat /\ length k_egmap_file_optional = 2%nat.
Proof. exact egmap_header_match. Qed.
Print Assumptions C16_kernel_egmap_header.
(** regression witness, about the FORMER pair ([old_egmap_to]: optional columns written as 'name' / 'fncode'; [old_egmap_from]: read
    whenever the header has 'mkr_name' / 'map_fncode'): names and function codes were lost, everything else survived *)
Theorem C16_codec_roundtrip_egmap_names_old_refuted :
  (exists g', old_egmap_from false (old_egmap_to w_eg) = Some (g', None)
              /\ g_name w_eg = Some [[97]; [98]] /\ g_name g' = None /\ g_fn g' = None
              /\ g_chr g' = g_chr w_eg /\ g_pos g' = g_pos w_eg /\ g_stop g' = g_stop w_eg /\ fl_eqb (g_gen g') (g_gen w_eg) = true)
  /\ forallb (fun nm => negb (existsb (cell_eqb (CS (zs nm))) old_egmap_header)) k_egmap_file_optional = true.
Proof. split; [exact old_egmap_names_lost | exact old_egmap_header_mismatch]. Qed.
Print Assumptions C16_codec_roundtrip_egmap_names_old_refuted.

(** the table readers address a column by name or by position: in every such conditional of the current source the three
    occurrences are the same argument, and the genetic-map readers assign it to the field it is named after (finite domain:
    the rows of this run's table, at least the 16 of StandardGeneticMap, ExtendedGeneticMap, DenseCoancestryMatrix,
    DenseBreedingValueMatrix) *)
Theorem C16_kernel_column_selection : forallb col_row_ok k_col_select = true /\ (16 <= length k_col_select)%nat.
Proof. exact col_select_ok. Qed.
Print Assumptions C16_kernel_column_selection.

(** ** aliasing freedom at the top level, for shallow and deep copies alike: every attribute that __copy__ / __deepcopy__ passes
    through copy.copy / copy.deepcopy is None, an immediate, or a cell allocated by the copy - hence never the cell an attribute
    of the source refers to (a shallow copy may share the contents of containers, not the containers) *)
Theorem C16_copy_toplevel_fresh : forall specs fuel deep s h o h' o', class_copy specs fuel deep s h o = Some (h', o') ->
  Forall2 (copied_fresh (length h)) (filter (fun c => negb (String.eqb (csrc c) "")) (if deep then dp_ctor s ++ dp_post s else cp_ctor s ++ cp_post s)) o'.
Proof. exact class_copy_toplevel_fresh. Qed.
Print Assumptions C16_copy_toplevel_fresh.
Theorem C16_copy_fresh_not_shared : forall n v w, hv_lt n v -> hv_ge n w -> same_ref v w = false.
Proof. exact fresh_not_same. Qed.
Print Assumptions C16_copy_fresh_not_shared.

(** ** several objects in ONE file (Model/C16_Multi.v).  A write under group g leaves every path outside g untouched: for every
    version of the writer, class table, prior file content, group name, object (well-formed or not), overwrite flag, and whether or
    not the write succeeds, a path that does not lie below g keeps its node; the only thing that can appear outside g is an empty
    group on the way down to g (h5py creates the missing ancestors of a dataset) *)
Theorem C16_write_frame : forall fx s f g o ow f' e, to_hdf5 fx s f g o ow = (f', e) ->
  forall q, is_prefix (group_path g) q = false ->
    lookup q f' = lookup q f \/ (lookup q f = None /\ lookup q f' = Some NGroup /\ is_prefix q (group_path g) = true).
Proof. exact to_hdf5_frame. Qed.
Print Assumptions C16_write_frame.
(** in particular the datasets outside g are exactly those that were there, with their content *)
Theorem C16_write_frame_datasets : forall fx s f g o ow f' e, to_hdf5 fx s f g o ow = (f', e) ->
  forall q d, is_prefix (group_path g) q = false -> (lookup q f' = Some (NData d) <-> lookup q f = Some (NData d)).
Proof. exact to_hdf5_outside_data. Qed.
Print Assumptions C16_write_frame_datasets.
(** and through a whole interleaved history of writes (any classes, groups, flags) for a path outside every group written *)
Theorem C16_write_history_frame : forall steps f q d,
  Forall (fun st => is_prefix (group_path (snd (fst (fst st)))) q = false) steps ->
  (lookup q (write_seq f steps) = Some (NData d) <-> lookup q f = Some (NData d)).
Proof. exact write_seq_outside_data. Qed.
Print Assumptions C16_write_history_frame.
(** the object stored under another group (neither group path a prefix of the other: 'a/b' and 'a/bc', 'x' and 'a/b/c') reads back
    exactly as it did before the write — every class on either side, dictionary-valued attributes included *)
Theorem C16_other_objects_survive : forall fx s f g o ow f' e, to_hdf5 fx s f g o ow = (f', e) ->
  forall s' nt s0, apart (group_path g) (split_path s0) -> from_hdf5 s' nt f' (Some s0) = from_hdf5 s' nt f (Some s0).
Proof. exact other_objects_survive. Qed.
Print Assumptions C16_other_objects_survive.
(** the file-open expression of the CURRENT source (Gen/C16_Kernel.v [k_h5_open_mode], one row per to_hdf5): there is a row for each
    of the 12 persistable classes and its mode is 'a' whatever [overwrite] is; so handing a file over by name (str / Path) is
    handing over its content - nothing is truncated - and the two theorems above hold for both ways of handing the file over *)
Theorem C16_kernel_open_mode :
  map fst k_h5_open_mode = map cname persistable
  /\ forallb (fun r => String.eqb (snd r true) "a" && String.eqb (snd r false) "a") k_h5_open_mode = true
  /\ (forall s, In s persistable -> forall ex f g o ow, to_hdf5_named s ex f g o ow = to_hdf5 VCur s f g o ow).
Proof. split; [exact (proj1 open_mode_rows)|]. split; [exact (proj2 open_mode_rows) | exact to_hdf5_named_is_append]. Qed.
Print Assumptions C16_kernel_open_mode.
Theorem C16_kernel_other_objects_survive : forall s, In s persistable ->
  forall by_name ex f g o ow f' e, to_hdf5_any by_name s ex f g o ow = (f', e) ->
  forall s' nt s0, apart (group_path g) (split_path s0) -> from_hdf5 s' nt f' (Some s0) = from_hdf5 s' nt f (Some s0).
Proof. exact other_objects_survive_any. Qed.
Print Assumptions C16_kernel_other_objects_survive.
(** non-vacuity: sibling-prefix and unrelated group paths are apart; a model written to 'm' of a file that holds a genotype matrix
    under 'a/b' succeeds; and what the theorem excludes does happen with another mode: truncation ('w') loses a dataset outside the group *)
Example C16_multi_hyps_satisfiable :
  (apart (split_path (zs "a/b")) (split_path (zs "a/bc")) /\ apart (split_path (zs "x")) (split_path (zs "a/b/c")))
  /\ (exists f1 f2, to_hdf5 VCur spec_GM [] (Some (zs "a/b")) w_rich true = (f1, None)
                    /\ to_hdf5_any true spec_ALGM true f1 (Some [109]) (w_model w_hyper) true = (f2, None)
                    /\ apart (group_path (Some [109])) (split_path (zs "a/b")) /\ is_nil f1 = false)
  /\ (exists f q d, lookup q f = Some (NData d) /\ is_prefix [[98]] q = false /\ open_named "w" true f = Some [] /\ lookup q [] = None).
Proof.
  split; [exact apart_siblings|]. split; [|exact truncate_loses].
  eexists; eexists. split; [vm_compute; reflexivity|]. split; [vm_compute; reflexivity|]. repeat split.
Qed.

(** non-vacuity: concrete objects meet the hypotheses; the write succeeds; a variance matrix with sorted labels does round-trip *)
Example C16_hyps_satisfiable :
  (wf_obj spec_ALGM (w_model w_hyper) = true /\ In spec_ALGM persistable /\ Forall (fun kv => snd kv <> None) w_hyper /\ parents_ok []
   /\ exists f', write_all VCur spec_ALGM [] (Some [109]) [w_model [([120], Some (VInt 1))]; w_model w_hyper] = (f', None))
  /\ wf_obj spec_GM w_rich = true /\ wf_obj spec_GM w_poor = true /\ In spec_GM flat_classes
  /\ (exists f2, write_all VCur spec_GM [] w_group [w_rich; w_poor] = (f2, None))
  /\ opt_eqb vm_eqb (vm_from_pandas true (vm_to_pandas true w_vm_sorted)) (Some w_vm_sorted) = true
  /\ (exists h' o', class_copy [spec_ALGM] 4 true spec_BV [CArr (VArr TF64 [1; 1] [0])] [("mat"%string, HRef 0%nat)] = Some (h', o'))
  /\ (exists f', write_all_k spec_ALGM [] (Some [109]) [w_model [([120], Some (VInt 1))]; w_model w_hyper] = (f', None))
  /\ opt_eqb vm_eqb (vm_from_pandas true (vm_to_pandas_k true w_vm_sorted)) (Some w_vm_sorted) = true
  /\ (exists g s0, g_stop g = Some s0 /\ g_name g <> Some [] /\ g_fn g <> Some [] /\ g_name g <> None /\ g_fn g = None /\ g_chr g <> []).
Proof.
  split; [destruct w_model_wf as [A [B [C D]]]; split; [exact A|]; split; [exact B|]; split; [exact C|]; split; [exact parents_nil | exact D]|].
  destruct w_objs_wf as [A [B C]]. split; [exact A|]. split; [exact B|]. split; [exact C|].
  split; [eexists; vm_compute; reflexivity|]. split; [exact vm_pandas_sorted_ok|]. split; [eexists; eexists; vm_compute; reflexivity|].
  split; [eexists; vm_compute; reflexivity|]. split; [exact vm_pandas_sorted_ok_k|].
  exists (mkG [1] [10] (Some [11]) [0%float] (Some [[97]]) None), [11]; repeat split; discriminate.
Qed.
