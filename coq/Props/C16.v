(** C16 — placeholder while the model is being built *)
From PV Require Import Lib.Common.
