(** C04 — property theorems only: statement, [exact] of a lemma proved elsewhere, [Print Assumptions].
    Models: Model/C04_Gmod.v (DenseAdditive[Dominance]LinearGenomicModel, DenseLinearGenomicModel, rrBLUPModel0 predictions and
    statistics; TrueBreedingValue), Model/C04_GS.v (gauss_seidel and the non-numerical parts of rrBLUPModel0.fit_numpy). *)
From Coq Require Import Permutation.
From PV Require Import Lib.Common Model.C04_Gmod Model.C04_GS Proofs.C04_Counts Proofs.C04_Linear Proofs.C04_Var Proofs.C04_Sums Proofs.C04_Genic Proofs.C04_GS Proofs.C04_Ridge Proofs.C04_Check Proofs.C04_Scale Gen.C04_Kernel Proofs.C04_Kernel.
Local Open Scope Q_scope.

(** ** predictions are linear and label-preserving *)

(** Estimated breeding value of taxon i for trait k = intercept_k + sum_j dosage_ij * u_jk, for every model, genotype
    representation, size; the output rows carry the input's labels (none for a raw array). *)
Theorem C04_gebv_linear : forall g gt l v lab i k, shaped g -> gebv g gt l = Some (v, lab) ->
  (i < length (dosage gt))%nat -> (k < g_t g)%nat ->
  nth k (nth i v []) 0 == nth k (location g) 0 + dotQ (map inject_Z (nth i (dosage gt) [])) (col 0 k (bv_effects g))
  /\ lab = gt_labels gt l /\ length v = length (dosage gt).
Proof. exact gebv_entry. Qed.
Print Assumptions C04_gebv_linear.

(** the intercept: first fixed effect plus the mean contrast 1/q of the remaining ones (the code's X* = [1, 1/q, ..., 1/q]) *)
Theorem C04_intercept : forall g k b0 rest, g_beta g = b0 :: rest -> rows_len (g_t g) (g_beta g) -> (k < g_t g)%nat ->
  nth k (location g) 0 == nth k b0 0 + (1 / inject_Z (Z.of_nat (S (length rest)))) * sumQ (col 0 k rest).
Proof. exact location_entry. Qed.
Print Assumptions C04_intercept.

(** Estimated genotypic value = intercept + design row x (u_a ; u_d) ... *)
Theorem C04_gegv_linear : forall g gt arg l v lab i k, shaped g -> gegv g gt arg l = Some (v, lab) ->
  (i < length (design g gt arg))%nat -> (k < g_t g)%nat ->
  nth k (nth i v []) 0 == nth k (location g) 0 + dotQ (map inject_Z (nth i (design g gt arg) [])) (col 0 k (gv_effects g))
  /\ lab = gt_labels gt l /\ length v = length (design g gt arg).
Proof. exact gegv_entry. Qed.
Print Assumptions C04_gegv_linear.

(** ... which for a dominance model is dosage x u_a + heterozygosity indicators x u_d ([arg] is the ploidy keyword that
    accompanies a raw array; matrix objects carry their own ploidy) *)
Theorem C04_gegv_dominance_split : forall g gt arg i k, g_cls g = CAD -> (i < length (dosage gt))%nat ->
  length (nth i (dosage gt) []) = length (g_ua g) ->
  dotQ (map inject_Z (nth i (design g gt arg) [])) (col 0 k (gv_effects g)) ==
  dotQ (map inject_Z (nth i (dosage gt) [])) (col 0 k (g_ua g)) + dotQ (map inject_Z (nth i (het gt arg) [])) (col 0 k (g_ud g)).
Proof. exact gegv_dominance_split. Qed.
Print Assumptions C04_gegv_dominance_split.

(** predict_numpy: X beta + Z u, entry by entry *)
Theorem C04_predict_linear : forall g X Z v i k, shaped g -> predict_numpy g X Z = Some v -> (i < length X)%nat -> (k < g_t g)%nat ->
  nth k (nth i v []) 0 == dotQ (nth i X []) (col 0 k (g_beta g)) + dotQ (nth i Z []) (col 0 k (g_u g)).
Proof. exact predict_numpy_entry. Qed.
Print Assumptions C04_predict_linear.

(** Reordering the taxa of the input (phased, unphased or raw; any index list in range, in particular every permutation, also
    with repeated taxa) reorders values and labels of gebv / gegv / predict in the same way. *)
Theorem C04_perm_equivariant : forall g gt arg l ix, gt_ok gt -> in_range (length (dosage gt)) ix ->
  (forall v lab, gebv g gt l = Some (v, lab) -> gebv g (gt_take ix gt) (lab_take ix l) = Some (takes [] ix v, lab_take ix lab)) /\
  (forall v lab, gegv g gt arg l = Some (v, lab) -> gegv g (gt_take ix gt) arg (lab_take ix l) = Some (takes [] ix v, lab_take ix lab)) /\
  (forall X v lab, length X = length (dosage gt) -> predict g X gt arg l = Some (v, lab) ->
     predict g (takes [] ix X) (gt_take ix gt) arg (lab_take ix l) = Some (takes [] ix v, lab_take ix lab)).
Proof.
  intros g gt arg l ix Hok R. repeat split; intros.
  - now apply gebv_equivariant.
  - now apply gegv_equivariant.
  - now apply predict_equivariant.
Qed.
Print Assumptions C04_perm_equivariant.

(** A phased matrix, its unphased projection and the raw dosage array give the same breeding values: all three are functions of
    the dosage, and the dosage of a phased matrix is the sum of its phases — the value is the sum of the haplotype values. *)
Theorem C04_phase_additive : forall n p ph (c : list Q) i, phases_ok n p ph -> (i < n)%nat ->
  dotQ (map inject_Z (nth i (dosage (GPhased n p ph)) [])) c == sumQ (map (fun P => dotQ (map inject_Z (nth i P [])) c) ph).
Proof. exact phase_additive. Qed.
Print Assumptions C04_phase_additive.

Theorem C04_representations_agree : forall g n p ph k l,
  let d := dosage (GPhased n p ph) in
  gebv_numpy g (dosage (GUnphased k d)) = gebv_numpy g (dosage (GPhased n p ph)) /\
  gebv_numpy g (dosage (GRaw d)) = gebv_numpy g (dosage (GPhased n p ph)) /\
  option_map fst (gebv g (GUnphased k d) l) = option_map fst (gebv g (GPhased n p ph) l) /\
  option_map fst (gebv g (GRaw d) l) = option_map fst (gebv g (GPhased n p ph) l) /\
  var_A g (GRaw d) = var_A g (GPhased n p ph).
Proof. intros. subst d. unfold gebv, var_A. cbn [dosage]. repeat split; destruct (gebv_numpy g (ph_sum n p ph)); reflexivity. Qed.
Print Assumptions C04_representations_agree.

(** The heterozygosity indicator is 1 exactly on the dosages strictly between 0 and the ploidy, 0 on the two homozygotes ... *)
Theorem C04_heterozygosity_indicator : forall ploidy a : Z, (0 <= a <= ploidy)%Z ->
  (het1 ploidy a = 1%Z <-> (0 < a < ploidy)%Z) /\ (het1 ploidy a = 0%Z <-> (a = 0 \/ a = ploidy)%Z).
Proof. exact het1_spec. Qed.
Print Assumptions C04_heterozygosity_indicator.

(** ... and the dominance model builds the same design from a raw dosage array handed over with its ploidy as from the matrix
    object (unphased, or phased) holding the same data, for EVERY ploidy; an array without the keyword is read as diploid.  Hence
    gegv / predict / score / var_G agree between the representations (formerly only for diploid data: finding
    C04-dominance-raw-diploid, repaired). *)
Theorem C04_dominance_raw_matches_matrix : forall g (m : zmat) (k : Z) arg l X Y,
  het (GRaw m) (Some k) = het (GUnphased k m) arg /\ het (GRaw m) None = het (GUnphased 2 m) arg /\
  design g (GRaw m) (Some k) = design g (GUnphased k m) arg /\
  option_map fst (gegv g (GRaw m) (Some k) l) = option_map fst (gegv g (GUnphased k m) arg l) /\
  option_map fst (predict g X (GRaw m) (Some k) l) = option_map fst (predict g X (GUnphased k m) arg l) /\
  score g Y X (GRaw m) (Some k) = score g Y X (GUnphased k m) arg /\
  var_G g (GRaw m) (Some k) = var_G g (GUnphased k m) arg.
Proof.
  intros. split; [apply het_raw_vs_matrix|]. split; [apply het_raw_default|]. split; [apply design_raw_vs_matrix|]. apply raw_vs_matrix_methods.
Qed.
Print Assumptions C04_dominance_raw_matches_matrix.

Theorem C04_dominance_raw_matches_phased : forall n p ph arg,
  het (GRaw (dosage (GPhased n p ph))) (Some (Z.of_nat (length ph))) = het (GPhased n p ph) arg.
Proof. exact het_raw_vs_phased. Qed.
Print Assumptions C04_dominance_raw_matches_phased.

(** regression witness about the FORMER code: the raw-array path coded heterozygotes as (dosage == 1) [old_het_raw1], which is the
    matrix coding for diploid data (so the repair leaves diploid results unchanged) and for no other ploidy *)
Theorem C04_old_dominance_raw_refuted : (forall a : Z, (0 <= a <= 2)%Z -> old_het_raw1 a = het1 2 a) /\
  (exists ploidy a : Z, (0 <= a <= ploidy)%Z /\ old_het_raw1 a <> het1 ploidy a) /\
  (exists a : Z, (0 <= a <= 1)%Z /\ old_het_raw1 a <> het1 1 a).
Proof. split; [exact old_het_raw_diploid|]. split; [exact old_het_raw_not_polyploid | exact old_het_raw_not_haploid]. Qed.
Print Assumptions C04_old_dominance_raw_refuted.

(** Splitting the markers into two parts (two models holding u[:k] and u[k:]) and adding the two predictions gives the
    prediction from all markers. *)
Theorem C04_marker_partition_additive : forall g g1 g2 Z (k : nat) v v1 v2 i kk,
  g_t g1 = g_t g -> g_t g2 = g_t g -> bv_effects g = bv_effects g1 ++ bv_effects g2 -> k = length (bv_effects g1) ->
  rows_len (g_t g) (bv_effects g) ->
  gebv_numpy g Z = Some v -> gebv_numpy g1 (map (firstn k) Z) = Some v1 -> gebv_numpy g2 (map (skipn k) Z) = Some v2 ->
  (i < length Z)%nat -> (kk < g_t g)%nat ->
  nth kk (nth i v []) 0 == nth kk (nth i v1 []) 0 + nth kk (nth i v2 []) 0.
Proof. exact marker_partition. Qed.
Print Assumptions C04_marker_partition_additive.

(** ** variances *)

(** var_A (computed by the code on Z u_a) is the population variance of the reported breeding values (intercept included);
    likewise var_G and the genotypic values. *)
Theorem C04_var_A_definition : forall g gt l vA v lab k, shaped g -> var_A g gt = Some vA -> gebv g gt l = Some (v, lab) -> (k < g_t g)%nat ->
  nth k vA 0 == popvar (col 0 k v).
Proof. exact var_A_is_variance_of_gebv. Qed.
Print Assumptions C04_var_A_definition.

Theorem C04_var_G_definition : forall g gt arg l vG v lab k, shaped g -> var_G g gt arg = Some vG -> gegv g gt arg l = Some (v, lab) -> (k < g_t g)%nat ->
  nth k vG 0 == popvar (col 0 k v).
Proof. exact var_G_is_variance_of_gegv. Qed.
Print Assumptions C04_var_G_definition.

(** the variance is non-negative and vanishes exactly when all taxa have the same value *)
Theorem C04_variance_sound : forall l, 0 <= popvar l /\ (l <> [] -> (popvar l == 0 <-> Forall (fun x => x == qmean l) l)).
Proof. intros l. split; [apply popvar_nonneg | apply popvar_zero_iff]. Qed.
Print Assumptions C04_variance_sound.

(** var_A and var_G do not depend on the order of the taxa *)
Theorem C04_variance_perm_invariant : forall g gt arg ix, gt_ok gt -> Permutation ix (seq 0 (length (dosage gt))) ->
  (forall vA, var_A g gt = Some vA -> exists vA', var_A g (gt_take ix gt) = Some vA' /\ qeql vA' vA) /\
  (forall vG, var_G g gt arg = Some vG -> exists vG', var_G g (gt_take ix gt) arg = Some vG' /\ qeql vG' vG).
Proof. intros g gt arg ix Hok P. split; intros; [now apply var_A_perm | now apply var_G_perm]. Qed.
Print Assumptions C04_variance_perm_invariant.

(** genic variance of trait k = ploidy^2 * sum_j u_jk^2 p_j (1 - p_j) with p_j = allele count / (ploidy * ntaxa); it is
    non-negative and vanishes exactly when every marker is neutral for the trait or fixed *)
Theorem C04_var_a_definition : forall t (u : qmat) (fr : list Q) (ploidy : Z) k, rows_len t u -> length fr = length u -> (k < t)%nat ->
  nth k (var_a_of t u fr ploidy) 0 ==
  inject_Z (ploidy * ploidy) * bigsum (length u) (fun j => (nth k (nth j u []) 0 * nth k (nth j u []) 0) * (nth j fr 0 * (1 - nth j fr 0))).
Proof. exact var_a_of_entry. Qed.
Print Assumptions C04_var_a_definition.

Theorem C04_var_a_zero_iff : forall g gt arg k,
  let u := bv_effects g in let ploidy := eff_ploidy gt arg in let N := (ploidy * gt_ntaxa gt)%Z in let c := acount gt (length u) in
  rows_len (g_t g) u -> Forall (fun r => length r = length u) (dosage gt) -> (k < g_t g)%nat ->
  (0 < N)%Z -> ~ (ploidy = 0)%Z -> (forall j, (j < length u)%nat -> 0 <= nth j c 0 <= N)%Z ->
  0 <= nth k (var_a g gt arg) 0 /\
  (nth k (var_a g gt arg) 0 == 0 <-> forall j, (j < length u)%nat -> nth k (nth j u []) 0 == 0 \/ nth j c 0%Z = 0%Z \/ nth j c 0%Z = N).
Proof.
  intros g gt arg k u ploidy N c Hu Hs Hk HN Hp Hc. unfold var_a, afreq. fold u ploidy N c.
  apply var_a_of_zero_iff; try assumption. unfold c, acount. now rewrite colsumsZ_len.
Qed.
Print Assumptions C04_var_a_zero_iff.

(** Bulmer ratio of trait k: var_A / var_a, and NaN exactly when var_a = 0 *)
Theorem C04_bulmer_definition : forall g gt arg l vA k, var_A g gt = Some vA -> bulmer g gt arg = Some l ->
  (k < length vA)%nat -> (k < length (var_a g gt arg))%nat ->
  nth k l None = if Qeq_bool (nth k (var_a g gt arg) 0) 0 then None else Some (nth k vA 0 / nth k (var_a g gt arg) 0).
Proof. exact bulmer_entry. Qed.
Print Assumptions C04_bulmer_definition.

(** Scale covariance: if trait k of a second model has c times the effects of trait k of the first ([col_scaled]), then on every
    genotype input its var_A and var_a are c^2 times those of the first model ... *)
Theorem C04_variance_scale_covariant : forall g g' gt arg k c vA vA', shaped g -> shaped g' -> g_t g' = g_t g -> (k < g_t g)%nat ->
  col_scaled k c (bv_effects g') (bv_effects g) -> var_A g gt = Some vA -> var_A g' gt = Some vA' ->
  nth k vA' 0 == c * c * nth k vA 0 /\ nth k (var_a g' gt arg) 0 == c * c * nth k (var_a g gt arg) 0.
Proof. exact variance_scaled. Qed.
Print Assumptions C04_variance_scale_covariant.

(** ... and for c <> 0 its Bulmer ratio is the same: NaN against NaN, equal ratios otherwise — however small or large c is.  The only
    special value of the genic variance is exactly zero (a test such as "close to zero" would break this). *)
Theorem C04_bulmer_scale_invariant : forall g g' gt arg k c b b', shaped g -> shaped g' -> g_t g' = g_t g -> (k < g_t g)%nat ->
  col_scaled k c (bv_effects g') (bv_effects g) -> ~ c == 0 ->
  bulmer g gt arg = Some b -> bulmer g' gt arg = Some b' -> opt_qeq (nth k b' None) (nth k b None).
Proof. exact bulmer_scaled. Qed.
Print Assumptions C04_bulmer_scale_invariant.

(** the variance itself: var(c x) = c^2 var(x) *)
Theorem C04_popvar_scale : forall c l, popvar (map (Qmult c) l) == c * c * popvar l.
Proof. exact popvar_scale. Qed.
Print Assumptions C04_popvar_scale.

(** coefficient of determination: 1 - SSE/SST (undefined iff SST = 0), at most 1, equal to 1 exactly for a perfect prediction *)
Theorem C04_score_definition : forall y yhat,
  (rsq y yhat = None <-> sqdev (qmean y) y == 0) /\
  (forall r, rsq y yhat = Some r ->
     let sse := sumQ (map2 (fun a b => (a - b) * (a - b)) y yhat) in let sst := sqdev (qmean y) y in
     0 < sst /\ r == 1 - sse / sst /\ r <= 1 /\ (r == 1 <-> sse == 0)).
Proof. intros y yhat. split; [apply rsq_none | intros r; apply rsq_spec]. Qed.
Print Assumptions C04_score_definition.

(** ** allele statistics *)

(** every entry of the twelve fa*/da*/na* tables is its definition on (u_jk, allele count of marker j, ploidy*ntaxa), for every
    class — DenseLinearGenomicModel included (formerly excluded: finding C04-dlgm-neutral-alleles, repaired).  Its availability
    tables test [count != 0] instead of [count > 0]; for that class alone the allele count is taken in its range [0, ploidy*n],
    which C04_acount_range establishes for every well-formed dosage matrix. *)
Theorem C04_allele_tables_definition : forall g gt, well_shaped g ->
  Forall (fun r => length r = length (bv_effects g)) (dosage gt) ->
  forall j k, (j < length (bv_effects g))%nat -> (k < g_t g)%nat ->
    let ujk := nth k (nth j (bv_effects g) []) 0%Q in let cj := nth j (acount gt (length (bv_effects g))) 0%Z in let N := maxfav gt in
    (g_cls g = CL -> (0 <= cj <= N)%Z) ->
    nth k (nth j (facount g gt) []) 0%Z = fa1 ujk cj N /\
    nth k (nth j (dacount g gt) []) 0%Z = da1 ujk cj N /\
    nth k (nth j (faavail g gt) []) false = avail1 (fa1 ujk cj N) /\
    nth k (nth j (daavail g gt) []) false = avail1 (da1 ujk cj N) /\
    nth k (nth j (fafixed g gt) []) false = fixed1 (fa1 ujk cj N) N /\
    nth k (nth j (dafixed g gt) []) false = fixed1 (da1 ujk cj N) N /\
    nth k (nth j (fapoly g gt) []) false = poly1 (fa1 ujk cj N) N /\
    nth k (nth j (dapoly g gt) []) false = poly1 (da1 ujk cj N) N /\
    nth k (nth j (nafixed g gt) []) false = nafixed1 ujk cj N /\
    nth k (nth j (napoly g gt) []) false = napoly1 ujk cj N /\
    nth k (nth j (fafreq g gt) []) 0%Q = (inject_Z (fa1 ujk cj N) / inject_Z N)%Q /\
    nth k (nth j (dafreq g gt) []) 0%Q = (inject_Z (da1 ujk cj N) / inject_Z N)%Q.
Proof. exact tables_entrywise. Qed.
Print Assumptions C04_allele_tables_definition.

(** counts by sign of the effect; favourable + deleterious = ploidy*n on a non-neutral marker, 0 + 0 on a neutral one *)
Theorem C04_counts_by_sign : forall (u : Q) (c N : Z),
  ((0 < u)%Q -> fa1 u c N = c /\ da1 u c N = (N - c)%Z) /\
  ((u < 0)%Q -> fa1 u c N = (N - c)%Z /\ da1 u c N = c) /\
  ((u == 0)%Q -> fa1 u c N = 0%Z /\ da1 u c N = 0%Z) /\
  (~ (u == 0)%Q -> (fa1 u c N + da1 u c N)%Z = N).
Proof. exact counts_by_sign. Qed.
Print Assumptions C04_counts_by_sign.

(** fixed <-> count = ploidy*n; polymorphic <-> available and not fixed; favourable fixed <-> no deleterious copy left *)
Theorem C04_flags_consistent : forall (u : Q) (c N : Z), (0 <= c <= N)%Z -> (0 < N)%Z ->
  let fa := fa1 u c N in let da := da1 u c N in
  (fixed1 fa N = true <-> fa = N) /\ (avail1 fa = true <-> (0 < fa)%Z) /\
  poly1 fa N = avail1 fa && negb (fixed1 fa N) /\ poly1 da N = avail1 da && negb (fixed1 da N) /\
  (~ (u == 0)%Q -> fixed1 fa N = negb (avail1 da) /\ fixed1 da N = negb (avail1 fa) /\ poly1 fa N = poly1 da N).
Proof. exact flags_consistent. Qed.
Print Assumptions C04_flags_consistent.

(** neutral flags: exactly one of fixed/polymorphic when the effect is zero, none otherwise; neutral markers are never available
    as favourable or deleterious *)
Theorem C04_neutral_consistent : forall (u : Q) (c N : Z), (0 <= c <= N)%Z -> (0 < N)%Z ->
  ((u == 0)%Q -> nafixed1 u c N = negb (napoly1 u c N) /\ avail1 (fa1 u c N) = false /\ avail1 (da1 u c N) = false) /\
  (~ (u == 0)%Q -> nafixed1 u c N = false /\ napoly1 u c N = false) /\
  (nafixed1 u c N = true -> c = 0%Z \/ c = N) /\ (napoly1 u c N = true -> (0 < c < N)%Z).
Proof. exact neutral_consistent. Qed.
Print Assumptions C04_neutral_consistent.

(** frequencies add up to one on a non-neutral marker *)
Theorem C04_freqs_consistent : forall (u : Q) (c N : Z), (0 < N)%Z -> ~ (u == 0)%Q ->
  (inject_Z (fa1 u c N) / inject_Z N + inject_Z (da1 u c N) / inject_Z N == 1)%Q.
Proof. exact freqs_consistent. Qed.
Print Assumptions C04_freqs_consistent.

(** DenseLinearGenomicModel's own facount/dacount are the same functions of (effect, allele count, ploidy*n) as those of the
    additive classes, neutral markers included, so that C04_counts_by_sign ... C04_freqs_consistent hold for it as they stand *)
Theorem C04_dlgm_counts : forall g (u : Q) (c N : Z), fa_of g u c N = fa1 u c N /\ da_of g u c N = da1 u c N.
Proof. intros. now destruct (fa_of_all g) as [-> ->]. Qed.
Print Assumptions C04_dlgm_counts.

(** regression witness about the FORMER code [old_fa1_L], [old_da1_L] (no reset where u == 0): right on non-neutral markers, but
    a neutral allele was counted both as favourable and as deleterious *)
Theorem C04_old_dlgm_counts_refuted :
  (forall (u : Q) (c N : Z), ~ (u == 0)%Q -> old_fa1_L u c N = fa1 u c N /\ old_da1_L u c N = da1 u c N) /\
  (exists (u : Q) (c N : Z), (0 <= c <= N)%Z /\ (u == 0)%Q /\ old_fa1_L u c N <> fa1 u c N /\ old_da1_L u c N <> da1 u c N /\ (old_fa1_L u c N + old_da1_L u c N)%Z <> 0%Z).
Proof. split; [exact old_L_counts_nonneutral | exact old_L_counts_neutral_refuted]. Qed.
Print Assumptions C04_old_dlgm_counts_refuted.

(** allele counts of a well-formed dosage matrix lie in [0, ploidy*n] (hypothesis of the two theorems above) *)
Theorem C04_acount_range : forall (ploidy : Z) (p : nat) (mat : zmat), (0 <= ploidy)%Z ->
  Forall (fun r => length r = p) mat -> Forall (Forall (fun x => 0 <= x <= ploidy)%Z) mat ->
  Forall (fun c => 0 <= c <= ploidy * Z.of_nat (length mat))%Z (colsumsZ p mat).
Proof. exact colsums_bounds. Qed.
Print Assumptions C04_acount_range.

(** ** ridge regression (rrBLUPModel0.fit_numpy with the variance components, hence the ridge parameter, taken as given) *)

(** structure: the intercept is the training mean, the effect vector has one entry per marker, and a marker outside the
    polymorphism mask gets exactly 0 — whatever the solver returned *)
Theorem C04_rr_structure : forall p Z y ridge atol maxiter beta u, rr_fit1 p Z y ridge atol maxiter = Some (beta, u) ->
  beta = qmean y /\ length u = p /\ (forall j, nth j (poly_mask p Z) true = false -> nth j u 0 = 0).
Proof. exact rr_fit1_structure. Qed.
Print Assumptions C04_rr_structure.

(** ... and a marker is outside the mask exactly when all taxa carry the same dosage (monomorphic) *)
Theorem C04_monomorphic_mask : forall p (Z : zmat) r0 rest j, Z = r0 :: rest -> (j < p)%nat ->
  (nth j (poly_mask p Z) true = false <-> forall r, In r Z -> nth j r 0%Z = nth j r0 0%Z).
Proof. exact poly_mask_mono. Qed.
Print Assumptions C04_monomorphic_mask.

(** Gauss-Seidel is coordinate descent: for a symmetric matrix with positive diagonal no run of gauss_seidel (any tolerance,
    any iteration limit) ends above f(0) = 0 for f(x) = 1/2 x'Ax - b'x *)
Theorem C04_gs_coordinate_descent : forall n A b, length A = n -> rows_len n A -> length b = n ->
  (forall i j, (i < n)%nat -> (j < n)%nat -> nth j (nth i A []) 0 == nth i (nth j A []) 0) ->
  (forall i, (i < n)%nat -> 0 < nth i (nth i A []) 0) ->
  forall atol maxiter x, gauss_seidel A b atol maxiter = Some x -> qform A b x <= 0 /\ length x = n.
Proof. exact gauss_seidel_descent. Qed.
Print Assumptions C04_gs_coordinate_descent.

(** the penalised least-squares criterion is |y|^2 + 2 f(u) for A = Z'Z + ridge I, b = Z'y *)
Theorem C04_pls_is_quadratic : forall n p (Z : qmat) y ridge, length Z = n -> rows_len p Z -> length y = n ->
  forall u, length u = p -> pls Z y u ridge == sumQ (map sq y) + 2 * qform (ztz_ridge p Z ridge) (zty p Z y) u.
Proof. exact pls_qform. Qed.
Print Assumptions C04_pls_is_quadratic.

(** hence the fitted effects never do worse than the all-zero solution on |y - mean - Zu|^2 + ridge |u|^2, for every training
    set, every positive ridge parameter, tolerance and iteration limit (also when Gauss-Seidel has not converged) *)
Theorem C04_rr_never_worse_than_zero : forall p (Zg : zmat) y ridge atol maxiter beta u,
  rows_len p Zg -> length y = length Zg -> 0 < ridge ->
  rr_fit1 p Zg y ridge atol maxiter = Some (beta, u) ->
  let mask := poly_mask p Zg in
  let Zp := map (fun r => select mask (map inject_Z r)) Zg in
  let pp := length (filter (fun x => x) mask) in
  pls Zp (center y) (select mask u) ridge <= pls Zp (center y) (repeat 0 pp) ridge.
Proof. exact rr_fit1_criterion. Qed.
Print Assumptions C04_rr_never_worse_than_zero.

(** normal equations: gauss_seidel stops after k <= maxiter sweeps, and if it stops before the limit then every row i of
    A x - b is bounded by atol * sum_{j>i} |A_ij| (the last row is solved exactly) *)
Theorem C04_gs_exit_residual : forall n A b atol maxiter xf, length A = n -> rows_len n A -> length b = n ->
  0 < atol -> (0 < maxiter)%nat -> gauss_seidel A b atol maxiter = Some xf ->
  exists k, (1 <= k <= maxiter)%nat /\ xf = iter_sweep A b k (repeat 0 n) /\
    ((k < maxiter)%nat -> forall i, (i < n)%nat ->
       Qabs' (nth i (residual A b xf) 0) <= atol * bigsum n (fun j => if Nat.ltb i j then Qabs' (nth j (nth i A []) 0) else 0)).
Proof. exact gauss_seidel_exit_residual. Qed.
Print Assumptions C04_gs_exit_residual.

(** the boolean check [resid_ok] that the correspondence shards evaluate on the implementation's output is exactly what the
    theorem guarantees for the model: a run that stops before the iteration limit passes it *)
Theorem C04_gs_exit_passes_check : forall n A b atol maxiter xf, length A = n -> rows_len n A -> length b = n ->
  0 < atol -> (0 < maxiter)%nat -> gauss_seidel A b atol maxiter = Some xf ->
  exists k, (1 <= k <= maxiter)%nat /\ xf = iter_sweep A b k (repeat 0 n) /\ ((k < maxiter)%nat -> resid_ok A b xf atol = true).
Proof. exact exit_before_limit_passes_check. Qed.
Print Assumptions C04_gs_exit_passes_check.

(** the same for the fitted model: (Z'Z + ridge I) u = Z'(y - mean) up to the solver's tolerance whenever the iteration limit
    was not hit.  The property's clause "whenever n > p" is NOT provable from n > p: with collinear polymorphic markers and the
    tiny ridge the ML step produces, the implementation hits maxiter = 1000 (finding C04-gs-maxiter). *)
Theorem C04_rr_normal_equations_partial : forall p (Zg : zmat) y ridge atol maxiter beta u,
  rows_len p Zg -> length y = length Zg -> 0 < ridge -> 0 < atol -> (0 < maxiter)%nat ->
  rr_fit1 p Zg y ridge atol maxiter = Some (beta, u) ->
  let mask := poly_mask p Zg in
  let Zp := map (fun r => select mask (map inject_Z r)) Zg in
  let pp := length (filter (fun x => x) mask) in
  let A := ztz_ridge pp Zp ridge in
  let b := zty pp Zp (center y) in
  exists k, (1 <= k <= maxiter)%nat /\ select mask u = iter_sweep A b k (repeat 0 pp) /\
    ((k < maxiter)%nat -> forall i, (i < pp)%nat ->
       Qabs' (nth i (residual A b (select mask u)) 0) <= atol * bigsum pp (fun j => if Nat.ltb i j then Qabs' (nth j (nth i A []) 0) else 0)).
Proof. exact rr_fit1_normal_equations. Qed.
Print Assumptions C04_rr_normal_equations_partial.

(** the unguarded clause is false of the faithful model: n > p_polymorphic does not imply that the residual check passes *)
Theorem C04_rr_normal_equations_refuted : exists p (Zg : zmat) y ridge atol maxiter beta u,
  (length (filter (fun x => x) (poly_mask p Zg)) < length Zg)%nat /\ 0 < ridge /\ 0 < atol /\ (0 < maxiter)%nat /\
  rr_fit1 p Zg y ridge atol maxiter = Some (beta, u) /\
  let mask := poly_mask p Zg in
  let Zp := map (fun r => select mask (map inject_Z r)) Zg in
  let pp := length (filter (fun x => x) mask) in
  resid_ok (ztz_ridge pp Zp ridge) (zty pp Zp (center y)) (select mask u) atol = false.
Proof. exact rr_normal_equations_refuted. Qed.
Print Assumptions C04_rr_normal_equations_refuted.

(** the hypotheses above are satisfiable: with a positive ridge the model fit is always defined *)
Theorem C04_rr_defined : forall p (Zg : zmat) y ridge atol maxiter, length y = length Zg -> 0 < ridge ->
  exists beta u, rr_fit1 p Zg y ridge atol maxiter = Some (beta, u).
Proof. exact rr_fit1_defined. Qed.
Print Assumptions C04_rr_defined.

(** non-vacuity: a concrete dominance model, a phased 2 x 2 x 2 input and a permutation meet the hypotheses; a concrete
    symmetric positive-diagonal system is solved by gauss_seidel; a concrete training set is fitted *)
Example C04_hyps_satisfiable :
  let g := build CAD [[1; 2]; [3; 4]] None [[1; 0]; [-1; 2]] (Some [[0; 1]; [1; 0]]) 2 in
  let gt := GPhased 2 2 [[[0; 1]; [1; 1]]; [[0; 0]; [1; 0]]]%Z in
  shaped g /\ well_shaped g /\ gt_ok gt /\ in_range (length (dosage gt)) [1; 0]%nat /\
  Permutation [1; 0]%nat (seq 0 (length (dosage gt))) /\
  Forall (fun r => length r = length (bv_effects g)) (dosage gt) /\
  (exists v lab, gebv g gt (None, None) = Some (v, lab)) /\ (exists v lab, gegv g gt None (None, None) = Some (v, lab)) /\
  (exists x, gauss_seidel [[2; 1]; [1; 3]] [1; 2] (1 # 100) 50 = Some x /\ qform [[2; 1]; [1; 3]] [1; 2] x < 0) /\
  (exists beta u, rr_fit1 2 [[0; 1]; [1; 1]; [2; 1]; [1; 1]]%Z [1; 2; 4; 2] (1 # 2) (1 # 100) 50 = Some (beta, u) /\ nth 1 u 7 = 0).
Proof.
  cbv zeta. unfold shaped, well_shaped, rows_len, gt_ok, phases_ok, rows_len, in_range.
  split; [cbn; repeat first [ split | constructor | reflexivity ]|].
  split; [cbn; repeat first [ constructor | reflexivity ]|].
  split; [cbn; repeat first [ split | constructor | reflexivity ]|].
  split; [cbn; repeat first [ constructor | lia ]|].
  split; [cbn; apply perm_swap|].
  split; [cbn; repeat first [ constructor | reflexivity ]|].
  split; [cbn; eexists; eexists; reflexivity|].
  split; [cbn; eexists; eexists; reflexivity|].
  split.
  - eexists. split; [vm_compute; reflexivity | vm_compute; reflexivity].
  - eexists; eexists. split; [vm_compute; reflexivity | reflexivity].
Qed.

(** the hypotheses of the scale theorems are met by a two-trait model whose second trait is scaled by 2^-40, with a defined,
    non-NaN Bulmer ratio *)
Example C04_scale_hyps_satisfiable :
  let g := build CA [[1; 1]] None [[1; 3]; [-2; 1]] None 2 in
  let g' := build CA [[1; 1 # 1099511627776]] None [[1; 3 # 1099511627776]; [-2; 1 # 1099511627776]] None 2 in
  let gt := GUnphased 2 [[0; 1]; [1; 2]; [2; 2]]%Z in
  shaped g /\ shaped g' /\ g_t g' = g_t g /\ col_scaled 1 (1 # 1099511627776) (bv_effects g') (bv_effects g) /\
  (exists b b' x, bulmer g gt None = Some b /\ bulmer g' gt None = Some b' /\ nth 1 b' None = Some x).
Proof.
  cbv zeta. split; [cbn; repeat first [ split | constructor | reflexivity ]|]. split; [cbn; repeat first [ split | constructor | reflexivity ]|].
  split; [reflexivity|]. split.
  - split; [reflexivity|]. intros [|[|j]] Hj; cbn in *; try lia; reflexivity.
  - eexists; eexists; eexists. split; [vm_compute; reflexivity|]. split; vm_compute; reflexivity.
Qed.

(** ** the kernel expressions of the CURRENT source
    Gen/C04_Kernel.v is regenerated from /repo by harness/translate/c04_kernel.py on every run (one definition per expression, the
    source statement quoted above each).  The theorems below are about those generated definitions: a changed sign test, count
    method, quotient, zero test, block order, loop guard or coordinate update makes this file fail to build. *)

(** the allele-statistic tables of the model ARE the generated expressions of the class, mapped over (effect, allele count) *)
Theorem C04_kernel_allele_tables : forall g gt,
  facount g gt = ktab g gt (fun u c pl n => kfa_A u c (k_A_maxfav pl n)) (fun u c pl n => kfa_L u c (k_L_maxfav pl n)) /\
  dacount g gt = ktab g gt (fun u c pl n => kda_A u c (k_A_da_maxfav pl n)) (fun u c pl n => kda_L u c (k_L_da_maxfav pl n)) /\
  faavail g gt = kflag g gt k_A_faavail k_L_faavail /\ daavail g gt = kflag g gt k_A_daavail k_L_daavail /\
  fafixed g gt = kflag g gt k_A_fafixed k_L_fafixed /\ dafixed g gt = kflag g gt k_A_dafixed k_L_dafixed /\
  fapoly g gt = kflag g gt k_A_fapoly k_A_fapoly /\ dapoly g gt = kflag g gt k_A_dapoly k_A_dapoly /\
  nafixed g gt = ktab g gt k_A_nafixed k_A_nafixed /\ napoly g gt = ktab g gt k_A_napoly k_A_napoly /\
  fafreq g gt = kfreq g gt k_A_fafreq k_L_fafreq /\ dafreq g gt = kfreq g gt k_A_dafreq k_L_dafreq.
Proof.
  intros. split; [apply facount_kernel|]. split; [apply dacount_kernel|]. split; [apply faavail_kernel|]. split; [apply daavail_kernel|].
  split; [apply fafixed_kernel|]. split; [apply dafixed_kernel|]. split; [apply fapoly_kernel|]. split; [apply dapoly_kernel|].
  split; [apply nafixed_kernel|]. split; [apply napoly_kernel|]. split; [apply fafreq_kernel | apply dafreq_kernel].
Qed.
Print Assumptions C04_kernel_allele_tables.

(** counts by sign of the effect, for the generated where/reset expressions of both classes *)
Theorem C04_kernel_counts_by_sign : forall (u : Q) (c N : Z),
  ((0 < u) -> kfa_A u c N = c /\ kda_A u c N = (N - c)%Z /\ kfa_L u c N = c /\ kda_L u c N = (N - c)%Z) /\
  ((u < 0) -> kfa_A u c N = (N - c)%Z /\ kda_A u c N = c /\ kfa_L u c N = (N - c)%Z /\ kda_L u c N = c) /\
  ((u == 0) -> kfa_A u c N = 0%Z /\ kda_A u c N = 0%Z /\ kfa_L u c N = 0%Z /\ kda_L u c N = 0%Z) /\
  (~ (u == 0) -> (kfa_A u c N + kda_A u c N)%Z = N /\ (kfa_L u c N + kda_L u c N)%Z = N).
Proof. exact kernel_counts_by_sign. Qed.
Print Assumptions C04_kernel_counts_by_sign.

(** mutual consistency of the generated flag expressions on the generated counts *)
Theorem C04_kernel_flags_consistent : forall (u : Q) (c pl n : Z), (0 <= c <= pl * n)%Z -> (0 < pl * n)%Z ->
  let N := (pl * n)%Z in let fa := kfa_A u c (k_A_maxfav pl n) in let da := kda_A u c (k_A_da_maxfav pl n) in
  (k_A_fafixed fa da pl n = true <-> fa = N) /\ (k_A_faavail fa da pl n = true <-> (0 < fa)%Z) /\
  (k_A_dafixed fa da pl n = true <-> da = N) /\ (k_A_daavail fa da pl n = true <-> (0 < da)%Z) /\
  k_A_fapoly fa da pl n = k_A_faavail fa da pl n && negb (k_A_fafixed fa da pl n) /\
  k_A_dapoly fa da pl n = k_A_daavail fa da pl n && negb (k_A_dafixed fa da pl n) /\
  (~ (u == 0) -> k_A_fafixed fa da pl n = negb (k_A_daavail fa da pl n) /\ k_A_dafixed fa da pl n = negb (k_A_faavail fa da pl n)
                 /\ k_A_fapoly fa da pl n = k_A_dapoly fa da pl n) /\
  ((u == 0) -> k_A_nafixed u c pl n = negb (k_A_napoly u c pl n) /\ k_A_faavail fa da pl n = false /\ k_A_daavail fa da pl n = false) /\
  (~ (u == 0) -> k_A_nafixed u c pl n = false /\ k_A_napoly u c pl n = false).
Proof. exact kernel_flags_consistent. Qed.
Print Assumptions C04_kernel_flags_consistent.

(** dominance design: in all four methods and both branches the generated indicator marks exactly the dosages strictly between 0
    and the ploidy, a raw array without the keyword is read under the source's default, and the design is [dosage | indicators] *)
Theorem C04_kernel_dominance_design : forall (ploidy a : Z) (m : zmat) g gt arg,
  ((0 <= a <= ploidy)%Z ->
     Forall (fun f : Z -> Z -> bool => f a ploidy = true <-> (0 < a < ploidy)%Z)
       [k_AD_gegv_het_obj; k_AD_gegv_het_raw; k_AD_predict_het_obj; k_AD_predict_het_raw;
        k_AD_score_het_obj; k_AD_score_het_raw; k_AD_var_G_het_obj; k_AD_var_G_het_raw]) /\
  (eff_ploidy (GRaw m) None = k_AD_gegv_default_ploidy /\ eff_ploidy (GRaw m) None = k_AD_predict_default_ploidy /\
   eff_ploidy (GRaw m) None = k_AD_score_default_ploidy /\ eff_ploidy (GRaw m) None = k_AD_var_G_default_ploidy /\
   eff_ploidy (GRaw m) None = k_A_var_a_default_ploidy /\ eff_ploidy (GRaw m) None = k_A_bulmer_default_ploidy /\
   eff_ploidy (GRaw m) None = k_L_var_a_default_ploidy /\ eff_ploidy (GRaw m) None = k_L_bulmer_default_ploidy) /\
  (g_cls g = CAD ->
     let A := dosage gt in let D := het gt arg in
     design g gt arg = k_AD_gegv_design_obj zmat hcat A D /\ design g gt arg = k_AD_gegv_design_raw zmat hcat A D /\
     design g gt arg = k_AD_predict_design_obj zmat hcat A D /\ design g gt arg = k_AD_predict_design_raw zmat hcat A D /\
     design g gt arg = k_AD_score_design_obj zmat hcat A D /\ design g gt arg = k_AD_score_design_raw zmat hcat A D /\
     design g gt arg = k_AD_var_G_design_obj zmat hcat A D /\ design g gt arg = k_AD_var_G_design_raw zmat hcat A D).
Proof. intros. split; [apply kernel_het_spec|]. split; [apply k_default_ploidy_model | apply k_design_model]. Qed.
Print Assumptions C04_kernel_dominance_design.

(** predictions: once the shape checks pass, gebv_numpy / gegv_numpy / predict_numpy return the class's own generated product
    (which effects, which order), score_numpy scores that same prediction, and the effect blocks are concatenated in the
    source's order *)
Theorem C04_kernel_predictions : forall g (Z : zmat) (X Zq : qmat),
  gebv_numpy g Z = (if ncols_ok (length (bv_effects g)) Z then Some (k_gebv_value g Z) else None) /\
  (g_cls g = CAD -> gegv_numpy g Z = if ncols_ok (length (gv_effects g)) Z
     then Some (k_AD_gegv_numpy qmat (matmul (g_t g)) (qz Z) (k_AD_gv_effects qmat (@app _) (g_umisc g) (g_ua g) (g_ud g))) else None) /\
  predict_numpy g X Zq = (if ncols_ok (nexplan_beta g) X && Nat.eqb (length Zq) (length X) && ncols_ok (nexplan_u g) Zq
                          then Some (k_predict_value g X Zq) else None) /\
  k_score_pred_value g X Zq = k_predict_value g X Zq /\
  g_u g = k_AD_u qmat (@app _) (g_umisc g) (g_ua g) (g_ud g) /\ (g_ud g = [] -> g_u g = k_A_u qmat (@app _) (g_umisc g) (g_ua g)).
Proof.
  intros. split; [apply gebv_numpy_kernel|]. split; [apply gegv_numpy_kernel|]. split; [apply predict_numpy_kernel|].
  split; [apply score_pred_kernel|]. split; [apply k_AD_u_model | apply k_A_u_model].
Qed.
Print Assumptions C04_kernel_predictions.

(** the intercept through the generated X* entries (Xstar[0,0] = 1, Xstar[0,1:] = 1/nfixed, location = Xstar @ beta), every class *)
Theorem C04_kernel_intercept : forall g k b0 rest, g_beta g = b0 :: rest -> rows_len (g_t g) (g_beta g) -> (k < g_t g)%nat ->
  let n := inject_Z (Z.of_nat (S (length rest))) in
  nth k (location g) 0 == k_A_xstar0 * nth k b0 0 + k_A_xstar_rest n * sumQ (col 0 k rest) /\
  nth k (location g) 0 == k_AD_xstar0 * nth k b0 0 + k_AD_xstar_rest n * sumQ (col 0 k rest) /\
  nth k (location g) 0 == k_L_xstar0 * nth k b0 0 + k_L_xstar_rest n * sumQ (col 0 k rest).
Proof. exact kernel_intercept. Qed.
Print Assumptions C04_kernel_intercept.

(** coefficient of determination through the generated squared error, squared deviation and 1 - SSE/SST of each class *)
Theorem C04_kernel_score : forall y yhat,
  let r (sq : Q -> Q -> Q) (st : Q -> Q -> Q) (f : Q -> Q -> Q) :=
    let sse := sumQ (map2 sq y yhat) in let sst := sumQ (map (fun v => st v (qmean y)) y) in
    if Qeq_bool sst 0 then None else Some (f sse sst) in
  rsq y yhat = r k_A_sqerr k_A_sst_term k_A_rsq /\ rsq y yhat = r k_AD_sqerr k_AD_sst_term k_AD_rsq /\ rsq y yhat = r k_L_sqerr k_L_sst_term k_L_rsq.
Proof. exact rsq_kernel. Qed.
Print Assumptions C04_kernel_score.

(** genic variance: the source's formula ploidy ** 2 * sum_j (u_jk ** 2 * p_j * (1 - p_j)), and the raw-array allele frequency is the
    QUOTIENT count / (ploidy * ntaxa) in var_a and bulmer of both classes (a rounded reciprocal was finding C04-bulmer-reciprocal) *)
Theorem C04_kernel_var_a_definition : forall t (u : qmat) (fr : list Q) (ploidy : Z) k gt p,
  (rows_len t u -> length fr = length u -> (k < t)%nat ->
   nth k (var_a_of t u fr ploidy) 0 == k_A_var_a_scale (inject_Z ploidy) (bigsum (length u) (fun j => k_A_var_a_term (nth k (nth j u []) 0) (nth j fr 0))) /\
   nth k (var_a_of t u fr ploidy) 0 == k_L_var_a_scale (inject_Z ploidy) (bigsum (length u) (fun j => k_L_var_a_term (nth k (nth j u []) 0) (nth j fr 0)))) /\
  (let frq (f : Q -> Q -> Q -> Q) := map (fun c => f (inject_Z c) (inject_Z ploidy) (inject_Z (gt_ntaxa gt))) (acount gt p) in
   afreq gt p ploidy = frq k_A_var_a_afreq_raw /\ afreq gt p ploidy = frq k_A_bulmer_afreq_raw /\
   afreq gt p ploidy = frq k_L_var_a_afreq_raw /\ afreq gt p ploidy = frq k_L_bulmer_afreq_raw).
Proof. intros. split; [apply kernel_var_a_entry | apply afreq_raw_kernel]. Qed.
Print Assumptions C04_kernel_var_a_definition.

(** Bulmer ratio: the generated zero test of the genic variance is the exact one (true iff var_a == 0), an entry is NaN exactly
    there and the generated quotient var_A / var_a elsewhere *)
Theorem C04_kernel_bulmer_definition : forall g gt arg l vA k, var_A g gt = Some vA -> bulmer g gt arg = Some l ->
  (k < length vA)%nat -> (k < length (var_a g gt arg))%nat ->
  let s := nth k (var_a g gt arg) 0 in
  (k_A_bulmer_mask s = true <-> s == 0) /\ (k_L_bulmer_mask s = true <-> s == 0) /\
  nth k l None = (if k_A_bulmer_mask s then None else Some (k_A_bulmer_ratio (nth k vA 0) s)) /\
  nth k l None = (if k_L_bulmer_mask s then None else Some (k_L_bulmer_ratio (nth k vA 0) s)).
Proof. exact kernel_bulmer_entry. Qed.
Print Assumptions C04_kernel_bulmer_definition.

(** gauss_seidel: the model's coordinate update, movement test, initial test (adiff = 2 * atol) and loop guard are the generated
    ones: with [fuel] sweeps left out of [maxiter] the loop continues iff  moved and niter < maxiter  for niter = maxiter - fuel *)
Theorem C04_kernel_gauss_seidel : forall A b atol (maxiter fuel : nat) go x i r bi,
  gs_coord i r bi x = Qred (k_gs_coord bi (dotQ (firstn i r) (firstn i x)) (dotQ (skipn (S i) r) (skipn (S i) x)) (nth i r 0)) /\
  any_gt atol x = existsb (fun v => k_gs_moved v atol) x /\
  gauss_seidel A b atol maxiter =
    (if k_gs_moved (k_gs_adiff0 atol) atol && negb (Nat.eqb maxiter 0)
     then (if diag_ok A then Some (gs_loop maxiter A b atol true (repeat 0 (length b))) else None)
     else Some (repeat 0 (length b))) /\
  ((fuel <= maxiter)%nat ->
   gs_loop fuel A b atol go x =
   if k_gs_guard go (Z.of_nat (maxiter - fuel)) (Z.of_nat maxiter)
   then (let x' := gs_sweep A b x in gs_loop (pred fuel) A b atol (any_gt atol (adiff x' x)) x') else x).
Proof. intros. split; [apply gs_coord_kernel|]. split; [apply any_gt_kernel|]. split; [apply gauss_seidel_kernel | apply gs_loop_guard]. Qed.
Print Assumptions C04_kernel_gauss_seidel.

(** the fitted model through the generated expressions: the intercept is the training mean, and a marker whose generated column
    test (not all taxa equal to the first) is false gets exactly the generated constant, which is 0 *)
Theorem C04_kernel_rr_structure : forall p r0 Z' y ridge atol maxiter beta u, rr_fit1 p (r0 :: Z') y ridge atol maxiter = Some (beta, u) ->
  beta = qmean y /\ length u = p /\
  (forall j, (j < p)%nat -> k_poly_col (forallb (fun r => k_poly_eq (nth j r 0%Z) (nth j r0 0%Z)) (r0 :: Z')) = false -> nth j u k_mono_effect = k_mono_effect) /\
  k_mono_effect == 0 /\ sumQ (map (fun v => k_center v (qmean y)) y) == sumQ (center y).
Proof. exact kernel_rr_structure. Qed.
Print Assumptions C04_kernel_rr_structure.

(** the ridge parameter of the penalised criterion is the source's quotient varE / varU of the variance components, positive
    whenever they are (they are exponentials of the optimiser's result): the hypothesis [0 < ridge] of C04_rr_never_worse_than_zero
    and C04_rr_normal_equations_partial *)
Theorem C04_kernel_ridge : forall varE varU, k_ridge varE varU = varE / varU /\ (0 < varE -> 0 < varU -> 0 < k_ridge varE varU).
Proof. intros. split; [apply k_ridge_model | apply kernel_ridge_positive]. Qed.
Print Assumptions C04_kernel_ridge.

(** ** scale covariance of the values themselves, and sessions *)

(** if trait k of a second model has c times the effects of trait k of the first, its column of Z u is c times the first's, for
    every c (2^-40 and 2^20 included) and every dosage matrix *)
Theorem C04_gebv_scale_covariant : forall g g' Z v v' k c, rows_len (g_t g) (bv_effects g) -> rows_len (g_t g') (bv_effects g') -> g_t g' = g_t g ->
  (k < g_t g)%nat -> col_scaled k c (bv_effects g') (bv_effects g) ->
  gebv_numpy g Z = Some v -> gebv_numpy g' Z = Some v' ->
  qeql (col 0 k v') (map (Qmult c) (col 0 k v)).
Proof. exact gebv_col_scaled. Qed.
Print Assumptions C04_gebv_scale_covariant.

(** a model object is its current coefficient arrays: whatever is observed ([obs]: any method, on any input) after a history of
    assignments through the setters depends on the last value written to each field only, independent fields commute, a copy
    answers like the original and can be updated without reference to it, and writing every field back gives the same object *)
Theorem C04_session_state_only : forall (A : Type) (obs : gmodel -> A) g (a b c : qmat),
  obs (set_ua (set_ua g a) b) = obs (set_ua g b) /\ obs (set_beta (set_beta g a) b) = obs (set_beta g b) /\
  obs (set_umisc (set_umisc g a) b) = obs (set_umisc g b) /\ obs (set_ud (set_ud g a) b) = obs (set_ud g b) /\
  obs (set_beta (set_ua g a) c) = obs (set_ua (set_beta g c) a) /\ obs (set_ud (set_umisc g a) c) = obs (set_umisc (set_ud g c) a) /\
  obs (model_copy g) = obs g /\ obs (set_ua (model_copy g) a) = obs (set_ua g a) /\
  (set_ua (set_beta (set_umisc (set_ud g (g_ud g)) (g_umisc g)) (g_beta g)) (g_ua g) = g).
Proof. intros. apply session_state_only. Qed.
Print Assumptions C04_session_state_only.

(** non-vacuity of the hypotheses of the kernel theorems *)
Example C04_kernel_hyps_satisfiable :
  let g := build CAD [[1; 2]; [3; 4]] None [[1; 0]; [-1; 2]] (Some [[0; 1]; [1; 0]]) 2 in
  let gt := GUnphased 4 [[0; 1]; [3; 4]; [2; 2]]%Z in
  (0 <= 3 <= 4 * 3)%Z /\ (0 < 4 * 3)%Z /\ (0 <= 2 <= 4)%Z /\ g_cls g = CAD /\ rows_len (g_t g) (g_beta g) /\
  k_AD_gegv_het_obj 2 4 = true /\ k_AD_gegv_het_obj 4 4 = false /\
  (exists vA l, var_A g gt = Some vA /\ bulmer g gt None = Some l /\ (1 < length vA)%nat /\ (1 < length (var_a g gt None))%nat) /\
  (exists beta u, rr_fit1 2 ([0; 1] :: [[1; 1]; [2; 1]; [1; 1]])%Z [1; 2; 4; 2] (1 # 2) (1 # 100) 50 = Some (beta, u)) /\
  (3 <= 5)%nat /\ 0 < (1 # 3) /\ 0 < k_ridge (1 # 3) (2 # 5).
Proof.
  cbv zeta. split; [lia|]. split; [lia|]. split; [lia|]. split; [reflexivity|].
  split; [cbn; repeat constructor|]. split; [reflexivity|]. split; [reflexivity|].
  split; [eexists; eexists; split; [vm_compute; reflexivity|]; split; [vm_compute; reflexivity|]; cbn; lia|].
  split; [eexists; eexists; vm_compute; reflexivity |]. split; [lia|]. split; reflexivity.
Qed.
