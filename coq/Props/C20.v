(** C20 — property theorems (being written) *)
From PV Require Import Lib.Common Model.C20_Loop.
