(** C20 — property theorems only: statement, [exact] of a lemma proved elsewhere, [Print Assumptions].
    Model: Model/C20_Loop.v (mirrors RecurrentSelectionBreedingProgram.initialize/reset/advance/evolve on an explicit
    heap; operators and logbook are arbitrary heap transformers, [opset]). *)
From PV Require Import Lib.Common Model.C20_Loop Proofs.C20_Loop Proofs.C20_Chain Proofs.C20_Heap Proofs.C20_Indep Proofs.C20_Fresh Proofs.C20_Progress Proofs.C20_Sharing Proofs.C20_Main Gen.C20_Program Proofs.C20_Program Model.C20_Session Model.C20_Object Gen.C20_Kernel Proofs.C20_Kernel Proofs.C20_Session.
Local Open Scope nat_scope.

(** Call order, time index, replicate counter — for ALL operators/logbooks, ALL counts, ALL states: the calls of
    evolve(nrep, ngen, lbook, loginit) are (after an initialize call if the programme is uninitialised), per replicate
    r = 1..nrep: reset, evaluate@0, log_initialize@0 if loginit, then for g = 1..ngen the eight calls
    pselect, log, mate, log, evaluate, log, sselect, log at t_cur = g, every log carrying rep0 + r, everything carrying
    the constructor's t_max; exactly this sequence when nothing fails, a prefix of it otherwise. *)
Theorem C20_trace_shape : forall ops strict initres nrep ngen li st,
  match evolve ops strict initres nrep ngen li st with
  | (st', evs, ok) =>
      (ok = true -> map sig evs = evolve_sig (is_initialized st) nrep ngen li (p_tmax st) (p_rep st)
                    /\ p_rep st' = (p_rep st + Z.of_nat (Z.to_nat nrep))%Z
                    /\ p_t st' = (if Nat.eqb (Z.to_nat nrep) 0 then p_t st else 1 + Z.of_nat (Z.to_nat ngen))%Z
                    /\ p_tmax st' = p_tmax st)
      /\ (ok = false -> prefix (map sig evs) (evolve_sig (is_initialized st) nrep ngen li (p_tmax st) (p_rep st)))
  end.
Proof. exact trace_shape. Qed.
Print Assumptions C20_trace_shape.

(** closed form of the generation part: block g (0-based) of [n] generations started at time [t] is the eight calls in
    order at time t + g (evolve starts them at t = 1) *)
Theorem C20_generation_blocks : forall n t tm rep g, g < n ->
  firstn 8 (skipn (8 * g) (gens_sig n t tm rep)) =
    [(T_PSEL, (t + Z.of_nat g)%Z, tm, 0%Z); (L_PSEL, (t + Z.of_nat g)%Z, tm, rep); (T_MATE, (t + Z.of_nat g)%Z, tm, 0%Z);
     (L_MATE, (t + Z.of_nat g)%Z, tm, rep); (T_EVAL, (t + Z.of_nat g)%Z, tm, 0%Z); (L_EVAL, (t + Z.of_nat g)%Z, tm, rep);
     (T_SSEL, (t + Z.of_nat g)%Z, tm, 0%Z); (L_SSEL, (t + Z.of_nat g)%Z, tm, rep)]
  /\ length (gens_sig n t tm rep) = 8 * n.
Proof. intros. split; [now apply gens_sig_nth | apply gens_sig_length]. Qed.
Print Assumptions C20_generation_blocks.

(** Hand-over — for ALL operators/logbooks and any sequence of evolve calls, failing or not: every call receives
    exactly the five containers held after its predecessor (the ones the last operator returned, or reset's copies),
    mate/log_pselect/log_mate receive the mating configuration pselect returned, every operator receives an empty
    miscout and the following log call receives what the operator left in it, the recorded contents are the heap's
    contents at the call, and the heap a call starts on is the heap its predecessor left ([chained]). *)
Theorem C20_calls_chained : forall ops strict initres calls st,
  chained (view_of st) (snd (fst (evolve_calls ops strict initres calls st))).
Proof. exact calls_chained. Qed.
Print Assumptions C20_calls_chained.

(** Replicate independence and immutability of the start state — for ALL operators and logbooks that touch only what
    they can reach from their arguments and private memory ([ops_wb]: in-place mutation of containers and leaves,
    aliasing, fresh containers, remembering containers across calls and replicates are all allowed), all counts, any
    sequence of evolve calls, failing or not: the start containers stay the same objects, no cell of the start
    region (containers and their leaves) is ever written, and every evaluation at t_cur = 0 (the first call of each
    replicate) receives containers whose contents equal the start contents at entry, on locations outside the start
    region that did not exist when the loop was entered. *)
Theorem C20_start_never_modified_replicates_equal : forall h0 start ops strict initres calls lo st,
  start_wf h0 start -> length start = 5 ->
  forallb (fun o : option loc => match o with Some _ => true | None => false end) start = true ->
  ops_wb ops -> (lo <= 1)%Z -> inv h0 start false lo st ->
  match evolve_calls ops strict initres calls st with
  | (st', evs, ok) =>
      p_start st' = start /\
      (forall l, SR h0 start l -> hget (p_heap st') l = hget h0 l) /\
      Forall (fun e => e_tag e = T_EVAL -> e_t e = 0%Z ->
                       map (map (fun x : Z * loc * list Z => (fst (fst x), snd x))) (e_dat e) = start_contents h0 start /\
                       forall l, In l (ev_locs e) -> ~ SR h0 start l /\ length h0 <= l) evs
  end.
Proof. intros h0 start ops strict initres calls lo st Hwf Hl Hi Ho Hlo Hinv. exact (start_and_replicates h0 start Hwf Hl Hi ops Ho strict initres calls lo st Hlo Hinv). Qed.
Print Assumptions C20_start_never_modified_replicates_equal.

(** ... and, replicate by replicate: the trace of n replicates splits into per-replicate traces, each of which begins with
    reset followed by evaluate at t_cur = 0 on containers carrying the start contents whose locations (containers and
    leaves) did not exist when THAT replicate was entered — they are disjoint from the start state, from every earlier
    replicate's working copies and from whatever the operators remembered ([starts_fresh], [rep_traces]) *)
Theorem C20_replicates_each_fresh : forall h0 start ops ngen li n lo st,
  start_wf h0 start -> length start = 5 -> ops_wb ops -> (lo <= 1)%Z -> inv h0 start false lo st ->
  rep_traces h0 start (p_heap st) n (snd (fst (iter n (replicate ops ngen li) st))).
Proof. intros h0 start ops ngen li n lo st Hwf Hl Ho Hlo Hi. exact (replicates_each_fresh h0 start Hwf Hl ops Ho ngen li n lo st Hlo Hi). Qed.
Print Assumptions C20_replicates_each_fresh.

(** Progress — the [ok = true] branch of C20_trace_shape is the one that applies: with operators that return five dicts,
    do not raise and leave no parameter name of the log call in miscout, and a logbook that does not raise
    ([ops_total]), on an initialised programme with a well-formed start state evolve never fails, so each replicate
    evaluates the reset population once and every generation applies the four operators exactly once, in order,
    each followed by its log call *)
Theorem C20_evolve_full_trace : forall h0 start ops strict initres nrep ngen li lo st,
  start_wf h0 start -> length start = 5 ->
  forallb (fun o : option loc => match o with Some _ => true | None => false end) start = true ->
  ops_wb ops -> ops_total ops -> (lo <= 1)%Z -> inv h0 start false lo st -> misc_collides true (p_misc st) = false ->
  match evolve ops strict initres nrep ngen li st with
  | (st', evs, ok) => ok = true /\ map sig evs = evolve_sig true nrep ngen li (p_tmax st) (p_rep st)
  end.
Proof. intros h0 start ops strict initres nrep ngen li lo st Hwf Hl Hi Ho Ht Hlo Hinv Hm.
       exact (evolve_full_trace h0 start Hwf Hl Hi ops Ho Ht strict initres nrep ngen li lo st Hlo Hinv Hm). Qed.
Print Assumptions C20_evolve_full_trace.

(** action programs without the wrong-return-type, raise and colliding-miscout actions are total *)
Theorem C20_safe_programs_total : forall g, safe_progs g = true -> ops_total (interp g).
Proof. exact interp_total. Qed.
Print Assumptions C20_safe_programs_total.

(** the protected region really is the start state: every start container, every leaf it holds, hence its contents *)
Theorem C20_start_region_covers : forall h0 start h d,
  In (Some d) start ->
  (forall kvs k l, hget h0 d = Some (ODict kvs) -> In (k, l) kvs -> SR h0 start d /\ SR h0 start l) /\
  ((forall l, SR h0 start l -> hget h l = hget h0 l) -> content1 h d = content1 h0 d).
Proof. intros h0 start h d Hd. split; [intros kvs k l Hg Hk; eapply SR_covers; eauto | now apply start_contents_preserved]. Qed.
Print Assumptions C20_start_region_covers.

(** every operator / logbook written in the action language used by the correspondence is well behaved, so the theorem
    above applies to the very models that are compared with the implementation *)
Theorem C20_programs_well_behaved : forall g, ops_wb (interp g).
Proof. exact interp_wb. Qed.
Print Assumptions C20_programs_well_behaved.

Theorem C20_case_start_protected : forall leaves dicts start g strict initres calls tmax rep0,
  let st := init_state leaves dicts start tmax rep0 in
  start_wf (p_heap st) (p_start st) -> length start = 5 -> is_initialized st = true ->
  match evolve_calls (interp g) strict initres calls st with
  | (st', evs, ok) =>
      p_start st' = p_start st /\ (forall l, SR (p_heap st) (p_start st) l -> hget (p_heap st') l = hget (p_heap st) l)
      /\ Forall (Qev (p_heap st) (p_start st)) evs
  end.
Proof. exact case_start_protected. Qed.
Print Assumptions C20_case_start_protected.

(** deep copy (reset's building block): only allocates, returns a fresh container with fresh leaves and equal contents *)
Theorem C20_deepcopy_fresh_equal : forall h d h' d',
  deepcopy h d = Some (h', d') ->
  (exists ext, h' = h ++ ext) /\ length h <= d' < length h' /\
  (forall x, In x (snap1 h' d') -> length h <= snd (fst x) < length h') /\
  ((forall kvs k l, hget h d = Some (ODict kvs) -> In (k, l) kvs -> l < length h) -> content1 h' d' = content1 h d).
Proof. exact deepcopy_fresh_equal. Qed.
Print Assumptions C20_deepcopy_fresh_equal.

(** ... and the same sharing: two keys of the copy hold the same leaf object exactly when they did in the original *)
Theorem C20_deepcopy_sharing : forall h d h' d' kvs kvs',
  deepcopy h d = Some (h', d') -> hget h d = Some (ODict kvs) -> hget h' d' = Some (ODict kvs') ->
  length kvs' = length kvs /\
  forall i j dflt, i < length kvs -> j < length kvs ->
    (snd (nth i kvs' dflt) = snd (nth j kvs' dflt) <-> snd (nth i kvs dflt) = snd (nth j kvs dflt)).
Proof. exact deepcopy_sharing. Qed.
Print Assumptions C20_deepcopy_sharing.

(** an uninitialised programme stores what the initialisation operator returned and runs the loop on that state, for every
    operator — also one that declares [miscout] as a required parameter, as the abstract interface does (full strength since
    commit b17284d4; all theorems above then apply to the state with start := initres) *)
Theorem C20_evolve_initialises : forall ops strict initres nrep ngen li st,
  is_initialized st = false -> length initres = 5 ->
  evolve ops strict initres nrep ngen li st =
    (let st1 := mkSt (p_heap st) (p_stash st) initres (p_work st) (p_t st) (p_tmax st) (p_rep st) (p_mcfg st) (p_misc st) in
     let '(st', evs, ok) := iter (Z.to_nat nrep) (replicate ops ngen li) st1 in
     (st', mkEv T_INIT 0 0 0 [] [] [] [] 0 [] (p_heap st) (p_heap st) :: evs, ok)).
Proof. exact evolve_initialises. Qed.
Print Assumptions C20_evolve_initialises.

(** documentation of the repaired defect C20-initialize-miscout: the former call initop.initialize( ** kwargs ) without the
    [miscout] argument ([evolve_old]) made evolve fail before any call for an interface-conforming operator, where the
    current code succeeds *)
Theorem C20_initialize_without_miscout_refuted :
  exists (ops : opset) (st : pstate) (initres : list (option loc)),
    is_initialized st = false /\ length initres = 5 /\
    forallb (fun o : option loc => match o with Some _ => true | None => false end) initres = true /\
    evolve_old ops true initres 1 1 true st = (st, [], false) /\
    snd (evolve ops true initres 1 1 true st) = true.
Proof. exact init_without_miscout_refuted. Qed.
Print Assumptions C20_initialize_without_miscout_refuted.

(** The programme of the CURRENT source: Gen/C20_Program.v is regenerated on every run by translating the bodies of
    reset / is_initialized / initialize / advance / evolve statement by statement (fail closed) into the combinators of
    the model; it coincides with the hand-written model, so every theorem of this file speaks about the call sequence
    the source spells out now. *)
Theorem C20_program_is_model :
  (forall ops, gen_generation ops = generation ops) /\ (forall ops ngen, gen_advance ops ngen = advance ops ngen) /\
  (forall ops ngen li, gen_replicate ops ngen li = replicate ops ngen li) /\
  (gen_reset_plan = map (fun i => (i, i)) (seq 0 5) /\ gen_reset_time = 0%Z) /\
  (forall strict res, gen_initialize strict res = initialize strict res) /\
  (forall st, length (p_start st) = 5 -> gen_is_initialized st = is_initialized st) /\
  (forall ops strict initres nrep ngen li st, length (p_start st) = 5 ->
     gen_evolve ops strict initres nrep ngen li st = evolve ops strict initres nrep ngen li st).
Proof.
  exact (conj gen_generation_is_model (conj gen_advance_is_model (conj gen_replicate_is_model (conj gen_reset_is_model
        (conj gen_initialize_is_model (conj gen_is_initialized_is_model gen_evolve_is_model)))))).
Qed.
Print Assumptions C20_program_is_model.

(** the trace theorem about the generated programme itself *)
Theorem C20_generated_trace_shape : forall ops strict initres nrep ngen li st, length (p_start st) = 5 ->
  match gen_evolve ops strict initres nrep ngen li st with
  | (st', evs, ok) =>
      (ok = true -> map sig evs = evolve_sig (is_initialized st) nrep ngen li (p_tmax st) (p_rep st)
                    /\ p_rep st' = (p_rep st + Z.of_nat (Z.to_nat nrep))%Z
                    /\ p_t st' = (if Nat.eqb (Z.to_nat nrep) 0 then p_t st else 1 + Z.of_nat (Z.to_nat ngen))%Z
                    /\ p_tmax st' = p_tmax st)
      /\ (ok = false -> prefix (map sig evs) (evolve_sig (is_initialized st) nrep ngen li (p_tmax st) (p_rep st)))
  end.
Proof. intros ops strict initres nrep ngen li st H. rewrite (gen_evolve_is_model ops strict initres nrep ngen li st H). exact (trace_shape ops strict initres nrep ngen li st). Qed.
Print Assumptions C20_generated_trace_shape.

(** The ATTRIBUTE LAYER of the current source: Gen/C20_Kernel.v is regenerated on every run from the seventeen property
    getters / setters and the constructor (fail closed: an unclassified class member, e.g. a copy hook or a caching helper,
    is rejected).  It coincides with the tables the programme model assumes. *)
Theorem C20_kernel_tables : gen_props = model_props /\ gen_ctor = model_ctor /\ gen_guards = seq 0 5.
Proof. exact (conj gen_props_is_model (conj gen_ctor_is_model gen_guards_is_model)). Qed.
Print Assumptions C20_kernel_tables.

(** the GENERATED constructor stores every argument under its own name: operators of the right classes, an integer t_max,
    start containers that are dicts or None give a programme whose start slots are the containers handed over (the same
    objects), whose clock is 0, whose t_max is the argument and which has no working containers yet ... *)
Theorem C20_kernel_constructor : forall tmax s0 s1 s2 s3 s4,
  start_value s0 = true -> start_value s1 = true -> start_value s2 = true -> start_value s3 = true -> start_value s4 = true ->
  exists a,
    construct gen_props gen_ctor [XOp 0; XOp 1; XOp 2; XOp 3; XOp 4; XInt tmax; s0; s1; s2; s3; s4] no_attrs = (a, true) /\
    length a = 17 /\
    abs_start a = map (fun v => dict_slot (Some v)) [s0; s1; s2; s3; s4] /\
    abs_work a = [None; None; None; None; None] /\
    (forall j, 5 <= j < 10 -> nth j a None = None) /\
    abs_int a 15 = Some 0%Z /\ abs_int a 16 = Some tmax /\
    (forall k, k < 5 -> abs_op a k = Some k).
Proof. exact kernel_constructor. Qed.
Print Assumptions C20_kernel_constructor.

(** ... and accepts nothing else *)
Theorem C20_kernel_constructor_only : forall params a,
  length params = 11 ->
  construct gen_props gen_ctor params no_attrs = (a, true) ->
  exists tmax s0 s1 s2 s3 s4,
    params = [XOp 0; XOp 1; XOp 2; XOp 3; XOp 4; XInt tmax; s0; s1; s2; s3; s4] /\
    start_value s0 = true /\ start_value s1 = true /\ start_value s2 = true /\ start_value s3 = true /\ start_value s4 = true.
Proof. exact kernel_constructor_only. Qed.
Print Assumptions C20_kernel_constructor_only.

(** the state every case / session of the correspondence starts from is the abstraction of what the generated constructor builds *)
Theorem C20_kernel_init_state : forall leaves dicts start tmax rep0 (s : list (option loc)),
  length start = 5 -> s = map (dict_loc (length leaves)) start ->
  exists a, construct gen_props gen_ctor
              ([XOp 0; XOp 1; XOp 2; XOp 3; XOp 4; XInt tmax] ++ map (fun o => match o with Some l => XDict l | None => XNone end) s) no_attrs = (a, true) /\
            abs_start a = p_start (init_state leaves dicts start tmax rep0) /\
            abs_work a = p_work (init_state leaves dicts start tmax rep0) /\
            abs_int a 15 = Some (p_t (init_state leaves dicts start tmax rep0)) /\
            abs_int a 16 = Some (p_tmax (init_state leaves dicts start tmax rep0)).
Proof. exact kernel_init_state. Qed.
Print Assumptions C20_kernel_init_state.

(** set / get laws of the GENERATED property table: an accepting setter makes its own getter return exactly the value handed
    over and changes no other property; a rejecting setter changes nothing *)
Theorem C20_kernel_set_get : forall a p v,
  length a = 17 -> p < 17 ->
  match prop_set gen_props a p v with
  | (a', true) => length a' = 17 /\ prop_get gen_props a' p = Some v /\
                  forall q, q < 17 -> q <> p -> prop_get gen_props a' q = prop_get gen_props a q
  | (a', false) => a' = a
  end.
Proof. exact kernel_set_get. Qed.
Print Assumptions C20_kernel_set_get.

(** the setter commands of the session model are the GENERATED setters seen through the abstraction: start_X takes a dict or
    None, a working container a dict only, the clock and t_max an int only; each touches its own slot only *)
Theorem C20_kernel_session_setters : forall a j v, length a = 17 -> j < 5 ->
  (let '(a', ok) := prop_set gen_props a j (setv_value v) in
   (abs_start a', ok) = start_after v j (abs_start a) /\ abs_work a' = abs_work a) /\
  (let '(a', ok) := prop_set gen_props a (5 + j) (setv_value v) in
   (abs_work a', ok) = work_after v j (abs_work a) /\ abs_start a' = abs_start a).
Proof. intros a j v L Hj. split; [exact (kernel_start_setter a j v L Hj) | exact (kernel_work_setter a j v L Hj)]. Qed.
Print Assumptions C20_kernel_session_setters.

Theorem C20_kernel_clock_setters : forall a v, length a = 17 ->
  (forall z, v = XInt z -> exists a1 a2, prop_set gen_props a 15 v = (a1, true) /\ abs_int a1 15 = Some z /\ abs_int a1 16 = abs_int a 16 /\
                                         prop_set gen_props a 16 v = (a2, true) /\ abs_int a2 16 = Some z /\ abs_int a2 15 = abs_int a 15) /\
  ((forall z, v <> XInt z) -> prop_set gen_props a 15 v = (a, false) /\ prop_set gen_props a 16 v = (a, false)).
Proof. exact kernel_clock_setters. Qed.
Print Assumptions C20_kernel_clock_setters.

(** advance(ngen, lbook) as a public call from ANY clock value: generation g (0-based) makes the eight calls in order at
    t_cur + g, the clock ends at t_cur + ngen, t_max / logbook counter / start state are untouched; a prefix if something raises *)
Theorem C20_advance_trace : forall ops ngen st,
  match advance ops ngen st with
  | (st', evs, ok) =>
      (ok = true -> map sig evs = gens_sig (Z.to_nat ngen) (p_t st) (p_tmax st) (p_rep st) /\
                    p_t st' = (p_t st + Z.of_nat (Z.to_nat ngen))%Z /\ p_tmax st' = p_tmax st /\ p_rep st' = p_rep st /\
                    p_start st' = p_start st)
      /\ (ok = false -> prefix (map sig evs) (gens_sig (Z.to_nat ngen) (p_t st) (p_tmax st) (p_rep st)))
  end.
Proof. exact advance_trace. Qed.
Print Assumptions C20_advance_trace.

(** Sessions on ONE programme object — for ALL sequences of evolve calls interleaved with is_initialized, the t_cur / t_max
    setters, replacement of any operator / the initialisation operator / the logbook by arbitrary programs of the action
    language, and shallow copies of the programme: while no command raises, the start containers stay the same objects, no cell
    of the start region is ever written, and every replicate of every run starts on fresh locations carrying the start contents,
    whatever earlier runs and earlier operators did or remembered. *)
Theorem C20_session_start_protected : forall h0 start cs lo ss,
  start_wf h0 start -> length start = 5 ->
  forallb (fun o : option loc => match o with Some _ => true | None => false end) start = true ->
  (lo <= 1)%Z -> forallb (safe_cmd lo) cs = true -> inv h0 start false lo (s_st ss) ->
  match run_cmds cs ss with
  | (ss', evs, ok) =>
      ok = true ->
      p_start (s_st ss') = start /\ (forall l, SR h0 start l -> hget (p_heap (s_st ss')) l = hget h0 l) /\ Forall (Qev h0 start) evs
  end.
Proof. intros h0 start cs lo ss Hwf Hl Hi Hlo Hs Hinv. exact (session_start_protected h0 start Hwf Hl Hi cs lo ss Hlo Hs Hinv). Qed.
Print Assumptions C20_session_start_protected.

(** a later command sees exactly the state the earlier commands left: a session splits at any point *)
Theorem C20_session_composes : forall cs1 cs2 ss,
  run_cmds (cs1 ++ cs2) ss =
    let '(ss1, ev1, ok1) := run_cmds cs1 ss in let '(ss2, ev2, ok2) := run_cmds cs2 ss1 in (ss2, ev1 ++ ev2, ok1 && ok2).
Proof. exact run_cmds_app. Qed.
Print Assumptions C20_session_composes.

(** copy.deepcopy(programme): containers present exactly where the original has them; clock, t_max, logbook counter and the
    operators' private memory carried over *)
Theorem C20_deepcopy_prog_shape : forall st st', deepcopy_prog st = (st', true) ->
  present (p_start st') = present (p_start st) /\ present (p_work st') = present (p_work st) /\
  p_t st' = p_t st /\ p_tmax st' = p_tmax st /\ p_rep st' = p_rep st /\ p_stash st' = p_stash st.
Proof. exact deepcopy_prog_shape. Qed.
Print Assumptions C20_deepcopy_prog_shape.

(** non-vacuity of the session theorem: a session with two runs, a replaced operator, a moved clock and a new logbook on the
    example start state below meets the hypotheses and does not raise *)
Example C20_session_hyps_satisfiable :
  let st := init_state [[1; 2]; [3]]%Z [[(0%Z, 0); (1%Z, 0)]; [(0%Z, 1)]; []; []; [(2%Z, 1)]] [Some 0; Some 1; Some 0; Some 3; Some 4] 5 0 in
  let g := mkProgs [AApp 0 0 7; ASet 5 0 [1%Z]] [AAppT 1 0; ADel 0 2] [ASetT 3 1; AStash 0 0] [ANew 0; AUnstash 2 0] [] [] [] [] [] in
  let cs := [CEvolve 2 1 true; CSetOp 2 [AApp 0 0 9]; CSetT (Some 4%Z); CIsInit; CBook 7 [] [] [] [AAppT 0 0] []; CCopy; CEvolve 2 2 false] in
  forallb (safe_cmd 0) cs = true /\ snd (run_cmds cs (mkSS st g false [])) = true.
Proof. split; vm_compute; reflexivity. Qed.

(** non-vacuity: a concrete five-container start state with shared leaves and one dict in two slots meets every
    hypothesis, with in-place mutating, aliasing and remembering operators *)
Example C20_hyps_satisfiable :
  let st := init_state [[1; 2]; [3]]%Z [[(0%Z, 0); (1%Z, 0)]; [(0%Z, 1)]; []; []; [(2%Z, 1)]] [Some 0; Some 1; Some 0; Some 3; Some 4] 5 0 in
  start_wf (p_heap st) (p_start st) /\ length (p_start st) = 5 /\ is_initialized st = true
  /\ inv (p_heap st) (p_start st) false 0 st
  /\ ops_wb (interp (mkProgs [AApp 0 0 7; ASet 5 0 [1%Z]] [AAppT 1 0; ADel 0 2] [ASetT 3 1; AStash 0 0] [ANew 0; AUnstash 2 0] [] [] [] [] []))
  /\ ops_total (interp (mkProgs [AApp 0 0 7; ASet 5 0 [1%Z]] [AAppT 1 0; ADel 0 2] [ASetT 3 1; AStash 0 0] [ANew 0; AUnstash 2 0] [] [] [] [] []))
  /\ misc_collides true (p_misc st) = false.
Proof.
  pose proof example_start_wf as H. cbn zeta in *. destruct H as (H1 & H2 & H3 & H4 & H5).
  split; [exact H1|]. split; [exact H2|]. split; [exact H3|]. split; [exact H4|]. split; [exact H5|].
  split; [apply interp_total; reflexivity | reflexivity].
Qed.
