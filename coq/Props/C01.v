(** C01 — Mendelian fidelity: property theorems only (statement, [exact] of a lemma proved in Proofs/, [Print Assumptions]).
    Models: Model/C01_Meiosis.v (mat_meiosis / mat_dh / mat_mate = dense_meiosis / dense_dh / dense_cross),
            Model/C01_Mating.v  (mate() of the seven protocols incl. names, labels, counters, metadata, group_taxa()).
    Specification vocabulary (Proofs/C01_Meiosis.v, Proofs/C01_Mating.v):
      [mosaic xoprob g0 g1 gam]   gam = pick g0 g1 c for a copy choice c per marker (c_{-1} = copy 0) that changes at marker j only if 0 < xoprob_j;
      [ped], [designated p row nself]   the pedigree a cross-configuration row designates (founder / cross / self / doubled haploid);
      [realises geno xoprob t (c0, c1)]   both copies are mosaics of the two copies of the designated parent, which realises its own pedigree;
      [who xc nm np]   the cross index of every progeny = numpy.repeat(arange(ncross), nmating * nprogeny);
      [from_founder geno fs h]   every allele of h sits at the same marker in a copy of a founder listed in fs. *)
From Coq Require Import Permutation.
From PV Require Import Lib.Common Model.C01_Meiosis Model.C01_Mating Model.C01_Kit Gen.C01_Kernel Proofs.C01_Meiosis Proofs.C01_Mating Proofs.C01_Kernel.
Local Open Scope Z_scope.

(** one meiosis product is a left-to-right mosaic of the two copies of the selected individual; the source copy changes
    only at markers whose crossover probability is positive — for all genotypes, probabilities and non-negative draws *)
Theorem C01_gamete_mosaic : forall geno s rnd xoprob, nonneg_row rnd ->
  mosaic xoprob (row geno 0 s) (row geno 1 s) (gamete geno s rnd xoprob).
Proof. exact gamete_mosaic. Qed.
Print Assumptions C01_gamete_mosaic.

(** the loop as written in mat_meiosis / dense_meiosis (flatnonzero, segment copies, phase toggled after each segment)
    computes exactly the per-marker gamete *)
Theorem C01_loop_is_per_marker : forall geno xoprob sel rnd, rows_ok (length xoprob) geno ->
  Forall (fun s => (s < length (nth 0 geno []))%nat) sel ->
  meiosis_rows_seg geno sel rnd xoprob = meiosis_rows geno sel rnd xoprob.
Proof. intros geno xoprob sel rnd H1 H2. exact (meiosis_rows_seg_eq geno xoprob sel H1 H2 rnd). Qed.
Print Assumptions C01_loop_is_per_marker.

(** mat_mate: phase 0 holds gametes of the female selection, phase 1 gametes of the male selection *)
Theorem C01_mat_mate_sides : forall fgeno mgeno fsel msel xoprob r, nonneg_draws (pending r) ->
  exists c0 c1, fst (mat_mate fgeno mgeno fsel msel xoprob r) = [c0; c1] /\
    Forall2 (fun s gam => mosaic xoprob (row fgeno 0 s) (row fgeno 1 s) gam) fsel c0 /\
    Forall2 (fun s gam => mosaic xoprob (row mgeno 0 s) (row mgeno 1 s) gam) msel c1.
Proof. exact mat_mate_sides. Qed.
Print Assumptions C01_mat_mate_sides.

(** mat_dh: both phases are the same gamete *)
Theorem C01_mat_dh_homozygous : forall geno sel xoprob r,
  nth 0 (fst (mat_dh geno sel xoprob r)) [] = nth 1 (fst (mat_dh geno sel xoprob r)) [].
Proof. exact mat_dh_homozygous. Qed.
Print Assumptions C01_mat_dh_homozygous.

(** MOSAIC — every progeny returned by mate(), for each of the seven protocols, every cross table (selfs, repeated parents),
    scalar or array counts (zeros included), every selfing depth, all probabilities and all non-negative draws: its family
    label names a cross row i and it realises the pedigree that row i designates (each chromosome copy a mosaic of the two
    copies of the designated founder or intermediate hybrid, recursively, switching only where xoprob > 0) *)
Theorem C01_mosaic : forall p geno xoprob meta xc nmating nprogeny nself pc fc draws x,
  mate p geno xoprob meta xc nmating nprogeny nself pc fc draws = Some x -> nonneg_draws draws ->
  forall j, (j < length (p_taxa x))%nat ->
  exists i, (i < length xc)%nat /\ nth j (p_grp x) 0 = fc + Z.of_nat i /\
            realises geno xoprob (designated p (nth i xc []) nself) (indiv (p_mat x) j).
Proof. exact mate_mosaic. Qed.
Print Assumptions C01_mosaic.

(** CLOSURE — every allele of every progeny sits at the same marker in a chromosome copy of a founder named in the progeny's cross row *)
Theorem C01_closure : forall p geno xoprob meta xc nmating nprogeny nself pc fc draws x,
  mate p geno xoprob meta xc nmating nprogeny nself pc fc draws = Some x -> nonneg_draws draws ->
  forall j, (j < length (p_taxa x))%nat ->
  exists i, (i < length xc)%nat /\ nth j (p_grp x) 0 = fc + Z.of_nat i /\
            from_founder geno (nth i xc []) (row (p_mat x) 0 j) /\ from_founder geno (nth i xc []) (row (p_mat x) 1 j).
Proof. exact mate_closure. Qed.
Print Assumptions C01_closure.

(** COUNTS — #progeny = sum nmating_i * nprogeny_i; the (family label, name) pairs are exactly
    (family_counter + cross index by the repeat pattern, prefix + zero-filled progeny_counter + k); the group table decodes
    to the labels; both counters advance by exactly the numbers produced *)
Theorem C01_counts_order : forall p geno xoprob meta xc nmating nprogeny nself pc fc draws x,
  mate p geno xoprob meta xc nmating nprogeny nself pc fc draws = Some x ->
  exists nm np, expand_count nmating (length xc) = Some nm /\ expand_count nprogeny (length xc) = Some np /\
    let N := sumn (map2 Nat.mul nm np) in
    ntaxa_of (p_mat x) = N /\ length (nth 1 (p_mat x) []) = N /\ length (p_taxa x) = N /\ length (p_grp x) = N /\
    p_pc x = pc + Z.of_nat N /\ p_fc x = fc + Z.of_nat (length xc) /\
    Permutation (combine (p_grp x) (p_taxa x))
                (combine (map (fun i => fc + Z.of_nat i) (who xc nm np)) (taxa_names (prefix p) pc N)) /\
    concat (map2 (fun g n => repeat g (Z.to_nat n)) (p_gname x) (p_glen x)) = p_grp x.
Proof. exact mate_counts. Qed.
Print Assumptions C01_counts_order.

(** ORDER (partial: names within the 7-digit zero-fill) — progeny k is the k-th of the repeat pattern, names are consecutive
    from progeny_counter, the matrix is the one generated (group_taxa() is the identity) *)
Theorem C01_order_partial : forall p geno xoprob meta xc nmating nprogeny nself pc fc draws x,
  mate p geno xoprob meta xc nmating nprogeny nself pc fc draws = Some x ->
  exists nm np, expand_count nmating (length xc) = Some nm /\ expand_count nprogeny (length xc) = Some np /\
    let N := sumn (map2 Nat.mul nm np) in
    (0 <= pc -> pc + Z.of_nat N <= 10000000 ->
     p_grp x = map (fun i => fc + Z.of_nat i) (who xc nm np) /\ p_taxa x = taxa_names (prefix p) pc N /\
     p_mat x = fst (core p geno xoprob xc nm np nself (rng0 draws))).
Proof. exact mate_order. Qed.
Print Assumptions C01_order_partial.

(** ... and without that guard the order clause is false: two progeny of one family named across 10^7 come out swapped *)
Theorem C01_order_refuted : exists p geno xoprob meta xc nm np nself pc fc draws x,
  mate p geno xoprob meta xc nm np nself pc fc draws = Some x /\ 0 <= pc /\
  p_taxa x = [taxon_name (prefix p) (pc + 1); taxon_name (prefix p) pc].
Proof. exact order_refuted. Qed.
Print Assumptions C01_order_refuted.

(** DH — doubled-haploid progeny are homozygous at every locus (three DH protocols) *)
Theorem C01_dh_homozygous : forall p geno xoprob meta xc nmating nprogeny nself pc fc draws x,
  mate p geno xoprob meta xc nmating nprogeny nself pc fc draws = Some x -> is_dh p = true ->
  nth 0 (p_mat x) [] = nth 1 (p_mat x) [].
Proof. exact mate_dh. Qed.
Print Assumptions C01_dh_homozygous.

(** METADATA — all thirteen marker arrays (incl. vrnt_hapalt / vrnt_hapref since the repair 79a4ba88) reach the progeny unaltered *)
Theorem C01_metadata : forall p geno xoprob meta xc nmating nprogeny nself pc fc draws x,
  mate p geno xoprob meta xc nmating nprogeny nself pc fc draws = Some x -> p_meta x = meta.
Proof. exact mate_meta. Qed.
Print Assumptions C01_metadata.

(** ... the hand-over coded before the repair ([progeny_meta_dropped], no longer part of [mate]) did not have this property *)
Theorem C01_metadata_dropped_refuted : exists meta l, vm_hapalt meta = Some l /\ vm_hapalt (progeny_meta_dropped meta) = None /\
  progeny_meta_dropped meta <> meta.
Proof. exact meta_dropped_refuted. Qed.
Print Assumptions C01_metadata_dropped_refuted.

(** mate() succeeds on every well-formed call (row width = nparent, count arrays of length ncross, used parent indices < ntaxa) *)
Theorem C01_mate_defined : forall p geno xoprob meta xc nmating nprogeny nself pc fc draws nm np,
  Forall (fun r => length r = nparent p) xc -> expand_count nmating (length xc) = Some nm -> expand_count nprogeny (length xc) = Some np ->
  Forall (fun s => (s < ntaxa_of geno)%nat) (founder_sels p xc nm np) ->
  exists x, mate p geno xoprob meta xc nmating nprogeny nself pc fc draws = Some x.
Proof. exact mate_defined. Qed.
Print Assumptions C01_mate_defined.

(** KERNEL — the definitions regenerated from the CURRENT source on every run (Gen/C01_Kernel.v, by harness/translate/c01_kernel.py:
    the crossover test, the pieces of the segment-copy loop, mat_dh / mat_mate / dense_dh / dense_cross, the statements of
    each protocol's mate() from the parent-index expansion to the constructor call, the metadata hand-over, nparent, name
    prefix and width) are the ones the model is made of; [mate_k] is mate() assembled from them *)
Theorem C01_kernel_is_model :
  (forall u p, k_mat_xo u p = Qltb u p) /\ (forall u p, k_dense_xo u p = Qltb u p) /\
  (forall geno i s rnd xoprob, k_mat_gamete geno i s rnd xoprob = gamete_seg geno s rnd xoprob) /\
  (forall geno i s rnd xoprob, k_dense_gamete geno i s rnd xoprob = gamete_seg geno s rnd xoprob) /\
  (forall fg mg fs ms xo r, k_mat_mate fg mg fs ms xo r = mat_mate fg mg fs ms xo r) /\
  (forall fg mg fs ms xo r, k_dense_cross fg mg fs ms xo r = mat_mate fg mg fs ms xo r) /\
  (forall g s xo r, k_mat_dh g s xo r = mat_dh g s xo r) /\ (forall g s xo r, k_dense_dh g s xo r = mat_dh g s xo r) /\
  (forall p geno xo xc nm np nself pc fc r, k_raw p geno xo xc nm np nself pc fc r = mate_raw p geno xo xc nm np nself pc fc r) /\
  (forall p m, k_meta p m = progeny_meta m) /\ (forall p, k_nparent p = nparent p) /\ (forall p, k_prefix p = prefix p /\ k_width p = 7%nat) /\
  (forall p geno xoprob meta xc nmating nprogeny nself pc fc draws,
     mate_k p geno xoprob meta xc nmating nprogeny nself pc fc draws = mate p geno xoprob meta xc nmating nprogeny nself pc fc draws).
Proof. exact kernel_is_model. Qed.
Print Assumptions C01_kernel_is_model.

(** the crossover test of the source, as regenerated: with draws in [0,1) it fires only where the probability is positive (never
    at an exact 0) and always for a draw strictly below the probability (always at probability 1) — in both copies of the code *)
Theorem C01_kernel_crossover_boundary : forall u p : Q,
  ((0 <= u)%Q -> k_mat_xo u p = true -> (0 < p)%Q) /\ ((0 <= u)%Q -> k_dense_xo u p = true -> (0 < p)%Q) /\
  ((u < p)%Q -> k_mat_xo u p = true) /\ ((u < p)%Q -> k_dense_xo u p = true).
Proof. intros u p. exact (conj (k_mat_xo_positive u p) (conj (k_dense_xo_positive u p) (conj (k_mat_xo_fires u p) (k_dense_xo_fires u p)))). Qed.
Print Assumptions C01_kernel_crossover_boundary.

(** the segment-copy loop of the source, assembled from its regenerated index expressions, initialisations and updates, yields a
    mosaic of the two copies of the selected individual that switches only where xoprob > 0 (mat_meiosis and dense_meiosis) *)
Theorem C01_kernel_gamete_mosaic : forall geno i s rnd xoprob,
  length (row geno 0 s) = length xoprob -> length (row geno 1 s) = length xoprob -> nonneg_row rnd ->
  mosaic xoprob (row geno 0 s) (row geno 1 s) (k_mat_gamete geno i s rnd xoprob) /\
  mosaic xoprob (row geno 0 s) (row geno 1 s) (k_dense_gamete geno i s rnd xoprob).
Proof. exact k_gamete_mosaic. Qed.
Print Assumptions C01_kernel_gamete_mosaic.

(** MOSAIC, DH and METADATA stated about mate() as regenerated from the source *)
Theorem C01_kernel_mosaic : forall p geno xoprob meta xc nmating nprogeny nself pc fc draws x,
  mate_k p geno xoprob meta xc nmating nprogeny nself pc fc draws = Some x -> nonneg_draws draws ->
  forall j, (j < length (p_taxa x))%nat ->
  exists i, (i < length xc)%nat /\ nth j (p_grp x) 0 = fc + Z.of_nat i /\
            realises geno xoprob (designated p (nth i xc []) nself) (indiv (p_mat x) j).
Proof. exact mate_k_mosaic. Qed.
Print Assumptions C01_kernel_mosaic.

Theorem C01_kernel_dh_homozygous : forall p geno xoprob meta xc nmating nprogeny nself pc fc draws x,
  mate_k p geno xoprob meta xc nmating nprogeny nself pc fc draws = Some x -> is_dh p = true ->
  nth 0 (p_mat x) [] = nth 1 (p_mat x) [].
Proof. exact mate_k_dh. Qed.
Print Assumptions C01_kernel_dh_homozygous.

Theorem C01_kernel_metadata : forall p m, k_meta p m = m.
Proof. exact k_meta_id. Qed.
Print Assumptions C01_kernel_metadata.

(** SESSIONS — two consecutive mate() calls on one protocol object (whatever was replaced in between: matrix, probabilities, cross
    table, counts, selfing depth, draws): the counters run on exactly, and every family label of the second call lies above every
    family label of the first (the result of a call depends on the state at that call — [mate] is a function of it — and never
    reuses names or labels of an earlier call) *)
Theorem C01_session_counters : forall p g1 xo1 m1 xc1 nm1 np1 ns1 pc fc d1 x1 g2 xo2 m2 xc2 nm2 np2 ns2 d2 x2,
  mate p g1 xo1 m1 xc1 nm1 np1 ns1 pc fc d1 = Some x1 -> nonneg_draws d1 ->
  mate p g2 xo2 m2 xc2 nm2 np2 ns2 (p_pc x1) (p_fc x1) d2 = Some x2 -> nonneg_draws d2 ->
  p_pc x2 = pc + Z.of_nat (length (p_taxa x1)) + Z.of_nat (length (p_taxa x2)) /\
  p_fc x2 = fc + Z.of_nat (length xc1) + Z.of_nat (length xc2) /\
  (forall j1 j2, (j1 < length (p_taxa x1))%nat -> (j2 < length (p_taxa x2))%nat -> nth j1 (p_grp x1) 0 < nth j2 (p_grp x2) 0).
Proof. exact session_counters. Qed.
Print Assumptions C01_session_counters.

Example C01_session_hyps_satisfiable : nonneg_draws ex_draws /\ exists x1 x2,
  mate P3DH ex_geno ex_xoprob meta_none [[2; 0; 1]%nat] (inl 2%nat) (inl 2%nat) 1%nat 5 3 ex_draws = Some x1 /\
  mate P3DH ex_geno ex_xoprob meta_none [[2; 0; 1]%nat] (inl 2%nat) (inl 2%nat) 1%nat (p_pc x1) (p_fc x1) ex_draws = Some x2 /\
  p_pc x2 = 13 /\ p_fc x2 = 5.
Proof. split; [exact ex_nonneg | exact ex_session]. Qed.

(** the regenerated mate() runs on the example below as well *)
Example C01_kernel_hyps_satisfiable : nonneg_draws ex_draws /\
  exists x, mate_k P3DH ex_geno ex_xoprob meta_none [[2; 0; 1]%nat] (inl 2%nat) (inl 2%nat) 1%nat 5 3 ex_draws = Some x /\ length (p_taxa x) = 4%nat.
Proof. split; [exact ex_nonneg | exact ex_kernel_runs]. Qed.

(** non-vacuity: a 3-taxa, 5-marker population (alleles incl. -128/127, xoprob incl. exact 0 and 1/2), a three-way DH cross with
    two matings, two progeny each and one selfing generation: the hypotheses hold, four progeny are produced from seven
    uniform matrices, and crossovers fire *)
Example C01_hyps_satisfiable : nonneg_draws ex_draws /\
  exists x, mate P3DH ex_geno ex_xoprob meta_none [[2; 0; 1]%nat] (inl 2%nat) (inl 2%nat) 1%nat 5 3 ex_draws = Some x /\
  length (p_taxa x) = 4%nat /\ p_reqs x = [(2, 5); (2, 5); (2, 5); (2, 5); (2, 5); (2, 5); (4, 5)]%nat /\
  nth 0 (p_mat x) [] <> nth 0 ex_geno [].
Proof. split; [exact ex_nonneg | exact ex_runs]. Qed.
