From PV Require Import Lib.Common Model.C01_Meiosis Model.C01_Mating Proofs.C01_Meiosis.
Theorem C01_mat_dh_homozygous : forall geno sel xoprob r, nth 0 (fst (mat_dh geno sel xoprob r)) [] = nth 1 (fst (mat_dh geno sel xoprob r)) [].
Proof. exact mat_dh_homozygous. Qed.
Print Assumptions C01_mat_dh_homozygous.
