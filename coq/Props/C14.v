(** C14 — property theorems only: statement, [exact] of a lemma proved in Proofs/C14_Pheno.v, [Print Assumptions].
    Model: Model/C14_Pheno.v (mirrors G_E_Phenotyping.phenotype/set_h2/set_H2, TruePhenotyping.phenotype,
    MeanPhenotypicBreedingValue.estimate, TrueBreedingValue.estimate). *)
From Coq Require Import String Permutation Sorted Lqa.
From PV Require Import Lib.Common Model.C14_Pheno Proofs.C14_Pheno Model.C14_Session Proofs.C14_Session Gen.C14_Kernel Proofs.C14_Kernel Model.C14_Alias Proofs.C14_Alias Model.C14_Herit Proofs.C14_Herit.
Local Open Scope Q_scope.

(** A simulated trial returns exactly one record per taxon, environment and replicate, each carrying that taxon's
    labels and the value  truth + env effect + rep effect + error  — for every population size, every number of
    environments and per-environment replicate counts, every variance setting and every request stream the
    generator answers: the records whose (env, rep) labels are (1+ei, 1+ri) are exactly [n] records, the i-th one
    carrying taxon i's labels; cells outside the design have no record; the total is n * sum(nrep). *)
Theorem C14_one_record_per_cell : forall n t taxa grp gvm nenv nrep sde sdr sdx flat recs,
  phenotype n t taxa grp gvm nenv nrep sde sdr sdx flat = Some recs ->
  labels_ok n taxa grp -> length gvm = n ->
  let tx := labels_or_auto "Taxon"%string n taxa in
  let tg := grp_col n grp in
  let nreps := firstn nenv nrep in
  exists ds, parse_envs nreps n t flat = Some (ds, []) /\ map (fun ed : envdraw => length (snd ed)) ds = nreps /\
    length recs = (n * list_sum nreps)%nat /\
    (forall ei zenv rs ri zr ze, nth_error ds ei = Some (zenv, rs) -> nth_error rs ri = Some (zr, ze) ->
       let cell := filter (cell_is (1 + Z.of_nat ei) (1 + Z.of_nat ri)) recs in
       length cell = n /\
       forall i x g v er, nth_error tx i = Some x -> nth_error tg i = Some g -> nth_error gvm i = Some v -> nth_error ze i = Some er ->
         nth_error cell i = Some (x, g, (1 + Z.of_nat ei)%Z, (1 + Z.of_nat ri)%Z, add_effects v (scale sde zenv) (scale sdr zr) (scale sdx er))) /\
    (forall e r, (e < 1 \/ e > Z.of_nat (length ds))%Z -> filter (cell_is e r) recs = []) /\
    (forall ei zenv rs r, nth_error ds ei = Some (zenv, rs) -> (r < 1 \/ r > Z.of_nat (length rs))%Z ->
       filter (cell_is (1 + Z.of_nat ei) r) recs = []).
Proof. exact phenotype_cells. Qed.
Print Assumptions C14_one_record_per_cell.

(** The trial covers all [nenv] environments in force at the call, environment e with the e-th stored replicate count
    (full strength since the repair of C14-stale-nrep-after-nenv / C14-short-nrep-fewer-environments, commits e2384507 and
    c6ec4108: a call that returns has a replicate count for every environment) ... *)
Theorem C14_all_environments : forall n t taxa grp gvm nenv nrep sde sdr sdx flat recs,
  phenotype n t taxa grp gvm nenv nrep sde sdr sdx flat = Some recs ->
  exists ds, parse_envs (firstn nenv nrep) n t flat = Some (ds, []) /\ length ds = nenv /\
             map (fun ed : envdraw => length (snd ed)) ds = firstn nenv nrep.
Proof. exact phenotype_envs. Qed.
Print Assumptions C14_all_environments.

(** ... the stored replicate counts follow a reassignment of nenv: an integer nrep is re-broadcast, so is a uniform
    array; an array of the right length is kept; a non-uniform array of another length is kept (and refused by the call
    when it is too short) ... *)
Theorem C14_nrep_follows_nenv : forall nenv0 a nenv',
  (0 < nenv0)%nat -> (forall l, a = NArr l -> length l = nenv0) ->
  let attr := nrep_attr_of nenv0 a (Some nenv') in
  (forall k, a = NScalar k -> attr = repeat k nenv') /\
  (forall l, a = NArr l -> nenv0 = nenv' -> attr = l) /\
  (forall l h, a = NArr l -> uniform l = true -> hd_error l = Some h -> attr = repeat h nenv') /\
  (forall l, a = NArr l -> nenv0 <> nenv' -> uniform l = false -> attr = l).
Proof. exact nrep_attr_spec. Qed.
Print Assumptions C14_nrep_follows_nenv.

(** ... so a protocol built with an integer nrep = k and any nenv0, whose nenv is then set to nenv', simulates nenv'
    environments with k replicates each: n * nenv' * k records. *)
Theorem C14_reassigned_nenv_all_environments : forall n t taxa grp gvm nenv0 k nenv' sde sdr sdx flat recs,
  (0 < nenv0)%nat -> labels_ok n taxa grp -> length gvm = n ->
  phenotype n t taxa grp gvm nenv' (nrep_attr_of nenv0 (NScalar k) (Some nenv')) sde sdr sdx flat = Some recs ->
  exists ds, parse_envs (repeat k nenv') n t flat = Some (ds, []) /\ length ds = nenv' /\
             map (fun ed : envdraw => length (snd ed)) ds = repeat k nenv' /\ length recs = (n * (nenv' * k))%nat.
Proof. exact phenotype_after_set_nenv. Qed.
Print Assumptions C14_reassigned_nenv_all_environments.

(** repaired defect C14-stale-nrep-after-nenv: the former code ([old_nrep_attr_of]: the nenv setter left the stored array
    alone; [old_phenotype]: no length check) -- nrep broadcast for nenv = 1, then nenv := 3: environments 2 and 3 got no record *)
Theorem C14_old_all_environments_refuted :
  exists recs, old_phenotype 1 1 None None [[1]] 3 (old_nrep_attr_of 1 (NScalar 1) (Some 3%nat)) [0] [0] [0] [[0]; [0]; [0]] = Some recs /\
               length recs = 1%nat /\ filter (cell_is 2 1) recs = [] /\ filter (cell_is 3 1) recs = [].
Proof. exact old_phenotype_stale_nrep_refuted. Qed.
Print Assumptions C14_old_all_environments_refuted.

(** repaired defect C14-short-nrep-fewer-environments: the former code with nrep = [1; 2] stored for nenv = 2, then
    nenv := 3, returned a trial without any record of environment 3; the code in force refuses the call *)
Theorem C14_old_short_nrep_refuted :
  let flat := [[0]; [0]; [0];  [0]; [0]; [0]; [0]; [0]] in
  (exists recs, old_phenotype 1 1 None None [[1]] 3 (old_nrep_attr_of 2 (NArr [1; 2]%nat) (Some 3%nat)) [0] [0] [0] flat = Some recs /\
                length recs = 3%nat /\ forall r, filter (cell_is 3 r) recs = []) /\
  phenotype 1 1 None None [[1]] 3 (nrep_attr_of 2 (NArr [1; 2]%nat) (Some 3%nat)) [0] [0] [0] flat = None.
Proof. exact old_phenotype_short_nrep_refuted. Qed.
Print Assumptions C14_old_short_nrep_refuted.

(** With all noise variances zero every record equals (pointwise, as rationals) the true genotypic value of the taxon
    whose labels it carries — for all draws. *)
Theorem C14_zero_noise_is_truth : forall n t taxa grp gvm nenv nrep sde sdr sdx flat recs,
  phenotype n t taxa grp gvm nenv nrep sde sdr sdx flat = Some recs ->
  labels_ok n taxa grp -> length gvm = n -> Forall (fun v => length v = t) gvm ->
  zero_vec sde -> zero_vec sdr -> zero_vec sdx -> length sde = t -> length sdr = t -> length sdx = t ->
  forall rec, In rec recs ->
    exists i v, nth_error (labels_or_auto "Taxon"%string n taxa) i = Some (p_taxa rec) /\ nth_error (grp_col n grp) i = Some (p_grp rec) /\
                nth_error gvm i = Some v /\ qlist_eq (p_val rec) v.
Proof. exact phenotype_zero_noise. Qed.
Print Assumptions C14_zero_noise_is_truth.

(** TruePhenotyping: exactly one record per taxon, carrying its labels and exactly its true genotypic value. *)
Theorem C14_true_phenotype_is_truth : forall n taxa grp gvm, labels_ok n taxa grp -> length gvm = n ->
  length (true_rows n taxa grp gvm) = n /\
  forall i x g v, nth_error (labels_or_auto "Taxon"%string n taxa) i = Some x -> nth_error (grp_col n grp) i = Some g ->
                  nth_error gvm i = Some v -> nth_error (true_rows n taxa grp gvm) i = Some (x, g, v).
Proof. exact true_rows_spec. Qed.
Print Assumptions C14_true_phenotype_is_truth.

(** The generator is asked, per environment, for the environment effect, then per replicate for the replicate effect and
    the error matrix: any well-shaped structured draws, flattened in that order, are parsed back with nothing left. *)
Theorem C14_draws_consumed_in_order : forall n t ds tail, Forall (env_ok n t) ds ->
  parse_envs (map (fun ed : envdraw => length (snd ed)) ds) n t (flatten_envs ds ++ tail) = Some (ds, tail).
Proof. exact parse_flatten_envs. Qed.
Print Assumptions C14_draws_consumed_in_order.

(** Setting a heritability fixes the error variance so that genetic / (genetic + error) variance equals the target. *)
Theorem C14_h2_calibration : forall v h : Q, 0 < v -> 0 < h -> h <= 1 -> heritability v (h2_err h v) == h.
Proof. exact h2_calibration. Qed.
Print Assumptions C14_h2_calibration.

(** ... for the setter as coded (scalar or per-trait targets, variance of Z@u_a per trait): the stored error variance is
    non-negative and calibrated for every trait with genetic variance; targets in (0,1] are never rejected. *)
Theorem C14_set_h2_calibrated : forall t h gebv ve, set_h2 t h gebv = Some ve ->
  forall j hj vj, nth_error (h2_vec t h) j = Some hj -> nth_error (var_cols t gebv) j = Some vj ->
    exists e, nth_error ve j = Some e /\ 0 <= e /\ (0 < vj -> 0 < hj -> hj <= 1 -> heritability vj e == hj).
Proof. exact set_h2_calibrated. Qed.
Print Assumptions C14_set_h2_calibrated.

Theorem C14_set_h2_accepts : forall t h gebv, Forall (fun x => 0 < x /\ x <= 1) (h2_vec t h) -> exists ve, set_h2 t h gebv = Some ve.
Proof. exact set_h2_accepts. Qed.
Print Assumptions C14_set_h2_accepts.

(** Without a genotype matrix the estimate has one row per distinct (taxon[, group]) key, keys strictly sorted, and every
    row is the arithmetic mean (sum / count, per selected trait) over exactly the records carrying that key. *)
Theorem C14_mean_is_arithmetic_mean : forall ug hg tcols names rows tx tg tr m,
  estimate ug hg tcols names rows None = Some (tx, tg, tr, m) ->
  exists sel, resolve tcols names = Some sel /\
  let ks := keys_of ug rows in
  tx = map fst ks /\ tg = (if ug then Some (map (fun k => grp_code (snd k)) ks) else None) /\ tr = tcols /\ length m = length ks /\
  StronglySorted klt ks /\ NoDup ks /\
  (forall k, In k ks <-> exists r, In r rows /\ key_of ug r = k) /\
  forall i k, nth_error ks i = Some k ->
    let recs := members ug k rows in
    recs <> [] /\ (forall r, In r recs <-> In r rows /\ key_of ug r = k) /\
    nth_error m i = Some (Some (map (fun j => sumQ (map (fun r => nth j (t_val r) 0) recs) / inject_Z (Z.of_nat (length recs))) sel)).
Proof. exact estimate_groups_means. Qed.
Print Assumptions C14_mean_is_arithmetic_mean.

(** The estimate (labels exactly, values as rationals, raised errors) is invariant under every permutation of the
    phenotype rows — with or without group column, with or without genotype matrix. *)
Theorem C14_row_order_invariant : forall ug hg tcols names rows rows' gt,
  Permutation rows rows' -> est_eq (estimate ug hg tcols names rows gt) (estimate ug hg tcols names rows' gt).
Proof. exact estimate_perm. Qed.
Print Assumptions C14_row_order_invariant.

(** With a genotype matrix the output carries the genotype matrix' labels in its order; a taxon without records is
    reported missing (no guard needed) ... *)
Theorem C14_absent_is_missing : forall ug hg tcols names rows gtx gtg tx tg tr m,
  estimate ug hg tcols names rows (Some (Some gtx, gtg)) = Some (tx, tg, tr, m) ->
  forall i x, nth_error gtx i = Some x -> (forall r, In r rows -> t_taxa r <> x) -> nth_error m i = Some None.
Proof. exact estimate_absent_missing. Qed.
Print Assumptions C14_absent_is_missing.

(** ... a phenotyped taxon is never reported missing, whatever its group labels (full strength since the repair of
    C14-null-group-drops-records, commit 187dc882: null group labels are keys of their own) ... *)
Theorem C14_phenotyped_not_missing : forall ug hg tcols names rows gtx gtg tx tg tr m,
  estimate ug hg tcols names rows (Some (Some gtx, gtg)) = Some (tx, tg, tr, m) ->
  forall i x, nth_error gtx i = Some x -> (exists r, In r rows /\ t_taxa r = x) -> exists v, nth_error m i = Some (Some v).
Proof. exact estimate_phenotyped_not_missing. Qed.
Print Assumptions C14_phenotyped_not_missing.

(** ... and it gets the arithmetic mean over ALL of its records, with or without a group column and whatever the group
    labels (full strength since the repair of C14-join-ignores-group, commit 19866ce8: with a genotype matrix the records
    are grouped by the taxon label alone). *)
Theorem C14_aligned_to_genotype_order : forall ug hg tcols names rows gtx gtg tx tg tr m,
  estimate ug hg tcols names rows (Some (Some gtx, gtg)) = Some (tx, tg, tr, m) ->
  tx = gtx /\ tg = gtg /\ tr = tcols /\ length m = length gtx /\
  exists sel, resolve tcols names = Some sel /\
   forall i x, nth_error gtx i = Some x -> (exists r, In r rows /\ t_taxa r = x) ->
     let recs := filter (of_taxon x) rows in
     recs <> [] /\
     nth_error m i = Some (Some (map (fun j => sumQ (map (fun r => nth j (t_val r) 0) recs) / inject_Z (Z.of_nat (length recs))) sel)).
Proof. exact estimate_aligned_full. Qed.
Print Assumptions C14_aligned_to_genotype_order.

(** repaired defect C14-join-ignores-group: the former code ([old_estimate]: group by (taxa, taxa_grp), join by label,
    last group wins) gave a taxon recorded in two groups the mean of its last group only *)
Theorem C14_old_aligned_to_genotype_order_refuted :
  exists (rows : list trow) (gtx : list str) tx tg tr m,
    old_estimate true true ["y"%string] ["y"%string] rows (Some (Some gtx, None)) = Some (tx, tg, tr, m) /\
    exists i x, nth_error gtx i = Some x /\ (exists r, In r rows /\ t_taxa r = x) /\
      let recs := filter (of_taxon x) rows in
      exists got, nth_error m i = Some (Some [got]) /\
        ~ got == sumQ (map (fun r => nth 0 (t_val r) 0) recs) / inject_Z (Z.of_nat (length recs)).
Proof. exact old_estimate_join_refuted. Qed.
Print Assumptions C14_old_aligned_to_genotype_order_refuted.

(** repaired defect C14-null-group-drops-records: the formula used before commit 187dc882 (groupby dropna=True on the former
    group-by keys, modelled by [estimate_dropna]) reported a phenotyped taxon of an ungrouped population as missing *)
Theorem C14_phenotyped_not_missing_dropna_refuted :
  exists (rows : list trow) (gtx : list str) tx tg tr m,
    estimate_dropna true true ["y"%string] ["y"%string] rows (Some (Some gtx, None)) = Some (tx, tg, tr, m) /\
    exists i x, nth_error gtx i = Some x /\ (exists r, In r rows /\ t_taxa r = x) /\ nth_error m i = Some None.
Proof. exact estimate_dropna_refuted. Qed.
Print Assumptions C14_phenotyped_not_missing_dropna_refuted.

(** * Sessions: several calls on ONE protocol object, interleaved with in-place updates of the population (genotypes,
    taxa, groups), of the genomic model (u_a, beta), a different population, parameter changes through the setters
    (nenv, nrep, variances, set_h2/set_H2) and copies of the protocol — Model/C14_Session.v.

    The i-th operation of a session being a call, its observation is [pheno_obs] of the state reached by the first i
    operations (the population, model and parameters IN FORCE at that call) and of that call's draws — nothing else —
    and the call leaves the state unchanged. *)
Theorem C14_session_call_reads_current_state : forall (s0 : state) (ops : list op) (i : nat) (flat : list (list Q)) (e : estcfg),
  nth_error ops i = Some (OPheno flat e) ->
  let st := exec s0 (firstn i ops) in
  nth_error (run s0 ops) i = Some (pheno_obs st flat e) /\ exec s0 (firstn (S i) ops) = st.
Proof. exact session_call. Qed.
Print Assumptions C14_session_call_reads_current_state.

(** No dependence on history: whatever two histories (from whatever initial states) reach the same state, every
    continuation produces the same observations — they are those of a fresh session started in that state. *)
Theorem C14_session_history_independent : forall (s1 s2 : state) (h1 h2 r : list op),
  exec s1 h1 = exec s2 h2 ->
  skipn (length h1) (run s1 (h1 ++ r)) = run (exec s1 h1) r /\
  skipn (length h1) (run s1 (h1 ++ r)) = skipn (length h2) (run s2 (h2 ++ r)).
Proof. exact session_history_independent. Qed.
Print Assumptions C14_session_history_independent.

(** Copies and calls leave the state alone; a later assignment overwrites an earlier one (nothing of the earlier value
    survives); updating one population object in place is the same as handing over another object with these contents. *)
Theorem C14_session_updates_overwrite : forall (s : state),
  fst (step s OCopy) = s /\ (forall flat e, fst (step s (OPheno flat e)) = s) /\
  (forall u u', exec s [OSetU u; OSetU u'] = exec s [OSetU u']) /\
  (forall b b', exec s [OSetBeta b; OSetBeta b'] = exec s [OSetBeta b']) /\
  (forall n p g x y g0 x0 y0, exec s [OSetGeno g0; OSetTaxa x0; OSetGrp y0; ONewPop n p g x y] = exec s [ONewPop n p g x y]) /\
  (forall g x y, exec s [OSetGeno g; OSetTaxa x; OSetGrp y] = exec s [ONewPop (s_n s) (s_p s) g x y]).
Proof.
  intro s. split; [apply step_copy|]. split; [apply step_pheno_state|]. split; [apply exec_setu_overwrites|].
  split; [apply exec_setbeta_overwrites|]. split; [apply exec_newpop_overwrites | apply exec_inplace_is_newpop].
Qed.
Print Assumptions C14_session_updates_overwrite.

(** Every G_E_Phenotyping call of a session returns one record per taxon, environment and replicate of the design IN
    FORCE, each carrying the labels IN FORCE of its taxon and its true genotypic value IN FORCE plus the effects; all
    [nenv] environments in force are present. *)
Theorem C14_session_one_record_per_cell : forall (s0 : state) (ops : list op) (i : nat) flat e recs est nrep vars,
  nth_error ops i = Some (OPheno flat e) ->
  nth_error (run s0 ops) i = Some (OTable (Some recs) est nrep vars) ->
  let st := exec s0 (firstn i ops) in
  labels_ok (s_n st) (s_taxa st) (s_grp st) -> length (st_gvm st) = s_n st ->
  let n := s_n st in
  let tx := labels_or_auto "Taxon"%string n (s_taxa st) in
  let tg := grp_col n (s_grp st) in
  let nreps := firstn (s_nenv st) (s_nrep st) in
  exists ds, parse_envs nreps n (s_t st) flat = Some (ds, []) /\ length ds = s_nenv st /\
    map (fun ed : envdraw => length (snd ed)) ds = nreps /\
    length recs = (n * list_sum nreps)%nat /\
    (forall ei zenv rs ri zr ze, nth_error ds ei = Some (zenv, rs) -> nth_error rs ri = Some (zr, ze) ->
       let cell := filter (cell_is (1 + Z.of_nat ei) (1 + Z.of_nat ri)) recs in
       length cell = n /\
       forall k x g v er, nth_error tx k = Some x -> nth_error tg k = Some g -> nth_error (st_gvm st) k = Some v -> nth_error ze k = Some er ->
         nth_error cell k = Some (x, g, (1 + Z.of_nat ei)%Z, (1 + Z.of_nat ri)%Z,
                                  add_effects v (scale (s_sde st) zenv) (scale (s_sdr st) zr) (scale (s_sdx st) er))) /\
    (forall en r, (en < 1 \/ en > Z.of_nat (length ds))%Z -> filter (cell_is en r) recs = []).
Proof. exact session_cells. Qed.
Print Assumptions C14_session_one_record_per_cell.

(** With all noise variances IN FORCE zero, every record of the call equals the true genotypic value IN FORCE (current
    genotypes, current model coefficients) of the taxon whose labels IN FORCE it carries. *)
Theorem C14_session_zero_noise_is_current_truth : forall (s0 : state) (ops : list op) (i : nat) flat e recs est nrep vars,
  nth_error ops i = Some (OPheno flat e) ->
  nth_error (run s0 ops) i = Some (OTable (Some recs) est nrep vars) ->
  let st := exec s0 (firstn i ops) in
  labels_ok (s_n st) (s_taxa st) (s_grp st) -> length (st_gvm st) = s_n st -> Forall (fun v => length v = s_t st) (st_gvm st) ->
  zero_vec (s_sde st) -> zero_vec (s_sdr st) -> zero_vec (s_sdx st) ->
  length (s_sde st) = s_t st -> length (s_sdr st) = s_t st -> length (s_sdx st) = s_t st ->
  forall rec, In rec recs ->
    exists k v, nth_error (labels_or_auto "Taxon"%string (s_n st) (s_taxa st)) k = Some (p_taxa rec) /\
                nth_error (grp_col (s_n st) (s_grp st)) k = Some (p_grp rec) /\
                nth_error (st_gvm st) k = Some v /\ qlist_eq (p_val rec) v.
Proof. exact session_zero_noise. Qed.
Print Assumptions C14_session_zero_noise_is_current_truth.

(** Every TruePhenotyping call of a session: one record per taxon IN FORCE, with its labels and exactly its true value IN FORCE. *)
Theorem C14_session_true_phenotype_is_current_truth : forall (s0 : state) (ops : list op) (i : nat) flat e tab est,
  nth_error ops i = Some (OPheno flat e) ->
  nth_error (run s0 ops) i = Some (OTrue tab est) ->
  let st := exec s0 (firstn i ops) in
  labels_ok (s_n st) (s_taxa st) (s_grp st) -> length (st_gvm st) = s_n st ->
  length tab = s_n st /\
  forall k x g v, nth_error (labels_or_auto "Taxon"%string (s_n st) (s_taxa st)) k = Some x -> nth_error (grp_col (s_n st) (s_grp st)) k = Some g ->
                  nth_error (st_gvm st) k = Some v -> nth_error tab k = Some (x, g, v).
Proof. exact session_true_rows. Qed.
Print Assumptions C14_session_true_phenotype_is_current_truth.

(** The estimation step after a call, aligned to the population in force: the taxa order and groups are those IN FORCE,
    and every phenotyped taxon gets the arithmetic mean of all of its records of THIS call's table. *)
Theorem C14_session_estimate_aligned_to_current_taxa : forall (s0 : state) (ops : list op) (i : nat) flat ug tcols recs tx tg tr m nrep vars,
  nth_error ops i = Some (OPheno flat (ug, tcols, true)) ->
  nth_error (run s0 ops) i = Some (OTable (Some recs) (Some (tx, tg, tr, m)) nrep vars) ->
  let st := exec s0 (firstn i ops) in
  forall gtx, s_taxa st = Some gtx ->
  tx = gtx /\ tg = s_grp st /\ tr = tcols /\ length m = length gtx /\
  exists sel, resolve tcols (st_tnames st) = Some sel /\
   forall k x, nth_error gtx k = Some x -> (exists r, In r recs /\ p_taxa r = x) ->
     let rs := filter (of_taxon x) (map prow_trow recs) in
     rs <> [] /\
     nth_error m k = Some (Some (map (fun j => sumQ (map (fun r => nth j (t_val r) 0) rs) / inject_Z (Z.of_nat (length rs))) sel)).
Proof. exact session_est_aligned. Qed.
Print Assumptions C14_session_estimate_aligned_to_current_taxa.

(** A machine that keeps the genotypic values / labels of an earlier population object (the seeded stale-cache
    regression, modelled by [pheno_obs_cached]) is not history independent: after an in-place update of the population
    its call differs from the call on the state in force. *)
Theorem C14_session_cached_values_refuted :
  let s1 := exec demo_state [OSetGeno [[[1%Z]]; [[1%Z]]]; OSetTaxa (Some ["b"%string])] in
  pheno_obs_cached demo_state s1 [[0]; [0]; [0]] (false, ["y"%string], false) <> pheno_obs s1 [[0]; [0]; [0]] (false, ["y"%string], false).
Proof. exact cached_values_refuted. Qed.
Print Assumptions C14_session_cached_values_refuted.

(** * Kernel expressions regenerated from the CURRENT source (Gen/C14_Kernel.v is rewritten by harness/translate/c14_kernel.py
    on every run from G_E_Phenotyping.py, TruePhenotyping.py, MeanPhenotypicBreedingValue.py, TrueBreedingValue.py).

    They are the expressions the model is built from: the record formula and its association, the block labels env+1 / rep+1,
    the loop headers zip(range(nenv), nrep) / range(env_nrep), the refusal test len(nrep) < nenv, which variance parameter
    scales which effect, the label columns, the generated TaxonNN / TraitN names (prefix, index i+1, width ceil(log10 n)+1, both
    protocols), (1-h2)/h2*var for both heritability setters, the nenv setter's re-broadcast test and numpy.full arguments, the
    nrep and variance setters' numpy.full arguments, TruePhenotyping's group column test, TrueBreedingValue's argument, and for
    the estimate: the group-by key test, dropna / as_index / the aggregation function, both from_numpy argument lists and the
    hash join (key, destination row, source row). *)
Theorem C14_kernel_is_model :
  (forall m e r x, k_value m e r x = m + e + r + x) /\ (forall v e r x, add_effects v e r x = zip4 k_value v e r x) /\
  (forall nenv nrep, map snd (k_env_loop nenv nrep) = firstn nenv nrep) /\
  (forall nenv nrep, map fst (k_env_loop nenv nrep) = seq 0 (Nat.min nenv (length nrep))) /\
  (forall k, k_rep_loop k = seq 0 k) /\
  (forall ei : nat, k_env_label (Z.of_nat ei) = (1 + Z.of_nat ei)%Z) /\ (forall ri : nat, k_rep_label (Z.of_nat ri) = (1 + Z.of_nat ri)%Z) /\
  (forall (attr : list nat) (nenv : nat), k_nrep_short (Z.of_nat (length attr)) (Z.of_nat nenv) = (length attr <? nenv)%nat) /\
  (forall n t taxa grp gvm nenv attr sde sdr sdx flat,
     phenotype n t taxa grp gvm nenv attr sde sdr sdx flat =
     if k_nrep_short (Z.of_nat (length attr)) (Z.of_nat nenv) then None
     else match parse_envs (map snd (k_env_loop nenv attr)) n t flat with
          | Some (ds, []) => Some (env_blocks (labels_or_auto "Taxon"%string n taxa) (grp_col n grp) gvm sde sdr sdx (k_env_label 0) ds)
          | _ => None
          end) /\
  (forall A (a b c : A), k_effect_sd A a b c = (a, b, c)) /\ (forall tn, pheno_cols tn = (k_label_cols ++ tn)%list) /\
  (forall n, gen_labels k_ge_taxa_prefix k_ge_taxa_width k_ge_taxa_index n = labels_or_auto "Taxon"%string n None) /\
  (forall n, gen_labels k_ge_trait_prefix k_ge_trait_width k_ge_trait_index n = labels_or_auto "Trait"%string n None) /\
  (forall n, gen_labels k_tp_taxa_prefix k_tp_taxa_width k_tp_taxa_index n = labels_or_auto "Taxon"%string n None) /\
  (forall n, gen_labels k_tp_trait_prefix k_tp_trait_width k_tp_trait_index n = labels_or_auto "Trait"%string n None) /\
  (forall h v, k_h2_err h v = h2_err h v) /\ (forall h v, k_H2_err h v = h2_err h v) /\
  (forall (nenv' : nat) (attr : list nat), attr <> [] ->
     set_nenv nenv' attr = if k_nenv_rebroadcast true (Z.of_nat (length attr)) (Z.of_nat nenv') (uniform attr)
                           then k_nenv_full nenv' (hd 0%nat attr) else attr) /\
  (forall nenv k, k_nrep_full nenv k = nrep_vec nenv (NScalar k)) /\
  (forall (s : state) (k : nat), k <> 0%nat -> s_nrep (fst (step s (OSetNrep (NScalar k)))) = k_nrep_full (s_nenv s) k) /\
  (forall t, var_vec t VNone = k_var_env_none t /\ var_vec t VNone = k_var_rep_none t /\ var_vec t VNone = k_var_err_none t) /\
  (forall t q, var_vec t (VScalar q) = k_var_env_scalar t q /\ var_vec t (VScalar q) = k_var_rep_scalar t q /\ var_vec t (VScalar q) = k_var_err_scalar t q) /\
  (forall (grp : option (list Z)) tn,
     true_cols grp tn = ("taxa"%string :: (if k_tp_has_grp_col (is_none grp) then ["taxa_grp"%string] else []) ++ tn)%list) /\
  (forall A (ptobj gtobj : A), k_true_bv_arg A ptobj gtobj = gtobj) /\
  (k_dropna = false /\ k_as_index = false /\ k_agg = "mean"%string) /\
  (forall ug, k_by_grp ug true = ug /\ k_by_grp ug false = false) /\
  (forall ug hg tcols names rows,
     estimate ug hg tcols names rows None =
     match resolve tcols names with
     | None => None
     | Some sel =>
       if ug && negb hg then None else
       let a := agg (k_by_grp ug true) sel rows in
       Some (k_est_nogt_out _ _ _ _ (map (fun kv => fst (fst kv)) a) (if ug then Some (map (fun kv => grp_code (snd (fst kv))) a) else None) tcols
                            (map (fun kv => Some (snd kv)) a))
     end) /\
  (forall ug hg tcols names rows gtx gtg,
     estimate ug hg tcols names rows (Some (Some gtx, gtg)) =
     match resolve tcols names with
     | None => None
     | Some sel => if ug && negb hg then None else Some (k_est_gt_out _ _ _ _ gtx gtg tcols (join gtx (agg (k_by_grp ug false) sel rows)))
     end) /\
  (forall (i : nat) (x : str) (a : list (key * list Q)),
     lookup_last x a = match last_index x (map (fun kv => fst (fst kv)) a) with
                       | Some ix => nth_error (map snd a) (Z.to_nat (k_join_src (Z.of_nat i) (Z.of_nat ix)))
                       | None => None
                       end).
Proof.
  exact (conj k_value_model (conj add_effects_kernel (conj k_env_loop_counts (conj k_env_loop_indices (conj k_rep_loop_model
        (conj k_env_label_model (conj k_rep_label_model (conj k_nrep_short_model (conj phenotype_guard_kernel
        (conj k_effect_sd_model (conj k_label_cols_model (conj k_ge_taxa_labels (conj k_ge_trait_labels (conj k_tp_taxa_labels (conj k_tp_trait_labels
        (conj k_h2_err_model (conj k_H2_err_model (conj set_nenv_kernel (conj k_nrep_full_model (conj step_set_nrep_kernel
        (conj k_var_none_model (conj k_var_scalar_model (conj k_tp_cols_model (conj k_true_bv_arg_model
        (conj k_groupby_model (conj k_by_grp_model (conj estimate_nogt_kernel (conj estimate_gt_kernel lookup_last_index)))))))))))))))))))))))))))).
Qed.
Print Assumptions C14_kernel_is_model.

(** One record per cell, stated about the generated expressions themselves: the call is not refused exactly when the source's
    test [len(nrep) < nenv] is false; the environments visited are 0..nenv-1 with the replicate counts the source's loop header
    pairs with them; replicate ri is one of those the source's inner loop visits; the cell labelled by the source's label
    expressions (env+1, rep+1) holds exactly [n] records, the i-th carrying taxon i's labels and the source's record formula
    applied to its true value and the three effects, each scaled by the parameter the source builds its covariance from. *)
Theorem C14_kernel_one_record_per_cell : forall n t taxa grp gvm nenv nrep sde sdr sdx flat recs,
  phenotype n t taxa grp gvm nenv nrep sde sdr sdx flat = Some recs ->
  labels_ok n taxa grp -> length gvm = n ->
  let tx := labels_or_auto "Taxon"%string n taxa in
  let tg := grp_col n grp in
  let nreps := map snd (k_env_loop nenv nrep) in
  let sds := k_effect_sd _ sde sdr sdx in
  k_nrep_short (Z.of_nat (length nrep)) (Z.of_nat nenv) = false /\
  map fst (k_env_loop nenv nrep) = seq 0 nenv /\
  exists ds, parse_envs nreps n t flat = Some (ds, []) /\ map (fun ed : envdraw => length (snd ed)) ds = nreps /\
    length recs = (n * list_sum nreps)%nat /\
    (forall ei zenv rs ri zr ze, nth_error ds ei = Some (zenv, rs) -> nth_error rs ri = Some (zr, ze) ->
       In ri (k_rep_loop (length rs)) /\
       let cell := filter (cell_is (k_env_label (Z.of_nat ei)) (k_rep_label (Z.of_nat ri))) recs in
       length cell = n /\
       forall i x g v er, nth_error tx i = Some x -> nth_error tg i = Some g -> nth_error gvm i = Some v -> nth_error ze i = Some er ->
         nth_error cell i = Some (x, g, k_env_label (Z.of_nat ei), k_rep_label (Z.of_nat ri),
                                  zip4 k_value v (scale (fst (fst sds)) zenv) (scale (snd (fst sds)) zr) (scale (snd sds) er))).
Proof. exact kernel_cells. Qed.
Print Assumptions C14_kernel_one_record_per_cell.

(** The error variance the source's set_h2 / set_H2 expressions write calibrates genetic / (genetic + error) variance to the target. *)
Theorem C14_kernel_h2_calibration : forall v h : Q, 0 < v -> 0 < h -> h <= 1 ->
  heritability v (k_h2_err h v) == h /\ heritability v (k_H2_err h v) == h.
Proof. exact kernel_h2_calibration. Qed.
Print Assumptions C14_kernel_h2_calibration.

(** An integer nrep as the source's nrep setter stores it is re-broadcast to the new number of environments by the source's nenv
    setter (its test and its numpy.full arguments). *)
Theorem C14_kernel_nenv_rebroadcast : forall nenv0 k nenv' : nat, (0 < nenv0)%nat ->
  let attr := k_nrep_full nenv0 k in
  (if k_nenv_rebroadcast true (Z.of_nat (length attr)) (Z.of_nat nenv') (uniform attr) then k_nenv_full nenv' (hd 0%nat attr) else attr)
  = k_nrep_full nenv' k.
Proof. exact kernel_nenv_rebroadcast. Qed.
Print Assumptions C14_kernel_nenv_rebroadcast.

(** Alignment stated about the generated expressions: with a genotype matrix the output is the source's from_numpy argument list
    (genotype labels, genotype groups, trait columns, joined rows); the means are grouped by the taxon label alone (the source's
    key test is false when a genotype matrix is given); the output row the source writes for the i-th genotype label
    ([k_join_dst]) is the row of means the source reads ([k_join_src]) at the index its hash table holds for the source's key. *)
Theorem C14_kernel_estimate_alignment : forall ug hg tcols names rows gtx gtg o,
  estimate ug hg tcols names rows (Some (Some gtx, gtg)) = Some o ->
  exists sel, resolve tcols names = Some sel /\
    let a := agg (k_by_grp ug false) sel rows in
    exists m, o = k_est_gt_out _ _ _ _ gtx gtg tcols m /\ length m = length gtx /\
    map fst a = keys_of false rows /\
    forall i x, nth_error gtx i = Some x -> forall ix,
      nth_error m (Z.to_nat (k_join_dst (Z.of_nat i) ix)) =
      Some (match last_index (k_join_key i x) (map (fun kv => fst (fst kv)) a) with
            | Some j => nth_error (map snd a) (Z.to_nat (k_join_src (Z.of_nat i) (Z.of_nat j)))
            | None => None
            end).
Proof. exact kernel_estimate_alignment. Qed.
Print Assumptions C14_kernel_estimate_alignment.

(** Without a genotype matrix the group column is a key exactly when it was asked for, and the output is the source's
    from_numpy argument list (group keys' labels, their group codes, trait columns, the means). *)
Theorem C14_kernel_estimate_groups : forall ug hg tcols names rows o,
  estimate ug hg tcols names rows None = Some o ->
  exists sel, resolve tcols names = Some sel /\
    let a := agg (k_by_grp ug true) sel rows in
    map fst a = keys_of ug rows /\
    o = k_est_nogt_out _ _ _ _ (map (fun kv => fst (fst kv)) a) (if ug then Some (map (fun kv => grp_code (snd (fst kv))) a) else None) tcols
                       (map (fun kv => Some (snd kv)) a).
Proof. exact kernel_estimate_groups. Qed.
Print Assumptions C14_kernel_estimate_groups.

(** Scale covariance (the generators run every trial at scales 2^-40 .. 2^20): the source's record formula is homogeneous, the
    error variance the source's heritability setters write is proportional to the genetic variance ... *)
Theorem C14_kernel_scale_covariance : forall c m e r x h v : Q, ~ h == 0 ->
  k_value (c * m) (c * e) (c * r) (c * x) == c * k_value m e r x /\
  k_h2_err h (c * v) == c * k_h2_err h v /\ k_H2_err h (c * v) == c * k_H2_err h v.
Proof. exact kernel_scale_covariance. Qed.
Print Assumptions C14_kernel_scale_covariance.

(** ... so the value vector of every record of a trial whose true values and standard deviations are multiplied by [c] (same
    draws) is [c] times the value vector of the original record. *)
Theorem C14_record_scale_covariance : forall (c : Q) (v sde sdr sdx ze zr zx : list Q),
  qlist_eq (add_effects (map (Qmult c) v) (scale (map (Qmult c) sde) ze) (scale (map (Qmult c) sdr) zr) (scale (map (Qmult c) sdx) zx))
           (map (Qmult c) (add_effects v (scale sde ze) (scale sdr zr) (scale sdx zx))).
Proof. exact record_scale. Qed.
Print Assumptions C14_record_scale_covariance.

(** * Aliasing of the returned tables (Model/C14_Alias.v: a store of label arrays; a population holds the location of its taxa array).
    The table of G_E_Phenotyping.phenotype is built by numpy.concatenate: a write into its taxa column never reaches an array
    that existed before the call ... *)
Theorem C14_ge_table_write_isolated : forall (h : heap) (n : nat) (taxa : option nat) (k i : nat) (v : str) (l : nat), (l < length h)%nat ->
  let '(h', c) := ge_taxa_column h n taxa k in hread (hwrite h' c i v) l = hread h l.
Proof. exact ge_column_isolated. Qed.
Print Assumptions C14_ge_table_write_isolated.

(** ... and the same holds for TruePhenotyping.phenotype at full strength, for explicit and for generated labels (since the
    repair of C14-truepheno-table-shares-labels the taxa column is `numpy.array(gvmat.taxa)`, a copy; formerly this was only
    proved under the guard that the population has no taxa array) ... *)
Theorem C14_true_table_write_isolated : forall (h : heap) (n : nat) (taxa : option nat) (i : nat) (v : str) (l : nat), (l < length h)%nat ->
  let '(h', c) := tp_taxa_column h n taxa in hread (hwrite h' c i v) l = hread h l.
Proof. exact tp_column_isolated. Qed.
Print Assumptions C14_true_table_write_isolated.

(** ... while the column still carries the population's labels (the copy is faithful), resp. the generated ones ... *)
Theorem C14_true_table_column_content : forall (h : heap) (n : nat) (taxa : option nat),
  let '(h', c) := tp_taxa_column h n taxa in
  hread h' c = match taxa with Some l => hread h l | None => auto_labels "Taxon"%string n end.
Proof. exact tp_column_content. Qed.
Print Assumptions C14_true_table_column_content.

(** ... so the observable of the harness' aliasing probe (overwrite the table, compare the population with its snapshot) is
    constantly true ... *)
Theorem C14_true_table_probe_isolated : forall (n : nat) (taxa : option (list str)), tp_table_isolated n taxa = true.
Proof. exact tp_table_isolated_true. Qed.
Print Assumptions C14_true_table_probe_isolated.

(** ... and the statement holds of the column as the REGENERATED kernel expressions build it (Gen/C14_Kernel.v: [k_tp_taxa_copied]
    says whether the source copies the explicit labels; a source that hands over `gvmat.taxa` itself makes Proofs/C14_Kernel.v stop
    compiling). *)
Theorem C14_kernel_true_table_write_isolated : forall (h : heap) (n : nat) (taxa : option nat) (i : nat) (v : str) (l : nat), (l < length h)%nat ->
  let '(h', c) := k_tp_taxa_column h n taxa in hread (hwrite h' c i v) l = hread h l.
Proof. exact k_tp_column_isolated. Qed.
Print Assumptions C14_kernel_true_table_write_isolated.

(** Regression witness about the FORMER code ([old_tp_taxa_column]: explicit labels handed to pandas as they are; finding
    C14-truepheno-table-shares-labels, repaired): the column WAS the population's array, a write into the table changed the
    labels of the population, and the probe observable was false. *)
Theorem C14_old_true_table_write_isolated_refuted :
  (exists (h : heap) (l i : nat) (v : str), (l < length h)%nat /\
    let '(h', c) := old_tp_taxa_column h 2 (Some l) in hread (hwrite h' c i v) l <> hread h l) /\
  old_tp_table_isolated 2 (Some ["b"; "a"]%string) = false.
Proof. exact (conj old_tp_column_aliases old_tp_table_shared). Qed.
Print Assumptions C14_old_true_table_write_isolated_refuted.

(** non-vacuity of the kernel and aliasing statements: a non-empty store and a valid location; an integer nrep stored for two
    environments; a target in (0,1] with a positive variance *)
Example C14_kernel_hyps_satisfiable :
  (0 < length [["b"; "a"]%string])%nat /\ (0 < 2)%nat /\ k_nrep_full 2 3 <> [] /\ 0 < 1 # 2 /\ (1 # 2) <= 1 /\ ~ (1 # 2) == 0 /\
  (exists o, estimate false true ["y"%string] ["y"%string] [("a"%string, Some 1%Z, [1])] (Some (Some ["a"%string], None)) = Some o).
Proof. repeat split; try (cbn; lia); try discriminate; try (eexists; vm_compute; reflexivity). Qed.

(** non-vacuity of the session statements: a concrete 7-operation session (call, in-place genotype and label update,
    coefficient update, copy, nenv reassignment, call) and its observations *)
Example C14_session_hyps_satisfiable :
  run demo_state [OPheno [[0]; [0]; [0]] (false, ["y"%string], true); OSetGeno [[[1%Z]]; [[1%Z]]]; OSetTaxa (Some ["b"%string]);
                  OSetU [[2]]; OCopy; OSetNenv 2; OPheno [[0]; [0]; [0]; [0]; [0]; [0]] (false, ["y"%string], true)]
  = [OTable (Some [("a"%string, None, 1%Z, 1%Z, [3 # 2])]) (Some (["a"%string], None, ["y"%string], [Some [3 # 2]])) [1%nat] [[0]; [0]; [0]];
     ODone; ODone; ODone; ODone; ODone;
     OTable (Some [("b"%string, None, 1%Z, 1%Z, [5]); ("b"%string, None, 2%Z, 1%Z, [5])])
            (Some (["b"%string], None, ["y"%string], [Some [10 # 2]])) [1%nat; 1%nat] [[0]; [0]; [0]]].
Proof. exact demo_session. Qed.

(** non-vacuity: a 2-taxon, 1-trait, 2-environment trial (1 and 2 replicates) with zero noise produces records; the
    label/shape hypotheses hold; an estimate against a genotype matrix of a taxon recorded in two groups exists; an
    integer nrep re-broadcast after a reassignment of nenv yields a trial; (0,1] targets exist *)
Example C14_hyps_satisfiable :
  let gvm := [[1]; [2 # 1]] in
  let flat := [[0]; [0]; [0; 0];   [0]; [0]; [0; 0]; [0]; [0; 0]] in
  (exists recs, phenotype 2 1 (Some ["b"; "a"]%string) None gvm 2 (nrep_vec 2 (NArr [1; 2]%nat)) [0] [0] [0] flat = Some recs /\ length recs = 6%nat)
  /\ labels_ok 2 (Some ["b"; "a"]%string) None /\ length gvm = 2%nat /\ Forall (fun v => length v = 1%nat) gvm /\ zero_vec [0]
  /\ Forall (env_ok 2 1) [([0], [([0], [[0]; [0]])])]
  /\ (exists o, estimate true true ["y"%string] ["y"%string] [("a"%string, Some 1%Z, [1]); ("a"%string, Some 2%Z, [3])] (Some (Some ["a"%string], None)) = Some o)
  /\ (exists recs, phenotype 1 1 None None [[1]] 2 (nrep_attr_of 1 (NScalar 1) (Some 2%nat)) [0] [0] [0] [[0]; [0]; [0];  [0]; [0]; [0]] = Some recs /\ length recs = 2%nat)
  /\ Forall (fun x => 0 < x /\ x <= 1) (h2_vec 2 (HScalar (1 # 2))).
Proof.
  cbv zeta. split; [eexists; split; [vm_compute; reflexivity | reflexivity]|].
  split; [split; intros l H; inversion H; reflexivity|]. split; [reflexivity|].
  split; [repeat constructor|]. split; [repeat constructor; reflexivity|].
  split; [repeat constructor|].
  split; [eexists; vm_compute; reflexivity|].
  split; [eexists; split; [vm_compute; reflexivity | reflexivity]|]. repeat constructor; cbn; lra.
Qed.

(** * Heritability over the family of genomic models (Model/C14_Herit.v)
    The protocols accept every GenomicModel: DenseAdditiveLinearGenomicModel (and rrBLUPModel0, which inherits its values),
    and DenseAdditiveDominanceLinearGenomicModel, whose genotypic values run over the design [A | D] (D = heterozygosity
    indicators) with the coefficients [u_a ; u_d] while its breeding values stay A @ u_a.  set_h2 reads var_A, set_H2 reads var_G. *)

(** Whichever variance a setter reads and whatever the model class: the error variance written is (1-h)/h times THAT variance,
    trait by trait, non-negative, and calibrates it to the target. *)
Theorem C14_heritability_over_model_family : forall broad t h ploidy dos g ve, set_her broad t h ploidy dos g = Some ve ->
  forall j hj vj, nth_error (h2_vec t h) j = Some hj -> nth_error (gm_var broad t ploidy dos g) j = Some vj ->
    exists e, nth_error ve j = Some e /\ 0 <= e /\ e == (1 - hj) / hj * vj /\ (0 < vj -> 0 < hj -> hj <= 1 -> heritability vj e == hj).
Proof. exact set_her_calibrated. Qed.
Print Assumptions C14_heritability_over_model_family.

(** Broad-sense calibration with the dominance design: after set_H2 on an additive + dominance model, var_G / (var_G + var_err) = H2
    where var_G is the population variance of [A | D] @ [u_a ; u_d] -- for every ploidy, population and pair of effect matrices. *)
Theorem C14_broad_sense_calibration_dominance : forall t h ploidy dos ua ud ve, ge_set_H2 t h ploidy dos (GAddDom ua ud) = Some ve ->
  forall j hj vj, nth_error (h2_vec t h) j = Some hj ->
    nth_error (var_cols t (gebv_raw t (map2 (@app Z) dos (map (map (het ploidy)) dos)) (ua ++ ud))) j = Some vj ->
    exists e, nth_error ve j = Some e /\ 0 <= e /\ e == (1 - hj) / hj * vj /\ (0 < vj -> 0 < hj -> hj <= 1 -> vj / (vj + e) == hj).
Proof. exact ge_set_H2_dominance_calibrated. Qed.
Print Assumptions C14_broad_sense_calibration_dominance.

(** Narrow-sense calibration for every model class: after set_h2, var_A / (var_A + var_err) = h2 with var_A the population variance
    of the breeding values A @ u_a (the dominance effects play no part). *)
Theorem C14_narrow_sense_calibration : forall t h ploidy dos g ve, ge_set_h2 t h ploidy dos g = Some ve ->
  forall j hj vj, nth_error (h2_vec t h) j = Some hj -> nth_error (var_cols t (gebv_raw t dos (gm_u_a g))) j = Some vj ->
    exists e, nth_error ve j = Some e /\ 0 <= e /\ e == (1 - hj) / hj * vj /\ (0 < vj -> 0 < hj -> hj <= 1 -> vj / (vj + e) == hj).
Proof. exact ge_set_h2_narrow_calibrated. Qed.
Print Assumptions C14_narrow_sense_calibration.

Theorem C14_heritability_setters_accept : forall broad t h ploidy dos g,
  Forall (fun x => 0 < x /\ x <= 1) (h2_vec t h) -> exists ve, set_her broad t h ploidy dos g = Some ve.
Proof. exact set_her_accepts. Qed.
Print Assumptions C14_heritability_setters_accept.

(** For the additive classes both setters write the same error variance. *)
Theorem C14_additive_broad_is_narrow : forall t h ploidy dos u, set_her true t h ploidy dos (GAdd u) = set_her false t h ploidy dos (GAdd u).
Proof. exact additive_broad_is_narrow. Qed.
Print Assumptions C14_additive_broad_is_narrow.

(** A set_H2 that derives the error variance from var_A (the seeded regression) is refuted by a dominance model on a population
    with a heterozygous taxon: genetic variance 8/9, error variance 2/3, ratio 4/7 instead of the target 1/2; the modelled
    set_H2 meets the target on the same input. *)
Theorem C14_H2_from_var_A_refuted :
  let dos := [[1%Z]; [0%Z]; [2%Z]] in let g := GAddDom [[1]] [[1]] in let h := HScalar (1 # 2) in
  exists ve ve' vG, bad_set_H2 1 h 2 dos g = Some [ve] /\ ge_set_H2 1 h 2 dos g = Some [ve'] /\ gm_var true 1 2 dos g = [vG] /\
    0 < vG /\ ~ heritability vG ve == 1 # 2 /\ heritability vG ve' == 1 # 2.
Proof. exact bad_set_H2_refuted. Qed.
Print Assumptions C14_H2_from_var_A_refuted.

(** The source's setters read the variances the model says (regenerated on every run: var_A = self.gpmod.var_A(pgmat) in set_h2,
    var_G = self.gpmod.var_G(pgmat) in set_H2), and the calibration statements hold for the generated constants and formulas. *)
Theorem C14_kernel_heritability_sources : k_h2_broad = false /\ k_H2_broad = true.
Proof. exact (conj k_h2_broad_model k_H2_broad_model). Qed.
Print Assumptions C14_kernel_heritability_sources.

Theorem C14_kernel_broad_sense_calibration_dominance : forall t h ploidy dos ua ud ve, set_her k_H2_broad t h ploidy dos (GAddDom ua ud) = Some ve ->
  forall j hj vj, nth_error (h2_vec t h) j = Some hj ->
    nth_error (var_cols t (gebv_raw t (map2 (@app Z) dos (map (map (het ploidy)) dos)) (ua ++ ud))) j = Some vj ->
    exists e, nth_error ve j = Some e /\ e == k_H2_err hj vj /\ (0 < vj -> 0 < hj -> hj <= 1 -> vj / (vj + e) == hj).
Proof. exact kernel_set_H2_dominance_calibrated. Qed.
Print Assumptions C14_kernel_broad_sense_calibration_dominance.

Theorem C14_kernel_narrow_sense_calibration : forall t h ploidy dos g ve, set_her k_h2_broad t h ploidy dos g = Some ve ->
  forall j hj vj, nth_error (h2_vec t h) j = Some hj -> nth_error (var_cols t (gebv_raw t dos (gm_u_a g))) j = Some vj ->
    exists e, nth_error ve j = Some e /\ e == k_h2_err hj vj /\ (0 < vj -> 0 < hj -> hj <= 1 -> vj / (vj + e) == hj).
Proof. exact kernel_set_h2_narrow_calibrated. Qed.
Print Assumptions C14_kernel_narrow_sense_calibration.

(** non-vacuity: a 3-taxon diploid population with a heterozygous taxon, one locus, two traits, an additive + dominance model:
    set_H2 with per-trait targets (1/2, 1) is accepted, both genetic variances are positive, and they differ from the additive ones *)
Example C14_herit_hyps_satisfiable :
  let dos := [[1%Z]; [0%Z]; [2%Z]] in let g := GAddDom [[1; 2]] [[1; -1]] in let h := HArr [1 # 2; 1] in
  (exists ve, ge_set_H2 2 h 2 dos g = Some ve) /\ (exists ve, ge_set_h2 2 h 2 dos g = Some ve)
  /\ (exists v0 v1, gm_var true 2 2 dos g = [v0; v1] /\ 0 < v0 /\ 0 < v1)
  /\ (exists a0 a1 v0 v1, gm_var false 2 2 dos g = [a0; a1] /\ gm_var true 2 2 dos g = [v0; v1] /\ ~ a0 == v0 /\ ~ a1 == v1)
  /\ Forall (fun x => 0 < x /\ x <= 1) (h2_vec 2 h).
Proof.
  cbv zeta. split; [eexists; vm_compute; reflexivity|]. split; [eexists; vm_compute; reflexivity|].
  split; [eexists; eexists; split; [vm_compute; reflexivity | split; reflexivity]|].
  split; [do 4 eexists; split; [vm_compute; reflexivity | split; [vm_compute; reflexivity | split; intro E; vm_compute in E; discriminate E]]|].
  repeat constructor; cbn; lra.
Qed.
