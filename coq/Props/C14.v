(** C14 — property theorems (placeholder while the correspondence is being built) *)
From PV Require Import Lib.Common Model.C14_Pheno.
