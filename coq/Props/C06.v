(** C06 — property theorems only: statement, [exact] of a lemma proved in Proofs/C06_Opt.v, [Print Assumptions].
    Model: Model/C06_Opt.v.  [ev] is the problem's evaluation function (obj, ineqcv, eqcv) and is universally
    quantified everywhere; [cand] is the candidate set (decn_space), [k] the subset size (ndecn). *)
From PV Require Import Lib.Common Model.C06_Opt Proofs.C06_Opt.
Local Open Scope Z_scope.

(** *** SortingSubsetOptimizationAlgorithm *)
(** the returned decision consists of k distinct members of the candidate set *)
Theorem C06_sorting_feasible : forall (ev : list Z -> evalT) (cand : list Z) (k : nat),
  NoDup cand -> (k <= length cand)%nat -> feasible cand k (fst (sort_minimize ev cand k)).
Proof. exact sort_select_feasible. Qed.
Print Assumptions C06_sorting_feasible.

(** the reported values are the evaluation of the returned decision *)
Theorem C06_sorting_truthful : forall (ev : list Z -> evalT) (cand : list Z) (k : nat),
  snd (sort_minimize ev cand k) = ev (fst (sort_minimize ev cand k)).
Proof. exact sort_minimize_truthful. Qed.
Print Assumptions C06_sorting_truthful.

(** for a separable single objective (a sum of per-member terms, weights included) the result attains the
    brute-force optimum: no k-subset of the candidates has a smaller objective *)
Theorem C06_sorting_optimal : forall (ev : list Z -> evalT) (w : Z -> Z) (cand : list Z) (k : nat),
  (forall x, e_obj (ev x) = [sumZ (map w x)]) ->
  forall y, feasible cand k y -> score (snd (sort_minimize ev cand k)) <= score (ev y).
Proof. exact sorting_optimal. Qed.
Print Assumptions C06_sorting_optimal.

(** *** SteepestDescentSubsetHillClimber (start drawn without replacement: distinct positions [ix]) and
    SortingSteepestDescentSubsetHillClimber.  [climber_result cand k start (s', w', g')] says: s' is a
    feasible k-subset; the reported evaluation g' is ev s'; s' ++ w' is a rearrangement of the candidate set
    (the exchange pool is exactly the complement); (cv, score) did not get worse than at the start; and no
    exchange of one position of s' for a candidate outside s' lowers (cv, score) lexicographically. *)
Theorem C06_climber_result : forall (ev : list Z -> evalT) (fuel : nat) (cand : list Z) (ix : list nat) (k : nat) res,
  NoDup cand -> NoDup ix -> (forall i, In i ix -> (i < length cand)%nat) -> length ix = k ->
  sd_minimize ev fuel cand ix = Some res ->
  climber_result ev cand k (sample cand ix) res.
Proof. exact sd_minimize_spec. Qed.
Print Assumptions C06_climber_result.

Theorem C06_sorting_climber_result : forall (ev : list Z -> evalT) (fuel : nat) (cand : list Z) (k : nat) res,
  NoDup cand -> (k <= length cand)%nat ->
  ssd_minimize ev fuel cand k = Some res ->
  climber_result ev cand k (sort_select ev cand k) res.
Proof. exact ssd_minimize_spec. Qed.
Print Assumptions C06_sorting_climber_result.

(** the loops terminate: (cv, score) strictly decreases, so n^k rounds always suffice, and more fuel never
    changes the answer — running out of fuel is not a way to "stop" *)
Theorem C06_climber_terminates : forall (ev : list Z -> evalT) (fuel : nat) (cand : list Z) (ix : list nat) (k : nat),
  NoDup cand -> NoDup ix -> (forall i, In i ix -> (i < length cand)%nat) -> length ix = k ->
  (length cand ^ k <= fuel)%nat -> sd_minimize ev fuel cand ix <> None.
Proof. exact sd_minimize_total. Qed.
Print Assumptions C06_climber_terminates.

Theorem C06_sorting_climber_terminates : forall (ev : list Z -> evalT) (fuel : nat) (cand : list Z) (k : nat),
  NoDup cand -> (k <= length cand)%nat -> (length cand ^ k <= fuel)%nat -> ssd_minimize ev fuel cand k <> None.
Proof. exact ssd_minimize_total. Qed.
Print Assumptions C06_sorting_climber_terminates.

Theorem C06_climber_fuel_irrelevant : forall (ev : list Z -> evalT) (fuel : nat) s w g res,
  climb ev fuel s w g = Some res -> forall fuel', (fuel <= fuel')%nat -> climb ev fuel' s w g = Some res.
Proof. exact climb_mono. Qed.
Print Assumptions C06_climber_fuel_irrelevant.

(** the loop itself, from any state whose stored evaluation is truthful: the multiset solution + pool is
    constant, sizes are kept, the stored evaluation stays truthful, and on exit no single exchange improves *)
Theorem C06_climber_invariant : forall (ev : list Z -> evalT) (fuel : nat) s w g s' w' g',
  climb ev fuel s w g = Some (s', w', g') -> g = ev s ->
  g' = ev s' /\ Permutation.Permutation (s' ++ w') (s ++ w) /\ length s' = length s /\ length w' = length w /\
  lexle (keyT g') (keyT g) /\
  forall i j, (i < length s')%nat -> (j < length w')%nat -> lexle (keyT (ev s')) (keyT (ev (set_nth i s' (nth j w' 0)))).
Proof. exact climb_spec. Qed.
Print Assumptions C06_climber_invariant.

(** *** pymoo_addon variation operators (the theorem part for every pymoo-driven optimiser) *)
(** SubsetRandomSampling with replace=False: distinct in-range positions give feasible chromosomes *)
Theorem C06_sampling_feasible : forall (cand : list Z) (ixs : list (list nat)) (k : nat), NoDup cand ->
  Forall (fun ix => NoDup ix /\ (forall i, In i ix -> (i < length cand)%nat) /\ length ix = k) ixs ->
  Forall (feasible cand k) (subset_sampling cand ixs).
Proof. exact subset_sampling_feasible. Qed.
Print Assumptions C06_sampling_feasible.

(** ReducedExchangeCrossover: both children of feasible parents are feasible, for every exchange draw [mex]
    (any length, any values, repetitions allowed) *)
Theorem C06_crossover_feasible : forall (cand : list Z) (k : nat) (a b : list Z) (mex : list nat),
  feasible cand k a -> feasible cand k b ->
  feasible cand k (fst (rex_cross a b mex)) /\ feasible cand k (snd (rex_cross a b mex)).
Proof. exact rex_cross_feasible. Qed.
Print Assumptions C06_crossover_feasible.

(** ReducedExchangeMutation: feasible in, feasible out for all draws — in fact, as coded, an individual
    taken from the set space is returned unchanged (the first mask is inverted; reported as a remark) *)
Theorem C06_mutation_feasible : forall (setspace : list Z) (k : nat) (x : list Z) (u : list Q) (p : Q) (chosen : list nat),
  feasible setspace k x ->
  feasible setspace k (rex_mut setspace x u p chosen) /\ rex_mut setspace x u p chosen = x.
Proof. intros. split; [now apply rex_mut_feasible | apply rex_mut_identity; apply H]. Qed.
Print Assumptions C06_mutation_feasible.

(** Integer{SimulatedBinaryCrossover,PolynomialMutation}: rounding a value that lies inside integer bounds
    (pymoo repairs its real-coded operators to the bounds) gives an integer inside the bounds *)
Theorem C06_round_in_bounds : forall (lo hi : Z) (qs : list Q),
  Forall (fun q => (inject_Z lo <= q)%Q /\ (q <= inject_Z hi)%Q) qs -> Forall (fun z => lo <= z <= hi) (int_round qs).
Proof. exact int_round_bounds. Qed.
Print Assumptions C06_round_in_bounds.

(** *** MutatorA / MutatorB hill-climb step of NSGA2MutatorA/BSubsetGeneticAlgorithm (known finding
    C06-mutatorAB-duplicate-members): as coded it writes every drawn allele into every trial chromosome, and
    does NOT preserve feasibility — witness: 2 of 3 candidates selected, valid tiled draws *)
Theorem C06_mutatorAB_feasible_refuted : exists (setspace x : list Z) (lociix alleleix : list nat),
  feasible setspace 2 x /\ NoDup setspace /\
  tiled_ok (length x) (length x) lociix = true /\ tiled_ok (length (complement setspace x)) (length x) alleleix = true /\
  ~ NoDup (mutAB_hillclimb setspace x lociix alleleix).
Proof. exact mutAB_refuted. Qed.
Print Assumptions C06_mutatorAB_feasible_refuted.

(** ... it does under the guard that excludes the failing inputs: pairwise distinct allele draws, i.e. no more
    hill-climb steps than unused candidates (for the default nhcstep = ndecn: 2*ndecn <= len(decn_space)) *)
Theorem C06_mutatorAB_feasible_partial : forall (setspace x : list Z) (k : nat) (lociix alleleix : list nat),
  NoDup setspace -> feasible setspace k x ->
  NoDup alleleix -> (forall j, In j alleleix -> (j < length (complement setspace x))%nat) ->
  feasible setspace k (mutAB_hillclimb setspace x lociix alleleix).
Proof. exact mutAB_partial. Qed.
Print Assumptions C06_mutatorAB_feasible_partial.

(** *** the result monitor evaluated in the correspondence shards is sound *)
Theorem C06_monitor_sound : forall (cand : list Z) (k : nat) (X : list (list Z)) (F : list (list Q)),
  forallb (feasible_b cand k) X = true -> nondominated_b F = true ->
  Forall (feasible cand k) X /\ forall f1 f2, In f1 F -> In f2 F -> pareto_dom f2 f1 = false.
Proof.
  intros cand k X F HX HF. split; [|now apply nondominated_b_sound].
  rewrite forallb_forall in HX. apply Forall_forall. intros x Hx. now apply feasible_b_spec, HX.
Qed.
Print Assumptions C06_monitor_sound.

(** non-vacuity: a concrete problem (objective = sum of the members, no constraints) meets the hypotheses of the
    theorems above, and the modelled optimisers return the expected answers on it *)
Example C06_hyps_satisfiable :
  let ev := fun x : list Z => ([sumZ x], @nil Z, @nil Z) in
  NoDup [5; 1; 4; 2] /\ NoDup [0%nat; 2%nat] /\ feasible [5; 1; 4; 2] 2 [5; 4] /\ feasible [5; 1; 4; 2] 2 [1; 2]
  /\ (forall x, e_obj (ev x) = [sumZ (map (fun e => e) x)])
  /\ fst (sort_minimize ev [5; 1; 4; 2] 2) = [1; 2]
  /\ sd_minimize ev 16 [5; 1; 4; 2] [0%nat; 2%nat] = Some ([1; 2], [5; 4], ([3], [], []))
  /\ rex_cross [5; 4] [1; 2] [1%nat] = ([5; 2], [1; 4])
  /\ Forall (fun q => (inject_Z 0 <= q)%Q /\ (q <= inject_Z 3)%Q) [(5 # 2)%Q; (1 # 2)%Q]
  /\ mutAB_hillclimb [5; 1; 4; 2] [5; 4] [1%nat; 0%nat] [0%nat; 1%nat] = [2; 1]
  /\ (forall i, In i [0%nat; 2%nat] -> (i < length [5; 1; 4; 2]%Z)%nat)
  /\ (forall j, In j [0%nat; 1%nat] -> (j < length (complement [5; 1; 4; 2]%Z [5; 4]%Z))%nat)
  /\ (length [5; 1; 4; 2]%Z ^ 2 <= 16)%nat.
Proof.
  cbn zeta.
  assert (N4 : NoDup [5; 1; 4; 2]) by (repeat (constructor; [cbn; intuition lia|]); constructor).
  split; [exact N4|].
  split; [repeat (constructor; [cbn; intuition lia|]); constructor|].
  split; [apply feasible_b_spec; reflexivity|].
  split; [apply feasible_b_spec; reflexivity|].
  split; [intros x; now rewrite map_id|].
  split; [reflexivity|]. split; [reflexivity|]. split; [reflexivity|].
  split; [repeat constructor; cbn; discriminate|]. split; [reflexivity|].
  split; [intros i Hi; cbn in *; intuition lia|]. split; [intros j Hj; cbn in *; intuition lia|]. cbn; lia.
Qed.
