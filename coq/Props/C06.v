(** C06 — property theorems only: statement, [exact] of a lemma proved in Proofs/C06_Opt.v, [Print Assumptions].
    Model: Model/C06_Opt.v.  [ev] is the problem's evaluation function (obj, ineqcv, eqcv) and is universally
    quantified everywhere; [cand] is the candidate set (decn_space), [k] the subset size (ndecn). *)
From PV Require Import Lib.Common Model.C06_Opt Proofs.C06_Opt Gen.C06_Kernel Model.C06_Machine Proofs.C06_Kernel Proofs.C06_Scale Proofs.C06_Pos.
Local Open Scope Z_scope.

(** *** SortingSubsetOptimizationAlgorithm *)
(** the returned decision consists of k distinct members of the candidate set *)
Theorem C06_sorting_feasible : forall (ev : list Z -> evalT) (cand : list Z) (k : nat),
  NoDup cand -> (k <= length cand)%nat -> feasible cand k (fst (sort_minimize ev cand k)).
Proof. exact sort_select_feasible. Qed.
Print Assumptions C06_sorting_feasible.

(** the reported values are the evaluation of the returned decision *)
Theorem C06_sorting_truthful : forall (ev : list Z -> evalT) (cand : list Z) (k : nat),
  snd (sort_minimize ev cand k) = ev (fst (sort_minimize ev cand k)).
Proof. exact sort_minimize_truthful. Qed.
Print Assumptions C06_sorting_truthful.

(** for a separable single objective (a sum of per-member terms, weights included) the result attains the
    brute-force optimum: no k-subset of the candidates has a smaller objective *)
Theorem C06_sorting_optimal : forall (ev : list Z -> evalT) (w : Z -> Z) (cand : list Z) (k : nat),
  (forall x, e_obj (ev x) = [sumZ (map w x)]) ->
  forall y, feasible cand k y -> score (snd (sort_minimize ev cand k)) <= score (ev y).
Proof. exact sorting_optimal. Qed.
Print Assumptions C06_sorting_optimal.

(** *** SteepestDescentSubsetHillClimber (start drawn without replacement: distinct positions [ix]) and
    SortingSteepestDescentSubsetHillClimber.  [climber_result cand k start (s', w', g')] says: s' is a
    feasible k-subset; the reported evaluation g' is ev s'; s' ++ w' is a rearrangement of the candidate set
    (the exchange pool is exactly the complement); (cv, score) did not get worse than at the start; and no
    exchange of one position of s' for a candidate outside s' lowers (cv, score) lexicographically. *)
Theorem C06_climber_result : forall (ev : list Z -> evalT) (fuel : nat) (cand : list Z) (ix : list nat) (k : nat) res,
  NoDup cand -> NoDup ix -> (forall i, In i ix -> (i < length cand)%nat) -> length ix = k ->
  sd_minimize ev fuel cand ix = Some res ->
  climber_result ev cand k (sample cand ix) res.
Proof. exact sd_minimize_spec. Qed.
Print Assumptions C06_climber_result.

Theorem C06_sorting_climber_result : forall (ev : list Z -> evalT) (fuel : nat) (cand : list Z) (k : nat) res,
  NoDup cand -> (k <= length cand)%nat ->
  ssd_minimize ev fuel cand k = Some res ->
  climber_result ev cand k (sort_select ev cand k) res.
Proof. exact ssd_minimize_spec. Qed.
Print Assumptions C06_sorting_climber_result.

(** the loops terminate: (cv, score) strictly decreases, so n^k rounds always suffice, and more fuel never
    changes the answer — running out of fuel is not a way to "stop" *)
Theorem C06_climber_terminates : forall (ev : list Z -> evalT) (fuel : nat) (cand : list Z) (ix : list nat) (k : nat),
  NoDup cand -> NoDup ix -> (forall i, In i ix -> (i < length cand)%nat) -> length ix = k ->
  (length cand ^ k <= fuel)%nat -> sd_minimize ev fuel cand ix <> None.
Proof. exact sd_minimize_total. Qed.
Print Assumptions C06_climber_terminates.

Theorem C06_sorting_climber_terminates : forall (ev : list Z -> evalT) (fuel : nat) (cand : list Z) (k : nat),
  NoDup cand -> (k <= length cand)%nat -> (length cand ^ k <= fuel)%nat -> ssd_minimize ev fuel cand k <> None.
Proof. exact ssd_minimize_total. Qed.
Print Assumptions C06_sorting_climber_terminates.

Theorem C06_climber_fuel_irrelevant : forall (ev : list Z -> evalT) (fuel : nat) s w g res,
  climb ev fuel s w g = Some res -> forall fuel', (fuel <= fuel')%nat -> climb ev fuel' s w g = Some res.
Proof. exact climb_mono. Qed.
Print Assumptions C06_climber_fuel_irrelevant.

(** the loop itself, from any state whose stored evaluation is truthful: the multiset solution + pool is
    constant, sizes are kept, the stored evaluation stays truthful, and on exit no single exchange improves *)
Theorem C06_climber_invariant : forall (ev : list Z -> evalT) (fuel : nat) s w g s' w' g',
  climb ev fuel s w g = Some (s', w', g') -> g = ev s ->
  g' = ev s' /\ Permutation.Permutation (s' ++ w') (s ++ w) /\ length s' = length s /\ length w' = length w /\
  lexle (keyT g') (keyT g) /\
  forall i j, (i < length s')%nat -> (j < length w')%nat -> lexle (keyT (ev s')) (keyT (ev (set_nth i s' (nth j w' 0)))).
Proof. exact climb_spec. Qed.
Print Assumptions C06_climber_invariant.

(** *** pymoo_addon variation operators (the theorem part for every pymoo-driven optimiser) *)
(** SubsetRandomSampling with replace=False: distinct in-range positions give feasible chromosomes *)
Theorem C06_sampling_feasible : forall (cand : list Z) (ixs : list (list nat)) (k : nat), NoDup cand ->
  Forall (fun ix => NoDup ix /\ (forall i, In i ix -> (i < length cand)%nat) /\ length ix = k) ixs ->
  Forall (feasible cand k) (subset_sampling cand ixs).
Proof. exact subset_sampling_feasible. Qed.
Print Assumptions C06_sampling_feasible.

(** ReducedExchangeCrossover: both children of feasible parents are feasible, for every exchange draw [mex]
    (any length, any values, repetitions allowed) *)
Theorem C06_crossover_feasible : forall (cand : list Z) (k : nat) (a b : list Z) (mex : list nat),
  feasible cand k a -> feasible cand k b ->
  feasible cand k (fst (rex_cross a b mex)) /\ feasible cand k (snd (rex_cross a b mex)).
Proof. exact rex_cross_feasible. Qed.
Print Assumptions C06_crossover_feasible.

(** ReducedExchangeMutation: feasible in, feasible out for all draws — in fact, as coded, an individual
    taken from the set space is returned unchanged (the first mask is inverted; reported as a remark) *)
Theorem C06_mutation_feasible : forall (setspace : list Z) (k : nat) (x : list Z) (u : list Q) (p : Q) (chosen : list nat),
  feasible setspace k x ->
  feasible setspace k (rex_mut setspace x u p chosen) /\ rex_mut setspace x u p chosen = x.
Proof. intros. split; [now apply rex_mut_feasible | apply rex_mut_identity; apply H]. Qed.
Print Assumptions C06_mutation_feasible.

(** Integer{SimulatedBinaryCrossover,PolynomialMutation}: rounding a value that lies inside integer bounds
    (pymoo repairs its real-coded operators to the bounds) gives an integer inside the bounds *)
Theorem C06_round_in_bounds : forall (lo hi : Z) (qs : list Q),
  Forall (fun q => (inject_Z lo <= q)%Q /\ (q <= inject_Z hi)%Q) qs -> Forall (fun z => lo <= z <= hi) (int_round qs).
Proof. exact int_round_bounds. Qed.
Print Assumptions C06_round_in_bounds.

(** *** MutatorA / MutatorB hill-climb step of NSGA2MutatorA/BSubsetGeneticAlgorithm (repaired code: trial row t
    exchanges locus lociix[t] of the individual for the unused candidate alleles[alleleix[t]]).  Every trial row is a
    feasible subset, for ALL loci draws and ALL in-range allele draws (repetitions allowed, any number of steps:
    no guard relating nhcstep to the number of unused candidates) *)
Theorem C06_mutatorAB_trials_feasible : forall (setspace x : list Z) (k : nat) (lociix alleleix : list nat),
  feasible setspace k x -> (forall j, In j alleleix -> (j < length (complement setspace x))%nat) ->
  Forall (feasible setspace k) (mutAB_trials x (complement setspace x) lociix alleleix).
Proof. intros. now apply mutAB_trials_feasible. Qed.
Print Assumptions C06_mutatorAB_trials_feasible.

(** ... hence the chromosome returned by MutatorA.hillclimb / MutatorB.hillclimb is feasible for every evaluation
    function, every draw and every selected row (formerly only [_partial], under NoDup alleleix) *)
Theorem C06_mutatorAB_feasible : forall (ev : list Z -> evalT) (setspace x : list Z) (k : nat) (lociix alleleix : list nat) (draw : nat),
  feasible setspace k x -> (forall j, In j alleleix -> (j < length (complement setspace x))%nat) ->
  feasible setspace k (mutA_hillclimb ev setspace x lociix alleleix draw) /\
  feasible setspace k (mutB_hillclimb ev setspace x lociix alleleix draw).
Proof. intros. split; now apply mutAB_hillclimb_feasible. Qed.
Print Assumptions C06_mutatorAB_feasible.

(** when the subset is the whole candidate set (ndecn = len(decn_space)) nothing can be exchanged and the
    individual is returned unchanged (formerly: ZeroDivisionError in tiled_choice) *)
Theorem C06_mutatorAB_full_set : forall (ev : list Z -> evalT) (setspace x : list Z) (lociix alleleix : list nat) (draw : nat),
  incl setspace x ->
  mutA_hillclimb ev setspace x lociix alleleix draw = x /\ mutB_hillclimb ev setspace x lociix alleleix draw = x.
Proof. intros. split; now apply mutAB_hillclimb_full. Qed.
Print Assumptions C06_mutatorAB_full_set.

(** the row selection is always defined: the non-dominated front of a non-empty trial population is non-empty,
    and both rules pick a position that belongs to the front and addresses a trial row (MutatorB formerly used
    positions of the unfiltered population to index the front) *)
Theorem C06_mutatorAB_selection_defined : forall (F : list (list Z)) (draw : nat), F <> [] ->
  front_ix F <> [] /\ In (mutB_sel F draw) (front_ix F) /\ (mutB_sel F draw < length F)%nat /\
  ((draw < length (front_ix F))%nat -> In (mutA_sel F draw) (front_ix F) /\ (mutA_sel F draw < length F)%nat).
Proof.
  intros F draw HF. pose proof (front_ix_nonempty F HF) as HN.
  pose proof (mutB_sel_in_front F draw HN) as HB.
  split; [exact HN|]. split; [exact HB|]. split; [now apply front_ix_lt|].
  intros Hd. pose proof (mutA_sel_in_front F draw Hd) as HA. split; [exact HA | now apply front_ix_lt].
Qed.
Print Assumptions C06_mutatorAB_selection_defined.

(** regression witness for the repaired defect C06-mutatorAB-duplicate-members: the FORMER code
    ([old_mutAB_hillclimb]: whole-column assignment) did not preserve feasibility — 2 of 3 candidates selected,
    valid tiled draws — while the repaired step is feasible on the same input and draws *)
Theorem C06_old_mutatorAB_feasible_refuted : exists (setspace x : list Z) (lociix alleleix : list nat),
  feasible setspace 2 x /\ NoDup setspace /\
  tiled_ok (length x) (length x) lociix = true /\ tiled_ok (length (complement setspace x)) (length x) alleleix = true /\
  ~ NoDup (old_mutAB_hillclimb setspace x lociix alleleix) /\
  forall sel ev draw, feasible setspace 2 (mutAB_hillclimb sel ev setspace x lociix alleleix draw).
Proof.
  exists [0; 1; 2], [0; 1], [0%nat; 1%nat], [0%nat; 0%nat].
  destruct old_mutAB_refuted_witness as (A & B & C & D & E).
  repeat (split; [assumption|]). exact new_mutAB_on_old_witness.
Qed.
Print Assumptions C06_old_mutatorAB_feasible_refuted.

(** *** the result monitor evaluated in the correspondence shards is sound *)
Theorem C06_monitor_sound : forall (cand : list Z) (k : nat) (X : list (list Z)) (F : list (list Q)),
  forallb (feasible_b cand k) X = true -> nondominated_b F = true ->
  Forall (feasible cand k) X /\ forall f1 f2, In f1 F -> In f2 F -> pareto_dom f2 f1 = false.
Proof.
  intros cand k X F HX HF. split; [|now apply nondominated_b_sound].
  rewrite forallb_forall in HX. apply Forall_forall. intros x Hx. now apply feasible_b_spec, HX.
Qed.
Print Assumptions C06_monitor_sound.

(** *** kernel expressions regenerated from the source on every run (Gen/C06_Kernel.v, produced by harness/translate/c06_kernel.py) *)
(** the generated expressions ARE the ones the model is built from (all links by conversion: a flipped comparison, a swapped
    argument pair, [obj * obj_wt] as sort key, another slice bound, ... and this theorem no longer compiles) *)
Theorem C06_kernel_is_model :
  (forall ev s w best ij, step ev s w best ij =
     let r := ev (prop s w ij) in
     if k_sd_better_cv (cv r) (cv (snd best)) then (Some ij, r)
     else if k_sd_better_score (cv r) (cv (snd best)) (score r) (score (snd best)) then (Some ij, r) else best) /\
  (forall ev s w best ij, step ev s w best ij =
     let r := ev (prop s w ij) in
     if k_ssd_better_cv (cv r) (cv (snd best)) then (Some ij, r)
     else if k_ssd_better_score (cv r) (cv (snd best)) (score r) (score (snd best)) then (Some ij, r) else best) /\
  (forall r, k_sd_gscore (e_obj r) = score r /\ k_sd_pscore (e_obj r) = score r /\ k_sd_gcv (e_ineq r) (e_eq r) = cv r /\ k_sd_pcv (e_ineq r) (e_eq r) = cv r) /\
  (forall r, k_ssd_gscore (e_obj r) = score r /\ k_ssd_pscore (e_obj r) = score r /\ k_ssd_gcv (e_ineq r) (e_eq r) = cv r /\ k_ssd_pcv (e_ineq r) (e_eq r) = cv r) /\
  (forall s w i j, k_sd_swap s w i j = (prop s w (i, j), set_nth j w (nth i s 0)) /\ k_ssd_swap s w i j = k_sd_swap s w i j) /\
  (forall cand s, k_sd_wrkss cand s = complement cand s /\ k_ssd_wrkss cand s = complement cand s) /\
  snd k_sd_draw = false /\
  (forall ev wt cand k, ksort_select k_sort_key k_sort_lo k_sort_hi ev wt cand k = sort_select ev cand k /\
                        ksort_select k_ssd_key k_ssd_lo k_ssd_hi ev wt cand k = sort_select ev cand k) /\
  (forall ev cand k, sort_calls ev cand k = k_sort_singles cand ++ [sort_select ev cand k]) /\
  (forall cand ix, k_sort_pick cand ix = sample cand ix /\ k_ssd_pick cand ix = sample cand ix) /\
  (forall o1 c1 o2 c2, k_dominates o1 c1 o2 c2 = dominates_m o1 c1 o2 c2) /\
  (forall a b, k_rex_mab a b = rex_mab a b /\ k_rex_mba a b = rex_mab b a) /\
  (forall a b mex, rex_cross a b mex =
     let mab := k_rex_mab a b in let mba := k_rex_mba a b in
     let e := k_rex_exchange (compress mab a) (compress mba b) mex in (scatter mab a (fst e), scatter mba b (snd e))) /\
  (forall c d, k_rex_nex (Z.of_nat c) (Z.of_nat d) = Z.of_nat (rex_nex c d)) /\ (forall c, k_rex_randint c = (1, c)) /\
  (forall a b, k_rex_clen (Z.of_nat (length (compress (k_rex_mab a b) a))) (Z.of_nat (length (compress (k_rex_mba a b) b))) = Z.of_nat (rex_clen a b)) /\
  (forall ss x u p chosen, rex_mut ss x u p chosen =
     let mab := k_mut_mab x ss in let mba := k_mut_mba x ss in
     let ap := compress mab x in let bp := compress mba ss in
     scatter mab x (scatter (map (fun v => k_mut_mex v p) u) ap (map (fun i => nth i bp 0) chosen))) /\
  (forall ev ss x li ai draw, mutA_hillclimb ev ss x li ai draw =
     let al := k_mutA_alleles ss x in
     if k_mutA_guard (Z.of_nat (length al)) then x
     else let T := k_mutA_trials x al li ai in nth (mutA_sel (map (fun t => e_obj (ev t)) T) draw) T x) /\
  (forall ev ss x li ai draw, mutB_hillclimb ev ss x li ai draw =
     let al := k_mutB_alleles ss x in
     if k_mutB_guard (Z.of_nat (length al)) then x
     else let T := k_mutB_trials x al li ai in nth (mutB_sel (map (fun t => e_obj (ev t)) T) draw) T x) /\
  (forall nobj F draw, (draw < nobj)%nat -> mutB_sel F draw = nth (nth draw (k_mutB_minix nobj F (front_ix F)) O) (front_ix F) O) /\
  (forall nl na nh, k_mutA_tiled nl na nh = ((nl, nh), (na, nh)) /\ k_mutB_tiled nl na nh = ((nl, nh), (na, nh))) /\
  (forall nl o, k_mutA_nhcstep nl o = match o with None => nl | Some v => v end /\ k_mutB_nhcstep nl o = k_mutA_nhcstep nl o) /\
  (forall qs, k_isbx_round qs = int_round qs /\ k_ipm_round qs = int_round qs).
Proof.
  split; [exact k_sd_accept_model|]. split; [exact k_ssd_accept_model|]. split; [exact k_sd_scores_model|]. split; [exact k_ssd_scores_model|].
  split; [intros; split; reflexivity|]. split; [intros; split; reflexivity|]. split; [reflexivity|].
  split; [intros; split; [apply k_sort_select_model | apply k_ssd_select_model]|]. split; [exact k_sort_calls_model|]. split; [exact k_pick_model|].
  split; [exact k_dominates_model|]. split; [exact k_rex_masks_model|]. split; [exact k_rex_cross_model|]. split; [exact k_rex_nex_model|].
  split; [exact k_rex_randint_model|]. split; [exact k_rex_clen_model|]. split; [exact k_mut_model|]. split; [exact k_mutA_hillclimb_model|].
  split; [exact k_mutB_hillclimb_model|]. split; [exact k_mutB_minix_model|]. split; [exact k_mutAB_tiled_model|]. split; [exact k_mutAB_nhcstep_model|].
  exact k_round_model.
Qed.
Print Assumptions C06_kernel_is_model.

(** the climbers' loops RE-ASSEMBLED from the generated statements, with the state the source keeps (best_score and best_cv are
    stored by the accepting branches, gbest_* updated after every scan), compute exactly the model's climber; and the stored
    score / violation handed to the caller (miscout) are those of the returned decision.  A branch that forgets to refresh
    best_score, an exchange of the wrong positions, an update of gbest_* from the wrong variable break this theorem. *)
Theorem C06_kernel_climber_refines : forall (ev : list Z -> evalT) (fuel : nat) (cand start : list Z),
  (gabs (sd_machine ev fuel cand start) = climb_from ev fuel cand start /\
   forall s' w' g', sd_machine ev fuel cand start = Some (s', w', g') -> g_ev g' = ev s' /\ g_score g' = score (ev s') /\ g_cv g' = cv (ev s')) /\
  (gabs (ssd_machine ev fuel cand start) = climb_from ev fuel cand start /\
   forall s' w' g', ssd_machine ev fuel cand start = Some (s', w', g') -> g_ev g' = ev s' /\ g_score g' = score (ev s') /\ g_cv g' = cv (ev s')).
Proof. intros. split; [apply sd_machine_refines | apply ssd_machine_refines]. Qed.
Print Assumptions C06_kernel_climber_refines.

(** ... hence the full result clause holds of the regenerated loops (start drawn without replacement / start = the slice of the
    ranking computed by the generated key and bounds) *)
Theorem C06_kernel_climber_result : forall (ev : list Z -> evalT) (fuel : nat) (cand : list Z) (ix : list nat) (k : nat) s' w' g',
  NoDup cand -> NoDup ix -> (forall i, In i ix -> (i < length cand)%nat) -> length ix = k ->
  sd_machine ev fuel cand (sample cand ix) = Some (s', w', g') ->
  climber_result ev cand k (sample cand ix) (s', w', g_ev g') /\ g_score g' = score (ev s') /\ g_cv g' = cv (ev s').
Proof. exact sd_machine_result. Qed.
Print Assumptions C06_kernel_climber_result.

Theorem C06_kernel_sorting_climber_result : forall (ev : list Z -> evalT) (wt : Z) (fuel : nat) (cand : list Z) (k : nat) s' w' g',
  NoDup cand -> (k <= length cand)%nat ->
  ssd_machine ev fuel cand (ksort_select k_ssd_key k_ssd_lo k_ssd_hi ev wt cand k) = Some (s', w', g') ->
  climber_result ev cand k (sort_select ev cand k) (s', w', g_ev g') /\ g_score g' = score (ev s') /\ g_cv g' = cv (ev s').
Proof. exact ssd_machine_result. Qed.
Print Assumptions C06_kernel_sorting_climber_result.

(** the exchange statement of the source, applied twice, restores both arrays: every proposal of a scan is evaluated on the
    same (solution, pool) pair *)
Theorem C06_kernel_exchange_involutive : forall (s w : list Z) (i j : nat), (i < length s)%nat -> (j < length w)%nat ->
  k_sd_swap (fst (k_sd_swap s w i j)) (snd (k_sd_swap s w i j)) i j = (s, w) /\
  k_ssd_swap (fst (k_ssd_swap s w i j)) (snd (k_ssd_swap s w i j)) i j = (s, w).
Proof. intros. split; now apply k_sd_swap_involutive. Qed.
Print Assumptions C06_kernel_exchange_involutive.

(** the sorting optimiser as the source ranks and slices (generated key expression and slice bounds): feasible, and optimal
    for every separable objective whatever the objective weight [wt] is (the key must not be multiplied by it again) *)
Theorem C06_kernel_sorting : forall (ev : list Z -> evalT) (wt : Z) (cand : list Z) (k : nat), NoDup cand -> (k <= length cand)%nat ->
  let s := ksort_select k_sort_key k_sort_lo k_sort_hi ev wt cand k in
  feasible cand k s /\
  forall w, (forall x, e_obj (ev x) = [sumZ (map w x)]) -> forall y, feasible cand k y -> score (ev s) <= score (ev y).
Proof. exact k_sorting_spec. Qed.
Print Assumptions C06_kernel_sorting.

(** pymoo_addon.dominates, as coded, is a strict partial order on (objective vector, violation) pairs: a population filtered
    with it cannot contain two members that dominate each other *)
Theorem C06_kernel_dominates_strict_order :
  (forall o c, k_dominates o c o c = false) /\
  (forall o1 c1 o2 c2, k_dominates o1 c1 o2 c2 = true -> k_dominates o2 c2 o1 c1 = false) /\
  (forall o1 c1 o2 c2 o3 c3, k_dominates o1 c1 o2 c2 = true -> k_dominates o2 c2 o3 c3 = true -> k_dominates o1 c1 o3 c3 = true).
Proof. split; [exact k_dominates_irrefl|]. split; [exact k_dominates_asym | exact k_dominates_trans]. Qed.
Print Assumptions C06_kernel_dominates_strict_order.

(** tiled_choice(a, size): the slices its loop writes and the tail tile [0, size) without gap or overlap, every tile is drawn
    from range(a) without replacement, the tail has size mod a entries *)
Theorem C06_kernel_tiled_choice_tiles : forall a size : Z, 0 < a -> 0 <= size ->
  k_tc_lo a 0 = 0 /\ (forall i, k_tc_hi a i = k_tc_lo a (i + 1)) /\ (forall i, k_tc_hi a i - k_tc_lo a i = a) /\
  k_tc_tail a (k_tc_ndiv a size) = k_tc_lo a (k_tc_ndiv a size) /\
  k_tc_tail a (k_tc_ndiv a size) + k_tc_nrem a size = size /\ 0 <= k_tc_nrem a size < a /\ 0 <= k_tc_ndiv a size /\
  k_tc_draws a (k_tc_nrem a size) = ((a, a, false), (a, k_tc_nrem a size, false)).
Proof. exact k_tc_tiles. Qed.
Print Assumptions C06_kernel_tiled_choice_tiles.

(** the variation operators written with the generated masks / exchange / trial-row assignment preserve feasibility *)
Theorem C06_kernel_crossover_feasible : forall (cand : list Z) (k : nat) (a b : list Z) (mex : list nat),
  feasible cand k a -> feasible cand k b ->
  let mab := k_rex_mab a b in let mba := k_rex_mba a b in
  let e := k_rex_exchange (compress mab a) (compress mba b) mex in
  feasible cand k (scatter mab a (fst e)) /\ feasible cand k (scatter mba b (snd e)).
Proof. exact k_rex_feasible. Qed.
Print Assumptions C06_kernel_crossover_feasible.

Theorem C06_kernel_mutatorAB_feasible : forall (ev : list Z -> evalT) (ss x : list Z) (k : nat) (li ai : list nat) (draw : nat),
  feasible ss k x -> (forall j, In j ai -> (j < length (k_mutA_alleles ss x))%nat) ->
  feasible ss k (let al := k_mutA_alleles ss x in
                 if k_mutA_guard (Z.of_nat (length al)) then x
                 else let T := k_mutA_trials x al li ai in nth (mutA_sel (map (fun t => e_obj (ev t)) T) draw) T x) /\
  feasible ss k (let al := k_mutB_alleles ss x in
                 if k_mutB_guard (Z.of_nat (length al)) then x
                 else let T := k_mutB_trials x al li ai in nth (mutB_sel (map (fun t => e_obj (ev t)) T) draw) T x).
Proof. exact k_mutAB_feasible. Qed.
Print Assumptions C06_kernel_mutatorAB_feasible.

(** every one of the sixteen optimiser classes hands every keyword of the Solution constructor the value it must: the decision
    matrix from X / the loop's solution, objectives from F, inequality violations from G, equality violations from H (never
    crossed), the descriptive fields from the problem; one row per (class, keyword), none missing (table regenerated from the
    current source; finite, checked by computation) *)
Theorem C06_kernel_solution_fields :
  (forall row, In row k_soln_fields -> soln_row_ok row = true) /\ soln_table_complete k_soln_fields = true.
Proof. destruct k_soln_fields_ok as (A & B). split; [now apply forallb_forall | exact B]. Qed.
Print Assumptions C06_kernel_solution_fields.

(** every random draw in pymoo_addon.py (tiled_choice, sampling, crossover, mutation, every hill-climb step, and the helpers / sibling
    methods they hand the generator on to) is taken from the generator the operator was handed; a function that draws binds that
    generator exactly once, before its first draw, and uses the process-wide stream only when it was handed none; the functions the
    model follows issue their requests in the order the correspondence expects (tables regenerated from the current source; finite,
    checked by computation).  This is what lets the scripted generator of the correspondence stand for "all draws" in the theorems above. *)
Theorem C06_kernel_draws_from_handed_generator :
  (forall row, In row k_draw_sites -> draw_row_ok row = true /\ draw_has_fallback k_draw_fallbacks row = true) /\
  (forall row, In row k_draw_fallbacks -> draw_fallback_ok row = true) /\ draw_modelled_ok k_draw_sites = true.
Proof.
  destruct k_draw_sites_ok as (A & B & C & D). split; [|split; [now apply forallb_forall | exact D]].
  intros row H. split; [exact (proj1 (forallb_forall _ _) A row H) | exact (proj1 (forallb_forall _ _) C row H)].
Qed.
Print Assumptions C06_kernel_draws_from_handed_generator.

(** *** scale covariance: weights far from 1 (2^-40 ... 2^20) change nothing.  If every violation is multiplied by a > 0 and every
    score by b > 0, both climbers visit the same states and return the same decision and pool, and the sorting optimiser selects the
    same members.  (An absolute tolerance in a comparison would break this law; the correspondence runs the model in units of the
    weights' scale on the strength of it.) *)
Theorem C06_climber_scale_covariant : forall (ev ev' : list Z -> evalT) (a b : Z) (fuel : nat) (cand start : list Z),
  0 < a -> 0 < b -> (forall x, cv (ev' x) = a * cv (ev x)) -> (forall x, score (ev' x) = b * score (ev x)) ->
  option_map fst (climb_from ev' fuel cand start) = option_map fst (climb_from ev fuel cand start).
Proof. intros ev ev' a b fuel cand start Ha Hb Hcv Hsc. exact (climb_from_scale ev ev' a b Ha Hb Hcv Hsc fuel cand start). Qed.
Print Assumptions C06_climber_scale_covariant.

Theorem C06_sorting_scale_covariant : forall (ev ev' : list Z -> evalT) (b : Z) (cand : list Z) (k : nat),
  0 < b -> (forall e, single_key ev' e = b * single_key ev e) -> sort_select ev' cand k = sort_select ev cand k.
Proof. intros ev ev' b cand k Hb Hk. exact (sort_select_scale ev ev' b Hb Hk cand k). Qed.
Print Assumptions C06_sorting_scale_covariant.

(** *** position-dependent problems (slot weights such as 2,1,2,1; weights that differ per variable).  The truthfulness clause of the
    result monitor, as evaluated in the correspondence shards on every returned row of every optimiser class, accepts exactly the
    reports that are the evaluation of the reported decision (same ordering), row by row ... *)
Theorem C06_monitor_truthful_sound : forall (ev : list Z -> evalT) (X : list (list Z)) (R : list evalT),
  truthful_b ev X R = true <-> R = map ev X.
Proof. intros. split; [apply truthful_b_sound | intros ->; apply truthful_b_complete]. Qed.
Print Assumptions C06_monitor_truthful_sound.

(** ... and on a slot-weighted problem it REJECTS a decision reported with two neighbouring members exchanged (e.g. sorted) together
    with the values of the original ordering, whenever the two slots weigh differently and the two members have different table
    values — which a position-independent problem can never show *)
Theorem C06_monitor_rejects_reordered_decision :
  forall (t : list Z) (w : Z) (clip : bool) (sp : list Z) (s1 s2 : Z) (ss xp : list Z) (a b : Z) (r : list Z),
  length sp = length xp -> s1 <> s2 -> look t a <> look t b -> w <> 0 ->
  let ev := tps_eval (mkTP [t] [] [w] [] [] clip [] [] [] []) [sp ++ s1 :: s2 :: ss] [] [] in
  truthful_b ev [xp ++ b :: a :: r] [ev (xp ++ a :: b :: r)] = false.
Proof. exact truthful_b_rejects_reordered. Qed.
Print Assumptions C06_monitor_rejects_reordered_decision.

(** the quantisation used to make real-coded problems exact is the identity on integer / binary decisions and moves a real
    variable down by less than one grid step *)
Theorem C06_quantisation : forall (qn : Z) (v : Q) (z : Z), 0 < qn ->
  (quantQ qn (inject_Z z) == inject_Z z)%Q /\ (quantQ qn v <= v)%Q /\ (v < quantQ qn v + 1 / inject_Z qn)%Q.
Proof. intros qn v z H. split; [now apply quantQ_integer | now apply quantQ_floor]. Qed.
Print Assumptions C06_quantisation.

(** non-vacuity of the three statements above: slots 2,1,2,1, members 3 and 7 with table values 4 and 9 (their exchange changes the
    objective from 2*4+1*9 to 2*9+1*4), and the monitor accepts the truthful report *)
Example C06_position_hyps_satisfiable :
  let t := [0; 0; 0; 4; 0; 0; 0; 9] in
  let ev := tps_eval (mkTP [t] [] [1] [] [] true [] [] [] []) [[] ++ 2 :: 1 :: [2; 1]] [] [] in
  length (@nil Z) = length (@nil Z) /\ 2 <> 1 /\ look t 3 <> look t 7 /\ 1 <> 0 /\
  ev [3; 7] = ([17], [], []) /\ ev [7; 3] = ([22], [], []) /\
  truthful_b ev [[3; 7]] [ev [3; 7]] = true /\ truthful_b ev [[3; 7]] [ev [7; 3]] = false /\
  0 < 4 /\ (quantQ 4 (11 # 8) == 5 # 4)%Q.
Proof. cbn zeta. repeat split; try reflexivity; try lia; cbn; try discriminate; lia. Qed.

(** non-vacuity: a concrete problem (objective = sum of the members, no constraints) meets the hypotheses of the
    theorems above, and the modelled optimisers return the expected answers on it *)
Example C06_hyps_satisfiable :
  let ev := fun x : list Z => ([sumZ x], @nil Z, @nil Z) in
  NoDup [5; 1; 4; 2] /\ NoDup [0%nat; 2%nat] /\ feasible [5; 1; 4; 2] 2 [5; 4] /\ feasible [5; 1; 4; 2] 2 [1; 2]
  /\ (forall x, e_obj (ev x) = [sumZ (map (fun e => e) x)])
  /\ fst (sort_minimize ev [5; 1; 4; 2] 2) = [1; 2]
  /\ sd_minimize ev 16 [5; 1; 4; 2] [0%nat; 2%nat] = Some ([1; 2], [5; 4], ([3], [], []))
  /\ rex_cross [5; 4] [1; 2] [1%nat] = ([5; 2], [1; 4])
  /\ Forall (fun q => (inject_Z 0 <= q)%Q /\ (q <= inject_Z 3)%Q) [(5 # 2)%Q; (1 # 2)%Q]
  /\ mutA_hillclimb ev [5; 1; 4; 2] [5; 4] [1%nat; 0%nat] [0%nat; 1%nat] 1 = [2; 4]
  /\ mutB_hillclimb ev [5; 1; 4; 2] [5; 4] [1%nat; 0%nat] [0%nat; 1%nat] 0 = [5; 1]
  /\ (forall i, In i [0%nat; 2%nat] -> (i < length [5; 1; 4; 2]%Z)%nat)
  /\ (forall j, In j [0%nat; 1%nat] -> (j < length (complement [5; 1; 4; 2]%Z [5; 4]%Z))%nat)
  /\ (length [5; 1; 4; 2]%Z ^ 2 <= 16)%nat
  /\ incl [5; 1] [1; 5] /\ mutA_hillclimb ev [5; 1] [1; 5] [] [] 0 = [1; 5]
  /\ [[6]; [6]] <> (@nil (list Z)) /\ front_ix [[6]; [6]] = [0%nat; 1%nat]
  /\ sd_machine ev 16 [5; 1; 4; 2] (sample [5; 1; 4; 2] [0%nat; 2%nat]) = Some ([1; 2], [5; 4], mkG [3] [] [] 3 0)
  /\ ssd_machine ev 16 [5; 1; 4; 2] (ksort_select k_ssd_key k_ssd_lo k_ssd_hi ev (-1) [5; 1; 4; 2] 2) = Some ([1; 2], [5; 4], mkG [3] [] [] 3 0)
  /\ ksort_select k_sort_key k_sort_lo k_sort_hi ev (-1) [5; 1; 4; 2] 2 = [1; 2]
  /\ k_dominates [1; 2] 0 [1; 3] 0 = true /\ k_dominates [5; 5] 1 [0; 0] 2 = true
  /\ (0 < 3 /\ 0 <= 7 /\ k_tc_ndiv 3 7 = 2 /\ k_tc_nrem 3 7 = 1)
  /\ (1 < length [5; 4]%Z)%nat /\ (0 < length [1; 2]%Z)%nat
  /\ (let ev' := fun x : list Z => ([4 * sumZ x], @nil Z, @nil Z) in
      0 < 7 /\ 0 < 4 /\ (forall x, cv (ev' x) = 7 * cv (ev x)) /\ (forall x, score (ev' x) = 4 * score (ev x)) /\
      (forall e, single_key ev' e = 4 * single_key ev e)).
Proof.
  cbn zeta.
  assert (N4 : NoDup [5; 1; 4; 2]) by (repeat (constructor; [cbn; intuition lia|]); constructor).
  split; [exact N4|].
  split; [repeat (constructor; [cbn; intuition lia|]); constructor|].
  split; [apply feasible_b_spec; reflexivity|].
  split; [apply feasible_b_spec; reflexivity|].
  split; [intros x; now rewrite map_id|].
  split; [reflexivity|]. split; [reflexivity|]. split; [reflexivity|].
  split; [repeat constructor; cbn; discriminate|]. split; [reflexivity|]. split; [reflexivity|].
  split; [intros i Hi; cbn in *; intuition lia|]. split; [intros j Hj; cbn in *; intuition lia|]. split; [cbn; lia|].
  split; [intros z Hz; cbn in *; intuition lia|]. split; [reflexivity|]. split; [discriminate|]. split; [reflexivity|].
  split; [reflexivity|]. split; [reflexivity|]. split; [reflexivity|]. split; [reflexivity|]. split; [reflexivity|].
  split; [repeat split; try reflexivity; lia|]. split; [cbn; lia|]. split; [cbn; lia|].
  repeat split; try lia; intros; unfold cv, score, single_key, e_obj, e_ineq, e_eq; cbn [fst snd sumZ fold_right nth]; try rewrite !Z.add_0_r; try lia.
Qed.
