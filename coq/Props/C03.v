(** C03 — labels stay attached to their data under every matrix operation history: property theorems only.
    Model: Model/C03_LMat.v (one per-axis model instantiated for the 13 matrix classes and the genotyping protocols).
    [Rep val lbl c s ess]: the arrays of state [s] are the images of the entity lists [ess] (one list per array axis):
    every cell is [val] of the entities at its coordinates, every label array present is the image of its axis'
    entities under the labelling [lbl] of its field; [no_loss s s']: no label array present in [s] is missing in [s'].
    Definitions named [old_...] model FORMER code of pybrops (repaired since) and occur only in regression witnesses
    ([old_op_insert] is also numpy.insert as it is, which the source's insert_<axis> calls after its scalar-index wrap).
    [val] and [lbl] are arbitrary (so duplicated labels are covered), the entity type is arbitrary. *)
From PV Require Import Lib.Common Model.C03_LMat Model.C03_IndexForm Proofs.C03_LMat Gen.C03_Dispatch Gen.C03_MetaReset Proofs.C03_Tables Gen.C03_Kernel Proofs.C03_Kernel Proofs.C03_Session Proofs.C03_IndexForm.
Local Open Scope Z_scope.

(** every class descriptor of the model is well formed (axes in range, kinds do not share array axes) *)
Theorem C03_classes_wf : Forall wf_cls all_classes.
Proof. exact all_classes_wf_prop. Qed.
Print Assumptions C03_classes_wf.

(** select (all classes, also both axes of the square ones): the result is the image of the entity list gathered at the
    normalised indices; the other axes and their labels are untouched; nothing is lost unless the class drops labels *)
Theorem C03_select_refines : forall (ent : Type) (val : list ent -> Z) (lbl : nat -> nat -> ent -> lab) c s k idx s' ess,
  wf_cls c -> Rep val lbl c s ess -> (k < length (axs c))%nat -> op_select c s k idx = OK s' ->
  exists ps, plan_take (length (nth (taxis c k) ess [])) idx = Some ps /\
             Rep val lbl c s' (upd_all (taxes c k) (pick ps (nth (taxis c k) ess [])) ess) /\ (drop_other c = false -> no_loss s s').
Proof. intros ent val lbl. exact (select_refines val lbl). Qed.
Print Assumptions C03_select_refines.

Theorem C03_delete_refines : forall (ent : Type) (val : list ent -> Z) (lbl : nat -> nat -> ent -> lab) c s k o s' ess,
  wf_cls c -> Rep val lbl c s ess -> (k < length (axs c))%nat -> op_delete c s k o = OK s' ->
  exists ps, plan_delete (length (nth (taxis c k) ess [])) o = Some ps /\
             Rep val lbl c s' (upd_all (taxes c k) (pick ps (nth (taxis c k) ess [])) ess) /\ (drop_other c = false -> no_loss s s').
Proof. intros ent val lbl. exact (delete_refines val lbl). Qed.
Print Assumptions C03_delete_refines.

Theorem C03_remove_refines : forall (ent : Type) (val : list ent -> Z) (lbl : nat -> nat -> ent -> lab) c s k o s' ess,
  wf_cls c -> Rep val lbl c s ess -> (k < length (axs c))%nat -> op_remove c s k o = OK s' ->
  exists ps, plan_delete (length (nth (taxis c k) ess [])) o = Some ps /\
             Rep val lbl c s' (upd_all (taxes c k) (pick ps (nth (taxis c k) ess [])) ess) /\ no_loss s s'.
Proof. intros ent val lbl. exact (remove_refines val lbl). Qed.
Print Assumptions C03_remove_refines.

Theorem C03_reorder_refines : forall (ent : Type) (val : list ent -> Z) (lbl : nat -> nat -> ent -> lab) c s k idx s' ess,
  wf_cls c -> Rep val lbl c s ess -> (k < length (axs c))%nat -> op_reorder c s k idx = OK s' ->
  exists ps, plan_take (length (nth (taxis c k) ess [])) idx = Some ps /\
             Rep val lbl c s' (upd_all (taxes c k) (pick ps (nth (taxis c k) ess [])) ess) /\ no_loss s s'.
Proof. intros ent val lbl. exact (reorder_refines val lbl). Qed.
Print Assumptions C03_reorder_refines.

(** sort = reorder by the indices lexsort returns; group = sort + metadata; ungroup touches metadata only *)
Theorem C03_sort_refines : forall (ent : Type) (val : list ent -> Z) (lbl : nat -> nat -> ent -> lab) c s k keys s' ess,
  wf_cls c -> Rep val lbl c s ess -> (k < length (axs c))%nat -> op_sort c s k keys = OK s' ->
  exists idx ps, op_lexsort c s k keys = OK idx /\ plan_take (length (nth (taxis c k) ess [])) idx = Some ps /\
                 Rep val lbl c s' (upd_all (taxes c k) (pick ps (nth (taxis c k) ess [])) ess) /\ no_loss s s'.
Proof. intros ent val lbl. exact (sort_refines val lbl). Qed.
Print Assumptions C03_sort_refines.

Theorem C03_group_refines : forall (ent : Type) (val : list ent -> Z) (lbl : nat -> nat -> ent -> lab) c s k s' ess,
  wf_cls c -> Rep val lbl c s ess -> (k < length (axs c))%nat -> op_group c s k = OK s' ->
  exists idx ps, op_lexsort c s k None = OK idx /\ plan_take (length (nth (taxis c k) ess [])) idx = Some ps /\
                 Rep val lbl c s' (upd_all (taxes c k) (pick ps (nth (taxis c k) ess [])) ess) /\ no_loss s s'.
Proof. intros ent val lbl. exact (group_refines val lbl). Qed.
Print Assumptions C03_group_refines.

Theorem C03_ungroup_refines : forall (ent : Type) (val : list ent -> Z) (lbl : nat -> nat -> ent -> lab) c s k s' ess,
  Rep val lbl c s ess -> op_ungroup c s k = OK s' -> Rep val lbl c s' ess /\ no_loss s s'.
Proof. intros ent val lbl. exact (ungroup_refines val lbl). Qed.
Print Assumptions C03_ungroup_refines.

(** adjoin / append along an axis that occupies one array axis: the entity list becomes old ++ new, for the cells and
    for every label array alike ([RepOpd]: the operand is an array over the same entities on the other axes and
    entities [us] on this one, its effective label arrays are the images of [us] or are absent-and-filled) *)
Theorem C03_adjoin_refines : forall (ent : Type) (val : list ent -> Z) (lbl : nat -> nat -> ent -> lab) c s k v ess us a s',
  wf_cls c -> Rep val lbl c s ess -> (k < length (axs c))%nat -> taxes c k = [a] ->
  RepOpd val lbl (pol_adj (sch c k)) c k s v ess us -> op_adjoin c s k v = OK s' ->
  Rep val lbl c s' (upd a (nth a ess [] ++ us) ess) /\ (drop_other c = false -> no_loss s s').
Proof. intros ent val lbl c s k v ess us a s' W R Hk Ht. exact (adjoin_refines val lbl c s k v ess us a W R Hk Ht s'). Qed.
Print Assumptions C03_adjoin_refines.

Theorem C03_append_refines : forall (ent : Type) (val : list ent -> Z) (lbl : nat -> nat -> ent -> lab) c s k v ess us a s',
  wf_cls c -> Rep val lbl c s ess -> (k < length (axs c))%nat -> taxes c k = [a] ->
  RepOpd val lbl (pol_adj (sch c k)) c k s v ess us -> op_append c s k v = OK s' ->
  Rep val lbl c s' (upd a (nth a ess [] ++ us) ess) /\ no_loss s s'.
Proof. intros ent val lbl c s k v ess us a s' W R Hk Ht. exact (append_refines val lbl c s k v ess us a W R Hk Ht s'). Qed.
Print Assumptions C03_append_refines.

(** insert / incorp with any index (scalar, slice, index list, mask) on any array axis: the entity list is gathered from
    old ++ new by numpy's insertion plan, the same plan for the cells and for every label array *)
Theorem C03_insert_refines : forall (ent : Type) (val : list ent -> Z) (lbl : nat -> nat -> ent -> lab) c s k v ess us a o s',
  wf_cls c -> Rep val lbl c s ess -> (k < length (axs c))%nat -> taxes c k = [a] ->
  RepOpd val lbl (pol_ins (sch c k)) c k s v ess us -> op_insert c s k o v = OK s' ->
  exists ps, plan_insert (length (nth a ess [])) (length us) o = Some ps /\
             Rep val lbl c s' (upd a (pick ps (nth a ess [] ++ us)) ess) /\ (drop_other c = false -> no_loss s s').
Proof. intros ent val lbl c s k v ess us a o s' W R Hk Ht. exact (insert_refines val lbl c s k v ess us a W R Hk Ht o s'). Qed.
Print Assumptions C03_insert_refines.

Theorem C03_incorp_refines : forall (ent : Type) (val : list ent -> Z) (lbl : nat -> nat -> ent -> lab) c s k v ess us a o s',
  wf_cls c -> Rep val lbl c s ess -> (k < length (axs c))%nat -> taxes c k = [a] ->
  RepOpd val lbl (pol_adj (sch c k)) c k s v ess us -> op_incorp c s k o v = OK s' ->
  exists ps, plan_insert (length (nth a ess [])) (length us) o = Some ps /\
             Rep val lbl c s' (upd a (pick ps (nth a ess [] ++ us)) ess) /\ no_loss s s'.
Proof. intros ent val lbl c s k v ess us a o s' W R Hk Ht. exact (incorp_refines val lbl c s k v ess us a W R Hk Ht o s'). Qed.
Print Assumptions C03_incorp_refines.

(** a bare integer index is the one-element index list, for every class, axis, operand and both forms *)
Theorem C03_insert_scalar_as_list : forall c s k i v, op_insert c s k (OInt i) v = op_insert c s k (OList [i]) v.
Proof. exact insert_scalar_as_list. Qed.
Print Assumptions C03_insert_scalar_as_list.
Theorem C03_incorp_scalar_as_list : forall c s k i v, op_incorp c s k (OInt i) v = op_incorp c s k (OList [i]) v.
Proof. exact incorp_scalar_as_list. Qed.
Print Assumptions C03_incorp_scalar_as_list.

(** regression witness of the repaired finding C03-scalar-insert-moveaxis: a bare integer index on an inner array axis
    inserts the block as the index list [1] does (conjuncts 3, 4); the FORMER code [old_op_insert], which handed the
    scalar to numpy.insert, inserted the block transposed (last conjunct) *)
Theorem C03_old_scalar_insert_refuted :
  Rep w_val w_lbl cDenseTaxaVariantMatrix w1_s [[0; 1]; [0; 1; 2]]%nat /\
  RepOpd w_val w_lbl (pol_ins (sch cDenseTaxaVariantMatrix 1)) cDenseTaxaVariantMatrix 1 w1_s w1_v [[0; 1]; [0; 1; 2]]%nat [5; 6]%nat /\
  (exists s', op_insert cDenseTaxaVariantMatrix w1_s 1 (OList [1]) w1_v = OK s' /\
              data s' = build [[0; 1]; [0; 5; 6; 1; 2]]%nat w_val) /\
  (exists s', op_insert cDenseTaxaVariantMatrix w1_s 1 (OInt 1) w1_v = OK s' /\
              data s' = build [[0; 1]; [0; 5; 6; 1; 2]]%nat w_val /\ data s' = T2 [[0; 5; 6; 1; 2]; [10; 15; 16; 11; 12]]) /\
  (exists s', old_op_insert cDenseTaxaVariantMatrix w1_s 1 (OInt 1) w1_v = OK s' /\
              data s' <> build [[0; 1]; [0; 5; 6; 1; 2]]%nat w_val /\ data s' = T2 [[0; 5; 15; 1; 2]; [10; 6; 16; 11; 12]]).
Proof. exact scalar_insert_witness. Qed.
Print Assumptions C03_old_scalar_insert_refuted.

(** the FORM of an index argument does not matter for delete / remove either: a bare integer index (Python int, numpy integer
    scalar of any width, 0-d array) is the one-element index list (list, tuple, range, integer ndarray of any dtype), for
    every class, axis and state.  The harness hands every index over in all these encodings and expects one behaviour. *)
Theorem C03_delete_scalar_as_list : forall c s k i, op_delete c s k (OInt i) = op_delete c s k (OList [i]).
Proof. exact delete_scalar_as_list. Qed.
Print Assumptions C03_delete_scalar_as_list.
Theorem C03_remove_scalar_as_list : forall c s k i, op_remove c s k (OInt i) = op_remove c s k (OList [i]).
Proof. exact remove_scalar_as_list. Qed.
Print Assumptions C03_remove_scalar_as_list.
(** not vacuous (both sides succeed): the last variant of the 2 x 3 witness matrix is deleted by -1 and by [-1] *)
Example C03_delete_scalar_satisfiable :
  exists s', op_delete cDenseTaxaVariantMatrix w1_s 1 (OInt (-1)) = OK s' /\ shape s' = [2; 2]%nat /\
             op_remove cDenseTaxaVariantMatrix w1_s 1 (OList [-1]) = OK s'.
Proof. exact delete_scalar_witness. Qed.

(** regression witness of the repaired finding C03-zero-dim-index-insert-moveaxis.  The FORMER test of the scalar-index wrap,
    [isinstance(obj, (int, numpy.integer))] ([old_wrap]), let a 0-d integer array ([FArr 0 true], shipped as [OInt]) through
    to numpy.insert, which took its scalar path: on an inner array axis the block arrived transposed - same shape, same
    label arrays, other cells than with the index list [1].  The test of the current source (generated:
    [k_vrnt_wrap_insert]) wraps it, and the insertion is the one of the index list. *)
Theorem C03_old_zero_dim_insert_refuted :
  ships (FArr 0 true) (OInt 1) = true /\
  on_form k_vrnt_wrap_insert (FArr 0 true) (OInt 1) = Some (OList [1]) /\ on_form old_wrap (FArr 0 true) (OInt 1) = Some (OInt 1) /\
  exists s1 s2, src_insert k_vrnt_wrap_insert cDenseTaxaVariantMatrix w1_s 1 (FArr 0 true) (OInt 1) w1_v = OK s1 /\
                op_insert cDenseTaxaVariantMatrix w1_s 1 (OList [1]) w1_v = OK s1 /\
                src_insert old_wrap cDenseTaxaVariantMatrix w1_s 1 (FArr 0 true) (OInt 1) w1_v = OK s2 /\
                shape s1 = shape s2 /\ axes s1 = axes s2 /\ data s1 <> data s2 /\
                data s1 = T2 [[0; 5; 6; 1; 2]; [10; 15; 16; 11; 12]] /\ data s2 = T2 [[0; 5; 15; 1; 2]; [10; 6; 16; 11; 12]].
Proof. exact old_zero_dim_insert_witness. Qed.
Print Assumptions C03_old_zero_dim_insert_refuted.
(** the former test was wrong on that form only (so the repair widens it by exactly the 0-d integer array) *)
Theorem C03_old_wrap_other_forms : forall f o, ships f o = true -> f <> FArr 0 true -> on_form old_wrap f o = Some (wrap_scalar o).
Proof. exact old_wrap_other_forms. Qed.
Print Assumptions C03_old_wrap_other_forms.

(** insert on a square-taxa matrix: one array axis only, the result is 3 x 2 with 3 taxa labels *)
Theorem C03_square_insert_refuted :
  exists s', op_insert cDenseSquareTaxaMatrix w2_s 0 (OList [0]) w2_v = OK s' /\ shape s' = [3; 2]%nat /\
             nth 0 (labs (ax_of s' 0)) None = Some (map (w_lbl 0 0) [7; 0; 1]%nat).
Proof. exact square_insert_refuted. Qed.
Print Assumptions C03_square_insert_refuted.

(** DenseSquareTaxaTraitMatrix: the non-mutating select_taxa loses the trait labels, its in-place counterpart keeps them *)
Theorem C03_squaretaxatrait_drop_refuted :
  exists s' s'', op_select cDenseSquareTaxaTraitMatrix w3_s 0 [1] = OK s' /\ op_remove cDenseSquareTaxaTraitMatrix w3_s 0 (OInt 0) = OK s'' /\
             data s' = data s'' /\ labs (ax_of s' 0) = labs (ax_of s'' 0) /\
             labs (ax_of w3_s 1) = [Some (map (w_lbl 1 0) [0; 1]%nat)] /\ labs (ax_of s'' 1) = [Some (map (w_lbl 1 0) [0; 1]%nat)] /\
             labs (ax_of s' 1) = [None] /\ ~ no_loss w3_s s'.
Proof. exact squaretaxatrait_drop_refuted. Qed.
Print Assumptions C03_squaretaxatrait_drop_refuted.

(** the axis-generic form is the axis-specific form of the kind the axis number dispatches to ... *)
Theorem C03_generic_eq_specific : forall c s axis k o, dispatch c (Generic axis) = Some k -> step c s (Generic axis) o = step c s (Specific k) o.
Proof. exact generic_eq_specific. Qed.
Print Assumptions C03_generic_eq_specific.
(** ... and in each of the 13 classes every array axis of every labelled kind dispatches to that kind, by its
    non-negative and by its negative number, and nothing else does *)
Theorem C03_dispatch_tables : forallb dispatch_table_ok all_classes = true.
Proof. exact dispatch_tables_ok. Qed.
Print Assumptions C03_dispatch_tables.

(** the table regenerated from the current sources (every generic adjoin/delete/insert/select/concat/append/remove/
    incorp/lexsort/reorder/sort/group/ungroup/is_grouped of the 13 classes, resolved through the MRO): the non-raising
    branches are, in axis order, exactly the kinds for which the model performs the operation, each calling
    <method>_<kind> of the axis attribute it tests; every class x method the model performs is present *)
Theorem C03_dispatch_rows_ok : forallb row_ok dispatch_rows && coverage_ok = true.
Proof. exact dispatch_rows_check. Qed.
Print Assumptions C03_dispatch_rows_ok.

(** the table regenerated from the current sources: every in-place layout-changing method (append/remove/incorp/
    reorder/sort/ungroup _taxa/_vrnt) of every class assigns None to all four group-metadata fields; all class x
    grouped-kind x method combinations of the model are present.  The model resets the same four fields. *)
Theorem C03_metareset_rows_ok : forallb mrow_ok metareset_rows && mcoverage_ok = true.
Proof. exact metareset_rows_check. Qed.
Print Assumptions C03_metareset_rows_ok.
Theorem C03_model_resets : forall (s : st) (k : nat) (l : list (option larr)), (k < length (axes s))%nat ->
  is_grouped (ax_of {| shape := shape s; data := data s; axes := set_axes s k l |} k) = false.
Proof. exact model_resets. Qed.
Print Assumptions C03_model_resets.

(** numpy.unique on a sorted label list yields a true contiguous partition: names strictly increasing, lengths
    positive, stix the running sums, spix = stix + len, and the labels are name_0 x len_0 ++ name_1 x len_1 ++ ... *)
Theorem C03_unique_partition : forall l, Sorted.StronglySorted Z.le l ->
  let '(nm, ix, ln) := np_unique l in partition_ok l nm ix (map2 Z.add ix ln) ln.
Proof. exact unique_partition. Qed.
Print Assumptions C03_unique_partition.

(** lexsort returns a permutation of the positions that sorts the last (primary) key; ties keep their order (stable
    insertion); gathering the primary key by it gives a sorted list *)
Theorem C03_lexsort_perm_sorted : forall n pre (l0 : larr) idx, lexsort n (pre ++ [l0]) = OK idx ->
  exists ps, plan_take (length l0) idx = Some ps /\ Sorted.StronglySorted Z.le (unsome (pick ps l0)) /\ Permutation.Permutation ps (seq 0 n).
Proof. exact lexsort_sorts_primary. Qed.
Print Assumptions C03_lexsort_perm_sorted.

(** group_<axis> (all classes): afterwards the axis carries metadata that are a true partition of its group labels
    (or it has no group labels and reports itself ungrouped) *)
Theorem C03_group_partition : forall c s k s' g, (k < length (axes s))%nat -> grp (sch c k) = Some g -> op_group c s k = OK s' ->
  grouped_ok (ax_of s' k) g \/ (nth g (labs (ax_of s' k)) None = None /\ is_grouped (ax_of s' k) = false).
Proof. exact group_partition. Qed.
Print Assumptions C03_group_partition.

(** the invariant "grouped => true partition" is preserved by every public operation with any arguments ... *)
Theorem C03_step_meta_inv : forall c s k o s', meta_ok c s -> step_k c s k o = OK s' -> meta_ok c s'.
Proof. exact step_meta_inv. Qed.
Print Assumptions C03_step_meta_inv.
(** ... hence holds in every state of every history (both forms, all 12 operation kinds) started from a matrix that
    satisfies it — in particular from any freshly constructed (ungrouped) matrix *)
Theorem C03_history_meta_inv : forall c (h : list (form * opk)) s, meta_ok c s ->
  Forall (fun x => meta_ok (fst (fst x)) (snd (fst x))) (fst (run c s (map (fun fo => HOp (fst fo) (snd fo)) h))).
Proof. exact history_meta_inv. Qed.
Print Assumptions C03_history_meta_inv.
Theorem C03_fresh_meta_ok : forall c s, (forall k, is_grouped (ax_of s k) = false) -> meta_ok c s.
Proof. exact meta_ok_fresh. Qed.
Print Assumptions C03_fresh_meta_ok.

(** the masked genotyping protocols rebuild the variant group metadata of a grouped matrix: the result is again a true
    partition of the group labels that survive the mask (groups that lose all variants disappear) *)
Theorem C03_mask_meta_partition : forall (a : axst) (labs' : list (option larr)) (l : larr) nm ix sp ln (m : list bool) g,
  m_name a = Some nm -> m_stix a = Some ix -> m_spix a = Some sp -> m_len a = Some ln ->
  partition_ok (unsome l) nm ix sp ln -> length m = length l -> nth g labs' None = Some (pick (mask_positions m) l) ->
  grouped_ok (mask_meta (with_labs a labs') (mask_positions m)) g.
Proof. exact mask_meta_partition. Qed.
Print Assumptions C03_mask_meta_partition.
(** all three genotyping protocols (unphased, masked phased, masked unphased, with or without inversion, with or
    without a mask) keep "grouped => true partition" on both the taxa and the variant axis of their result *)
Theorem C03_genotype_meta_inv : forall p s s', length (axes s) = 3%nat ->
  (forall l, nth 0 (labs (ax_of s 2)) None = Some l -> length l = nth 2 (shape s) O) ->
  meta_ok cDensePhasedGenotypeMatrix s -> op_genotype p s = OK s' -> meta_ok (result_cls p) s'.
Proof. exact genotype_meta_inv. Qed.
Print Assumptions C03_genotype_meta_inv.

(** concat along an axis that occupies one array axis: the entity list becomes self ++ operand_1 ++ ... ++ operand_m for
    the cells and for every label array (a name array lacked by some of the matrices is filled with None there) *)
Theorem C03_concat_refines : forall (ent : Type) (val : list ent -> Z) (lbl : nat -> nat -> ent -> lab) c s k (vus : list (operand * list ent)) ess a s',
  wf_cls c -> Rep val lbl c s ess -> (k < length (axs c))%nat -> taxes c k = [a] ->
  Forall (fun vu => RepCat val lbl c k (fst vu) ess (snd vu)) vus ->
  (forall j, nth j (cat_fill (sch c k)) false = true ->
     (nth j (labs (ax_of s k)) None = None -> forall e, In e (nth a ess []) -> lbl k j e = None) /\
     Forall (fun vu => nth j (labs (nth k (o_axes (fst vu)) ax0)) None = None -> forall e, In e (snd vu) -> lbl k j e = None) vus) ->
  op_concat c s k (map fst vus) = OK s' ->
  Rep val lbl c s' (upd a (nth a ess [] ++ concat (map snd vus)) ess) /\ (drop_other c = false -> no_loss s s').
Proof. intros ent val lbl. exact (concat_refines val lbl). Qed.
Print Assumptions C03_concat_refines.

(** adjoin / append of the square-taxa classes (both taxa axes): the entity list of both axes becomes old ++ new, the label
    arrays follow, the cells of pairs inside the old block and inside the new block are kept, cross pairs hold the fill
    value ([val_bd]); entity equality is decidable and the new entities are distinct from the old ones *)
Theorem C03_adjoin_square_refines : forall (ent : Type) (eq_dec : forall x y : ent, {x = y} + {x <> y}) (val : list ent -> Z)
    (lbl : nat -> nat -> ent -> lab) c s k v ts us rest s',
  wf_cls c -> (k < length (axs c))%nat -> taxes c k = [0; 1]%nat ->
  Rep val lbl c s (ts :: ts :: rest) -> (forall x, In x ts -> ~ In x us) ->
  o_shape v = map (@length ent) (us :: us :: rest) -> o_data v = build (us :: us :: rest) val ->
  (forall j, (j < length (labs (ax_of s k)))%nat ->
     match nth j (labs (ax_of s k)) None, eff_lab c k v j with
     | Some _, Some g => g = map (lbl k j) us
     | Some _, None => nth j (pol_adj (sch c k)) PReq = PFill /\ forall u, In u us -> lbl k j u = None
     | None, g => g = None end) ->
  op_adjoin c s k v = OK s' ->
  Rep (val_bd eq_dec val ts us) lbl c s' ((ts ++ us) :: (ts ++ us) :: rest) /\ (drop_other c = false -> no_loss s s').
Proof. intros ent eq_dec val lbl. exact (adjoin_square_refines eq_dec val lbl). Qed.
Print Assumptions C03_adjoin_square_refines.
Theorem C03_append_square_refines : forall (ent : Type) (eq_dec : forall x y : ent, {x = y} + {x <> y}) (val : list ent -> Z)
    (lbl : nat -> nat -> ent -> lab) c s k v ts us rest s',
  wf_cls c -> (k < length (axs c))%nat -> taxes c k = [0; 1]%nat ->
  Rep val lbl c s (ts :: ts :: rest) -> (forall x, In x ts -> ~ In x us) ->
  o_shape v = map (@length ent) (us :: us :: rest) -> o_data v = build (us :: us :: rest) val ->
  (forall j, (j < length (labs (ax_of s k)))%nat ->
     match nth j (labs (ax_of s k)) None, eff_lab c k v j with
     | Some _, Some g => g = map (lbl k j) us
     | Some _, None => nth j (pol_adj (sch c k)) PReq = PFill /\ forall u, In u us -> lbl k j u = None
     | None, g => g = None end) ->
  op_append c s k v = OK s' ->
  Rep (val_bd eq_dec val ts us) lbl c s' ((ts ++ us) :: (ts ++ us) :: rest) /\ no_loss s s'.
Proof. intros ent eq_dec val lbl. exact (append_square_refines eq_dec val lbl). Qed.
Print Assumptions C03_append_square_refines.

(** every history of select / delete / remove / reorder / sort / group / ungroup steps (any class incl. the square ones,
    any labelled axis, generic or axis-specific form, any arguments): each state reached is the image ([Rep]) of entity
    lists whose members all come from the initial lists of the same axis — labels and cells travel with their entity *)
Theorem C03_history_refines : forall (ent : Type) (val : list ent -> Z) (lbl : nat -> nat -> ent -> lab) c,
  wf_cls c -> forall (h : list (form * uop)) s ess, Rep val lbl c s ess ->
  Forall (fun x => exists ess', Rep val lbl (fst (fst x)) (snd (fst x)) ess' /\ sub ess ess')
         (fst (run c s (map (fun fu => HOp (fst fu) (opk_of (snd fu))) h))).
Proof. intros ent val lbl. exact (history_refines val lbl). Qed.
Print Assumptions C03_history_refines.

(** mutating = non-mutating counterpart (classes that do not drop labels) *)
Theorem C03_delete_then_remove : forall c s k o s', drop_other c = false -> op_delete c s k o = OK s' -> op_remove c s k o = OK s'.
Proof. exact delete_then_remove. Qed.
Print Assumptions C03_delete_then_remove.
Theorem C03_remove_then_delete : forall c s k o s', drop_other c = false -> op_remove c s k o = OK s' ->
  op_delete c s k o = construct c (shape s') (data s') (axes s').
Proof. exact remove_then_delete. Qed.
Print Assumptions C03_remove_then_delete.
Theorem C03_adjoin_then_append : forall c s k v s', drop_other c = false -> no_extra_labels c s k v ->
  op_adjoin c s k v = OK s' -> op_append c s k v = OK s'.
Proof. exact adjoin_then_append. Qed.
Print Assumptions C03_adjoin_then_append.
Theorem C03_insert_then_incorp : forall c s k o v s', drop_other c = false -> no_extra_labels c s k v ->
  pol_ins (sch c k) = pol_adj (sch c k) -> op_insert c s k o v = OK s' -> op_incorp c s k o v = OK s'.
Proof. exact insert_then_incorp. Qed.
Print Assumptions C03_insert_then_incorp.


(** * The kernel expressions of the CURRENT source (Gen/C03_Kernel.v is regenerated from the pybrops files on every run by
    harness/translate/c03_kernel.py) are the expressions of the hand model: get_axis, the metadata assignment of
    group_<kind>, is_grouped_<kind>, the default sort keys, the masked genotyping protocols (whole pipeline), the
    scalar-index wrap of insert/incorp.  A changed expression in the source breaks this theorem's proof (reflexivity). *)
Theorem C03_kernel_is_model :
  (forall axis nd, get_axis axis nd = if k_axis_bad axis (Z.of_nat nd) then None else Some (Z.to_nat (k_axis_ix axis (Z.of_nat nd)))) /\
  (forall a g, group_meta a g = k_group_meta k_taxa_unique_unpack k_taxa_spix a g) /\
  (forall a g, group_meta a g = k_group_meta k_vrnt_unique_unpack k_vrnt_spix a g) /\
  (forall a, is_grouped a = k_taxa_is_grouped (some_b (m_name a)) (some_b (m_stix a)) (some_b (m_spix a)) (some_b (m_len a))) /\
  (forall a, is_grouped a = k_vrnt_is_grouped (some_b (m_name a)) (some_b (m_stix a)) (some_b (m_spix a)) (some_b (m_len a))) /\
  skeys (schema_of KTaxa) = k_taxa_skeys /\ skeys (schema_of KTaxa) = k_sqtaxa_skeys /\
  skeys (schema_of KVrnt) = k_vrnt_skeys /\ skeys (schema_of KTrait) = k_trait_skeys /\
  (forall a kept, mask_meta a kept = k_mask_meta k_mp_inrange k_mp_keep k_mp_stix a kept) /\
  (forall a kept, mask_meta a kept = k_mask_meta k_mu_inrange k_mu_keep k_mu_stix a kept) /\
  (forall inv s, op_genotype (GMaskedPhased inv) s =
                 k_genotype true k_mp_mask k_mp_mask_axis k_mp_masknz (k_mask_meta k_mp_inrange k_mp_keep k_mp_stix) inv s) /\
  (forall inv s, op_genotype (GMaskedUnphased inv) s =
                 k_genotype false k_mu_mask k_mu_mask_axis k_mu_masknz (k_mask_meta k_mu_inrange k_mu_keep k_mu_stix) inv s) /\
  k_mp_sliced = seq 0 (nfields (schema_of KVrnt)) /\ k_mu_sliced = seq 0 (nfields (schema_of KVrnt)) /\
  Forall wraps [k_taxa_wrap_insert; k_taxa_wrap_incorp; k_vrnt_wrap_insert; k_vrnt_wrap_incorp; k_trait_wrap_insert; k_trait_wrap_incorp].
Proof.
  repeat split;
    first [ exact k_get_axis_model | exact k_taxa_group_meta_model | exact k_vrnt_group_meta_model
          | exact k_taxa_is_grouped_model | exact k_vrnt_is_grouped_model | exact k_mp_mask_meta_model | exact k_mu_mask_meta_model
          | exact k_mp_genotype_model | exact k_mu_genotype_model | exact kernel_wraps ].
Qed.
Print Assumptions C03_kernel_is_model.

(** get_axis as generated: the accepted axis numbers are exactly -ndim .. ndim-1 and the index is the number itself or the
    number + ndim, inside 0 .. ndim-1; the generic dispatch of every class goes through these two expressions *)
Theorem C03_kernel_get_axis_range : forall axis nd, 0 < nd ->
  (k_axis_bad axis nd = false <-> - nd <= axis < nd) /\
  (k_axis_bad axis nd = false -> 0 <= k_axis_ix axis nd < nd /\ k_axis_ix axis nd = if axis <? 0 then axis + nd else axis).
Proof. exact kernel_get_axis_range. Qed.
Print Assumptions C03_kernel_get_axis_range.
Theorem C03_kernel_dispatch : forall c axis,
  dispatch c (Generic axis) =
  if k_axis_bad axis (Z.of_nat (ndim c)) then None else find_kind (axs c) (Z.to_nat (k_axis_ix axis (Z.of_nat (ndim c)))) O.
Proof. exact kernel_dispatch. Qed.
Print Assumptions C03_kernel_dispatch.

(** numpy.unique on a sorted group-label list with the generated stop-index expressions of group_taxa / group_vrnt *)
Theorem C03_kernel_unique_partition : forall l, Sorted.StronglySorted Z.le l ->
  let '(nm, ix, ln) := np_unique l in
  partition_ok l nm ix (map2 k_taxa_spix ix ln) ln /\ partition_ok l nm ix (map2 k_vrnt_spix ix ln) ln.
Proof. exact kernel_unique_partition. Qed.
Print Assumptions C03_kernel_unique_partition.
(** grouped = all four metadata arrays present (both axis kinds) *)
Theorem C03_kernel_is_grouped_all4 : forall n s p l,
  (k_taxa_is_grouped n s p l = true <-> n = true /\ s = true /\ p = true /\ l = true) /\
  (k_vrnt_is_grouped n s p l = true <-> n = true /\ s = true /\ p = true /\ l = true).
Proof. exact kernel_is_grouped_all4. Qed.
Print Assumptions C03_kernel_is_grouped_all4.
(** the group-label array is the LAST default key of lexsort_<kind>, i.e. numpy.lexsort's primary key: only then does
    group_<kind> (sort with the default keys, then numpy.unique on the group labels) see a sorted group array *)
Theorem C03_kernel_group_key_primary :
  grp (schema_of KTaxa) = Some (last k_taxa_skeys O) /\ grp (schema_of KTaxa) = Some (last k_sqtaxa_skeys O) /\
  grp (schema_of KVrnt) = Some (last k_vrnt_skeys O).
Proof. exact kernel_group_key_primary. Qed.
Print Assumptions C03_kernel_group_key_primary.

(** label arguments of adjoin/insert/append/incorp given a matrix-typed `values`: the keyword argument if present, else
    the array of the SAME field of the matrix (the 12 generated tables are the identity), which is the model's [eff_lab] *)
Theorem C03_kernel_label_precedence : forall c k v j,
  Forall (fun p => eff_lab c k v j = k_eff p c k v j)
    [k_taxa_prec_adjoin; k_taxa_prec_insert; k_taxa_prec_append; k_taxa_prec_incorp;
     k_vrnt_prec_adjoin; k_vrnt_prec_insert; k_vrnt_prec_append; k_vrnt_prec_incorp;
     k_trait_prec_adjoin; k_trait_prec_insert; k_trait_prec_append; k_trait_prec_incorp].
Proof. exact kernel_eff_lab. Qed.
Print Assumptions C03_kernel_label_precedence.

(** insert/incorp of the source = wrap the index into a one-element list if the generated test fires on its FORM (Python int,
    numpy integer scalar, ndarray of some ndim and dtype, anything else), then numpy.insert as it is ([old_op_insert]: a
    scalar that arrives there moves axis 0 of the block): equal to the model's operation on the index, for every class,
    axis, operand and every form in which an index value can arrive - a 0-d integer array included.
    (Formerly proved for the test `isinstance(obj, (int, numpy.integer))` with the 0-d array left out; now at full strength.) *)
Theorem C03_kernel_insert_scalar : forall c s k f o v, ships f o = true ->
  src_insert k_taxa_wrap_insert c s k f o v = op_insert c s k o v /\ src_insert k_vrnt_wrap_insert c s k f o v = op_insert c s k o v /\
  src_insert k_trait_wrap_insert c s k f o v = op_insert c s k o v /\ src_incorp k_taxa_wrap_incorp c s k f o v = op_incorp c s k o v /\
  src_incorp k_vrnt_wrap_incorp c s k f o v = op_incorp c s k o v /\ src_incorp k_trait_wrap_incorp c s k f o v = op_incorp c s k o v.
Proof. exact kernel_insert_scalar. Qed.
Print Assumptions C03_kernel_insert_scalar.
(** the hypothesis is met: every bare integer index has the three scalar forms (and they are all shipped as [OInt]) *)
Example C03_scalar_forms_satisfiable : forall i, ships FPyInt (OInt i) = true /\ ships FNpInt (OInt i) = true /\ ships (FArr 0 true) (OInt i) = true.
Proof. exact ships_scalar_forms. Qed.

(** the masked genotyping protocols, stated about the generated membership test `(masknz >= stix) & (masknz < spix)`,
    `keep = len > 0` and `stix = spix - len` (both protocol classes): the rebuilt metadata are a true partition ... *)
Theorem C03_kernel_mask_meta_partition : forall (a : axst) (labs' : list (option larr)) (l : larr) nm ix sp ln (m : list bool) g,
  m_name a = Some nm -> m_stix a = Some ix -> m_spix a = Some sp -> m_len a = Some ln ->
  partition_ok (unsome l) nm ix sp ln -> length m = length l -> nth g labs' None = Some (pick (mask_positions m) l) ->
  grouped_ok (k_mask_meta k_mp_inrange k_mp_keep k_mp_stix (with_labs a labs') (mask_positions m)) g /\
  grouped_ok (k_mask_meta k_mu_inrange k_mu_keep k_mu_stix (with_labs a labs') (mask_positions m)) g.
Proof. exact kernel_mask_meta_partition. Qed.
Print Assumptions C03_kernel_mask_meta_partition.
(** ... and the whole generated pipeline (inversion, kept positions from the local mask, slicing axis, metadata rebuild)
    keeps "grouped => true partition" on both labelled axes of its result *)
Theorem C03_kernel_genotype_meta_inv : forall inv s s', length (axes s) = 3%nat ->
  (forall l, nth 0 (labs (ax_of s 2)) None = Some l -> length l = nth 2 (shape s) O) ->
  meta_ok cDensePhasedGenotypeMatrix s ->
  (k_genotype true k_mp_mask k_mp_mask_axis k_mp_masknz (k_mask_meta k_mp_inrange k_mp_keep k_mp_stix) inv s = OK s' ->
     meta_ok cDensePhasedGenotypeMatrix s') /\
  (k_genotype false k_mu_mask k_mu_mask_axis k_mu_masknz (k_mask_meta k_mu_inrange k_mu_keep k_mu_stix) inv s = OK s' ->
     meta_ok cDenseGenotypeMatrix s').
Proof. exact kernel_genotype_meta_inv. Qed.
Print Assumptions C03_kernel_genotype_meta_inv.

(** square-taxa adjoin_taxa / append_taxa: the generated extent and slice bounds put the old block on [0, m) and the new
    block on [m, m + v) of each square axis (contiguous, disjoint, exhaustive); the model's block-diagonal layout has the
    generated extents *)
Theorem C03_kernel_square_blocks :
  blocks_ok k_sq_adjoin_extent k_sq_adjoin_self_lo k_sq_adjoin_self_hi k_sq_adjoin_vals_lo k_sq_adjoin_vals_hi /\
  blocks_ok k_sq_append_extent k_sq_append_self_lo k_sq_append_self_hi k_sq_append_vals_lo k_sq_append_vals_hi.
Proof. exact kernel_square_blocks. Qed.
Print Assumptions C03_kernel_square_blocks.
Theorem C03_kernel_square_extent : forall n0 n1 rest t k0 k1 vrest v,
  snd (blockdiag (n0 :: n1 :: rest) t (k0 :: k1 :: vrest) v) =
    Z.to_nat (k_sq_adjoin_extent (Z.of_nat n0) (Z.of_nat k0)) :: Z.to_nat (k_sq_adjoin_extent (Z.of_nat n1) (Z.of_nat k1)) :: rest /\
  snd (blockdiag (n0 :: n1 :: rest) t (k0 :: k1 :: vrest) v) =
    Z.to_nat (k_sq_append_extent (Z.of_nat n0) (Z.of_nat k0)) :: Z.to_nat (k_sq_append_extent (Z.of_nat n1) (Z.of_nat k1)) :: rest.
Proof. exact k_sq_extent_model. Qed.
Print Assumptions C03_kernel_square_extent.

(** group_<kind> of the source (generated unpacking of numpy.unique and stop-index expression) applied to an axis whose
    group labels are sorted yields metadata that are a true contiguous partition of those labels *)
Theorem C03_kernel_group_meta_partition : forall a g l, nth g (labs a) None = Some l -> Sorted.StronglySorted Z.le (unsome l) ->
  grouped_ok (k_group_meta k_taxa_unique_unpack k_taxa_spix a g) g /\ grouped_ok (k_group_meta k_vrnt_unique_unpack k_vrnt_spix a g) g.
Proof. exact kernel_group_meta_partition. Qed.
Print Assumptions C03_kernel_group_meta_partition.

(** sessions: running h1 ++ h2 is running h1 and then h2 from the class and state h1 reached - the outcome of every later
    call is a function of the state at that call, never of how the state was obtained (no hidden history) ... *)
Theorem C03_run_app : forall h1 c s h2,
  run c s (h1 ++ h2) =
  (if snd (run c s h1) then (fst (run c s h1), true)
   else let cs := last_state c s (fst (run c s h1)) in
        (fst (run c s h1) ++ fst (run (fst cs) (snd cs) h2), snd (run (fst cs) (snd cs) h2))).
Proof. exact run_app. Qed.
Print Assumptions C03_run_app.
(** ... so two sessions that reach the same state continue identically *)
Theorem C03_run_state_only : forall c1 s1 h1 c2 s2 h2 h,
  snd (run c1 s1 h1) = false -> snd (run c2 s2 h2) = false ->
  last_state c1 s1 (fst (run c1 s1 h1)) = last_state c2 s2 (fst (run c2 s2 h2)) ->
  skipn (length (fst (run c1 s1 h1))) (fst (run c1 s1 (h1 ++ h))) = skipn (length (fst (run c2 s2 h2))) (fst (run c2 s2 (h2 ++ h)))
  /\ snd (run c1 s1 (h1 ++ h)) = snd (run c2 s2 (h2 ++ h)).
Proof. exact run_state_only. Qed.
Print Assumptions C03_run_state_only.
(** generic is_grouped(axis) answers what the axis-specific is_grouped_<kind> of the dispatched kind answers *)
Theorem C03_is_grouped_generic : forall c s axis k, has_group c = true -> dispatch c (Generic axis) = Some k ->
  is_grouped_gen c s axis =
  match kind_of c k with KTaxa | KVrnt => Some (is_grouped (ax_of s k)) | KPhase => Some false | KTrait => None end.
Proof. exact is_grouped_gen_specific. Qed.
Print Assumptions C03_is_grouped_generic.

Definition w0_s : st := mkst [2; 1]%nat (T2 [[1]; [2]]) [mkax [Some (L [3; 4]); Some (L [1; 1])] None None None None].
(** non-vacuity of the kernel theorems' hypotheses: axis -1 of a 3-dimensional array is accepted and is index 2; a sorted
    group-label list with two groups *)
Example C03_kernel_hyps_satisfiable :
  k_axis_bad (-1) 3 = false /\ k_axis_ix (-1) 3 = 2 /\ k_axis_bad 3 3 = true /\ k_axis_bad (-4) 3 = true /\
  Sorted.StronglySorted Z.le [1; 1; 2] /\ np_unique [1; 1; 2] = ([1; 2], [0; 2], [2; 1]) /\
  map2 k_taxa_spix [0; 2] [2; 1] = [2; 3] /\
  (* two different sessions reaching the same state *)
  snd (run cDenseTaxaMatrix w0_s [HOp (Specific 0) Ungroup]) = false /\
  last_state cDenseTaxaMatrix w0_s (fst (run cDenseTaxaMatrix w0_s [HOp (Specific 0) Ungroup])) =
  last_state cDenseTaxaMatrix w0_s (fst (run cDenseTaxaMatrix w0_s [HOp (Generic (-2)) Ungroup; HOp (Specific 0) Ungroup])).
Proof. repeat split; repeat constructor; cbn; lia. Qed.

(** non-vacuity: the hypotheses of the refinement theorems are met by a concrete labelled 2 x 3 taxa x variant matrix
    and a concrete 2 x 2 operand (first two conjuncts of the witness above) *)
Example C03_hyps_satisfiable :
  wf_cls cDenseTaxaVariantMatrix /\
  Rep w_val w_lbl cDenseTaxaVariantMatrix w1_s [[0; 1]; [0; 1; 2]]%nat /\
  RepOpd w_val w_lbl (pol_ins (sch cDenseTaxaVariantMatrix 1)) cDenseTaxaVariantMatrix 1 w1_s w1_v [[0; 1]; [0; 1; 2]]%nat [5; 6]%nat /\
  taxes cDenseTaxaVariantMatrix 1 = [1%nat].
Proof.
  split; [apply wf_clsb_wf; reflexivity|]. destruct scalar_insert_witness as (H1 & H2 & _).
  split; [exact H1|]. split; [exact H2|reflexivity].
Qed.
