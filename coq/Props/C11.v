(** C11 — genetic maps and map functions obey their defining laws.
    Property theorems only: statement, [exact] of a lemma proved in Proofs/, [Print Assumptions].
    Models: Model/C11_MapFn.v (Haldane/Kosambi over R + verified interval evaluator),
            Model/C11_Map.v  (StandardGeneticMap / ExtendedGeneticMap / interp_xoprob, exact rationals),
            Model/C11_Check.v (the comparisons evaluated by the correspondence shards),
            Model/C11_Session.v (sessions of interp_genpos / interp_xoprob calls on one variant matrix). *)
From Coq Require Import Reals QArith Qreals Sorting.Sorted Sorting.Permutation.
From Coq Require Import PrimFloat.
From PV Require Import Lib.Common Model.C11_Map Model.C11_MapFn Model.C11_Check Proofs.C11_Map Proofs.C11_MapFn Proofs.C11_Xo Proofs.C11_Float
  Gen.C11_Kernel Proofs.C11_Kernel Proofs.C11_Laws Model.C11_Session Proofs.C11_Session.

(** * map functions *)
(** both map functions send 0 to 0, [0,inf) into [0,1/2), are strictly increasing, tend to 1/2 at infinity, are undone
    by their inverse on all of R, and undo their inverse on [0,1/2) (where the inverse is a non-negative distance) *)
Theorem C11_mapfn_laws : forall k : mapkind,
  (mapfn k 0 = 0 /\
  (forall d, 0 <= d -> 0 <= mapfn k d < 1 / 2) /\
  (forall d1 d2, d1 < d2 -> mapfn k d1 < mapfn k d2) /\
  (forall eps, 0 < eps -> exists D, 0 <= D /\ forall d, D <= d -> 1 / 2 - eps < mapfn k d < 1 / 2) /\
  (forall d, invmapfn k (mapfn k d) = d) /\
  (forall r, 0 <= r < 1 / 2 -> mapfn k (invmapfn k r) = r /\ 0 <= invmapfn k r))%R.
Proof. exact mapfn_laws. Qed.
Print Assumptions C11_mapfn_laws.

(** a [true] answer of the point checks evaluated in the shards bounds the distance between the implementation's
    binary64 value (r, resp. d) and the real-valued function (Coq-Interval enclosures at 80 bits) *)
Theorem C11_mapfn_check_sound : forall k d r, mapfn_ok k d r = true ->
  (Rabs (mapfn k (Q2R d) - Q2R r) <= Q2R (tol45 * (1 + Qabs_ r)))%R.
Proof. exact mapfn_ok_sound. Qed.
Print Assumptions C11_mapfn_check_sound.

Theorem C11_invmapfn_check_sound : forall k r d, (- (1 / 2) < Q2R r < 1 / 2)%R -> invmapfn_ok k r d = true ->
  (Rabs (invmapfn k (Q2R r) - Q2R d) <= Q2R (tol45 * (1 + Qabs_ d)))%R.
Proof. exact invmapfn_ok_sound. Qed.
Print Assumptions C11_invmapfn_check_sound.

(** * constructor *)
(** the constructor stores a permutation of the supplied rows, sorted by (chromosome, physical, genetic) *)
Theorem C11_constructor_sorts : forall input, Permutation (gm_rows input) input /\ StronglySorted key_le (gm_rows input).
Proof. exact constructor_sorts. Qed.
Print Assumptions C11_constructor_sorts.

(** nothing depends on the order in which the rows were supplied (no duplicated physical position on a chromosome):
    stored rows incl. the ExtendedGeneticMap payload, group metadata, interpolation, interp_gmap, congruence, crossover gaps *)
Theorem C11_row_order_independent : forall l l', distinct_pos l -> Permutation l l' ->
  gm_rows l = gm_rows l' /\ gm_meta l = gm_meta l' /\
  (forall q, interp_genpos (gm_rows l) q = interp_genpos (gm_rows l') q) /\
  (forall q, interp_gmap l q = interp_gmap l' q) /\
  congruence (gm_rows l) = congruence (gm_rows l') /\
  (forall v, gmat_gaps (gm_rows l) v = gmat_gaps (gm_rows l') v).
Proof. exact map_row_order_independent. Qed.
Print Assumptions C11_row_order_independent.

(** group metadata: the four arrays have one entry per group, (name, length) run-length-decodes to the label array,
    and on a sorted label array the names are strictly increasing *)
Theorem C11_group_metadata : forall chrs,
  (let '(names, st, sp, ln) := group_meta chrs in
   length st = length names /\ length sp = length names /\ length ln = length names /\ decode_runs (combine names ln) = chrs)
  /\ (Sorted Z.le chrs -> Sorted Z.lt (map fst (runs chrs))).
Proof. exact group_metadata. Qed.
Print Assumptions C11_group_metadata.

(** * distances *)
(** pairwise distances: symmetric, infinite between chromosomes, zero on the diagonal, non-negative, additive along a
    chromosome for ordered markers *)
Theorem C11_pairwise_distance_laws : forall chrs gens, length chrs = length gens -> Forall is_position gens ->
  let n := length chrs in
  let M i j := nth j (nth i (gdist2g chrs gens None None None None) []) NaN in
  forall i j, (i < n)%nat -> (j < n)%nat ->
    ext_equiv (M i j) (M j i) /\
    (nth i chrs 0%Z <> nth j chrs 0%Z -> M i j = PInf) /\
    (forall g, nth i gens NaN = Fin g -> ext_equiv (M i i) (Fin 0)) /\
    (forall d, M i j = Fin d -> (0 <= d)%Q) /\
    (forall k gi gj gk, (k < n)%nat -> nth i chrs 0%Z = nth j chrs 0%Z -> nth j chrs 0%Z = nth k chrs 0%Z ->
       nth i gens NaN = Fin gi -> nth j gens NaN = Fin gj -> nth k gens NaN = Fin gk -> (gi <= gj)%Q -> (gj <= gk)%Q ->
       exists dij djk dik, M i j = Fin dij /\ M j k = Fin djk /\ M i k = Fin dik /\ (dik == dij + djk)%Q).
Proof. exact pairwise_distance_laws. Qed.
Print Assumptions C11_pairwise_distance_laws.

(** sequential distances: +inf at the first marker and at every change of chromosome (where the pairwise distance is
    +inf too), the first difference inside a chromosome, equal to the pairwise distance to the predecessor for ordered markers *)
Theorem C11_sequential_agrees_with_pairwise : forall chrs gens, length chrs = length gens -> Forall is_position gens ->
  let n := length chrs in
  let s := gdist1g chrs gens None None in
  let M i j := nth j (nth i (gdist2g chrs gens None None None None) []) NaN in
  length s = n /\
  ((0 < n)%nat -> nth 0 s NaN = PInf) /\
  forall j, (S j < n)%nat ->
    (nth j chrs 0%Z <> nth (S j) chrs 0%Z -> nth (S j) s NaN = PInf /\ M j (S j) = PInf) /\
    (nth j chrs 0%Z = nth (S j) chrs 0%Z -> nth (S j) s NaN = ext_sub (nth (S j) gens NaN) (nth j gens NaN)) /\
    ((forall gp gc, nth j gens NaN = Fin gp -> nth (S j) gens NaN = Fin gc -> nth j chrs 0%Z = nth (S j) chrs 0%Z -> (gp <= gc)%Q) ->
       ext_equiv (nth (S j) s NaN) (M j (S j))).
Proof. exact sequential_distance_laws. Qed.
Print Assumptions C11_sequential_agrees_with_pairwise.

(** * interpolation *)
(** interpolating a well-formed map at its own markers returns their stored positions *)
Theorem C11_interp_own_markers : forall rows, wf_map rows ->
  Forall2 ext_equiv (interp_genpos rows (own_pairs rows)) (fin_gens rows).
Proof. exact interp_own_markers. Qed.
Print Assumptions C11_interp_own_markers.

(** the same in binary64, bit for bit: scipy's barycentric evaluation (PrimFloat model, compared bit-exactly with the
    implementation on every generated case) returns the stored position at every knot, for all finite positions and
    all knot distances up to 2^53 (Flocq) *)
Theorem C11_interp_own_markers_binary64 : forall (pts : list (Z * PrimFloat.float)) i, (2 <= length pts)%nat -> incr (map fst pts) ->
  (forall a b, (a < b < length pts)%nat -> (nth b (map fst pts) 0 - nth a (map fst pts) 0 <= 2^53)%Z) ->
  Forall (fun p => finite64 (snd p)) pts -> (i < length pts)%nat ->
  PrimFloat.eqb (interp1_f pts (fst (nth i pts (0%Z, 0%float)))) (snd (nth i pts (0%Z, 0%float))) = true.
Proof. exact interp1_f_at_knot. Qed.
Print Assumptions C11_interp_own_markers_binary64.

(** between two consecutive markers of a chromosome the interpolated position lies on their chord (linear) *)
Theorem C11_interp_linear_between : forall rows c i x, wf_map rows -> has_chr rows c = true ->
  let k := knots rows c in (S i < length k)%nat -> (fst (nth i k (0%Z, 0%Q)) <= x <= fst (nth (S i) k (0%Z, 0%Q)))%Z ->
  exists g, interp_pos rows (c, x) = Fin g /\
    (g == chord x (fst (nth i k (0%Z, 0%Q))) (snd (nth i k (0%Z, 0%Q))) (fst (nth (S i) k (0%Z, 0%Q))) (snd (nth (S i) k (0%Z, 0%Q))))%Q.
Proof. exact interp_linear_between. Qed.
Print Assumptions C11_interp_linear_between.

(** outside the knot range the first / last chord is continued (fill_value = "extrapolate") *)
Theorem C11_interp_extrapolates : forall pts, (2 <= length pts)%nat -> incr (map fst pts) ->
  let n := length pts in
  (forall x, (x <= fst (nth 0 pts (0%Z, 0%Q)))%Z ->
     (interp1 pts x == chord x (fst (nth 0 pts (0%Z, 0%Q))) (snd (nth 0 pts (0%Z, 0%Q))) (fst (nth 1 pts (0%Z, 0%Q))) (snd (nth 1 pts (0%Z, 0%Q))))%Q) /\
  (forall x, (fst (nth (n - 1) pts (0%Z, 0%Q)) <= x)%Z ->
     (interp1 pts x == chord x (fst (nth (n - 2) pts (0%Z, 0%Q))) (snd (nth (n - 2) pts (0%Z, 0%Q)))
                              (fst (nth (n - 1) pts (0%Z, 0%Q))) (snd (nth (n - 1) pts (0%Z, 0%Q))))%Q).
Proof. exact interp_extrapolates. Qed.
Print Assumptions C11_interp_extrapolates.

(** on a congruent map interpolation preserves the order of physical positions (including extrapolated ones) *)
Theorem C11_interp_order_preserving : forall rows c x x', wf_map rows -> is_congruent rows = true -> has_chr rows c = true ->
  (x <= x')%Z -> exists g g', interp_pos rows (c, x) = Fin g /\ interp_pos rows (c, x') = Fin g' /\ (g <= g')%Q.
Proof. exact interp_order_preserving. Qed.
Print Assumptions C11_interp_order_preserving.

(** positions on chromosomes absent from the map are reported missing, all others are finite *)
Theorem C11_interp_off_map_missing : forall rows c x,
  (has_chr rows c = false -> interp_pos rows (c, x) = NaN) /\
  (has_chr rows c = true -> interp_pos rows (c, x) = Fin (interp1 (spline_knots rows c) x)).
Proof. exact interp_off_map_missing. Qed.
Print Assumptions C11_interp_off_map_missing.

(** the spline does not depend on the order of the arrays it is built from (interp1d sorts the knots): a map built with
    auto_group = False interpolates exactly like the sorted map, and on a sorted map the knot sort is the identity *)
Theorem C11_spline_independent_of_array_order : forall input, distinct_pos input ->
  (forall cx, interp_pos input cx = interp_pos (gm_rows input) cx) /\
  (forall c, spline_knots input c = knots (gm_rows input) c) /\
  (forall c, spline_knots (gm_rows input) c = knots (gm_rows input) c).
Proof. exact spline_independent_of_array_order. Qed.
Print Assumptions C11_spline_independent_of_array_order.

(** * crossover probabilities *)
(** vrnt_xoprob: the variants are the sorted query, the first variant and every variant whose chromosome differs from
    its predecessor's get 1/2, every other variant gets the map function of the gap between consecutive interpolated
    positions (NaN when a position is missing); a change of chromosome marks the first variant of that chromosome *)
Theorem C11_xoprob_is_mapfn_of_gaps : forall k rows variants,
  let sv := sort_pairs variants in
  let gp := interp_genpos rows sv in
  Permutation sv variants /\ Sorted pair_le sv /\
  length (xoprob k rows variants) = length variants /\
  ((0 < length variants)%nat -> nth 0 (xoprob k rows variants) XNaN = XR (1 / 2)%R) /\
  (forall j, (S j < length variants)%nat ->
     nth (S j) (xoprob k rows variants) XNaN =
     if (fst (nth j sv (0, 0)) =? fst (nth (S j) sv (0, 0)))%Z
     then mapfn_ext k (ext_sub (nth (S j) gp NaN) (nth j gp NaN))
     else XR (1 / 2)%R).
Proof. exact xoprob_spec. Qed.
Print Assumptions C11_xoprob_is_mapfn_of_gaps.

Theorem C11_chromosome_change_is_chromosome_start : forall l j, Sorted pair_le l -> (S j < length l)%nat ->
  fst (nth j l (0, 0)%Z) <> fst (nth (S j) l (0, 0)%Z) ->
  forall i, (i <= j)%nat -> (fst (nth i l (0, 0)%Z) < fst (nth (S j) l (0, 0)%Z))%Z.
Proof. exact chr_start_is_first. Qed.
Print Assumptions C11_chromosome_change_is_chromosome_start.

(** what a [true] answer of the shard's crossover-probability point check means *)
Theorem C11_xoprob_check_sound : forall k gap gapf xo, xo_pt k gap gapf xo = true ->
  match mapfn_ext k gap, xo with
  | XR v, Fin x => (Rabs (v - Q2R x) <= match gap with Fin g => Q2R (tol_near g x) | _ => 0 end)%R
  | XNaN, NaN => True
  | _, _ => False
  end.
Proof. exact xo_pt_sound. Qed.
Print Assumptions C11_xoprob_check_sound.

(** * interp_gmap: the new map holds the query markers in query order with the interpolated positions and carries no
      grouping of the source map ([None]: not grouped); the grouping it computes for itself on first use describes its own
      markers — one entry per group, (name, length) run-length-decodes to its own sorted label array, names strictly
      increasing.  (Finding C11-interp-gmap-stale-groups, repaired: full strength, for every query.) *)
Theorem C11_interp_gmap_meta : forall input query,
  let '(q, g, m) := interp_gmap input query in
  q = query /\ g = interp_genpos (gm_rows input) query /\ m = None /\
  Permutation (igmap_markers q) q /\ Sorted pair_le (igmap_markers q) /\
  let '(names, st, sp, ln) := igmap_group q in
  length st = length names /\ length sp = length names /\ length ln = length names /\
  decode_runs (combine names ln) = map fst (igmap_markers q) /\ Sorted Z.lt names.
Proof. exact interp_gmap_meta. Qed.
Print Assumptions C11_interp_gmap_meta.

(** regression witness about the FORMER code ([old_interp_gmap] copied the source map's metadata): the copied grouping did
    not describe the new map's markers *)
Theorem C11_old_interp_gmap_meta_refuted : exists input query, distinct_pos input /\
  let '(q, g, m) := old_interp_gmap input query in m <> Some (group_meta (map fst q)) /\ m <> None.
Proof. exact old_interp_gmap_meta_refuted. Qed.
Print Assumptions C11_old_interp_gmap_meta_refuted.

(** * remove_discrepancies / select / remove rebuild the spline from the remaining markers (finding
      C11-stale-spline-after-remove-discrepancies, repaired: full strength, for every well-formed map that keeps two markers
      per chromosome): the reduced map is well-formed, interpolation right after the reduction is exact at the remaining
      markers, lies on the chord between consecutive remaining markers, preserves order once the reduced map is congruent,
      and reports chromosomes absent from the reduced map as missing *)
Theorem C11_interp_after_remove_discrepancies : forall rows, wf_map rows -> two_markers (rd_rows rows) ->
  wf_map (rd_rows rows) /\
  Forall2 ext_equiv (rd_interp_genpos rows (own_pairs (rd_rows rows))) (fin_gens (rd_rows rows)) /\
  (forall c i x, has_chr (rd_rows rows) c = true ->
     let k := knots (rd_rows rows) c in (S i < length k)%nat -> (fst (nth i k (0%Z, 0%Q)) <= x <= fst (nth (S i) k (0%Z, 0%Q)))%Z ->
     exists g, rd_interp_pos rows (c, x) = Fin g /\
       (g == chord x (fst (nth i k (0%Z, 0%Q))) (snd (nth i k (0%Z, 0%Q))) (fst (nth (S i) k (0%Z, 0%Q))) (snd (nth (S i) k (0%Z, 0%Q))))%Q) /\
  (forall c x x', is_congruent (rd_rows rows) = true -> has_chr (rd_rows rows) c = true -> (x <= x')%Z ->
     exists g g', rd_interp_pos rows (c, x) = Fin g /\ rd_interp_pos rows (c, x') = Fin g' /\ (g <= g')%Q) /\
  (forall c x, has_chr (rd_rows rows) c = false -> rd_interp_pos rows (c, x) = NaN).
Proof. exact rd_interp_laws. Qed.
Print Assumptions C11_interp_after_remove_discrepancies.

(** any selection of markers (select(mask); remove(indices) is the complementary mask) of a map without duplicated positions
    is again a well-formed map when two markers stay on every chromosome; nothing is removed from a congruent map *)
Theorem C11_select_keeps_map_well_formed : forall rows mask, distinct_pos rows -> two_markers (select_rows rows mask) ->
  wf_map (select_rows rows mask).
Proof. exact select_rows_wf. Qed.
Print Assumptions C11_select_keeps_map_well_formed.

Theorem C11_remove_discrepancies_congruent_noop : forall rows, is_congruent rows = true -> rd_rows rows = rows.
Proof. exact rd_rows_congruent. Qed.
Print Assumptions C11_remove_discrepancies_congruent_noop.

(** regression witness about the FORMER code ([old_rd_interp_pos] = the spline of the unreduced rows was kept): the reduced
    map was well-formed and congruent while the object still interpolated through the removed markers *)
Theorem C11_old_stale_spline_refuted : exists rows c x i,
  wf_map (rd_rows rows) /\ is_congruent (rd_rows rows) = true /\
  let k := knots (rd_rows rows) c in
  (S i < length k)%nat /\ (fst (nth i k (0%Z, 0%Q)) <= x <= fst (nth (S i) k (0%Z, 0%Q)))%Z /\
  exists g, old_rd_interp_pos rows (c, x) = Fin g /\
    ~ (g == chord x (fst (nth i k (0%Z, 0%Q))) (snd (nth i k (0%Z, 0%Q))) (fst (nth (S i) k (0%Z, 0%Q))) (snd (nth (S i) k (0%Z, 0%Q))))%Q.
Proof. exact old_stale_spline_refuted. Qed.
Print Assumptions C11_old_stale_spline_refuted.

(** non-vacuity: a concrete two-chromosome, six-marker map (supplied out of order) is well-formed and congruent *)
Example C11_hyps_satisfiable : (wf_map (gm_rows wit_rows) /\ is_congruent (gm_rows wit_rows) = true /\ distinct_pos wit_rows
  /\ has_chr (gm_rows wit_rows) 1 = true /\ incr (map fst (knots (gm_rows wit_rows) 1)))
  /\ Forall (fun p : Z * PrimFloat.float => finite64 (snd p)) [(5%Z, 0%float); (9%Z, 0.25%float); (20%Z, 0.5%float)]
  /\ (wf_map wit_rd /\ two_markers (rd_rows wit_rd) /\ is_congruent wit_rd = false /\ is_congruent (rd_rows wit_rd) = true).
Proof. split; [exact hyps_satisfiable | split; [repeat constructor; reflexivity | exact wit_rd_wf]]. Qed.

Local Open Scope Z_scope.

(** * The kernel expressions and call shapes of the CURRENT source (Gen/C11_Kernel.v is regenerated from
      StandardGeneticMap.py, ExtendedGeneticMap.py, HaldaneMapFunction.py, KosambiMapFunction.py, DenseGeneticMappableMatrix.py and
      util.py on every run by harness/translate/c11_kernel.py) are the ones the model uses: default sort keys, group metadata,
      congruence comparison, spline mask / knots / assume_sorted, the KeyError -> NaN branch, sequential difference and its
      operand order, pairwise |gi - gj| with +inf across chromosomes and the row / column slice bounds, the call shapes of
      gdist1p / gdist2p / interp_xoprob, and the centiMorgan factor.  A changed expression makes this file fail to build. *)
Theorem C11_kernel_is_model :
  (forall a b, key_leb a b = k_std_key_leb (r_chr a) (r_phy a) (r_gen a) (r_chr b) (r_phy b) (r_gen b)
            /\ key_leb a b = k_ext_key_leb (r_chr a) (r_phy a) (r_gen a) (r_chr b) (r_phy b) (r_gen b)) /\
  (forall chrs, let u := (map fst (runs chrs), starts 0 (map snd (runs chrs)), map snd (runs chrs)) in
     group_meta chrs = k_std_group_meta (fst (fst u)) (snd (fst u)) (snd u) /\ group_meta chrs = k_ext_group_meta (fst (fst u)) (snd (fst u)) (snd u)) /\
  (forall p r t, congruence_from (Some p) (r :: t) = (if r_chr p =? r_chr r then k_std_congr (r_gen p) (r_gen r) else k_std_congr_first) :: congruence_from (Some r) t
              /\ congruence_from (Some p) (r :: t) = (if r_chr p =? r_chr r then k_ext_congr (r_gen p) (r_gen r) else k_ext_congr_first) :: congruence_from (Some r) t) /\
  (forall rows c, spline_knots rows c = (if k_std_spline_assume_sorted then (fun l => l) else sort_knots)
                                          (map (fun r => k_std_spline_knot (r_phy r) (r_gen r)) (filter (fun r => k_std_spline_mask (r_chr r) c) rows))
               /\ spline_knots rows c = (if k_ext_spline_assume_sorted then (fun l => l) else sort_knots)
                                          (map (fun r => k_ext_spline_knot (r_phy r) (r_gen r)) (filter (fun r => k_ext_spline_mask (r_chr r) c) rows))) /\
  (forall rows c x, interp_pos rows (c, x) = k_std_interp_pos ext (spline_dict rows) NaN PInf c x
                 /\ interp_pos rows (c, x) = k_ext_interp_pos ext (spline_dict rows) NaN PInf c x) /\
  (forall pc pg c g ct gt,
     gdist1g_from (Some (pc, Fin pg)) (c :: ct) (Fin g :: gt)
       = (if pc =? c then Fin (k_std_gdist1_q g pg) else k_std_gdist1_start ext PInf NaN) :: gdist1g_from (Some (c, Fin g)) ct gt
  /\ gdist1g_from (Some (pc, Fin pg)) (c :: ct) (Fin g :: gt)
       = (if pc =? c then Fin (k_ext_gdist1_q g pg) else k_ext_gdist1_start ext PInf NaN) :: gdist1g_from (Some (c, Fin g)) ct gt) /\
  (forall ci gi cj gj, gdist2 ci (Fin gi) cj (Fin gj) = (if k_std_gdist2_across ci cj then PInf else Fin (k_std_gdist2_q gi gj))
                    /\ gdist2 ci (Fin gi) cj (Fin gj) = (if k_ext_gdist2_across ci cj then PInf else Fin (k_ext_gdist2_q gi gj))) /\
  (forall chrs gens rst rsp cst csp,
     gdist2g chrs gens rst rsp cst csp = gdist2g_sliced (k_std_gdist2_rows rst rsp cst csp, k_std_gdist2_cols rst rsp cst csp) chrs gens
  /\ gdist2g chrs gens rst rsp cst csp = gdist2g_sliced (k_ext_gdist2_rows rst rsp cst csp, k_ext_gdist2_cols rst rsp cst csp) chrs gens) /\
  (forall rows query ast asp,
     gdist1p rows query ast asp = k_std_gdist1p _ _ _ _ (interp_arrays rows) gdist1g (map fst query) (map snd query) ast asp
  /\ gdist1p rows query ast asp = k_ext_gdist1p _ _ _ _ (interp_arrays rows) gdist1g (map fst query) (map snd query) ast asp) /\
  (forall rows query rst rsp cst csp,
     gdist2p rows query rst rsp cst csp = k_std_gdist2p _ _ _ _ (interp_arrays rows) gdist2g (map fst query) (map snd query) rst rsp cst csp
  /\ gdist2p rows query rst rsp cst csp = k_ext_gdist2p _ _ _ _ (interp_arrays rows) gdist2g (map fst query) (map snd query) rst rsp cst csp) /\
  (forall k rows variants, let sv := sort_pairs variants in
     k_gmat_interp_xoprob _ _ _ _ (interp_arrays rows) (rprob1g_of k) (map fst sv) (map snd sv) = (gmat_genpos rows variants, xoprob k rows variants)) /\
  (forall x, k_cM2d x = cM2d_f x /\ k_std_genpos_cM x = stored_gen_f true x /\ k_ext_genpos_cM x = stored_gen_f true x).
Proof. exact kernel_is_model. Qed.
Print Assumptions C11_kernel_is_model.

(** the bodies of mapfn / invmapfn of both map-function classes, as generated, are the real functions of the model ... *)
Theorem C11_kernel_mapfn_is_model : forall k x, k_mapfn k x = mapfn k x /\ k_invmapfn k x = invmapfn k x.
Proof. exact (fun k x => conj (k_mapfn_model k x) (k_invmapfn_model k x)). Qed.
Print Assumptions C11_kernel_mapfn_is_model.

(** ... and obey the defining laws themselves *)
Theorem C11_kernel_mapfn_laws : forall k : mapkind,
  (k_mapfn k 0 = 0 /\
  (forall d, 0 <= d -> 0 <= k_mapfn k d < 1 / 2) /\
  (forall d1 d2, d1 < d2 -> k_mapfn k d1 < k_mapfn k d2) /\
  (forall eps, 0 < eps -> exists D, 0 <= D /\ forall d, D <= d -> 1 / 2 - eps < k_mapfn k d < 1 / 2) /\
  (forall d, k_invmapfn k (k_mapfn k d) = d) /\
  (forall r, 0 <= r < 1 / 2 -> k_mapfn k (k_invmapfn k r) = r /\ 0 <= k_invmapfn k r))%R.
Proof. exact kernel_mapfn_laws. Qed.
Print Assumptions C11_kernel_mapfn_laws.

(** every rprob method of both map functions is the map function of the distance method of the same name *)
Theorem C11_kernel_rprob_shapes : forall (C X Dst Pr : Type) (mf : Dst -> Pr) (d1g d2g d1p d2p : C -> X -> Dst) c x,
  (k_haldane_rprob1g C X Dst Pr mf d1g d2g d1p d2p c x = mf (d1g c x) /\ k_haldane_rprob2g C X Dst Pr mf d1g d2g d1p d2p c x = mf (d2g c x) /\
   k_haldane_rprob1p C X Dst Pr mf d1g d2g d1p d2p c x = mf (d1p c x) /\ k_haldane_rprob2p C X Dst Pr mf d1g d2g d1p d2p c x = mf (d2p c x)) /\
  (k_kosambi_rprob1g C X Dst Pr mf d1g d2g d1p d2p c x = mf (d1g c x) /\ k_kosambi_rprob2g C X Dst Pr mf d1g d2g d1p d2p c x = mf (d2g c x) /\
   k_kosambi_rprob1p C X Dst Pr mf d1g d2g d1p d2p c x = mf (d1p c x) /\ k_kosambi_rprob2p C X Dst Pr mf d1g d2g d1p d2p c x = mf (d2p c x)).
Proof. exact k_rprob_shapes. Qed.
Print Assumptions C11_kernel_rprob_shapes.

(** distance laws about the generated kernels: pairwise symmetric, zero on the diagonal, infinite across chromosomes; the
    sequential kernel (current - previous) equals the pairwise one for ordered positions *)
Theorem C11_kernel_gdist2_laws : forall ci gi cj gj,
  let d a x b y := if k_std_gdist2_across a b then PInf else Fin (k_std_gdist2_q x y) in
  ext_equiv (d ci gi cj gj) (d cj gj ci gi) /\ ext_equiv (d ci gi ci gi) (Fin 0) /\ (ci <> cj -> d ci gi cj gj = PInf).
Proof. exact kernel_gdist2_laws. Qed.
Print Assumptions C11_kernel_gdist2_laws.

Theorem C11_kernel_gdist1_is_gdist2 : forall g pg, (pg <= g)%Q -> (k_std_gdist1_q g pg == k_std_gdist2_q pg g)%Q /\ (k_ext_gdist1_q g pg == k_ext_gdist2_q pg g)%Q.
Proof. exact kernel_gdist1_is_gdist2. Qed.
Print Assumptions C11_kernel_gdist1_is_gdist2.

(** on a map flagged congruent consecutive markers of a chromosome satisfy the generated comparison *)
Theorem C11_kernel_congruent_pairs : forall l p r, is_congruent (p :: r :: l) = true -> r_chr p = r_chr r ->
  k_std_congr (r_gen p) (r_gen r) = true /\ k_ext_congr (r_gen p) (r_gen r) = true.
Proof. exact kernel_congruent_pairs. Qed.
Print Assumptions C11_kernel_congruent_pairs.

(** non-vacuity of the hypotheses of the two kernel theorems above *)
Example C11_kernel_hyps_satisfiable :
  is_congruent [mkRow 1 10 0 []; mkRow 1 20 (1 # 2) []; mkRow 2 5 (1 # 4) []] = true /\ r_chr (mkRow 1 10 0 []) = r_chr (mkRow 1 20 (1 # 2) [])
  /\ ((1 # 4) <= (1 # 2))%Q.
Proof. repeat split; discriminate. Qed.

(** * Further laws (Proofs/C11_Laws.v) *)
(** ANY selection of markers — select(indices | mask), remove(indices | slice), ExtendedGeneticMap.prune(nt, M) — of a map without
    duplicated positions that keeps two markers per chromosome is a well-formed map on which interpolation (the spline is rebuilt
    from the remaining markers) is exact at the remaining markers, lies on the chord between consecutive remaining markers and
    reports absent chromosomes as missing *)
Theorem C11_interp_after_any_selection : forall rows mask, distinct_pos rows -> two_markers (select_rows rows mask) ->
  let rows' := select_rows rows mask in
  wf_map rows' /\
  Forall2 ext_equiv (interp_genpos rows' (own_pairs rows')) (fin_gens rows') /\
  (forall c i x, has_chr rows' c = true ->
     let k := knots rows' c in (S i < length k)%nat -> (fst (nth i k (0%Z, 0%Q)) <= x <= fst (nth (S i) k (0%Z, 0%Q)))%Z ->
     exists g, interp_pos rows' (c, x) = Fin g /\
       (g == chord x (fst (nth i k (0%Z, 0%Q))) (snd (nth i k (0%Z, 0%Q))) (fst (nth (S i) k (0%Z, 0%Q))) (snd (nth (S i) k (0%Z, 0%Q))))%Q) /\
  (forall c x, has_chr rows' c = false -> interp_pos rows' (c, x) = NaN).
Proof. exact interp_after_select. Qed.
Print Assumptions C11_interp_after_any_selection.

(** scaling every genetic position of a chromosome by s scales every interpolated (and extrapolated) position by s *)
Theorem C11_interp_scale_covariant : forall s pts x, (2 <= length pts)%nat -> (interp1 (scale_knots s pts) x == s * interp1 pts x)%Q.
Proof. exact interp1_scale. Qed.
Print Assumptions C11_interp_scale_covariant.

(** translating all physical positions of a chromosome and the query by t leaves the interpolated position unchanged *)
Theorem C11_interp_shift_invariant : forall t pts x, (2 <= length pts)%nat -> (interp1 (shift_knots t pts) (x + t) == interp1 pts x)%Q.
Proof. exact interp1_shift. Qed.
Print Assumptions C11_interp_shift_invariant.

(** the sequential distances of the window [ast:asp] of a query are the sequential distances of the sliced query: the whole query
    is interpolated marker by marker and sliced once *)
Theorem C11_gdist1p_slice_commutes : forall rows query ast asp, gdist1p rows query ast asp = gdist1p rows (pyslice ast asp query) None None.
Proof. exact gdist1p_slice_commutes. Qed.
Print Assumptions C11_gdist1p_slice_commutes.

Example C11_laws_hyps_satisfiable :
  (distinct_pos wit_rd /\ two_markers (select_rows wit_rd (congruence wit_rd))) /\ (2 <= length [(5%Z, 0%Q); (9%Z, (1 # 4)%Q)])%nat.
Proof.
  split; [|apply le_n]. destruct wit_rd_wf as ((_ & D & _) & T & _). split; [exact D | exact T].
Qed.

(** * Sessions on one variant matrix (Model/C11_Session.v, Proofs/C11_Session.v) *)
(** the result of interp_xoprob is a function of the map and the map function given to the call and of the matrix's chromosome /
    position arrays, not of earlier calls: whatever the matrix carried from its constructor ([s]) and whatever maps / map functions it
    was interpolated with before ([pre]), after interp_xoprob(gmap, gmapfn) vrnt_genpos and vrnt_xoprob are the generated kernel
    expression of the CURRENT source evaluated on that map (its current rows) and that map function *)
Theorem C11_interp_xoprob_forgets_earlier_calls : forall variants s pre rows k,
  let sv := sort_pairs variants in
  let st := gm_run variants s (pre ++ [CallXoprob rows k]) in
  (gs_genpos st, gs_xoprob st)
    = (let gp := k_gmat_interp_xoprob _ _ _ _ (interp_arrays rows) (rprob1g_of k) (map fst sv) (map snd sv) in (Some (fst gp), Some (snd gp)))
  /\ st = mkGm (Some (gmat_genpos rows variants)) (Some (xoprob k rows variants)).
Proof. exact session_xoprob_last. Qed.
Print Assumptions C11_interp_xoprob_forgets_earlier_calls.

Theorem C11_interp_xoprob_session_independent : forall variants s s' pre pre' rows k,
  gm_run variants s (pre ++ [CallXoprob rows k]) = gm_run variants s' (pre' ++ [CallXoprob rows k]).
Proof. exact session_xoprob_independent. Qed.
Print Assumptions C11_interp_xoprob_session_independent.

(** interp_genpos(gmap) stores the positions of the map of that call and leaves vrnt_xoprob as it was *)
Theorem C11_interp_genpos_forgets_earlier_calls : forall variants s pre rows,
  let st := gm_run variants s (pre ++ [CallGenpos rows]) in
  gs_genpos st = Some (gmat_genpos rows variants) /\ gs_xoprob st = gs_xoprob (gm_run variants s pre).
Proof. exact session_genpos_last. Qed.
Print Assumptions C11_interp_genpos_forgets_earlier_calls.

(** after the i-th call of any session the stored positions (and, for interp_xoprob, the crossover probabilities) are those of the
    map / map function of the i-th call *)
Theorem C11_session_every_call : forall variants s calls i c, nth_error calls i = Some c ->
  gs_genpos (gm_run variants s (firstn (S i) calls)) =
    Some (gmat_genpos (match c with CallGenpos rows => rows | CallXoprob rows _ => rows end) variants)
  /\ (forall rows k, c = CallXoprob rows k -> gs_xoprob (gm_run variants s (firstn (S i) calls)) = Some (xoprob k rows variants)).
Proof. exact session_every_call. Qed.
Print Assumptions C11_session_every_call.

Example C11_session_hyps_satisfiable :
  nth_error [CallGenpos [mkRow 1 10 0 []; mkRow 1 20 (1 # 2) []]; CallXoprob [mkRow 1 10 0 []; mkRow 1 30 (1 # 4) []] Kosambi] 1
  = Some (CallXoprob [mkRow 1 10 0 []; mkRow 1 30 (1 # 4) []] Kosambi).
Proof. reflexivity. Qed.
