(** C11 — property theorems only. *)
From Coq Require Import Reals QArith Qreals.
From PV Require Import Lib.Common Model.C11_MapFn Proofs.C11_MapFn.
Local Open Scope R_scope.

Theorem C11_mapfn_laws : forall k : mapkind,
  mapfn k 0 = 0 /\
  (forall d, 0 <= d -> 0 <= mapfn k d < 1 / 2) /\
  (forall d1 d2, d1 < d2 -> mapfn k d1 < mapfn k d2) /\
  (forall eps, 0 < eps -> exists D, 0 <= D /\ forall d, D <= d -> 1 / 2 - eps < mapfn k d < 1 / 2) /\
  (forall d, invmapfn k (mapfn k d) = d) /\
  (forall r, 0 <= r < 1 / 2 -> mapfn k (invmapfn k r) = r /\ 0 <= invmapfn k r).
Proof. exact mapfn_laws. Qed.
Print Assumptions C11_mapfn_laws.
