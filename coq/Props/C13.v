(** C13 — property theorems only: statement, [exact] of a lemma proved in Proofs/C13_Coanc.v, [Print Assumptions].
    Model: Model/C13_Coanc.v (mirrors the four from_gmat estimators and the DenseCoancestryMatrix views/summaries).
    A genotype matrix is its allele-count table X (n taxa x m markers), [from_gmat c pl m X] is the call
    [c] in {molecular, VanRaden p_anc, Yang p_anc, weighted mkrwt afreq} on ploidy [pl]. *)
From Coq Require Import String.
From Coq Require Reals Qreals.
From PV Require Import Lib.Common Model.C13_Coanc Proofs.C13_Coanc Proofs.C13_Optimal Proofs.C13_Phased Proofs.C13_Cert Proofs.C13_Singular
  Gen.C13_Kernel Proofs.C13_Kernel Proofs.C13_Scale.
Local Open Scope Q_scope.

(** Molecular coancestry is twice the average identity-by-state probability of alleles drawn from the two
    individuals: for every table of phased 0/1 alleles [A] (taxa x loci x ploidy alleles), haploid or diploid,
    any number of taxa and m > 0 loci, the (i,j) entry of the molecular matrix computed from the allele counts
    equals 2 * mean over loci of P(allele of i = allele of j). *)
Theorem C13_molecular_is_twice_ibs : forall (pl : Z) (m : nat) (A : list (list (list Z))) G i j,
  (pl = 1 \/ pl = 2)%Z -> (0 < m)%nat -> alleles_ok (Z.to_nat pl) m A -> (i < length A)%nat -> (j < length A)%nat ->
  mol_from_gmat pl m (map dosage A) = ROk G ->
  entry G i j == twice_mean_ibs (nth i A []) (nth j A []).
Proof. exact mol_is_twice_ibs. Qed.
Print Assumptions C13_molecular_is_twice_ibs.

(** The kinship view is exactly half the coancestry view (matrix view and accessors), the coancestry view is the matrix. *)
Theorem C13_kinship_half : forall G i j,
  entry (mat_asformat Kinship G) i j == (1 # 2) * entry (mat_asformat Coancestry G) i j /\
  entry (mat_asformat Coancestry G) i j == entry G i j /\
  kinship G i j == (1 # 2) * coancestry G i j.
Proof. exact kinship_half. Qed.
Print Assumptions C13_kinship_half.

(** Every relationship matrix is square (ntaxa x ntaxa) ... *)
Theorem C13_square : forall c pl m X G, from_gmat c pl m X = ROk G -> length G = length X /\ rows_len (length X) G.
Proof. exact from_gmat_square. Qed.
Print Assumptions C13_square.

(** ... symmetric ... *)
Theorem C13_symmetric : forall c pl m X G i j, rows_len m X -> admissible c pl X -> from_gmat c pl m X = ROk G ->
  entry G i j == entry G j i.
Proof. intros c pl m X G i j HX Ha E. exact (is_gram_sym G i j (from_gmat_is_gram c pl m X G HX Ha E)). Qed.
Print Assumptions C13_symmetric.

(** ... and positive semidefinite: x'Gx >= 0 for EVERY rational vector x (no rounding in the model: it is a
    non-negatively weighted sum of squares), for all four estimators, all sizes, all admissible arguments
    (non-negative weights; reference frequencies in [0,1] — explicit ones are range-checked by the code itself,
    estimated ones lie in [0,1] because allele counts lie in 0..ploidy). *)
Theorem C13_psd : forall c pl m X G x, rows_len m X -> admissible c pl X -> from_gmat c pl m X = ROk G ->
  0 <= qform x G.
Proof. intros c pl m X G x HX Ha E. exact (is_gram_psd G x (from_gmat_is_gram c pl m X G HX Ha E)). Qed.
Print Assumptions C13_psd.

(** The matrix object carries the taxon and group labels of its source. *)
Theorem C13_labels_carried : forall t g r cm, with_labels t g r = ROk cm ->
  cm_taxa cm = t /\ cm_grp cm = g /\ r = ROk (cm_mat cm).
Proof. exact with_labels_carried. Qed.
Print Assumptions C13_labels_carried.

(** Estimators that do not re-estimate reference frequencies commute with any permutation / sub-selection /
    repetition of taxa: the matrix of the selected taxa is the selected rows and columns of the full matrix
    (Leibniz-equal lists of rationals, not merely close). *)
Theorem C13_perm_subset_equivariant : forall c pl m X ix G, fixed_ref c -> Forall (fun i => (i < length X)%nat) ix ->
  from_gmat c pl m X = ROk G -> from_gmat c pl m (select [] ix X) = ROk (select2 ix G).
Proof. exact from_gmat_select. Qed.
Print Assumptions C13_perm_subset_equivariant.

(** The restriction to fixed reference frequencies is necessary: VanRaden with estimated frequencies does not commute. *)
Theorem C13_reestimated_not_equivariant : exists pl m X ix G G',
  Forall (fun i => (i < length X)%nat) ix /\ vr_from_gmat pl m X ANone = ROk G /\
  vr_from_gmat pl m (select [] ix X) ANone = ROk G' /\ qll_eqb G' (select2 ix G) = false.
Proof. exact reestimated_not_equivariant. Qed.
Print Assumptions C13_reestimated_not_equivariant.

(** max / min are attained bounds of the entries, mean is sum / count, kinship format halves each of them. *)
Theorem C13_extremes : forall G : list (list Q), concat G <> [] ->
  (In (max_all Coancestry G) (concat G) /\ forall x, In x (concat G) -> x <= max_all Coancestry G) /\
  (In (min_all Coancestry G) (concat G) /\ forall x, In x (concat G) -> min_all Coancestry G <= x) /\
  mean_all Coancestry G == sumQ (concat G) / Zq (Z.of_nat (length (concat G))) /\
  max_all Kinship G == (1 # 2) * max_all Coancestry G /\ min_all Kinship G == (1 # 2) * min_all Coancestry G /\
  mean_all Kinship G == (1 # 2) * mean_all Coancestry G.
Proof. exact extremes_spec. Qed.
Print Assumptions C13_extremes.

(** max_inbreeding is the largest diagonal entry. *)
Theorem C13_max_inbreeding : forall G : list (list Q), G <> [] ->
  (exists i, (i < length G)%nat /\ max_inbreeding Coancestry G = entry G i i) /\
  (forall i, (i < length G)%nat -> entry G i i <= max_inbreeding Coancestry G) /\
  max_inbreeding Kinship G == (1 # 2) * max_inbreeding Coancestry G.
Proof. exact max_inbreeding_spec. Qed.
Print Assumptions C13_max_inbreeding.

(** ... also for a phased matrix as stored (phases x taxa x loci): the allele counts the estimator sees are the
    dosages of the stored alleles, so the same identity holds with the alleles read off the phased array. *)
Theorem C13_molecular_phased_is_twice_ibs : forall (n m : nat) (ph : list (list (list Z))) G i j,
  (length ph = 1 \/ length ph = 2)%nat -> (0 < m)%nat -> phases_ok n m ph -> (i < n)%nat -> (j < n)%nat ->
  mol_from_gmat (Z.of_nat (length ph)) m (tacount_ph n m ph) = ROk G ->
  entry G i j == twice_mean_ibs (nth i (alleles_of n m ph) []) (nth j (alleles_of n m ph) []).
Proof. exact mol_phased_is_twice_ibs. Qed.
Print Assumptions C13_molecular_phased_is_twice_ibs.

(** The model's inverse is a two-sided inverse of the right shape whenever it is produced (exact check, no trust
    in the elimination), and the kinship-format inverse is an inverse of the kinship matrix. *)
Theorem C13_inverse_sound : forall G H, inv_checked G = Some H ->
  mat_eq (mmul G H) (ident (length G)) /\ mat_eq (mmul H G) (ident (length G)) /\
  length H = length G /\ Forall (fun r => length r = length G) H.
Proof. exact inv_checked_sound. Qed.
Print Assumptions C13_inverse_sound.

Theorem C13_inverse_kinship : forall G Hk, inverse_of Kinship G = Some Hk ->
  mat_eq (mmul (mat_asformat Kinship G) Hk) (ident (length G)).
Proof. exact inverse_kinship_sound. Qed.
Print Assumptions C13_inverse_kinship.

(** min_inbreeding = 1 / sum(inv(G)) is the minimum attainable x'Gx over all contribution vectors x with sum 1
    (lower bound for every x, and attained), for every matrix produced by the four estimators that has an inverse
    with positive total; the kinship format is half of it. *)
Theorem C13_min_inbreeding_optimal : forall c pl m X G H, rows_len m X -> admissible c pl X ->
  from_gmat c pl m X = ROk G -> inv_checked G = Some H -> 0 < sumQ (concat H) ->
  min_inbreeding Coancestry G = Some (min_inbreeding_of Coancestry H) /\
  min_inbreeding Kinship G = Some (min_inbreeding_of Kinship H) /\
  (forall x, length x = length G -> sumQ x == 1 -> min_inbreeding_of Coancestry H <= qform x G) /\
  (exists x, length x = length G /\ sumQ x == 1 /\ qform x G == min_inbreeding_of Coancestry H) /\
  min_inbreeding_of Kinship H == (1 # 2) * min_inbreeding_of Coancestry H.
Proof. exact min_inbreeding_of_estimator. Qed.
Print Assumptions C13_min_inbreeding_optimal.

(** Soundness of the certificates that decide when is_positive_semidefinite(eigvaltol) is compared:
    [Some true] means x'Gx >= (max(0,tol) + margin) x'x for every x (every eigenvalue clears the threshold by the
    margin), [Some false] means some diagonal entry (a Rayleigh quotient) is below the threshold by the margin. *)
Theorem C13_psd_certificate : forall n margin tol G, squareN n G -> symE G ->
  (psd_decided margin tol G = Some true -> forall x, length x = n -> (Qmax' 0 tol + margin) * dotQ x x <= qform x G) /\
  (psd_decided margin tol G = Some false -> exists i, (i < n)%nat /\ entry G i i < Qmax' 0 tol - margin).
Proof.
  intros n margin tol G SQ SY. split; [apply (psd_decided_true n margin tol G SQ SY) | apply (psd_decided_false n margin tol G SQ)].
Qed.
Print Assumptions C13_psd_certificate.

(** With reference frequencies estimated from the matrix itself (the default arguments) the VanRaden, Yang and
    weighted matrices are singular for every genotype matrix: 1'G1 = 0.  (So inverse / min_inbreeding are undefined
    for them and no eigenvalue bound above 0 can hold: they are positive SEMI-definite only.) *)
Theorem C13_estimated_frequencies_singular : forall c pl m X G, estimated c -> rows_len m X -> (pl <> 0)%Z -> X <> [] ->
  from_gmat c pl m X = ROk G -> length G = length X /\ qform (repeat 1 (length G)) G == 0.
Proof. exact estimated_freq_singular. Qed.
Print Assumptions C13_estimated_frequencies_singular.

(** ** The kernel expressions of the CURRENT source (Gen/C13_Kernel.v is regenerated from pybrops on every run by
    harness/translate/c13_kernel.py).  [gen_from_gmat] (Proofs/C13_Kernel.v) assembles the four estimators from the generated
    kernels only; it is Leibniz-equal to the hand model, so everything proved above holds of the formulas the source contains now.
    A changed expression (a factor, a centring constant, a range test, a halving, a ploidy branch) breaks these proofs. *)
Theorem C13_kernel_is_model : forall c pl m X, gen_from_gmat c pl m X = from_gmat c pl m X.
Proof. exact gen_from_gmat_is_model. Qed.
Print Assumptions C13_kernel_is_model.

(** molecular coancestry, as generated ([1 + XX'/m] on the {-1,0,1} coding for ploidy 2, [(2/m)(XX' + YY')] with [Y = 1 - X] for
    ploidy 1), is twice the mean identity-by-state probability — on an allele table and on the phased array as stored. *)
Theorem C13_kernel_molecular_is_twice_ibs : forall (pl : Z) (m : nat) (A : list (list (list Z))) G i j,
  (pl = 1 \/ pl = 2)%Z -> (0 < m)%nat -> alleles_ok (Z.to_nat pl) m A -> (i < length A)%nat -> (j < length A)%nat ->
  gen_mol_from_gmat pl m (map dosage A) = ROk G ->
  entry G i j == twice_mean_ibs (nth i A []) (nth j A []).
Proof. exact kernel_molecular_is_twice_ibs. Qed.
Print Assumptions C13_kernel_molecular_is_twice_ibs.

Theorem C13_kernel_molecular_phased_is_twice_ibs : forall (n m : nat) (ph : list (list (list Z))) G i j,
  (length ph = 1 \/ length ph = 2)%nat -> (0 < m)%nat -> phases_ok n m ph -> (i < n)%nat -> (j < n)%nat ->
  gen_mol_from_gmat (Z.of_nat (length ph)) m (tacount_ph n m ph) = ROk G ->
  entry G i j == twice_mean_ibs (nth i (alleles_of n m ph) []) (nth j (alleles_of n m ph) []).
Proof. exact kernel_molecular_phased_is_twice_ibs. Qed.
Print Assumptions C13_kernel_molecular_phased_is_twice_ibs.

(** the generated estimators give square, symmetric, positive semidefinite matrices ... *)
Theorem C13_kernel_square_symmetric_psd : forall c pl m X G, rows_len m X -> admissible c pl X -> gen_from_gmat c pl m X = ROk G ->
  (length G = length X /\ rows_len (length X) G) /\ (forall i j, entry G i j == entry G j i) /\ (forall x, 0 <= qform x G).
Proof. exact kernel_square_symmetric_psd. Qed.
Print Assumptions C13_kernel_square_symmetric_psd.

(** ... commute with taxa permutation / sub-selection / repetition for fixed reference frequencies ... *)
Theorem C13_kernel_perm_subset_equivariant : forall c pl m X ix G, fixed_ref c -> Forall (fun i => (i < length X)%nat) ix ->
  gen_from_gmat c pl m X = ROk G -> gen_from_gmat c pl m (select [] ix X) = ROk (select2 ix G).
Proof. exact kernel_perm_subset_equivariant. Qed.
Print Assumptions C13_kernel_perm_subset_equivariant.

(** ... and are singular with estimated frequencies. *)
Theorem C13_kernel_estimated_singular : forall c pl m X G, estimated c -> rows_len m X -> (pl <> 0)%Z -> X <> [] ->
  gen_from_gmat c pl m X = ROk G -> length G = length X /\ qform (repeat 1 (length G)) G == 0.
Proof. exact kernel_estimated_singular. Qed.
Print Assumptions C13_kernel_estimated_singular.

(** views and accessors as generated: [mat_asformat] maps the generated view kernels over the matrix; the kinship view /
    accessor is exactly half the coancestry one, which is the matrix itself. *)
Theorem C13_kernel_views : forall G f i j,
  mat_asformat f G = map (map (k_view f)) G /\
  entry (map (map k_kin_view) G) i j == (1 # 2) * entry (map (map k_coan_view) G) i j /\
  entry (map (map k_coan_view) G) i j == entry G i j /\
  k_kinship_acc (entry G i j) == (1 # 2) * k_coancestry_acc (entry G i j).
Proof. exact kernel_views. Qed.
Print Assumptions C13_kernel_views.

(** every kinship-format expression of DenseCoancestryMatrix (view, accessor, max_inbreeding, min_inbreeding, max, min, mean,
    the matrix handed to the inversion) is one half of its coancestry counterpart — once, not twice. *)
Theorem C13_kernel_kinship_half : forall x,
  k_kin_view x == (1 # 2) * k_coan_view x /\ k_kinship_acc x == (1 # 2) * k_coancestry_acc x /\ k_coan_view x = x /\ k_coancestry_acc x = x /\
  k_maxinb_kin x == (1 # 2) * x /\ k_mininb_kin x == (1 # 2) * x /\ k_max_kin x == (1 # 2) * x /\ k_min_kin x == (1 # 2) * x /\
  k_mean_kin x == (1 # 2) * x /\ k_inverse_kin_arg x == (1 # 2) * x /\ k_inverse_coan_arg x = x.
Proof. exact kernel_kinship_half. Qed.
Print Assumptions C13_kernel_kinship_half.

(** the range checks of the reference-frequency / marker-weight arguments accept exactly [0,1] resp. [0,inf) — endpoints
    included — in all three estimators, for scalars and arrays alike; a scalar is broadcast to one value per marker. *)
Theorem C13_kernel_argument_boundaries : forall q,
  k_vr_freq_scalar_bad q = negb (in01 q) /\ k_vr_freq_array_bad q = negb (in01 q) /\
  k_yang_freq_scalar_bad q = negb (in01 q) /\ k_yang_freq_array_bad q = negb (in01 q) /\
  k_gw_freq_scalar_bad q = negb (in01 q) /\ k_gw_freq_array_bad q = negb (in01 q) /\
  k_gw_wt_scalar_bad q = negb (Qle_bool 0 q) /\
  (forall z, k_vr_freq_bcast z = z /\ k_yang_freq_bcast z = z /\ k_gw_freq_bcast z = z /\ k_gw_wt_bcast z = z).
Proof. exact kernel_argument_boundaries. Qed.
Print Assumptions C13_kernel_argument_boundaries.

(** min_inbreeding as generated ([1.0 / Ginv.sum()], halved once for kinship) is the attained minimum of x'Gx over sum(x) = 1. *)
Theorem C13_kernel_min_inbreeding : forall c pl m X G H, rows_len m X -> admissible c pl X ->
  gen_from_gmat c pl m X = ROk G -> inv_checked G = Some H -> 0 < sumQ (concat H) ->
  min_inbreeding Coancestry G = Some (k_mininb (sumQr (concat H))) /\
  min_inbreeding Kinship G = Some (k_mininb_kin (k_mininb (sumQr (concat H)))) /\
  (forall x, length x = length G -> sumQ x == 1 -> k_mininb (sumQr (concat H)) <= qform x G) /\
  (exists x, length x = length G /\ sumQ x == 1 /\ qform x G == k_mininb (sumQr (concat H))) /\
  k_mininb_kin (k_mininb (sumQr (concat H))) == (1 # 2) * k_mininb (sumQr (concat H)).
Proof. exact kernel_min_inbreeding. Qed.
Print Assumptions C13_kernel_min_inbreeding.

(** the kinship-format inverse is an inverse of exactly the matrix the source hands to numpy.linalg.inv ([0.5 * self._mat]). *)
Theorem C13_kernel_inverse_kinship : forall G Hk, inverse_of Kinship G = Some Hk ->
  mat_eq (mmul (map (map k_inverse_kin_arg) G) Hk) (ident (length G)).
Proof. exact kernel_inverse_kinship. Qed.
Print Assumptions C13_kernel_inverse_kinship.

(** is_positive_semidefinite as generated: the threshold is max(0, eigvaltol), an eigenvalue passes iff it is >= the threshold
    (not >), and the certificates are sound for that threshold. *)
Theorem C13_kernel_psd_threshold : forall n margin tol G ev, squareN n G -> symE G ->
  k_psd_threshold tol == Qmax' 0 tol /\ (k_psd_ok ev (k_psd_threshold tol) = true <-> Qmax' 0 tol <= ev) /\
  (psd_decided margin tol G = Some true -> forall x, length x = n -> (k_psd_threshold tol + margin) * dotQ x x <= qform x G) /\
  (psd_decided margin tol G = Some false -> exists i, (i < n)%nat /\ entry G i i < k_psd_threshold tol - margin).
Proof. exact kernel_psd_threshold. Qed.
Print Assumptions C13_kernel_psd_threshold.

(** wiring read off the source: every from_gmat hands its matrix, [gmat.taxa] (or a copy) and [gmat.taxa_grp] (or a copy) to the
    constructor under the right keywords and sets each group-metadata attribute from the source's attribute of the same name (or a
    copy); every factory calls its own class with each parameter under the keyword of the same name; max/min/mean/max_inbreeding
    use the numpy reduction of the same name (max_inbreeding: on the diagonal). *)
Theorem C13_kernel_wiring :
  (map fst k_labels = ["mol"; "vr"; "yang"; "gw"]%string /\ forallb (fun e => label_row_ok (snd e)) k_labels = true) /\
  (map fst k_factories = ["mol"; "vr"; "yang"; "gw"]%string /\ forallb factory_row_ok k_factories = true) /\
  k_reductions = [("max_inbreeding", "diagonal.max"); ("max", "max"); ("min", "min"); ("mean", "mean")]%string.
Proof. exact kernel_wiring. Qed.
Print Assumptions C13_kernel_wiring.

(** No from_gmat shares a label array with its source: all four classes hand `gmat.X.copy() if gmat.X is not None else None` for
    taxa, taxa_grp and the four group-metadata arrays (read off the generated table; confirmed on the implementation by the
    lifecycle driver on every case).  Full strength since the repair of finding C13-vr-yang-share-label-arrays. *)
Theorem C13_labels_copied :
  map fst k_labels = ["mol"; "vr"; "yang"; "gw"]%string /\ forallb (fun e => row_copies (snd e)) k_labels = true.
Proof. exact labels_copied. Qed.
Print Assumptions C13_labels_copied.

(** regression witness about the FORMER source ([old_k_labels]: the table the translator read before the repair, not used by any
    other statement): well-wired, but the VanRaden and Yang rows handed [gmat.taxa], [gmat.taxa_grp] and the metadata arrays
    themselves; and the current table differs from it in exactly those two rows. *)
Theorem C13_old_labels_copied_refuted :
  forallb (fun e => label_row_ok (snd e)) old_k_labels = true /\ map fst (filter (fun e => negb (row_copies (snd e))) old_k_labels) = ["vr"; "yang"]%string.
Proof. exact old_labels_copied_refuted. Qed.
Print Assumptions C13_old_labels_copied_refuted.
Theorem C13_old_labels_repair_delta :
  map (fun p => fst (fst p)) (filter (fun p => negb (list_eqb (fun a b => String.eqb (fst a) (fst b) && String.eqb (snd a) (snd b))%bool (snd (fst p)) (snd (snd p))))
                                     (combine k_labels old_k_labels)) = ["vr"; "yang"]%string.
Proof. exact labels_repair_delta. Qed.
Print Assumptions C13_old_labels_repair_delta.

(** Scale covariance of the weighted estimator: multiplying every marker weight by t (any rational, any sign) multiplies every
    entry by t — exactly, whatever the scale (the generators use t = 2^-40 .. 2^+20) — and a scalar weight s gives s times the
    unweighted matrix. *)
Theorem C13_weight_scale_covariant : forall pl m X w p t G G' i j,
  gw_from_gmat pl m X (AArr w) p = ROk G -> gw_from_gmat pl m X (AArr (map (Qmult t) w)) p = ROk G' ->
  (i < length X)%nat -> (j < length X)%nat -> entry G' i j == t * entry G i j.
Proof. exact gw_weight_scale_covariant. Qed.
Print Assumptions C13_weight_scale_covariant.

Theorem C13_scalar_weight : forall pl m X p s G G1 i j,
  gw_from_gmat pl m X (AScalar s) p = ROk G -> gw_from_gmat pl m X ANone p = ROk G1 ->
  (i < length X)%nat -> (j < length X)%nat -> entry G i j == s * entry G1 i j.
Proof. exact gw_scalar_weight. Qed.
Print Assumptions C13_scalar_weight.

(** Yang's scaling with square roots, as written in the source, equals over the reals the rational closed form of the model:
    (z_i / sqrt v)(z_j / sqrt v) = z_i z_j / v with v = ploidy p (1-p) > 0 (the generated radicand). *)
Theorem C13_kernel_yang_sqrt : forall ploidy p zi zj : Q, 0 < k_yang_var ploidy p ->
  Rdefinitions.Rmult (k_yang_scaled_R (Rdefinitions.Q2R zi) (k_yang_zscale_R (Rdefinitions.Q2R ploidy) (Rdefinitions.Q2R p)))
                     (k_yang_scaled_R (Rdefinitions.Q2R zj) (k_yang_zscale_R (Rdefinitions.Q2R ploidy) (Rdefinitions.Q2R p)))
  = Rdefinitions.Q2R (zi * zj / k_yang_var ploidy p).
Proof. exact yang_sqrt_is_rational_model. Qed.
Print Assumptions C13_kernel_yang_sqrt.

(** non-vacuity: concrete inputs meeting the hypotheses of the theorems above *)
Example C13_hyps_satisfiable :
  alleles_ok 2 2 [[[0;1];[1;1]];[[0;0];[1;0]]]%Z /\
  rows_len 3 [[0;1;2];[2;2;0];[1;1;1]]%Z /\ dosages_ok 2 [[0;1;2];[2;2;0];[1;1;1]]%Z /\
  admissible (CVr ANone) 2 [[0;1;2];[2;2;0];[1;1;1]]%Z /\ admissible (CGw (AArr [1; 1 # 2; 0]) (AScalar (1 # 2))) 2 [[0;1;2];[2;2;0];[1;1;1]]%Z /\
  fixed_ref (CYang (AScalar (1 # 4))) /\
  (exists G, from_gmat (CVr ANone) 2 3 [[0;1;2];[2;2;0];[1;1;1]]%Z = ROk G) /\
  (exists G, from_gmat (CYang (AScalar (1 # 4))) 2 3 [[0;1;2];[2;2;0];[1;1;1]]%Z = ROk G) /\
  (exists G, from_gmat (CGw (AArr [1; 1 # 2; 0]) (AScalar (1 # 2))) 2 3 [[0;1;2];[2;2;0];[1;1;1]]%Z = ROk G) /\
  (exists G H, mol_from_gmat 2 3 [[0;1;2];[2;2;0];[2;1;1]]%Z = ROk G /\ inv_checked G = Some H /\ 0 < sumQ (concat H)) /\
  phases_ok 2 2 [[[0;1];[1;1]];[[0;0];[1;0]]]%Z /\ estimated (CGw ANone ANone) /\
  (exists G, squareN 2 G /\ symE G /\ psd_decided (1 # 1000) (1 # 2) G = Some true) /\
  (exists G, squareN 2 G /\ psd_decided (1 # 1000) 2 G = Some false) /\
  (exists G, gen_from_gmat (CYang (AScalar (1 # 4))) 2 3 [[0;1;2];[2;2;0];[1;1;1]]%Z = ROk G) /\
  0 < k_yang_var 2 (1 # 4) /\
  (exists G G', gw_from_gmat 2 3 [[0;1;2];[2;2;0];[1;1;1]]%Z (AArr [1; 1 # 2; 0]) (AScalar (1 # 2)) = ROk G /\
     gw_from_gmat 2 3 [[0;1;2];[2;2;0];[1;1;1]]%Z (AArr (map (Qmult (1 # 1024)) [1; 1 # 2; 0])) (AScalar (1 # 2)) = ROk G').
Proof.
  unfold alleles_ok, phases_ok, locus_ok, is01, rows_len, dosages_ok, admissible, wt_nonneg, fixed_ref, dosages_ok, estimated.
  repeat match goal with
         | |- exists G, squareN 2 G /\ symE G /\ _ => exists [[1; 0]; [0; 1]]
         | |- exists G, squareN 2 G /\ psd_decided _ _ G = _ => exists [[1; 0]; [0; 1]]
         | |- squareN _ _ => split; [reflexivity | repeat constructor]
         | |- symE _ => let i := fresh "i" in let j := fresh "j" in intros i j; unfold entry; destruct i as [|[|[|i]]]; destruct j as [|[|[|j]]]; cbn [nth]; reflexivity
         | |- psd_decided _ _ _ = _ => vm_compute; reflexivity
         | |- 0 < _ => vm_compute; reflexivity
         | |- True => exact I
         | |- _ /\ _ => split
         | |- Forall _ _ => constructor
         | |- exists _, _ => eexists
         | |- _ = ROk _ => vm_compute; reflexivity
         | |- inv_checked _ = Some _ => vm_compute; reflexivity
         | |- _ <> _ => discriminate
         | |- _ -> _ => intro
         | |- (_ <= _)%Z => lia
         | |- (_ <= _ <= _)%Z => lia
         | |- _ <= _ => discriminate
         | |- _ \/ _ => (left; reflexivity) || (right; reflexivity)
         | |- _ = _ => reflexivity
         end.
Qed.
