(** C13 — property theorems only: statement, [exact] of a lemma proved in Proofs/C13_Coanc.v, [Print Assumptions].
    Model: Model/C13_Coanc.v (mirrors the four from_gmat estimators and the DenseCoancestryMatrix views/summaries).
    A genotype matrix is its allele-count table X (n taxa x m markers), [from_gmat c pl m X] is the call
    [c] in {molecular, VanRaden p_anc, Yang p_anc, weighted mkrwt afreq} on ploidy [pl]. *)
From PV Require Import Lib.Common Model.C13_Coanc Proofs.C13_Coanc Proofs.C13_Optimal Proofs.C13_Phased Proofs.C13_Cert Proofs.C13_Singular.
Local Open Scope Q_scope.

(** Molecular coancestry is twice the average identity-by-state probability of alleles drawn from the two
    individuals: for every table of phased 0/1 alleles [A] (taxa x loci x ploidy alleles), haploid or diploid,
    any number of taxa and m > 0 loci, the (i,j) entry of the molecular matrix computed from the allele counts
    equals 2 * mean over loci of P(allele of i = allele of j). *)
Theorem C13_molecular_is_twice_ibs : forall (pl : Z) (m : nat) (A : list (list (list Z))) G i j,
  (pl = 1 \/ pl = 2)%Z -> (0 < m)%nat -> alleles_ok (Z.to_nat pl) m A -> (i < length A)%nat -> (j < length A)%nat ->
  mol_from_gmat pl m (map dosage A) = ROk G ->
  entry G i j == twice_mean_ibs (nth i A []) (nth j A []).
Proof. exact mol_is_twice_ibs. Qed.
Print Assumptions C13_molecular_is_twice_ibs.

(** The kinship view is exactly half the coancestry view (matrix view and accessors), the coancestry view is the matrix. *)
Theorem C13_kinship_half : forall G i j,
  entry (mat_asformat Kinship G) i j == (1 # 2) * entry (mat_asformat Coancestry G) i j /\
  entry (mat_asformat Coancestry G) i j == entry G i j /\
  kinship G i j == (1 # 2) * coancestry G i j.
Proof. exact kinship_half. Qed.
Print Assumptions C13_kinship_half.

(** Every relationship matrix is square (ntaxa x ntaxa) ... *)
Theorem C13_square : forall c pl m X G, from_gmat c pl m X = ROk G -> length G = length X /\ rows_len (length X) G.
Proof. exact from_gmat_square. Qed.
Print Assumptions C13_square.

(** ... symmetric ... *)
Theorem C13_symmetric : forall c pl m X G i j, rows_len m X -> admissible c pl X -> from_gmat c pl m X = ROk G ->
  entry G i j == entry G j i.
Proof. intros c pl m X G i j HX Ha E. exact (is_gram_sym G i j (from_gmat_is_gram c pl m X G HX Ha E)). Qed.
Print Assumptions C13_symmetric.

(** ... and positive semidefinite: x'Gx >= 0 for EVERY rational vector x (no rounding in the model: it is a
    non-negatively weighted sum of squares), for all four estimators, all sizes, all admissible arguments
    (non-negative weights; reference frequencies in [0,1] — explicit ones are range-checked by the code itself,
    estimated ones lie in [0,1] because allele counts lie in 0..ploidy). *)
Theorem C13_psd : forall c pl m X G x, rows_len m X -> admissible c pl X -> from_gmat c pl m X = ROk G ->
  0 <= qform x G.
Proof. intros c pl m X G x HX Ha E. exact (is_gram_psd G x (from_gmat_is_gram c pl m X G HX Ha E)). Qed.
Print Assumptions C13_psd.

(** The matrix object carries the taxon and group labels of its source. *)
Theorem C13_labels_carried : forall t g r cm, with_labels t g r = ROk cm ->
  cm_taxa cm = t /\ cm_grp cm = g /\ r = ROk (cm_mat cm).
Proof. exact with_labels_carried. Qed.
Print Assumptions C13_labels_carried.

(** Estimators that do not re-estimate reference frequencies commute with any permutation / sub-selection /
    repetition of taxa: the matrix of the selected taxa is the selected rows and columns of the full matrix
    (Leibniz-equal lists of rationals, not merely close). *)
Theorem C13_perm_subset_equivariant : forall c pl m X ix G, fixed_ref c -> Forall (fun i => (i < length X)%nat) ix ->
  from_gmat c pl m X = ROk G -> from_gmat c pl m (select [] ix X) = ROk (select2 ix G).
Proof. exact from_gmat_select. Qed.
Print Assumptions C13_perm_subset_equivariant.

(** The restriction to fixed reference frequencies is necessary: VanRaden with estimated frequencies does not commute. *)
Theorem C13_reestimated_not_equivariant : exists pl m X ix G G',
  Forall (fun i => (i < length X)%nat) ix /\ vr_from_gmat pl m X ANone = ROk G /\
  vr_from_gmat pl m (select [] ix X) ANone = ROk G' /\ qll_eqb G' (select2 ix G) = false.
Proof. exact reestimated_not_equivariant. Qed.
Print Assumptions C13_reestimated_not_equivariant.

(** max / min are attained bounds of the entries, mean is sum / count, kinship format halves each of them. *)
Theorem C13_extremes : forall G : list (list Q), concat G <> [] ->
  (In (max_all Coancestry G) (concat G) /\ forall x, In x (concat G) -> x <= max_all Coancestry G) /\
  (In (min_all Coancestry G) (concat G) /\ forall x, In x (concat G) -> min_all Coancestry G <= x) /\
  mean_all Coancestry G == sumQ (concat G) / Zq (Z.of_nat (length (concat G))) /\
  max_all Kinship G == (1 # 2) * max_all Coancestry G /\ min_all Kinship G == (1 # 2) * min_all Coancestry G /\
  mean_all Kinship G == (1 # 2) * mean_all Coancestry G.
Proof. exact extremes_spec. Qed.
Print Assumptions C13_extremes.

(** max_inbreeding is the largest diagonal entry. *)
Theorem C13_max_inbreeding : forall G : list (list Q), G <> [] ->
  (exists i, (i < length G)%nat /\ max_inbreeding Coancestry G = entry G i i) /\
  (forall i, (i < length G)%nat -> entry G i i <= max_inbreeding Coancestry G) /\
  max_inbreeding Kinship G == (1 # 2) * max_inbreeding Coancestry G.
Proof. exact max_inbreeding_spec. Qed.
Print Assumptions C13_max_inbreeding.

(** ... also for a phased matrix as stored (phases x taxa x loci): the allele counts the estimator sees are the
    dosages of the stored alleles, so the same identity holds with the alleles read off the phased array. *)
Theorem C13_molecular_phased_is_twice_ibs : forall (n m : nat) (ph : list (list (list Z))) G i j,
  (length ph = 1 \/ length ph = 2)%nat -> (0 < m)%nat -> phases_ok n m ph -> (i < n)%nat -> (j < n)%nat ->
  mol_from_gmat (Z.of_nat (length ph)) m (tacount_ph n m ph) = ROk G ->
  entry G i j == twice_mean_ibs (nth i (alleles_of n m ph) []) (nth j (alleles_of n m ph) []).
Proof. exact mol_phased_is_twice_ibs. Qed.
Print Assumptions C13_molecular_phased_is_twice_ibs.

(** The model's inverse is a two-sided inverse of the right shape whenever it is produced (exact check, no trust
    in the elimination), and the kinship-format inverse is an inverse of the kinship matrix. *)
Theorem C13_inverse_sound : forall G H, inv_checked G = Some H ->
  mat_eq (mmul G H) (ident (length G)) /\ mat_eq (mmul H G) (ident (length G)) /\
  length H = length G /\ Forall (fun r => length r = length G) H.
Proof. exact inv_checked_sound. Qed.
Print Assumptions C13_inverse_sound.

Theorem C13_inverse_kinship : forall G Hk, inverse_of Kinship G = Some Hk ->
  mat_eq (mmul (mat_asformat Kinship G) Hk) (ident (length G)).
Proof. exact inverse_kinship_sound. Qed.
Print Assumptions C13_inverse_kinship.

(** min_inbreeding = 1 / sum(inv(G)) is the minimum attainable x'Gx over all contribution vectors x with sum 1
    (lower bound for every x, and attained), for every matrix produced by the four estimators that has an inverse
    with positive total; the kinship format is half of it. *)
Theorem C13_min_inbreeding_optimal : forall c pl m X G H, rows_len m X -> admissible c pl X ->
  from_gmat c pl m X = ROk G -> inv_checked G = Some H -> 0 < sumQ (concat H) ->
  min_inbreeding Coancestry G = Some (min_inbreeding_of Coancestry H) /\
  min_inbreeding Kinship G = Some (min_inbreeding_of Kinship H) /\
  (forall x, length x = length G -> sumQ x == 1 -> min_inbreeding_of Coancestry H <= qform x G) /\
  (exists x, length x = length G /\ sumQ x == 1 /\ qform x G == min_inbreeding_of Coancestry H) /\
  min_inbreeding_of Kinship H == (1 # 2) * min_inbreeding_of Coancestry H.
Proof. exact min_inbreeding_of_estimator. Qed.
Print Assumptions C13_min_inbreeding_optimal.

(** Soundness of the certificates that decide when is_positive_semidefinite(eigvaltol) is compared:
    [Some true] means x'Gx >= (max(0,tol) + margin) x'x for every x (every eigenvalue clears the threshold by the
    margin), [Some false] means some diagonal entry (a Rayleigh quotient) is below the threshold by the margin. *)
Theorem C13_psd_certificate : forall n margin tol G, squareN n G -> symE G ->
  (psd_decided margin tol G = Some true -> forall x, length x = n -> (Qmax' 0 tol + margin) * dotQ x x <= qform x G) /\
  (psd_decided margin tol G = Some false -> exists i, (i < n)%nat /\ entry G i i < Qmax' 0 tol - margin).
Proof.
  intros n margin tol G SQ SY. split; [apply (psd_decided_true n margin tol G SQ SY) | apply (psd_decided_false n margin tol G SQ)].
Qed.
Print Assumptions C13_psd_certificate.

(** With reference frequencies estimated from the matrix itself (the default arguments) the VanRaden, Yang and
    weighted matrices are singular for every genotype matrix: 1'G1 = 0.  (So inverse / min_inbreeding are undefined
    for them and no eigenvalue bound above 0 can hold: they are positive SEMI-definite only.) *)
Theorem C13_estimated_frequencies_singular : forall c pl m X G, estimated c -> rows_len m X -> (pl <> 0)%Z -> X <> [] ->
  from_gmat c pl m X = ROk G -> length G = length X /\ qform (repeat 1 (length G)) G == 0.
Proof. exact estimated_freq_singular. Qed.
Print Assumptions C13_estimated_frequencies_singular.

(** non-vacuity: concrete inputs meeting the hypotheses of the theorems above *)
Example C13_hyps_satisfiable :
  alleles_ok 2 2 [[[0;1];[1;1]];[[0;0];[1;0]]]%Z /\
  rows_len 3 [[0;1;2];[2;2;0];[1;1;1]]%Z /\ dosages_ok 2 [[0;1;2];[2;2;0];[1;1;1]]%Z /\
  admissible (CVr ANone) 2 [[0;1;2];[2;2;0];[1;1;1]]%Z /\ admissible (CGw (AArr [1; 1 # 2; 0]) (AScalar (1 # 2))) 2 [[0;1;2];[2;2;0];[1;1;1]]%Z /\
  fixed_ref (CYang (AScalar (1 # 4))) /\
  (exists G, from_gmat (CVr ANone) 2 3 [[0;1;2];[2;2;0];[1;1;1]]%Z = ROk G) /\
  (exists G, from_gmat (CYang (AScalar (1 # 4))) 2 3 [[0;1;2];[2;2;0];[1;1;1]]%Z = ROk G) /\
  (exists G, from_gmat (CGw (AArr [1; 1 # 2; 0]) (AScalar (1 # 2))) 2 3 [[0;1;2];[2;2;0];[1;1;1]]%Z = ROk G) /\
  (exists G H, mol_from_gmat 2 3 [[0;1;2];[2;2;0];[2;1;1]]%Z = ROk G /\ inv_checked G = Some H /\ 0 < sumQ (concat H)) /\
  phases_ok 2 2 [[[0;1];[1;1]];[[0;0];[1;0]]]%Z /\ estimated (CGw ANone ANone) /\
  (exists G, squareN 2 G /\ symE G /\ psd_decided (1 # 1000) (1 # 2) G = Some true) /\
  (exists G, squareN 2 G /\ psd_decided (1 # 1000) 2 G = Some false).
Proof.
  unfold alleles_ok, phases_ok, locus_ok, is01, rows_len, dosages_ok, admissible, wt_nonneg, fixed_ref, dosages_ok, estimated.
  repeat match goal with
         | |- exists G, squareN 2 G /\ symE G /\ _ => exists [[1; 0]; [0; 1]]
         | |- exists G, squareN 2 G /\ psd_decided _ _ G = _ => exists [[1; 0]; [0; 1]]
         | |- squareN _ _ => split; [reflexivity | repeat constructor]
         | |- symE _ => let i := fresh "i" in let j := fresh "j" in intros i j; unfold entry; destruct i as [|[|[|i]]]; destruct j as [|[|[|j]]]; cbn [nth]; reflexivity
         | |- psd_decided _ _ _ = _ => vm_compute; reflexivity
         | |- 0 < _ => vm_compute; reflexivity
         | |- True => exact I
         | |- _ /\ _ => split
         | |- Forall _ _ => constructor
         | |- exists _, _ => eexists
         | |- _ = ROk _ => vm_compute; reflexivity
         | |- inv_checked _ = Some _ => vm_compute; reflexivity
         | |- _ <> _ => discriminate
         | |- _ -> _ => intro
         | |- (_ <= _)%Z => lia
         | |- (_ <= _ <= _)%Z => lia
         | |- _ <= _ => discriminate
         | |- _ \/ _ => (left; reflexivity) || (right; reflexivity)
         | |- _ = _ => reflexivity
         end.
Qed.
