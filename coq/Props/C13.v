(** C13 — property theorems (placeholder while the model is being tied to the code) *)
From PV Require Import Lib.Common Model.C13_Coanc.
