(** C05 — property theorems (being filled in). *)
From PV Require Import Lib.Common Model.C05_Latent.
Theorem C05_placeholder_evalfn_def : forall To Ti Te wo wi we x l,
  evalfn To Ti Te wo wi we x l = (map2 Qmult wo (To x l), map2 Qmult wi (Ti x l), map2 Qmult we (Te x l)).
Proof. reflexivity. Qed.
Print Assumptions C05_placeholder_evalfn_def.
