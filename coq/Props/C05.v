(** C05 — selection objectives mean what they say in every decision encoding.  Property theorems only: statement,
    [exact] of a lemma proved in Proofs/C05_Latent.v, [Print Assumptions].
    Model: Model/C05_Latent.v ([latent n fd d] = latentfn of the problem classes of family [fd] on the decision [d];
    [DSub s] = subset encoding, [DVec x] = integer-count / binary-indicator / real-contribution encoding;
    [res_eq] = same shape and equal rationals; norms are represented by their squares). *)
From Coq Require Import String.
From Coq Require Import List PrimFloat Permutation.
From PV Require Import Lib.Common Lib.FloatK Model.C05_Latent Model.C05_Factory Proofs.C05_Latent Proofs.C05_Avail Proofs.C05_Factory Gen.C05_Kernel Proofs.C05_Kernel Proofs.C05_Session.
From PV Require Import Model.C05_Report Proofs.C05_Report.
Local Open Scope Q_scope.

(** Every family's subset formula is its contribution-vector formula ("the definition") evaluated at
    multiplicity / k — for every number of candidates, traits, markers, every data matrix and every non-empty
    selection (for the family criterion: without repeated members). *)
Theorem C05_subset_is_contribution_form : forall n fd s, has_vec fd = true -> s <> [] -> in_range n s -> fam_ok fd s ->
  res_eq (latent n fd (DSub s)) (vec_form n fd (contrib_subset n s)).
Proof. exact subset_is_vec_form. Qed.
Print Assumptions C05_subset_is_contribution_form.

(** The subset, integer-count, real-contribution and (for a duplicate-free subset) binary-indicator encodings of the
    same parental contributions give identical latent vectors, in every family that has vector encodings. *)
Theorem C05_encodings_agree : forall n fd s, has_vec fd = true -> s <> [] -> in_range n s -> fam_ok fd s ->
  res_eq (latent n fd (DVec (counts n s))) (latent n fd (DSub s)) /\
  res_eq (latent n fd (DVec (contrib_subset n s))) (latent n fd (DSub s)) /\
  (NoDup s -> res_eq (latent n fd (DVec (indicator n s))) (latent n fd (DSub s))).
Proof. exact latent_encodings_agree. Qed.
Print Assumptions C05_encodings_agree.

(** the normalisation itself: counts normalise to multiplicity / k, an indicator is the count vector of a set *)
Theorem C05_counts_normalise : forall n s, s <> [] -> in_range n s -> Forall2 Qeq (contrib_guard (counts n s)) (contrib_subset n s).
Proof. exact contrib_counts. Qed.
Print Assumptions C05_counts_normalise.
Theorem C05_indicator_is_counts : forall n s, NoDup s -> indicator n s = counts n s.
Proof. exact indicator_counts. Qed.
Print Assumptions C05_indicator_is_counts.

(** with a repeated member the family criterion's subset class (assignment instead of accumulation) leaves the
    integer-count reading: the hypothesis [fam_ok] above cannot be dropped (such listings are outside the subset
    decision space, so this is not a violation of the property) *)
Theorem C05_family_subset_repeat_refuted :
  ~ Forall2 Qeq (fam_subset 2 1 [[1]; [1]] [0%Z; 1%Z] [0%nat; 0%nat]) (fam_vec 2 1 [[1]; [1]] [0%Z; 1%Z] (contrib_subset 2 [0%nat; 0%nat])).
Proof. exact fam_subset_repeat_differs. Qed.
Print Assumptions C05_family_subset_repeat_refuted.

(** Values do not depend on the order in which a subset is listed — every subset class (linear, quadratic, L1,
    family, allele-frequency incl. the binary64 thresholds, optimal population value, genotype builder). *)
Theorem C05_order_invariant : forall n fd s s', Permutation s s' -> res_eq (latent n fd (DSub s)) (latent n fd (DSub s')).
Proof. exact latent_order_invariant. Qed.
Print Assumptions C05_order_invariant.

(** Values do not depend on positive rescaling of a contribution vector — outside the source's guard
    |sum x| < 1e-10 (both the vector and its rescaling), which is the exact region where the clause fails: *)
Theorem C05_scale_invariant_partial : forall n fd a x, 0 < a -> guard_eps <= Qabs' (qsum x) -> guard_eps <= Qabs' (qsum (map (Qmult a) x)) ->
  res_eq (latent n fd (DVec (map (Qmult a) x))) (latent n fd (DVec x)).
Proof. exact latent_scale_invariant. Qed.
Print Assumptions C05_scale_invariant_partial.
Theorem C05_scale_invariant_guard_refuted :
  exists a x, 0 < a /\ 0 < qsum x /\ Qabs' (qsum x) < guard_eps /\ ~ Forall2 Qeq (contrib_guard (map (Qmult a) x)) (contrib_guard x).
Proof. exact contrib_guard_inside_not_invariant. Qed.
Print Assumptions C05_scale_invariant_guard_refuted.

(** reported objectives and constraint violations are the declared weights times the declared transformations
    of the latent vector, for arbitrary transformation functions *)
Theorem C05_evalfn_def : forall To Ti Te wo wi we x l,
  evalfn To Ti Te wo wi we x l = (map2 Qmult wo (To x l), map2 Qmult wi (Ti x l), map2 Qmult we (Te x l)).
Proof. exact evalfn_def. Qed.
Print Assumptions C05_evalfn_def.

(** the kinship factor: ||C c||^2 = c' (C'C) c for every factor C (any shape) and every contribution vector *)
Theorem C05_quad_is_cKc : forall n C c, normsq_vec n C c == qform n (gram n C) c.
Proof. exact quad_is_cKc. Qed.
Print Assumptions C05_quad_is_cKc.

(** allele availability: the frequency of a selection is one correctly rounded binary64 division  count / (ploidy*k);
    it is exactly 1.0 (0.0) iff every (no) selected chromosome copy carries the allele, for up to 2^53 copies ... *)
Theorem C05_pfreq_fixed_iff : forall c N : Z, (0 <= c <= N)%Z -> (0 < N <= 2^53)%Z ->
  (PrimFloat.eqb (pfreq_of_count c N) 1%float = true <-> c = N) /\ (PrimFloat.eqb (pfreq_of_count c N) 0%float = true <-> c = 0%Z).
Proof. exact pfreq_fixed_iff. Qed.
Print Assumptions C05_pfreq_fixed_iff.
(** ... so the binary64 tests of MOGS (pfreq <= 0.0, pfreq >= 1.0) equal the definition on the allele counts: for every
    ploidy, genotype matrix, weights, target frequencies and every selection of at most 2^53 chromosome copies *)
Theorem C05_mogs_availability : forall pl G w tf p t s,
  (0 < popsize pl s <= 2^53)%Z -> geno_ok pl G s p ->
  mogs_pau_code pl G w tf p t s = pau_def pl G w tf p t s.
Proof. exact mogs_pau_exact. Qed.
Print Assumptions C05_mogs_availability.
(** ... and so do the tests of PAU (pfreq < 1.0, pfreq > 0.0 against tminor / thet / tmajor), for every target that is a
    frequency (0 <= tfreq <= 1, the targets 0 and 1 included) *)
Theorem C05_pau_availability : forall pl G w tf p t s,
  (0 < popsize pl s <= 2^53)%Z -> geno_ok pl G s p -> targets_unit tf p t ->
  pau_code pl G w tf p t s = pau_def pl G w tf p t s.
Proof. exact pau_exact. Qed.
Print Assumptions C05_pau_availability.
(** [geno_ok] is what a genotype matrix with entries in 0..ploidy satisfies *)
Theorem C05_genotype_counts_in_range : forall pl G s p, (0 <= pl)%Z ->
  (forall i j, In i s -> (j < p)%nat -> (0 <= zget G i j <= pl)%Z) -> geno_ok pl G s p.
Proof. exact geno_ok_of_entries. Qed.
Print Assumptions C05_genotype_counts_in_range.
(** regression witnesses about the FORMER code (definitions [old_...] of the model; not used by [latent]):
    the rounded reciprocal (1.0/N)*count failed at N = 49 (all 49 copies carry the allele, target 1/2: reported available) ... *)
Theorem C05_old_pfreq_reciprocal_refuted : exists c N tfv, (1 <= N <= 1024)%Z /\ (0 <= c <= N)%Z /\ t_het tfv = true /\
  mogs_unavail_code (old_pfreq_of_count c N) tfv <> unavail_def c N tfv /\ pau_unavail_code (old_pfreq_of_count c N) tfv <> unavail_def c N tfv.
Proof. exact old_pfreq_reciprocal_refuted. Qed.
Print Assumptions C05_old_pfreq_reciprocal_refuted.
Theorem C05_old_bad_sizes_256 : filter (fun N => negb (old_size_ok (Z.of_nat N))) (seq 1 256) = [49; 98; 103; 107; 161; 187; 196; 197; 206; 214; 237; 239; 249; 253]%nat.
Proof. exact old_bad_sizes_256. Qed.
Print Assumptions C05_old_bad_sizes_256.
(** ... and tmajor computed with the tminor test reported a locus fixed for the wanted allele (target 1) as lacking it *)
Theorem C05_old_pau_tmajor_refuted : exists c N tfv, (1 <= N <= 1024)%Z /\ (0 <= c <= N)%Z /\ t_unit tfv = true /\
  old_pau_unavail_code (pfreq_of_count c N) tfv <> unavail_def c N tfv.
Proof. exact old_pau_tmajor_refuted. Qed.
Print Assumptions C05_old_pau_tmajor_refuted.

(** the declared number of latent values ([nlatent]) is the length of the latent vector: every family, encoding, input *)
Theorem C05_nlatent_declared : forall n fd d v, latent n fd d = Some v -> length v = nlatent_of fd.
Proof. exact latent_length. Qed.
Print Assumptions C05_nlatent_declared.

(** factory data follow the population's taxon order: for the population re-ordered by any index list [pi]
    (new taxon i = old taxon pi_i) the breeding values and the haplotype block values are the re-ordered ones *)
Theorem C05_gebv_taxon_order : forall pi hap u beta n p t, (forall i, In i pi -> (i < n)%nat) ->
  gebv_def (reorder_taxa pi hap) u beta (length pi) p t = map (fun k => nth k (gebv_def hap u beta n p t) []) pi.
Proof. exact gebv_reorder. Qed.
Print Assumptions C05_gebv_taxon_order.
Theorem C05_haplotype_values_taxon_order : forall pi hap u bounds n t, (forall i, In i pi -> (i < n)%nat) ->
  haploval (reorder_taxa pi hap) u bounds (length pi) t = map (fun Hp => map (fun k => nth k Hp []) pi) (haploval hap u bounds n t).
Proof. exact haploval_reorder. Qed.
Print Assumptions C05_haplotype_values_taxon_order.
(** the optimal haploid value of a cross (ploidy * sum over blocks of the best block value over parents and phases)
    is the optimal population value of the set of its parents *)
Theorem C05_ohv_is_opv_of_parents : forall H nb nt parents, Forall2 Qeq (map Qopp (ohv_row H nb nt parents)) (opv_subset H nb nt parents).
Proof. exact ohv_is_opv. Qed.
Print Assumptions C05_ohv_is_opv_of_parents.
(** the cross maps list every pair of distinct parents (resp. every pair) exactly as index pairs a < b (resp. a <= b) *)
Theorem C05_cross_map_pairs : forall n a b, (In [a; b] (pairs_unique n) <-> (a < b < n)%nat) /\ (In [a; b] (pairs_any n) <-> (a <= b < n)%nat).
Proof. exact cross_map_pairs. Qed.
Print Assumptions C05_cross_map_pairs.

(** usefulness criterion.  [uc_mean bv epgc parents q] is the progeny mean as coded (epgc . bv[parents]); the contribution
    vector [epgc] is an argument of the model.  For ANY contribution vector the latent vector of a UC problem whose table
    was built from (bv, epgc, intensity, sigma) is  -(1/k) sum over the selected crosses of (weighted mean + intensity * sigma),
    in every decision encoding ... *)
Theorem C05_uc_latent_is_weighted_mean_plus_isigma : forall bv epgc si sigmas t xmap s,
  length sigmas = length xmap -> in_range (length xmap) s -> s <> [] ->
  let fd := FLin false t (ucmat_of bv epgc si sigmas t xmap) in let n := length xmap in
  let want := Some (map Ex (uc_latent_def bv epgc si sigmas t xmap s)) in
  res_eq (latent n fd (DSub s)) want /\ res_eq (latent n fd (DVec (counts n s))) want /\
  res_eq (latent n fd (DVec (contrib_subset n s))) want /\ (NoDup s -> res_eq (latent n fd (DVec (indicator n s))) want).
Proof. exact uc_latent_encodings. Qed.
Print Assumptions C05_uc_latent_is_weighted_mean_plus_isigma.
(** ... where, for contributions summing to one, the weighted term is a mean: it moves with the parents' breeding values
    and equals their common value when they agree *)
Theorem C05_uc_progeny_mean_is_a_mean : forall bv bv' epgc parents q c b, length epgc = length parents -> qsum epgc == 1 ->
  ((forall i, In i parents -> mget bv' i q == mget bv i q + c) -> uc_mean bv' epgc parents q == uc_mean bv epgc parents q + c) /\
  ((forall i, In i parents -> mget bv i q == b) -> uc_mean bv epgc parents q == b).
Proof. intros bv bv' epgc parents q c b HL H1. split; [apply uc_mean_is_mean | apply uc_mean_const]; assumption. Qed.
Print Assumptions C05_uc_progeny_mean_is_a_mean.
(** corollary: with uniform contributions 1/m (two-way, dihybrid, four-way crosses) it is the plain mean of the m parents *)
Theorem C05_uc_uniform_is_plain_mean : forall bv m si sigmas t xmap s,
  length sigmas = length xmap -> in_range (length xmap) s -> s <> [] -> (0 < m)%nat -> (forall x, In x s -> length (nth x xmap []) = m) ->
  res_eq (latent (length xmap) (FLin false t (ucmat_of bv (uniform m) si sigmas t xmap)) (DSub s))
         (Some (map Ex (map (fun q => - (1 / nq (length s)) * sumf (fun x => plain_mean bv (nth x xmap []) q + si * nth q (nth x sigmas []) 0) s) (seq 0 t)))).
Proof. exact uc_latent_uniform. Qed.
Print Assumptions C05_uc_uniform_is_plain_mean.
(** and with the three-way contributions (recurrent, female, male) = (1/2, 1/4, 1/4) it is NOT the plain mean *)
Theorem C05_uc_weighted_is_not_plain_mean :
  ~ uc_mean [[4]; [0]; [0]] [1#2; 1#4; 1#4] [0; 1; 2]%nat 0 == plain_mean [[4]; [0]; [0]] [0; 1; 2]%nat 0.
Proof. exact uc_weighted_is_not_plain. Qed.
Print Assumptions C05_uc_weighted_is_not_plain_mean.

(** The kernel expressions of the CURRENT source (Gen/C05_Kernel.v is regenerated from pybrops/breed/prot/sel/prob/*.py and
    pybrops/model/embvmat on every run by harness/translate/c05_kernel.py) are the expressions the model is built from:
    the guard and the normalisation of all 39 Real/Integer/Binary latent functions, the sign and the 1/k coefficient of the
    linear, quadratic and family bodies, the order of the latent blocks, the binary64 frequency quotient and the threshold /
    flag algebra of PAU and MOGS including which helper each flag property evaluates on access on the target array held (the
    translator refuses a tfreq setter that stores anything derived from the array), the max-type coefficients,
    evalfn (which weights multiply which transformation of (x, latent), order of the triple), the usefulness criterion and the
    accumulate-and-divide loop of the expected maximum breeding value. *)
Theorem C05_kernel_is_model :
  Forall (fun f : Q -> Q => forall t, f t = guard_sum t) k_guard_all /\
  Forall (fun f : Q -> Q -> Q => forall s xi, f s xi = (1 / s) * xi) k_contrib_all /\
  Forall (fun f : Q -> Q -> Q => forall k c, f k c = (- (1 / k)) * c) k_linsub_all /\
  Forall (fun f : Q -> Q => forall d, f d = - d) k_linvec_all /\
  Forall (fun f : Q -> Q -> Q => forall k r, f k r = (1 / k) * r) k_cx_all /\
  Forall (fun f : Q -> Q => forall d, f d = - (1 - d)) k_meh_all /\
  Forall (fun f : Q -> Q => forall b, f b = - b) k_famneg_all /\
  (length k_guard_all = 24 /\ length k_contrib_all = 39 /\ length k_linsub_all = 9 /\ length k_linvec_all = 27)%nat /\
  (forall pf tfv, k_pau_pipeline pf tfv = pau_unavail_code pf tfv) /\
  (forall pf tfv, k_mogs_pipeline pf tfv = mogs_unavail_code pf tfv) /\
  (forall pl G s j, pfreq_f pl G s j = k_pfreq__pau (f_of_Z (acount G s j)) (f_of_Z (k_pfreq_den__pau pl (Z.of_nat (length s)))) /\
                    pfreq_f pl G s j = k_pfreq__mogs (f_of_Z (acount G s j)) (f_of_Z (k_pfreq_den__mogs pl (Z.of_nat (length s))))) /\
  (forall c pl k, k_pfreq__pafd (f_of_Z c) (f_of_Z (k_pfreq_den__pafd pl k)) = pfreq_of_count c (pl * k)) /\
  (forall x, k_pau_flag_tminor x = t_minor x /\ k_pau_flag_thet x = t_het x /\ k_pau_flag_tmajor x = t_major x /\
             k_pafd_flag_tminor x = t_minor x /\ k_pafd_flag_thet x = t_het x /\ k_pafd_flag_tmajor x = t_major x) /\
  (forall n t M ids s, fam_subset n t M ids s = k_cat__FamilyEstimatedBreedingValueSubsetSelectionProblem Q (lin_subset t M s)
        (map k_famneg__FamilyEstimatedBreedingValueSubsetSelectionProblem (bincount (nfam ids) (famix ids) (famwt_subset n s)))) /\
  (forall a (l : list Q), k_cat__OptimalContributionSubsetSelectionProblem lv [Sq a] (map Ex l) = Sq a :: map Ex l) /\
  (forall a b : list Q, k_cat__MultiObjectiveGenomicSubsetSelectionProblem Q a b = a ++ b) /\
  (forall H nb nt s, opv_subset H nb nt s = map (fun q => k_opv (nq (length H)) (sumf (fun b => maxl (flat_map (fun Hp => map (fun i => hget Hp i b q) s) H)) (seq 0 nb))) (seq 0 nt)) /\
  (forall H nb nt nbest s, gb_subset H nb nt nbest s = map (fun q => k_gb (nq (length H)) (nq nbest)
      (sumf (fun b => qsum (lastn nbest (sortQ (map (fun i => maxl (map (fun Hp => hget Hp i b q) H)) s)))) (seq 0 nb))) (seq 0 nt)) /\
  (forall To Ti Te wo wi we x l, k_evalfn To Ti Te wo wi we x l = evalfn To Ti Te wo wi we x l) /\
  (forall bv epgc si sigma t parents, uc_row bv epgc si sigma t parents = map (fun q => k_uc (uc_mean bv epgc parents q) si (nth q sigma 0)) (seq 0 t)) /\
  (forall bv epgc parents q, uc_mean bv epgc parents q == k_uc_pmean epgc (map (fun i => mget bv i q) parents)) /\
  (forall reps q, k_embv_avg (fold_left k_embv_acc (map (fun bvs => colmax bvs q) reps) 0) (nq (length reps)) == embv_entry reps q).
Proof. exact kernel_is_model. Qed.
Print Assumptions C05_kernel_is_model.
(** the sel/prob/trans.py bodies are the model's transformations *)
Theorem C05_kernel_transformations : forall x l w d,
  apply_trans TId x l = k_trans_identity x l /\ apply_trans TEmpty x l = k_trans_empty x l /\
  Forall2 Qeq (apply_trans TSum x l) (k_trans_sum x l) /\ Forall2 Qeq (apply_trans (TDot w) x l) (k_trans_dot x l w) /\
  Forall2 Qeq (apply_trans (TDecnSum d) x l) (k_trans_decnvec_sum_eq x l d).
Proof. exact k_trans_model. Qed.
Print Assumptions C05_kernel_transformations.
(** the availability theorems restated about the GENERATED definitions: the threshold tests of the current source on the
    frequency quotient of the current source decide exactly the count-based definition, for every allele count out of at
    most 2^53 chromosome copies and every target (PAU: every target that is a frequency) *)
Theorem C05_kernel_availability : forall (c pl k : Z) (tfv : Q), (0 <= c <= k_pfreq_den__pau pl k)%Z -> (0 < k_pfreq_den__pau pl k <= 2^53)%Z ->
  k_mogs_pipeline (k_pfreq__mogs (f_of_Z c) (f_of_Z (k_pfreq_den__mogs pl k))) tfv = unavail_def c (pl * k) tfv /\
  (t_unit tfv = true -> k_pau_pipeline (k_pfreq__pau (f_of_Z c) (f_of_Z (k_pfreq_den__pau pl k))) tfv = unavail_def c (pl * k) tfv).
Proof. exact kernel_availability. Qed.
Print Assumptions C05_kernel_availability.
(** scale invariance restated about the generated guard / normalisation of every guarded class, and the side of the boundary *)
Theorem C05_kernel_scale_invariant : forall g c a x, In g k_guard_all -> In c k_contrib_all -> 0 < a ->
  guard_eps <= Qabs' (qsum x) -> guard_eps <= Qabs' (qsum (map (Qmult a) x)) ->
  Forall2 Qeq (map (c (g (qsum (map (Qmult a) x)))) (map (Qmult a) x)) (map (c (g (qsum x))) x).
Proof. exact kernel_scale_invariant. Qed.
Print Assumptions C05_kernel_scale_invariant.
Theorem C05_kernel_guard_boundary : forall g, In g k_guard_all -> g guard_eps = guard_eps /\ g (- guard_eps) = - guard_eps /\ g 0 = 1.
Proof. exact kernel_guard_boundary. Qed.
Print Assumptions C05_kernel_guard_boundary.
(** expected maximum breeding value matrix: the replicate buffer of the current source has exactly as many rows as replicates
    are drawn for the taxon (nrep[i]), every replicate has nprogeny[i] progeny of parent i; with stale rows in the buffer the
    buffer mean is not the replicate mean *)
Theorem C05_kernel_embv_buffer : forall nrep_i nrep_max np_i np_max i ntaxa : Z,
  k_embvmat_rows nrep_i nrep_max np_i np_max i ntaxa = k_embvmat_loop nrep_i nrep_max np_i np_max i ntaxa /\
  k_embvmat_loop nrep_i nrep_max np_i np_max i ntaxa = nrep_i /\
  k_embvmat_nprog nrep_i nrep_max np_i np_max i ntaxa = np_i /\
  k_embvmat_parent nrep_i nrep_max np_i np_max i ntaxa = i.
Proof. exact embvmat_kernel. Qed.
Print Assumptions C05_kernel_embv_buffer.
Theorem C05_embv_stale_buffer_refuted : ~ qsum ([1] ++ [3]) / nq (length ([1] ++ [3])) == qsum [1] / nq (length [1 : Q]).
Proof. exact buffer_mean_stale_differs. Qed.
Print Assumptions C05_embv_stale_buffer_refuted.
(** the slice of the genotype builder: [st:sp] of the source are the last nbestfndr sorted members *)
Theorem C05_kernel_gb_slice : forall (l : list Q) nbest,
  lastn nbest l = firstn (Z.to_nat (k_gb_sp (Z.of_nat (length l)) (Z.of_nat nbest)) - Z.to_nat (k_gb_st (Z.of_nat (length l)) (Z.of_nat nbest)))
                         (skipn (Z.to_nat (k_gb_st (Z.of_nat (length l)) (Z.of_nat nbest))) l).
Proof. exact (@k_gb_slice Q). Qed.
Print Assumptions C05_kernel_gb_slice.

(** Sessions: a problem object that is re-used — data re-assigned through its setters ([OSet]) or updated in place ([OUpd])
    between calls — answers every call from the data it holds at that call: after ANY history of assignments, in-place updates
    and calls, the next call returns the latent vector of the data the history left ([last_set]: the last assignment with the
    in-place updates made since), and two histories that leave the same data give the same answer. *)
Theorem C05_session_call_is_function_of_current_data : forall n fd0 ops d,
  snd (run n fd0 (ops ++ [OCall d])) = snd (run n fd0 ops) ++ [latent n (last_set fd0 ops) d].
Proof. exact session_call. Qed.
Print Assumptions C05_session_call_is_function_of_current_data.
Theorem C05_session_history_irrelevant : forall n fd0 fd0' ops ops' d, last_set fd0 ops = last_set fd0' ops' ->
  last (snd (run n fd0 (ops ++ [OCall d]))) None = last (snd (run n fd0' (ops' ++ [OCall d]))) None.
Proof. exact session_history_irrelevant. Qed.
Print Assumptions C05_session_history_irrelevant.
(** Scale law: the linear criteria (EBV, GEBV, wGEBV, gwGEBV, EMBV, random, UC, OHV) are homogeneous of degree one in their
    table — for every factor a (not only positive ones), every decision encoding, guarded or not. *)
Theorem C05_linear_scale_law : forall n g t M a d,
  res_eq (latent n (FLin g t (scaleM a M)) d) (omap (map (lv_scale a)) (latent n (FLin g t M) d)).
Proof. exact latent_lin_scale. Qed.
Print Assumptions C05_linear_scale_law.
(** Expected maximum breeding value: if every simulated progeny of a line has breeding value b for a trait (a fully homozygous
    line: every doubled haploid is the line itself), the mean over the replicates of the per-replicate maxima is b, for every
    number of replicates and progeny. *)
Theorem C05_embv_homozygous_is_bv : forall reps q b, reps <> [] ->
  (forall bvs, In bvs reps -> bvs <> [] /\ forall r, In r bvs -> nth q r 0 == b) -> embv_entry reps q == b.
Proof. exact embv_entry_const. Qed.
Print Assumptions C05_embv_homozygous_is_bv.

(** Finding C05-tfreq-inplace-stale-flags (repaired): the flag properties of the PAU / PAFD / MOGS mixins compute tminor / thet /
    tmajor (tfreq_fix_minor / major / heter) from the target array the problem holds each time they are read.  After the targets
    were overwritten IN PLACE ([OUpd (set_targets tf')]) the next call answers for the data with the new targets, after any
    history ... *)
Theorem C05_tfreq_inplace_call : forall n fd0 ops tf' d,
  snd (run n fd0 (ops ++ [OUpd (set_targets tf'); OCall d])) = snd (run n fd0 ops) ++ [latent n (set_targets tf' (last_set fd0 ops)) d].
Proof. exact tfreq_inplace_call. Qed.
Print Assumptions C05_tfreq_inplace_call.
(** ... and that answer is the definition (allele counts against the CURRENT targets), whatever the targets were when the setter
    ran — no relation between [tf_set] and [tf_now] is assumed (formerly: only if no target changed its class) *)
Theorem C05_tfreq_inplace_mogs : forall n pl G w tf_set tf_now p t s, s <> [] -> (0 < popsize pl s <= 2^53)%Z -> geno_ok pl G s p ->
  latent n (set_targets tf_now (FMogs pl G w tf_set p t)) (DSub s) = Some (map Ex (pau_def pl G w tf_now p t s ++ pafd pl G w tf_now p t s)).
Proof. exact mogs_inplace_is_definition. Qed.
Print Assumptions C05_tfreq_inplace_mogs.
Theorem C05_tfreq_inplace_pau : forall n pl G w tf_set tf_now p t s, s <> [] -> (0 < popsize pl s <= 2^53)%Z -> geno_ok pl G s p -> targets_unit tf_now p t ->
  latent n (set_targets tf_now (FPau pl G w tf_set p t)) (DSub s) = Some (map Ex (pau_def pl G w tf_now p t s)).
Proof. exact pau_inplace_is_definition. Qed.
Print Assumptions C05_tfreq_inplace_pau.
(** regression witness about the FORMER code ([old_pau_stale] / [old_mogs_stale] of the model, not used by [latent]: flags cached
    by the tfreq setter, distances to the current targets): the availability term missed the in-place update, the current code
    (last two conjuncts, same input) does not *)
Theorem C05_old_tfreq_inplace_stale_flags_refuted : exists pl G w tf_set tf_now p t s,
  old_mogs_stale pl G w tf_set tf_now p t s <> mogs_pau_code pl G w tf_now p t s ++ pafd pl G w tf_now p t s /\
  old_pau_stale pl G w tf_set tf_now p t s <> pau_code pl G w tf_now p t s /\
  latent 2 (set_targets tf_now (FMogs pl G w tf_set p t)) (DSub s) = Some (map Ex (mogs_pau_code pl G w tf_now p t s ++ pafd pl G w tf_now p t s)) /\
  latent 2 (set_targets tf_now (FPau pl G w tf_set p t)) (DSub s) = Some (map Ex (pau_code pl G w tf_now p t s)).
Proof. exact old_tfreq_inplace_stale_refuted. Qed.
Print Assumptions C05_old_tfreq_inplace_stale_flags_refuted.

(** non-vacuity: concrete values meeting the hypotheses used above *)
Example C05_hyps_satisfiable :
  has_vec (FOcs 1 [[1]; [2]; [3]] [[1; 1#2; 0]; [0; 1; 1#4]; [0; 0; 1]]) = true /\ in_range 3 [2; 0]%nat /\ [2; 0]%nat <> [] /\ NoDup [2; 0]%nat
  /\ fam_ok (FFam 1 [[1]; [2]; [3]] [5; 3; 5]%Z) [2; 0]%nat /\ Permutation [2; 0]%nat [0; 2]%nat
  /\ guard_eps <= Qabs' (qsum [1#4; 1#2]) /\ guard_eps <= Qabs' (qsum (map (Qmult 3) [1#4; 1#2]))
  /\ (0 < popsize 2 [0; 1; 2]%nat <= 2^53)%Z
  /\ geno_ok 2 [[2; 0]; [1; 1]; [2; 0]]%Z [0; 1; 2]%nat 2 /\ targets_unit [[1]; [0]] 2 1
  /\ latent 3 (FPau 2 [[2; 0]; [1; 1]; [2; 0]]%Z [[1]; [1]] [[1]; [0]] 2 1) (DSub [0; 1; 2]%nat) = Some [Ex 0].
Proof.
  split; [reflexivity|]. split; [intros i [<-|[<-|[]]]; lia|]. split; [discriminate|]. split; [repeat constructor; cbn; intuition lia|].
  split; [cbn; repeat constructor; cbn; intuition lia|]. split; [apply perm_swap|].
  split; [apply Qle_bool_iff; vm_compute; reflexivity|]. split; [apply Qle_bool_iff; vm_compute; reflexivity|].
  split; [vm_compute; split; [reflexivity | discriminate]|].
  split; [intros j Hj; destruct j as [|[|j]]; [vm_compute; split; discriminate | vm_compute; split; discriminate | lia]|].
  split; [intros j q Hj Hq; destruct j as [|[|j]]; [| |lia]; (destruct q as [|q]; [reflexivity | lia])|].
  vm_compute. reflexivity.
Qed.

Example C05_uc_hyps_satisfiable :
  let xmap := [[0; 1; 2]; [2; 0; 1]]%nat in let sigmas := [[1#2]; [1]] in let epgc := [1#2; 1#4; 1#4] in
  length sigmas = length xmap /\ in_range (length xmap) [1; 0]%nat /\ [1; 0]%nat <> [] /\ NoDup [1; 0]%nat /\ length epgc = 3%nat /\ qsum epgc == 1
  /\ qsum (uniform 4) == 1 /\ (forall x, In x [1; 0]%nat -> length (nth x xmap []) = 3%nat)
  /\ res_eq (latent 2 (FLin false 1 (ucmat_of [[4]; [0]; [8]] epgc 2 sigmas 1 xmap)) (DSub [1; 0]%nat)) (Some [Ex (- 6)]).
Proof.
  cbv zeta. split; [reflexivity|]. split; [intros i [<-|[<-|[]]]; cbn; lia|]. split; [discriminate|]. split; [repeat constructor; cbn; intuition lia|].
  split; [reflexivity|]. split; [reflexivity|]. split; [apply uniform_total; lia|].
  split; [intros x [<-|[<-|[]]]; reflexivity|]. vm_compute. repeat constructor.
Qed.

(** The REPORTING path.  [SelectionProblem._evaluate(x, out)] is what pymoo's Problem.evaluate and the memetic hill climbers
    read.  The generated tables of the CURRENT source (Gen/C05_Kernel.v: which element of the evalfn triple is stored under which
    key of [out], in the vector branch and in the matrix branch; the branch test; the filters) say: "F", "G", "H" are elements
    0, 1, 2 of the triple in BOTH branches, the vector branch is taken exactly for a one-dimensional argument, and a key is
    stored exactly when its length (vector) / its number of columns (matrix) is positive. *)
Theorem C05_kernel_evaluate_keys :
  k_evaluate_vec_table = [("F"%string, 0%nat); ("G"%string, 1%nat); ("H"%string, 2%nat)] /\
  k_evaluate_mat_table = [("F"%string, 0%nat); ("G"%string, 1%nat); ("H"%string, 2%nat)].
Proof. exact k_evaluate_tables. Qed.
Print Assumptions C05_kernel_evaluate_keys.
Theorem C05_kernel_evaluate_tests :
  (forall nd, k_evaluate_is_vec nd = (nd =? 1)%Z) /\ (forall n, k_evaluate_vec_keep n = (0 <? n)%Z) /\
  (forall r c, k_evaluate_mat_keep r c = (0 <? c)%Z).
Proof. exact k_evaluate_tests. Qed.
Print Assumptions C05_kernel_evaluate_tests.
(** Hence, for a problem whose evalfn is the generated [k_evalfn] over ANY latent function, weights and transformations: what
    [_evaluate] reports for a decision vector, and row by row for a non-empty matrix of candidates, is the declared weights
    times the declared transformations of the latent vector of that candidate — objectives under "F", inequality constraint
    violations under "G", equality constraint violations under "H"; a key is present iff its width is positive. *)
Theorem C05_evaluate_reports_evalfn : forall To Ti Te wo wi we (lat : list Q -> list Q),
  let f := fun x => k_evalfn To Ti Te wo wi we x (lat x) in
  (forall x, evaluate f (X1 x) = Some (present_vec "F" (map2 Qmult wo (To x (lat x))) ++ present_vec "G" (map2 Qmult wi (Ti x (lat x))) ++
                                      present_vec "H" (map2 Qmult we (Te x (lat x))))) /\
  (forall X, X <> [] -> evaluate f (X2 X) = Some (present_mat "F" (map (fun x => map2 Qmult wo (To x (lat x))) X) ++
                                                  present_mat "G" (map (fun x => map2 Qmult wi (Ti x (lat x))) X) ++
                                                  present_mat "H" (map (fun x => map2 Qmult we (Te x (lat x))) X))).
Proof. exact evaluate_reports_evalfn. Qed.
Print Assumptions C05_evaluate_reports_evalfn.
(** the keys stored are those of positive declared count, in the order F, G, H, in both branches; every stored matrix has one
    row per candidate; one candidate through the matrix branch reports the numbers of the vector branch *)
Theorem C05_evaluate_keys_present : forall (e : triple) evs,
  map fst (report_mat (e :: evs)) = keys_of (length (fst (fst e))) (length (snd (fst e))) (length (snd e)) /\
  map fst (report_vec e) = keys_of (length (fst (fst e))) (length (snd (fst e))) (length (snd e)).
Proof. exact report_keys. Qed.
Print Assumptions C05_evaluate_keys_present.
Theorem C05_evaluate_one_row_per_candidate : forall evs key m, In (key, OM m) (report_mat evs) -> length m = length evs.
Proof. exact report_mat_rows. Qed.
Print Assumptions C05_evaluate_one_row_per_candidate.
Theorem C05_evaluate_single_row_is_vector : forall ev,
  report_mat [ev] = flat_map (fun kv : string * outv => match snd kv with OV v => [(fst kv, OM [v])] | OM _ => [] end) (report_vec ev).
Proof. exact report_row_is_vec. Qed.
Print Assumptions C05_evaluate_single_row_is_vector.
(** regression witness: "H" taken from the inequality column (element 1) is not the report of the current source *)
Theorem C05_evaluate_h_from_ineq_refuted :
  report_mat_t h_from_ineq_table [([1], [2], [3; 4])] <> report_mat [([1], [2], [3; 4])] /\
  map fst (report_mat_t h_from_ineq_table [([1], [], [3])]) = ["F"%string] /\ map fst (report_mat [([1], [], [3])]) = ["F"%string; "H"%string].
Proof. exact h_from_ineq_differs. Qed.
Print Assumptions C05_evaluate_h_from_ineq_refuted.

Example C05_evaluate_hyps_satisfiable :
  [[1; 0]; [0; 1]] <> ([] : list (list Q)) /\
  evaluate (fun x => k_evalfn (apply_trans TId) (apply_trans TEmpty) (apply_trans TSum) [2; -1] [] [3] x (map (Qmult (1#2)) x)) (X2 [[1; 0]; [0; 1]])
    = Some [("F"%string, OM [[2 * ((1#2) * 1); -1 * ((1#2) * 0)]; [2 * ((1#2) * 0); -1 * ((1#2) * 1)]]); ("H"%string, OM [[3 * Qred ((1#2) * 1 + Qred ((1#2) * 0 + 0))]; [3 * Qred ((1#2) * 0 + Qred ((1#2) * 1 + 0))]])] /\
  In ("H"%string, OM [[3]; [4]]) (report_mat [([1], [], [3]); ([2], [], [4])]).
Proof. split; [discriminate|]. split; [reflexivity|]. right. left. reflexivity. Qed.

Example C05_kernel_hyps_satisfiable :
  In k_guard__OptimalContributionRealSelectionProblem k_guard_all /\ In k_contrib__OptimalContributionRealSelectionProblem k_contrib_all
  /\ guard_eps <= Qabs' (qsum [1#4; 1#2]) /\ guard_eps <= Qabs' (qsum (map (Qmult 3) [1#4; 1#2]))
  /\ (0 <= 49 <= k_pfreq_den__pau 1 49)%Z /\ (0 < k_pfreq_den__pau 1 49 <= 2^53)%Z /\ t_unit (1#2) = true
  /\ k_pau_pipeline (k_pfreq__pau (f_of_Z 49) (f_of_Z (k_pfreq_den__pau 1 49))) (1#2) = true.
Proof.
  split; [unfold k_guard_all; cbn; tauto|]. split; [unfold k_contrib_all; cbn; tauto|].
  split; [apply Qle_bool_iff; vm_compute; reflexivity|]. split; [apply Qle_bool_iff; vm_compute; reflexivity|].
  split; [vm_compute; split; discriminate|]. split; [vm_compute; split; [reflexivity | discriminate]|]. split; vm_compute; reflexivity.
Qed.

Example C05_session_hyps_satisfiable :
  last_set (FMgr [[1]]) [OSet (FMgr [[2]]); OCall (DSub [0%nat])] = last_set (FMgr [[3]]) [OCall (DSub [0%nat]); OSet (FMgr [[2]])]
  /\ [[[3; 1]; [3; 0]]; [[3; 2]]] <> [] /\ (forall bvs, In bvs [[[3; 1]; [3; 0]]; [[3; 2]]] -> bvs <> [] /\ forall r, In r bvs -> nth 0 r 0 == 3)
  /\ embv_entry [[[3; 1]; [3; 0]]; [[3; 2]]] 1 == 3 # 2.
Proof.
  split; [reflexivity|]. split; [discriminate|]. split.
  - intros bvs [<-|[<-|[]]]; (split; [discriminate|]); intros r H; cbn in H; intuition (subst; reflexivity).
  - vm_compute. reflexivity.
Qed.

Example C05_tfreq_inplace_hyps_satisfiable :
  let G := [[2; 0]; [2; 2]]%Z in let s := [0; 1]%nat in let tf_set := [[1#2]; [1#2]] in let tf_now := [[1]; [1#2]] in
  s <> [] /\ (0 < popsize 2 s <= 2^53)%Z /\ geno_ok 2 G s 2 /\ targets_unit tf_now 2 1 /\
  latent 2 (set_targets tf_now (FMogs 2 G [[1]; [1]] tf_set 2 1)) (DSub s) = Some [Ex 0; Ex 0] /\
  last_set (FPau 2 G [[1]; [1]] tf_set 2 1) [OCall (DSub s); OUpd (set_targets tf_now)] = FPau 2 G [[1]; [1]] tf_now 2 1.
Proof.
  cbv zeta. split; [discriminate|]. split; [vm_compute; split; [reflexivity | discriminate]|].
  split; [intros j Hj; destruct j as [|[|j]]; [vm_compute; split; discriminate | vm_compute; split; discriminate | lia]|].
  split; [intros j q Hj Hq; destruct j as [|[|j]]; [| |lia]; (destruct q as [|q]; [reflexivity | lia])|].
  split; [vm_compute|]; reflexivity.
Qed.

(** cross maps and OHV tables for ANY number of parents (the factories are driven with 1, 2, 3 and 4).
    The cross map of k parents lists exactly the index tuples of length k below n that increase strictly (unique parents) /
    do not decrease; for two parents it is the pair map above and the k-parent table is the two-parent table *)
Theorem C05_cross_map_tuples : forall unique n k l,
  In l (xmap_def unique n k) <-> (length l = k /\ chain unique 0 l /\ Forall (fun i => (i < n)%nat) l).
Proof. exact xmap_def_spec. Qed.
Print Assumptions C05_cross_map_tuples.
Theorem C05_cross_map_two_parents : forall n, xmap_def true n 2 = pairs_unique n /\ xmap_def false n 2 = pairs_any n.
Proof. exact xmap_def_two. Qed.
Print Assumptions C05_cross_map_two_parents.
Theorem C05_ohv_table_two_parents : forall hap u bounds n t unique, ohvmat_defk hap u bounds n t 2 unique = ohvmat_def hap u bounds n t unique.
Proof. exact ohvmat_defk_two. Qed.
Print Assumptions C05_ohv_table_two_parents.
(** every parent of the cross counts: an entry of the OHV row of a parent list is at least ploidy * (sum over the blocks of the
    block value) of ANY phase of ANY parent in the list - first, last or in between *)
Theorem C05_ohv_every_parent_counts : forall H nb nt parents Hp i q, In Hp H -> In i parents -> (q < nt)%nat ->
  nq (length H) * sumf (fun b => hget Hp i b q) (seq 0 nb) <= nth q (ohv_row H nb nt parents) 0.
Proof. exact ohv_row_dominates. Qed.
Print Assumptions C05_ohv_every_parent_counts.
(** the table on a cross map is, row by row and trait by trait, the expression of the CURRENT _calc_ohvmat
    (Gen/C05_Kernel.v: ploidy * haplomat[:, xconfig, :, :].max((0, 2)).sum(1), xconfig = all columns of the cross-map rows)
    applied to the block values of every phase and every parent of the row *)
Theorem C05_kernel_ohv_table : forall hap u bounds n t xmap,
  ohvmat_on hap u bounds n t xmap
  = map (fun parents => map (fun q => k_ohv maxl qsum (nq (length hap))
           (map (fun b => flat_map (fun Hp => map (fun i => hget Hp i b q) parents) (haploval hap u bounds n t)) (seq 0 (length bounds)))) (seq 0 t)) xmap.
Proof. exact ohvmat_on_kernel. Qed.
Print Assumptions C05_kernel_ohv_table.

(** hypotheses met by a three-way cross whose MIDDLE parent alone carries the best haplotype of the second block:
    one phase, three taxa, two blocks, one trait; block values  taxon 0: (1, 0), taxon 1: (0, 5), taxon 2: (0, 0) *)
Example C05_ohv_hyps_satisfiable :
  let H := [[[[1]; [0]]; [[0]; [5]]; [[0]; [0]]]] in
  In [0; 1; 2]%nat (xmap_def true 3 3) /\ (length [0; 1; 2]%nat = 3%nat /\ chain true 0 [0; 1; 2]%nat /\ Forall (fun i => (i < 3)%nat) [0; 1; 2]%nat)
  /\ In (nth 0 H []) H /\ In 1%nat [0; 1; 2]%nat /\ (0 < 1)%nat
  /\ ohv_row H 2 1 [0; 1; 2]%nat = [6] /\ ohv_row H 2 1 [0; 2]%nat = [1]
  /\ nq (length H) * sumf (fun b => hget (nth 0 H []) 1 b 0) (seq 0 2) == 5.
Proof.
  cbv zeta. split; [vm_compute; tauto|]. split; [repeat split; cbn; try lia; repeat constructor|].
  split; [now left|]. split; [cbn; tauto|]. split; [lia|]. split; [vm_compute; reflexivity|]. split; vm_compute; reflexivity.
Qed.
