(** C10 — selection limits bound every attainable value and only ever tighten: property theorems only
    (statement, [exact] of a lemma proved in Proofs/, [Print Assumptions]).
    Model: Model/C10_Limits.v (usl / lsl / usl_numpy / lsl_numpy / gebv / gebv_numpy of DenseAdditiveLinearGenomicModel on
    the binary64 allele frequency of C09; a breeding programme = iterated [core] of the C01 protocol model).
    Vocabulary (Proofs/C10_Limits.v, Proofs/C10_History.v):
      [wf n p geno]        diploid phased population, n >= 1 individuals, p loci, alleles in {0,1}, 2n <= 2^53;   [wfp p g] = wf (ntaxa_of g) p g
      [model_ok p t u]     effect matrix with p rows (loci) and t columns (traits), any rationals (any signs, zeros)
      [alleles j geno]     the 2n alleles at locus j;   [shrinks p prev next]  every allele present at a locus of next is present at that locus of prev
      [closed p h]         consecutive generations of the history h are related by [shrinks]
      [fixed_all p geno]   all copies carry the same allele at every locus
      [history geno xoprob steps]  the programme: each step applies one of the seven protocols to an arbitrary cross table
      [uslg/lslg/gebvg/freqg]  usl / lsl / gebv_numpy / afreq of a generation at its own size. *)
From Coq Require Import PrimFloat.
From PV Require Import Lib.Common Lib.FloatK Model.C01_Meiosis Model.C01_Mating Model.C09_Stats Model.C10_Limits.
From PV Require Import Proofs.C01_Meiosis Proofs.C09_Stats Proofs.C10_Float Proofs.C10_Limits Proofs.C10_History.
From PV Require Import Gen.C10_Kernel Proofs.C10_Kernel Proofs.C10_Laws Proofs.C10_Ploidy.
Local Open Scope Z_scope.

(** ENVELOPE — for every population, every additive model and every trait: lsl <= gebv(individual) <= usl for every member *)
Theorem C10_brackets : forall t n p u geno s k, wf n p geno -> model_ok p t u -> (s < n)%nat -> (k < t)%nat ->
  (nth k (lsl t n p u geno) 0 <= nth k (nth s (gebv_numpy t u (dosage n p geno)) []) 0)%Q /\
  (nth k (nth s (gebv_numpy t u (dosage n p geno)) []) 0 <= nth k (usl t n p u geno) 0)%Q.
Proof. exact pop_brackets. Qed.
Print Assumptions C10_brackets.

(** ... and with the intercept on both sides (usl/lsl(unscale=True) against gebv(...).unscale()) *)
Theorem C10_brackets_unscaled : forall t n p u beta geno s k, wf n p geno -> model_ok p t u -> Forall (fun r => length r = t) beta ->
  (s < n)%nat -> (k < t)%nat ->
  (nth k (lsl_unscaled t n p u beta geno) 0 <= nth k (nth s (gebv_unscaled t u beta (dosage n p geno)) []) 0)%Q /\
  (nth k (nth s (gebv_unscaled t u beta (dosage n p geno)) []) 0 <= nth k (usl_unscaled t n p u beta geno) 0)%Q.
Proof. exact pop_brackets_unscaled. Qed.
Print Assumptions C10_brackets_unscaled.

(** TIGHT — a population fixed at all loci: both limits equal the breeding value of every (hence the common value of all) member *)
Theorem C10_fixed_tight : forall t n p u geno s k, wf n p geno -> model_ok p t u -> fixed_all p geno -> (s < n)%nat -> (k < t)%nat ->
  (nth k (lsl t n p u geno) 0 == nth k (nth s (gebv_numpy t u (dosage n p geno)) []) 0)%Q /\
  (nth k (usl t n p u geno) 0 == nth k (nth s (gebv_numpy t u (dosage n p geno)) []) 0)%Q.
Proof. exact pop_fixed_tight. Qed.
Print Assumptions C10_fixed_tight.

(** what the limits are: the value of the best / worst homozygous genotype that can be assembled from the alleles present
    (count-based availability; the binary64 frequency tests of the code decide exactly that, for every size up to 2^53 copies) *)
Theorem C10_limits_are_counts : forall t n p u geno k, wf n p geno -> model_ok p t u -> (k < t)%nat ->
  nth k (usl t n p u geno) 0%Q = usl_spec n p u geno k /\ nth k (lsl t n p u geno) 0%Q = lsl_spec n p u geno k.
Proof. intros. split; [now apply usl_is_spec | now apply lsl_is_spec]. Qed.
Print Assumptions C10_limits_are_counts.

(** the phased object, the unphased object and the raw dosage array give the same limits *)
Theorem C10_routes_agree : forall t n p u geno, wf n p geno ->
  usl_dosage t n p 2 u geno = usl t n p u geno /\ lsl_dosage t n p 2 u geno = lsl t n p u geno.
Proof. exact usl_routes. Qed.
Print Assumptions C10_routes_agree.

(** MONOTONE (one step, sizes unrelated) — if no allele reappears, usl does not increase and lsl does not decrease *)
Theorem C10_monotone_step : forall t n n' p u prev next k, wf n p prev -> wf n' p next -> model_ok p t u -> shrinks p prev next -> (k < t)%nat ->
  (nth k (usl t n' p u next) 0 <= nth k (usl t n p u prev) 0)%Q /\ (nth k (lsl t n p u prev) 0 <= nth k (lsl t n' p u next) 0)%Q.
Proof. exact pop_monotone. Qed.
Print Assumptions C10_monotone_step.

(** MONOTONE along any closed history (any list of populations of any sizes in which allele sets only shrink) *)
Theorem C10_history_monotone : forall t p u h i i' k, closed p h -> Forall (wfp p) h -> model_ok p t u ->
  (i <= i')%nat -> (i' < length h)%nat -> (k < t)%nat ->
  (nth k (uslg t p u (nth i' h [])) 0 <= nth k (uslg t p u (nth i h [])) 0)%Q /\
  (nth k (lslg t p u (nth i h [])) 0 <= nth k (lslg t p u (nth i' h [])) 0)%Q.
Proof. exact hist_monotone. Qed.
Print Assumptions C10_history_monotone.

(** ENVELOPE for descendants — the limits of generation i bracket every member of every later generation i' *)
Theorem C10_history_brackets : forall t p u h i i' s k, closed p h -> Forall (wfp p) h -> model_ok p t u ->
  (i <= i')%nat -> (i' < length h)%nat -> (s < ntaxa_of (nth i' h []))%nat -> (k < t)%nat ->
  (nth k (lslg t p u (nth i h [])) 0 <= nth k (nth s (gebvg t p u (nth i' h [])) []) 0)%Q /\
  (nth k (nth s (gebvg t p u (nth i' h [])) []) 0 <= nth k (uslg t p u (nth i h [])) 0)%Q.
Proof. exact hist_brackets. Qed.
Print Assumptions C10_history_brackets.

(** LOST STAYS LOST — a reported frequency of exactly 0.0 (allele 1 lost) or 1.0 (allele 0 lost) stays 0.0 / 1.0 in every later generation *)
Theorem C10_lost_stays_lost : forall p h i i' j, closed p h -> Forall (wfp p) h -> (i <= i')%nat -> (i' < length h)%nat -> (j < p)%nat ->
  (PrimFloat.eqb (nth j (freqg p (nth i h [])) 0%float) 0%float = true -> PrimFloat.eqb (nth j (freqg p (nth i' h [])) 0%float) 0%float = true) /\
  (PrimFloat.eqb (nth j (freqg p (nth i h [])) 0%float) 1%float = true -> PrimFloat.eqb (nth j (freqg p (nth i' h [])) 0%float) 1%float = true).
Proof. exact hist_lost. Qed.
Print Assumptions C10_lost_stays_lost.

(** CLOSURE — the history of the programme model (any protocols, cross tables = any selection, counts, selfing depths,
    non-negative draws, any number of generations) is a closed history of well-formed populations *)
Theorem C10_programme_closed : forall p xoprob, length xoprob = p -> forall steps geno h, history geno xoprob steps = Some h ->
  wfp p geno -> Forall (fun s => nonneg_draws (s_draws s)) steps -> sizes_ok h ->
  Forall (wfp p) h /\ closed p h /\ nth 0 h [] = geno /\ length h = S (length steps).
Proof. exact history_closed. Qed.
Print Assumptions C10_programme_closed.

(** the property for the programme model, all clauses at once *)
Theorem C10_programme_limits : forall p t u xoprob steps geno h, length xoprob = p -> model_ok p t u ->
  history geno xoprob steps = Some h -> wfp p geno -> nonneg_steps steps -> sizes_ok h ->
  length h = S (length steps) /\ nth 0 h [] = geno /\
  forall i i', (i <= i')%nat -> (i' < length h)%nat ->
    (forall k, (k < t)%nat ->
       (nth k (uslg t p u (nth i' h [])) 0 <= nth k (uslg t p u (nth i h [])) 0)%Q /\
       (nth k (lslg t p u (nth i h [])) 0 <= nth k (lslg t p u (nth i' h [])) 0)%Q /\
       forall s, (s < ntaxa_of (nth i' h []))%nat ->
         (nth k (lslg t p u (nth i h [])) 0 <= nth k (nth s (gebvg t p u (nth i' h [])) []) 0)%Q /\
         (nth k (nth s (gebvg t p u (nth i' h [])) []) 0 <= nth k (uslg t p u (nth i h [])) 0)%Q) /\
    (forall j, (j < p)%nat ->
       (PrimFloat.eqb (nth j (freqg p (nth i h [])) 0%float) 0%float = true -> PrimFloat.eqb (nth j (freqg p (nth i' h [])) 0%float) 0%float = true) /\
       (PrimFloat.eqb (nth j (freqg p (nth i h [])) 0%float) 1%float = true -> PrimFloat.eqb (nth j (freqg p (nth i' h [])) 0%float) 1%float = true)).
Proof. exact programme_limits. Qed.
Print Assumptions C10_programme_limits.

(** the availability tests on the binary64 quotient c/N are tests on the integer count, for every N up to 2^53 *)
Theorem C10_tests_are_counts : forall u c N, 0 <= c <= N -> 0 < N <= 2^53 ->
  usl_ind u (afreq_f1 c N) = usl_cnt u c N /\ lsl_ind u (afreq_f1 c N) = lsl_cnt u c N.
Proof. intros. split; [now apply usl_ind_cnt | now apply lsl_ind_cnt]. Qed.
Print Assumptions C10_tests_are_counts.

(** with the frequency formula used before the fix, (1/N)*c, tightness fails: 49 diploids fixed for an unfavourable allele
    get usl = 0 instead of -2 (and lsl = 0 instead of 2 for a favourable one) *)
Theorem C10_reciprocal_refuted :
  let f := afreq_recip_f1 98 98 in
  usl_numpy 1 2 [[(-1)%Q]] [f] = [0%Q] /\ lsl_numpy 1 2 [[1%Q]] [f] = [0%Q] /\
  usl_numpy 1 2 [[(-1)%Q]] [afreq_f1 98 98] = [(2 * -1 * 1 + 0)%Q].
Proof. exact reciprocal_refuted. Qed.
Print Assumptions C10_reciprocal_refuted.

(** ** the kernel expressions of the CURRENT source (Gen/C10_Kernel.v is regenerated from DenseAdditiveLinearGenomicModel.py,
    Dense(Phased)GenotypeMatrix.py and mate/util.py on every run).  [gen_*] (Proofs/C10_Kernel.v) assemble them in the way the source does:
    gen_usl_obj / gen_lsl_obj = usl / lsl of a phased object, gen_*_gmat of an unphased object, gen_*_arr of a raw array,
    gen_gebv_numpy / gen_gebv the breeding values without / with the intercept, gen_gamete one row of mat_meiosis. *)

(** the generated expressions are the ones the model is built from: availability tests, summand and axis, the three frequency
    quotients, which attribute the ploidy is read from and its default, callee and argument order of usl / lsl, the product Z @ u_a *)
Theorem C10_kernel_is_model :
  (forall u f, k_usl_geno u f = usl_ind u f) /\ (forall u f, k_lsl_geno u f = lsl_ind u f) /\
  (forall t ploidy u freq, gen_usl_numpy t ploidy u freq = usl_numpy t ploidy u freq) /\
  (forall t ploidy u freq, gen_lsl_numpy t ploidy u freq = lsl_numpy t ploidy u freq) /\
  (forall n p geno, gen_freq_pgmat n p geno = freq_phased n p geno) /\
  (forall ploidy n p geno, gen_freq_gmat ploidy p (dosage n p geno) = freq_dosage ploidy n p geno) /\
  (forall ploidy n p geno, gen_freq_arr k_usl_arr_afreq k_usl_arr_denom ploidy p (dosage n p geno) = freq_dosage ploidy n p geno) /\
  (forall ploidy n p geno, gen_freq_arr k_lsl_arr_afreq k_lsl_arr_denom ploidy p (dosage n p geno) = freq_dosage ploidy n p geno) /\
  (forall t n p u beta geno, gen_usl_obj t n p u beta geno false = usl t n p u geno) /\
  (forall t n p u beta geno, gen_lsl_obj t n p u beta geno false = lsl t n p u geno) /\
  (forall t n p u beta geno, gen_usl_obj t n p u beta geno true = usl_unscaled t n p u beta geno) /\
  (forall t n p u beta geno, gen_lsl_obj t n p u beta geno true = lsl_unscaled t n p u beta geno) /\
  (forall t n p ploidy u beta geno, gen_usl_gmat t n p ploidy u beta geno false = usl_dosage t n p ploidy u geno) /\
  (forall t n p ploidy u beta geno, gen_lsl_gmat t n p ploidy u beta geno false = lsl_dosage t n p ploidy u geno) /\
  (forall t n p ploidy u beta geno, gen_usl_arr t n p (Some ploidy) u beta geno false = usl_dosage t n p ploidy u geno) /\
  (forall t n p ploidy u beta geno, gen_lsl_arr t n p (Some ploidy) u beta geno false = lsl_dosage t n p ploidy u geno) /\
  (forall t n p u beta geno, gen_usl_arr t n p None u beta geno false = usl_dosage t n p 2 u geno) /\
  (forall t n p u beta geno, gen_lsl_arr t n p None u beta geno false = lsl_dosage t n p 2 u geno) /\
  (forall t u dos, gen_gebv_numpy t u dos = gebv_numpy t u dos) /\ (forall t u beta dos, gen_gebv t u beta dos = gebv_unscaled t u beta dos) /\
  (forall ploidy nph n p, k_usl_obj_ploidy ploidy nph = ploidy /\ k_lsl_obj_ploidy ploidy nph = ploidy /\ k_usl_default_ploidy = 2 /\ k_lsl_default_ploidy = 2 /\ k_pgmat_ploidy nph n p = nph /\ k_gmat_select_ploidy ploidy nph = ploidy).
Proof.
  exact (conj k_usl_geno_model (conj k_lsl_geno_model (conj gen_usl_numpy_model (conj gen_lsl_numpy_model (conj gen_freq_pgmat_model
        (conj gen_freq_gmat_model (conj gen_freq_arr_usl_model (conj gen_freq_arr_lsl_model (conj gen_usl_obj_model (conj gen_lsl_obj_model
        (conj gen_usl_obj_unscaled_model (conj gen_lsl_obj_unscaled_model (conj gen_usl_gmat_model (conj gen_lsl_gmat_model
        (conj gen_usl_arr_model (conj gen_lsl_arr_model (conj gen_usl_arr_default_model (conj gen_lsl_arr_default_model
        (conj gen_gebv_numpy_model (conj gen_gebv_model k_ploidy_model)))))))))))))))))))).
Qed.
Print Assumptions C10_kernel_is_model.

(** the limits and the breeding values are shifted by one and the same contrast Xstar = [1, 1/q, ..., 1/q], q = rows of beta *)
Theorem C10_kernel_contrast :
  (k_usl_xstar_rest = k_gebv_xstar_rest /\ k_lsl_xstar_rest = k_gebv_xstar_rest /\ k_usl_xstar0 = k_gebv_xstar0 /\ k_lsl_xstar0 = k_gebv_xstar0 /\
   k_usl_nfixed = k_gebv_nfixed /\ k_lsl_nfixed = k_gebv_nfixed) /\
  (forall t beta, gen_location_usl t beta = location t beta /\ gen_location_lsl t beta = location t beta /\ gen_location_gebv t beta = location t beta).
Proof. exact (conj k_contrast_shared (fun t beta => conj (gen_location_usl_model t beta) (conj (gen_location_lsl_model t beta) (gen_location_gebv_model t beta)))). Qed.
Print Assumptions C10_kernel_contrast.

(** BOUNDARY about the generated expressions: the availability tests of the source applied to the frequency quotient of the source
    (phased object, unphased object, raw array in usl, raw array in lsl) decide on the integer allele count, for every ploidy * n <= 2^53 *)
Theorem C10_kernel_tests_are_counts : forall (u : Q) (c ploidy n : Z), 0 <= c <= ploidy * n -> 0 < ploidy * n <= 2^53 ->
  (k_usl_geno u (k_pgmat_afreq (f_of_Z c) (f_of_Z (k_pgmat_denom ploidy n))) = usl_cnt u c (ploidy * n) /\
   k_lsl_geno u (k_pgmat_afreq (f_of_Z c) (f_of_Z (k_pgmat_denom ploidy n))) = lsl_cnt u c (ploidy * n)) /\
  (k_usl_geno u (k_gmat_afreq (f_of_Z c) (f_of_Z (k_gmat_denom ploidy n))) = usl_cnt u c (ploidy * n) /\
   k_lsl_geno u (k_gmat_afreq (f_of_Z c) (f_of_Z (k_gmat_denom ploidy n))) = lsl_cnt u c (ploidy * n)) /\
  (k_usl_geno u (k_usl_arr_afreq (f_of_Z c) (f_of_Z (k_usl_arr_denom ploidy n))) = usl_cnt u c (ploidy * n) /\
   k_lsl_geno u (k_lsl_arr_afreq (f_of_Z c) (f_of_Z (k_lsl_arr_denom ploidy n))) = lsl_cnt u c (ploidy * n)).
Proof. exact kernel_tests_are_counts. Qed.
Print Assumptions C10_kernel_tests_are_counts.

(** ENVELOPE about the generated pipeline, without and with the intercept (each side with its own generated contrast), and TIGHTNESS *)
Theorem C10_kernel_brackets : forall t n p u beta geno s k, wf n p geno -> model_ok p t u -> (s < n)%nat -> (k < t)%nat ->
  (nth k (gen_lsl_obj t n p u beta geno false) 0 <= nth k (nth s (gen_gebv_numpy t u (dosage n p geno)) []) 0)%Q /\
  (nth k (nth s (gen_gebv_numpy t u (dosage n p geno)) []) 0 <= nth k (gen_usl_obj t n p u beta geno false) 0)%Q.
Proof. exact kernel_brackets. Qed.
Print Assumptions C10_kernel_brackets.

Theorem C10_kernel_brackets_unscaled : forall t n p u beta geno s k, wf n p geno -> model_ok p t u -> Forall (fun r => length r = t) beta ->
  (s < n)%nat -> (k < t)%nat ->
  (nth k (gen_lsl_obj t n p u beta geno true) 0 <= nth k (nth s (gen_gebv t u beta (dosage n p geno)) []) 0)%Q /\
  (nth k (nth s (gen_gebv t u beta (dosage n p geno)) []) 0 <= nth k (gen_usl_obj t n p u beta geno true) 0)%Q.
Proof. exact kernel_brackets_unscaled. Qed.
Print Assumptions C10_kernel_brackets_unscaled.

Theorem C10_kernel_fixed_tight : forall t n p u beta geno s k, wf n p geno -> model_ok p t u -> fixed_all p geno -> (s < n)%nat -> (k < t)%nat ->
  (nth k (gen_lsl_obj t n p u beta geno false) 0 == nth k (nth s (gen_gebv_numpy t u (dosage n p geno)) []) 0)%Q /\
  (nth k (gen_usl_obj t n p u beta geno false) 0 == nth k (nth s (gen_gebv_numpy t u (dosage n p geno)) []) 0)%Q.
Proof. exact kernel_fixed_tight. Qed.
Print Assumptions C10_kernel_fixed_tight.

(** the routes of the source (phased object, unphased diploid object, raw array with default or explicit ploidy 2) agree, as generated *)
Theorem C10_kernel_routes_agree : forall t n p u beta geno, wf n p geno ->
  gen_usl_gmat t n p 2 u beta geno false = gen_usl_obj t n p u beta geno false /\ gen_lsl_gmat t n p 2 u beta geno false = gen_lsl_obj t n p u beta geno false /\
  gen_usl_arr t n p None u beta geno false = gen_usl_obj t n p u beta geno false /\ gen_lsl_arr t n p None u beta geno false = gen_lsl_obj t n p u beta geno false /\
  gen_usl_arr t n p (Some 2) u beta geno false = gen_usl_obj t n p u beta geno false /\ gen_lsl_arr t n p (Some 2) u beta geno false = gen_lsl_obj t n p u beta geno false.
Proof. exact kernel_routes_agree. Qed.
Print Assumptions C10_kernel_routes_agree.

(** CLOSURE at the source: one gamete row of mat_meiosis assembled from the generated crossover test, phase toggle and copy
    statements (destination segment, source phase / taxon / segment) is the gamete of the model — a locus-by-locus choice between
    the two chromosome copies of the selected parent, which is what [C10_programme_closed] rests on *)
Theorem C10_kernel_gamete : forall geno i s rnd xoprob, length rnd = length xoprob ->
  length (row geno 0 s) = length xoprob -> length (row geno 1 s) = length xoprob ->
  gen_gamete geno i s rnd xoprob = Some (gamete geno s rnd xoprob).
Proof. exact kernel_gamete. Qed.
Print Assumptions C10_kernel_gamete.

(** ** LAWS in the effects (what the session observations of the check are compared with: effects negated in place, a multiple
    installed through the setter, on one and the same model object) *)
(** negating every effect exchanges the two limits: usl(-u) = -lsl(u), lsl(-u) = -usl(u) — for every frequency vector and ploidy ... *)
Theorem C10_negation_exchanges_limits : forall t ploidy p u freq k, model_ok p t u -> length freq = p -> (k < t)%nat ->
  (nth k (usl_numpy t ploidy (qmapll Qopp u) freq) 0 == - nth k (lsl_numpy t ploidy u freq) 0)%Q /\
  (nth k (lsl_numpy t ploidy (qmapll Qopp u) freq) 0 == - nth k (usl_numpy t ploidy u freq) 0)%Q.
Proof. exact limits_negate. Qed.
Print Assumptions C10_negation_exchanges_limits.

(** ... a positive common factor of the effects factors out of both limits (scales 2^-40 ... 2^20 of the generators are instances) *)
Theorem C10_scale_covariance : forall t ploidy p u freq k (c : Q), (0 < c)%Q -> model_ok p t u -> length freq = p -> (k < t)%nat ->
  (nth k (usl_numpy t ploidy (qmapll (Qmult c) u) freq) 0 == c * nth k (usl_numpy t ploidy u freq) 0)%Q /\
  (nth k (lsl_numpy t ploidy (qmapll (Qmult c) u) freq) 0 == c * nth k (lsl_numpy t ploidy u freq) 0)%Q.
Proof. exact limits_scale. Qed.
Print Assumptions C10_scale_covariance.

(** ... and the same for the limits of a population *)
Theorem C10_population_laws : forall t n p u geno k, wf n p geno -> model_ok p t u -> (k < t)%nat ->
  ((nth k (usl t n p (qmapll Qopp u) geno) 0 == - nth k (lsl t n p u geno) 0)%Q /\
   (nth k (lsl t n p (qmapll Qopp u) geno) 0 == - nth k (usl t n p u geno) 0)%Q) /\
  forall c : Q, (0 < c)%Q ->
   (nth k (usl t n p (qmapll (Qmult c) u) geno) 0 == c * nth k (usl t n p u geno) 0)%Q /\
   (nth k (lsl t n p (qmapll (Qmult c) u) geno) 0 == c * nth k (lsl t n p u geno) 0)%Q.
Proof. intros t n p u geno k H Hu Hk. split; [exact (pop_negate t n p u geno k H Hu Hk) | intros c Hc; exact (pop_scale t n p u geno k c Hc H Hu Hk)]. Qed.
Print Assumptions C10_population_laws.

Example C10_laws_hyps_satisfiable : (0 < 4)%Q /\ wf 2 3 ex_geno /\ model_ok 3 2 ex_u /\ length [0%float; 1%float; 0.5%float] = 3%nat.
Proof. split; [reflexivity|]. split; [exact (proj1 ex_wf)|]. split; [exact (proj1 (proj2 ex_wf)) | reflexivity]. Qed.

(** ** ANY PLOIDY / ANY NUMBER OF PHASES (the check observes phased matrices with 1, 2, 3 and 4 phases, unphased matrices and raw dosage
    arrays of ploidy 1..4, through every input route).  Vocabulary (Proofs/C10_Ploidy.v):
      [phases_ok n p geno]  any number of phases, each an n x p matrix;   [alleles01 geno]  alleles in {0,1}
      [dos_ok m n p D]      an n x p dosage matrix with entries in 0..m, n >= 1, m >= 1, m*n <= 2^53
      [dfixed p D]          every individual has the same dosage at every locus *)
(** the phased object (ploidy = number of phases), the unphased object and the raw array with that ploidy give the same frequencies and limits *)
Theorem C10_routes_agree_any_phases : forall t n p u geno, phases_ok n p geno ->
  freq_dosage (nphase geno) n p geno = freq_phased n p geno /\
  usl_dosage t n p (nphase geno) u geno = usl t n p u geno /\ lsl_dosage t n p (nphase geno) u geno = lsl t n p u geno.
Proof. exact routes_any. Qed.
Print Assumptions C10_routes_agree_any_phases.

(** ENVELOPE for a dosage matrix of any ploidy m: lsl_numpy(afreq, m) <= gebv_numpy(Z)[s] <= usl_numpy(afreq, m) *)
Theorem C10_brackets_any_ploidy : forall t m n p u D s k, dos_ok m n p D -> model_ok p t u -> (s < n)%nat -> (k < t)%nat ->
  (nth k (lsl_numpy t m u (afreq_f m p D)) 0 <= nth k (nth s (gebv_numpy t u D) []) 0)%Q /\
  (nth k (nth s (gebv_numpy t u D) []) 0 <= nth k (usl_numpy t m u (afreq_f m p D)) 0)%Q.
Proof. exact brackets_m. Qed.
Print Assumptions C10_brackets_any_ploidy.

(** ... the limits are the best / worst genotype assemblable at ploidy m from the alleles present (count-based) *)
Theorem C10_limits_are_counts_any_ploidy : forall t m n p u D k, dos_ok m n p D -> model_ok p t u -> (k < t)%nat ->
  nth k (usl_numpy t m u (afreq_f m p D)) 0%Q = usl_spec_m m n p u D k /\ nth k (lsl_numpy t m u (afreq_f m p D)) 0%Q = lsl_spec_m m n p u D k.
Proof. exact limits_are_counts_m. Qed.
Print Assumptions C10_limits_are_counts_any_ploidy.

(** TIGHT at any ploidy: all individuals homozygous (dosage 0 or m) and identical at every locus -> both limits equal the common value *)
Theorem C10_fixed_tight_any_ploidy : forall t m n p u D s k, dos_ok m n p D -> model_ok p t u -> dfixed p D ->
  (forall j, (j < p)%nat -> Forall (fun d => d = 0 \/ d = m) (col 0 j D)) -> (s < n)%nat -> (k < t)%nat ->
  (nth k (lsl_numpy t m u (afreq_f m p D)) 0 == nth k (nth s (gebv_numpy t u D) []) 0)%Q /\
  (nth k (usl_numpy t m u (afreq_f m p D)) 0 == nth k (nth s (gebv_numpy t u D) []) 0)%Q.
Proof. exact fixed_tight_m. Qed.
Print Assumptions C10_fixed_tight_any_ploidy.

(** ENVELOPE for a phased object with any number of phases: its limits (ploidy read from the object) bracket the breeding values
    computed from the sum over ALL of its phases (what mat_asformat("{0,1,2}") must hand to gebv) *)
Theorem C10_brackets_any_phases : forall t n p u geno s k, phases_ok n p geno -> alleles01 geno -> (0 < n)%nat -> 0 < nphase geno ->
  nphase geno * Z.of_nat n <= 2^53 -> model_ok p t u -> (s < n)%nat -> (k < t)%nat ->
  (nth k (lsl t n p u geno) 0 <= nth k (nth s (gebv_numpy t u (dosage n p geno)) []) 0)%Q /\
  (nth k (nth s (gebv_numpy t u (dosage n p geno)) []) 0 <= nth k (usl t n p u geno) 0)%Q.
Proof. exact pop_brackets_any. Qed.
Print Assumptions C10_brackets_any_phases.

(** non-vacuity: a tetraploid phased population (2 individuals, 3 loci, 4 phases; phases 2 and 3 carry alleles the first two do not)
    meets the hypotheses, its dosage [[2;1;4];[1;1;4]] is a tetraploid dosage matrix; and a tetraploid population fixed at every locus *)
Example C10_ploidy_hyps_satisfiable :
  (phases_ok 2 3 ex4_geno /\ alleles01 ex4_geno /\ (0 < 2)%nat /\ 0 < nphase ex4_geno /\ nphase ex4_geno * Z.of_nat 2 <= 2^53 /\
   dos_ok 4 2 3 (dosage 2 3 ex4_geno) /\ dosage 2 3 ex4_geno = [[2; 1; 4]; [1; 1; 4]]) /\ model_ok 3 2 ex_u /\
  (dos_ok 4 2 3 ex4_fixed /\ dfixed 3 ex4_fixed /\ (forall j, (j < 3)%nat -> Forall (fun d => d = 0 \/ d = 4) (col 0 j ex4_fixed))).
Proof. split; [exact ex4_ok|]. split; [exact (proj1 (proj2 ex_wf)) | exact ex4_fixed_ok]. Qed.

(** non-vacuity: a two-founder, three-locus, two-trait programme (two-way cross, then doubled haploids) meets every hypothesis,
    runs for two generations and strictly tightens the upper limit of both traits *)
Example C10_hyps_satisfiable : (wfp 3 ex_geno /\ model_ok 3 2 ex_u /\ length ex_xo = 3%nat /\ nonneg_steps ex_steps) /\
  exists h, history ex_geno ex_xo ex_steps = Some h /\ sizes_ok h /\ length h = 3%nat /\
    (nth 0 (uslg 2 3 ex_u (nth 2 h [])) 0 < nth 0 (uslg 2 3 ex_u (nth 0 h [])) 0)%Q /\
    (nth 1 (uslg 2 3 ex_u (nth 2 h [])) 0 < nth 1 (uslg 2 3 ex_u (nth 0 h [])) 0)%Q.
Proof. split; [exact ex_wf | exact ex_runs]. Qed.
