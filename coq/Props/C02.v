(** C02 — realised recombination and segregation match the crossover probabilities: property theorems only
    (statement, [exact] of a lemma proved in Proofs/, [Print Assumptions]).
    Model: Model/C01_Meiosis.v (mat_meiosis / dense_meiosis as coded: crossover at marker j iff draw_j < xoprob_j, the source
    copy is the running parity, row i of the uniform matrix is used for gamete i) and Model/C02_Dist.v (vocabulary):
      [xo_row rnd xoprob]   crossover indicators of one gamete;   [src xo], [src_at j xo]  source copy (false = copy 0);
      [recomb i j xo]       markers i and j come from different parental copies;   [copy_is j a xo]  copy a at marker j;
      [E ps f], [Pr ps ev]  expectation / probability under independent Bernoulli(ps_k) crossover indicators;
      [EU N p f]            expectation over p independent draws uniform on {k/N : k < N} (numpy doubles: N = 2^53);
      [EUM N n p f]         the same over an n x p matrix of draws;   [bern N q] = ceil(q N)/N clipped to [0,1];
      [prod12 l] = prod (1 - 2 l_k);   [between i j l] = entries i < k <= j;   [ER], [prod12R], [sumR]  the same over R. *)
From Coq Require Import Reals String.
From PV Require Import Lib.Common Model.C01_Meiosis Model.C02_Dist Model.C02_Check Model.C11_MapFn
  Proofs.C02_Bern Proofs.C02_Rates Proofs.C02_Uniform Proofs.C02_Haldane Proofs.C02_Check
  Proofs.C01_Meiosis Model.C02_Loop Gen.C02_Kernel Proofs.C02_Kernel Model.C02_Session Proofs.C02_Session.
Local Open Scope Q_scope.

(** REFINEMENT — under independent grid-uniform draws the crossover indicators of the C01 gamete are independent Bernoulli
    variables with probabilities bern N xoprob_j: every function of the crossover row has the same expectation *)
Theorem C02_draws_to_bernoulli : forall N, (0 < N)%nat -> forall xoprob f,
  EU N (length xoprob) (fun rnd => f (xo_row rnd xoprob)) == E (map (bern N) xoprob) f.
Proof. exact EU_xo_row. Qed.
Print Assumptions C02_draws_to_bernoulli.

(** UNIFORM53 — with 53-bit doubles the effective probability is xoprob rounded up to the grid: error in [0, 2^-53) ... *)
Theorem C02_uniform53 : forall p, 0 <= p <= 1 ->
  p <= (cntZ two53 p # 9007199254740992) /\ (cntZ two53 p # 9007199254740992) < p + (1 # 9007199254740992).
Proof. exact uniform53. Qed.
Print Assumptions C02_uniform53.

(** ... a draw k/2^53 crosses over exactly for the first cntZ grid points, and one half is reproduced exactly *)
Theorem C02_uniform53_draw : forall p k, (0 <= k < two53)%Z -> Qltb (k # 9007199254740992) p = (k <? cntZ two53 p)%Z.
Proof. exact uniform53_draw. Qed.
Print Assumptions C02_uniform53_draw.

Theorem C02_uniform53_half : cntZ two53 (1 # 2) = (2 ^ 52)%Z.
Proof. exact uniform53_half. Qed.
Print Assumptions C02_uniform53_half.

(** ADJACENT RATE — the proportion of gametes in which two adjacent markers come from different parental copies is the
    crossover probability stored for that interval (every probability vector, every marker count) *)
Theorem C02_adjacent_rate : forall ps j, (S j < length ps)%nat -> Pr ps (recomb j (S j)) == nth (S j) ps 0.
Proof. exact adjacent_rate. Qed.
Print Assumptions C02_adjacent_rate.

(** the first entry is the probability of starting in copy 1 *)
Theorem C02_start_rate : forall ps, (0 < length ps)%nat -> Pr ps (src_at 0) == nth 0 ps 0.
Proof. exact start_rate. Qed.
Print Assumptions C02_start_rate.

(** PAIR RATE — non-adjacent markers: (1 - prod_{i<k<=j} (1 - 2 xoprob_k)) / 2 *)
Theorem C02_pair_rate : forall ps i j, (i < j)%nat -> (j < length ps)%nat ->
  Pr ps (recomb i j) == (1 - prod12 (between i j ps)) / 2.
Proof. exact pair_rate. Qed.
Print Assumptions C02_pair_rate.

(** the same formula read in R *)
Theorem C02_pair_rate_real : forall ps i j, (i < j)%nat -> (j < length ps)%nat ->
  Q2R (Pr ps (recomb i j)) = ((1 - prod12R (between i j (map Q2R ps))) / 2)%R.
Proof. exact pair_rate_Q2R. Qed.
Print Assumptions C02_pair_rate_real.

(** HALDANE — on a Haldane map (xoprob_k = haldane d_k for real gaps d_k) the pair rate is the Haldane function of the
    genetic distance between the two markers *)
Theorem C02_haldane_compose : forall ds i j, (i < j)%nat -> (j < length ds)%nat ->
  ER (map haldane ds) (fun xo => indR (recomb i j xo)) = haldane (sumR (between i j ds)).
Proof. exact haldane_compose. Qed.
Print Assumptions C02_haldane_compose.

(** SEGREGATION — a crossover probability of one half at some marker k <= j (the first marker of every chromosome, as
    assigned from a genetic map) makes each of the two parental copies be transmitted at marker j with probability 1/2 *)
Theorem C02_segregation : forall ps k j, (k <= j)%nat -> (j < length ps)%nat -> nth k ps 0 == 1 # 2 ->
  Pr ps (src_at j) == 1 # 2 /\ Pr ps (fun xo => negb (src_at j xo)) == 1 # 2.
Proof. exact segregation. Qed.
Print Assumptions C02_segregation.

(** INDEPENDENT ASSORTMENT — a 1/2 entry at some k with i < k <= j (the start of the chromosome of marker j) makes the copies
    at i and j independent; with a 1/2 entry at or before i as well, each of the four combinations has probability 1/4 *)
Theorem C02_independent_assortment : forall ps i k j a b,
  (i < k)%nat -> (k <= j)%nat -> (j < length ps)%nat -> nth k ps 0 == 1 # 2 ->
  Pr ps (fun xo => copy_is i a xo && copy_is j b xo) == Pr ps (copy_is i a) * Pr ps (copy_is j b)
  /\ Pr ps (copy_is j b) == 1 # 2.
Proof. exact independent_assortment. Qed.
Print Assumptions C02_independent_assortment.

Theorem C02_independent_assortment_quarter : forall ps k0 i k j a b,
  (k0 <= i)%nat -> (i < k)%nat -> (k <= j)%nat -> (j < length ps)%nat -> nth k0 ps 0 == 1 # 2 -> nth k ps 0 == 1 # 2 ->
  Pr ps (fun xo => copy_is i a xo && copy_is j b xo) == 1 # 4.
Proof. exact independent_assortment_quarter. Qed.
Print Assumptions C02_independent_assortment_quarter.

(** the joint law of the copies at two markers in general *)
Theorem C02_joint_rate : forall ps i j a b, (i < j)%nat -> (j < length ps)%nat ->
  Pr ps (fun xo => copy_is i a xo && copy_is j b xo)
  == (1 + sgn a * prod12 (firstn (S i) ps) + sgn b * prod12 (firstn (S j) ps) + sgn a * sgn b * prod12 (between i j ps)) / 4.
Proof. exact joint_rate. Qed.
Print Assumptions C02_joint_rate.

(** CROSSOVER INDEPENDENCE — crossover events in different intervals are independent: pairwise, and as the product form of
    the probability of every complete crossover pattern *)
Theorem C02_crossover_independence : forall ps i j, (i < j)%nat -> (j < length ps)%nat ->
  Pr ps (fun xo => xo_at i xo && xo_at j xo) == nth i ps 0 * nth j ps 0.
Proof. exact crossover_independence. Qed.
Print Assumptions C02_crossover_independence.

Theorem C02_pattern_prob : forall ps pat, length pat = length ps -> Pr ps (fun xo => bl_eqb xo pat) == pat_prob ps pat.
Proof. exact pattern_prob. Qed.
Print Assumptions C02_pattern_prob.

(** ... and across gametes: gamete i of a mat_meiosis call is decided by row i of the uniform matrix alone, and functions of
    different rows are independent *)
Theorem C02_gamete_row_indexing : forall geno xoprob sel rnd i, (i < length sel)%nat ->
  nth i (meiosis_rows geno sel rnd xoprob) [] = gamete geno (nth i sel 0%nat) (nth i rnd []) xoprob.
Proof. intros geno xoprob sel rnd i. exact (meiosis_rows_nth geno xoprob sel rnd i). Qed.
Print Assumptions C02_gamete_row_indexing.

Theorem C02_gametes_independent : forall N p n i k f g, (0 < N)%nat -> (i < n)%nat -> (k < n)%nat -> i <> k ->
  EUM N n p (fun m => f (nth i m []) * g (nth k m [])) == EU N p f * EU N p g.
Proof. exact gametes_independent. Qed.
Print Assumptions C02_gametes_independent.

(** OBSERVABLE — a parent whose two copies carry distinct allele codes at every marker reveals the source copy of each
    allele of its gamete: decoding the C01 gamete returns exactly the running parity of the crossover indicators *)
Theorem C02_provenance_observable : forall geno s rnd xoprob,
  length (row geno 0 s) = length xoprob -> length (row geno 1 s) = length xoprob ->
  Forall2 (fun a0 a1 => a0 <> a1) (row geno 0 s) (row geno 1 s) ->
  decode (row geno 0 s) (row geno 1 s) (gamete geno s rnd xoprob) = Some (src (xo_row rnd xoprob)).
Proof. exact provenance_observable. Qed.
Print Assumptions C02_provenance_observable.

(** the rates of the C01 gamete under uniform draws, end to end *)
Theorem C02_uniform_adjacent_rate : forall N xoprob j, (0 < N)%nat -> (S j < length xoprob)%nat ->
  EU N (length xoprob) (fun rnd => ind (recomb j (S j) (xo_row rnd xoprob))) == bern N (nth (S j) xoprob 0).
Proof. exact uniform_adjacent_rate. Qed.
Print Assumptions C02_uniform_adjacent_rate.

Theorem C02_uniform_pair_rate : forall N xoprob i j, (0 < N)%nat -> (i < j)%nat -> (j < length xoprob)%nat ->
  EU N (length xoprob) (fun rnd => ind (recomb i j (xo_row rnd xoprob)))
  == (1 - prod12 (between i j (map (bern N) xoprob))) / 2.
Proof. exact uniform_pair_rate. Qed.
Print Assumptions C02_uniform_pair_rate.

Theorem C02_uniform_segregation : forall N xoprob k j, (0 < N)%nat -> (k <= j)%nat -> (j < length xoprob)%nat ->
  nth k xoprob 0 = 1 # 2 ->
  EU (2 * N) (length xoprob) (fun rnd => ind (src_at j (xo_row rnd xoprob))) == 1 # 2.
Proof. exact uniform_segregation. Qed.
Print Assumptions C02_uniform_segregation.

(** MAP ASSIGNMENT — what the correspondence check of interp_xoprob establishes when it evaluates to true: 1/2 exactly at
    chromosome starts, the real map function of the gap within 2^-45 (1 + |x|) elsewhere *)
Theorem C02_check_map_sound : forall k chr gen xo, check_map k chr gen xo = true -> xo_map_spec k None chr gen xo.
Proof. exact check_map_sound. Qed.
Print Assumptions C02_check_map_sound.

(** THE CURRENT SOURCE — Gen/C02_Kernel.v is regenerated from pybrops on every run (harness/translate/c02_kernel.py): the body of
    mat_meiosis / dense_meiosis statement by statement ([k_m_*] / [k_d_*]: shape of the draws, their range, the comparison
    [draw < xoprob], the starting phase and index, the segment copy, the phase toggle and their order, which row of the draws
    serves which gamete), mat_dh / mat_mate and their dense_ copies, the two map functions, gdist1g's distance expressions and
    the wiring of rprob1g / interp_xoprob / from_gmod.  The theorems below are about those generated definitions. *)
Theorem C02_kernel_is_model :
  (forall u p, k_m_xo u p = Qltb u p /\ k_d_xo u p = Qltb u p)
  /\ (k_m_low = 0 /\ k_m_high = 1 /\ k_d_low = 0 /\ k_d_high = 1)
  /\ (forall geno sel xoprob rnd, call_ok geno sel xoprob ->
        (k_m_meiosis geno sel xoprob rnd = fst (mat_meiosis geno sel xoprob (rng0 [rnd]))
         /\ reqs (snd (mat_meiosis geno sel xoprob (rng0 [rnd]))) = [k_m_shape (length sel) (length xoprob)])
        /\ (k_d_meiosis geno sel xoprob rnd = fst (mat_meiosis geno sel xoprob (rng0 [rnd]))
         /\ reqs (snd (mat_meiosis geno sel xoprob (rng0 [rnd]))) = [k_d_shape (length sel) (length xoprob)])
        /\ k_m_dh geno sel xoprob rnd = fst (mat_dh geno sel xoprob (rng0 [rnd]))
        /\ k_d_dh geno sel xoprob rnd = fst (mat_dh geno sel xoprob (rng0 [rnd])))
  /\ (forall fg mg fs ms xoprob r0 r1, call_ok fg fs xoprob -> call_ok mg ms xoprob ->
        k_m_mate fg mg fs ms xoprob r0 r1 = fst (mat_mate fg mg fs ms xoprob (rng0 [r0; r1]))
        /\ k_d_mate fg mg fs ms xoprob r0 r1 = fst (mat_mate fg mg fs ms xoprob (rng0 [r0; r1]))).
Proof.
  split; [intros u p; split; [apply k_m_xo_model | apply k_d_xo_model]|].
  split; [exact k_draw_range|].
  split.
  - intros geno sel xoprob rnd H. split; [now apply k_m_meiosis_eq|]. split; [now apply k_d_meiosis_eq|].
    split; [now apply k_m_dh_eq | now apply k_d_dh_eq].
  - intros fg mg fs ms xoprob r0 r1 Hf Hm. split; [now apply k_m_mate_eq | now apply k_d_mate_eq].
Qed.
Print Assumptions C02_kernel_is_model.

(** under independent grid-uniform draws the GENERATED comparisons are independent Bernoulli(bern N xoprob_j) *)
Theorem C02_kernel_draws_to_bernoulli : forall N, (0 < N)%nat -> forall xoprob f,
  EU N (length xoprob) (fun rnd => f (cmp_row k_m_xo rnd xoprob)) == E (map (bern N) xoprob) f
  /\ EU N (length xoprob) (fun rnd => f (cmp_row k_d_xo rnd xoprob)) == E (map (bern N) xoprob) f.
Proof. exact kernel_draws_to_bernoulli. Qed.
Print Assumptions C02_kernel_draws_to_bernoulli.

Theorem C02_kernel_adjacent_rate : forall N xoprob j, (0 < N)%nat -> (S j < length xoprob)%nat ->
  EU N (length xoprob) (fun rnd => ind (recomb j (S j) (cmp_row k_m_xo rnd xoprob))) == bern N (nth (S j) xoprob 0)
  /\ EU N (length xoprob) (fun rnd => ind (recomb j (S j) (cmp_row k_d_xo rnd xoprob))) == bern N (nth (S j) xoprob 0).
Proof. exact kernel_adjacent_rate. Qed.
Print Assumptions C02_kernel_adjacent_rate.

Theorem C02_kernel_pair_rate : forall N xoprob i j, (0 < N)%nat -> (i < j)%nat -> (j < length xoprob)%nat ->
  EU N (length xoprob) (fun rnd => ind (recomb i j (cmp_row k_m_xo rnd xoprob))) == (1 - prod12 (between i j (map (bern N) xoprob))) / 2
  /\ EU N (length xoprob) (fun rnd => ind (recomb i j (cmp_row k_d_xo rnd xoprob))) == (1 - prod12 (between i j (map (bern N) xoprob))) / 2.
Proof. exact kernel_pair_rate. Qed.
Print Assumptions C02_kernel_pair_rate.

Theorem C02_kernel_segregation : forall N xoprob k j, (0 < N)%nat -> (k <= j)%nat -> (j < length xoprob)%nat -> nth k xoprob 0 = 1 # 2 ->
  EU (2 * N) (length xoprob) (fun rnd => ind (src_at j (cmp_row k_m_xo rnd xoprob))) == 1 # 2
  /\ EU (2 * N) (length xoprob) (fun rnd => ind (src_at j (cmp_row k_d_xo rnd xoprob))) == 1 # 2.
Proof. exact kernel_segregation. Qed.
Print Assumptions C02_kernel_segregation.

(** the gamete the GENERATED loop makes for (i, s) reveals exactly the running parity (from copy 0) of the generated comparisons on
    row i of the draws: starting phase, toggle, statement order, segment bounds and row index of the source are all in here *)
Theorem C02_kernel_provenance : forall geno s i rnd xoprob,
  length (row geno 0 s) = length xoprob -> length (row geno 1 s) = length xoprob ->
  Forall2 (fun a0 a1 => a0 <> a1) (row geno 0 s) (row geno 1 s) ->
  decode (row geno 0 s) (row geno 1 s) (k_m_gamete geno rnd xoprob (length xoprob) (Z.of_nat i) (Z.of_nat s))
    = Some (src (cmp_row k_m_xo (nth i rnd []) xoprob))
  /\ decode (row geno 0 s) (row geno 1 s) (k_d_gamete geno rnd xoprob (length xoprob) (Z.of_nat i) (Z.of_nat s))
    = Some (src (cmp_row k_d_xo (nth i rnd []) xoprob)).
Proof. exact kernel_provenance. Qed.
Print Assumptions C02_kernel_provenance.

Theorem C02_kernel_row_indexing : forall geno sel xoprob rnd i, (i < length sel)%nat ->
  nth i (k_m_meiosis geno sel xoprob rnd) [] = k_m_gamete geno rnd xoprob (length xoprob) (Z.of_nat i) (Z.of_nat (nth i sel 0%nat))
  /\ nth i (k_d_meiosis geno sel xoprob rnd) [] = k_d_gamete geno rnd xoprob (length xoprob) (Z.of_nat i) (Z.of_nat (nth i sel 0%nat)).
Proof. exact kernel_row_indexing. Qed.
Print Assumptions C02_kernel_row_indexing.

(** the generated Haldane formula composes over adjacent intervals to itself at the summed distance *)
Theorem C02_kernel_haldane_compose : forall ds i j, (i < j)%nat -> (j < length ds)%nat ->
  ER (map k_haldane ds) (fun xo => indR (recomb i j xo)) = k_haldane (sumR (between i j ds)).
Proof. exact kernel_haldane_compose. Qed.
Print Assumptions C02_kernel_haldane_compose.

(** chromosome starts: gdist1g writes +inf at the first index of every chromosome, where both generated map functions tend to 1/2 *)
Theorem C02_kernel_start_half : forall eps : R, (0 < eps)%R ->
  k_s_start_inf = true /\ k_e_start_inf = true /\ (forall st sp, k_s_start_ix st sp = st /\ k_e_start_ix st sp = st)
  /\ exists D, (0 <= D)%R /\ forall d, (D <= d)%R ->
       (1 / 2 - eps < k_haldane d < 1 / 2)%R /\ (1 / 2 - eps < k_kosambi d < 1 / 2)%R.
Proof. exact kernel_start_half. Qed.
Print Assumptions C02_kernel_start_half.

(** the other markers: gap = this position - previous position (slices offset by exactly one), and a [true] map check means the
    stored probability is the GENERATED map function of the GENERATED gap (within 2^-45 (1+|x|)), 1/2 exactly at chromosome starts *)
Theorem C02_kernel_map_assignment : forall chr gen xo,
  (forall st sp, k_s_gap_slices st sp = ((st + 1, sp), (st, sp - 1))%Z /\ k_e_gap_slices st sp = ((st + 1, sp), (st, sp - 1))%Z)
  /\ (check_map Haldane chr gen xo = true -> xo_map_spec_k k_haldane k_s_gap None chr gen xo /\ xo_map_spec_k k_haldane k_e_gap None chr gen xo)
  /\ (check_map Kosambi chr gen xo = true -> xo_map_spec_k k_kosambi k_s_gap None chr gen xo /\ xo_map_spec_k k_kosambi k_e_gap None chr gen xo).
Proof. intros chr gen xo. split; [exact k_gap_slices_model | exact (kernel_check_map_sound chr gen xo)]. Qed.
Print Assumptions C02_kernel_map_assignment.

(** wiring: rprob1g = mapfn o gdist1g on (chromosomes, genetic positions); interp_xoprob feeds the freshly interpolated positions;
    the expected-maximum-breeding-value matrix makes doubled haploids of taxon i only, with the matrix's own xoprob *)
Theorem C02_kernel_wiring :
  (forall (C G D X : Type) (mf : D -> X) (gd : C -> G -> D) c g, k_h_rprob1g mf gd c g = mf (gd c g) /\ k_k_rprob1g mf gd c g = mf (gd c g))
  /\ (forall (M C P G X : Type) (ig : M -> C -> P -> G) (rp : M -> C -> G -> X) m c p,
        k_interp_xoprob ig rp m c p = (ig m c p, rp m c (ig m c p)))
  /\ k_embv_dh_call = ["pgmat.mat"; "numpy.repeat(i, nprogeny[i])"; "pgmat.vrnt_xoprob"; "global_prng"]%string
  /\ (forall i n : nat, map Z.to_nat (k_embv_sel (Z.of_nat i) (Z.of_nat n)) = repeat i n).
Proof. exact kernel_wiring. Qed.
Print Assumptions C02_kernel_wiring.

(** non-vacuity: a three-marker vector with a chromosome start in the middle meets the hypotheses; the rates are the
    expected numbers; a distinct-coded parent meets the hypotheses of the observable *)
Example C02_hyps_satisfiable :
  let ps := [1 # 2; 1 # 10; 1 # 2; 1 # 5] in
  (0 <= 1 # 10 <= 1) /\ (1 < 2 <= 3 /\ 3 < length ps)%nat /\ nth 2 ps 0 == 1 # 2 /\ nth 0 ps 0 == 1 # 2
  /\ Pr ps (recomb 0 1) == 1 # 10 /\ Pr ps (recomb 2 3) == 1 # 5 /\ Pr ps (recomb 1 3) == 1 # 2 /\ Pr ps (src_at 3) == 1 # 2
  /\ Pr ps (fun xo => copy_is 1 true xo && copy_is 3 false xo) == 1 # 4
  /\ EU 4 2 (fun rnd => ind (recomb 0 1 (xo_row rnd [1 # 2; 1 # 4]))) == 1 # 4
  /\ Forall2 (fun a0 a1 => a0 <> a1) (row [[[0; 0]]; [[1; 1]]]%Z 0 0) (row [[[0; 0]]; [[1; 1]]]%Z 1 0)
  /\ check_map Haldane [1; 1; 2]%Z [0; 1 # 8; 0] [1 # 2; 1992385421868533 # 18014398509481984; 1 # 2] = true.
Proof.
  cbv zeta. repeat split; try (vm_compute; reflexivity); try (cbn; lia); try (vm_compute; discriminate).
  - vm_compute. repeat constructor; discriminate.
Qed.

(** non-vacuity for the kernel theorems: a two-individual, three-marker call meets [call_ok] and the distinct-copies hypothesis; the
    generated programme computes the expected gametes on it (individual 1 then 0; crossovers where the draw is strictly below) *)
Example C02_kernel_hyps_satisfiable :
  let geno := [[[0; 0; 0]; [2; 2; 2]]; [[1; 1; 1]; [3; 3; 3]]]%Z in
  let xoprob := [1 # 2; 1 # 4; 1 # 2] in
  let rnd := [[1 # 4; 1 # 4; 3 # 4]; [1 # 2; 0; 1 # 8]] in
  call_ok geno [1; 0]%nat xoprob
  /\ Forall2 (fun a0 a1 => a0 <> a1) (row geno 0 1) (row geno 1 1)
  /\ k_m_meiosis geno [1; 0]%nat xoprob rnd = [[3; 3; 3]; [0; 1; 0]]%Z
  /\ k_d_mate geno geno [1]%nat [0]%nat xoprob [[1 # 4; 1 # 4; 3 # 4]] [[1 # 2; 0; 1 # 8]] = [[[3; 3; 3]]; [[0; 1; 0]]]%Z
  /\ (0 < 1)%R.
Proof.
  cbv zeta. split; [|split; [|split; [|split]]].
  - unfold call_ok, rows_ok. cbn. repeat split; repeat constructor.
  - vm_compute. repeat constructor; discriminate.
  - vm_compute. reflexivity.
  - vm_compute. reflexivity.
  - exact Rlt_0_1.
Qed.

(** SESSIONS — several meiosis calls on one generator (one protocol object reused, crossover probabilities or parents replaced in
    between): the k-th result is the meiosis of the state handed to call k on the k-th matrix of draws; nothing of the earlier
    calls survives.  [run_session] folds C01's [mat_meiosis] over the calls. *)
Theorem C02_session_call_independent : forall cs draws k, (k < length cs)%nat ->
  nth k (run_session cs (rng0 draws)) [] =
  meiosis_rows (c_geno (nth k cs call0)) (c_sel (nth k cs call0)) (nth k draws []) (c_xoprob (nth k cs call0)).
Proof. exact session_call_independent. Qed.
Print Assumptions C02_session_call_independent.

Theorem C02_session_no_stale_state : forall cs cs' draws draws' k, (k < length cs)%nat -> (k < length cs')%nat ->
  nth k cs call0 = nth k cs' call0 -> nth k draws [] = nth k draws' [] ->
  nth k (run_session cs (rng0 draws)) [] = nth k (run_session cs' (rng0 draws')) [].
Proof. exact session_no_stale_state. Qed.
Print Assumptions C02_session_no_stale_state.

(** RANGE — stored probabilities outside [0,1] act as never / always, the effective probability is monotone in the stored one, and
    a stored value of at least one half keeps at least one half: no clipping anywhere below 1 *)
Theorem C02_bern_outside : forall N p, (0 < N)%nat -> (1 <= p -> bern N p == 1) /\ (p <= 0 -> bern N p == 0).
Proof. exact bern_outside. Qed.
Print Assumptions C02_bern_outside.

Theorem C02_bern_mono : forall N p q, (0 < N)%nat -> p <= q -> bern N p <= bern N q.
Proof. exact bern_mono. Qed.
Print Assumptions C02_bern_mono.

Theorem C02_bern_above_half : forall N p, (0 < N)%nat -> 1 # 2 <= p -> 1 # 2 <= bern (2 * N) p.
Proof. exact bern_above_half. Qed.
Print Assumptions C02_bern_above_half.

Example C02_session_hyps_satisfiable :
  let g := [[[0; 0]]; [[1; 1]]]%Z in
  let cs := [mkCall g [0]%nat [1 # 2; 0]; mkCall g [0; 0]%nat [0; 1]] in
  let draws := [[[1 # 4; 0]]; [[0; 3 # 4]; [1 # 2; 1 # 2]]] in
  (1 < length cs)%nat /\ nth 1 (run_session cs (rng0 draws)) [] = [[0; 1]; [0; 1]]%Z
  /\ (0 < 4)%nat /\ 1 <= 3 # 2 /\ bern 4 (3 # 2) == 1 /\ bern 4 (3 # 4) == 3 # 4 /\ 1 # 2 <= 3 # 4.
Proof. cbv zeta. repeat split; try (vm_compute; reflexivity); try (cbn; lia); try (vm_compute; discriminate). Qed.
