(** C09 — property theorems only: statement, [exact] of a lemma proved elsewhere, [Print Assumptions].
    Model: Model/C09_Stats.v (mirrors DenseGenotypeMatrix / DensePhasedGenotypeMatrix summary statistics). *)
From Coq Require Import PrimFloat.
From PV Require Import Lib.Common Lib.FloatK Lib.FloatDivProof Model.C09_Stats Proofs.C09_Stats Gen.C09_Kernel Proofs.C09_Kernel.
Local Open Scope Z_scope.

(** Frequencies lie in [0,1] and are exactly 0 or 1 precisely when every chromosome copy carries the same
    allele; the fixation flag is the exact complement of the polymorphism flag and equals the textbook flag on
    the integer count — for every matrix size up to ploidy*n = 2^53, every locus (binary64, bit-exact model). *)
Theorem C09_afreq_boundary : forall (ploidy n p : nat) (mat : list (list Z)),
  shape_ok n p mat -> dosages_ok ploidy mat -> (0 < ploidy)%nat -> (0 < n)%nat -> Z.of_nat ploidy * Z.of_nat n <= 2^53 ->
  let N := Z.of_nat ploidy * Z.of_nat n in
  Forall (fun c => (PrimFloat.eqb (afreq_f1 c N) 1%float = true <-> c = N) /\
                   (PrimFloat.eqb (afreq_f1 c N) 0%float = true <-> c = 0) /\
                   PrimFloat.leb 0%float (afreq_f1 c N) = true /\ PrimFloat.leb (afreq_f1 c N) 1%float = true /\
                   afixed_f1 (afreq_f1 c N) = negb (apoly_f1 (afreq_f1 c N)) /\
                   afixed_f1 (afreq_f1 c N) = afixed_z c N) (acount p mat).
Proof. exact afreq_matrix_boundary. Qed.
Print Assumptions C09_afreq_boundary.

(** the formula used before the fix, (1/N)*c, does not satisfy the boundary law (witness N = 98) *)
Theorem C09_afreq_reciprocal_refuted :
  exists c N, 0 <= c <= N /\ 0 < N <= 2^53 /\ c = N /\ PrimFloat.eqb (afreq_recip_f1 c N) 1%float = false.
Proof. exact afreq_recip_refuted. Qed.
Print Assumptions C09_afreq_reciprocal_refuted.

(** genotype-class counts cover all ploidy+1 classes ... *)
Theorem C09_gtcount_classes : forall ploidy p mat, length (gtcount ploidy p mat) = S ploidy.
Proof. exact gtcount_classes. Qed.
Print Assumptions C09_gtcount_classes.

(** ... and at every locus sum to the number of taxa (dosages in 0..ploidy) *)
Theorem C09_gtcount_total : forall ploidy p mat j, dosages_ok ploidy mat -> (j < p)%nat ->
  sumZ (map (fun row => nth j row 0) (gtcount ploidy p mat)) = ntaxa mat.
Proof. exact gtcount_total. Qed.
Print Assumptions C09_gtcount_total.

(** a phased matrix and its unphased projection have identical allele counts (hence identical frequencies,
    flags, maf, meh, which are functions of the counts in the model) *)
Theorem C09_phased_eq_unphased_counts : forall (n p : nat) (ph : list (list (list Z))), phases_ok n p ph ->
  acount_ph p ph = acount p (tacount_ph n p ph).
Proof. exact acount_phased_eq_projection. Qed.
Print Assumptions C09_phased_eq_unphased_counts.

(** the phased polymorphism flag, computed on the alleles themselves, is the count-based flag *)
Theorem C09_phased_apoly_exact : forall (n p j : nat) (ph : list (list (list Z))), phases_ok n p ph -> alleles01 ph -> (j < p)%nat ->
  nth j (apoly_ph p ph) false = apoly_z (nth j (acount_ph p ph) 0) (nphase ph * Z.of_nat n)
  /\ 0 <= nth j (acount_ph p ph) 0 <= nphase ph * Z.of_nat n.
Proof. exact apoly_phased_exact. Qed.
Print Assumptions C09_phased_apoly_exact.

(** The kernel expressions of the CURRENT source (Gen/C09_Kernel.v is regenerated from
    DenseGenotypeMatrix.py / DensePhasedGenotypeMatrix.py on every run) are the ones the model is built from:
    the frequency is the quotient count / (ploidy*ntaxa) in both classes, the flags are the float comparisons
    with 0.0 and 1.0, the minor-allele rule flips above 0.5, and the genotype classes number ploidy+1. *)
Theorem C09_kernel_is_model :
  (forall c N, k_afreq (f_of_Z c) (f_of_Z N) = afreq_f1 c N) /\ (forall c N, k_ph_afreq (f_of_Z c) (f_of_Z N) = afreq_f1 c N) /\
  (forall ploidy p mat, map (fun c => k_afreq (f_of_Z c) (f_of_Z (k_denom ploidy (ntaxa mat)))) (acount p mat) = afreq_f ploidy p mat) /\
  (forall n p ph, map (fun c => k_ph_afreq (f_of_Z c) (f_of_Z (k_ph_denom (nphase ph) (Z.of_nat n)))) (acount_ph p ph) = afreq_ph_f n p ph) /\
  (forall x, k_afixed x = afixed_f1 x) /\ (forall x, k_apoly x = apoly_f1 x) /\
  (forall x, (if k_maf_mask x then k_maf x else x) = maf_f1 x) /\ (forall x, (if k_ph_maf_mask x then k_ph_maf x else x) = maf_f1 x) /\
  (forall (ploidy : nat) p mat nph, Z.of_nat (length (gtcount ploidy p mat)) = k_gt_nclass (Z.of_nat ploidy) nph) /\
  (forall (ploidy : nat) p mat, Z.of_nat (length (gtcount ploidy p mat)) = k_ph_gt_nclass (Z.of_nat ploidy) (Z.of_nat ploidy)).
Proof.
  exact (conj k_afreq_model (conj k_ph_afreq_model (conj afreq_pipeline_model (conj afreq_ph_pipeline_model
        (conj k_afixed_model (conj k_apoly_model (conj k_maf_model (conj k_ph_maf_model
        (conj k_gt_nclass_model k_ph_gt_nclass_model))))))))).
Qed.
Print Assumptions C09_kernel_is_model.

(** the boundary law stated about the generated expressions themselves: for every count 0 <= c <= ploidy*n <= 2^53
    the flag expressions of the source, applied to the frequency expression of the source, are the textbook flags *)
Theorem C09_kernel_boundary : forall c ploidy n : Z, 0 <= c <= k_denom ploidy n -> 0 < k_denom ploidy n <= 2^53 ->
  let x := k_afreq (f_of_Z c) (f_of_Z (k_denom ploidy n)) in
  k_afixed x = afixed_z c (ploidy * n) /\ k_apoly x = apoly_z c (ploidy * n) /\ k_afixed x = negb (k_apoly x)
  /\ PrimFloat.leb 0%float x = true /\ PrimFloat.leb x 1%float = true.
Proof. exact kernel_boundary. Qed.
Print Assumptions C09_kernel_boundary.

(** The remaining statistics and the three codings, as the CURRENT source writes them (both classes), are the model's:
    per-taxon frequency (1.0/ploidy) * count, genotype frequency (1.0/ntaxa) * count, mean expected heterozygosity
    (ploidy/nvrnt) * sum p(1-p) (unphased: dot(p, 1-p); phased: sum(p*(1-p))), {-1,0,1} = dosage - 1, and {-1,m,1} =
    shift by one, then the entries equal to 0 replaced by the marker mean. *)
Theorem C09_kernel_is_model_freqs_codings :
  (forall ploidy mat, map (map (fun x => k_tafreq (k_tafreq_recip (f_of_Z ploidy)) (f_of_Z x))) mat = tafreq_f ploidy mat) /\
  (forall ploidy mat, map (map (fun x => k_ph_tafreq (k_ph_tafreq_recip (f_of_Z ploidy)) (f_of_Z x))) mat = tafreq_f ploidy mat) /\
  (forall (ploidy p : nat) mat,
     map (map (fun c => k_gtfreq (k_gtfreq_recip (f_of_Z (ntaxa mat))) (f_of_Z c))) (gtcount ploidy p mat) = gtfreq_f ploidy p mat) /\
  (forall (ploidy p : nat) mat,
     map (map (fun c => k_ph_gtfreq (k_ph_gtfreq_recip (f_of_Z (ntaxa mat))) (f_of_Z c))) (gtcount ploidy p mat) = gtfreq_f ploidy p mat) /\
  (forall ploidy p mat, Qmult (k_meh_scale (Qmake ploidy 1) (Qmake (Z.of_nat p) 1))
                              (sumQ (map (fun x => Qmult x (k_meh_compl x)) (afreq_q ploidy p mat))) = meh_q ploidy p mat) /\
  (forall ploidy p mat, Qmult (k_ph_meh_scale (Qmake ploidy 1) (Qmake (Z.of_nat p) 1))
                              (sumQ (map k_ph_meh_term (afreq_q ploidy p mat))) = meh_q ploidy p mat) /\
  (forall mat, map (map k_fmt_m101) mat = fmt_m101 mat) /\ (forall mat, map (map k_ph_fmt_m101) mat = fmt_m101 mat) /\
  (forall p mat, fmt_m1m1_gen k_fmt_shift k_fmt_mask p mat = fmt_m1m1 p mat) /\
  (forall p mat, fmt_m1m1_gen k_ph_fmt_shift k_ph_fmt_mask p mat = fmt_m1m1 p mat).
Proof.
  exact (conj k_tafreq_model (conj k_ph_tafreq_model (conj k_gtfreq_model (conj k_ph_gtfreq_model (conj k_meh_model
        (conj k_ph_meh_model (conj k_fmt_m101_model (conj k_ph_fmt_m101_model (conj k_fmt_m1m1_model k_ph_fmt_m1m1_model))))))))).
Qed.
Print Assumptions C09_kernel_is_model_freqs_codings.

(** the coding expressions of the source, for every integer dosage x: {-1,0,1} gives x-1 in both classes, the float shift of
    the {-1,m,1} branch is that same value, the entries it replaces by the marker mean are exactly the heterozygotes (x = 1),
    and a diploid dosage is coded inside {-1,0,1} *)
Theorem C09_kernel_codings : forall x : Z,
  k_fmt_m101 x = x - 1 /\ k_ph_fmt_m101 x = x - 1 /\ k_fmt_shift x = k_fmt_m101 x /\ k_ph_fmt_shift x = k_ph_fmt_m101 x
  /\ k_fmt_mask (k_fmt_shift x) = (x =? 1) /\ k_ph_fmt_mask (k_ph_fmt_shift x) = (x =? 1)
  /\ (0 <= x <= 2 -> -1 <= k_fmt_m101 x <= 1 /\ -1 <= k_ph_fmt_m101 x <= 1).
Proof. exact kernel_codings. Qed.
Print Assumptions C09_kernel_codings.

(** non-vacuity of the coding theorem: a heterozygote is selected by the mask, a homozygote is not, and on the 3x3 matrix
    below the {-1,m,1} coding built from the generated kernels puts the marker mean (2/3) at the heterozygote *)
Example C09_kernel_codings_hyps_satisfiable :
  0 <= 1 <= 2 /\ k_fmt_mask (k_fmt_shift 1) = true /\ k_fmt_mask (k_fmt_shift 2) = false /\
  qll_eqb (fmt_m1m1_gen k_fmt_shift k_fmt_mask 3 [[0;1;2];[2;2;2];[0;2;0]])
          [[-1 # 1; 2 # 3; 1 # 1]; [1 # 1; 1 # 1; 1 # 1]; [-1 # 1; 1 # 1; -1 # 1]]%Q = true.
Proof. repeat split; try lia; vm_compute; reflexivity. Qed.

(** non-vacuity: a concrete 3-taxa, 3-locus diploid matrix meets the hypotheses *)
Example C09_hyps_satisfiable : shape_ok 3 3 [[0;1;2];[0;2;2];[0;0;2]] /\ dosages_ok 2 [[0;1;2];[0;2;2];[0;0;2]]
  /\ phases_ok 2 2 [[[0;1];[1;1]];[[0;0];[1;1]]] /\ alleles01 [[[0;1];[1;1]];[[0;0];[1;1]]].
Proof. unfold shape_ok, dosages_ok, phases_ok, alleles01, shape_ok. repeat first [ lia | reflexivity | split | constructor ]. Qed.
