(** C18 — property theorems (being extended) *)
From PV Require Import Lib.Common Model.C18_Haplo.
Theorem C18_xmap_k0 : forall u st n, xmap_from u 0 st n = [[]].
Proof. reflexivity. Qed.
Print Assumptions C18_xmap_k0.
