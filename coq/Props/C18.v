(** C18 — haplotype blocks: property theorems only (statement, [exact] of a lemma of Proofs/C18_Haplo.v,
    [Print Assumptions]).  Model: Model/C18_Haplo.v, generic in the number type [T] of genetic positions
    ([ops T]; instances [fops] = binary64 as executed, [qops] = exact rationals). *)
From Coq Require Import PrimFloat Sorted.
From PV Require Import Lib.Common Model.C18_Haplo Proofs.C18_Haplo Proofs.C18_Float.
Local Open Scope nat_scope.

(** Greedy apportionment (nhaploblk_chrom): one count per chromosome, each >= 1, adding up to exactly the requested
    total — for every number type, all positions (also NaN / zero-length chromosomes), every total >= #chromosomes. *)
Theorem C18_apportion_total : forall (T : Type) (O : ops T) (nhap : nat) (gp : list T) (stix spix : list nat),
  length spix = length stix -> 1 <= length stix <= nhap ->
  exists nblk, nhaploblk_chrom O nhap gp stix spix = Ok nblk /\ length nblk = length stix
               /\ Forall (fun x => 1 <= x) nblk /\ list_sum nblk = nhap.
Proof. exact @apportion_total. Qed.
Print Assumptions C18_apportion_total.

(** haplobin on a genome whose chromosome groups tile the marker array ([concat chrs]; start/stop indices are the
    running sums of the chromosome lengths), positions sorted within chromosomes, >= 1 block per chromosome:
    every marker receives exactly one label ([map Some]), the labels of chromosome c lie in its own range
    [offset c, offset (c+1)) (blocks stay within chromosomes, every chromosome has at least one block), and the
    label array is non-decreasing (blocks contiguous and ordered).  Holds for ANY total preorder [o_leb] on the
    positions that are proper numbers ([ok]) and ANY boundary lists made of proper numbers whose first element
    is not above the chromosome's first marker ([bounds_ok]; the last boundary is the last marker by construction). *)
Theorem C18_bins_cover_once_monotone : forall (T : Type) (O : ops T) (ok : T -> Prop),
  (forall x y, ok x -> ok y -> o_leb O x y = true \/ o_leb O y x = true) ->
  (forall x y z, ok x -> ok y -> ok z -> o_leb O x y = true -> o_leb O y z = true -> o_leb O x z = true) ->
  forall (chrs : list (list T)) (nblk : list nat),
  Forall (fun n => 1 <= n) nblk -> Forall (chrom_ok O ok) chrs -> Forall2 (bounds_ok O ok) nblk chrs ->
  exists labs : list (list nat),
    haplobin O nblk (concat chrs) (starts_from 0 (map (@length T) chrs)) (stops_from 0 (map (@length T) chrs)) = map Some (concat labs)
    /\ Forall2 (fun c l => length l = length c) chrs labs
    /\ (forall c l, nth_error labs c = Some l -> Forall (fun j => offset nblk c <= j < offset nblk (S c)) l)
    /\ StronglySorted Nat.le (concat labs).
Proof. exact @haplobin_spec. Qed.
Print Assumptions C18_bins_cover_once_monotone.

(** The exact-rational instance meets all of those hypotheses: unconditional statement over Q
    (the behaviour of the code wherever numpy.linspace is exact, e.g. dyadic grids with dyadic bin widths). *)
Theorem C18_bins_cover_once_monotone_Q : forall (chrs : list (list Q)) (nblk : list nat),
  length nblk = length chrs -> Forall (fun n => 1 <= n) nblk ->
  Forall (fun c => c <> [] /\ StronglySorted (fun x y => Qle_bool x y = true) c) chrs ->
  exists labs : list (list nat),
    haplobin qops nblk (concat chrs) (starts_from 0 (map (@length Q) chrs)) (stops_from 0 (map (@length Q) chrs)) = map Some (concat labs)
    /\ Forall2 (fun c l => length l = length c) chrs labs
    /\ (forall c l, nth_error labs c = Some l -> Forall (fun j => offset nblk c <= j < offset nblk (S c)) l)
    /\ StronglySorted Nat.le (concat labs).
Proof. exact q_haplobin_spec. Qed.
Print Assumptions C18_bins_cover_once_monotone_Q.

(** The executed binary64 instance: PrimFloat.leb is a total preorder on finite floats (Flocq), so the statement holds
    under the DECIDABLE hypothesis [lin_hyp_f] (chromosomes non-empty, positions finite and sorted, >= 1 block each,
    the binary64 linspace boundaries finite with the first one not above the first marker) — exactly the boolean that
    every correspondence shard evaluates on the generated layouts. *)
Theorem C18_bins_cover_once_monotone_binary64 : forall (chrs : list (list PrimFloat.float)) (nblk : list nat),
  lin_hyp_f nblk chrs = true ->
  exists labs : list (list nat),
    haplobin fops nblk (concat chrs) (starts_from 0 (map (@length PrimFloat.float) chrs)) (stops_from 0 (map (@length PrimFloat.float) chrs)) = map Some (concat labs)
    /\ Forall2 (fun c l => length l = length c) chrs labs
    /\ (forall c l, nth_error labs c = Some l -> Forall (fun j => offset nblk c <= j < offset nblk (S c)) l)
    /\ StronglySorted Nat.le (concat labs).
Proof. exact f_haplobin_spec. Qed.
Print Assumptions C18_bins_cover_once_monotone_binary64.

(** "Uses exactly the requested total", PARTIAL: on a valid layout whose counts add up to the requested total, if every
    label 0..nhap-1 is carried by some marker (no equal-width bin lost all its markers) then the labels are exactly
    0..nhap-1, non-decreasing, and haplobin_bounds yields exactly nhap runs (the guard of the theorems below). *)
Theorem C18_requested_total_partial : forall (T : Type) (O : ops T) (ok : T -> Prop),
  (forall x y, ok x -> ok y -> o_leb O x y = true \/ o_leb O y x = true) ->
  (forall x y z, ok x -> ok y -> ok z -> o_leb O x y = true -> o_leb O y z = true -> o_leb O x z = true) ->
  forall (chrs : list (list T)) (nblk : list nat) (nhap : nat) (lab : list nat),
  chrs <> [] -> Forall (fun n => 1 <= n) nblk -> Forall (chrom_ok O ok) chrs -> Forall2 (bounds_ok O ok) nblk chrs ->
  list_sum nblk = nhap ->
  haplobin O nblk (concat chrs) (starts_from 0 (map (@length T) chrs)) (stops_from 0 (map (@length T) chrs)) = map Some lab ->
  (forall j, j < nhap -> In j lab) ->
  StronglySorted Nat.le lab /\ (forall j, In j lab -> j < nhap)
  /\ exists hst hsp hlen, haplobin_bounds lab = Ok (hst, hsp, hlen) /\ length (combine hst hsp) = nhap.
Proof. exact @all_bins_nonempty_runs. Qed.
Print Assumptions C18_requested_total_partial.

(** haplobin_bounds on any non-empty label array: the (start, stop) pairs form a chain 0 = s0 < e0 = s1 < ... = p of
    non-empty runs, lengths = stop - start, and they are a run-length encoding of the labels: decoding the runs with
    one value each gives the label array back and adjacent runs carry different labels. *)
Theorem C18_bounds_partition : forall lab : list nat, lab <> [] ->
  exists hst hsp hlen vals, haplobin_bounds lab = Ok (hst, hsp, hlen) /\ length hst = length hsp /\ length vals = length hst
    /\ chain 0 (combine hst hsp) (length lab) /\ hlen = map2 Nat.sub hsp hst
    /\ decode (combine hst hsp) vals = lab /\ adjacent_differ vals.
Proof. exact haplobin_bounds_partition. Qed.
Print Assumptions C18_bounds_partition.

(** Conservation: over any partition of the markers into runs, the block values (genotype slice . effect slice) of a
    chromosome copy add up to the copy's total additive value. *)
Theorem C18_block_sum_conservation : forall (g : list Z) (ucol : list Q) (bs : list (nat * nat)) (j : nat),
  chain 0 bs (length g) -> length ucol = length g -> (block_sum (fun _ => g) ucol j bs == dotZQ g ucol)%Q.
Proof. exact block_sum_conservation. Qed.
Print Assumptions C18_block_sum_conservation.

(** haplomat / _calc_haplomat as coded (every number type): whenever the call succeeds the block boundaries partition the
    markers into between 1 and nhaploblk non-empty runs.  PARTIAL (guard = exactly nhaploblk runs): every entry is written
    (finite) and for every copy and trait the block values add up to the copy's additive value.  Otherwise block number
    #runs of every copy is NEVER written (numpy.empty memory). *)
Theorem C18_haplomat_conservation_partial : forall (T : Type) (O : ops T) (chrs : list (list T)) (e1 e2 : err) (nhap : nat)
    (geno : list (list (list Z))) (clen : list nat) (u : list (list Q)) (nt : nat) (hm : hmat_t),
  chrs <> [] -> Forall (fun c => c <> []) chrs ->
  calc_haplomat O e1 e2 nhap geno (concat chrs) (starts_from 0 (map (@length T) chrs)) (stops_from 0 (map (@length T) chrs)) clen u nt = Ok hm ->
  exists bounds, calc_bounds O nhap (concat chrs) (starts_from 0 (map (@length T) chrs)) (stops_from 0 (map (@length T) chrs)) = Some bounds
    /\ hm = hmat_of nhap nt geno u bounds /\ chain 0 bounds (length (concat chrs)) /\ 1 <= length bounds <= nhap
    /\ (length bounds = nhap -> forall g t, length g = length (concat chrs) -> length u = length (concat chrs) -> t < nt ->
          (forall b, b < nhap -> exists q, ent (cand_of nhap nt u bounds g) b t = Some q)
          /\ exists s, osum (map (fun b => ent (cand_of nhap nt u bounds g) b t) (seq 0 nhap)) = Some s /\ (s == dotZQ g (col 0%Q t u))%Q)
    /\ (length bounds < nhap -> forall g t, t < nt -> ent (cand_of nhap nt u bounds g) (length bounds) t = None).
Proof. exact @haplomat_partial. Qed.
Print Assumptions C18_haplomat_conservation_partial.

(** Optimal haploid value of a parent tuple (PARTIAL: as many runs as requested blocks): it is defined, equals
    ploidy * sum over blocks of [bestv] where [bestv] is an upper bound of, and attained by, the block values of the
    designated (phase, parent) copies; and it is at least ploidy * (additive value of ANY haplotype that takes each block
    from one of the designated copies) — the doubled haploids recombining only at block boundaries. *)
Theorem C18_ohv_def_and_recombinant_bound : forall (ploidy : Z) (nhap nt : nat) (geno : list (list (list Z))) (u : list (list Q))
    (bounds : list (nat * nat)) (parents : list nat) (t p : nat),
  (0 <= ploidy)%Z -> t < nt -> length bounds = nhap -> chain 0 bounds p -> length u = p ->
  Forall (fun phm => Forall (fun d => d < length phm) parents) geno -> copies geno parents <> [] ->
  Forall (fun g => length g = p) (copies geno parents) ->
  let cs := cands (hmat_of nhap nt geno u bounds) parents in
  exists V, nth t (ohv_row ploidy nhap nt cs) None = Some V
    /\ (V == inject_Z ploidy * sumQ (map (fun b => bestv cs b t) (seq 0 nhap)))%Q
    /\ (forall b, b < nhap -> (forall c q, In c cs -> ent c b t = Some q -> (q <= bestv cs b t)%Q)
                             /\ exists c, In c cs /\ ent c b t = Some (bestv cs b t))
    /\ forall src : nat -> list Z, (forall b, b < nhap -> In (src b) (copies geno parents)) ->
         (inject_Z ploidy * dotZQ (recomb src 0 bounds) (col 0%Q t u) <= V)%Q.
Proof. exact ohv_bounds_recombinants. Qed.
Print Assumptions C18_ohv_def_and_recombinant_bound.

(** cross maps (_calc_xmap) designate valid parents: every tuple has nparent members, all existing taxa *)
Theorem C18_xmap_valid : forall ntaxa nparent uniq,
  Forall (fun xc => length xc = nparent /\ Forall (fun d => d < ntaxa) xc) (calc_xmap ntaxa nparent uniq).
Proof. exact calc_xmap_valid. Qed.
Print Assumptions C18_xmap_valid.

(** The OHV problem as built by from_pgmat_gpmod (haplomat -> cross map -> ohvmat), PARTIAL under the guard "as many runs
    as requested blocks": for every cross of the map and every trait the entry of ohvmat is defined (finite) and is at least
    ploidy * (value of any haplotype assembled block by block from the phases of that cross's parents). *)
Theorem C18_ohv_problem_partial : forall (T : Type) (O : ops T) (chrs : list (list T)) (e1 e2 : err) (nhap : nat)
    (geno : list (list (list Z))) (clen : list nat) (u : list (list Q)) (nt : nat) (hm : hmat_t)
    (ntaxa nparent : nat) (uniq : bool) (bounds : list (nat * nat)),
  chrs <> [] -> Forall (fun c => c <> []) chrs ->
  calc_haplomat O e1 e2 nhap geno (concat chrs) (starts_from 0 (map (@length T) chrs)) (stops_from 0 (map (@length T) chrs)) clen u nt = Ok hm ->
  calc_bounds O nhap (concat chrs) (starts_from 0 (map (@length T) chrs)) (stops_from 0 (map (@length T) chrs)) = Some bounds ->
  length bounds = nhap ->
  geno <> [] -> Forall (fun phm => length phm = ntaxa /\ Forall (fun g => length g = length (concat chrs)) phm) geno ->
  length u = length (concat chrs) -> 1 <= nparent ->
  forall s xc t, nth_error (calc_xmap ntaxa nparent uniq) s = Some xc -> t < nt ->
  exists V, nth_error (calc_ohvmat (Z.of_nat (length geno)) nhap nt hm (calc_xmap ntaxa nparent uniq)) s
              = Some (ohv_row (Z.of_nat (length geno)) nhap nt (cands hm xc))
    /\ nth t (ohv_row (Z.of_nat (length geno)) nhap nt (cands hm xc)) None = Some V
    /\ forall src : nat -> list Z, (forall b, b < nhap -> In (src b) (copies geno xc)) ->
         (inject_Z (Z.of_nat (length geno)) * dotZQ (recomb src 0 bounds) (col 0%Q t u) <= V)%Q.
Proof. exact @ohv_problem_partial. Qed.
Print Assumptions C18_ohv_problem_partial.

(** the optimal population value latentfn is minus the same quantity with the selected individuals as the designated
    parents and ploidy = number of phases, so the theorem above covers it *)
Theorem C18_opv_is_ohv_of_selection : forall (nb nt : nat) (hm : hmat_t) (x : list nat) (t : nat),
  nth t (opv_latent nb nt hm x) None = option_map Qopp (nth t (ohv_row (Z.of_nat (length hm)) nb nt (cands hm x)) None).
Proof. exact opv_latent_nth. Qed.
Print Assumptions C18_opv_is_ohv_of_selection.

(** REFUTED clause "uses exactly the requested total": a valid layout (sorted, #chr <= total <= #markers, no chromosome
    gets more blocks than markers) for which fewer runs than requested blocks are produced: positions 0, 1/64, 2/64, 3/64, 1
    with 3 blocks — the middle equal-width bin is empty. *)
Theorem C18_requested_total_refuted :
  exists (chrs : list (list Q)) (nhap : nat),
    Forall (fun c => c <> [] /\ StronglySorted (fun x y => Qle_bool x y = true) c) chrs
    /\ length chrs <= nhap <= length (concat chrs)
    /\ exists nblk bounds, nhaploblk_chrom qops nhap (concat chrs) (starts_from 0 (map (@length Q) chrs)) (stops_from 0 (map (@length Q) chrs)) = Ok nblk
       /\ Forall2 (fun n c => n <= length c) nblk chrs
       /\ calc_bounds qops nhap (concat chrs) (starts_from 0 (map (@length Q) chrs)) (stops_from 0 (map (@length Q) chrs)) = Some bounds
       /\ length bounds < nhap.
Proof. exact requested_total_refuted. Qed.
Print Assumptions C18_requested_total_refuted.

(** REFUTED clause "finite for every valid input": on the same layout (binary64 and rational instances agree) the third
    block of every copy is never written, and the optimal haploid value of the cross (0,1) and the optimal population
    value of the selection {0,1} depend on that uninitialised memory. *)
Theorem C18_finite_refuted :
  exists hm, calc_haplomat fops EOther EOther 3 wit_geno wit_chr_f [0] [5] [5] wit_u 1 = Ok hm
    /\ calc_haplomat qops EOther EOther 3 wit_geno wit_chr [0] [5] [5] wit_u 1 = Ok hm
    /\ ent (nth 0 (nth 0 hm []) []) 2 0 = None
    /\ calc_ohvmat 2 3 1 hm (calc_xmap 2 2 true) = [[None]]
    /\ opv_latent 3 1 hm [0; 1] = [None].
Proof. exact finite_refuted. Qed.
Print Assumptions C18_finite_refuted.

(** non-vacuity: a concrete layout meets the hypotheses of the theorems above *)
Example C18_hyps_satisfiable :
  chrom_ok qops (fun _ => True) [0; 1#2; 1]%Q /\ bounds_ok qops (fun _ => True) 2 [0; 1#2; 1]%Q
  /\ chain 0 [(0, 2); (2, 3)] 3
  /\ haplobin qops [2] [0; 1#2; 1]%Q [0] [3] = [Some 0; Some 1; Some 1]
  /\ calc_bounds qops 2 [0; 1#2; 1]%Q [0] [3] = Some [(0, 1); (1, 3)]
  /\ copies [[[1; 0; 1]; [0; 1; 1]]]%Z [0; 1] = [[1; 0; 1]; [0; 1; 1]]%Z
  /\ lin_hyp_f [2; 1] [[0; 0.5; 1]; [3; 3.25]]%float = true.
Proof.
  split; [split; [discriminate|split; [repeat constructor|repeat constructor]]|].
  split; [apply q_bounds_ok; lia|]. split; [cbn; lia|]. repeat split; vm_compute; reflexivity.
Qed.
