(** C18 — haplotype blocks: property theorems only (statement, [exact] of a lemma of Proofs/C18_Haplo.v,
    [Print Assumptions]).  Model: Model/C18_Haplo.v, generic in the number type [T] of genetic positions
    ([ops T]; instances [fops] = binary64 as executed, [qops] = exact rationals).
    haplobin is modelled WITH its repair pass (defect C18-empty-bin, repaired): after the equal-width bins of a chromosome
    a pass over its markers lets a label exceed its predecessor by at most one and keeps one marker for every remaining
    block.  [old_haplobin] / [old_calc_haplomat] (Proofs/C18_Haplo.v) are the FORMER code, kept as regression witness. *)
From Coq Require Import PrimFloat Sorted.
From PV Require Import Lib.Common Model.C18_Haplo Proofs.C18_Haplo Proofs.C18_Float Gen.C18_Kernel Proofs.C18_Kernel Proofs.C18_Affine Proofs.C18_Parents.
Local Open Scope nat_scope.

(** Greedy apportionment (nhaploblk_chrom): one count per chromosome, each >= 1, adding up to exactly the requested
    total — for every number type, all positions (also NaN / zero-length chromosomes), every total >= #chromosomes. *)
Theorem C18_apportion_total : forall (T : Type) (O : ops T) (nhap : nat) (gp : list T) (stix spix : list nat),
  length spix = length stix -> 1 <= length stix <= nhap ->
  exists nblk, nhaploblk_chrom O nhap gp stix spix = Ok nblk /\ length nblk = length stix
               /\ Forall (fun x => 1 <= x) nblk /\ list_sum nblk = nhap.
Proof. exact @apportion_total. Qed.
Print Assumptions C18_apportion_total.

(** haplobin on a genome whose chromosome groups tile the marker array ([concat chrs]; start/stop indices are the
    running sums of the chromosome lengths), positions sorted within chromosomes, >= 1 block per chromosome:
    every marker receives exactly one label ([map Some]), the labels of chromosome c lie in its own range
    [offset c, offset (c+1)) (blocks stay within chromosomes), the label array is non-decreasing (blocks contiguous and
    ordered), and when no chromosome has fewer markers than blocks EVERY label 0..total-1 is carried by a marker (every
    chromosome has all its blocks, exactly the requested total is used).  Holds for ANY total preorder [o_leb] on the
    positions that are proper numbers ([ok]) and ANY boundary lists made of proper numbers whose first element
    is not above the chromosome's first marker ([bounds_ok]; the last boundary is the last marker by construction). *)
Theorem C18_bins_cover_once_monotone : forall (T : Type) (O : ops T) (ok : T -> Prop),
  (forall x y, ok x -> ok y -> o_leb O x y = true \/ o_leb O y x = true) ->
  (forall x y z, ok x -> ok y -> ok z -> o_leb O x y = true -> o_leb O y z = true -> o_leb O x z = true) ->
  forall (chrs : list (list T)) (nblk : list nat),
  Forall (fun n => 1 <= n) nblk -> Forall (chrom_ok O ok) chrs -> Forall2 (bounds_ok O ok) nblk chrs ->
  exists labs : list (list nat),
    haplobin O nblk (concat chrs) (starts_from 0 (map (@length T) chrs)) (stops_from 0 (map (@length T) chrs)) = map Some (concat labs)
    /\ Forall2 (fun c l => length l = length c) chrs labs
    /\ (forall c l, nth_error labs c = Some l -> Forall (fun j => offset nblk c <= j < offset nblk (S c)) l)
    /\ StronglySorted Nat.le (concat labs)
    /\ (Forall2 (fun n c => n <= length c) nblk chrs -> forall j, j < list_sum nblk -> In j (concat labs)).
Proof. exact @haplobin_spec. Qed.
Print Assumptions C18_bins_cover_once_monotone.

(** The exact-rational instance meets all of those hypotheses: unconditional statement over Q
    (the behaviour of the code wherever numpy.linspace is exact, e.g. dyadic grids with dyadic bin widths). *)
Theorem C18_bins_cover_once_monotone_Q : forall (chrs : list (list Q)) (nblk : list nat),
  length nblk = length chrs -> Forall (fun n => 1 <= n) nblk ->
  Forall (fun c => c <> [] /\ StronglySorted (fun x y => Qle_bool x y = true) c) chrs ->
  exists labs : list (list nat),
    haplobin qops nblk (concat chrs) (starts_from 0 (map (@length Q) chrs)) (stops_from 0 (map (@length Q) chrs)) = map Some (concat labs)
    /\ Forall2 (fun c l => length l = length c) chrs labs
    /\ (forall c l, nth_error labs c = Some l -> Forall (fun j => offset nblk c <= j < offset nblk (S c)) l)
    /\ StronglySorted Nat.le (concat labs)
    /\ (Forall2 (fun n c => n <= length c) nblk chrs -> forall j, j < list_sum nblk -> In j (concat labs)).
Proof. exact q_haplobin_spec. Qed.
Print Assumptions C18_bins_cover_once_monotone_Q.

(** The executed binary64 instance: PrimFloat.leb is a total preorder on finite floats (Flocq), so the statement holds
    under the DECIDABLE hypothesis [lin_hyp_f] (chromosomes non-empty, positions finite and sorted, >= 1 block each,
    the binary64 linspace boundaries finite with the first one not above the first marker) — exactly the boolean that
    every correspondence shard evaluates on the generated layouts. *)
Theorem C18_bins_cover_once_monotone_binary64 : forall (chrs : list (list PrimFloat.float)) (nblk : list nat),
  lin_hyp_f nblk chrs = true ->
  exists labs : list (list nat),
    haplobin fops nblk (concat chrs) (starts_from 0 (map (@length PrimFloat.float) chrs)) (stops_from 0 (map (@length PrimFloat.float) chrs)) = map Some (concat labs)
    /\ Forall2 (fun c l => length l = length c) chrs labs
    /\ (forall c l, nth_error labs c = Some l -> Forall (fun j => offset nblk c <= j < offset nblk (S c)) l)
    /\ StronglySorted Nat.le (concat labs)
    /\ (Forall2 (fun n c => n <= length c) nblk chrs -> forall j, j < list_sum nblk -> In j (concat labs)).
Proof. exact f_haplobin_spec. Qed.
Print Assumptions C18_bins_cover_once_monotone_binary64.

(** "Uses exactly the requested total" at FULL strength (was C18_requested_total_partial, guarded by "no equal-width bin lost
    all its markers", before the repair): for ANY number type and comparison, on a layout whose chromosome groups tile the
    markers, with between 1 and #markers blocks on every chromosome and counts adding up to the requested total, whenever
    every marker is labelled the labels are non-decreasing, they are exactly 0..nhap-1, and haplobin_bounds yields exactly
    nhap runs.  (Every marker IS labelled on sorted layouts: the three theorems above.) *)
Theorem C18_requested_total : forall (T : Type) (O : ops T) (chrs : list (list T)) (nblk : list nat) (nhap : nat) (lab : list nat),
  chrs <> [] -> Forall (fun c => c <> []) chrs -> Forall (fun n => 1 <= n) nblk ->
  Forall2 (fun n c => n <= length c) nblk chrs -> list_sum nblk = nhap ->
  haplobin O nblk (concat chrs) (starts_from 0 (map (@length T) chrs)) (stops_from 0 (map (@length T) chrs)) = map Some lab ->
  StronglySorted Nat.le lab /\ (forall j, In j lab <-> j < nhap)
  /\ exists hst hsp hlen, haplobin_bounds lab = Ok (hst, hsp, hlen) /\ length (combine hst hsp) = nhap.
Proof. exact @requested_total. Qed.
Print Assumptions C18_requested_total.

(** The repair keeps the equal-width binning wherever it was right: under the ordering hypotheses, if every equal-width bin
    holds a marker (every label occurs among the labels of the FORMER code), haplobin returns exactly what the former code
    returned. *)
Theorem C18_equal_width_kept : forall (T : Type) (O : ops T) (ok : T -> Prop),
  (forall x y, ok x -> ok y -> o_leb O x y = true \/ o_leb O y x = true) ->
  (forall x y z, ok x -> ok y -> ok z -> o_leb O x y = true -> o_leb O y z = true -> o_leb O x z = true) ->
  forall (chrs : list (list T)) (nblk : list nat),
  Forall (fun n => 1 <= n) nblk -> Forall (chrom_ok O ok) chrs -> Forall2 (bounds_ok O ok) nblk chrs ->
  (forall j, j < list_sum nblk ->
     In (Some j) (old_haplobin O nblk (concat chrs) (starts_from 0 (map (@length T) chrs)) (stops_from 0 (map (@length T) chrs)))) ->
  haplobin O nblk (concat chrs) (starts_from 0 (map (@length T) chrs)) (stops_from 0 (map (@length T) chrs))
  = old_haplobin O nblk (concat chrs) (starts_from 0 (map (@length T) chrs)) (stops_from 0 (map (@length T) chrs)).
Proof. exact @equal_width_kept. Qed.
Print Assumptions C18_equal_width_kept.

(** ... in particular for the executed binary64 instance under the decidable hypothesis, and unconditionally over Q *)
Theorem C18_equal_width_kept_binary64 : forall (chrs : list (list PrimFloat.float)) (nblk : list nat), lin_hyp_f nblk chrs = true ->
  (forall j, j < list_sum nblk ->
     In (Some j) (old_haplobin fops nblk (concat chrs) (starts_from 0 (map (@length PrimFloat.float) chrs)) (stops_from 0 (map (@length PrimFloat.float) chrs)))) ->
  haplobin fops nblk (concat chrs) (starts_from 0 (map (@length PrimFloat.float) chrs)) (stops_from 0 (map (@length PrimFloat.float) chrs))
  = old_haplobin fops nblk (concat chrs) (starts_from 0 (map (@length PrimFloat.float) chrs)) (stops_from 0 (map (@length PrimFloat.float) chrs)).
Proof. exact f_equal_width_kept. Qed.
Print Assumptions C18_equal_width_kept_binary64.

Theorem C18_equal_width_kept_Q : forall (chrs : list (list Q)) (nblk : list nat),
  length nblk = length chrs -> Forall (fun n => 1 <= n) nblk ->
  Forall (fun c => c <> [] /\ StronglySorted (fun x y => Qle_bool x y = true) c) chrs ->
  (forall j, j < list_sum nblk ->
     In (Some j) (old_haplobin qops nblk (concat chrs) (starts_from 0 (map (@length Q) chrs)) (stops_from 0 (map (@length Q) chrs)))) ->
  haplobin qops nblk (concat chrs) (starts_from 0 (map (@length Q) chrs)) (stops_from 0 (map (@length Q) chrs))
  = old_haplobin qops nblk (concat chrs) (starts_from 0 (map (@length Q) chrs)) (stops_from 0 (map (@length Q) chrs)).
Proof. exact q_equal_width_kept. Qed.
Print Assumptions C18_equal_width_kept_Q.

(** haplobin_bounds on any non-empty label array: the (start, stop) pairs form a chain 0 = s0 < e0 = s1 < ... = p of
    non-empty runs, lengths = stop - start, and they are a run-length encoding of the labels: decoding the runs with
    one value each gives the label array back and adjacent runs carry different labels. *)
Theorem C18_bounds_partition : forall lab : list nat, lab <> [] ->
  exists hst hsp hlen vals, haplobin_bounds lab = Ok (hst, hsp, hlen) /\ length hst = length hsp /\ length vals = length hst
    /\ chain 0 (combine hst hsp) (length lab) /\ hlen = map2 Nat.sub hsp hst
    /\ decode (combine hst hsp) vals = lab /\ adjacent_differ vals.
Proof. exact haplobin_bounds_partition. Qed.
Print Assumptions C18_bounds_partition.

(** Conservation: over any partition of the markers into runs, the block values (genotype slice . effect slice) of a
    chromosome copy add up to the copy's total additive value. *)
Theorem C18_block_sum_conservation : forall (g : list Z) (ucol : list Q) (bs : list (nat * nat)) (j : nat),
  chain 0 bs (length g) -> length ucol = length g -> (block_sum (fun _ => g) ucol j bs == dotZQ g ucol)%Q.
Proof. exact block_sum_conservation. Qed.
Print Assumptions C18_block_sum_conservation.

(** haplomat / _calc_haplomat at FULL strength (was C18_haplomat_conservation_partial, guarded by "exactly nhaploblk runs"): for
    every number type, whenever the call succeeds on a genome whose chromosome groups tile the markers (chrgrp_len = the group
    lengths) the block boundaries partition the markers into EXACTLY nhaploblk non-empty runs, every entry of the (m,n,b,t)
    array is written (finite), and for every copy and trait the block values add up to the copy's additive value. *)
Theorem C18_haplomat_conservation : forall (T : Type) (O : ops T) (chrs : list (list T)) (e1 e2 : err) (nhap : nat)
    (geno : list (list (list Z))) (u : list (list Q)) (nt : nat) (hm : hmat_t),
  chrs <> [] -> Forall (fun c => c <> []) chrs ->
  calc_haplomat O e1 e2 nhap geno (concat chrs) (starts_from 0 (map (@length T) chrs)) (stops_from 0 (map (@length T) chrs))
                (map (@length T) chrs) u nt = Ok hm ->
  exists bounds, calc_bounds O nhap (concat chrs) (starts_from 0 (map (@length T) chrs)) (stops_from 0 (map (@length T) chrs)) = Some bounds
    /\ hm = hmat_of nhap nt geno u bounds /\ chain 0 bounds (length (concat chrs)) /\ length bounds = nhap
    /\ forall g t, length g = length (concat chrs) -> length u = length (concat chrs) -> t < nt ->
          (forall b, b < nhap -> exists q, ent (cand_of nhap nt u bounds g) b t = Some q)
          /\ exists s, osum (map (fun b => ent (cand_of nhap nt u bounds g) b t) (seq 0 nhap)) = Some s /\ (s == dotZQ g (col 0%Q t u))%Q.
Proof. exact @haplomat_full. Qed.
Print Assumptions C18_haplomat_conservation.

(** ... and the call DOES succeed on every valid input: sorted non-empty chromosomes, at least as many blocks as chromosomes,
    no chromosome given more blocks than it has markers — unconditionally over Q, and for the executed binary64 instance under
    the decidable hypothesis [lin_hyp_f] on the apportioned counts. *)
Theorem C18_haplomat_succeeds_Q : forall (chrs : list (list Q)) (nblk : list nat) (e1 e2 : err) (nhap : nat)
    (geno : list (list (list Z))) (u : list (list Q)) (nt : nat),
  chrs <> [] -> Forall (fun c => c <> [] /\ StronglySorted (fun x y => Qle_bool x y = true) c) chrs -> length chrs <= nhap ->
  nhaploblk_chrom qops nhap (concat chrs) (starts_from 0 (map (@length Q) chrs)) (stops_from 0 (map (@length Q) chrs)) = Ok nblk ->
  Forall2 (fun n c => n <= length c) nblk chrs ->
  exists hm, calc_haplomat qops e1 e2 nhap geno (concat chrs) (starts_from 0 (map (@length Q) chrs)) (stops_from 0 (map (@length Q) chrs))
                           (map (@length Q) chrs) u nt = Ok hm.
Proof. exact q_haplomat_succeeds. Qed.
Print Assumptions C18_haplomat_succeeds_Q.

Theorem C18_haplomat_succeeds_binary64 : forall (chrs : list (list PrimFloat.float)) (nblk : list nat) (e1 e2 : err) (nhap : nat)
    (geno : list (list (list Z))) (u : list (list Q)) (nt : nat),
  chrs <> [] -> length chrs <= nhap ->
  nhaploblk_chrom fops nhap (concat chrs) (starts_from 0 (map (@length PrimFloat.float) chrs)) (stops_from 0 (map (@length PrimFloat.float) chrs)) = Ok nblk ->
  lin_hyp_f nblk chrs = true -> Forall2 (fun n c => n <= length c) nblk chrs ->
  exists hm, calc_haplomat fops e1 e2 nhap geno (concat chrs) (starts_from 0 (map (@length PrimFloat.float) chrs))
               (stops_from 0 (map (@length PrimFloat.float) chrs)) (map (@length PrimFloat.float) chrs) u nt = Ok hm.
Proof. exact f_haplomat_succeeds. Qed.
Print Assumptions C18_haplomat_succeeds_binary64.

(** Optimal haploid value of a parent tuple over a partition into as many runs as requested blocks (which the theorem
    above provides for every successful call): it is defined, equals
    ploidy * sum over blocks of [bestv] where [bestv] is an upper bound of, and attained by, the block values of the
    designated (phase, parent) copies; and it is at least ploidy * (additive value of ANY haplotype that takes each block
    from one of the designated copies) — the doubled haploids recombining only at block boundaries. *)
Theorem C18_ohv_def_and_recombinant_bound : forall (ploidy : Z) (nhap nt : nat) (geno : list (list (list Z))) (u : list (list Q))
    (bounds : list (nat * nat)) (parents : list nat) (t p : nat),
  (0 <= ploidy)%Z -> t < nt -> length bounds = nhap -> chain 0 bounds p -> length u = p ->
  Forall (fun phm => Forall (fun d => d < length phm) parents) geno -> copies geno parents <> [] ->
  Forall (fun g => length g = p) (copies geno parents) ->
  let cs := cands (hmat_of nhap nt geno u bounds) parents in
  exists V, nth t (ohv_row ploidy nhap nt cs) None = Some V
    /\ (V == inject_Z ploidy * sumQ (map (fun b => bestv cs b t) (seq 0 nhap)))%Q
    /\ (forall b, b < nhap -> (forall c q, In c cs -> ent c b t = Some q -> (q <= bestv cs b t)%Q)
                             /\ exists c, In c cs /\ ent c b t = Some (bestv cs b t))
    /\ forall src : nat -> list Z, (forall b, b < nhap -> In (src b) (copies geno parents)) ->
         (inject_Z ploidy * dotZQ (recomb src 0 bounds) (col 0%Q t u) <= V)%Q.
Proof. exact ohv_bounds_recombinants. Qed.
Print Assumptions C18_ohv_def_and_recombinant_bound.

(** cross maps (_calc_xmap) designate valid parents: every tuple has nparent members, all existing taxa *)
Theorem C18_xmap_valid : forall ntaxa nparent uniq,
  Forall (fun xc => length xc = nparent /\ Forall (fun d => d < ntaxa) xc) (calc_xmap ntaxa nparent uniq).
Proof. exact calc_xmap_valid. Qed.
Print Assumptions C18_xmap_valid.

(** The OHV problem as built by from_pgmat_gpmod (haplomat -> cross map -> ohvmat) at FULL strength (was
    C18_ohv_problem_partial, guarded by "as many runs as requested blocks"): for every number type, whenever the haplotype
    matrix is built there are exactly nhaploblk blocks, and for every cross of the map and every trait the entry of ohvmat is
    defined (finite) and is at least ploidy * (value of any haplotype assembled block by block from the phases of that cross's
    parents). *)
Theorem C18_ohv_problem : forall (T : Type) (O : ops T) (chrs : list (list T)) (e1 e2 : err) (nhap : nat)
    (geno : list (list (list Z))) (u : list (list Q)) (nt : nat) (hm : hmat_t) (ntaxa nparent : nat) (uniq : bool),
  chrs <> [] -> Forall (fun c => c <> []) chrs ->
  calc_haplomat O e1 e2 nhap geno (concat chrs) (starts_from 0 (map (@length T) chrs)) (stops_from 0 (map (@length T) chrs))
                (map (@length T) chrs) u nt = Ok hm ->
  geno <> [] -> Forall (fun phm => length phm = ntaxa /\ Forall (fun g => length g = length (concat chrs)) phm) geno ->
  length u = length (concat chrs) -> 1 <= nparent ->
  exists bounds, calc_bounds O nhap (concat chrs) (starts_from 0 (map (@length T) chrs)) (stops_from 0 (map (@length T) chrs)) = Some bounds
    /\ length bounds = nhap /\ chain 0 bounds (length (concat chrs))
    /\ forall s xc t, nth_error (calc_xmap ntaxa nparent uniq) s = Some xc -> t < nt ->
  exists V, nth_error (calc_ohvmat (Z.of_nat (length geno)) nhap nt hm (calc_xmap ntaxa nparent uniq)) s
              = Some (ohv_row (Z.of_nat (length geno)) nhap nt (cands hm xc))
    /\ nth t (ohv_row (Z.of_nat (length geno)) nhap nt (cands hm xc)) None = Some V
    /\ forall src : nat -> list Z, (forall b, b < nhap -> In (src b) (copies geno xc)) ->
         (inject_Z (Z.of_nat (length geno)) * dotZQ (recomb src 0 bounds) (col 0%Q t u) <= V)%Q.
Proof. exact @ohv_problem. Qed.
Print Assumptions C18_ohv_problem.

(** the optimal population value latentfn is minus the same quantity with the selected individuals as the designated
    parents and ploidy = number of phases, so the theorem above covers it *)
Theorem C18_opv_is_ohv_of_selection : forall (nb nt : nat) (hm : hmat_t) (x : list nat) (t : nat),
  nth t (opv_latent nb nt hm x) None = option_map Qopp (nth t (ohv_row (Z.of_nat (length hm)) nb nt (cands hm x)) None).
Proof. exact opv_latent_nth. Qed.
Print Assumptions C18_opv_is_ohv_of_selection.

(** EVERY designated parent counts (first, middle, last; listed once or several times).  For a cross whose parent tuple is
    [ps'] and any non-empty tuple [ps] drawn from the same individuals: both optimal haploid values are defined, the value over
    [ps] is at most the value over [ps'], equal when the two tuples designate the same SET of individuals (order and repetition
    are immaterial); the value over [ps'] is ploidy * sum over blocks of [bestv], and [bestv] is an upper bound of the block
    value of every phase of every member of [ps'] — wherever in the tuple it stands.  ([calc_ohvmat] applies [ohv_row] to the
    candidates [cands hm xc] of every row [xc] of the cross map: C18_ohv_problem / C18_kernel_ohv_problem.) *)
Theorem C18_ohv_every_parent_counts : forall (ploidy : Z) (nb nt : nat) (hm : hmat_t) (ps ps' : list nat) (t : nat),
  (0 <= ploidy)%Z -> t < nt -> hm <> [] -> ps <> [] -> incl ps ps' ->
  (forall c b, In c (cands hm ps') -> b < nb -> exists q, ent c b t = Some q) ->
  exists V V', nth t (ohv_row ploidy nb nt (cands hm ps)) None = Some V
    /\ nth t (ohv_row ploidy nb nt (cands hm ps')) None = Some V'
    /\ (V <= V')%Q
    /\ (incl ps' ps -> (V == V')%Q)
    /\ (V' == inject_Z ploidy * sumQ (map (fun b => bestv (cands hm ps') b t) (seq 0 nb)))%Q
    /\ forall d phm b q, In d ps' -> In phm hm -> b < nb -> ent (nth d phm []) b t = Some q -> (q <= bestv (cands hm ps') b t)%Q.
Proof. exact ohv_every_parent_counts. Qed.
Print Assumptions C18_ohv_every_parent_counts.

(** in particular a value computed from the first and the last parent of a tuple only never exceeds the optimal haploid value ... *)
Theorem C18_ohv_first_last_parent_le : forall (ploidy : Z) (nb nt : nat) (hm : hmat_t) (d0 : nat) (ps : list nat) (t : nat),
  (0 <= ploidy)%Z -> t < nt -> hm <> [] ->
  (forall c b, In c (cands hm (d0 :: ps)) -> b < nb -> exists q, ent c b t = Some q) ->
  exists V V', nth t (ohv_row ploidy nb nt (cands hm [d0; last ps d0])) None = Some V
    /\ nth t (ohv_row ploidy nb nt (cands hm (d0 :: ps))) None = Some V' /\ (V <= V')%Q.
Proof. exact ohv_first_last_le. Qed.
Print Assumptions C18_ohv_first_last_parent_le.

(** ... and is strictly smaller where a MIDDLE parent alone holds the best block (one phase, three individuals, two blocks with
    block values (1,0), (0,5), (0,1)): the cross (0,1,2) has the value 6, its first and last parent alone give 2; listing the
    parents in another order, one of them twice, gives 6 again; so does the cross map of the problem (3 taxa, 3 distinct parents). *)
Theorem C18_ohv_middle_parent_strict :
  nth 0 (ohv_row 1 2 1 (cands mid_hm [0; 1; 2])) None = Some 6%Q
  /\ nth 0 (ohv_row 1 2 1 (cands mid_hm [0; 2])) None = Some 2%Q
  /\ nth 0 (ohv_row 1 2 1 (cands mid_hm [1; 0; 2; 1])) None = Some 6%Q
  /\ calc_ohvmat 1 2 1 mid_hm (calc_xmap 3 3 true) = [[Some 6%Q]].
Proof. exact ohv_middle_parent_strict. Qed.
Print Assumptions C18_ohv_middle_parent_strict.

Example C18_parents_hyps_satisfiable :
  (0 <= 1)%Z /\ 0 < 1 /\ mid_hm <> [] /\ [0; 2] <> [] /\ incl [0; 2] [0; 1; 2]
  /\ (forall c b, In c (cands mid_hm [0; 1; 2]) -> b < 2 -> exists q, ent c b 0 = Some q)
  /\ (forall c b, In c (cands mid_hm (0 :: [1; 2])) -> b < 2 -> exists q, ent c b 0 = Some q) /\ last [1; 2] 0 = 2.
Proof.
  split; [lia|]. split; [lia|]. split; [discriminate|]. split; [discriminate|].
  split; [intros x [<-|[<-|[]]]; cbn; auto|].
  assert (H : forall c b, In c (cands mid_hm [0; 1; 2]) -> b < 2 -> exists q, ent c b 0 = Some q).
  { intros c b Hc Hb. cbn in Hc. destruct Hc as [<-|[<-|[<-|[]]]]; destruct b as [|[|b]]; try lia; eexists; reflexivity. }
  split; [exact H|]. split; [exact H|reflexivity].
Qed.

(** REGRESSION WITNESS, FORMER code ([old_calc_bounds] = nhaploblk_chrom, the bare equal-width bins, haplobin_bounds): the clause
    "uses exactly the requested total" was false: a valid layout (sorted, #chr <= total <= #markers, no chromosome gets more
    blocks than markers) gave fewer runs than requested blocks: positions 0, 1/64, 2/64, 3/64, 1 with 3 blocks — the middle
    equal-width bin is empty. *)
Theorem C18_old_requested_total_refuted :
  exists (chrs : list (list Q)) (nhap : nat),
    Forall (fun c => c <> [] /\ StronglySorted (fun x y => Qle_bool x y = true) c) chrs
    /\ length chrs <= nhap <= length (concat chrs)
    /\ exists nblk bounds, nhaploblk_chrom qops nhap (concat chrs) (starts_from 0 (map (@length Q) chrs)) (stops_from 0 (map (@length Q) chrs)) = Ok nblk
       /\ Forall2 (fun n c => n <= length c) nblk chrs
       /\ old_calc_bounds qops nhap (concat chrs) (starts_from 0 (map (@length Q) chrs)) (stops_from 0 (map (@length Q) chrs)) = Some bounds
       /\ length bounds < nhap.
Proof. exact old_requested_total_refuted. Qed.
Print Assumptions C18_old_requested_total_refuted.

(** REGRESSION WITNESS, FORMER code: the clause "finite for every valid input" was false: on the same layout (binary64 and
    rational instances agree) the third block of every copy was never written, and the optimal haploid value of the cross
    (0,1) and the optimal population value of the selection {0,1} depended on that uninitialised memory. *)
Theorem C18_old_finite_refuted :
  exists hm, old_calc_haplomat fops EOther EOther 3 wit_geno wit_chr_f [0] [5] [5] wit_u 1 = Ok hm
    /\ old_calc_haplomat qops EOther EOther 3 wit_geno wit_chr [0] [5] [5] wit_u 1 = Ok hm
    /\ ent (nth 0 (nth 0 hm []) []) 2 0 = None
    /\ calc_ohvmat 2 3 1 hm (calc_xmap 2 2 true) = [[None]]
    /\ opv_latent 3 1 hm [0; 1] = [None].
Proof. exact old_finite_refuted. Qed.
Print Assumptions C18_old_finite_refuted.

(** The REPAIRED code on that witness: three runs (the marker at 3/64 becomes the middle block), every entry written, optimal
    haploid value of the cross (0,1) = 15 and optimal population value latent of {0,1} = -15. *)
Theorem C18_witness_repaired :
  calc_bounds qops 3 wit_chr [0] [5] = Some [(0, 3); (3, 4); (4, 5)]
  /\ exists hm, calc_haplomat fops EOther EOther 3 wit_geno wit_chr_f [0] [5] [5] wit_u 1 = Ok hm
    /\ calc_haplomat qops EOther EOther 3 wit_geno wit_chr [0] [5] [5] wit_u 1 = Ok hm
    /\ nth 0 (nth 0 hm []) [] = [[Some 2]; [Some (1#2)]; [Some 4]]%Q
    /\ (exists v, calc_ohvmat 2 3 1 hm (calc_xmap 2 2 true) = [[Some v]] /\ (v == 15)%Q)
    /\ exists w, opv_latent 3 1 hm [0; 1] = [Some w] /\ (w == -15)%Q.
Proof. exact witness_repaired. Qed.
Print Assumptions C18_witness_repaired.

(** ** The kernel expressions of the CURRENT source.  Gen/C18_Kernel.v is regenerated from haplo.py and the three problem modules
    on every run (harness/translate/c18_kernel.py): guards, index expressions, the operation order of the ideal counts, argmin, the
    linspace arguments, the closed bin test, the repair-pass bound, the run test, the slices of the block value, the shape, the cross
    map branches, the scaling by the ploidy, the latent functions.  The [g_*] functions (Proofs/C18_Kernel.v) are the code composed
    from those generated definitions; they ARE the hand model: *)
Theorem C18_kernel_is_model :
  (forall (T : Type) (O : ops T) nhap gp stix spix, g_nhaploblk_chrom O nhap gp stix spix = nhaploblk_chrom O nhap gp stix spix) /\
  (forall (T : Type) (O : ops T) nblk gp stix spix, g_haplobin O nblk gp stix spix = haplobin O nblk gp stix spix) /\
  (forall lab, g_haplobin_bounds lab = haplobin_bounds lab) /\
  (forall (T : Type) (O : ops T), g_haplomat O = calc_haplomat O /\ g_ohv_calc_haplomat O = calc_haplomat O
                                  /\ g_opv_calc_haplomat O = calc_haplomat O /\ g_gb_calc_haplomat O = calc_haplomat O) /\
  (forall ntaxa nparent uniq, k_xmap ntaxa nparent uniq = calc_xmap ntaxa nparent uniq) /\
  (forall ploidy nb nt cs, g_ohv_row ploidy nb nt cs = ohv_row ploidy nb nt cs) /\
  (forall nb nt hm ntaxa nparent uniq,
     g_ohv_problem nb nt hm ntaxa nparent uniq = calc_ohvmat (Z.of_nat (length hm)) nb nt hm (calc_xmap ntaxa nparent uniq)) /\
  (forall hm, k_ohv_Real_ploidy hm = k_ohv_Subset_ploidy hm /\ k_ohv_Integer_ploidy hm = k_ohv_Subset_ploidy hm
              /\ k_ohv_Binary_ploidy hm = k_ohv_Subset_ploidy hm /\ k_opv_ploidy hm = Z.of_nat (length hm) /\ k_gb_ploidy hm = Z.of_nat (length hm)).
Proof.
  exact (conj (@g_nhaploblk_chrom_model) (conj (@g_haplobin_model) (conj g_haplobin_bounds_model
        (conj (fun T O => conj (g_haplomat_model O) (conj (g_ohv_calc_haplomat_model O) (conj (g_opv_calc_haplomat_model O) (g_gb_calc_haplomat_model O))))
        (conj k_xmap_model (conj g_ohv_row_model (conj g_ohv_problem_model k_ohv_ploidy_all))))))).
Qed.
Print Assumptions C18_kernel_is_model.

(** the apportionment law about the generated code itself *)
Theorem C18_kernel_apportion_total : forall (T : Type) (O : ops T) (nhap : nat) (gp : list T) (stix spix : list nat),
  length spix = length stix -> 1 <= length stix <= nhap ->
  exists nblk, g_nhaploblk_chrom O nhap gp stix spix = Ok nblk /\ length nblk = length stix
               /\ Forall (fun x => 1 <= x) nblk /\ list_sum nblk = nhap.
Proof. exact @kernel_apportion_total. Qed.
Print Assumptions C18_kernel_apportion_total.

(** cover-once / within-chromosome / monotone / all-blocks-used about the generated haplobin (bins closed at both ends, later bin
    wins, the repair pass with the generated bound k - (spix - m)) *)
Theorem C18_kernel_bins_cover_once_monotone : forall (T : Type) (O : ops T) (ok : T -> Prop),
  (forall x y, ok x -> ok y -> o_leb O x y = true \/ o_leb O y x = true) ->
  (forall x y z, ok x -> ok y -> ok z -> o_leb O x y = true -> o_leb O y z = true -> o_leb O x z = true) ->
  forall (chrs : list (list T)) (nblk : list nat),
  Forall (fun n => 1 <= n) nblk -> Forall (chrom_ok O ok) chrs -> Forall2 (bounds_ok O ok) nblk chrs ->
  exists labs : list (list nat),
    g_haplobin O nblk (concat chrs) (starts_from 0 (map (@length T) chrs)) (stops_from 0 (map (@length T) chrs)) = map Some (concat labs)
    /\ Forall2 (fun c l => length l = length c) chrs labs
    /\ (forall c l, nth_error labs c = Some l -> Forall (fun j => offset nblk c <= j < offset nblk (S c)) l)
    /\ StronglySorted Nat.le (concat labs)
    /\ (Forall2 (fun n c => n <= length c) nblk chrs -> forall j, j < list_sum nblk -> In j (concat labs)).
Proof. exact @kernel_haplobin_spec. Qed.
Print Assumptions C18_kernel_bins_cover_once_monotone.

(** the generated haplobin_bounds is a run-length encoding *)
Theorem C18_kernel_bounds_partition : forall lab : list nat, lab <> [] ->
  exists hst hsp hlen vals, g_haplobin_bounds lab = Ok (hst, hsp, hlen) /\ length hst = length hsp /\ length vals = length hst
    /\ chain 0 (combine hst hsp) (length lab) /\ hlen = map2 Nat.sub hsp hst
    /\ decode (combine hst hsp) vals = lab /\ adjacent_differ vals.
Proof. exact kernel_bounds_partition. Qed.
Print Assumptions C18_kernel_bounds_partition.

(** conservation, exactly nhaploblk blocks, every entry written — for each of the FOUR builders as generated
    (haplo.haplomat and the _calc_haplomat of the OHV, OPV and genotype-builder problems; [conservation_of] is the statement of
    C18_haplomat_conservation with the builder as a parameter) *)
Theorem C18_kernel_haplomat_conservation : forall (T : Type) (O : ops T),
  conservation_of O (g_haplomat O) /\ conservation_of O (g_ohv_calc_haplomat O)
  /\ conservation_of O (g_opv_calc_haplomat O) /\ conservation_of O (g_gb_calc_haplomat O).
Proof. exact @kernel_haplomat_conservation. Qed.
Print Assumptions C18_kernel_haplomat_conservation.

(** the OHV problem as generated (haplotype matrix -> k_xmap -> scaling by k_ohv_Subset_ploidy = number of phases): every entry
    is defined and is at least ploidy * (value of any block-boundary recombinant of the cross's parents) *)
Theorem C18_kernel_ohv_problem : forall (T : Type) (O : ops T) (chrs : list (list T)) (e1 e2 : err) (nhap : nat)
    (geno : list (list (list Z))) (u : list (list Q)) (nt : nat) (hm : hmat_t) (ntaxa nparent : nat) (uniq : bool),
  chrs <> [] -> Forall (fun c => c <> []) chrs ->
  g_ohv_calc_haplomat O e1 e2 nhap geno (concat chrs) (starts_from 0 (map (@length T) chrs)) (stops_from 0 (map (@length T) chrs))
                (map (@length T) chrs) u nt = Ok hm ->
  geno <> [] -> Forall (fun phm => length phm = ntaxa /\ Forall (fun g => length g = length (concat chrs)) phm) geno ->
  length u = length (concat chrs) -> 1 <= nparent ->
  exists bounds, calc_bounds O nhap (concat chrs) (starts_from 0 (map (@length T) chrs)) (stops_from 0 (map (@length T) chrs)) = Some bounds
    /\ length bounds = nhap /\ chain 0 bounds (length (concat chrs))
    /\ forall s xc t, nth_error (k_xmap ntaxa nparent uniq) s = Some xc -> t < nt ->
  exists V, nth_error (g_ohv_problem nhap nt hm ntaxa nparent uniq) s = Some (g_ohv_row (Z.of_nat (length geno)) nhap nt (cands hm xc))
    /\ nth t (g_ohv_row (Z.of_nat (length geno)) nhap nt (cands hm xc)) None = Some V
    /\ forall src : nat -> list Z, (forall b, b < nhap -> In (src b) (copies geno xc)) ->
         (inject_Z (Z.of_nat (length geno)) * dotZQ (recomb src 0 bounds) (col 0%Q t u) <= V)%Q.
Proof. exact @kernel_ohv_problem. Qed.
Print Assumptions C18_kernel_ohv_problem.

(** the latent functions as generated have the exact values the correspondence compares them with: minus the mean OHV of the
    selected crosses, minus the contribution-weighted mean (three classes), minus ploidy * best-sum (OPV = - OHV scaling), and
    -(ploidy/nbestfndr) * top-sum with the top nbestfndr founders taken from index k - nbestfndr on *)
Theorem C18_kernel_latent_values :
  (forall n s : Q, ~ (n == 0)%Q -> (k_ohv_latent n s == - (s / n))%Q) /\
  (forall (tot : Q) (w rows : list Q), ~ (tot == 0)%Q ->
     (k_ohvw_Real_latent (sumQ (map2 (fun wi r => k_ohvw_Real_contrib tot wi * r) w rows)) == - (sumQ (map2 Qmult w rows) / tot)
      /\ k_ohvw_Integer_latent (sumQ (map2 (fun wi r => k_ohvw_Integer_contrib tot wi * r) w rows)) == - (sumQ (map2 Qmult w rows) / tot)
      /\ k_ohvw_Binary_latent (sumQ (map2 (fun wi r => k_ohvw_Binary_contrib tot wi * r) w rows)) == - (sumQ (map2 Qmult w rows) / tot))%Q) /\
  (forall p s : Q, (k_opv_latent p s == - (k_ohv_scale p s))%Q) /\
  (forall p n s : Q, (k_gb_latent p n s == - ((p / n) * s))%Q) /\
  (forall k nbest : nat, k_gb_st k nbest + Nat.min nbest k = k).
Proof. exact (conj k_ohv_latent_model (conj k_ohvw_latent_model (conj k_opv_latent_model (conj k_gb_latent_model k_gb_st_model)))). Qed.
Print Assumptions C18_kernel_latent_values.

(** non-vacuity of the kernel theorems: the generated code runs on a concrete two-chromosome layout (4 blocks over 3 + 2 markers) *)
Example C18_kernel_hyps_satisfiable :
  g_nhaploblk_chrom qops 4 [0; 1#2; 1; 3; 4]%Q [0; 3] [3; 5] = Ok [2; 2]
  /\ g_haplobin qops [2; 2] [0; 1#2; 1; 3; 4]%Q [0; 3] [3; 5] = [Some 0; Some 1; Some 1; Some 2; Some 3]
  /\ g_haplobin_bounds [0; 1; 1; 2; 3] = Ok ([0; 1; 3; 4], [1; 3; 4; 5], [1; 2; 1; 1])
  /\ (exists hm, g_ohv_calc_haplomat qops EValue EValue 4 [[[1; 0; 1; 1; 0]; [0; 1; 1; 0; 1]]]%Z [0; 1#2; 1; 3; 4]%Q [0; 3] [3; 5] [3; 2]
                   [[1]; [2]; [-1]; [1#2]; [4]]%Q 1 = Ok hm
                 /\ g_ohv_problem 4 1 hm 2 2 true = [[Some (13#2)]]%Q)
  /\ ~ (inject_Z 2 == 0)%Q.
Proof. repeat split; try (vm_compute; reflexivity). - eexists. split; vm_compute; reflexivity. - discriminate. Qed.

(** ** Scale covariance (exact arithmetic).  Under every positive affine map x |-> c*x + d of the genetic positions (another unit,
    another origin) the apportionment, the block labels, the block boundaries and the whole haplotype matrix — hence every OHV / OPV /
    genotype-builder value — are unchanged, for all layouts whose chromosome indices address existing markers.  (For binary64 the
    correspondence exercises the same law with powers of two from 2^-40 to 2^20, where scaling commutes with every operation.) *)
Theorem C18_affine_invariance : forall (c d : Q), (0 < c)%Q ->
  forall (e1 e2 : err) (nhap : nat) (nblk : list nat) (geno : list (list (list Z))) (gp : list Q) (stix spix clen : list nat) (u : list (list Q)) (nt : nat),
  Forall (fun st => st < length gp) stix -> Forall (fun sp => 1 <= sp <= length gp) spix ->
  nhaploblk_chrom qops nhap (map (aff c d) gp) stix spix = nhaploblk_chrom qops nhap gp stix spix
  /\ haplobin qops nblk (map (aff c d) gp) stix spix = haplobin qops nblk gp stix spix
  /\ calc_bounds qops nhap (map (aff c d) gp) stix spix = calc_bounds qops nhap gp stix spix
  /\ calc_haplomat qops e1 e2 nhap geno (map (aff c d) gp) stix spix clen u nt = calc_haplomat qops e1 e2 nhap geno gp stix spix clen u nt.
Proof.
  intros c d Hc e1 e2 nhap nblk geno gp stix spix clen u nt H1 H2.
  exact (conj (nhaploblk_chrom_aff c d Hc nhap gp stix spix H1 H2)
        (conj (haplobin_aff c d Hc nblk gp stix spix (in_range_combine (length gp) nblk stix spix H1 H2))
        (conj (proj2 (calc_haplomat_aff c d Hc e1 e2 nhap geno gp stix spix clen u nt H1 H2))
              (proj1 (calc_haplomat_aff c d Hc e1 e2 nhap geno gp stix spix clen u nt H1 H2))))).
Qed.
Print Assumptions C18_affine_invariance.

(** block values are linear in the marker effects: scaling every effect by s scales every block value by s *)
Theorem C18_block_value_scales : forall (s : Q) (g : list Z) (ucol : list Q) (st sp : nat),
  (block_val g (map (Qmult s) ucol) st sp == s * block_val g ucol st sp)%Q.
Proof. exact block_val_scale. Qed.
Print Assumptions C18_block_value_scales.

Example C18_affine_hyps_satisfiable :
  (0 < 1 # 1024)%Q /\ Forall (fun st => st < length [0; 1#2; 1; 3; 4]%Q) [0; 3] /\ Forall (fun sp => 1 <= sp <= length [0; 1#2; 1; 3; 4]%Q) [3; 5]
  /\ haplobin qops [2; 2] (map (aff (1 # 1024) 7) [0; 1#2; 1; 3; 4]%Q) [0; 3] [3; 5] = [Some 0; Some 1; Some 1; Some 2; Some 3].
Proof. split; [reflexivity|]. split; [repeat constructor|]. split; [repeat constructor|]. vm_compute. reflexivity. Qed.

(** non-vacuity: a concrete layout meets the hypotheses of the theorems above *)
Example C18_hyps_satisfiable :
  chrom_ok qops (fun _ => True) [0; 1#2; 1]%Q /\ bounds_ok qops (fun _ => True) 2 [0; 1#2; 1]%Q
  /\ chain 0 [(0, 2); (2, 3)] 3
  /\ haplobin qops [2] [0; 1#2; 1]%Q [0] [3] = [Some 0; Some 1; Some 1]
  /\ calc_bounds qops 2 [0; 1#2; 1]%Q [0] [3] = Some [(0, 1); (1, 3)]
  /\ copies [[[1; 0; 1]; [0; 1; 1]]]%Z [0; 1] = [[1; 0; 1]; [0; 1; 1]]%Z
  /\ lin_hyp_f [2; 1] [[0; 0.5; 1]; [3; 3.25]]%float = true
  /\ haplobin qops [3] [0; 1#64; 2#64; 3#64; 1]%Q [0] [5] = [Some 0; Some 0; Some 0; Some 1; Some 2]
  /\ old_haplobin qops [3] [0; 1#64; 2#64; 3#64; 1]%Q [0] [5] = [Some 0; Some 0; Some 0; Some 0; Some 2].
Proof.
  split; [split; [discriminate|split; [repeat constructor|repeat constructor]]|].
  split; [apply q_bounds_ok; lia|]. split; [cbn; lia|]. repeat split; vm_compute; reflexivity.
Qed.
