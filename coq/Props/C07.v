(** C07 — property theorems only: statement, [exact] of a lemma proved in Proofs/C07_*.v, [Print Assumptions].
    Model: Model/C07_Config.v (composition of the C17 sampling model as in the five sample_xconfig methods; cross-map index
    generators; sorting optimiser; multi-objective choice; protocol-level select). *)
From Coq Require Import Permutation Sorting.Sorted Qround PrimFloat.
From PV Require Import Lib.Common Model.C17_Sampling Proofs.C17_Sampling Model.C07_Config
  Proofs.C07_LocalOpt Proofs.C07_Tail Proofs.C07_Xmap Proofs.C07_Sort Proofs.C07_Tiled Proofs.C07_RealMateMo Proofs.C07_Integer.

(** * the tail of every individual-based configuration: outcross descent, then a shuffle within every cross.
    For every table, every oracle of exchange orders and every within-cross permutation: the entries are permuted, the number of
    self-pairings does not increase, and NO exchange of two entries of the final arrangement lowers it (the count is invariant
    under within-cross permutations, so the optimum reached by the descent survives the final shuffle). *)
Theorem C07_local_optimum_after_axis_shuffle : forall ncross nparent x pms r,
  length x = (ncross * nparent)%nat -> draws_ok nparent x pms ->
  xc_tail ncross nparent x pms = Some r ->
  length r = (ncross * nparent)%nat /\ Permutation r x /\ (score nparent r <= score nparent x)%Z /\ local_opt nparent r.
Proof. exact xc_tail_spec. Qed.
Print Assumptions C07_local_optimum_after_axis_shuffle.

(** * cross-map index generators *)
Theorem C07_triudix_enumerates : forall n k L, (0 < k)%nat -> triudix n k = Some L ->
  (forall t, In t L <-> (length t = k /\ StronglySorted lt t /\ Forall (fun i => (i < n)%nat) t)) /\
  NoDup L /\ StronglySorted lexlt L.
Proof. exact triudix_enumerates. Qed.
Print Assumptions C07_triudix_enumerates.

Theorem C07_triuix_enumerates : forall n k L, (0 < k)%nat -> triuix n k = Some L ->
  (forall t, In t L <-> (length t = k /\ StronglySorted le t /\ Forall (fun i => (i < n)%nat) t)) /\
  NoDup L /\ StronglySorted lexlt L.
Proof. exact triuix_enumerates. Qed.
Print Assumptions C07_triuix_enumerates.

Theorem C07_triudix_count : forall n k L, (0 < k)%nat -> triudix n k = Some L -> length L = binomial n k.
Proof. exact triudix_count. Qed.
Print Assumptions C07_triudix_count.

Theorem C07_xmapix_total_no_selfing : forall n k,  (0 < k)%nat ->
  (forall u, exists L, xmapix n k u = Some L) /\
  (forall L t, xmapix n k true = Some L -> In t L -> NoDup t).
Proof. intros n k H; split; [intro u; now apply xmapix_total | intros L t; apply triudix_no_selfing; exact H]. Qed.
Print Assumptions C07_xmapix_total_no_selfing.

(** * truncation selection with the sorting optimiser *)
Theorem C07_truncation_exact : forall crit k sel, sort_select crit k = Some sel ->
  length sel = k /\ NoDup sel /\ Forall (fun i => (i < length crit)%nat) sel /\
  (forall i j, In i sel -> (j < length crit)%nat -> ~ In j sel -> (nth i crit 0 <= nth j crit 0)%Z) /\
  is_topk crit sel k = true.
Proof. exact sort_select_topk. Qed.
Print Assumptions C07_truncation_exact.

Theorem C07_truncation_optimal : forall crit sel sel' k,
  length sel = k -> NoDup sel -> Forall (fun i => (i < length crit)%nat) sel ->
  (forall i j, In i sel -> (j < length crit)%nat -> ~ In j sel -> (nth i crit 0 <= nth j crit 0)%Z) ->
  length sel' = k -> NoDup sel' -> Forall (fun i => (i < length crit)%nat) sel' ->
  (sumZ (map (fun i => nth i crit 0%Z) sel) <= sumZ (map (fun i => nth i crit 0%Z) sel'))%Z.
Proof. exact topk_optimal. Qed.
Print Assumptions C07_truncation_optimal.

Theorem C07_is_topk_sound : forall crit sel k, is_topk crit sel k = true ->
  length sel = k /\ NoDup sel /\ Forall (fun i => (i < length crit)%nat) sel /\
  (forall i j, In i sel -> (j < length crit)%nat -> ~ In j sel -> (nth i crit 0 <= nth j crit 0)%Z).
Proof. exact is_topk_sound. Qed.
Print Assumptions C07_is_topk_sound.

Theorem C07_relabel_equivariant : forall crit pi k sel sel',
  NoDup crit -> Permutation pi (seq 0 (length crit)) ->
  sort_select crit k = Some sel -> sort_select (permute 0%Z pi crit) k = Some sel' ->
  map (fun i => nth i pi 0%nat) sel' = sel.
Proof. exact relabel_equivariant. Qed.
Print Assumptions C07_relabel_equivariant.

Theorem C07_relabel_values : forall crit pi k sel sel',
  Permutation pi (seq 0 (length crit)) ->
  sort_select crit k = Some sel -> sort_select (permute 0%Z pi crit) k = Some sel' ->
  map (fun i => nth i (permute 0%Z pi crit) 0%Z) sel' = map (fun i => nth i crit 0%Z) sel.
Proof. exact relabel_values. Qed.
Print Assumptions C07_relabel_values.

(** * integer contribution vectors (IntegerSelectionConfiguration since commit e5bdc2c0): for EVERY count vector, every start
    the generator can return, every shuffle and every exchange order of the descent, individual i is used the floor or the
    ceiling of its proportional share t*x_i/sum(x) — no guard on the vector (the sum may or may not divide the slots) *)
Theorem C07_integer_floor_ceil_share : forall nc np x start perm pms r,
  let n := length (rep_from 0 x) in let t := (nc * np)%nat in
  Permutation perm (seq 0 t) ->
  (forall s, cfg_integer_sample nc np x start perm = Some s -> draws_ok np s pms) ->
  cfg_integer nc np x start perm pms = Some r ->
  length r = t /\
  (forall v, In v r -> exists i, v = Z.of_nat i /\ (i < length x)%nat /\ (0 < nth i x 0)%Z) /\
  (forall i, (i < length x)%nat ->
     (Z.to_nat (nth i x 0%Z) * t / n <= count_z (Z.of_nat i) r <= (Z.to_nat (nth i x 0%Z) * t + n - 1) / n)%nat) /\
  local_opt np r.
Proof. exact cfg_integer_spec. Qed.
Print Assumptions C07_integer_floor_ceil_share.

(** 'within one of the proportional share' in the very form whose negation holds of the former code *)
Theorem C07_integer_within_one_of_share : forall nc np x start perm pms r,
  let n := length (rep_from 0 x) in let t := (nc * np)%nat in
  Permutation perm (seq 0 t) ->
  (forall s, cfg_integer_sample nc np x start perm = Some s -> draws_ok np s pms) ->
  cfg_integer nc np x start perm pms = Some r ->
  forall i, (i < length x)%nat ->
    (Z.abs (Z.of_nat (count_z (Z.of_nat i) r) * Z.of_nat n - Z.of_nat t * nth i x 0%Z) < Z.of_nat n)%Z.
Proof. exact cfg_integer_share. Qed.
Print Assumptions C07_integer_within_one_of_share.

(** regression witness: the code before commit e5bdc2c0 ([old_cfg_integer] = tiled_choice over the repeated options) *)
Theorem C07_old_integer_share_refuted : exists nc np x choice perm pms r i,
  let opts := rep_from 0 x in let t := (nc * np)%nat in
  NoDup choice /\ Forall (fun p => (p < length opts)%nat) choice /\ length choice = (t mod length opts)%nat /\ Permutation perm (seq 0 t) /\
  (forall s, tiled_choice opts t false choice perm = Some s -> draws_ok np s pms) /\
  old_cfg_integer nc np x choice perm pms = Some r /\ (i < length x)%nat /\
  (Z.of_nat (length opts) < Z.abs (Z.of_nat (count_z (Z.of_nat i) r) * Z.of_nat (length opts) - Z.of_nat t * nth i x 0%Z))%Z.
Proof. exact old_cfg_integer_share_refuted. Qed.
Print Assumptions C07_old_integer_share_refuted.

(** * IntegerMateSelectionConfiguration (since commit 35c78bef): the same for candidate crosses *)
Theorem C07_integer_mate_floor_ceil_share : forall nc np x xmap start perm rows,
  let n := length (rep_from 0 x) in
  Permutation perm (seq 0 nc) ->
  cfg_integer_mate nc np x xmap start perm = Some rows ->
  exists ds, xmap_rows xmap ds = Some rows /\ length rows = nc /\ length ds = nc /\
    Forall (fun r => length r = np) rows /\
    (forall d, In d ds -> exists i, d = Z.of_nat i /\ (i < length x)%nat /\ (0 < nth i x 0)%Z) /\
    (forall i, (i < length x)%nat ->
       (Z.to_nat (nth i x 0%Z) * nc / n <= count_z (Z.of_nat i) ds <= (Z.to_nat (nth i x 0%Z) * nc + n - 1) / n)%nat).
Proof. exact cfg_integer_mate_spec. Qed.
Print Assumptions C07_integer_mate_floor_ceil_share.

Theorem C07_old_integer_mate_share_refuted : exists nc np x xmap choice perm perm2 ds rows i,
  let opts := rep_from 0 x in
  NoDup choice /\ Forall (fun p => (p < length opts)%nat) choice /\ length choice = (nc mod length opts)%nat /\
  Permutation perm (seq 0 nc) /\ Permutation perm2 (seq 0 nc) /\
  old_cfg_integer_mate nc np x xmap choice perm perm2 = Some rows /\ xmap_rows xmap ds = Some rows /\ (i < length x)%nat /\
  (Z.of_nat (length opts) < Z.abs (Z.of_nat (count_z (Z.of_nat i) ds) * Z.of_nat (length opts) - Z.of_nat nc * nth i x 0%Z))%Z.
Proof. exact old_cfg_integer_mate_share_refuted. Qed.
Print Assumptions C07_old_integer_mate_share_refuted.

(** * nmating / nprogeny: whatever a selection protocol accepts at construction (since commits fcb030f4, 8be05ab5), the
    configuration built by select() accepts, with one positive entry per cross: select() cannot fail late on them *)
Theorem C07_protocol_mating_parameters_accepted_by_configuration : forall nc np nm npg,
  proto_args_ok nc np nm npg = true ->
  cfg_args_ok nc np nm npg = true /\ length (matpar_value nc nm) = nc /\ length (matpar_value nc npg) = nc /\
  Forall (fun v => (0 < v)%Z) (matpar_value nc nm) /\ Forall (fun v => (0 < v)%Z) (matpar_value nc npg).
Proof. exact proto_args_accepted_by_cfg. Qed.
Print Assumptions C07_protocol_mating_parameters_accepted_by_configuration.

Theorem C07_old_protocol_mating_refuted :
  (exists nc m, old_matpar_proto_ok nc m = true /\ matpar_cfg_ok nc m = false /\ m = MScalar 0%Z) /\
  (exists nc m, old_matpar_proto_ok nc m = true /\ matpar_cfg_ok nc m = false /\ m = MArray [1;1;1]%Z /\ nc = 2%nat).
Proof. exact old_proto_mating_refuted. Qed.
Print Assumptions C07_old_protocol_mating_refuted.

Example C07_hyps_satisfiable :
  (* three selfed crosses, three descent passes, then a shuffle within every cross *)
  let x := [1; 1; 2; 2; 3; 3]%Z in
  let pms := [seq 0 15; seq 0 15; seq 0 15; [1; 0]; [0; 1]; [1; 0]]%nat in
  length x = (3 * 2)%nat /\ draws_ok 2 x pms /\ xc_tail 3 2 x pms = Some [1; 3; 1; 2; 3; 2]%Z /\
  sort_select [3; -1; 4; 1; 5; -9; 2; 6]%Z 3 = Some [5; 1; 3]%nat /\ NoDup [3; -1; 4; 1; 5; -9; 2; 6]%Z /\
  Permutation [7; 6; 5; 4; 3; 2; 1; 0]%nat (seq 0 8) /\ triudix 4 2 = Some [[0;1];[0;2];[0;3];[1;2];[1;3];[2;3]]%nat.
Proof.
  cbv zeta. split; [reflexivity|]. split.
  - intros y n H. vm_compute in H. injection H as <- <-. cbn [firstn skipn length all_pairs].
    split; repeat constructor; apply is_perm_sound; reflexivity.
  - split; [vm_compute; reflexivity|]. split; [vm_compute; reflexivity|].
    split; [| split; [apply is_perm_sound; reflexivity | reflexivity]].
    repeat constructor; cbn; intuition discriminate.
Qed.
