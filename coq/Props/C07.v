(** C07 — property theorems only: statement, [exact] of a lemma proved in Proofs/C07_*.v, [Print Assumptions].
    Model: Model/C07_Config.v (composition of the C17 sampling model as in the five sample_xconfig methods; cross-map index
    generators; sorting optimiser; multi-objective choice; protocol-level select). *)
From Coq Require Import Permutation Sorting.Sorted Qround PrimFloat.
From PV Require Import Lib.Common Model.C17_Sampling Proofs.C17_Sampling Model.C07_Config
  Proofs.C07_LocalOpt Proofs.C07_Tail Proofs.C07_Xmap Proofs.C07_Sort Proofs.C07_Tiled Proofs.C07_RealMateMo Proofs.C07_Integer Proofs.C07_MateExt
  Gen.C07_Kernel Model.C07_KernelProg Proofs.C07_Kernel Proofs.C07_Space Proofs.C07_MoWeight.

(** * the tail of every individual-based configuration: outcross descent, then a shuffle within every cross.
    For every table, every oracle of exchange orders and every within-cross permutation: the entries are permuted, the number of
    self-pairings does not increase, and NO exchange of two entries of the final arrangement lowers it (the count is invariant
    under within-cross permutations, so the optimum reached by the descent survives the final shuffle). *)
Theorem C07_local_optimum_after_axis_shuffle : forall ncross nparent x pms r,
  length x = (ncross * nparent)%nat -> draws_ok nparent x pms ->
  xc_tail ncross nparent x pms = Some r ->
  length r = (ncross * nparent)%nat /\ Permutation r x /\ (score nparent r <= score nparent x)%Z /\ local_opt nparent r.
Proof. exact xc_tail_spec. Qed.
Print Assumptions C07_local_optimum_after_axis_shuffle.

(** * cross-map index generators *)
Theorem C07_triudix_enumerates : forall n k L, (0 < k)%nat -> triudix n k = Some L ->
  (forall t, In t L <-> (length t = k /\ StronglySorted lt t /\ Forall (fun i => (i < n)%nat) t)) /\
  NoDup L /\ StronglySorted lexlt L.
Proof. exact triudix_enumerates. Qed.
Print Assumptions C07_triudix_enumerates.

Theorem C07_triuix_enumerates : forall n k L, (0 < k)%nat -> triuix n k = Some L ->
  (forall t, In t L <-> (length t = k /\ StronglySorted le t /\ Forall (fun i => (i < n)%nat) t)) /\
  NoDup L /\ StronglySorted lexlt L.
Proof. exact triuix_enumerates. Qed.
Print Assumptions C07_triuix_enumerates.

Theorem C07_triudix_count : forall n k L, (0 < k)%nat -> triudix n k = Some L -> length L = binomial n k.
Proof. exact triudix_count. Qed.
Print Assumptions C07_triudix_count.

Theorem C07_xmapix_total_no_selfing : forall n k,  (0 < k)%nat ->
  (forall u, exists L, xmapix n k u = Some L) /\
  (forall L t, xmapix n k true = Some L -> In t L -> NoDup t).
Proof. intros n k H; split; [intro u; now apply xmapix_total | intros L t; apply triudix_no_selfing; exact H]. Qed.
Print Assumptions C07_xmapix_total_no_selfing.

(** * truncation selection with the sorting optimiser *)
Theorem C07_truncation_exact : forall crit k sel, sort_select crit k = Some sel ->
  length sel = k /\ NoDup sel /\ Forall (fun i => (i < length crit)%nat) sel /\
  (forall i j, In i sel -> (j < length crit)%nat -> ~ In j sel -> (nth i crit 0 <= nth j crit 0)%Z) /\
  is_topk crit sel k = true.
Proof. exact sort_select_topk. Qed.
Print Assumptions C07_truncation_exact.

Theorem C07_truncation_optimal : forall crit sel sel' k,
  length sel = k -> NoDup sel -> Forall (fun i => (i < length crit)%nat) sel ->
  (forall i j, In i sel -> (j < length crit)%nat -> ~ In j sel -> (nth i crit 0 <= nth j crit 0)%Z) ->
  length sel' = k -> NoDup sel' -> Forall (fun i => (i < length crit)%nat) sel' ->
  (sumZ (map (fun i => nth i crit 0%Z) sel) <= sumZ (map (fun i => nth i crit 0%Z) sel'))%Z.
Proof. exact topk_optimal. Qed.
Print Assumptions C07_truncation_optimal.

Theorem C07_is_topk_sound : forall crit sel k, is_topk crit sel k = true ->
  length sel = k /\ NoDup sel /\ Forall (fun i => (i < length crit)%nat) sel /\
  (forall i j, In i sel -> (j < length crit)%nat -> ~ In j sel -> (nth i crit 0 <= nth j crit 0)%Z).
Proof. exact is_topk_sound. Qed.
Print Assumptions C07_is_topk_sound.

Theorem C07_relabel_equivariant : forall crit pi k sel sel',
  NoDup crit -> Permutation pi (seq 0 (length crit)) ->
  sort_select crit k = Some sel -> sort_select (permute 0%Z pi crit) k = Some sel' ->
  map (fun i => nth i pi 0%nat) sel' = sel.
Proof. exact relabel_equivariant. Qed.
Print Assumptions C07_relabel_equivariant.

Theorem C07_relabel_values : forall crit pi k sel sel',
  Permutation pi (seq 0 (length crit)) ->
  sort_select crit k = Some sel -> sort_select (permute 0%Z pi crit) k = Some sel' ->
  map (fun i => nth i (permute 0%Z pi crit) 0%Z) sel' = map (fun i => nth i crit 0%Z) sel.
Proof. exact relabel_values. Qed.
Print Assumptions C07_relabel_values.

(** * integer contribution vectors (IntegerSelectionConfiguration since commit e5bdc2c0): for EVERY count vector, every start
    the generator can return, every shuffle and every exchange order of the descent, individual i is used the floor or the
    ceiling of its proportional share t*x_i/sum(x) — no guard on the vector (the sum may or may not divide the slots) *)
Theorem C07_integer_floor_ceil_share : forall nc np x start perm pms r,
  let n := length (rep_from 0 x) in let t := (nc * np)%nat in
  Permutation perm (seq 0 t) ->
  (forall s, cfg_integer_sample nc np x start perm = Some s -> draws_ok np s pms) ->
  cfg_integer nc np x start perm pms = Some r ->
  length r = t /\
  (forall v, In v r -> exists i, v = Z.of_nat i /\ (i < length x)%nat /\ (0 < nth i x 0)%Z) /\
  (forall i, (i < length x)%nat ->
     (Z.to_nat (nth i x 0%Z) * t / n <= count_z (Z.of_nat i) r <= (Z.to_nat (nth i x 0%Z) * t + n - 1) / n)%nat) /\
  local_opt np r.
Proof. exact cfg_integer_spec. Qed.
Print Assumptions C07_integer_floor_ceil_share.

(** 'within one of the proportional share' in the very form whose negation holds of the former code *)
Theorem C07_integer_within_one_of_share : forall nc np x start perm pms r,
  let n := length (rep_from 0 x) in let t := (nc * np)%nat in
  Permutation perm (seq 0 t) ->
  (forall s, cfg_integer_sample nc np x start perm = Some s -> draws_ok np s pms) ->
  cfg_integer nc np x start perm pms = Some r ->
  forall i, (i < length x)%nat ->
    (Z.abs (Z.of_nat (count_z (Z.of_nat i) r) * Z.of_nat n - Z.of_nat t * nth i x 0%Z) < Z.of_nat n)%Z.
Proof. exact cfg_integer_share. Qed.
Print Assumptions C07_integer_within_one_of_share.

(** regression witness: the code before commit e5bdc2c0 ([old_cfg_integer] = tiled_choice over the repeated options) *)
Theorem C07_old_integer_share_refuted : exists nc np x choice perm pms r i,
  let opts := rep_from 0 x in let t := (nc * np)%nat in
  NoDup choice /\ Forall (fun p => (p < length opts)%nat) choice /\ length choice = (t mod length opts)%nat /\ Permutation perm (seq 0 t) /\
  (forall s, tiled_choice opts t false choice perm = Some s -> draws_ok np s pms) /\
  old_cfg_integer nc np x choice perm pms = Some r /\ (i < length x)%nat /\
  (Z.of_nat (length opts) < Z.abs (Z.of_nat (count_z (Z.of_nat i) r) * Z.of_nat (length opts) - Z.of_nat t * nth i x 0%Z))%Z.
Proof. exact old_cfg_integer_share_refuted. Qed.
Print Assumptions C07_old_integer_share_refuted.

(** * IntegerMateSelectionConfiguration (since commit 35c78bef): the same for candidate crosses *)
Theorem C07_integer_mate_floor_ceil_share : forall nc np x xmap start perm rows,
  let n := length (rep_from 0 x) in
  Permutation perm (seq 0 nc) ->
  cfg_integer_mate nc np x xmap start perm = Some rows ->
  exists ds, xmap_rows xmap ds = Some rows /\ length rows = nc /\ length ds = nc /\
    Forall (fun r => length r = np) rows /\
    (forall d, In d ds -> exists i, d = Z.of_nat i /\ (i < length x)%nat /\ (0 < nth i x 0)%Z) /\
    (forall i, (i < length x)%nat ->
       (Z.to_nat (nth i x 0%Z) * nc / n <= count_z (Z.of_nat i) ds <= (Z.to_nat (nth i x 0%Z) * nc + n - 1) / n)%nat).
Proof. exact cfg_integer_mate_spec. Qed.
Print Assumptions C07_integer_mate_floor_ceil_share.

Theorem C07_old_integer_mate_share_refuted : exists nc np x xmap choice perm perm2 ds rows i,
  let opts := rep_from 0 x in
  NoDup choice /\ Forall (fun p => (p < length opts)%nat) choice /\ length choice = (nc mod length opts)%nat /\
  Permutation perm (seq 0 nc) /\ Permutation perm2 (seq 0 nc) /\
  old_cfg_integer_mate nc np x xmap choice perm perm2 = Some rows /\ xmap_rows xmap ds = Some rows /\ (i < length x)%nat /\
  (Z.of_nat (length opts) < Z.abs (Z.of_nat (count_z (Z.of_nat i) ds) * Z.of_nat (length opts) - Z.of_nat nc * nth i x 0%Z))%Z.
Proof. exact old_cfg_integer_mate_share_refuted. Qed.
Print Assumptions C07_old_integer_mate_share_refuted.

(** * nmating / nprogeny: whatever a selection protocol accepts at construction (since commits fcb030f4, 8be05ab5), the
    configuration built by select() accepts, with one positive entry per cross: select() cannot fail late on them *)
Theorem C07_protocol_mating_parameters_accepted_by_configuration : forall nc np nm npg,
  proto_args_ok nc np nm npg = true ->
  cfg_args_ok nc np nm npg = true /\ length (matpar_value nc nm) = nc /\ length (matpar_value nc npg) = nc /\
  Forall (fun v => (0 < v)%Z) (matpar_value nc nm) /\ Forall (fun v => (0 < v)%Z) (matpar_value nc npg).
Proof. exact proto_args_accepted_by_cfg. Qed.
Print Assumptions C07_protocol_mating_parameters_accepted_by_configuration.

Theorem C07_old_protocol_mating_refuted :
  (exists nc m, old_matpar_proto_ok nc m = true /\ matpar_cfg_ok nc m = false /\ m = MScalar 0%Z) /\
  (exists nc m, old_matpar_proto_ok nc m = true /\ matpar_cfg_ok nc m = false /\ m = MArray [1;1;1]%Z /\ nc = 2%nat).
Proof. exact old_proto_mating_refuted. Qed.
Print Assumptions C07_old_protocol_mating_refuted.

(** * The kernel expressions of the CURRENT source.  Gen/C07_Kernel.v is regenerated from the source on every run by
    harness/translate/c07_kernel.py; Model/C07_KernelProg.v assembles the configurations, the cross-design checks, the
    multi-objective choice, the sorting optimiser and the cross-map generators from those expressions.  The theorems below are
    about the ASSEMBLED programs: a changed expression of the source (replace = <condition>, a transposed size, another axis,
    another divisor in the integer pointers, argmin, soln_decn[0] for several objectives, check_is_gteq, swapped attributes
    handed to the configuration, l[-1] for l[-1]+1, ix[1:ndecn]) changes the regenerated definitions, and this file stops
    compiling whatever the generated cases exercise. *)
Theorem C07_kernel_is_model :
  (forall nc np decn choice perm pms, kcfg_subset nc np decn choice perm pms = cfg_subset nc np decn choice perm pms) /\
  (forall nc np decn choice perm pms, kcfg_binary nc np decn choice perm pms = cfg_binary nc np decn choice perm pms) /\
  (forall nc np decn start perm pms, kcfg_integer nc np decn start perm pms = cfg_integer nc np decn start perm pms) /\
  (forall nc np decn order off perm pms, kcfg_real_f nc np decn order off perm pms = cfg_real_f nc np decn order off perm pms) /\
  (forall nc np decn order off perm pms, kcfg_real_q nc np decn order off perm pms = cfg_real_q nc np decn order off perm pms) /\
  (forall nc np decn xmap choice perm perm2, kcfg_mate nc np decn xmap choice perm perm2 = cfg_mate nc np decn xmap choice perm perm2) /\
  (forall nc np decn xmap start perm, kcfg_integer_mate nc np decn xmap start perm = cfg_integer_mate nc np decn xmap start perm) /\
  (forall nc np decn xmap choice perm perm2, kcfg_binary_mate nc np decn xmap choice perm perm2 = cfg_binary_mate nc np decn xmap choice perm perm2) /\
  (forall nc np decn xmap order off perm perm2, kcfg_real_mate_f nc np decn xmap order off perm perm2 = cfg_real_mate_f nc np decn xmap order off perm perm2) /\
  (forall nc np decn xmap order off perm perm2, kcfg_real_mate_q nc np decn xmap order off perm perm2 = cfg_real_mate_q nc np decn xmap order off perm perm2) /\
  (forall nc np nm npg, kproto_args_ok nc np nm npg = proto_args_ok nc np nm npg) /\
  (forall nc np nm npg, kcfg_args_ok nc np nm npg = cfg_args_ok nc np nm npg) /\
  (forall crit k, ksort_select crit k = sort_select crit k) /\
  (forall n k u, (0 < k)%nat -> kxmapix n k u = xmapix n k u) /\
  (forall nc np nm nx, kuc_int_bounds nc np nm nx = uc_int_bounds nc np nm nx).
Proof.
  exact (conj kcfg_subset_model (conj kcfg_binary_model (conj kcfg_integer_model (conj kcfg_real_f_model (conj kcfg_real_q_model
        (conj kcfg_mate_model (conj kcfg_integer_mate_model (conj kcfg_binary_mate_model (conj kcfg_real_mate_f_model (conj kcfg_real_mate_q_model
        (conj kproto_args_ok_model (conj kcfg_args_ok_model (conj ksort_select_model (conj kxmapix_model kuc_int_bounds_model)))))))))))))).
Qed.
Print Assumptions C07_kernel_is_model.

(** subsets: every member is used floor or ceiling of t/k times (t = ncross*nparent slots, k members), only members are used,
    the final arrangement is a 2-exchange local optimum of the self-pairing count *)
Theorem C07_kernel_subset_even_use : forall nc np decn choice perm pms r,
  (0 < length decn)%nat -> NoDup decn ->
  NoDup choice -> Forall (fun p => (p < length decn)%nat) choice -> length choice = ((nc * np) mod length decn)%nat ->
  Permutation perm (seq 0 (nc * np)) ->
  (forall x, cfg_subset_sample nc np decn choice perm = Some x -> draws_ok np x pms) ->
  kcfg_subset nc np decn choice perm pms = Some r ->
  length r = (nc * np)%nat /\ (forall v, In v r -> In v decn) /\
  (forall i, (i < length decn)%nat ->
      count_z (nth i decn 0%Z) r = ((nc * np) / length decn + count_nat i choice)%nat /\ (count_nat i choice <= 1)%nat) /\
  local_opt np r.
Proof. exact kcfg_subset_spec. Qed.
Print Assumptions C07_kernel_subset_even_use.

Theorem C07_kernel_binary_even_use : forall nc np x choice perm pms r,
  let opts := rep_from 0 x in let t := (nc * np)%nat in
  (0 < length opts)%nat -> NoDup choice -> Forall (fun p => (p < length opts)%nat) choice -> length choice = (t mod length opts)%nat ->
  Permutation perm (seq 0 t) ->
  (forall s, tiled_choice opts t false choice perm = Some s -> draws_ok np s pms) ->
  kcfg_binary nc np x choice perm pms = Some r ->
  (forall i, (i < length x)%nat -> nth i x 0%Z = 1%Z -> (t / length opts <= count_z (Z.of_nat i) r <= t / length opts + 1)%nat) /\
  (forall i, (i < length x)%nat -> nth i x 0%Z = 0%Z -> count_z (Z.of_nat i) r = 0%nat) /\ length r = t /\ local_opt np r.
Proof. exact kcfg_binary_spec. Qed.
Print Assumptions C07_kernel_binary_even_use.

Theorem C07_kernel_integer_floor_ceil_share : forall nc np x start perm pms r,
  let n := length (rep_from 0 x) in let t := (nc * np)%nat in
  Permutation perm (seq 0 t) ->
  (forall s, cfg_integer_sample nc np x start perm = Some s -> draws_ok np s pms) ->
  kcfg_integer nc np x start perm pms = Some r ->
  length r = t /\
  (forall v, In v r -> exists i, v = Z.of_nat i /\ (i < length x)%nat /\ (0 < nth i x 0)%Z) /\
  (forall i, (i < length x)%nat ->
     (Z.to_nat (nth i x 0%Z) * t / n <= count_z (Z.of_nat i) r <= (Z.to_nat (nth i x 0%Z) * t + n - 1) / n)%nat) /\
  local_opt np r.
Proof. exact kcfg_integer_spec. Qed.
Print Assumptions C07_kernel_integer_floor_ceil_share.

Theorem C07_kernel_integer_mate_floor_ceil_share : forall nc np x xmap start perm rows,
  let n := length (rep_from 0 x) in
  Permutation perm (seq 0 nc) ->
  kcfg_integer_mate nc np x xmap start perm = Some rows ->
  exists ds, xmap_rows xmap ds = Some rows /\ length rows = nc /\ length ds = nc /\
    Forall (fun r => length r = np) rows /\
    (forall d, In d ds -> exists i, d = Z.of_nat i /\ (i < length x)%nat /\ (0 < nth i x 0)%Z) /\
    (forall i, (i < length x)%nat ->
       (Z.to_nat (nth i x 0%Z) * nc / n <= count_z (Z.of_nat i) ds <= (Z.to_nat (nth i x 0%Z) * nc + n - 1) / n)%nat).
Proof. exact kcfg_integer_mate_spec. Qed.
Print Assumptions C07_kernel_integer_mate_floor_ceil_share.

(** candidate crosses of a subset-mate decision: rows of the cross map (not columns), used evenly *)
Theorem C07_kernel_mate_even_use : forall nc np decn xmap choice perm perm2 rows,
  (0 < length decn)%nat -> NoDup decn ->
  NoDup choice -> Forall (fun p => (p < length decn)%nat) choice -> length choice = (nc mod length decn)%nat ->
  Permutation perm (seq 0 nc) -> Permutation perm2 (seq 0 nc) ->
  kcfg_mate nc np decn xmap choice perm perm2 = Some rows ->
  exists ds, xmap_rows xmap ds = Some rows /\ length rows = nc /\ length ds = nc /\
    Forall (fun r => length r = np) rows /\
    (forall d, In d ds -> In d decn) /\
    (forall r, In r rows -> exists d, In d decn /\ xmap_row xmap d = Some r) /\
    (forall i, (i < length decn)%nat ->
       count_z (nth i decn 0%Z) ds = (nc / length decn + count_nat i choice)%nat /\ (count_nat i choice <= 1)%nat).
Proof. exact kcfg_mate_spec. Qed.
Print Assumptions C07_kernel_mate_even_use.

(** 0/1 vectors over candidate crosses (BinaryMateSelectionConfiguration): marked crosses used evenly, unmarked never *)
Theorem C07_kernel_binary_mate_even_use : forall nc np x xmap choice perm perm2 rows,
  let opts := rep_from 0 x in
  is_binary x = true -> (0 < length opts)%nat ->
  NoDup choice -> Forall (fun p => (p < length opts)%nat) choice -> length choice = (nc mod length opts)%nat ->
  Permutation perm (seq 0 nc) -> Permutation perm2 (seq 0 nc) ->
  kcfg_binary_mate nc np x xmap choice perm perm2 = Some rows ->
  exists ds, xmap_rows xmap ds = Some rows /\ length rows = nc /\ length ds = nc /\
    Forall (fun r => length r = np) rows /\
    (forall d, In d ds -> exists i, d = Z.of_nat i /\ (i < length x)%nat /\ nth i x 0%Z = 1%Z) /\
    (forall i, (i < length x)%nat -> nth i x 0%Z = 1%Z -> (nc / length opts <= count_z (Z.of_nat i) ds <= nc / length opts + 1)%nat) /\
    (forall i, (i < length x)%nat -> nth i x 0%Z = 0%Z -> count_z (Z.of_nat i) ds = 0%nat).
Proof. exact kcfg_binary_mate_spec. Qed.
Print Assumptions C07_kernel_binary_mate_even_use.

(** contribution vectors over candidate crosses (RealMateSelectionConfiguration, ideal pointers) *)
Theorem C07_kernel_real_mate_floor_ceil_share : forall nc np (p : list Q) xmap order off perm perm2 rows,
  Forall (fun x => 0 <= x) p -> 0 < sumQ p -> Permutation order (seq 0 (length p)) ->
  nonincr (gather 0 p order) = true ->
  0 <= off -> off < sumQ p / inject_Z (Z.of_nat nc) -> Permutation perm (seq 0 nc) -> Permutation perm2 (seq 0 nc) ->
  kcfg_real_mate_q nc np p xmap order off perm perm2 = Some rows ->
  exists ds, xmap_rows xmap ds = Some rows /\ length rows = nc /\ length ds = nc /\
    Forall (fun r => length r = np) rows /\
    (forall d, In d ds -> exists i, d = Z.of_nat i /\ (i < length p)%nat /\ ~ nth i p 0 == 0) /\
    (forall i, (i < length p)%nat ->
       (Qfloor (nth i p 0 * inject_Z (Z.of_nat nc) / sumQ p)%Q <= Z.of_nat (count_z (Z.of_nat i) ds)
        <= Qceiling (nth i p 0 * inject_Z (Z.of_nat nc) / sumQ p)%Q)%Z).
Proof. exact kcfg_real_mate_q_spec. Qed.
Print Assumptions C07_kernel_real_mate_floor_ceil_share.

(** real contribution vectors (ideal pointers): member i is used floor or ceiling of t*x_i/sum(x) times *)
Theorem C07_kernel_real_floor_ceil_share : forall nc np (p : list Q) order off perm pms r,
  let k := (nc * np)%nat in
  Forall (fun x => 0 <= x) p -> 0 < sumQ p -> Permutation order (seq 0 (length p)) ->
  nonincr (gather 0 p order) = true ->
  0 <= off -> off < sumQ p / inject_Z (Z.of_nat k) -> Permutation perm (seq 0 k) ->
  (forall sel, sus_q p order k off perm = Some sel -> draws_ok np (zs sel) pms) ->
  kcfg_real_q nc np p order off perm pms = Some r ->
  length r = k /\
  (forall v, In v r -> exists i, v = Z.of_nat i /\ (i < length p)%nat /\ ~ nth i p 0 == 0) /\
  (forall i, (i < length p)%nat ->
     (Qfloor (nth i p 0 * inject_Z (Z.of_nat k) / sumQ p)%Q <= Z.of_nat (count_z (Z.of_nat i) r)
      <= Qceiling (nth i p 0 * inject_Z (Z.of_nat k) / sumQ p)%Q)%Z) /\
  local_opt np r.
Proof. exact kcfg_real_q_spec. Qed.
Print Assumptions C07_kernel_real_floor_ceil_share.

(** the setters' checks as the source has them: what the protocol accepts, the configuration accepts *)
Theorem C07_kernel_protocol_mating_parameters_accepted : forall nc np nm npg,
  kproto_args_ok nc np nm npg = true ->
  kcfg_args_ok nc np nm npg = true /\ length (matpar_value nc nm) = nc /\ length (matpar_value nc npg) = nc /\
  Forall (fun v => (0 < v)%Z) (matpar_value nc nm) /\ Forall (fun v => (0 < v)%Z) (matpar_value nc npg).
Proof. exact kproto_args_accepted_by_cfg. Qed.
Print Assumptions C07_kernel_protocol_mating_parameters_accepted.

(** several objectives, all six protocol bases: the configuration is built from the decision at the FIRST maximiser of
    ndset_wt * ndset_trans(front) *)
Theorem C07_kernel_mo_choice_is_first_argmax : forall D C wt trans front (decns : list D) (cfg : D -> option C) d c,
  (kselect_mo (@k_sel_subset_pick _) k_sel_subset_score k_sel_subset_mo_row wt trans front decns cfg = Some (d, c) -> mo_choice_post wt trans front decns cfg d c) /\
  (kselect_mo (@k_sel_real_pick _) k_sel_real_score k_sel_real_mo_row wt trans front decns cfg = Some (d, c) -> mo_choice_post wt trans front decns cfg d c) /\
  (kselect_mo (@k_sel_integer_pick _) k_sel_integer_score k_sel_integer_mo_row wt trans front decns cfg = Some (d, c) -> mo_choice_post wt trans front decns cfg d c) /\
  (kselect_mo (@k_sel_binary_pick _) k_sel_binary_score k_sel_binary_mo_row wt trans front decns cfg = Some (d, c) -> mo_choice_post wt trans front decns cfg d c) /\
  (kselect_mo (@k_sel_mate_pick _) k_sel_mate_score k_sel_mate_mo_row wt trans front decns cfg = Some (d, c) -> mo_choice_post wt trans front decns cfg d c) /\
  (kselect_mo (@k_sel_imate_pick _) k_sel_imate_score k_sel_imate_mo_row wt trans front decns cfg = Some (d, c) -> mo_choice_post wt trans front decns cfg d c) /\
  (kselect_mo (@k_sel_bmate_pick _) k_sel_bmate_score k_sel_bmate_mo_row wt trans front decns cfg = Some (d, c) -> mo_choice_post wt trans front decns cfg d c) /\
  (kselect_mo (@k_sel_rmate_pick _) k_sel_rmate_score k_sel_rmate_mo_row wt trans front decns cfg = Some (d, c) -> mo_choice_post wt trans front decns cfg d c).
Proof. exact kselect_mo_spec. Qed.
Print Assumptions C07_kernel_mo_choice_is_first_argmax.

(** the place of ndset_wt: it multiplies the OUTPUT of the transformation of the front, so in the programs assembled from the
    kernel expressions of all eight select() methods the chosen decision (and the configuration) depends on the weight through
    its sign only - any two weights of one sign choose the same point, whatever the transformation *)
Theorem C07_mo_choice_weight_sign_only : forall D C (wt wt' : Q) trans front (decns : list D) (cfg : D -> option C),
  (0 < wt * wt')%Q ->
  kselect_mo (@k_sel_subset_pick _) k_sel_subset_score k_sel_subset_mo_row wt trans front decns cfg
    = kselect_mo (@k_sel_subset_pick _) k_sel_subset_score k_sel_subset_mo_row wt' trans front decns cfg /\
  kselect_mo (@k_sel_real_pick _) k_sel_real_score k_sel_real_mo_row wt trans front decns cfg
    = kselect_mo (@k_sel_real_pick _) k_sel_real_score k_sel_real_mo_row wt' trans front decns cfg /\
  kselect_mo (@k_sel_integer_pick _) k_sel_integer_score k_sel_integer_mo_row wt trans front decns cfg
    = kselect_mo (@k_sel_integer_pick _) k_sel_integer_score k_sel_integer_mo_row wt' trans front decns cfg /\
  kselect_mo (@k_sel_binary_pick _) k_sel_binary_score k_sel_binary_mo_row wt trans front decns cfg
    = kselect_mo (@k_sel_binary_pick _) k_sel_binary_score k_sel_binary_mo_row wt' trans front decns cfg /\
  kselect_mo (@k_sel_mate_pick _) k_sel_mate_score k_sel_mate_mo_row wt trans front decns cfg
    = kselect_mo (@k_sel_mate_pick _) k_sel_mate_score k_sel_mate_mo_row wt' trans front decns cfg /\
  kselect_mo (@k_sel_imate_pick _) k_sel_imate_score k_sel_imate_mo_row wt trans front decns cfg
    = kselect_mo (@k_sel_imate_pick _) k_sel_imate_score k_sel_imate_mo_row wt' trans front decns cfg /\
  kselect_mo (@k_sel_bmate_pick _) k_sel_bmate_score k_sel_bmate_mo_row wt trans front decns cfg
    = kselect_mo (@k_sel_bmate_pick _) k_sel_bmate_score k_sel_bmate_mo_row wt' trans front decns cfg /\
  kselect_mo (@k_sel_rmate_pick _) k_sel_rmate_score k_sel_rmate_mo_row wt trans front decns cfg
    = kselect_mo (@k_sel_rmate_pick _) k_sel_rmate_score k_sel_rmate_mo_row wt' trans front decns cfg.
Proof. exact kselect_mo_weight_sign_only. Qed.
Print Assumptions C07_mo_choice_weight_sign_only.

(** ... and a weight applied to the INPUT of the transformation is another protocol: with the squared distance to a reference
    point (not positively homogeneous) the two placements choose different points of a two-point front, for a negative weight and
    for a positive weight other than 1 *)
Theorem C07_mo_weight_inside_transformation_differs : exists (wt : Q) trans front (decns : list Z),
  mo_choice wt trans front decns = Some 10%Z /\ mo_choice 1 (weight_inside wt trans) front decns = Some 11%Z.
Proof. exact mo_weight_inside_differs. Qed.
Print Assumptions C07_mo_weight_inside_transformation_differs.

Theorem C07_mo_positive_weight_inside_transformation_differs : exists (wt : Q) trans front (decns : list Z),
  (0 < wt)%Q /\ mo_choice wt trans front decns = Some 11%Z /\ mo_choice 1 (weight_inside wt trans) front decns = Some 10%Z.
Proof. exact mo_weight_inside_differs_pos. Qed.
Print Assumptions C07_mo_positive_weight_inside_transformation_differs.

(** the hypothesis of C07_mo_choice_weight_sign_only is met by the weights -5/2 and -1, which choose the third point of a
    three-point front (the first minimiser of the transformation), while the weight 1 chooses the second *)
Example C07_mo_weight_hyps_satisfiable :
  (0 < (-5 # 2) * (-1 # 1))%Q /\
  kselect_mo (@k_sel_binary_pick _) k_sel_binary_score k_sel_binary_mo_row (-5 # 2)%Q (map (fun r => nth 0 r 0%Q)) [[3#1];[7#1];[1#1]]%Q [[1;0];[0;1];[1;1]]%Z (fun d => Some (length d))
    = Some ([1;1]%Z, 2%nat) /\
  kselect_mo (@k_sel_binary_pick _) k_sel_binary_score k_sel_binary_mo_row (-1 # 1)%Q (map (fun r => nth 0 r 0%Q)) [[3#1];[7#1];[1#1]]%Q [[1;0];[0;1];[1;1]]%Z (fun d => Some (length d))
    = Some ([1;1]%Z, 2%nat) /\
  kselect_mo (@k_sel_binary_pick _) k_sel_binary_score k_sel_binary_mo_row (1 # 1)%Q (map (fun r => nth 0 r 0%Q)) [[3#1];[7#1];[1#1]]%Q [[1;0];[0;1];[1;1]]%Z (fun d => Some (length d))
    = Some ([0;1]%Z, 2%nat).
Proof. split; [reflexivity|]. repeat split; vm_compute; reflexivity. Qed.

(** one objective: the first row of the solution; the dispatch on the number of objectives; the cross-design attributes are
    handed to the configuration in their own places (ncross, nparent, nmating, nprogeny), in both branches of all six bases *)
Theorem C07_kernel_dispatch_and_arguments : forall (nobj : Z) (a b : nat) (c d : list Z),
  let so := (nobj =? 1)%Z in let mo := (1 <? nobj)%Z in let args := (a, b, c, d) in
  (k_sel_subset_is_so nobj = so /\ k_sel_subset_is_mo nobj = mo /\ k_sel_subset_so_args a b c d = args /\ k_sel_subset_mo_args a b c d = args) /\
  (k_sel_real_is_so nobj = so /\ k_sel_real_is_mo nobj = mo /\ k_sel_real_so_args a b c d = args /\ k_sel_real_mo_args a b c d = args) /\
  (k_sel_integer_is_so nobj = so /\ k_sel_integer_is_mo nobj = mo /\ k_sel_integer_so_args a b c d = args /\ k_sel_integer_mo_args a b c d = args) /\
  (k_sel_binary_is_so nobj = so /\ k_sel_binary_is_mo nobj = mo /\ k_sel_binary_so_args a b c d = args /\ k_sel_binary_mo_args a b c d = args) /\
  (k_sel_mate_is_so nobj = so /\ k_sel_mate_is_mo nobj = mo /\ k_sel_mate_so_args a b c d = args /\ k_sel_mate_mo_args a b c d = args) /\
  (k_sel_imate_is_so nobj = so /\ k_sel_imate_is_mo nobj = mo /\ k_sel_imate_so_args a b c d = args /\ k_sel_imate_mo_args a b c d = args) /\
  (k_sel_bmate_is_so nobj = so /\ k_sel_bmate_is_mo nobj = mo /\ k_sel_bmate_so_args a b c d = args /\ k_sel_bmate_mo_args a b c d = args) /\
  (k_sel_rmate_is_so nobj = so /\ k_sel_rmate_is_mo nobj = mo /\ k_sel_rmate_so_args a b c d = args /\ k_sel_rmate_mo_args a b c d = args).
Proof. exact k_sel_dispatch_args. Qed.
Print Assumptions C07_kernel_dispatch_and_arguments.

Theorem C07_kernel_single_objective_first_row : forall D C (decns : list D) (cfg : D -> option C),
  kselect_so k_sel_subset_so_row decns cfg = select_so decns cfg /\ kselect_so k_sel_real_so_row decns cfg = select_so decns cfg /\
  kselect_so k_sel_integer_so_row decns cfg = select_so decns cfg /\ kselect_so k_sel_binary_so_row decns cfg = select_so decns cfg /\
  kselect_so k_sel_mate_so_row decns cfg = select_so decns cfg /\ kselect_so k_sel_imate_so_row decns cfg = select_so decns cfg /\
  kselect_so k_sel_bmate_so_row decns cfg = select_so decns cfg /\ kselect_so k_sel_rmate_so_row decns cfg = select_so decns cfg.
Proof. exact @kselect_so_model. Qed.
Print Assumptions C07_kernel_single_objective_first_row.

Theorem C07_kernel_truncation_exact : forall crit k sel, ksort_select crit k = Some sel ->
  length sel = k /\ NoDup sel /\ Forall (fun i => (i < length crit)%nat) sel /\
  (forall i j, In i sel -> (j < length crit)%nat -> ~ In j sel -> (nth i crit 0 <= nth j crit 0)%Z) /\
  is_topk crit sel k = true.
Proof. exact ksort_select_topk. Qed.
Print Assumptions C07_kernel_truncation_exact.

Theorem C07_kernel_xmapix_enumerates : forall n k, (0 < k)%nat ->
  (forall u, exists L, kxmapix n k u = Some L) /\
  (forall L, kxmapix n k true = Some L ->
     (forall t, In t L <-> (length t = k /\ StronglySorted lt t /\ Forall (fun i => (i < n)%nat) t)) /\ NoDup L /\ StronglySorted lexlt L) /\
  (forall L, kxmapix n k false = Some L ->
     (forall t, In t L <-> (length t = k /\ StronglySorted le t /\ Forall (fun i => (i < n)%nat) t)) /\ NoDup L /\ StronglySorted lexlt L).
Proof. exact kxmapix_spec. Qed.
Print Assumptions C07_kernel_xmapix_enumerates.

(** the hypotheses of the kernel theorems are met by concrete values, and the assembled programs compute *)
Example C07_kernel_hyps_satisfiable :
  let x := [3;3;0]%Z in let perm := [2;0;1]%nat in let pms := [[0;1;2]; [0]; [0]; [0]]%nat in
  Permutation perm (seq 0 (3 * 1)) /\
  (forall s, cfg_integer_sample 3 1 x 4 perm = Some s -> draws_ok 1 s pms) /\
  kcfg_integer 3 1 x 4 perm pms = Some [1;0;1]%Z /\
  kcfg_integer_mate 3 2 x [[0;1];[0;2];[1;2]]%Z 4 perm = Some [[0;2];[0;1];[0;2]]%Z /\
  kproto_args_ok 3 2 (MScalar 2%Z) (MArray [1;4;2]%Z) = true /\ kproto_args_ok 3 2 (MScalar 0%Z) (MScalar 1%Z) = false /\
  kxmapix 4 2 true = Some [[0;1];[0;2];[0;3];[1;2];[1;3];[2;3]]%nat /\ kxmapix 2 2 false = Some [[0;0];[0;1];[1;1]]%nat /\
  ksort_select [3; -1; 4; 1; 5; -9; 2; 6]%Z 3 = Some [5; 1; 3]%nat /\
  kselect_mo (@k_sel_subset_pick _) k_sel_subset_score k_sel_subset_mo_row (-1 # 1)%Q (map (fun r => nth 0 r 0%Q)) [[3#1];[1#1];[1#1]]%Q [10;11;12]%Z (fun d => Some (d + 1)%Z)
    = Some (11, 12)%Z /\
  is_binary [1;0;1]%Z = true /\ Permutation [1;0;2]%nat (seq 0 3) /\
  kcfg_binary_mate 3 2 [1;0;1]%Z [[0;1];[0;2];[1;2]]%Z [1]%nat [1;0;2]%nat [2;1;0]%nat = Some [[1;2];[0;1];[1;2]]%Z /\
  kcfg_real_mate_q 2 2 [1#2; 0; 1#2]%Q [[0;1];[0;2];[1;2]]%Z [2;0;1]%nat (1#4)%Q [0;1]%nat [1;0]%nat = Some [[0;1];[1;2]]%Z.
Proof.
  cbv zeta. destruct C07_integer_hyps_satisfiable as (H1 & H2 & _). split; [exact H1|]. split; [exact H2|].
  repeat split; try (vm_compute; reflexivity). apply is_perm_sound; reflexivity.
Qed.

(** * object lifecycle of a configuration (correspondence: kind life - copies, setters, in-place writes, a sampling after every change):
    once the caller has set decision vector, shape and cross map, nothing of the object's history survives in the fields a sampling
    reads; equal fields give equal samplings (as functions of the draws) *)
Theorem C07_session_last_write_wins : forall s0 hist d nc np x tail,
  Forall (fun o => match o with OpCopy | OpDeepCopy | OpSetRng | OpSample => True | _ => False end) tail ->
  session s0 (hist ++ [OpSetDecn d; OpSetShape nc np; OpSetXmap x] ++ tail) = {| st_nc := nc; st_np := np; st_decn := d; st_xmap := x |}.
Proof. exact session_last_write_wins. Qed.
Print Assumptions C07_session_last_write_wins.

Theorem C07_session_state_determines_sample : forall s0 s0' h h', session s0 h = session s0' h' ->
  sample_subset (session s0 h) = sample_subset (session s0' h') /\ sample_binary (session s0 h) = sample_binary (session s0' h') /\
  sample_integer (session s0 h) = sample_integer (session s0' h') /\ sample_mate (session s0 h) = sample_mate (session s0' h') /\
  sample_integer_mate (session s0 h) = sample_integer_mate (session s0' h') /\ sample_binary_mate (session s0 h) = sample_binary_mate (session s0' h').
Proof. exact session_state_determines_sample. Qed.
Print Assumptions C07_session_state_determines_sample.

Example C07_session_hyps_satisfiable :
  Forall (fun o => match o with OpCopy | OpDeepCopy | OpSetRng | OpSample => True | _ => False end) [OpSample; OpCopy; OpSample] /\
  session {| st_nc := 1; st_np := 1; st_decn := [0]%Z; st_xmap := [] |} [OpSetDecn [5;6]%Z; OpSample] =
  session {| st_nc := 3; st_np := 2; st_decn := [1;2;3]%Z; st_xmap := [] |} [OpMutateDecn [5;6]%Z; OpDeepCopy; OpSetShape 1 1].
Proof. split; [repeat constructor | reflexivity]. Qed.

(** * UsefulnessCriterionIntegerSelection.problem: the bounds of the integer decision space over the candidate crosses
    (finding C07-uc-integer-bounds-shape, REPAIRED: the upper bound is the one number nparent * sum(nmating) repeated once per
    candidate cross).  About the program assembled from the regenerated kernel expressions, for EVERY cross design a protocol
    accepts (any number of crosses, any per-cross nmating array) and every number of candidate crosses: the two bounds are
    stacked (select() does not fail there), both have one entry per candidate cross, the lower bound is 0 and the upper bound
    nparent * sum(nmating) everywhere; the upper bound is positive and at least ncross; every allocation of the design's
    matings - a fortiori of its ncross crosses - to the candidate crosses (non-negative counts with a total of at most
    sum(nmating)) is a point of the decision space. *)
Theorem C07_kernel_uc_integer_bounds : forall nc np nm npg nx,
  proto_args_ok nc np (MArray nm) npg = true ->
  exists b, kuc_int_bounds nc np nm nx = Some b /\
    b = (repeat 0%Z nx, repeat (Z.of_nat np * sumZ nm)%Z nx) /\ length (fst b) = nx /\ length (snd b) = nx /\
    (Z.of_nat nc <= Z.of_nat np * sumZ nm)%Z /\ (0 < Z.of_nat np * sumZ nm)%Z /\
    (forall x, length x = nx -> Forall (fun v => 0 <= v)%Z x -> (sumZ x <= sumZ nm)%Z -> in_bounds b x = true).
Proof. exact kuc_int_bounds_spec. Qed.
Print Assumptions C07_kernel_uc_integer_bounds.

(** the hand model, without any hypothesis on the design: the bounds are always stacked *)
Theorem C07_uc_integer_bounds : forall nc np nm nx,
  uc_int_bounds nc np nm nx = Some (repeat 0%Z nx, repeat (Z.of_nat np * sumZ nm)%Z nx).
Proof. exact uc_int_bounds_total. Qed.
Print Assumptions C07_uc_integer_bounds.

(** where the former code worked (one cross) the repaired code computes the same bounds *)
Theorem C07_uc_integer_bounds_agrees_with_old_on_one_cross : forall np m nx,
  old_uc_int_bounds 1 np [m] nx = uc_int_bounds 1 np [m] nx.
Proof. exact uc_int_bounds_agrees_with_old_on_one_cross. Qed.
Print Assumptions C07_uc_integer_bounds_agrees_with_old_on_one_cross.

(** regression witnesses about the FORMER code ([old_uc_int_bounds]: numpy.repeat(ncross * nparent * nmating_ARRAY, len(xmap)),
    every element repeated): its bounds could be stacked iff the protocol asked for one cross; for ncross = 2, nparent = 2,
    nmating = [1, 1] and three candidate crosses it failed where the repaired code returns the bounds (0, 4) *)
Theorem C07_old_uc_integer_bounds_refuted : exists nc np nm nx,
  proto_args_ok nc np (MArray nm) (MScalar 1%Z) = true /\ (0 < nx)%nat /\ old_uc_int_bounds nc np nm nx = None /\
  uc_int_bounds nc np nm nx = Some (repeat 0%Z nx, repeat 4%Z nx).
Proof. exact old_uc_int_bounds_refuted. Qed.
Print Assumptions C07_old_uc_integer_bounds_refuted.

Theorem C07_old_uc_integer_bounds_one_cross_only : forall nc np nm nx, length nm = nc -> (0 < nx)%nat ->
  (old_uc_int_bounds nc np nm nx <> None <-> nc = 1%nat).
Proof. exact old_uc_int_bounds_iff. Qed.
Print Assumptions C07_old_uc_integer_bounds_one_cross_only.

Example C07_uc_integer_bounds_hyps_satisfiable :
  proto_args_ok 3 2 (MArray [2;1;3]%Z) (MScalar 1%Z) = true /\
  kuc_int_bounds 3 2 [2;1;3]%Z 3 = Some ([0;0;0]%Z, [12;12;12]%Z) /\
  in_bounds ([0;0;0]%Z, [12;12;12]%Z) [6;0;0]%Z = true /\ in_bounds ([0;0;0]%Z, [12;12;12]%Z) [1;1;1]%Z = true /\
  in_bounds ([0;0;0]%Z, [12;12;12]%Z) [13;0;0]%Z = false /\ in_bounds ([0;0;0]%Z, [12;12;12]%Z) [1;-1;1]%Z = false /\
  length [2;1;3]%Z = 3%nat /\ old_uc_int_bounds 3 2 [2;1;3]%Z 3 = None /\
  old_uc_int_bounds 1 2 [3]%Z 3 = Some ([0;0;0]%Z, [6;6;6]%Z).
Proof. repeat split. Qed.

(** * the decision space of the protocols over a cross map (OptimalHaploidValue* / UsefulnessCriterion* Selection, all four
    encodings, unique and repeatable parents) is the WHOLE map.  The programs are assembled from the expressions regenerated
    from the eight problem() methods (which map is built, arange / repeat arguments, ndecn). *)
Theorem C07_kernel_xmap_space_is_model : forall n k nc nm npg u, (0 < k)%nat ->
  kspace_ohv_mate n k nc nm npg u = xmap_subset_space n k nc u /\
  kspace_uc_mate n k nc nm npg u = xmap_subset_space n k nc u /\
  kspace_ohv_imate n k nc nm npg u = xmap_vector_space 0%Z (ohv_int_upper nm npg) n k u /\
  kspace_uc_imate n k nc nm npg u = xmap_vector_space 0%Z (uc_int_upper k nm) n k u /\
  kspace_ohv_bmate n k nc nm npg u = xmap_vector_space 0%Z 1%Z n k u /\
  kspace_uc_bmate n k nc nm npg u = xmap_vector_space 0%Z 1%Z n k u /\
  kspace_ohv_rmate n k nc nm npg u = xmap_vector_space (0 # 1)%Q (1 # 1)%Q n k u /\
  kspace_uc_rmate n k nc nm npg u = xmap_vector_space (0 # 1)%Q (1 # 1)%Q n k u.
Proof.
  intros n k nc nm npg u Hk.
  exact (conj (kspace_ohv_mate_model n k nc nm npg u Hk) (conj (kspace_uc_mate_model n k nc nm npg u Hk)
        (conj (kspace_ohv_imate_model n k nc nm npg u Hk) (conj (kspace_uc_imate_model n k nc nm npg u Hk)
        (conj (kspace_ohv_bmate_model n k nc nm npg u Hk) (conj (kspace_uc_bmate_model n k nc nm npg u Hk)
        (conj (kspace_ohv_rmate_model n k nc nm npg u Hk) (kspace_uc_rmate_model n k nc nm npg u Hk)))))))).
Qed.
Print Assumptions C07_kernel_xmap_space_is_model.

(** subset encoding: the admissible members are exactly the row numbers of the map, every position may take every row (bounds
    0 and len-1), there are ncross positions; every row of the enumeration is reachable by a member of the space *)
Theorem C07_xmap_subset_space_whole_map : forall n k nc u, (0 < k)%nat ->
  exists L, xmapix n k u = Some L /\
    xmap_subset_space n k nc u = Some (map Z.of_nat (seq 0 (length L)), repeat 0%Z nc, repeat (Z.of_nat (length L) - 1)%Z nc, Z.of_nat nc) /\
    (forall d, In d (map Z.of_nat (seq 0 (length L))) <-> (0 <= d < Z.of_nat (length L))%Z) /\
    (forall t, In t L -> exists i, (i < length L)%nat /\ nth i L [] = t /\ In (Z.of_nat i) (map Z.of_nat (seq 0 (length L))) /\
                                   (0 <= Z.of_nat i <= Z.of_nat (length L) - 1)%Z).
Proof. exact xmap_subset_space_whole_map. Qed.
Print Assumptions C07_xmap_subset_space_whole_map.

(** vector encodings: one bounded decision variable per row of the map *)
Theorem C07_xmap_vector_space_whole_map : forall (V : Type) (lo up : V) n k u, (0 < k)%nat ->
  exists L, xmapix n k u = Some L /\
    xmap_vector_space lo up n k u = Some (repeat lo (length L), repeat up (length L), Z.of_nat (length L)) /\
    length (repeat lo (length L)) = length L /\ length (repeat up (length L)) = length L /\
    (forall t, In t L -> exists i, (i < length L)%nat /\ nth i L [] = t /\ nth i (repeat lo (length L)) up = lo /\ nth i (repeat up (length L)) lo = up).
Proof. exact xmap_vector_space_whole_map. Qed.
Print Assumptions C07_xmap_vector_space_whole_map.

(** the rows of the map; their number is comb(n, k) only when parents are unique *)
Theorem C07_xmap_space_rows : forall n k u L, (0 < k)%nat -> xmapix n k u = Some L ->
  (forall t, In t L <-> (length t = k /\ StronglySorted (if u then lt else le) t /\ Forall (fun i => (i < n)%nat) t)) /\
  (u = true -> length L = binomial n k).
Proof. exact xmap_space_rows. Qed.
Print Assumptions C07_xmap_space_rows.

(** regression witness: a subset space sized by comb(ntaxa, nparent) whatever unique_parents is misses the tail of the map *)
Theorem C07_comb_sized_space_misses_tail : exists L,
  xmapix 4 2 false = Some L /\ length L = 10%nat /\ length (comb_subset_space 4 2) = 6%nat /\
  nth 9 L [] = [3; 3]%nat /\ nth 6 L [] = [1; 3]%nat /\
  (forall d, In d (comb_subset_space 4 2) -> (d < 6)%Z) /\ ~ In 9%Z (comb_subset_space 4 2) /\
  xmap_subset_space 4 2 1 false = Some ([0;1;2;3;4;5;6;7;8;9]%Z, [0]%Z, [9]%Z, 1%Z) /\
  xmap_subset_space 4 2 1 true = Some (comb_subset_space 4 2, [0]%Z, [5]%Z, 1%Z).
Proof. exact comb_subset_space_misses_tail. Qed.
Print Assumptions C07_comb_sized_space_misses_tail.

Example C07_xmap_space_hyps_satisfiable :
  (0 < 2)%nat /\ xmapix 3 2 false = Some [[0;0];[0;1];[0;2];[1;1];[1;2];[2;2]]%nat /\
  kspace_ohv_mate 3 2 2 [1;1]%Z [1;1]%Z false = Some ([0;1;2;3;4;5]%Z, [0;0]%Z, [5;5]%Z, 2%Z) /\
  kspace_uc_mate 3 2 2 [1;1]%Z [1;1]%Z true = Some ([0;1;2]%Z, [0;0]%Z, [2;2]%Z, 2%Z) /\
  kspace_ohv_imate 3 2 2 [2;1]%Z [3;1]%Z false = Some (repeat 0%Z 6, repeat 7%Z 6, 6%Z) /\
  kspace_uc_imate 3 2 2 [2;1]%Z [3;1]%Z true = Some ([0;0;0]%Z, [6;6;6]%Z, 3%Z) /\
  kspace_uc_bmate 3 2 2 [2;1]%Z [3;1]%Z false = Some (repeat 0%Z 6, repeat 1%Z 6, 6%Z) /\
  kspace_ohv_rmate 3 2 2 [2;1]%Z [3;1]%Z true = Some (repeat (0 # 1)%Q 3, repeat (1 # 1)%Q 3, 3%Z).
Proof. split; [repeat constructor|]. repeat split; vm_compute; reflexivity. Qed.

Example C07_hyps_satisfiable :
  (* three selfed crosses, three descent passes, then a shuffle within every cross *)
  let x := [1; 1; 2; 2; 3; 3]%Z in
  let pms := [seq 0 15; seq 0 15; seq 0 15; [1; 0]; [0; 1]; [1; 0]]%nat in
  length x = (3 * 2)%nat /\ draws_ok 2 x pms /\ xc_tail 3 2 x pms = Some [1; 3; 1; 2; 3; 2]%Z /\
  sort_select [3; -1; 4; 1; 5; -9; 2; 6]%Z 3 = Some [5; 1; 3]%nat /\ NoDup [3; -1; 4; 1; 5; -9; 2; 6]%Z /\
  Permutation [7; 6; 5; 4; 3; 2; 1; 0]%nat (seq 0 8) /\ triudix 4 2 = Some [[0;1];[0;2];[0;3];[1;2];[1;3];[2;3]]%nat.
Proof.
  cbv zeta. split; [reflexivity|]. split.
  - intros y n H. vm_compute in H. injection H as <- <-. cbn [firstn skipn length all_pairs].
    split; repeat constructor; apply is_perm_sound; reflexivity.
  - split; [vm_compute; reflexivity|]. split; [vm_compute; reflexivity|].
    split; [| split; [apply is_perm_sound; reflexivity | reflexivity]].
    repeat constructor; cbn; intuition discriminate.
Qed.
