(** C08 — Seeded runs are reproducible and explicit generators are isolated.
    Property theorems only: statement, [exact] of a lemma proved in Proofs/C08_World.v, [Print Assumptions].
    Model: Model/C08_World.v over the regenerated table Gen/C08_Entropy.v (reference graph + entropy sources of every
    function of the package, produced by harness/translate/c08_entropy.py on every run). *)
From Coq Require Import List ZArith QArith NArith PArith Bool FMapPositive.
From Coq Require String.
From PV Require Import Lib.Common Gen.C08_Entropy Model.C08_World Proofs.C08_World Gen.C08_Kernel Model.C08_SeedK Proofs.C08_Kernel
  Model.C08_Objects Proofs.C08_Copy.
Import ListNotations String.StringSyntax W.
Delimit Scope string_scope with string.

(** ** world model *)

(** Re-seeding with the same seed and repeating the same program yields identical outputs, and identical final
    states of every stream the program knows, whatever the world was before seeding — for all seeds, all programs of
    calls that respect their footprints and never touch OS entropy, all prior worlds; [py_of_seed]/[np_of_seed]
    are arbitrary (the concrete MT19937 functions are an instance, below). *)
Theorem C08_seeded_reproducible : forall (G O : Type) (py_of_seed np_of_seed : Z -> G) (out_unit : O)
    (p : list (call G O)) (s : Z) (w1 w2 : world G),
  Forall respects p -> scoped [LPy; LNp] p ->
  fst (run_prog (seed_call py_of_seed np_of_seed out_unit s :: p) w1) = fst (run_prog (seed_call py_of_seed np_of_seed out_unit s :: p) w2) /\
  agree (known_after [LPy; LNp] p) (snd (run_prog (seed_call py_of_seed np_of_seed out_unit s :: p) w1))
                                   (snd (run_prog (seed_call py_of_seed np_of_seed out_unit s :: p) w2)).
Proof. exact WP.seeded_reproducible. Qed.
Print Assumptions C08_seeded_reproducible.

(** A call whose footprint is the supplied generator leaves Python's and numpy's global streams exactly as they were,
    and its output and the generator's final state depend on that generator's state only. *)
Theorem C08_explicit_isolated : forall (G O : Type) (c : call G O) (i : nat), respects c ->
  incl (reads c) [LEx i] -> incl (writes c) [LEx i] ->
  forall w, snd (run c w) LPy = w LPy /\ snd (run c w) LNp = w LNp /\
    forall w', w' (LEx i) = w (LEx i) -> fst (run c w') = fst (run c w) /\ snd (run c w') (LEx i) = snd (run c w) (LEx i).
Proof. exact WP.explicit_isolated. Qed.
Print Assumptions C08_explicit_isolated.

(** The concrete interface: prng.seed as modelled bit-exactly (MT19937), prng.spawn drawing the stream seed from the
    Python stream, a component handed the spawned generator, a component on the global stream: reproducible. *)
Theorem C08_seed_spawn_instance : forall (f g : option MT.st -> option Z * option MT.st) (s : Z) (w1 w2 : world (option MT.st)),
  let p := [WP.spawn_call 64 0; WP.explicit_call 0 f; WP.global_call g] in
  fst (run_prog (seed_call WP.mt_py WP.mt_np None s :: p) w1) = fst (run_prog (seed_call WP.mt_py WP.mt_np None s :: p) w2).
Proof.
  intros f g s w1 w2 p. destruct (WP.example_program f g) as [HF Hs].
  exact (proj1 (WP.seeded_reproducible _ _ WP.mt_py WP.mt_np None p s w1 w2 HF Hs)).
Qed.
Print Assumptions C08_seed_spawn_instance.

(** Without the OS-freeness hypothesis reproducibility fails: a call that reads OS entropy (as pymoo's
    default_rng(None) does) answers differently after the same seed. *)
Theorem C08_os_entropy_refuted : exists (c : call Z Z) (w1 w2 : world Z) (s : Z), respects c /\
  fst (run_prog (seed_call (fun s => s) (fun s => s) 0%Z s :: [c]) w1) <>
  fst (run_prog (seed_call (fun s => s) (fun s => s) 0%Z s :: [c]) w2).
Proof. exact WP.os_entropy_not_reproducible. Qed.
Print Assumptions C08_os_entropy_refuted.

(** ** obligations over the regenerated table (all listed functions of the current source tree) *)

(** The table is well formed and every hand-written name (root causes, anchored components) exists in the source. *)
Theorem C08_table_names_resolve :
  PositiveMap.cardinal FP.tbl = length nodes /\ N.of_nat (length nodes) = node_count /\
  FP.ids_of FP.root_names = Some FP.root_ids /\ True /\
  FP.ids_of FP.must_be_explicit = Some FP.must_ids /\ FP.ids_of FP.global_by_design = Some FP.global_ids.
Proof. split; [exact (proj1 FPP.table_wellformed)|]. split; [exact (proj2 FPP.table_wellformed)|]. exact FPP.roots_resolved. Qed.
Print Assumptions C08_table_names_resolve.

(** Every anchored stochastic component (7 mating protocols and the meiosis helpers, G_E_Phenotyping, the sampling
    functions, the 8 selection-configuration classes, the hill climbers, all pymoo optimisers built from pymoo's own or from
    the subset operators or the memetic mutation operators, the legacy set GA, and — since their repair — the 8 selection protocols'
    select() and default-optimiser setters, the random-selection problem constructors, Generalized1NormGenomicSelection.select, the
    memetic mutation operators themselves, the rng setters of the selection protocols) does use a generator, and
    every function it can reach references only: its rng parameter (or the random_state pymoo hands over), an owned generator,
    or global_prng as the default for a missing one.
    (For the optimisers and select(), which call back into arbitrary problem / optimiser objects, the named root causes are excepted.) *)
Theorem C08_anchored_components_explicit : forall nm p, In nm FP.must_be_explicit -> FP.id_of nm = Some p ->
  FP.fget FP.fp_excl p <> 0%N /\
  forall k, FP.reach FP.tbl p k -> (In nm FPP.via_callback /\ In k FP.root_ids) \/ FP.sub (FP.direct FP.tbl k) FP.EXPLICIT_OK = true.
Proof. exact FPP.anchored_explicit. Qed.
Print Assumptions C08_anchored_components_explicit.

(** ... hence any semantics that respects the computed footprint of an anchored component handed generator i is isolated. *)
Theorem C08_anchored_components_isolated : forall nm p, In nm FP.must_be_explicit -> FP.id_of nm = Some p ->
  FP.pmem p FPP.via_callback_ids = false ->
  forall (G O : Type) (i : nat) (c : call G O), respects c ->
    incl (reads c) (locs_of (Some i) (FP.fget FP.fp_full p)) -> incl (writes c) (locs_of (Some i) (FP.fget FP.fp_full p)) ->
    isolated c i.
Proof. exact WP.anchored_isolated. Qed.
Print Assumptions C08_anchored_components_isolated.

(** The repaired findings (C08-ga-ignores-rng, C08-selcfg-global-rng, C08-helpers-global-rng, C08-g1norm-global-shuffle,
    C08-setga-python-random, C08-memetic-ignores-rng, the rng setters of C08-selprot-rng-setter-stale-optimiser) at full strength: every formerly failing site (the former root causes) now references explicit
    sources only in its own body — no rng = None passed on, no numpy.random / random —, does reference a generator, is NOT on
    the exception list, and reaches nothing but explicit sources up to the root causes that remain. *)
Theorem C08_repaired_sites_explicit : forall nm p, In nm FP.repaired -> FP.id_of nm = Some p ->
  FP.sub (FP.direct FP.tbl p) FP.EXPLICIT_OK = true /\ FP.direct FP.tbl p <> 0%N /\ ~ In p FP.root_ids /\
  forall k, FP.reach FP.tbl p k -> In k FP.root_ids \/ FP.sub (FP.direct FP.tbl k) FP.EXPLICIT_OK = true.
Proof. exact FPP.repaired_sites_explicit. Qed.
Print Assumptions C08_repaired_sites_explicit.

(** Regression witnesses about the FORMER code ([old_*] definitions of the model): the masks the repaired sites had (rng = None
    passed on; numpy.random; python's random) are not explicit-only and let a global stream be touched under an explicit
    generator; and a call with the former behaviour (own generator AND numpy's global stream) is not isolated. *)
Theorem C08_old_masks_refuted :
  FP.sub FP.old_selcfg_mask FP.EXPLICIT_OK = false /\ FP.may_touch_np true FP.old_selcfg_mask = true /\
  FP.sub FP.old_global_draw_mask FP.EXPLICIT_OK = false /\ FP.may_touch_np true FP.old_global_draw_mask = true /\
  FP.sub FP.old_setga_mask FP.EXPLICIT_OK = false /\ FP.may_touch_py FP.old_setga_mask = true.
Proof. exact FPP.old_masks_refuted. Qed.
Print Assumptions C08_old_masks_refuted.

Theorem C08_old_global_draw_refuted : exists (c : call Z Z) (i : nat), respects c /\ ~ isolated c i.
Proof. exact WP.old_global_draw_not_isolated. Qed.
Print Assumptions C08_old_global_draw_refuted.

(** No function of the package reaches OS entropy — full strength, no exception (every pymoo minimize() call site passes a
    seed derived from the optimiser's generator; the translator reports OS at any call site that does not). *)
Theorem C08_no_component_reaches_os_entropy : forall n k, FP.reach FP.tbl n k -> FP.has FP.OS (FP.direct FP.tbl k) = false.
Proof. exact FPP.no_os_entropy. Qed.
Print Assumptions C08_no_component_reaches_os_entropy.

(** Every function that accepts rng, and every member of a class that owns a generator, reaches only explicit sources —
    except through the named root causes of the findings that REMAIN known (helpers without an rng
    parameter: apply_jitter, EMBV from_gmod, the look-ahead latentfn; deap's selTournamentDCD; prng.seed/spawn by design).
    A new hidden source anywhere else breaks this theorem. *)
Theorem C08_rng_components_explicit_partial : forall c k, In c rng_components -> FP.reach FP.tbl c k ->
  In k FP.root_ids \/ FP.sub (FP.direct FP.tbl k) FP.EXPLICIT_OK = true.
Proof. exact FPP.rng_components_explicit. Qed.
Print Assumptions C08_rng_components_explicit_partial.

(** Members invoked implicitly (operators, copy protocol ...), which the reference graph does not link, are explicit-only too. *)
Theorem C08_implicit_members_explicit : forall d k, In d dunder_nodes -> FP.reach FP.tbl d k ->
  In k FP.root_ids \/ FP.sub (FP.direct FP.tbl k) FP.EXPLICIT_OK = true.
Proof. exact FPP.dunder_explicit. Qed.
Print Assumptions C08_implicit_members_explicit.

(** Components that use the global streams by design (apply_jitter, EMBV from_gmod, seed, spawn) never reach OS entropy. *)
Theorem C08_global_components_os_free : forall nm p, In nm FP.global_by_design -> FP.id_of nm = Some p ->
  forall k, FP.reach FP.tbl p k -> FP.has FP.OS (FP.direct FP.tbl k) = false.
Proof. exact FPP.global_by_design_os_free. Qed.
Print Assumptions C08_global_components_os_free.

(** The exceptions are real (no stale entry): each named root cause carries a forbidden source in its own body;
    *)
Theorem C08_root_causes_real : forall k, In k FP.root_ids -> FP.sub (FP.direct FP.tbl k) FP.EXPLICIT_OK = false.
Proof. exact FPP.roots_carry_forbidden_source. Qed.
Print Assumptions C08_root_causes_real.

(** documentation of the repaired finding C08-ga-os-entropy: the mask an unseeded minimize() method had (SELF + OS) *)
Theorem C08_unseeded_minimize_refuted : exists m, FP.has FP.OS m = true /\ FP.sub m FP.EXPLICIT_OK = false /\ m = N.lor FP.SELF FP.OS.
Proof. exact FPP.unseeded_minimize_mask_refuted. Qed.
Print Assumptions C08_unseeded_minimize_refuted.

(** Programs made of anchored / global-by-design components run with rng = None — any semantics that stays inside the
    footprints computed from the source — are reproducible after seeding (table obligation + world theorem combined). *)
Theorem C08_library_programs_reproducible : forall (G O : Type) (py_of_seed np_of_seed : Z -> G) (out_unit : O)
    (p : list (call G O)) (s : Z) (w1 w2 : world G),
  Forall respects p -> Forall WP.library_default_call p ->
  fst (run_prog (seed_call py_of_seed np_of_seed out_unit s :: p) w1) = fst (run_prog (seed_call py_of_seed np_of_seed out_unit s :: p) w2).
Proof. exact WP.library_programs_reproducible. Qed.
Print Assumptions C08_library_programs_reproducible.

(** spawn(n, sbits) hands out exactly n stream seeds, each in [0, 2^sbits - 1] (model of the python-stream draws) *)
Theorem C08_spawn_seeds_in_range : forall n sbits py l py', MT.spawn_ints n sbits py = Some (l, py') ->
  length l = n /\ Forall (fun x => (x <= 2 ^ sbits - 1)%Z) l.
Proof. exact WP.spawn_ints_spec. Qed.
Print Assumptions C08_spawn_seeds_in_range.

(** ** kernel expressions of the CURRENT source (Gen/C08_Kernel.v is regenerated from pybrops/core/random/prng.py and the pymoo
    optimisers on every run) *)

(** The seeding interface assembled from the generated expressions ([MK], the one the correspondence shards evaluate against the
    implementation) IS the hand-written bit-exact model: the argument handed to random.seed, the bounds of the draw that seeds
    numpy's stream, the bounds / count / guard / default of spawn. *)
Theorem C08_kernel_is_model :
  (forall s, MK.prng_seed s = MT.prng_seed s) /\
  (forall n sbits py, MK.spawn_many n sbits py = MT.spawn_ints n sbits py) /\
  (forall sbits py, MK.spawn_one sbits py = MT.spawn_ints 1 sbits py) /\
  (forall s, k_seed_py_arg s = s) /\ (k_seed_np_lo = 0 /\ k_seed_np_hi = 2 ^ 32 - 1)%Z /\
  (forall sbits, k_spawn_one_lo sbits = 0 /\ k_spawn_one_hi sbits = 2 ^ sbits - 1 /\ k_spawn_many_lo sbits = 0 /\ k_spawn_many_hi sbits = 2 ^ sbits - 1)%Z /\
  (forall n, k_spawn_many_count n = n) /\ (forall n, k_spawn_reject n = (n <? 0)%Z) /\ k_spawn_default_sbits = 64%Z /\
  (forall s (reqs : list (option nat)) sbits pk pp nk np ents pk2 pp2,
     MK.seed_scenario_agree s (map (option_map Z.of_nat) reqs) (Some sbits) pk pp nk np ents pk2 pp2 =
     MT.seed_scenario_agree s (map (fun r => match r with None => 1%nat | Some n => n end) reqs) sbits pk pp nk np ents pk2 pp2).
Proof.
  split; [exact k_prng_seed_model|]. split; [intros n sbits py; apply k_spawn_many_model|]. split; [exact k_spawn_one_model|].
  split; [exact k_seed_py_arg_model|]. split; [exact k_seed_np_bounds_model|]. split; [exact k_spawn_bounds_model|].
  split; [exact k_spawn_count_model|]. split; [exact k_spawn_reject_model|]. split; [exact k_spawn_default_sbits_model|].
  exact k_scenario_model.
Qed.
Print Assumptions C08_kernel_is_model.

(** seed() as generated: the integer handed to numpy.random.seed is the draw of the python stream seeded with s and never exceeds
    2^32-1, the largest seed numpy's legacy seeding accepts (an upper bound 2**32 would raise once in 2^32 seeds). *)
Theorem C08_kernel_seed_numpy_range : forall s py np x py1, MK.prng_seed s = Some (py, np) ->
  MT.randint k_seed_np_lo k_seed_np_hi (MT.py_seed (k_seed_py_arg s)) = Some (x, py1) ->
  (x <= 4294967295)%Z /\ np = MT.np_seed x /\ py = py1.
Proof. exact kernel_seed_numpy_range. Qed.
Print Assumptions C08_kernel_seed_numpy_range.

(** spawn() as generated: an answered request is the single stream or a non-negative count, yields exactly that many stream seeds,
    each at most 2^sbits - 1. *)
Theorem C08_kernel_spawn_request_spec : forall r sbits py l py', MK.spawn_req r sbits py = Some (l, py') ->
  match r with None => length l = 1%nat | Some n => (0 <= n)%Z /\ length l = Z.to_nat n end /\ Forall (fun x => (x <= 2 ^ sbits - 1)%Z) l.
Proof. exact kernel_spawn_req_spec. Qed.
Print Assumptions C08_kernel_spawn_request_spec.

(** the guard of spawn() rejects exactly the negative counts; spawn(0) answers the empty list and leaves the python stream alone *)
Theorem C08_kernel_spawn_guard : forall n,
  (k_spawn_reject n = true <-> (n < 0)%Z) /\ (forall sbits py, MK.spawn_req (Some 0%Z) sbits py = Some ([], py)).
Proof. exact kernel_spawn_guard. Qed.
Print Assumptions C08_kernel_spawn_guard.

(** the seed every pymoo-based optimiser hands to minimize() (13 call sites, one expression): for every draw u of
    self.rng.uniform(lo, hi) it is an unsigned 32-bit integer — a function of the optimiser's generator, never None (OS entropy) *)
Theorem C08_kernel_minimize_seed_range : forall u : Q, Qle k_minimize_u_lo u -> Qlt u k_minimize_u_hi ->
  (0 <= k_minimize_seed u <= 2 ^ 32 - 1)%Z.
Proof. exact kernel_minimize_seed_range. Qed.
Print Assumptions C08_kernel_minimize_seed_range.
Example C08_kernel_minimize_hyps_satisfiable :
  Qle k_minimize_u_lo (1 # 2) /\ Qlt (1 # 2) k_minimize_u_hi /\ k_minimize_seed (1 # 2) = 2147483648%Z /\
  k_minimize_seed 0 = 0%Z /\ k_minimize_seed (4294967295 # 4294967296) = (2 ^ 32 - 1)%Z.
Proof. repeat split; try (vm_compute; congruence); exact (proj2 kernel_minimize_seed_ends). Qed.

(** ** copies of stochastic components (objects holding a generator; copy / deepcopy / .copy() / .deepcopy() share it — for EVERY
    stochastic class since the repair of C08-default-deepcopy-snapshots-rng) *)

(** Using a copy is using its source: same output, same world afterwards — the generator the source holds is consumed (for
    rng = None the global numpy stream, for an explicit generator that generator), no generator is allocated. *)
Theorem C08_copy_is_source : forall (G O : Type) (out_unit : O) (e : OB.env) (d s : nat) (f : G -> O * G) (w : world G),
  fst (OB.run_obj out_unit [OB.SCopy d s; OB.SUse d f] e w) = out_unit :: fst (OB.run_obj out_unit [OB.SUse s f] e w) /\
  snd (OB.run_obj out_unit [OB.SCopy d s; OB.SUse d f] e w) = snd (OB.run_obj out_unit [OB.SUse s f] e w).
Proof. exact OBP.copy_is_source. Qed.
Print Assumptions C08_copy_is_source.

(** Seeded reproducibility survives copies: for all bindings of objects to generators at the time of seeding, all well-formed
    programs of calls, constructions, copies and uses after seed(s), all prior worlds. *)
Theorem C08_seeded_reproducible_with_copies : forall (G O : Type) (out_unit : O) (py_of_seed np_of_seed : Z -> G)
    (p : list (OB.step G O)) (e : OB.env) (s : Z) (w1 w2 : world G),
  OB.wf [LPy; LNp] e p ->
  fst (OB.run_obj out_unit (OB.SCall (seed_call py_of_seed np_of_seed out_unit s) :: p) e w1) =
  fst (OB.run_obj out_unit (OB.SCall (seed_call py_of_seed np_of_seed out_unit s) :: p) e w2).
Proof. exact OBP.obj_seeded_reproducible. Qed.
Print Assumptions C08_seeded_reproducible_with_copies.

(** The experiment of the harness: two different prior histories (arbitrary calls, uses, constructions with rng = None, copies,
    copies of copies), then seed(s), then a program that may use the objects and copies the histories left behind. *)
Theorem C08_copies_in_history_reproducible : forall (G O : Type) (out_unit : O) (py_of_seed np_of_seed : Z -> G)
    (h1 h2 p : list (OB.step G O)) (e1 e2 : OB.env) (s : Z) (w1 w2 : world G),
  OB.all_np e1 -> OB.all_np e2 -> Forall OB.clean h1 -> Forall OB.clean h2 -> OB.wf [LPy; LNp] (OB.env_after e1 h1) p ->
  fst (OB.run_obj out_unit (OB.SCall (seed_call py_of_seed np_of_seed out_unit s) :: p) (OB.env_after e1 h1) (snd (OB.run_obj out_unit h1 e1 w1))) =
  fst (OB.run_obj out_unit (OB.SCall (seed_call py_of_seed np_of_seed out_unit s) :: p) (OB.env_after e2 h2) (snd (OB.run_obj out_unit h2 e2 w2))).
Proof. exact OBP.obj_history_reproducible. Qed.
Print Assumptions C08_copies_in_history_reproducible.

(** Isolation survives copies: a program of constructions with generator i, copies and uses leaves both global streams untouched;
    outputs and the final state of generator i are functions of its initial state. *)
Theorem C08_explicit_isolated_with_copies : forall (G O : Type) (out_unit : O) (i : nat) (p : list (OB.step G O)) (e : OB.env),
  OB.only i e p ->
  forall w, snd (OB.run_obj out_unit p e w) LPy = w LPy /\ snd (OB.run_obj out_unit p e w) LNp = w LNp /\
    forall w', w' (LEx i) = w (LEx i) ->
      fst (OB.run_obj out_unit p e w') = fst (OB.run_obj out_unit p e w) /\
      snd (OB.run_obj out_unit p e w') (LEx i) = snd (OB.run_obj out_unit p e w) (LEx i).
Proof. exact OBP.obj_explicit_isolated. Qed.
Print Assumptions C08_explicit_isolated_with_copies.

(** Regression witness about the FORMER code ([OB.old_default_deepcopy_step]: python's default deep copy of a stochastic component, which
    duplicated the generator — C08-default-deepcopy-snapshots-rng, repaired; also what the seeded regression C08-pheno-deepcopy-rng,
    copy.deepcopy(self.rng), does): a copy that snapshots the generator breaks both clauses: made before the seeding, its output after
    seed(s) depends on the world at copy time; with an explicit generator it leaves that generator unconsumed — whereas the current
    deep copy ([OB.deepcopy_step]) consumes it exactly as the source does. *)
Theorem C08_old_snapshot_deepcopy_refuted :
  (exists (h p : list (OB.step Z Z)) (e : OB.env) (s : Z) (w1 w2 : world Z),
     OB.all_np e /\ Forall (fun st => exists d s j, st = OB.old_default_deepcopy_step d s j) h /\
     fst (OB.run_obj 0%Z (OB.SCall (OBP.zseed s) :: p) (OB.env_after e h) (snd (OB.run_obj 0%Z h e w1))) <>
     fst (OB.run_obj 0%Z (OB.SCall (OBP.zseed s) :: p) (OB.env_after e h) (snd (OB.run_obj 0%Z h e w2)))) /\
  (exists (e : OB.env) (w : world Z), e 0%nat = LEx 0 /\
     snd (OB.run_obj 0%Z [OB.old_default_deepcopy_step 1 0 7; OB.SUse 1 OBP.zuse] e w) (LEx 0) = w (LEx 0) /\
     snd (OB.run_obj 0%Z [OB.SUse 0 OBP.zuse] e w) (LEx 0) <> w (LEx 0) /\
     snd (OB.run_obj 0%Z [OB.deepcopy_step 1 0; OB.SUse 1 OBP.zuse] e w) (LEx 0) = snd (OB.run_obj 0%Z [OB.SUse 0 OBP.zuse] e w) (LEx 0)).
Proof. split; [exact OBP.snapshot_copy_not_reproducible | exact OBP.snapshot_copy_does_not_consume]. Qed.
Print Assumptions C08_old_snapshot_deepcopy_refuted.

(** The deep copy of the CURRENT code (the __deepcopy__ every stochastic class inherits shares the generator) behaves as its source: same
    output, same world afterwards — full strength, all bindings, all semantics of the stochastic method, all worlds. *)
Theorem C08_deepcopy_is_source : forall (G O : Type) (out_unit : O) (e : OB.env) (d s : nat) (f : G -> O * G) (w : world G),
  fst (OB.run_obj out_unit [OB.deepcopy_step d s; OB.SUse d f] e w) = out_unit :: fst (OB.run_obj out_unit [OB.SUse s f] e w) /\
  snd (OB.run_obj out_unit [OB.deepcopy_step d s; OB.SUse d f] e w) = snd (OB.run_obj out_unit [OB.SUse s f] e w).
Proof. exact OBP.deepcopy_is_source. Qed.
Print Assumptions C08_deepcopy_is_source.

(** The deep-copy routes of the source (the six base-class __deepcopy__ methods every class accepting rng inherits — audited by
    introspection on every run — and G_E_Phenotyping's) exist in the regenerated table, take no snapshot of a generator, and reach
    explicit sources only (up to the root causes that remain known). *)
Theorem C08_deepcopy_routes_share :
  (forall nm, In nm FP.deepcopy_routes -> exists p, FP.id_of nm = Some p) /\
  forall nm p, In nm FP.deepcopy_routes -> FP.id_of nm = Some p ->
    FP.has FPC.COPIES (FP.direct FP.tbl p) = false /\
    forall k, FP.reach FP.tbl p k -> In k FP.root_ids \/ FP.sub (FP.direct FP.tbl k) FP.EXPLICIT_OK = true.
Proof. exact FPCP.deepcopy_routes_share. Qed.
Print Assumptions C08_deepcopy_routes_share.

(** The rng property setter of a protocol that built default optimisers (C08-selprot-rng-setter-stale-optimiser and the legacy protocols,
    repaired) at full strength: after [prot.rng = generator i] — whatever generators the protocol and its default optimiser held before,
    for every sequence of stochastic calls on the protocol and on that optimiser — both global streams are untouched and outputs and the
    final state of generator i are functions of its state. *)
Theorem C08_rng_setter_repoints_default_optimiser : forall (G O : Type) (out_unit : O) (i prot algo : nat) (e : OB.env)
    (us : list (nat * (G -> O * G))),
  (forall u, In u us -> fst u = prot \/ fst u = algo) ->
  let p := OB.rng_setter prot algo (LEx i) ++ OB.uses us in
  forall w, snd (OB.run_obj out_unit p e w) LPy = w LPy /\ snd (OB.run_obj out_unit p e w) LNp = w LNp /\
    forall w', w' (LEx i) = w (LEx i) ->
      fst (OB.run_obj out_unit p e w') = fst (OB.run_obj out_unit p e w) /\
      snd (OB.run_obj out_unit p e w') (LEx i) = snd (OB.run_obj out_unit p e w) (LEx i).
Proof. exact OBP.rng_setter_isolated. Qed.
Print Assumptions C08_rng_setter_repoints_default_optimiser.
Example C08_rng_setter_hyps_satisfiable : forall u, In u [(0%nat, OBP.zuse); (1%nat, OBP.zuse); (0%nat, OBP.zuse)] -> fst u = 0%nat \/ fst u = 1%nat.
Proof. exact OBP.rng_setter_hyps_satisfiable. Qed.

(** Regression witness about the FORMER setter ([OB.old_rng_setter] re-pointed the protocol only): the default optimiser built by the
    constructor kept the constructor's generator, so with rng = None at construction and a generator supplied through the setter the
    global numpy stream was still advanced; the current setter ([OB.rng_setter]) leaves both global streams untouched on the same program. *)
Theorem C08_old_setter_stale_optimiser_refuted : exists (e : OB.env) (w : world Z),
  snd (OB.run_obj 0%Z OBP.old_setter_stale_prog e w) LNp <> w LNp /\
  snd (OB.run_obj 0%Z OBP.setter_prog e w) LNp = w LNp /\ snd (OB.run_obj 0%Z OBP.setter_prog e w) LPy = w LPy.
Proof. exact OBP.old_setter_stale_part_not_isolated. Qed.
Print Assumptions C08_old_setter_stale_optimiser_refuted.

(** No function of the current source snapshots a generator (copy.copy / copy.deepcopy / pickle applied to rng, random_state,
    <obj>.rng, <obj>._rng, global_prng; get_state / __getstate__ / __reduce__ / bit_generator.state read from one): every node of the
    regenerated table, no exception; and the mask the regression had is not explicit-only. *)
Theorem C08_no_generator_snapshot :
  (forall k, FP.has FPC.COPIES (FP.direct FP.tbl k) = false) /\
  FP.sub (N.lor FP.SELF FPC.COPIES) FP.EXPLICIT_OK = false /\ FP.has FPC.COPIES (N.lor FP.SELF FPC.COPIES) = true.
Proof. split; [exact FPCP.no_generator_snapshot | exact FPCP.snapshot_mask_refuted]. Qed.
Print Assumptions C08_no_generator_snapshot.

Example C08_copy_hyps_satisfiable :
  OB.only 0 (fun _ => LNp) ([OB.SNew 0 (LEx 0); OB.SCopy 1 0; OB.SCopy 2 1; OB.SUse 1 OBP.zuse; OB.SUse 2 OBP.zuse; OB.SUse 0 OBP.zuse] : list (OB.step Z Z)) /\
  (forall (s : Z) (w1 w2 : world Z),
    let e := (fun _ => LNp) : OB.env in let h := [OB.deepcopy_step 1 0] : list (OB.step Z Z) in
    let p := [OB.SUse 1 OBP.zuse; OB.SCopy 2 1; OB.SUse 2 OBP.zuse; OB.SUse 0 OBP.zuse] in
    fst (OB.run_obj 0%Z (OB.SCall (OBP.zseed s) :: p) (OB.env_after e h) (snd (OB.run_obj 0%Z h e w1))) =
    fst (OB.run_obj 0%Z (OB.SCall (OBP.zseed s) :: p) (OB.env_after e h) (snd (OB.run_obj 0%Z h e w2)))).
Proof. split; [exact OBP.only_satisfiable | exact OBP.sharing_copy_reproducible]. Qed.

(** non-vacuity: a concrete well-scoped program whose calls respect their footprints (spawn a stream, use it, use the
    global stream); the table lists are non-empty *)
Example C08_hyps_satisfiable : forall (f g : option MT.st -> option Z * option MT.st),
  (let p := [WP.spawn_call 64 0; WP.explicit_call 0 f; WP.global_call g] in Forall respects p /\ scoped [LPy; LNp] p)
  /\ WP.library_default_call (WP.global_call g)
  /\ (100 <= length rng_functions)%nat /\ (100 <= length rng_components)%nat /\ (40 <= length FP.must_ids)%nat
  /\ (49 <= length FP.repaired_ids)%nat.
Proof.
  intros f g. split; [exact (WP.example_program f g) |]. split; [exact (WP.example_library_call g) |].
  destruct FPP.rng_functions_nonempty as (H1 & H2 & H3). repeat split; try assumption. exact FPP.repaired_nonempty.
Qed.
