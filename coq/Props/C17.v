(** C17 — property theorems only: statement, [exact] of a lemma proved in Proofs/C17_Sampling.v, [Print Assumptions].
    Model: Model/C17_Sampling.v (mirrors pybrops/core/random/sampling.py and core/util/array.py:sliceaxisix). *)
From Coq Require Import Permutation Sorting.Sorted Qround PrimFloat.
From PV Require Import Lib.Common Lib.FloatK Model.C17_Sampling Proofs.C17_Sampling Gen.C17_Kernel Model.C17_KernelProg Proofs.C17_Kernel Proofs.C17_Laws Proofs.C17_Float.

(** * stochastic universal sampling *)

(** Ideal (exact-rational) pointers: for every non-negative weight vector with positive sum, every descending layout of
    the elements (every tie-breaking of the sort), every k >= 0, every offset in [0, tot/k) and every shuffle
    permutation, the call returns exactly k draws, element i is drawn floor or ceiling of its expected count
    p_i*k/tot times, and an element of zero weight is never drawn. *)
Theorem C17_sus_count_floor_ceil_no_zero_weight :
  forall (p : list Q) (order : list nat) (k : nat) (off : Q) (perm : list nat),
  Forall (fun x => 0 <= x) p -> 0 < sumQ p -> Permutation order (seq 0 (length p)) ->
  nonincr (gather 0 p order) = true ->
  ((0 < k)%nat -> 0 <= off /\ off < sumQ p / inject_Z (Z.of_nat k)) -> Permutation perm (seq 0 k) ->
  exists sel, sus_q p order k off perm = Some sel /\ length sel = k /\
    forall i, (i < length p)%nat ->
      (Qfloor (nth i p 0 * inject_Z (Z.of_nat k) / sumQ p)%Q <= Z.of_nat (count_nat i sel)
       <= Qceiling (nth i p 0 * inject_Z (Z.of_nat k) / sumQ p)%Q)%Z
      /\ (nth i p 0 == 0 -> count_nat i sel = 0%nat).
Proof. exact sus_q_spec. Qed.
Print Assumptions C17_sus_count_floor_ceil_no_zero_weight.

(** Any pointers (this is the statement that also covers the binary64 pointers the code computes, [sus_f]): along
    non-decreasing cumulative weights, a non-decreasing pointer list selects position j exactly once per pointer lying
    in [c_(j-1), c_j) (first cell open to the left, last cell open to the right). *)
Theorem C17_sus_walk_cell_count : forall (cs ptrs : list Q) (j : nat),
  StronglySorted Qle cs -> StronglySorted Qle ptrs -> (j < length cs)%nat ->
  count_nat j (sus_walk cs 0 ptrs) = length (filter (in_cell cs j) ptrs).
Proof. exact walk_count. Qed.
Print Assumptions C17_sus_walk_cell_count.

(** binary64 model, full strength (since commit eabf766a): "never an element of zero weight" holds for the pointers and
    cumulative sums exactly as the code computes them in binary64, whatever the rounding, for every offset (no range
    assumption), every k and every shuffle: every selected element has positive weight *)
Theorem C17_sus_float_no_zero_weight : forall (p : list float) order k off perm sel,
  let pq := map f2q p in
  Forall (fun x => 0 <= x) pq -> 0 < sumQ pq -> Permutation order (seq 0 (length p)) ->
  nonincr (gather 0 pq order) = true -> Permutation perm (seq 0 k) ->
  sus_f p order k off perm = Some sel ->
  (forall i, In i sel -> (i < length p)%nat /\ 0 < nth i pq 0) /\
  (forall i, nth i pq 0 == 0 -> count_nat i sel = 0%nat).
Proof. exact sus_f_no_zero_weight. Qed.
Print Assumptions C17_sus_float_no_zero_weight.

(** binary64 model: exactly k draws for every output size k >= 0 (a non-empty weight vector is needed only for k > 0),
    whatever the rounding (the defect repaired in commit 2efef9f2 was a wrong number of pointers, the one repaired in
    commit f3dafbe4 an exception for k = 0) *)
Theorem C17_sus_float_count : forall (p : list float) order k off perm,
  ((0 < k)%nat -> p <> []) -> length perm = k -> length order = length p ->
  exists sel, sus_f p order k off perm = Some sel /\ length sel = k.
Proof. exact sus_f_count. Qed.
Print Assumptions C17_sus_float_count.

(** an output size of zero gives the empty selection, for all other arguments, in both models *)
Theorem C17_sus_size_zero_empty :
  (forall (p : list float) order off perm, sus_f p order 0 off perm = Some []) /\
  (forall (p : list Q) order off perm, sus_q p order 0 off perm = Some []).
Proof. split; [exact sus_f_size_zero | exact sus_q_size_zero]. Qed.
Print Assumptions C17_sus_size_zero_empty.

(** binary64 model, partial: when the cumulative sums are exact and every binary64 pointer falls into the same cell as the
    ideal pointer, the binary64 selection is the ideal selection (to which the first theorem applies) *)
Theorem C17_sus_float_partial : forall (p : list float) order k off perm,
  let pq := map f2q p in
  let cs := firstn (npos pq) (cumsum (gather 0 pq order)) in
  Forall2 Qeq (map f2q (fcumsum (gather 0%float p order))) (cumsum (gather 0 pq order)) ->
  0 <= sumQ pq / inject_Z (Z.of_nat k) ->
  StronglySorted Qle (map f2q (sus_ptrs_f (fsum p) k off)) ->
  Forall2 (fun a b => locate cs a = locate cs b) (map f2q (sus_ptrs_f (fsum p) k off)) (sus_ptrs_q (sumQ pq) k (f2q off)) ->
  sus_f p order k off perm = sus_q pq order k (f2q off) perm.
Proof. exact sus_f_partial. Qed.
Print Assumptions C17_sus_float_partial.

(** binary64 model, what IS guaranteed in place of floor/ceiling (which fails, see the next theorem): when the binary64
    cumulative sums and pointers are non-decreasing and stay within dc resp. dp of the exact ones, with 2(dp+dc) below the
    exact pointer distance tot/k, and the offset lies in [0, tot/k + dp + dc), every element is drawn at least floor - 1
    and at most ceiling + 1 of its expected count times (and exactly k draws are returned).  The bound is attained by the
    counterexample of the next theorem.  These numerical hypotheses are evaluated inside Coq for every generated case
    ([sus_near], dp = dc = tot/(8k); [C17_sus_near_sound]). *)
Theorem C17_sus_float_within_one : forall (p : list float) order k off perm (dp dc : Q),
  let pq := map f2q p in
  Forall (fun x => 0 <= x) pq -> 0 < sumQ pq -> Permutation order (seq 0 (length p)) ->
  nonincr (gather 0 pq order) = true -> (0 < k)%nat -> Permutation perm (seq 0 k) ->
  0 <= dp -> 0 <= dc -> 2 * (dp + dc) < sumQ pq / inject_Z (Z.of_nat k) ->
  0 <= f2q off -> f2q off < sumQ pq / inject_Z (Z.of_nat k) + (dp + dc) ->
  StronglySorted Qle (map f2q (fcumsum (gather 0%float p order))) ->
  StronglySorted Qle (map f2q (sus_ptrs_f (fsum p) k off)) ->
  Forall2 (fun a b => b - dc <= a /\ a <= b + dc) (map f2q (fcumsum (gather 0%float p order))) (cumsum (gather 0 pq order)) ->
  Forall2 (fun a b => b - dp <= a /\ a <= b + dp) (map f2q (sus_ptrs_f (fsum p) k off)) (sus_ptrs_q (sumQ pq) k (f2q off)) ->
  exists sel, sus_f p order k off perm = Some sel /\ length sel = k /\
    forall i, (i < length p)%nat ->
      (Qfloor (nth i pq 0 * inject_Z (Z.of_nat k) / sumQ pq)%Q - 1 <= Z.of_nat (count_nat i sel)
       <= Qceiling (nth i pq 0 * inject_Z (Z.of_nat k) / sumQ pq)%Q + 1)%Z.
Proof. exact sus_f_within_one. Qed.
Print Assumptions C17_sus_float_within_one.

(** the same for arbitrary perturbed pointers and boundaries (exact rationals), at the level of positions of the walk *)
Theorem C17_sus_walk_within_one : forall (w : list Q) (tot : Q) (k : nat) (off dp dc : Q) (cs' ptrs' : list Q) (j : nat),
  Forall (fun x => 0 <= x) w -> tot == sumQ w -> 0 < tot -> (0 < k)%nat ->
  0 <= dp -> 0 <= dc -> 2 * (dp + dc) < tot / inject_Z (Z.of_nat k) ->
  0 <= off -> off < tot / inject_Z (Z.of_nat k) + (dp + dc) -> (j < length w)%nat ->
  StronglySorted Qle cs' -> StronglySorted Qle ptrs' ->
  Forall2 (fun a b => b - dc <= a /\ a <= b + dc) cs' (cumsum w) ->
  Forall2 (fun a b => b - dp <= a /\ a <= b + dp) ptrs' (sus_ptrs_q tot k off) ->
  (Qfloor (nth j w 0 * inject_Z (Z.of_nat k) / tot)%Q - 1
   <= Z.of_nat (count_nat j (sus_walk cs' 0%nat ptrs'))
   <= Qceiling (nth j w 0 * inject_Z (Z.of_nat k) / tot)%Q + 1)%Z.
Proof. exact walk_robust. Qed.
Print Assumptions C17_sus_walk_within_one.

(** the check evaluated for every generated case implies the numerical hypotheses of [C17_sus_float_within_one]
    with dp = dc = e (2(e+e) = tot/(2k) < tot/k whenever tot > 0) *)
Theorem C17_sus_near_sound : forall (p : list float) order k off, (0 < k)%nat -> sus_near p order k off = true ->
  let pq := map f2q p in let e := sumQ pq / inject_Z (Z.of_nat k) / 8 in
  0 <= e /\ 0 <= f2q off /\ f2q off < sumQ pq / inject_Z (Z.of_nat k) + (e + e) /\
  StronglySorted Qle (map f2q (fcumsum (gather 0%float p order))) /\
  StronglySorted Qle (map f2q (sus_ptrs_f (fsum p) k off)) /\
  Forall2 (fun a b => b - e <= a /\ a <= b + e) (map f2q (fcumsum (gather 0%float p order))) (cumsum (gather 0 pq order)) /\
  Forall2 (fun a b => b - e <= a /\ a <= b + e) (map f2q (sus_ptrs_f (fsum p) k off)) (sus_ptrs_q (sumQ pq) k (f2q off)).
Proof. exact sus_near_sound. Qed.
Print Assumptions C17_sus_near_sound.

(** binary64 model, refuted: floor/ceiling fails for p = [1,1], k = 98, offset 0.0 (50 and 48 draws; expected 49, 49) *)
Theorem C17_sus_float_floor_ceil_refuted :
  exists (p : list float) (order : list nat) (k : nat) (off : float) (perm sel : list nat) (i : nat),
    Forall (fun x => 0 <= f2q x) p /\ 0 < sumQ (map f2q p) /\ Permutation order (seq 0 (length p)) /\
    nonincr (gather 0 (map f2q p) order) = true /\ (0 < k)%nat /\
    0 <= f2q off /\ f2q off < sumQ (map f2q p) / inject_Z (Z.of_nat k) /\ PrimFloat.ltb off (sus_dist_f (fsum p) k) = true /\
    Permutation perm (seq 0 k) /\ sus_f p order k off perm = Some sel /\ (i < length p)%nat /\
    (Qceiling (nth i (map f2q p) 0 * inject_Z (Z.of_nat k) / sumQ (map f2q p))%Q < Z.of_nat (count_nat i sel))%Z.
Proof. exact sus_f_floor_ceil_refuted. Qed.
Print Assumptions C17_sus_float_floor_ceil_refuted.

(** the code before commit eabf766a ([old_sus_f], regression witness): a zero-weight element was drawn for p = [2.5,1,0],
    k = 4, offset = 0.875*(1-2^-53); the repaired code [sus_f] does not draw it on the same input *)
Theorem C17_sus_old_zero_weight_refuted :
  exists (p : list float) (order : list nat) (k : nat) (off : float) (perm sel : list nat) (i : nat),
    Forall (fun x => 0 <= f2q x) p /\ 0 < sumQ (map f2q p) /\ Permutation order (seq 0 (length p)) /\
    nonincr (gather 0 (map f2q p) order) = true /\ (0 < k)%nat /\
    0 <= f2q off /\ f2q off < sumQ (map f2q p) / inject_Z (Z.of_nat k) /\ PrimFloat.ltb off (sus_dist_f (fsum p) k) = true /\
    Permutation perm (seq 0 k) /\ old_sus_f p order k off perm = Some sel /\ (i < length p)%nat /\
    nth i (map f2q p) 0 == 0 /\ (0 < count_nat i sel)%nat /\
    exists sel', sus_f p order k off perm = Some sel' /\ count_nat i sel' = 0%nat.
Proof. exact sus_old_zero_weight_refuted. Qed.
Print Assumptions C17_sus_old_zero_weight_refuted.

(** the code before commit f3dafbe4 ([old_sus_f], regression witness): an output size of zero raised an exception *)
Theorem C17_sus_old_size_zero_refuted :
  exists (p : list float) (order : list nat) (off : float) (perm : list nat),
    p <> [] /\ Permutation order (seq 0 (length p)) /\ Permutation perm (seq 0 0) /\
    old_sus_f p order 0 off perm = None /\ sus_f p order 0 off perm = Some [].
Proof. exact sus_old_size_zero_refuted. Qed.
Print Assumptions C17_sus_old_size_zero_refuted.

(** the code before commit 2efef9f2 (documentation of the repaired defects): strict comparison with offset 0 ... *)
Theorem C17_sus_offset0_refuted :
  exists (p : list Q) (k : nat) (off : Q) (sel : list nat),
    Forall (fun x => 0 <= x) p /\ 0 < sumQ p /\ (0 < k)%nat /\ 0 <= off /\ off < sumQ p / inject_Z (Z.of_nat k) /\
    old_walk (cumsum p) 0 (sus_ptrs_q (sumQ p) k off) = Some sel /\
    (Qceiling (nth 0 p 0 * inject_Z (Z.of_nat k) / sumQ p)%Q < Z.of_nat (count_nat 0 sel))%Z.
Proof. exact sus_old_offset0_refuted. Qed.
Print Assumptions C17_sus_offset0_refuted.

(** ... and numpy.arange(offset, tot, ptr_dist) producing k-1 pointers *)
Theorem C17_sus_length_refuted :
  exists (tot : float) (k : nat) (off : float),
    PrimFloat.leb 0%float off = true /\ PrimFloat.ltb off (sus_dist_f tot k) = true /\
    arange_len_f off tot (sus_dist_f tot k) <> Z.of_nat k.
Proof. exact sus_old_arange_refuted. Qed.
Print Assumptions C17_sus_length_refuted.

(** * tiled sampling without replacement: every option is used q = nsample/n or q+1 times, q+1 exactly for the options of
    the remainder draw (so usage differs by at most one); the output has the requested number of entries *)
Theorem C17_tiled_even : forall (n nsample : nat) (choice perm : list nat),
  (0 < n)%nat -> NoDup choice -> Forall (fun t => (t < n)%nat) choice -> length choice = (nsample mod n)%nat ->
  Permutation perm (seq 0 nsample) ->
  exists sel, tiled_sel n nsample choice perm = Some sel /\ length sel = nsample /\
    Forall (fun t => (t < n)%nat) sel /\
    forall i, (i < n)%nat -> count_nat i sel = (nsample / n + count_nat i choice)%nat /\ (count_nat i choice <= 1)%nat.
Proof. exact tiled_even. Qed.
Print Assumptions C17_tiled_even.

(** with distinct options the same counts hold for the returned values *)
Theorem C17_tiled_values : forall (a : list Z) (sel : list nat) (i : nat),
  NoDup a -> (i < length a)%nat -> Forall (fun t => (t < length a)%nat) sel ->
  count_z (nth i a 0%Z) (take_labels a sel) = count_nat i sel.
Proof. exact labels_count. Qed.
Print Assumptions C17_tiled_values.

(** * axis shuffle: the result is a permutation of the array in which, for every index tuple produced by sliceaxisix
    (one per combination of indices along the listed axes), the values selected by the tuple are permuted among
    themselves; the tuples are pairwise disjoint and cover every position, so no value leaves its slice *)
Theorem C17_axis_shuffle_within_slices : forall shape axis pms a r,
  axis_shuffle shape axis pms a = inr r -> length a = prodn shape ->
  Forall (fun pm => Permutation pm (seq 0 (length pm))) pms ->
  length r = length a /\ Permutation r a /\
  (forall s, In s (sax 0 shape axis) -> Permutation (slice_vals shape s r) (slice_vals shape s a)) /\
  (forall t, (t < length a)%nat -> exists s, In s (sax 0 shape axis) /\ matches s (unravel shape t) = true) /\
  ForallOrdPairs disj (sax 0 shape axis).
Proof. exact axis_shuffle_within_slices. Qed.
Print Assumptions C17_axis_shuffle_within_slices.

(** sliceaxisix yields one tuple per combination of indices along the listed axes (row-major), each of the array's rank *)
Theorem C17_sliceaxisix_shape : forall shape axis pos,
  length (sax pos shape axis) = prodn (sel_dims pos shape axis) /\
  Forall (fun s => length s = length shape) (sax pos shape axis).
Proof. exact sax_shape. Qed.
Print Assumptions C17_sliceaxisix_shape.

(** * outcross shuffling *)
(** for every table and every oracle of exchange orders (valid permutations or not): the entries are permuted, the number
    of repeated individuals within crosses does not increase, and at most score+1 passes are made *)
Theorem C17_outcross_multiset_monotone : forall m x pms y n, outcross m x pms = Some (y, n) ->
  Permutation y x /\ (score m y <= score m x)%Z /\ (1 <= n <= Z.to_nat (score m x) + 1)%nat.
Proof. exact outcross_sound. Qed.
Print Assumptions C17_outcross_multiset_monotone.

(** it stops only when no exchange of two entries lowers the number of repeats *)
Theorem C17_outcross_local_optimum : forall m x pms y n,
  Forall (fun pm => Permutation pm (seq 0 (length (all_pairs (length x))))) pms ->
  outcross m x pms = Some (y, n) ->
  forall i j, (i < j < length y)%nat -> (score m y <= score m (swap i j y))%Z.
Proof. exact outcross_local_optimum. Qed.
Print Assumptions C17_outcross_local_optimum.

(** termination: an oracle with more entries than the initial number of repeats is never exhausted *)
Theorem C17_outcross_terminates : forall m x pms, (Z.to_nat (score m x) < length pms)%nat ->
  exists r, outcross m x pms = Some r.
Proof. exact outcross_terminates. Qed.
Print Assumptions C17_outcross_terminates.

(** non-vacuity: concrete non-trivial values meet the hypotheses of the theorems above *)
Example C17_hyps_satisfiable :
  (* sus: weights [1/2; 0; 3; 3/2] (a zero, no ties), order by descending weight, k = 4, offset 1/4 *)
  (Forall (fun x => 0 <= x) [1#2; 0; 3; 3#2] /\ 0 < sumQ [1#2; 0; 3; 3#2] /\
   Permutation [2; 3; 0; 1]%nat (seq 0 4) /\ nonincr (gather 0 [1#2; 0; 3; 3#2] [2; 3; 0; 1]%nat) = true /\
   0 <= 1#4 /\ (1#4) < sumQ [1#2; 0; 3; 3#2] / inject_Z 4 /\
   Permutation [3; 1; 0; 2]%nat (seq 0 4) /\
   option_map (count_nat 2) (sus_q [1#2; 0; 3; 3#2] [2; 3; 0; 1]%nat 4 (1#4) [3; 1; 0; 2]%nat) = Some 3%nat) /\
  (* tiled: 3 options, 7 samples, remainder draw [2] *)
  (NoDup [2%nat] /\ length [2%nat] = (7 mod 3)%nat /\ Permutation [6; 5; 4; 3; 2; 1; 0]%nat (seq 0 7)) /\
  (* axis: 2x3 array shuffled within rows *)
  (axis_shuffle [2; 3]%nat [0%Z] [[2; 0; 1]; [1; 0; 2]]%nat [0; 1; 2; 3; 4; 5]%Z = inr [2; 0; 1; 4; 3; 5]%Z) /\
  (* outcross: three selfed crosses are resolved in three passes *)
  (outcross 2 [1; 1; 2; 2; 3; 3]%Z [seq 0 15; seq 0 15; seq 0 15; seq 0 15] = Some ([3; 1; 1; 2; 2; 3]%Z, 3%nat) /\
   score 2 [1; 1; 2; 2; 3; 3]%Z = 3%Z /\ score 2 [3; 1; 1; 2; 2; 3]%Z = 0%Z).
Proof.
  split; [|split; [|split]].
  - split; [repeat constructor; apply Qle_bool_iff; reflexivity|]. split; [reflexivity|].
    split; [apply is_perm_sound; reflexivity|]. split; [vm_compute; reflexivity|]. split; [apply Qle_bool_iff; reflexivity|]. split; [reflexivity|].
    split; [apply is_perm_sound; reflexivity | vm_compute; reflexivity].
  - split; [repeat constructor; intros []|]. split; [reflexivity | apply is_perm_sound; reflexivity].
  - vm_compute. reflexivity.
  - repeat split; vm_compute; reflexivity.
Qed.

(** non-vacuity of the binary64 theorems: weights [1;2;1], k = 4, offset 0.25 — cumulative sums exact, pointers sorted and in
    the cells of the ideal pointers; the general counting theorem's hypotheses hold for its cumulative sums and pointers, the hypotheses of the zero-weight theorem for its weights *)
Example C17_float_hyps_satisfiable :
  let p := [1%float; 2%float; 1%float] in let order := [1; 0; 2]%nat in let k := 4%nat in let off := 0.25%float in
  let pq := map f2q p in let cs := firstn (npos pq) (cumsum (gather 0 pq order)) in
  Forall (fun x => 0 <= x) pq /\ 0 < sumQ pq /\ nonincr (gather 0 pq order) = true /\
  Forall2 Qeq (map f2q (fcumsum (gather 0%float p order))) (cumsum (gather 0 pq order)) /\ 0 <= sumQ pq / inject_Z (Z.of_nat k) /\
  StronglySorted Qle (map f2q (sus_ptrs_f (fsum p) k off)) /\ StronglySorted Qle cs /\
  Forall2 (fun a b => locate cs a = locate cs b) (map f2q (sus_ptrs_f (fsum p) k off)) (sus_ptrs_q (sumQ pq) k (f2q off)) /\
  sus_f p order k off [3; 2; 1; 0]%nat = Some [2; 0; 1; 1]%nat.
Proof.
  cbv zeta. split; [repeat constructor; apply Qle_bool_iff; vm_compute; reflexivity|]. split; [apply Qlt_alt; vm_compute; reflexivity|].
  split; [vm_compute; reflexivity|].
  split; [vm_compute; repeat constructor|]. split; [apply Qle_bool_iff; vm_compute; reflexivity|].
  split; [match goal with |- StronglySorted Qle ?l => let l' := eval vm_compute in l in change (StronglySorted Qle l') end;
          repeat constructor; apply Qle_bool_iff; reflexivity|].
  split; [match goal with |- StronglySorted Qle ?l => let l' := eval vm_compute in l in change (StronglySorted Qle l') end;
          repeat constructor; apply Qle_bool_iff; reflexivity|].
  split; [|vm_compute; reflexivity].
  match goal with |- Forall2 _ ?a ?b => let a' := eval vm_compute in a in let b' := eval vm_compute in b in change (Forall2 (fun x y => locate (firstn (npos (map f2q [1%float; 2%float; 1%float])) (cumsum (gather 0 (map f2q [1%float; 2%float; 1%float]) [1; 0; 2]%nat))) x = locate (firstn (npos (map f2q [1%float; 2%float; 1%float])) (cumsum (gather 0 (map f2q [1%float; 2%float; 1%float]) [1; 0; 2]%nat))) y) a' b') end.
  repeat constructor.
Qed.

(** non-vacuity and tightness of [C17_sus_float_within_one]: its numerical hypotheses hold for the floor/ceiling
    counterexample p = [1,1], k = 98, offset 0.0, whose counts 50 and 48 are exactly ceiling + 1 and floor - 1 *)
Example C17_within_one_hyps_satisfiable :
  sus_near [1%float; 1%float] [1; 0]%nat 98 0%float = true /\
  option_map (fun sel => (count_nat 1 sel, count_nat 0 sel)) (sus_f [1%float; 1%float] [1; 0]%nat 98 0%float (seq 0 98)) = Some (50, 48)%nat /\
  Qceiling (nth 1 (map f2q [1%float; 1%float]) 0 * inject_Z 98 / sumQ (map f2q [1%float; 1%float])) = 49%Z /\
  Qfloor (nth 0 (map f2q [1%float; 1%float]) 0 * inject_Z 98 / sumQ (map f2q [1%float; 1%float])) = 49%Z.
Proof. repeat split; vm_compute; reflexivity. Qed.

(** * the kernel expressions of the CURRENT source
    Gen/C17_Kernel.v is regenerated from pybrops/core/random/sampling.py on every run (harness/translate/c17_kernel.py);
    Model/C17_KernelProg.v assembles the four utilities from the generated comparisons, quotients, index expressions and
    argument orders.  The theorems below are about those programs: a changed expression of the source breaks them. *)

(** the assembled programs are the hand model, for all inputs, draws and shuffles *)
Theorem C17_kernel_is_model :
  (forall p order k off perm, length order = length p -> k_sus_f p order k off perm = sus_f p order k off perm) /\
  (forall p order k off perm, length order = length p -> k_sus_q p order k off perm = sus_q p order k off perm) /\
  (forall p k, k_sus_draw p k = option_map (fun high => (0%float, high)) (sus_high_f p k)) /\
  (forall n ns choice perm, (0 < n)%nat -> k_tiled_sel n ns choice perm = tiled_sel n ns choice perm) /\
  (forall n ns, k_tiled_req n ns = Z.of_nat (tiled_re n ns)) /\
  (forall shape axis pms a, k_axis_shuffle shape axis pms a = axis_shuffle shape axis pms a) /\
  (forall m x pms, k_outcross m x pms = outcross m x pms).
Proof. exact kernel_is_model. Qed.
Print Assumptions C17_kernel_is_model.

(** the generated guard of the walk: the index moves on exactly while it is below [last] and the cumulative sum is at or
    below the pointer - the cells are half open, a pointer on a boundary belongs to the next element *)
Theorem C17_kernel_guard_half_open : forall ix last c ptr,
  k_sus_guard ix last c ptr = true <-> (ix < last)%Z /\ c <= ptr.
Proof. exact kernel_guard_half_open. Qed.
Print Assumptions C17_kernel_guard_half_open.

(** stochastic universal sampling as assembled from the generated expressions, exact rationals: exactly k draws, floor or
    ceiling of the expected count, never an element of zero weight (the offset bound is the generated pointer distance) *)
Theorem C17_kernel_sus_count_floor_ceil_no_zero_weight :
  forall (p : list Q) (order : list nat) (k : nat) (off : Q) (perm : list nat),
  Forall (fun x => 0 <= x) p -> 0 < sumQ p -> Permutation order (seq 0 (length p)) ->
  nonincr (gather 0 p order) = true ->
  ((0 < k)%nat -> 0 <= off /\ off < k_sus_dist_q (sumQ p) (inject_Z (Z.of_nat k))) -> Permutation perm (seq 0 k) ->
  exists sel, k_sus_q p order k off perm = Some sel /\ length sel = k /\
    forall i, (i < length p)%nat ->
      (Qfloor (nth i p 0 * inject_Z (Z.of_nat k) / sumQ p)%Q <= Z.of_nat (count_nat i sel)
       <= Qceiling (nth i p 0 * inject_Z (Z.of_nat k) / sumQ p)%Q)%Z
      /\ (nth i p 0 == 0 -> count_nat i sel = 0%nat).
Proof. exact kernel_sus_q_spec. Qed.
Print Assumptions C17_kernel_sus_count_floor_ceil_no_zero_weight.

(** the same program on the binary64 pointers and cumulative sums, whatever the rounding and the offset: exactly k draws,
    only elements of positive weight *)
Theorem C17_kernel_sus_float_count_no_zero_weight : forall (p : list float) order k off perm,
  let pq := map f2q p in
  Forall (fun x => 0 <= x) pq -> 0 < sumQ pq -> Permutation order (seq 0 (length p)) ->
  nonincr (gather 0 pq order) = true -> Permutation perm (seq 0 k) ->
  exists sel, k_sus_f p order k off perm = Some sel /\ length sel = k /\
    (forall i, In i sel -> (i < length p)%nat /\ 0 < nth i pq 0) /\
    (forall i, nth i pq 0 == 0 -> count_nat i sel = 0%nat).
Proof. exact kernel_sus_f_spec. Qed.
Print Assumptions C17_kernel_sus_float_count_no_zero_weight.

(** ... and within one draw of floor/ceiling under the numerical hypotheses evaluated for every generated case *)
Theorem C17_kernel_sus_float_within_one : forall (p : list float) order k off perm (dp dc : Q),
  let pq := map f2q p in
  Forall (fun x => 0 <= x) pq -> 0 < sumQ pq -> Permutation order (seq 0 (length p)) ->
  nonincr (gather 0 pq order) = true -> (0 < k)%nat -> Permutation perm (seq 0 k) ->
  0 <= dp -> 0 <= dc -> 2 * (dp + dc) < sumQ pq / inject_Z (Z.of_nat k) ->
  0 <= f2q off -> f2q off < sumQ pq / inject_Z (Z.of_nat k) + (dp + dc) ->
  StronglySorted Qle (map f2q (fcumsum (gather 0%float p order))) ->
  StronglySorted Qle (map f2q (sus_ptrs_f (fsum p) k off)) ->
  Forall2 (fun a b => b - dc <= a /\ a <= b + dc) (map f2q (fcumsum (gather 0%float p order))) (cumsum (gather 0 pq order)) ->
  Forall2 (fun a b => b - dp <= a /\ a <= b + dp) (map f2q (sus_ptrs_f (fsum p) k off)) (sus_ptrs_q (sumQ pq) k (f2q off)) ->
  exists sel, k_sus_f p order k off perm = Some sel /\ length sel = k /\
    forall i, (i < length p)%nat ->
      (Qfloor (nth i pq 0 * inject_Z (Z.of_nat k) / sumQ pq)%Q - 1 <= Z.of_nat (count_nat i sel)
       <= Qceiling (nth i pq 0 * inject_Z (Z.of_nat k) / sumQ pq)%Q + 1)%Z.
Proof. exact kernel_sus_f_within_one. Qed.
Print Assumptions C17_kernel_sus_float_within_one.

(** tiled sampling assembled from the generated divmod and slice bounds: every option is used qu or qu+1 times *)
Theorem C17_kernel_tiled_even : forall (n nsample : nat) (choice perm : list nat),
  (0 < n)%nat -> NoDup choice -> Forall (fun t => (t < n)%nat) choice ->
  Z.of_nat (length choice) = k_tiled_re (Z.of_nat nsample) (Z.of_nat n) ->
  Permutation perm (seq 0 nsample) ->
  exists sel, k_tiled_sel n nsample choice perm = Some sel /\ length sel = nsample /\
    Forall (fun t => (t < n)%nat) sel /\
    forall i, (i < n)%nat -> count_nat i sel = (Z.to_nat (k_tiled_qu (Z.of_nat nsample) (Z.of_nat n)) + count_nat i choice)%nat
                             /\ (count_nat i choice <= 1)%nat.
Proof. exact kernel_tiled_even. Qed.
Print Assumptions C17_kernel_tiled_even.

(** outcross shuffling assembled from the generated objective term, acceptance test, exchange list, exchange statement
    and continuation: terminates within objective+1 passes for every oracle, permutes the entries, never raises the
    objective, and stops only when no exchange of two entries lowers it *)
Theorem C17_kernel_outcross_spec : forall m x pms,
  ((Z.to_nat (k_oc_objfn m x) < length pms)%nat -> exists r, k_outcross m x pms = Some r) /\
  forall y n, k_outcross m x pms = Some (y, n) ->
    Permutation y x /\ (k_oc_objfn m y <= k_oc_objfn m x)%Z /\ (1 <= n <= Z.to_nat (k_oc_objfn m x) + 1)%nat /\
    (Forall (fun pm => Permutation pm (seq 0 (length (k_oc_pairs (length x))))) pms ->
     forall i j, (i < j < length y)%nat -> (k_oc_objfn m y <= k_oc_objfn m (k_oc_exchange i j y))%Z).
Proof. exact kernel_outcross_spec. Qed.
Print Assumptions C17_kernel_outcross_spec.

(** non-vacuity of the kernel theorems: the assembled programs run on the values of [C17_hyps_satisfiable] *)
Example C17_kernel_hyps_satisfiable :
  (0 <= 1#4 /\ (1#4) < k_sus_dist_q (sumQ [1#2; 0; 3; 3#2]) (inject_Z 4) /\
   option_map (count_nat 2) (k_sus_q [1#2; 0; 3; 3#2] [2; 3; 0; 1]%nat 4 (1#4) [3; 1; 0; 2]%nat) = Some 3%nat) /\
  k_sus_f [1%float; 2%float; 1%float] [1; 0; 2]%nat 4 0.25%float [3; 2; 1; 0]%nat = Some [2; 0; 1; 1]%nat /\
  (Z.of_nat (length [2%nat]) = k_tiled_re 7 3 /\ k_tiled_sel 3 7 [2%nat] [6; 5; 4; 3; 2; 1; 0]%nat = Some [2; 2; 1; 0; 2; 1; 0]%nat) /\
  (k_outcross 2 [1; 1; 2; 2; 3; 3]%Z [seq 0 15; seq 0 15; seq 0 15; seq 0 15] = Some ([3; 1; 1; 2; 2; 3]%Z, 3%nat) /\
   k_oc_objfn 2 [1; 1; 2; 2; 3; 3]%Z = 3%Z /\ length (k_oc_pairs 6) = 15%nat).
Proof.
  split; [split; [apply Qle_bool_iff; reflexivity | split; [reflexivity | vm_compute; reflexivity]]|].
  split; [vm_compute; reflexivity|]. split; [split; vm_compute; reflexivity|]. repeat split; vm_compute; reflexivity.
Qed.

(** the binary64 comparisons of the source, as regenerated ([k_sus_guard_f]: the while test on doubles; [k_sus_positive_f]:
    p > 0.0 on doubles), are on finite doubles the exact-value comparisons that the model and the assembled program use *)
Theorem C17_kernel_float_comparisons : forall ix last c ptr x,
  f_finite c = true -> f_finite ptr = true -> f_finite x = true ->
  k_sus_guard_f ix last c ptr = k_sus_guard ix last (f2q c) (f2q ptr) /\ k_sus_positive_f x = k_sus_positive (f2q x).
Proof. exact kernel_float_comparisons. Qed.
Print Assumptions C17_kernel_float_comparisons.

(** * further laws *)
(** a table on which no exchange of two entries lowers the number of repeats is returned unchanged after exactly one pass,
    for every exchange order (valid permutation or not) ... *)
Theorem C17_outcross_fixed_point : forall m x pm rest,
  (forall i j, (i < j < length x)%nat -> (score m x <= score m (swap i j x))%Z) ->
  outcross m x (pm :: rest) = Some (x, 1%nat).
Proof. exact outcross_fixed_point. Qed.
Print Assumptions C17_outcross_fixed_point.

(** ... hence a second call on the result of a call changes nothing: the result of a call depends on the table at that
    call only, and outcross shuffling is idempotent *)
Theorem C17_outcross_idempotent : forall m x pms y n pm rest,
  Forall (fun pm => Permutation pm (seq 0 (length (all_pairs (length x))))) pms ->
  outcross m x pms = Some (y, n) -> outcross m y (pm :: rest) = Some (y, 1%nat).
Proof. exact outcross_idempotent. Qed.
Print Assumptions C17_outcross_idempotent.

(** scale covariance: multiplying every weight and the offset by the same positive factor selects the same elements
    (exact-rational pointers; every descending layout, every k, every shuffle) *)
Theorem C17_sus_scale_covariant : forall c : Q, 0 < c -> forall p order k off perm,
  sus_q (map (Qmult c) p) order k (c * off) perm = sus_q p order k off perm.
Proof. exact sus_q_scale. Qed.
Print Assumptions C17_sus_scale_covariant.

(** non-vacuity of the laws: a valid oracle and its result, a local optimum, a positive factor, finite doubles *)
Example C17_laws_hyps_satisfiable :
  Forall (fun pm => Permutation pm (seq 0 (length (all_pairs (length [1; 1; 2; 2; 3; 3]%Z))))) [seq 0 15; seq 0 15; seq 0 15; seq 0 15] /\
  outcross 2 [1; 1; 2; 2; 3; 3]%Z [seq 0 15; seq 0 15; seq 0 15; seq 0 15] = Some ([3; 1; 1; 2; 2; 3]%Z, 3%nat) /\
  outcross 2 [3; 1; 1; 2; 2; 3]%Z [seq 0 15] = Some ([3; 1; 1; 2; 2; 3]%Z, 1%nat) /\
  0 < 3 # 2 /\ sus_q (map (Qmult (3 # 2)) [1#2; 0; 3; 3#2]) [2; 3; 0; 1]%nat 4 ((3 # 2) * (1#4)) [3; 1; 0; 2]%nat = sus_q [1#2; 0; 3; 3#2] [2; 3; 0; 1]%nat 4 (1#4) [3; 1; 0; 2]%nat /\
  f_finite 0.25%float = true /\ k_sus_guard_f 0 1 0.25%float 0.25%float = true.
Proof.
  split; [repeat constructor; apply Permutation_refl|]. repeat split; vm_compute; reflexivity.
Qed.
