(** C17 — property theorems only. *)
From PV Require Import Lib.Common Model.C17_Sampling Proofs.C17_Sampling.
