(** C04 — finite sums over index ranges, used for the Gauss-Seidel / ridge-regression algebra. *)
From Coq Require Import Lqa.
From PV Require Import Lib.Common Model.C04_Gmod Proofs.C04_Linear Proofs.C04_Var.
Local Open Scope Q_scope.

Definition bigsum (n : nat) (f : nat -> Q) : Q := sumQ (map f (seq 0 n)).

Lemma bigsum_gen_ext (l : list nat) (f g : nat -> Q) : (forall i, In i l -> f i == g i) -> sumQ (map f l) == sumQ (map g l).
Proof.
  induction l as [|x l IH]; intros H; cbn [map]; rewrite ?sumQ_cons; [reflexivity|].
  rewrite (H x (or_introl eq_refl)), IH; [reflexivity|]. intros i Hi. apply H. now right.
Qed.

Lemma bigsum_ext n f g : (forall i, (i < n)%nat -> f i == g i) -> bigsum n f == bigsum n g.
Proof. intros H. apply bigsum_gen_ext. intros i Hi. apply in_seq in Hi. apply H. lia. Qed.

Lemma bigsum_S n f : bigsum (S n) f == bigsum n f + f n.
Proof. unfold bigsum. rewrite seq_S, map_app, sumQ_app. cbn [map Nat.add]. rewrite sumQ_cons. cbn. ring. Qed.

Lemma bigsum_0 f : bigsum 0 f = 0. Proof. reflexivity. Qed.

Lemma bigsum_plus n f g : bigsum n (fun i => f i + g i) == bigsum n f + bigsum n g.
Proof. induction n as [|n IH]; [cbn; ring|]. rewrite !bigsum_S, IH. ring. Qed.

Lemma bigsum_minus n f g : bigsum n (fun i => f i - g i) == bigsum n f - bigsum n g.
Proof. induction n as [|n IH]; [cbn; ring|]. rewrite !bigsum_S, IH. ring. Qed.

Lemma bigsum_scale n c f : bigsum n (fun i => c * f i) == c * bigsum n f.
Proof. induction n as [|n IH]; [cbn; ring|]. rewrite !bigsum_S, IH. ring. Qed.

Lemma bigsum_scale_r n c f : bigsum n (fun i => f i * c) == bigsum n f * c.
Proof. induction n as [|n IH]; [cbn; ring|]. rewrite !bigsum_S, IH. ring. Qed.

Lemma bigsum_zero n : bigsum n (fun _ => 0) == 0.
Proof. induction n as [|n IH]; [reflexivity|]. rewrite bigsum_S, IH. ring. Qed.

Lemma bigsum_swap n m (f : nat -> nat -> Q) :
  bigsum n (fun i => bigsum m (fun j => f i j)) == bigsum m (fun j => bigsum n (fun i => f i j)).
Proof.
  induction n as [|n IH].
  - cbn [bigsum seq map sumQ fold_right]. symmetry. apply bigsum_zero.
  - rewrite bigsum_S, IH. rewrite <- bigsum_plus. apply bigsum_ext. intros j _. now rewrite bigsum_S.
Qed.

Definition delta (k i : nat) : Q := if Nat.eqb i k then 1 else 0.

Lemma bigsum_delta n k f : (k < n)%nat -> bigsum n (fun i => delta k i * f i) == f k.
Proof.
  induction n as [|n IH]; intros H; [lia|]. rewrite bigsum_S. destruct (Nat.eq_dec k n) as [->|NE].
  - unfold delta at 2. rewrite Nat.eqb_refl.
    rewrite (bigsum_ext n _ (fun _ => 0)); [rewrite bigsum_zero; ring|].
    intros i Hi. unfold delta. destruct (Nat.eqb_spec i n); [lia|ring].
  - rewrite IH by lia. unfold delta. destruct (Nat.eqb_spec n k); [lia|ring].
Qed.

Lemma bigsum_nonneg n f : (forall i, (i < n)%nat -> 0 <= f i) -> 0 <= bigsum n f.
Proof.
  induction n as [|n IH]; intros H; [apply Qle_refl|]. rewrite bigsum_S. rewrite <- (Qplus_0_l 0). apply Qplus_le_compat; [apply IH; intros; apply H; lia | apply H; lia].
Qed.

Lemma bigsum_le n f g : (forall i, (i < n)%nat -> f i <= g i) -> bigsum n f <= bigsum n g.
Proof.
  induction n as [|n IH]; intros H; [apply Qle_refl|]. rewrite !bigsum_S. apply Qplus_le_compat; [apply IH; intros; apply H; lia | apply H; lia].
Qed.

(** split a sum at an index: below, at, above *)
Lemma bigsum_split3 n k f : (k < n)%nat ->
  bigsum n f == bigsum n (fun j => if Nat.ltb j k then f j else 0) + f k + bigsum n (fun j => if Nat.ltb k j then f j else 0).
Proof.
  intros H. setoid_replace (f k) with (bigsum n (fun i => delta k i * f i)) by (symmetry; apply bigsum_delta; exact H).
  rewrite <- !bigsum_plus. apply bigsum_ext. intros j _.
  unfold delta. destruct (Nat.ltb_spec j k), (Nat.eqb_spec j k), (Nat.ltb_spec k j); try lia; ring.
Qed.

(** dot products and matrix-vector products as index sums *)
Lemma dotQ_bigsum : forall (a b : list Q) n, length a = n -> length b = n -> dotQ a b == bigsum n (fun i => nth i a 0 * nth i b 0).
Proof.
  induction a as [|x a IH]; intros [|y b] n La Lb; cbn in La, Lb; subst; try discriminate; [reflexivity|].
  rewrite dotQ_cons. unfold bigsum. cbn [seq map]. rewrite sumQ_cons. cbn [nth]. rewrite <- seq_shift, map_map.
  rewrite (IH b (length a)) by lia. reflexivity.
Qed.

Lemma sumQ_bigsum (l : list Q) : sumQ l == bigsum (length l) (fun i => nth i l 0).
Proof.
  induction l as [|x l IH]; [reflexivity|]. unfold bigsum. cbn [length seq map]. rewrite !sumQ_cons. cbn [nth]. rewrite <- seq_shift, map_map. now rewrite IH.
Qed.

Global Instance Qabs'_comp : Proper (Qeq ==> Qeq) Qabs'.
Proof.
  intros x y E. unfold Qabs'. destruct (Qle_bool 0 x) eqn:Ex, (Qle_bool 0 y) eqn:Ey; try (now rewrite E).
  - apply Qle_bool_iff in Ex. rewrite E in Ex. apply Qle_bool_iff in Ex. congruence.
  - apply Qle_bool_iff in Ey. rewrite <- E in Ey. apply Qle_bool_iff in Ey. congruence.
Qed.

Lemma Qabs'_nonneg x : 0 <= Qabs' x.
Proof.
  unfold Qabs'. destruct (Qle_bool 0 x) eqn:E; [now apply Qle_bool_iff|].
  assert (x < 0) by (apply Qnot_le_lt; intro L; apply Qle_bool_iff in L; congruence). lra.
Qed.

Lemma Qabs'_triangle a b : Qabs' (a + b) <= Qabs' a + Qabs' b.
Proof.
  unfold Qabs'. destruct (Qle_bool 0 (a + b)) eqn:E1, (Qle_bool 0 a) eqn:E2, (Qle_bool 0 b) eqn:E3;
    repeat match goal with
           | H : Qle_bool _ _ = true |- _ => apply Qle_bool_iff in H
           | H : Qle_bool ?x ?y = false |- _ => assert (y < x) by (apply Qnot_le_lt; intro L; apply Qle_bool_iff in L; congruence); clear H
           end; lra.
Qed.

Lemma Qabs'_mult a b : Qabs' (a * b) == Qabs' a * Qabs' b.
Proof.
  unfold Qabs'. destruct (Qle_bool 0 a) eqn:E2, (Qle_bool 0 b) eqn:E3;
    repeat match goal with
           | H : Qle_bool _ _ = true |- _ => apply Qle_bool_iff in H
           | H : Qle_bool ?x ?y = false |- _ => assert (y < x) by (apply Qnot_le_lt; intro L; apply Qle_bool_iff in L; congruence); clear H
           end.
  - assert (0 <= a * b) by (now apply Qmult_le_0_compat). apply Qle_bool_iff in H. rewrite H. reflexivity.
  - destruct (Qle_bool 0 (a * b)) eqn:E1; [|ring]. apply Qle_bool_iff in E1.
    assert (a * b <= 0) by (setoid_replace (a * b) with (- (a * - b)) by ring; assert (0 <= a * - b) by (apply Qmult_le_0_compat; lra); lra).
    assert (a * b == 0) by lra. lra.
  - destruct (Qle_bool 0 (a * b)) eqn:E1; [|ring]. apply Qle_bool_iff in E1.
    assert (a * b <= 0) by (setoid_replace (a * b) with (- (- a * b)) by ring; assert (0 <= - a * b) by (apply Qmult_le_0_compat; lra); lra).
    assert (a * b == 0) by lra. lra.
  - assert (0 <= a * b) by (setoid_replace (a * b) with (- a * - b) by ring; apply Qmult_le_0_compat; lra).
    apply Qle_bool_iff in H1. rewrite H1. ring.
Qed.

Lemma bigsum_abs_le n f : Qabs' (bigsum n f) <= bigsum n (fun i => Qabs' (f i)).
Proof.
  induction n as [|n IH]; [cbn; unfold Qabs'; cbn; apply Qle_refl|]. rewrite !bigsum_S.
  eapply Qle_trans; [apply Qabs'_triangle|]. apply Qplus_le_compat; [exact IH | apply Qle_refl].
Qed.
