(** C12 — multi-locus single meiosis (nself = 0, two-way cross): for EVERY number of loci the covariance of the
    doubled-haploid values under the exhaustively enumerated gamete distribution equals the double sum
    sum_ij (a_i - b_i) rho_ij (a_j - b_j), rho_ij the product of (1 - 2 p_k) over the gaps between i and j. *)
From Coq Require Import Lqa Qfield.
From PV Require Import Lib.Common Model.C12_Var Model.C12_Enum Proofs.C12_Sums.
Local Open Scope Q_scope.

(** * expectation over crossover indicators: linearity *)
Lemma Ebern_ext ps : forall f g, (forall l, length l = length ps -> f l == g l) -> Ebern ps f == Ebern ps g.
Proof.
  induction ps as [|p ps IH]; intros f g H; cbn [Ebern]; [apply H; reflexivity|].
  rewrite (IH (fun l => f (true :: l)) (fun l => g (true :: l))), (IH (fun l => f (false :: l)) (fun l => g (false :: l)));
    [reflexivity| |]; intros l Hl; apply H; cbn [length]; now rewrite Hl.
Qed.
Lemma Ebern_const ps c : Ebern ps (fun _ => c) == c.
Proof. induction ps as [|p ps IH]; cbn [Ebern]; [reflexivity|]. rewrite !IH. ring. Qed.
Lemma Ebern_plus ps : forall f g, Ebern ps (fun l => f l + g l) == Ebern ps f + Ebern ps g.
Proof. induction ps as [|p ps IH]; intros f g; cbn [Ebern]; [reflexivity|]. rewrite !IH. ring. Qed.
Lemma Ebern_scal ps : forall c f, Ebern ps (fun l => c * f l) == c * Ebern ps f.
Proof. induction ps as [|p ps IH]; intros c f; cbn [Ebern]; [reflexivity|]. rewrite !IH. ring. Qed.

Lemma Ebern_zero ps f : (forall l, f l == 0) -> Ebern ps f == 0.
Proof. intros H. rewrite (Ebern_ext ps f (fun _ => 0)) by (intros; apply H). apply Ebern_const. Qed.

(** * gamete value as  centre + sign(initial strand) * Horner form in the crossover signs *)
Definition sgn (b : bool) : Q := if b then -1 else 1.
Fixpoint hx (ws : list Q) (xs : list bool) : Q :=
  match ws with
  | [] => 0
  | w :: ws' => w + match xs with [] => 0 | x :: xs' => sgn x * hx ws' xs' end
  end.
Fixpoint csum (av bv : list Q) : Q :=
  match av, bv with a :: av', b :: bv' => (a + b) + csum av' bv' | _, _ => 0 end.
Definition wdiff (av bv : list Q) : list Q := map2 Qminus av bv.

Lemma gval_strand : forall xs av bv s0, length av = S (length xs) -> length bv = S (length xs) ->
  2 * gval av bv (strand s0 xs) == csum av bv + sgn s0 * hx (wdiff av bv) xs.
Proof.
  induction xs as [|x xs IH]; intros av bv s0 Ha Hb.
  - destruct av as [|a [|? ?]]; try discriminate. destruct bv as [|b [|? ?]]; try discriminate.
    cbn [strand gval csum wdiff map2 hx]. destruct s0; cbn [sgn]; ring.
  - destruct av as [|a av]; [discriminate|]. destruct bv as [|b bv]; [discriminate|].
    cbn [length] in Ha, Hb. injection Ha as Ha. injection Hb as Hb.
    cbn [strand gval csum wdiff map2 hx]. fold (wdiff av bv).
    assert (E := IH av bv (xorb s0 x) Ha Hb).
    setoid_replace (2 * ((if s0 then b else a) + gval av bv (strand (xorb s0 x) xs)))
      with (2 * (if s0 then b else a) + 2 * gval av bv (strand (xorb s0 x) xs)) by ring.
    rewrite E. destruct s0, x; cbn [xorb sgn]; ring.
Qed.

(** * moments of the Horner form *)
Fixpoint m1 (ws : list Q) (ps : list Q) : Q :=
  match ws with
  | [] => 0
  | w :: ws' => w + match ps with [] => 0 | p :: ps' => (1 - 2 * p) * m1 ws' ps' end
  end.
Fixpoint m2 (ws1 ws2 : list Q) (ps : list Q) : Q :=
  match ws1, ws2 with
  | w1 :: ws1', w2 :: ws2' =>
      w1 * w2 + match ps with [] => 0 | p :: ps' => (1 - 2 * p) * (w1 * m1 ws2' ps' + w2 * m1 ws1' ps') + m2 ws1' ws2' ps' end
  | _, _ => 0
  end.

Lemma Ebern_hx : forall ps ws, Ebern ps (hx ws) == m1 ws ps.
Proof.
  induction ps as [|p ps IH]; intros [|w ws]; cbn [Ebern hx m1]; try reflexivity.
  - rewrite !Ebern_const. ring.
  - rewrite (Ebern_ext ps (fun l => w + sgn true * hx ws l) (fun l => w + (-1) * hx ws l)) by (intros; reflexivity).
    rewrite (Ebern_ext ps (fun l => w + sgn false * hx ws l) (fun l => w + 1 * hx ws l)) by (intros; reflexivity).
    rewrite !Ebern_plus, !Ebern_scal, !Ebern_const, IH. ring.
Qed.

Lemma Ebern_hx2 : forall ps ws1 ws2, Ebern ps (fun l => hx ws1 l * hx ws2 l) == m2 ws1 ws2 ps.
Proof.
  induction ps as [|p ps IH]; intros [|w1 ws1] [|w2 ws2]; cbn [Ebern hx m2]; try ring.
  - rewrite !Ebern_zero by (intros; ring). ring.
  - rewrite !Ebern_zero by (intros; ring). ring.
  - rewrite !Ebern_zero by (intros; ring). ring.
  - rewrite (Ebern_ext ps (fun l => (w1 + sgn true * hx ws1 l) * (w2 + sgn true * hx ws2 l))
                          (fun l => w1 * w2 + ((- w1) * hx ws2 l + ((- w2) * hx ws1 l + hx ws1 l * hx ws2 l)))) by (intros; cbn [sgn]; ring).
    rewrite (Ebern_ext ps (fun l => (w1 + sgn false * hx ws1 l) * (w2 + sgn false * hx ws2 l))
                          (fun l => w1 * w2 + (w1 * hx ws2 l + (w2 * hx ws1 l + hx ws1 l * hx ws2 l)))) by (intros; cbn [sgn]; ring).
    rewrite !Ebern_plus, !Ebern_scal, !Ebern_const, !Ebern_hx, IH. ring.
Qed.

(** covariance of the two DH values under the enumerated gamete distribution = second moment of the Horner forms *)
Theorem cov_gam_m2 ps a1 b1 a2 b2 :
  length a1 = S (length ps) -> length b1 = S (length ps) -> length a2 = S (length ps) -> length b2 = S (length ps) ->
  cov_gam ps a1 b1 a2 b2 == m2 (wdiff a1 b1) (wdiff a2 b2) ps.
Proof.
  intros H1 H2 H3 H4. unfold cov_gam, Egam.
  set (C1 := csum a1 b1). set (C2 := csum a2 b2). set (W1 := wdiff a1 b1). set (W2 := wdiff a2 b2).
  assert (P : forall s0, Ebern ps (fun xs => 2 * gval a1 b1 (strand s0 xs) * (2 * gval a2 b2 (strand s0 xs)))
               == C1 * C2 + sgn s0 * (C1 * m1 W2 ps + C2 * m1 W1 ps) + m2 W1 W2 ps).
  { intros s0.
    rewrite (Ebern_ext ps _ (fun xs => C1 * C2 + ((sgn s0 * C1) * hx W2 xs + ((sgn s0 * C2) * hx W1 xs + hx W1 xs * hx W2 xs)))).
    2:{ intros l Hl. rewrite (gval_strand l a1 b1 s0), (gval_strand l a2 b2 s0) by congruence. fold C1 C2 W1 W2. destruct s0; cbn [sgn]; ring. }
    rewrite !Ebern_plus, !Ebern_scal, !Ebern_const, !Ebern_hx, Ebern_hx2. ring. }
  assert (M : forall a b C W, length a = S (length ps) -> length b = S (length ps) -> C = csum a b -> W = wdiff a b ->
               forall s0, Ebern ps (fun xs => 2 * gval a b (strand s0 xs)) == C + sgn s0 * m1 W ps).
  { intros a b C W Ha Hb -> -> s0.
    rewrite (Ebern_ext ps _ (fun xs => csum a b + sgn s0 * hx (wdiff a b) xs)) by (intros l Hl; apply gval_strand; congruence).
    rewrite Ebern_plus, Ebern_scal, Ebern_const, Ebern_hx. reflexivity. }
  rewrite !P. rewrite !(M a1 b1 C1 W1 H1 H2 eq_refl eq_refl), !(M a2 b2 C2 W2 H3 H4 eq_refl eq_refl). cbn [sgn]. ring.
Qed.

(** * the second moment is the explicit double sum with rho *)
Lemma rho_diag ps i : rho ps i i = 1.
Proof. unfold rho. rewrite Nat.max_id, Nat.min_id, Nat.sub_diag. reflexivity. Qed.
Lemma rho_sym ps i j : rho ps i j = rho ps j i.
Proof. unfold rho. now rewrite Nat.max_comm, Nat.min_comm. Qed.
Lemma rho_0S p ps j : rho (p :: ps) 0 (S j) = (1 - 2 * p) * rho ps 0 j.
Proof. unfold rho. cbn [Nat.max Nat.min Nat.sub skipn firstn map qprod]. now rewrite Nat.sub_0_r. Qed.
Lemma rho_SS p ps i j : rho (p :: ps) (S i) (S j) = rho ps i j.
Proof. unfold rho. rewrite <- Nat.succ_max_distr, <- Nat.succ_min_distr. cbn [Nat.sub skipn]. reflexivity. Qed.

Definition nthq (l : list Q) (i : nat) : Q := nth i l 0.

Lemma m1_sum : forall ps ws, length ws = S (length ps) ->
  m1 ws ps == sumQ (map (fun i => nthq ws i * rho ps 0 i) (seq 0 (length ws))).
Proof.
  induction ps as [|p ps IH]; intros ws H.
  - destruct ws as [|w [|? ?]]; try discriminate. cbn [m1 length seq map]. rewrite sumQ_cons. rewrite rho_diag. unfold nthq. cbn. ring.
  - destruct ws as [|w ws]; [discriminate|]. cbn [length] in H. injection H as H.
    cbn [m1 length seq map]. rewrite sumQ_cons, sumQ_seq_shift, rho_diag, (IH ws H).
    rewrite (sumQ_ext_all (fun i => nthq (w :: ws) (S i) * rho (p :: ps) 0 (S i)) (fun i => (1 - 2 * p) * (nthq ws i * rho ps 0 i))).
    2:{ intros i. rewrite rho_0S. unfold nthq. cbn [nth]. ring. }
    rewrite sumQ_scal. unfold nthq. cbn [nth]. ring.
Qed.

Theorem m2_dsum : forall ps ws1 ws2, length ws1 = S (length ps) -> length ws2 = S (length ps) ->
  m2 ws1 ws2 ps == dsum (rho ps) (nthq ws1) (nthq ws2) (seq 0 (S (length ps))) (seq 0 (S (length ps))).
Proof.
  induction ps as [|p ps IH]; intros ws1 ws2 H1 H2.
  - destruct ws1 as [|w1 [|? ?]]; try discriminate. destruct ws2 as [|w2 [|? ?]]; try discriminate.
    cbn [m2 length seq]. unfold dsum. cbn [map]. rewrite !sumQ_cons. rewrite rho_diag. unfold nthq. cbn. ring.
  - destruct ws1 as [|w1 ws1]; [discriminate|]. destruct ws2 as [|w2 ws2]; [discriminate|].
    cbn [length] in H1, H2. injection H1 as H1. injection H2 as H2.
    cbn [m2]. rewrite (IH ws1 ws2 H1 H2), (m1_sum ps ws1 H1), (m1_sum ps ws2 H2). rewrite H1, H2.
    set (L := S (length ps)). cbn [length]. fold L.
    unfold dsum. change (seq 0 (S L)) with (0%nat :: seq 1 L). cbn [map]. rewrite !sumQ_cons, !sumQ_seq_shift.
    (* column j = 0 *)
    rewrite rho_diag.
    rewrite (sumQ_ext_all (fun i => nthq (w1 :: ws1) (S i) * rho (p :: ps) (S i) 0) (fun i => (1 - 2 * p) * (nthq ws1 i * rho ps 0 i))).
    2:{ intros i. rewrite rho_sym, rho_0S. unfold nthq. cbn [nth]. ring. }
    rewrite sumQ_scal.
    (* columns j >= 1 *)
    rewrite (sumQ_ext_all (fun j => sumQ (nthq (w1 :: ws1) 0 * rho (p :: ps) 0 (S j) :: map (fun i => nthq (w1 :: ws1) i * rho (p :: ps) i (S j)) (seq 1 L)) * nthq (w2 :: ws2) (S j))
                          (fun j => (w1 * (1 - 2 * p)) * (nthq ws2 j * rho ps 0 j) + sumQ (map (fun i => nthq ws1 i * rho ps i j) (seq 0 L)) * nthq ws2 j)).
    2:{ intros j. rewrite sumQ_cons, sumQ_seq_shift, rho_0S.
        rewrite (sumQ_ext_all (fun i => nthq (w1 :: ws1) (S i) * rho (p :: ps) (S i) (S j)) (fun i => nthq ws1 i * rho ps i j)) by (intros i; rewrite rho_SS; reflexivity).
        unfold nthq. cbn [nth]. ring. }
    rewrite sumQ_plus, sumQ_scal. change (nthq (w1 :: ws1) 0) with w1. change (nthq (w2 :: ws2) 0) with w2. ring.
Qed.

(** * factors of one half: loci separated by a gap with p = 1/2 (a chromosome boundary) are uncorrelated *)
Lemma rho_zero : forall ps i j k, (Nat.min i j <= k < Nat.max i j)%nat -> nth k ps 0 == 1#2 -> rho ps i j == 0.
Proof.
  induction ps as [|p ps IH]; intros i j k Hk Hp.
  - destruct k; cbn in Hp; discriminate.
  - destruct i as [|i], j as [|j].
    + lia.
    + rewrite rho_0S. destruct k as [|k]; cbn [nth] in Hp; [rewrite Hp; ring|].
      rewrite (IH 0%nat j k); [ring|lia|exact Hp].
    + rewrite rho_sym, rho_0S. destruct k as [|k]; cbn [nth] in Hp; [rewrite Hp; ring|].
      rewrite (IH 0%nat i k); [ring|lia|exact Hp].
    + rewrite rho_SS. destruct k as [|k]; [lia|].
      cbn [nth] in Hp. apply (IH i j k); [lia|exact Hp].
Qed.
