(** C20 — proofs, part 5: the statements used by Props/C20.v. *)
From PV Require Import Lib.Common Model.C20_Loop Proofs.C20_Loop Proofs.C20_Chain Proofs.C20_Heap Proofs.C20_Indep.
Local Open Scope nat_scope.
Arguments hget : simpl never.

Section Main.
Variable h0 : heap.
Variable start : list (option loc).
Hypothesis Hwf : start_wf h0 start.
Hypothesis Hlen5 : length start = 5.
Hypothesis Hinit : forallb (fun o : option loc => match o with Some _ => true | None => false end) start = true.
Variable ops : opset.
Hypothesis Hops : ops_wb ops.

Lemma ispec_evolve strict initres nrep ngen li lo : (lo <= 1)%Z ->
  ispec h0 start (evolve ops strict initres nrep ngen li) false lo false lo.
Proof.
  intros Hlo. unfold evolve. eapply ispec_andthen; [|apply ispec_replicates; auto].
  intros st Hi. assert (E : is_initialized st = true) by (unfold is_initialized; destruct Hi as (-> & _); exact Hinit).
  rewrite E. exact (ispec_ret h0 start false lo st Hi).
Qed.

Lemma ispec_evolve_calls strict initres calls lo : (lo <= 1)%Z ->
  ispec h0 start (evolve_calls ops strict initres calls) false lo false lo.
Proof.
  intros Hlo. induction calls as [|[[nrep ngen] li] t IH]; cbn [evolve_calls]; [apply ispec_ret|].
  eapply ispec_andthen; [apply ispec_evolve; auto | exact IH].
Qed.

Theorem start_and_replicates strict initres calls lo st : (lo <= 1)%Z -> inv h0 start false lo st ->
  match evolve_calls ops strict initres calls st with
  | (st', evs, ok) =>
      p_start st' = start /\ (forall l, SR h0 start l -> hget (p_heap st') l = hget h0 l) /\ Forall (Qev h0 start) evs
  end.
Proof.
  intros Hlo Hi. pose proof (ispec_evolve_calls strict initres calls lo Hlo st Hi) as H.
  destruct (evolve_calls _ _ _ _ st) as [[st' evs] ok]. destruct H as (_ & (S & F) & Q). auto.
Qed.
End Main.

(** a programme that has not run yet satisfies the invariant: nothing but the start containers refers to the start state *)
Lemma inv_initial h0 start st lo :
  p_heap st = h0 -> p_start st = start -> length (p_work st) = length start -> (lo <= p_t st)%Z ->
  (forall l, ~ In (Some l) (p_work st)) -> (forall l, ~ In (Some l) (p_stash st)) ->
  inv h0 start false lo st.
Proof.
  intros Eh Es Ew Et Hw Hs. unfold inv. rewrite Eh.
  split; [exact Es|]. split; [exact Ew|]. split; [exact Et|]. split; [lia|]. split; [reflexivity|].
  exists (fun _ => False).
  split; [intros y kk k l' []|]. split; [intros y []|]. split; [intros y []|].
  split; [intros y Hin; exact (Hw _ Hin)|]. split; [intros y Hin; exact (Hs _ Hin)|]. discriminate.
Qed.

(** the start region is closed: the theorem protects the containers and every leaf they hold *)
Lemma SR_covers h0 start d kvs k l :
  In (Some d) start -> hget h0 d = Some (ODict kvs) -> In (k, l) kvs -> SR h0 start d /\ SR h0 start l.
Proof. intros Hd Hg Hk. split; [now left | right; eauto 6]. Qed.

(** contents (what == compares) of a start container are a function of the protected cells only *)
Lemma start_contents_preserved h0 start h d :
  In (Some d) start -> (forall l, SR h0 start l -> hget h l = hget h0 l) -> content1 h d = content1 h0 d.
Proof. intros. now apply (content1_agree h0 start). Qed.

(** an uninitialised programme first stores what the initialisation operator returned and then runs the loop on it —
    whether the operator declares [miscout] as required ([strict]) or not *)
Theorem evolve_initialises ops strict initres nrep ngen li st :
  is_initialized st = false -> length initres = 5 ->
  evolve ops strict initres nrep ngen li st =
    (let st1 := mkSt (p_heap st) (p_stash st) initres (p_work st) (p_t st) (p_tmax st) (p_rep st) (p_mcfg st) (p_misc st) in
     let '(st', evs, ok) := iter (Z.to_nat nrep) (replicate ops ngen li) st1 in
     (st', mkEv T_INIT 0 0 0 [] [] [] [] 0 [] (p_heap st) (p_heap st) :: evs, ok)).
Proof.
  intros Hi Hl. unfold evolve, andthen, initialize. rewrite Hi, Hl. cbn [Nat.eqb].
  destruct (iter _ _ _) as [[st' evs] ok]. reflexivity.
Qed.

(** the call before commit b17284d4 (no [miscout] argument): with an operator following the abstract signature evolve
    failed before anything was evaluated *)
Theorem init_without_miscout_refuted :
  exists (ops : opset) (st : pstate) (initres : list (option loc)),
    is_initialized st = false /\ length initres = 5 /\
    forallb (fun o : option loc => match o with Some _ => true | None => false end) initres = true /\
    evolve_old ops true initres 1 1 true st = (st, [], false) /\
    snd (evolve ops true initres 1 1 true st) = true.
Proof.
  exists (interp (mkProgs [] [] [] [] [] [] [] [] [])),
         (init_state [[1%Z]] [[(0%Z, 0)]; []; []; []; []] [None; None; None; None; None] 1 0),
         [Some 1; Some 2; Some 3; Some 4; Some 5].
  repeat split.
Qed.

(** deep copy: only allocates, the copy is fresh and has equal contents *)
Theorem deepcopy_fresh_equal h d h' d' :
  deepcopy h d = Some (h', d') ->
  (exists ext, h' = h ++ ext) /\ length h <= d' < length h' /\
  (forall x, In x (snap1 h' d') -> length h <= snd (fst x) < length h') /\
  ((forall kvs k l, hget h d = Some (ODict kvs) -> In (k, l) kvs -> l < length h) -> content1 h' d' = content1 h d).
Proof.
  intros Hd. destruct (deepcopy_facts _ _ _ _ Hd) as (E & R & _ & L & kvs & Hg & Hc).
  repeat split; auto; try lia; try (apply L; auto). intros Hv. apply Hc. intros k l. apply Hv. exact Hg.
Qed.

(** the theorem applied to the states the correspondence runs on: a freshly constructed, initialised programme with
    operators and logbook given by arbitrary action programs *)
Theorem case_start_protected leaves dicts start g strict initres calls tmax rep0 :
  let st := init_state leaves dicts start tmax rep0 in
  start_wf (p_heap st) (p_start st) -> length start = 5 -> is_initialized st = true ->
  match evolve_calls (interp g) strict initres calls st with
  | (st', evs, ok) =>
      p_start st' = p_start st /\ (forall l, SR (p_heap st) (p_start st) l -> hget (p_heap st') l = hget (p_heap st) l)
      /\ Forall (Qev (p_heap st) (p_start st)) evs
  end.
Proof.
  intros st Hwf Hlen Hinit.
  assert (Hl5 : length (p_start st) = 5) by (unfold st, init_state; cbn; now rewrite map_length).
  apply (start_and_replicates (p_heap st) (p_start st) Hwf Hl5 Hinit (interp g) (interp_wb g) strict initres calls 0%Z st); [lia|].
  apply inv_initial; auto.
  - unfold st, init_state; cbn. lia.
  - unfold st, init_state; cbn. intros l H. repeat (destruct H as [H|H]; [discriminate|]). exact H.
  - unfold st, init_state; cbn. intros l H. repeat (destruct H as [H|H]; [discriminate|]). exact H.
Qed.

(** the hypotheses are satisfiable: a concrete heap with shared leaves, all five start containers present *)
Lemma example_start_wf :
  let st := init_state [[1; 2]; [3]]%Z [[(0%Z, 0); (1%Z, 0)]; [(0%Z, 1)]; []; []; [(2%Z, 1)]] [Some 0; Some 1; Some 0; Some 3; Some 4] 5 0 in
  start_wf (p_heap st) (p_start st) /\ length (p_start st) = 5 /\ is_initialized st = true
  /\ inv (p_heap st) (p_start st) false 0 st
  /\ ops_wb (interp (mkProgs [AApp 0 0 7; ASet 5 0 [1%Z]] [AAppT 1 0; ADel 0 2] [ASetT 3 1; AStash 0 0] [ANew 0; AUnstash 2 0] [] [] [] [] [])).
Proof.
  cbn zeta. split; [|split; [reflexivity|split; [reflexivity|split]]].
  - intros d Hin. cbn in Hin.
    repeat (destruct Hin as [Hin|Hin]; [injection Hin as <-; eexists; split; [reflexivity|];
                                         intros k l Hk; cbn in Hk; repeat (destruct Hk as [Hk|Hk]; [injection Hk as <- <-; eexists; reflexivity|]); destruct Hk|]).
    destruct Hin.
  - apply inv_initial; cbn; auto; try lia; intros l H; repeat (destruct H as [H|H]; [discriminate|]); exact H.
  - apply interp_wb.
Qed.
