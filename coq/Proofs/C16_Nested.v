(** C16 — the HDF5 round trip for classes with a dictionary-valued field (genomic-model hyper-parameters):
    h5py_File_write_dict as it stands clears the group of a dictionary item before writing its members, so that after an
    overwrite the group holds exactly the members written; h5py_File_read_dict returns them. *)
From Coq Require Import String Ascii.
From PV Require Import Lib.Common Lib.C16_Spec Model.C16_Store Proofs.C16_Utf8 Proofs.C16_Store.
Local Open Scope Z_scope.

(** ** well-formed files: every entry's parent exists (true of every HDF5 file; the empty file; preserved by del / create) *)
Definition parents_ok (f : file) : Prop := forall q n, In (q, n) f -> q <> [] -> mem (removelast q) f = true.

Lemma prefixes_spec p : forall r, In r (prefixes p) <-> exists t, t <> [] /\ p = r ++ t.
Proof.
  induction p as [|a p IH]; intro r; cbn [prefixes].
  - split; [contradiction|]. intros [t [Ht E]]. destruct r; destruct t; cbn in E; congruence.
  - split.
    + intros [<-|H]; [exists (a :: p); split; [discriminate | reflexivity]|].
      apply in_map_iff in H as [r' [<- H]]. apply IH in H as [t [Ht E]]. exists t. split; [exact Ht | cbn; congruence].
    + intros [t [Ht E]]. destruct r as [|x r']; [left; reflexivity|]. right. cbn in E. injection E as Ex Ep. subst x.
      apply in_map. apply (proj2 (IH r')). exists t. split; [exact Ht | exact Ep].
Qed.
Lemma prefixes_removelast p : p <> [] -> In (removelast p) (prefixes p).
Proof. intro H. apply prefixes_spec. exists [last p []]. split; [discriminate | apply app_removelast_last; exact H]. Qed.
Lemma prefixes_removelast_in p r : In r (prefixes p) -> r <> [] -> In (removelast r) (prefixes p).
Proof.
  intros H Hr. apply prefixes_spec in H as [t [Ht E]]. apply prefixes_spec. exists ([last r []] ++ t). split; [discriminate|].
  rewrite app_assoc. rewrite <- app_removelast_last by exact Hr. exact E.
Qed.
Lemma is_prefix_app p : forall q, is_prefix p q = true <-> exists t, q = p ++ t.
Proof.
  induction p as [|a p IH]; intro q; cbn.
  - split; [intros _; exists q; reflexivity | reflexivity].
  - destruct q as [|b q]; [split; [discriminate | intros [t E]; discriminate]|]. split.
    + intro H. apply andb_prop in H as [H1 H2]. apply str_eqb_eq in H1. subst b. apply IH in H2 as [t ->]. exists t. reflexivity.
    + intros [t E]. inversion E; subst. rewrite (proj2 (str_eqb_eq a a) eq_refl). cbn. apply IH. exists t. reflexivity.
Qed.
Lemma is_prefix_removelast p q : is_prefix p (removelast q) = true -> is_prefix p q = true.
Proof.
  intro H. destruct q as [|x q'] using rev_ind; [exact H|]. rewrite removelast_last in H. apply is_prefix_app in H as [t ->].
  apply is_prefix_app. exists (t ++ [x]). rewrite app_assoc. reflexivity.
Qed.
Lemma is_prefix_parent p q : is_prefix p q = true -> length q = S (length p) -> removelast q = p.
Proof.
  intros H L. apply is_prefix_app in H as [t ->]. rewrite app_length in L. destruct t as [|x [|y t]]; cbn in L; try lia.
  apply removelast_last.
Qed.

Lemma parents_del p f : parents_ok f -> parents_ok (del p f).
Proof.
  intros H q n Hin Hq. unfold del in Hin. apply filter_In in Hin as [Hin Hp]. cbn [fst] in Hp. apply negb_true_iff in Hp.
  unfold mem. rewrite lookup_del_other; [exact (H q n Hin Hq)|].
  destruct (is_prefix p (removelast q)) eqn:E; [|reflexivity]. apply is_prefix_removelast in E. congruence.
Qed.
Lemma in_new_groups p f e : In e (new_groups p f) -> In (fst e) (prefixes p) /\ snd e = NGroup.
Proof.
  unfold new_groups. induction (prefixes p) as [|r l IH]; cbn [fold_right]; [contradiction|].
  destruct (mem r f); [intro H; destruct (IH H); split; [right|]; assumption|].
  intros [<-|H]; [split; [left|]; reflexivity | destruct (IH H); split; [right|]; assumption].
Qed.
Lemma parents_create p d f f2 : create p d f = inl f2 -> parents_ok f -> parents_ok f2.
Proof.
  intros Hc H q n Hin Hq. pose proof (create_inl _ _ _ _ Hc) as [_ E]. rewrite E in Hin. destruct Hin as [Hin|Hin].
  - inversion Hin; subst q n. eapply mem_create_prefix; [exact Hc | apply prefixes_removelast; exact Hq].
  - apply in_app_or in Hin as [Hin|Hin].
    + apply in_new_groups in Hin as [Hin _]. cbn [fst] in Hin. eapply mem_create_prefix; [exact Hc | apply prefixes_removelast_in; assumption].
    + eapply mem_create_keeps; [exact Hc | exact (H q n Hin Hq)].
Qed.

Lemma write_flat_parents v l : forall f g ow f' e, write_flat v f g l ow = (f', e) -> parents_ok f -> parents_ok f'.
Proof.
  induction l as [|[k [[d|]|]] t IH]; intros f g ow f' e Hw H; cbn [write_flat] in Hw.
  - inversion Hw; subst; exact H.
  - set (f1 := if mem (split_path (g ++ k)) f && ow then del (split_path (g ++ k)) f else f) in *.
    assert (H1 : parents_ok f1) by (unfold f1; destruct (_ && _); [apply parents_del|]; exact H).
    destruct (create _ d f1) as [f2|er] eqn:Ec; [eapply IH; [exact Hw | eapply parents_create; eauto] | inversion Hw; subst; exact H1].
  - inversion Hw; subst; exact H.
  - eapply IH; [exact Hw|]. destruct (_ && _); [apply parents_del|]; exact H.
Qed.
Lemma write_dict_parents v l : forall f g ow f' e, write_dict v f g l ow = (f', e) -> parents_ok f -> parents_ok f'.
Proof.
  induction l as [|[k it] t IH]; intros f g ow f' e Hw H; cbn [write_dict] in Hw.
  - inversion Hw; subst; exact H.
  - destruct it as [|d|sub|].
    + eapply IH; [exact Hw|]. destruct (_ && _); [apply parents_del|]; exact H.
    + set (f1 := if mem (split_path (g ++ k)) f && ow then del (split_path (g ++ k)) f else f) in *.
      assert (H1 : parents_ok f1) by (unfold f1; destruct (_ && _); [apply parents_del|]; exact H).
      destruct (create _ d f1) as [f2|er] eqn:Ec; [eapply IH; [exact Hw | eapply parents_create; eauto] | inversion Hw; subst; exact H1].
    + set (f0 := if clears_dict v && ow && mem (split_path (g ++ k)) f then del (split_path (g ++ k)) f else f) in *.
      assert (H0 : parents_ok f0) by (unfold f0; destruct (_ && _); [apply parents_del|]; exact H).
      destruct (write_flat v f0 ((g ++ k) ++ [47]) sub true) as [f1 [er|]] eqn:Ew.
      * inversion Hw; subst. eapply write_flat_parents; eauto.
      * eapply IH; [exact Hw|]. eapply write_flat_parents; eauto.
    + inversion Hw; subst; exact H.
Qed.
Lemma parents_nil : parents_ok []. Proof. intros q n []. Qed.

(** ** the members of a group *)
Lemma filter_none {A} (g : A -> bool) (l : list A) : (forall e, In e l -> g e = false) -> filter g l = [].
Proof. induction l as [|x l IH]; intro H; [reflexivity|]. cbn. rewrite (H x (or_introl eq_refl)). apply IH. intros e He. apply H. right. exact He. Qed.
Definition is_kid (p : path) (e : path * node) : bool := is_prefix p (fst e) && Nat.eqb (length (fst e)) (S (length p)).
Lemma kids_eq p f : kids p f = filter (is_kid p) f. Proof. reflexivity. Qed.

Lemma lookup_in q f n : lookup q f = Some n -> q <> [] -> In (q, n) f.
Proof.
  intros H Hq. destruct q as [|a q]; [congruence|]. unfold lookup in H. destruct (find _ f) as [[r m]|] eqn:E; [|discriminate].
  cbn in H. inversion H; subst m. apply find_some in E as [Hin E]. cbn [fst] in E. apply path_eqb_eq in E. subst r. exact Hin.
Qed.
Lemma kids_nil_absent p f : parents_ok f -> mem p f = false -> kids p f = [].
Proof.
  intros H Hm. apply filter_none. intros [q n] Hin. cbn [fst]. destruct (is_prefix p q && Nat.eqb (length q) (S (length p))) eqn:E; [|reflexivity].
  apply andb_prop in E as [E1 E2]. apply Nat.eqb_eq in E2. assert (Hq : q <> []) by (destruct q; [discriminate | discriminate]).
  pose proof (H q n Hin Hq) as M. rewrite (is_prefix_parent p q E1 E2) in M. congruence.
Qed.
Lemma kids_del_same p f : kids p (del p f) = [].
Proof.
  apply filter_none. intros [q n] Hin. unfold del in Hin. apply filter_In in Hin as [_ Hp]. cbn [fst] in *. apply negb_true_iff in Hp. rewrite Hp. reflexivity.
Qed.
Lemma filter_filter_same {A} (g h : A -> bool) (l : list A) : (forall e, g e = true -> h e = true) -> filter g (filter h l) = filter g l.
Proof.
  intro H. induction l as [|x l IH]; [reflexivity|]. cbn. destruct (h x) eqn:Eh; cbn; [rewrite IH; reflexivity|].
  destruct (g x) eqn:Eg; [rewrite (H x Eg) in Eh; discriminate | exact IH].
Qed.
Lemma sibling_excl b k k0 q : k0 <> k -> is_prefix (b ++ [k]) q = true -> is_prefix (b ++ [k0]) q = false.
Proof.
  intros Hn H. destruct (is_prefix (b ++ [k0]) q) eqn:E; [|reflexivity]. apply is_prefix_app in H as [t ->]. apply is_prefix_app in E as [t' E].
  rewrite <- !app_assoc in E. apply app_inv_head in E. cbn in E. congruence.
Qed.
Lemma kids_del_sibling b k k0 f : k0 <> k -> kids (b ++ [k]) (del (b ++ [k0]) f) = kids (b ++ [k]) f.
Proof.
  intro Hn. unfold kids, del. apply filter_filter_same. intros [q n] E. cbn [fst] in *. apply andb_prop in E as [E _].
  rewrite (sibling_excl b k k0 q Hn E). reflexivity.
Qed.
Lemma kids_create p q d f f2 : create q d f = inl f2 -> (length q <= S (length p))%nat ->
  kids p f2 = (if is_kid p (q, NData d) then [(q, NData d)] else []) ++ kids p f.
Proof.
  intros Hc L. pose proof (create_inl _ _ _ _ Hc) as [_ ->]. unfold kids at 1. fold (is_kid p). cbn [filter].
  rewrite filter_app. rewrite (filter_none (is_kid p) (new_groups q f)).
  - destruct (is_kid p (q, NData d)); reflexivity.
  - intros e He. apply in_new_groups in He as [He _]. apply prefixes_length in He. unfold is_kid.
    replace (Nat.eqb (length (fst e)) (S (length p))) with false; [apply andb_false_r|]. symmetry. apply Nat.eqb_neq. lia.
Qed.
Lemma lookup_create_mem p d f f2 q : create p d f = inl f2 -> mem q f = true -> lookup q f2 = lookup q f.
Proof.
  intros H Hm. pose proof (create_inl _ _ _ _ H) as [Hp ->]. destruct q as [|a q]; [reflexivity|].
  rewrite lookup_cons_ne; [apply lookup_new_groups_mem; exact Hm | discriminate | intro; subst p; congruence].
Qed.
Lemma lookup_new_groups_created p f q : In q (prefixes p) -> mem q f = false -> q <> [] -> lookup q (new_groups p f ++ f) = Some NGroup.
Proof.
  intros Hq Hm Hne. unfold new_groups. induction (prefixes p) as [|r l IH]; [contradiction|]. cbn [fold_right].
  destruct (path_eqb r q) eqn:E.
  - apply path_eqb_eq in E. subst r. rewrite Hm. cbn [app]. apply lookup_cons_eq. exact Hne.
  - apply path_eqb_neq in E. destruct Hq as [Hq|Hq]; [congruence|]. destruct (mem r f); [exact (IH Hq)|].
    cbn [app]. rewrite lookup_cons_ne by (try exact Hne; exact E). exact (IH Hq).
Qed.
Lemma lookup_create_group p d f f2 q : create p d f = inl f2 -> In q (prefixes p) -> mem q f = false -> q <> [] -> lookup q f2 = Some NGroup.
Proof.
  intros H Hq Hm Hne. pose proof (create_inl _ _ _ _ H) as [Hp ->]. rewrite lookup_cons_ne; [apply lookup_new_groups_created; assumption | exact Hne |].
  intro E. subst q. apply prefixes_length in Hq. lia.
Qed.

(** ** a dictionary item: its members are written into the (cleared) group  [gn ++ k ++ "/"] *)
Definition live (p : path) (sub : list (str * option (option dset))) : file :=
  flat_map (fun kv => match snd kv with Some (Some d) => [(p ++ [fst kv], NData d)] | _ => [] end) sub.
Definition ok_sub (sub : list (str * option (option dset))) : Prop :=
  (forall kk v, In (kk, v) sub -> simple kk /\ v <> Some None) /\ NoDup (map fst sub).

Section Nest.
Variable gn : str.
Hypothesis Hgn : gwf gn.
Let b := split_path gn.

Lemma outer_path k : simple k -> split_path (gn ++ k) = b ++ [k].
Proof. intro Hk. apply path_of_key; assumption. Qed.
Lemma nest_gwf k : gwf ((gn ++ k) ++ [47]).
Proof. right. split; [destruct (gn ++ k); discriminate | apply last_last]. Qed.
Lemma nest_path k kk : simple k -> simple kk -> split_path (((gn ++ k) ++ [47]) ++ kk) = (b ++ [k]) ++ [kk].
Proof.
  intros Hk Hkk. rewrite (path_of_key _ kk (nest_gwf k) Hkk). f_equal. unfold split_path. rewrite split_aux_trailing. apply outer_path. exact Hk.
Qed.
Lemma bk_nonnil k : b ++ [k] <> []. Proof. destruct b; discriminate. Qed.

Lemma write_flat_effect k (Hk : simple k) sub : forall f f1, ok_sub sub ->
  (forall kk, In kk (map fst sub) -> mem ((b ++ [k]) ++ [kk]) f = false) ->
  write_flat VCur f ((gn ++ k) ++ [47]) sub true = (f1, None) ->
  kids (b ++ [k]) f1 = rev (live (b ++ [k]) sub) ++ kids (b ++ [k]) f
  /\ (forall q, mem q f = true -> lookup q f1 = lookup q f)
  /\ (forall k2, k2 <> k -> lookup (b ++ [k2]) f1 = lookup (b ++ [k2]) f /\ kids (b ++ [k2]) f1 = kids (b ++ [k2]) f)
  /\ (mem (b ++ [k]) f = false -> lookup (b ++ [k]) f1 = match live (b ++ [k]) sub with [] => None | _ => Some NGroup end)
  /\ (live (b ++ [k]) sub <> [] -> mem b f1 = true).
Proof.
  set (p := b ++ [k]).
  induction sub as [|[kk v] t IH]; intros f f1 [Hok Hnd] Hfresh Hw.
  - cbn in Hw. inversion Hw; subst f1. cbn [live flat_map rev app]. split; [reflexivity|]. split; [reflexivity|]. split; [split; reflexivity|].
    split; [intro Hm; apply mem_lookup; exact Hm | intro H; exfalso; apply H; reflexivity].
  - assert (Hkk : simple kk /\ v <> Some None) by (apply Hok; left; reflexivity). destruct Hkk as [Hkk Hv].
    inversion Hnd as [|? ? Hnin Hnd']; subst.
    assert (Hok' : ok_sub t) by (split; [intros; apply Hok; right; assumption | exact Hnd']).
    assert (Hm0 : mem (p ++ [kk]) f = false) by (apply Hfresh; cbn [map In fst]; left; reflexivity).
    cbn [write_flat] in Hw. rewrite (nest_path k kk Hk Hkk) in Hw. fold p in Hw. rewrite Hm0 in Hw.
    destruct v as [[d|]|]; [| congruence |].
    + cbn [andb] in Hw. destruct (create (p ++ [kk]) d f) as [f2|er] eqn:Ec; [|discriminate].
      assert (Hfresh' : forall kk', In kk' (map fst t) -> mem (p ++ [kk']) f2 = false).
      { intros kk' Hin. unfold mem. rewrite (lookup_create_other _ _ _ _ _ Ec).
        - change (mem (p ++ [kk']) f = false). apply Hfresh. cbn [map In]. right. exact Hin.
        - intro E. apply app_inj_tail in E as [_ E]. subst kk'. apply Hnin. exact Hin.
        - intro Hi. apply prefixes_length in Hi. rewrite !app_length in Hi. cbn in Hi. lia. }
      destruct (IH f2 f1 Hok' Hfresh' Hw) as [I1 [I2 [I3 [I4 I5]]]].
      assert (Hpk : is_kid p (p ++ [kk], NData d) = true).
      { unfold is_kid. cbn [fst]. rewrite (proj2 (is_prefix_app p (p ++ [kk]))) by (exists [kk]; reflexivity). rewrite app_length. cbn.
        apply Nat.eqb_eq. lia. }
      split; [|split; [|split; [|split]]].
      * rewrite I1. rewrite (kids_create p _ _ _ _ Ec) by (rewrite app_length; cbn; lia). match goal with |- context [if ?c then _ else _] => assert (Hc : c = true) by exact Hpk; rewrite Hc end.
        cbn [live flat_map snd fst]. fold (live p t). cbn [app rev]. rewrite <- app_assoc. reflexivity.
      * intros q Hq. rewrite I2 by (eapply mem_create_keeps; eauto). eapply lookup_create_mem; eauto.
      * intros k2 Hk2. destruct (I3 k2 Hk2) as [J1 J2]. split.
        -- rewrite J1. apply (lookup_create_other _ _ _ _ _ Ec).
           ++ intro E. apply (f_equal (@length _)) in E. unfold p in E. rewrite !app_length in E. cbn in E. lia.
           ++ intro Hi. apply prefixes_spec in Hi as [t0 [_ E]]. unfold p in E. rewrite <- !app_assoc in E. apply app_inv_head in E. cbn in E. congruence.
        -- rewrite J2. rewrite (kids_create (b ++ [k2]) _ _ _ _ Ec) by (unfold p; rewrite !app_length; cbn; lia).
           match goal with |- context [if ?c then _ else _] => assert (Hc : c = false); [|rewrite Hc; reflexivity] end. unfold is_kid. cbn [fst].
           rewrite (sibling_excl b k k2 (p ++ [kk]) Hk2) by (apply is_prefix_app; exists [kk]; reflexivity). reflexivity.
      * intro Hm. cbn [live flat_map snd fst app].
        assert (L : lookup p f2 = Some NGroup).
        { eapply lookup_create_group; [exact Ec | apply prefixes_snoc | exact Hm | apply bk_nonnil]. }
        rewrite I2 by (unfold mem; rewrite L; reflexivity). exact L.
      * intros _. unfold mem. rewrite I2.
        -- change (mem b f2 = true). eapply mem_create_prefix; [exact Ec|]. apply prefixes_spec. exists ([k] ++ [kk]). split; [discriminate|].
           unfold p. rewrite <- app_assoc. reflexivity.
        -- eapply mem_create_prefix; [exact Ec|]. apply prefixes_spec. exists ([k] ++ [kk]). split; [discriminate|].
           unfold p. rewrite <- app_assoc. reflexivity.
    + cbn [clears_none andb] in Hw.
      assert (Hfresh' : forall kk', In kk' (map fst t) -> mem (p ++ [kk']) f = false) by (intros; apply Hfresh; cbn [map In]; right; assumption).
      destruct (IH f f1 Hok' Hfresh' Hw) as [I1 [I2 [I3 [I4 I5]]]]. cbn [live flat_map snd app]. fold (live p t).
      split; [exact I1|]. split; [exact I2|]. split; [exact I3|]. split; [exact I4 | exact I5].
Qed.
End Nest.

(** ** h5py_File_write_dict with dictionary items, overwriting *)
Definition ok_item (it : item) : Prop := it = INone \/ (exists d, it = IData d) \/ (exists sub, it = IDict sub /\ ok_sub sub).

Lemma write_dict_cons v f g k it t ow :
  write_dict v f g ((k, it) :: t) ow = match write_dict v f g [(k, it)] ow with (f1, None) => write_dict v f1 g t ow | r => r end.
Proof.
  cbn [write_dict]. destruct it as [|d|sub|]; try reflexivity.
  - destruct (create _ d _); reflexivity.
  - destruct (write_flat _ _ _ _ _) as [f1 [e|]]; reflexivity.
Qed.
Lemma kids_nil_fresh p f kk : kids p f = [] -> mem (p ++ [kk]) f = false.
Proof.
  intro H. destruct (lookup (p ++ [kk]) f) as [n|] eqn:E; [|apply mem_lookup; exact E]. exfalso.
  apply lookup_in in E; [|destruct p; discriminate]. assert (Hin : In (p ++ [kk], n) (kids p f)).
  { apply filter_In. split; [exact E|]. cbn [fst]. rewrite (proj2 (is_prefix_app p (p ++ [kk]))) by (exists [kk]; reflexivity).
    rewrite app_length. cbn. apply Nat.eqb_eq. lia. }
  rewrite H in Hin. exact Hin.
Qed.
Lemma is_prefix_longer p q : (length q < length p)%nat -> is_prefix p q = false.
Proof. intro L. destruct (is_prefix p q) eqn:E; [|reflexivity]. apply is_prefix_length in E. lia. Qed.

Definition post_of (b : path) (f' : file) (k : str) (it : item) : Prop :=
  match it with
  | INone => lookup (b ++ [k]) f' = None
  | IData d => lookup (b ++ [k]) f' = Some (NData d) /\ mem b f' = true
  | IDict sub => kids (b ++ [k]) f' = rev (live (b ++ [k]) sub)
                 /\ lookup (b ++ [k]) f' = match live (b ++ [k]) sub with [] => None | _ => Some NGroup end
                 /\ (live (b ++ [k]) sub <> [] -> mem b f' = true)
  | IBad => True
  end.

Section Outer.
Variable gn : str.
Hypothesis Hgn : gwf gn.
Let b := split_path gn.

Lemma step_effect k0 it0 f f2 : simple k0 -> ok_item it0 -> parents_ok f -> write_dict VCur f gn [(k0, it0)] true = (f2, None) ->
  parents_ok f2
  /\ (forall k, k <> k0 -> lookup (b ++ [k]) f2 = lookup (b ++ [k]) f /\ kids (b ++ [k]) f2 = kids (b ++ [k]) f)
  /\ (mem b f = true -> mem b f2 = true)
  /\ post_of b f2 k0 it0.
Proof.
  intros Hk0 Hok Hpar Hw. cbn [write_dict] in Hw. rewrite (outer_path gn Hgn k0 Hk0) in Hw. fold b in Hw. set (p := b ++ [k0]) in *.
  assert (Hpne : p <> []) by (unfold p; destruct b; discriminate).
  assert (Hsib_l : forall k g, k <> k0 -> lookup (b ++ [k]) (if mem p f then del p f else g) = lookup (b ++ [k]) (if mem p f then f else g)).
  { intros k g Hn. destruct (mem p f); [|reflexivity]. apply lookup_del_other. apply is_prefix_sibling. congruence. }
  assert (Hsib_k : forall k, k <> k0 -> kids (b ++ [k]) (if mem p f then del p f else f) = kids (b ++ [k]) f).
  { intros k Hn. destruct (mem p f); [|reflexivity]. apply kids_del_sibling. congruence. }
  assert (Hbase : mem b f = true -> mem b (if mem p f then del p f else f) = true).
  { intro Hm. destruct (mem p f); [|exact Hm]. unfold mem. rewrite lookup_del_other; [exact Hm|]. apply is_prefix_longer. unfold p. rewrite app_length. cbn. lia. }
  assert (Hpar1 : parents_ok (if mem p f then del p f else f)) by (destruct (mem p f); [apply parents_del|]; exact Hpar).
  destruct Hok as [->|[[d ->]|[sub [-> Hsub]]]].
  - cbn [clears_none andb] in Hw. inversion Hw; subst f2. clear Hw. split; [exact Hpar1|]. split; [|split; [exact Hbase|]].
    + intros k Hn. split; [rewrite (Hsib_l k f Hn); destruct (mem p f); reflexivity | apply Hsib_k; exact Hn].
    + cbn [post_of]. fold p. destruct (mem p f) eqn:E; [apply lookup_del_same; exact Hpne | apply mem_lookup; exact E].
  - rewrite andb_true_r in Hw. set (f1 := if mem p f then del p f else f) in *.
    destruct (create p d f1) as [f2'|er] eqn:Ec; [|discriminate]. inversion Hw; subst f2'. clear Hw.
    split; [eapply parents_create; eauto|]. split; [|split].
    + intros k Hn. split.
      * rewrite (lookup_create_other _ _ _ _ _ Ec).
        -- unfold f1. rewrite (Hsib_l k f Hn). destruct (mem p f); reflexivity.
        -- intro E. unfold p in E. apply app_inj_tail in E as [_ E]. congruence.
        -- intro Hi. apply prefixes_length in Hi. unfold p in Hi. rewrite !app_length in Hi. cbn in Hi. lia.
      * rewrite (kids_create (b ++ [k]) _ _ _ _ Ec) by (unfold p; rewrite !app_length; cbn; lia).
        match goal with |- context [if ?c then _ else _] => assert (Hc : c = false); [|rewrite Hc] end.
        { unfold is_kid. cbn [fst]. unfold p. rewrite !app_length. cbn. replace (Nat.eqb (length b + 1) (S (length b + 1))) with false; [apply andb_false_r|].
          symmetry. apply Nat.eqb_neq. lia. }
        cbn [app]. apply Hsib_k. exact Hn.
    + intro Hm. eapply mem_create_keeps; [exact Ec | apply Hbase; exact Hm].
    + cbn [post_of]. fold p. split; [eapply lookup_create_same; eauto|]. eapply mem_create_prefix; [exact Ec | apply prefixes_snoc].
  - cbn [clears_dict andb] in Hw. set (f0 := if mem p f then del p f else f) in *.
    destruct (write_flat VCur f0 ((gn ++ k0) ++ [47]) sub true) as [f1 [er|]] eqn:Ew; [discriminate|]. inversion Hw; subst f1. clear Hw.
    assert (Hm0 : mem p f0 = false).
    { unfold f0. destruct (mem p f) eqn:E; [|exact E]. apply mem_lookup. apply lookup_del_same. exact Hpne. }
    assert (Hk0s : kids p f0 = []).
    { unfold f0. destruct (mem p f) eqn:E; [apply kids_del_same | apply kids_nil_absent; assumption]. }
    destruct (write_flat_effect gn Hgn k0 Hk0 sub f0 f2 Hsub (fun kk _ => kids_nil_fresh p f0 kk Hk0s) Ew) as [I1 [I2 [I3 [I4 I5]]]].
    fold b in I1, I3, I4, I5. fold p in I1, I4, I5.
    split; [eapply write_flat_parents; eauto|]. split; [|split].
    + intros k Hn. destruct (I3 k Hn) as [J1 J2]. split.
      * rewrite J1. unfold f0. rewrite (Hsib_l k f Hn). destruct (mem p f); reflexivity.
      * rewrite J2. apply Hsib_k. exact Hn.
    + intro Hm. unfold mem. rewrite I2 by (apply Hbase; exact Hm). apply Hbase. exact Hm.
    + cbn [post_of]. fold p. split; [rewrite I1, Hk0s; apply app_nil_r|]. split; [apply I4; exact Hm0 | exact I5].
Qed.

Lemma wd_tail items : forall f f', (forall k it, In (k, it) items -> simple k /\ ok_item it) -> parents_ok f ->
  write_dict VCur f gn items true = (f', None) ->
  parents_ok f'
  /\ (forall k, ~ In k (map fst items) -> lookup (b ++ [k]) f' = lookup (b ++ [k]) f /\ kids (b ++ [k]) f' = kids (b ++ [k]) f)
  /\ (mem b f = true -> mem b f' = true).
Proof.
  induction items as [|[k0 it0] t IH]; intros f f' Hit Hpar Hw.
  - cbn in Hw. inversion Hw; subst f'. split; [exact Hpar|]. split; [split; reflexivity | auto].
  - rewrite write_dict_cons in Hw. destruct (write_dict VCur f gn [(k0, it0)] true) as [f2 [er|]] eqn:E1; [discriminate|].
    destruct (Hit k0 it0 (or_introl eq_refl)) as [Hk0 Hok0].
    destruct (step_effect k0 it0 f f2 Hk0 Hok0 Hpar E1) as [S1 [S2 [S3 _]]].
    destruct (IH f2 f' (fun k it H => Hit k it (or_intror H)) S1 Hw) as [T1 [T2 T3]].
    split; [exact T1|]. split; [|auto].
    intros k Hnin. cbn [map fst In] in Hnin. destruct (T2 k (fun H => Hnin (or_intror H))) as [A1 A2].
    destruct (S2 k (fun H => Hnin (or_introl (eq_sym H)))) as [B1 B2]. split; congruence.
Qed.

Lemma wd_post items : forall f f', (forall k it, In (k, it) items -> simple k /\ ok_item it) -> NoDup (map fst items) -> parents_ok f ->
  write_dict VCur f gn items true = (f', None) -> forall k it, In (k, it) items -> post_of b f' k it.
Proof.
  induction items as [|[k0 it0] t IH]; intros f f' Hit Hnd Hpar Hw k it Hin; [contradiction|].
  rewrite write_dict_cons in Hw. destruct (write_dict VCur f gn [(k0, it0)] true) as [f2 [er|]] eqn:E1; [discriminate|].
  destruct (Hit k0 it0 (or_introl eq_refl)) as [Hk0 Hok0]. inversion Hnd as [|? ? Hnin Hnd']; subst.
  destruct (step_effect k0 it0 f f2 Hk0 Hok0 Hpar E1) as [S1 [_ [_ S4]]].
  destruct Hin as [Hin|Hin].
  - inversion Hin; subst k it. clear Hin.
    destruct (wd_tail t f2 f' (fun k it H => Hit k it (or_intror H)) S1 Hw) as [_ [T2 T3]]. destruct (T2 k0 Hnin) as [A1 A2].
    destruct it0 as [|d|sub|]; cbn [post_of] in *.
    + congruence.
    + destruct S4 as [L M]. split; [congruence | auto].
    + destruct S4 as [K [L M]]. split; [congruence|]. split; [congruence | auto].
    + exact I.
  - eapply IH; eauto. intros; apply Hit; right; assumption.
Qed.
End Outer.

(** ** to_hdf5 followed by from_hdf5, dictionary-valued fields included *)
(** what a dictionary member reads back as: python int / float come back as numpy scalars (observably equal, [sval_obs]) *)
Definition back_val (v : sval) : sval := match v with VInt z => VArr TI64 [] [z] | VFloat bits => VArr TF64 [] [bits] | _ => v end.
Definition member_exact (v : sval) : bool :=
  match encode v with Some d => opt_eqb sval_eqb (raw_member true d) (Some (back_val v)) | None => false end.
Definition wf_dict (l : list (str * option sval)) : bool :=
  nodup_z (map fst l) && forallb (fun kv => simpleb (fst kv) && match snd kv with Some v => member_exact v | None => true end) l.
Definition wf_attr (o : obj) (r : rfield) : bool :=
  match attr (rkey r) o with
  | None => ropt r                                   (* only optional fields may be None *)
  | Some (OS v) => reader_exact (rrd r) v
  | Some (OD l) => reader_eqb (rrd r) RDict && ropt r && wf_dict l
  end.
Definition wf_obj (s : cls_spec) (o : obj) : bool := forallb (wf_attr o) (reads s).

(** the members that are not None, in the order in which the file lists them (the reverse of the order of writing; python
    dictionaries are compared as finite maps, [dict_obs]); a dictionary without such members leaves no group: read as None *)
Definition fwd_dict (l : list (str * option sval)) : list (str * option sval) :=
  flat_map (fun kv => match snd kv with Some v => [(fst kv, Some (back_val v))] | None => [] end) l.
Definition back_dict (l : list (str * option sval)) : list (str * option sval) := rev (fwd_dict l).
Definition back_attr (v : option oval) : option oval :=
  match v with Some (OD l) => match back_dict l with [] => None | l' => Some (OD l') end | x => x end.
Definition proj_rd (s : cls_spec) (o : obj) : list (String.string * option oval) := map (fun r => (rslot r, back_attr (attr (rkey r) o))) (reads s).

Definition gen_spec (s : cls_spec) : bool :=
  nodup_z (map (fun kv => zs (fst kv)) (written s))
  && forallb (fun kv => String.eqb (fst kv) (snd kv)) (written s)
  && forallb (fun r => smem (rkey r) (map fst (written s))) (reads s)
  && forallb (fun kv => smem (fst kv) (map rkey (reads s))) (written s)
  && forallb (fun kv => simpleb (zs (fst kv))) (written s)
  && existsb (fun r => negb (ropt r)) (reads s)
  && forallb (fun k => existsb (fun r => String.eqb (rkey r) k && negb (ropt r)) (reads s)) (required s).

Lemma flat_gen s : flat_spec s = true -> gen_spec s = true.
Proof.
  unfold flat_spec, gen_spec. intro H. repeat (apply andb_prop in H as [H ?]). repeat (apply andb_true_intro; split); assumption.
Qed.
Lemma wf_obj_flat_of s o : flat_spec s = true -> wf_obj s o = true -> wf_obj_flat s o = true.
Proof.
  intros Hs H. unfold wf_obj, wf_obj_flat in *. rewrite forallb_forall in *. intros r Hr. specialize (H r Hr).
  unfold flat_spec in Hs. apply andb_prop in Hs as [Hs _]. apply andb_prop in Hs as [Hs _]. apply andb_prop in Hs as [Hs _]. apply andb_prop in Hs as [_ H5].
  rewrite forallb_forall in H5. specialize (H5 r Hr). apply negb_true_iff in H5.
  unfold wf_attr in H. unfold wf_attr_flat. destruct (attr (rkey r) o) as [[v|l]|]; try exact H.
  rewrite H5 in H. discriminate.
Qed.

Lemma forallb_rev' {A} (g : A -> bool) (l : list A) : forallb g l = true -> forallb g (rev l) = true.
Proof. rewrite !forallb_forall. intros H x Hx. apply H. apply in_rev. exact Hx. Qed.
Lemma opt_all_map_some {A} (l : list A) : opt_all (map Some l) = Some l.
Proof. induction l as [|x l IH]; [reflexivity|]. cbn. rewrite IH. reflexivity. Qed.

Lemma members_live p l : wf_dict l = true ->
  map (member true) (live p (map (fun kv => (fst kv, option_map encode (snd kv))) l)) = map Some (fwd_dict l)
  /\ forallb (fun e => match snd e with NData _ => true | NGroup => false end) (live p (map (fun kv => (fst kv, option_map encode (snd kv))) l)) = true.
Proof.
  unfold wf_dict. intro H. apply andb_prop in H as [_ H]. induction l as [|[kk [v|]] t IH]; [split; reflexivity | |].
  - cbn [forallb fst snd] in H. apply andb_prop in H as [H1 H2]. apply andb_prop in H1 as [_ Hv]. destruct (IH H2) as [IH1 IH2].
    unfold member_exact in Hv. destruct (encode v) as [d|] eqn:E; [|discriminate].
    destruct (raw_member true d) as [v'|] eqn:R; [|discriminate]. cbn in Hv. apply sval_eqb_eq in Hv. subst v'.
    cbn [map live flat_map fst snd option_map fwd_dict]. rewrite E. cbn [app map forallb snd]. fold (live p (map (fun kv => (fst kv, option_map encode (snd kv))) t)). fold (fwd_dict t).
    rewrite IH1, IH2. split; [|reflexivity]. f_equal. unfold member. cbn [fst snd]. rewrite R. cbn [option_map]. rewrite last_last. reflexivity.
  - cbn [forallb fst snd] in H. apply andb_prop in H as [_ H2]. destruct (IH H2) as [IH1 IH2].
    cbn [map live flat_map fst snd option_map fwd_dict app]. fold (live p (map (fun kv => (fst kv, option_map encode (snd kv))) t)). fold (fwd_dict t). split; assumption.
Qed.

Lemma ok_sub_of_dict l : wf_dict l = true -> ok_sub (map (fun kv => (fst kv, option_map encode (snd kv))) l).
Proof.
  unfold wf_dict. intro H. apply andb_prop in H as [Hnd H]. split.
  - intros kk v Hin. apply in_map_iff in Hin as [[k0 v0] [E Hin]]. cbn [fst snd] in E. inversion E; subst kk v. clear E.
    rewrite forallb_forall in H. specialize (H _ Hin). cbn [fst snd] in H. apply andb_prop in H as [Hs Hv]. split; [apply simpleb_spec; exact Hs|].
    destruct v0 as [v|]; [|discriminate]. cbn. unfold member_exact in Hv. destruct (encode v); [discriminate | discriminate].
  - rewrite map_map. cbn [fst]. apply nodup_z_spec. exact Hnd.
Qed.

Section RoundTripGen.
Variables (s : cls_spec) (o : obj).
Hypothesis Hspec : gen_spec s = true.
Hypothesis Hwf : wf_obj s o = true.

Let items := data_dict s o.
Definition enc_dict (l : list (str * option sval)) := map (fun kv => (fst kv, option_map encode (snd kv))) l.

Lemma spec_parts_gen :
  NoDup (map fst items)
  /\ (forall k a, In (k, a) (written s) -> k = a /\ simple (zs k) /\ exists r, In r (reads s) /\ rkey r = k)
  /\ (forall r, In r (reads s) -> In (rkey r, rkey r) (written s))
  /\ (exists r, In r (reads s) /\ ropt r = false)
  /\ (forall k, In k (required s) -> exists r, In r (reads s) /\ rkey r = k /\ ropt r = false).
Proof.
  pose proof Hspec as Hs. unfold gen_spec in Hs.
  apply andb_prop in Hs as [Hs H8]. apply andb_prop in Hs as [Hs H7]. apply andb_prop in Hs as [Hs H6].
  apply andb_prop in Hs as [Hs H4']. apply andb_prop in Hs as [Hs H3'].
  apply andb_prop in Hs as [H1 H2'].
  assert (Hkey : forall k a, In (k, a) (written s) -> k = a).
  { intros k a Hin. rewrite forallb_forall in H2'. specialize (H2' _ Hin). apply String.eqb_eq in H2'. exact H2'. }
  split; [|split; [|split; [|split]]].
  - unfold items, data_dict. rewrite map_map. cbn [fst]. apply nodup_z_spec. exact H1.
  - intros k a Hin. split; [eapply Hkey; eauto|]. split.
    + apply simpleb_spec. rewrite forallb_forall in H6. exact (H6 _ Hin).
    + rewrite forallb_forall in H4'. specialize (H4' _ Hin). cbn [fst] in H4'. apply smem_In in H4'.
      apply in_map_iff in H4' as [r [E Hr]]. exists r. split; assumption.
  - intros r Hr.
    rewrite forallb_forall in H3'. specialize (H3' _ Hr). apply smem_In in H3'. apply in_map_iff in H3' as [[k a] [E Hin]].
    cbn [fst] in E. subst k. pose proof (Hkey _ _ Hin) as Ea. subst a. exact Hin.
  - apply existsb_exists in H7 as [r [Hr E]]. exists r. split; [exact Hr | apply negb_true_iff; exact E].
  - intros k Hk. rewrite forallb_forall in H8. specialize (H8 _ Hk). apply existsb_exists in H8 as [r [Hr E]].
    apply andb_prop in E as [E1 E2]. apply String.eqb_eq in E1. apply negb_true_iff in E2. exists r. auto.
Qed.

Lemma item_of_read_gen r : In r (reads s) ->
  In (zs (rkey r), to_item (attr (rkey r) o)) items
  /\ match attr (rkey r) o with
     | None => to_item (attr (rkey r) o) = INone /\ ropt r = true
     | Some (OS v) => exists d, encode v = Some d /\ to_item (attr (rkey r) o) = IData d /\ read_d (rrd r) d = inl v
     | Some (OD l) => rrd r = RDict /\ ropt r = true /\ wf_dict l = true /\ to_item (attr (rkey r) o) = IDict (enc_dict l)
     end.
Proof.
  intro Hr. destruct spec_parts_gen as [_ [_ [Hrd _]]]. pose proof (Hrd r Hr) as Hin. split.
  - unfold items, data_dict. apply in_map_iff. exists (rkey r, rkey r). split; [reflexivity | exact Hin].
  - assert (W : wf_attr o r = true) by (unfold wf_obj in Hwf; rewrite forallb_forall in Hwf; exact (Hwf _ Hr)).
    unfold wf_attr in W. destruct (attr (rkey r) o) as [[v|l]|]; [| | split; [reflexivity | exact W]].
    + unfold reader_exact in W. destruct (encode v) as [d|] eqn:E; [|discriminate]. exists d. split; [reflexivity|]. split; [cbn; rewrite E; reflexivity|].
      destruct (read_d (rrd r) d) as [v'|] eqn:R; [|discriminate]. apply sval_eqb_eq in W. subst v'. reflexivity.
    + apply andb_prop in W as [W W3]. apply andb_prop in W as [W1 W2]. split; [destruct (rrd r); try discriminate; reflexivity|].
      split; [exact W2|]. split; [exact W3 | reflexivity].
Qed.

Lemma items_ok : forall k it, In (k, it) items -> simple k /\ ok_item it.
Proof.
  intros k it Hin. unfold items, data_dict in Hin. apply in_map_iff in Hin as [[k0 a0] [E Hin]]. cbn [fst snd] in E. inversion E; subst k it. clear E.
  destruct spec_parts_gen as [_ [Hw _]]. destruct (Hw _ _ Hin) as [<- [Hs [r [Hr Ek]]]]. split; [exact Hs|].
  destruct (item_of_read_gen r Hr) as [_ H]. rewrite Ek in H. destruct (attr k0 o) as [[v|l]|].
  - destruct H as [d [_ [E _]]]. right. left. exists d. exact E.
  - destruct H as [_ [_ [W E]]]. right. right. exists (enc_dict l). split; [exact E | apply ok_sub_of_dict; exact W].
  - left. apply H.
Qed.

Theorem roundtrip_gen (nt : Z) (f f' : file) (g : option str) : parents_ok f ->
  to_hdf5 VCur s f g o true = (f', None) -> from_hdf5 s nt f' g = construct s nt (proj_rd s o).
Proof.
  intro Hpar. unfold to_hdf5, from_hdf5, from_hdf5_gen. destruct (norm_group g) as [gn|e] eqn:Eg; [|discriminate]. intro Hw. fold items in Hw.
  destruct (norm_group_wf _ _ Eg) as [Hgn Hbase].
  destruct spec_parts_gen as [Hnd [Hwr [Hrd [[r0 [Hr0 Hopt0]] Hreq]]]].
  pose proof (wd_post gn Hgn items f f' items_ok Hnd Hpar Hw) as Post.
  assert (Hsimple : forall r, In r (reads s) -> split_path (gn ++ zs (rkey r)) = split_path gn ++ [zs (rkey r)]).
  { intros r Hr. apply path_of_key; [exact Hgn|]. destruct (Hwr _ _ (Hrd r Hr)) as [_ [Hs _]]. exact Hs. }
  (* what every read field finds in the file *)
  assert (Found : forall r, In r (reads s) ->
            match attr (rkey r) o with
            | None => lookup (split_path (gn ++ zs (rkey r))) f' = None /\ ropt r = true
            | Some (OS v) => exists d, lookup (split_path (gn ++ zs (rkey r))) f' = Some (NData d) /\ read_d (rrd r) d = inl v
                                       /\ mem (split_path gn) f' = true
            | Some (OD l) => rrd r = RDict /\ ropt r = true /\ wf_dict l = true
                             /\ kids (split_path (gn ++ zs (rkey r))) f' = rev (live (split_path (gn ++ zs (rkey r))) (enc_dict l))
                             /\ lookup (split_path (gn ++ zs (rkey r))) f' = match live (split_path (gn ++ zs (rkey r))) (enc_dict l) with [] => None | _ => Some NGroup end
            end).
  { intros r Hr. destruct (item_of_read_gen r Hr) as [Hin H]. specialize (Post _ _ Hin). rewrite (Hsimple r Hr). destruct (attr (rkey r) o) as [[v|l]|].
    - destruct H as [d [_ [Ei Rd]]]. rewrite Ei in Post. exists d. destruct Post as [P1 P2]. auto.
    - destruct H as [A [B [C Ei]]]. rewrite Ei in Post. destruct Post as [P1 [P2 _]]. auto.
    - destruct H as [Ei Ho]. rewrite Ei in Post. auto. }
  (* the group exists *)
  assert (Hgrp : match g with Some s0 => mem (split_path s0) f' = true | None => True end).
  { destruct g as [s0|]; [|exact I]. rewrite <- Hbase. specialize (Found r0 Hr0).
    destruct (attr (rkey r0) o) as [[v|l]|]; [destruct Found as [d [_ [_ M]]]; exact M | destruct Found as [_ [B _]]; congruence | destruct Found; congruence]. }
  replace (match g with Some s0 => negb (mem (split_path s0) f') | None => false end) with false
    by (destruct g; [rewrite Hgrp; reflexivity | reflexivity]).
  (* required fields are present *)
  assert (Hrq : forallb (fun k => mem (split_path (gn ++ zs k)) f') (required s) = true).
  { apply forallb_forall. intros k Hk. destruct (Hreq k Hk) as [r [Hr [Ek Ho]]]. specialize (Found r Hr). rewrite Ek in Found.
    destruct (attr k o) as [[v|l]|]; [destruct Found as [d [L _]]; unfold mem; rewrite L; reflexivity | destruct Found as [_ [B _]]; congruence | destruct Found; congruence]. }
  rewrite Hrq. cbn [negb].
  (* every field reads back the attribute *)
  assert (Hread : forall l, incl l (reads s) -> read_fields true f' gn l = inl (map (fun r => (rslot r, back_attr (attr (rkey r) o))) l)).
  { induction l as [|r l IH]; intro Hincl; [reflexivity|].
    assert (Hr : In r (reads s)) by (apply Hincl; left; reflexivity).
    cbn [read_fields map]. specialize (Found r Hr).
    rewrite (IH (fun x Hx => Hincl x (or_intror Hx))).
    destruct (attr (rkey r) o) as [[v|l0]|].
    - destruct Found as [d [L [Rd _]]]. unfold mem. rewrite L. rewrite andb_false_r. cbn [back_attr].
      destruct (rrd r) eqn:Er; try (unfold read; rewrite L, Rd; reflexivity). destruct d; discriminate.
    - destruct Found as [Er [Ho [W [K L]]]]. destruct (members_live (split_path (gn ++ zs (rkey r))) l0 W) as [M1 M2]. fold (enc_dict l0) in M1, M2.
      rewrite Er, Ho. unfold mem. rewrite L. cbn [back_attr]. unfold back_dict.
      destruct (live (split_path (gn ++ zs (rkey r))) (enc_dict l0)) as [|e0 lv] eqn:El.
      + cbn [map] in M1. destruct (fwd_dict l0); [reflexivity | discriminate].
      + cbn [andb negb]. unfold read_dict_gen. rewrite L, K. rewrite forallb_rev' by exact M2. rewrite map_rev, M1, <- map_rev, opt_all_map_some.
        destruct (rev (fwd_dict l0)) as [|x xs] eqn:Erev; [|reflexivity].
        exfalso. apply (f_equal (@length _)) in Erev. rewrite rev_length in Erev. apply (f_equal (@length _)) in M1. rewrite !map_length in M1. cbn in *. lia.
    - destruct Found as [L Ho]. unfold mem. rewrite L, Ho. reflexivity. }
  rewrite (Hread (reads s) (incl_refl _)). reflexivity.
Qed.
End RoundTripGen.

(** ** any history of overwrites of one location, starting from a well-formed file: the last object is read back *)
Lemma to_hdf5_parents v s f g o ow f' e : to_hdf5 v s f g o ow = (f', e) -> parents_ok f -> parents_ok f'.
Proof.
  unfold to_hdf5. destruct (norm_group g); [apply write_dict_parents | intros H; inversion H; subst; auto].
Qed.
Theorem read_after_writes_gen (s : cls_spec) : gen_spec s = true ->
  forall (os : list obj) (o : obj) (f f' : file) (g : option str) (nt : Z), parents_ok f ->
  wf_obj s o = true -> write_all VCur s f g (os ++ [o]) = (f', None) -> from_hdf5 s nt f' g = construct s nt (proj_rd s o).
Proof.
  intros Hs os. induction os as [|o0 t IH]; intros o f f' g nt Hpar Hwf Hw.
  - cbn [app write_all] in Hw. destruct (to_hdf5 VCur s f g o true) as [f1 [e|]] eqn:E; [discriminate|].
    inversion Hw; subst f1. eapply roundtrip_gen; eauto.
  - cbn [app write_all] in Hw. destruct (to_hdf5 VCur s f g o0 true) as [f1 [e|]] eqn:E; [discriminate|].
    eapply IH; [eapply to_hdf5_parents; eauto | exact Hwf | exact Hw].
Qed.

(** what is read back for a dictionary without None members is observably the dictionary written *)
Lemma sval_eqb_refl v : sval_eqb v v = true.
Proof. destruct v; cbn; rewrite ?dtype_eqb_refl, ?zl_eqb_refl, ?zll_eqb_refl, ?Z.eqb_refl; reflexivity. Qed.
Lemma sval_obs_back v : sval_obs v (back_val v) = true.
Proof.
  destruct v; cbn [back_val]; try (unfold sval_obs; rewrite sval_eqb_refl; reflexivity).
  - unfold sval_obs. cbn. rewrite Z.eqb_refl. reflexivity.
  - unfold sval_obs. cbn. rewrite Z.eqb_refl. reflexivity.
Qed.
Lemma dlookup_in {A} k (x : A) l : NoDup (map fst l) -> In (k, x) l -> dlookup k l = Some x.
Proof.
  induction l as [|[k' v] t IH]; intros Hnd Hin; [contradiction|]. cbn [dlookup]. inversion Hnd as [|? ? Hnin Hnd']; subst.
  destruct Hin as [Hin|Hin].
  - inversion Hin; subst. rewrite (proj2 (str_eqb_eq k k) eq_refl). reflexivity.
  - destruct (str_eqb k k') eqn:E; [|apply IH; assumption]. apply str_eqb_eq in E. subst k'. exfalso. apply Hnin.
    apply in_map_iff. exists (k, x). split; [reflexivity | exact Hin].
Qed.
Theorem back_dict_observable l : wf_dict l = true -> Forall (fun kv => snd kv <> None) l -> dict_obs l (back_dict l) = true.
Proof.
  intros W Hall. unfold wf_dict in W. apply andb_prop in W as [Hnd _]. apply nodup_z_spec in Hnd.
  assert (Hf : fwd_dict l = map (fun kv => (fst kv, option_map back_val (snd kv))) l).
  { clear Hnd. induction Hall as [|[k [v|]] t Hv Ht IH]; [reflexivity | | cbn in Hv; congruence]. cbn [fwd_dict flat_map map fst snd option_map app]. fold (fwd_dict t). rewrite IH. reflexivity. }
  assert (Hkeys : map fst (back_dict l) = rev (map fst l)).
  { unfold back_dict. rewrite Hf, map_rev, map_map. reflexivity. }
  assert (Hnd' : NoDup (map fst (back_dict l))) by (rewrite Hkeys; apply NoDup_rev; exact Hnd).
  unfold dict_obs. apply andb_true_intro. split; [apply andb_true_intro; split|].
  - apply Nat.eqb_eq. unfold back_dict. rewrite rev_length, Hf, map_length. reflexivity.
  - apply forallb_forall. intros [k v] Hin. cbn [fst snd].
    rewrite (dlookup_in k (option_map back_val v) (back_dict l) Hnd').
    + destruct v as [v|]; [cbn; apply sval_obs_back | reflexivity].
    + unfold back_dict. apply -> in_rev. rewrite Hf. apply in_map_iff. exists (k, v). split; [reflexivity | exact Hin].
  - apply forallb_forall. intros [k v] Hin. cbn [fst].
    assert (Hk : In k (map fst l)) by (apply in_rev; rewrite <- Hkeys; apply in_map_iff; exists (k, v); split; [reflexivity | exact Hin]).
    apply in_map_iff in Hk as [[k' v'] [E Hin']]. cbn [fst] in E. subst k'. rewrite (dlookup_in k v' l Hnd Hin'). reflexivity.
Qed.
