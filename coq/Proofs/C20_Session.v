(** C20 — sessions (Model/C20_Session.v): what holds of a whole sequence of public calls on one programme object. *)
From PV Require Import Lib.Common Model.C20_Loop Model.C20_Session Proofs.C20_Loop Proofs.C20_Chain Proofs.C20_Heap Proofs.C20_Indep Proofs.C20_Main.
Local Open Scope nat_scope.
Arguments hget : simpl never.

(** advance(ngen) as a public call, from ANY clock value t (after reset: 0; after evolve: 1 + ngen'; after the t_cur setter:
    anything): the eight calls per generation in order at t, t+1, .., t+ngen-1, the clock ends at t + ngen, nothing else
    changes; a prefix when something raises *)
Theorem advance_trace ops ngen st :
  match advance ops ngen st with
  | (st', evs, ok) =>
      (ok = true -> map sig evs = gens_sig (Z.to_nat ngen) (p_t st) (p_tmax st) (p_rep st) /\
                    p_t st' = (p_t st + Z.of_nat (Z.to_nat ngen))%Z /\ p_tmax st' = p_tmax st /\ p_rep st' = p_rep st /\
                    p_start st' = p_start st)
      /\ (ok = false -> prefix (map sig evs) (gens_sig (Z.to_nat ngen) (p_t st) (p_tmax st) (p_rep st)))
  end.
Proof.
  unfold advance. pose proof (spec_advance ops (Z.to_nat ngen) st) as H.
  destruct (iter (Z.to_nat ngen) (generation ops) st) as [[st' evs] ok]. destruct H as (H1 & H2). split.
  - intros Hok. destruct (H1 Hok) as (E & D & S). unfold scal_of in *. cbn in *. injection D as D1 D2 D3. auto 6.
  - exact H2.
Qed.

(** commands that cannot hand the operators a reference to the start state: everything except assigning containers by hand
    (start_* / working-container setters, initialize, deep copy) and the calls whose first evaluation is not a replicate
    start (advance / reset on their own); the clock may be set to anything not below [lo] *)
Definition safe_cmd (lo : Z) (c : cmd) : bool :=
  match c with
  | CEvolve _ _ _ | CIsInit | CSetTmax _ | CSetOp _ _ | CSetInit _ _ | CBook _ _ _ _ _ _ | CCopy => true
  | CSetT (Some z) => Z.leb lo z
  | CSetT None => true
  | _ => false
  end.

Section Session.
Variable h0 : heap.
Variable start : list (option loc).
Hypothesis Hwf : start_wf h0 start.
Hypothesis Hlen5 : length start = 5.
Hypothesis Hinit : forallb (fun o : option loc => match o with Some _ => true | None => false end) start = true.

Lemma Qev_other e : e_tag e <> T_EVAL -> Qev h0 start e.
Proof. intros H E. contradiction. Qed.

Lemma inv_same_fields mv lo st st' :
  p_start st' = p_start st -> p_work st' = p_work st -> (lo <= p_t st')%Z -> p_heap st' = p_heap st ->
  p_stash st' = p_stash st -> p_mcfg st' = p_mcfg st -> inv h0 start mv lo st -> inv h0 start mv lo st'.
Proof.
  intros E1 E2 E3 E4 E5 E6 (S & W & T & L & H & A & C & B & D & I1 & I2 & I3).
  unfold inv. rewrite E1, E2, E4, E5, E6. repeat split; auto. exists A. repeat split; auto.
Qed.

Lemma safe_cmd_spec lo c ss : (lo <= 1)%Z -> safe_cmd lo c = true -> inv h0 start false lo (s_st ss) ->
  match run_cmd c ss with
  | (ss', evs, ok) => (ok = true -> inv h0 start false lo (s_st ss')) /\ winv h0 start (s_st ss') /\ Forall (Qev h0 start) evs
  end.
Proof.
  intros Hlo Hs Hi. pose proof (inv_winv h0 start false lo _ Hi) as Hw.
  destruct c; try discriminate Hs; cbn [run_cmd].
  - (* evolve *)
    pose proof (ispec_evolve h0 start Hwf Hlen5 Hinit (interp (s_g ss)) (interp_wb (s_g ss)) (s_strict ss) (s_initres ss) nrep ngen li lo Hlo (s_st ss) Hi) as H.
    destruct (evolve _ _ _ _ _ _ (s_st ss)) as [[st' evs] ok]. exact H.
  - (* is_initialized *)
    split; [auto|]. split; [exact Hw|]. constructor; [|constructor]. apply Qev_other. cbn. discriminate.
  - (* t_cur setter *)
    destruct z as [z|]; cbn.
    + split; [|split; [|constructor]].
      * intros _. apply Z.leb_le in Hs. eapply inv_same_fields; [..|exact Hi]; try reflexivity. exact Hs.
      * destruct Hw as (W1 & W2). split; assumption.
    + split; [discriminate|]. split; [exact Hw|constructor].
  - (* t_max setter *)
    destruct z as [z|]; cbn.
    + split; [|split; [|constructor]].
      * intros _. destruct Hi as (S & W & T & R). eapply inv_same_fields; [..|exact (conj S (conj W (conj T R)))]; try reflexivity. exact T.
      * destruct Hw as (W1 & W2). split; assumption.
    + split; [discriminate|]. split; [exact Hw|constructor].
  - (* operator replaced *) split; [auto|]. split; [exact Hw|constructor].
  - (* initialisation operator replaced *) split; [auto|]. split; [exact Hw|constructor].
  - (* new logbook *)
    cbn. split; [|split; [|constructor]].
    + intros _. destruct Hi as (S & W & T & R). eapply inv_same_fields; [..|exact (conj S (conj W (conj T R)))]; try reflexivity. exact T.
    + destruct Hw as (W1 & W2). split; assumption.
  - (* copy.copy *) split; [auto|]. split; [exact Hw|constructor].
Qed.

(** Sessions — for ALL sequences of evolve calls interleaved with is_initialized, the t_cur / t_max setters, replacement of any
    of the four operators, of the initialisation operator and of the logbook (by arbitrary programs of the action language:
    in-place mutation, aliasing, remembering containers across calls, runs and replaced operators) and shallow copies of the
    programme object: as long as no command raises, the start containers stay the same objects, no cell of the start region
    is ever written, and every replicate of every run starts on fresh locations with the start contents — whatever the
    earlier runs and the operators installed earlier did. *)
Theorem session_start_protected cs lo ss : (lo <= 1)%Z -> forallb (safe_cmd lo) cs = true -> inv h0 start false lo (s_st ss) ->
  match run_cmds cs ss with
  | (ss', evs, ok) =>
      ok = true ->
      p_start (s_st ss') = start /\ (forall l, SR h0 start l -> hget (p_heap (s_st ss')) l = hget h0 l) /\ Forall (Qev h0 start) evs
  end.
Proof.
  intros Hlo. revert ss. induction cs as [|c t IH]; intros ss Hs Hi; cbn [run_cmds].
  - intros _. destruct (inv_winv h0 start false lo _ Hi) as (W1 & W2). auto.
  - cbn [forallb] in Hs. apply andb_true_iff in Hs as (Hc & Ht).
    pose proof (safe_cmd_spec lo c ss Hlo Hc Hi) as H1.
    destruct (run_cmd c ss) as [[ss1 ev1] ok1]. destruct H1 as (I1 & W1 & Q1).
    specialize (IH ss1 Ht). destruct (run_cmds t ss1) as [[ss2 ev2] ok2].
    intros Hok. apply andb_true_iff in Hok as (Ho1 & Ho2).
    destruct (IH (I1 Ho1) Ho2) as (A & B & C). split; [exact A|]. split; [exact B|].
    apply Forall_app. split; [exact Q1|]. constructor; [|exact C]. apply Qev_other. cbn. discriminate.
Qed.
End Session.

(** commands compose: running cs1 ++ cs2 is running cs2 from the state cs1 left (a later call sees the state at that call) *)
Theorem run_cmds_app cs1 cs2 ss :
  run_cmds (cs1 ++ cs2) ss =
    let '(ss1, ev1, ok1) := run_cmds cs1 ss in let '(ss2, ev2, ok2) := run_cmds cs2 ss1 in (ss2, ev1 ++ ev2, ok1 && ok2).
Proof.
  revert ss. induction cs1 as [|c t IH]; intros ss; cbn [app run_cmds].
  - destruct (run_cmds cs2 ss) as [[ss2 ev2] ok2]. reflexivity.
  - destruct (run_cmd c ss) as [[ssa eva] oka]. rewrite IH.
    destruct (run_cmds t ssa) as [[ss1 ev1] ok1]. destruct (run_cmds cs2 ss1) as [[ss2 ev2] ok2].
    now rewrite <- app_assoc, andb_assoc.
Qed.

(** deep copy of the programme object: the copy's start and working slots are present exactly where the original's are *)
Lemma deepcopy_slots_present : forall w h m h' m' w', deepcopy_slots h m w = Some (h', m', w') -> present w' = present w.
Proof.
  induction w as [|[d|] t IH]; intros h m h' m' w' H; cbn in H.
  - injection H as <- <- <-. reflexivity.
  - destruct (deepcopy_m h m d) as [[[h1 m1] d']|]; [|discriminate].
    destruct (deepcopy_slots h1 m1 t) as [[[h2 m2] t']|] eqn:E; [|discriminate]. injection H as <- <- <-. cbn. f_equal. eapply IH; eauto.
  - destruct (deepcopy_slots h m t) as [[[h2 m2] t']|] eqn:E; [|discriminate]. injection H as <- <- <-. cbn. f_equal. eapply IH; eauto.
Qed.
Theorem deepcopy_prog_shape st st' : deepcopy_prog st = (st', true) ->
  present (p_start st') = present (p_start st) /\ present (p_work st') = present (p_work st) /\
  p_t st' = p_t st /\ p_tmax st' = p_tmax st /\ p_rep st' = p_rep st /\ p_stash st' = p_stash st.
Proof.
  unfold deepcopy_prog. destruct (deepcopy_slots (p_heap st) [] (p_start st)) as [[[h1 m1] s']|] eqn:E1; [|discriminate].
  destruct (deepcopy_slots h1 m1 (p_work st)) as [[[h2 m2] w']|] eqn:E2; [|discriminate].
  intros H. injection H as <-. cbn. repeat split; eauto using deepcopy_slots_present.
Qed.
