(** C16 — lemmas about Model/C16_Store.v: the file store, h5py_File_write_dict and the to_hdf5/from_hdf5 round trip. *)
From Coq Require Import String Ascii.
From PV Require Import Lib.Common Lib.C16_Spec Model.C16_Store Proofs.C16_Utf8.
Local Open Scope Z_scope.

(** ** decidable equalities *)
Lemma zl_eqb_eq a b : zl_eqb a b = true <-> a = b.
Proof. split; [apply list_eqb_eq; intros x y; apply Z.eqb_eq | intros ->; apply list_eqb_refl; apply Z.eqb_refl]. Qed.
Lemma str_eqb_eq a b : str_eqb a b = true <-> a = b.
Proof. apply zl_eqb_eq. Qed.
Lemma str_eqb_neq a b : str_eqb a b = false <-> a <> b.
Proof. rewrite <- str_eqb_eq. destruct (str_eqb a b); split; congruence. Qed.
Lemma zll_eqb_eq a b : zll_eqb a b = true <-> a = b.
Proof. split; [apply list_eqb_eq; intros x y; apply zl_eqb_eq | intros ->; apply list_eqb_refl; intro; apply zl_eqb_eq; reflexivity]. Qed.
Lemma path_eqb_eq a b : path_eqb a b = true <-> a = b.
Proof. apply zll_eqb_eq. Qed.
Lemma path_eqb_neq a b : path_eqb a b = false <-> a <> b.
Proof. rewrite <- path_eqb_eq. destruct (path_eqb a b); split; congruence. Qed.
Lemma dtype_eqb_eq a b : dtype_eqb a b = true <-> a = b.
Proof. destruct a, b; cbn; split; congruence. Qed.
Lemma sval_eqb_eq a b : sval_eqb a b = true -> a = b.
Proof.
  destruct a, b; cbn; try discriminate; intro H.
  - apply andb_prop in H as [H H3]. apply andb_prop in H as [H1 H2].
    apply dtype_eqb_eq in H1. apply zl_eqb_eq in H2. apply zl_eqb_eq in H3. congruence.
  - apply zll_eqb_eq in H. congruence.
  - apply zll_eqb_eq in H. congruence.
  - apply Z.eqb_eq in H. congruence.
  - apply Z.eqb_eq in H. congruence.
  - apply zl_eqb_eq in H. congruence.
  - apply zl_eqb_eq in H. congruence.
Qed.

(** ** paths: group name + key *)
Definition simple (k : str) : Prop := k <> [] /\ Forall (fun c => c <> 47) k.
Definition simpleb (k : str) : bool := negb (is_nil k) && forallb (fun c => negb (c =? 47)) k.
Lemma simpleb_spec k : simpleb k = true -> simple k.
Proof.
  unfold simpleb, simple. intro H. apply andb_prop in H as [H1 H2]. split.
  - destruct k; [discriminate | congruence].
  - apply Forall_forall. intros c Hc. rewrite forallb_forall in H2. specialize (H2 c Hc).
    apply negb_true_iff, Z.eqb_neq in H2. exact H2.
Qed.

Lemma split_aux_simple k : forall cur, Forall (fun c => c <> 47) k -> (cur <> [] \/ k <> []) -> split_aux cur k = [rev cur ++ k].
Proof.
  induction k as [|c t IH]; intros cur Hk Hne.
  - destruct Hne as [Hc|Hc]; [|congruence]. cbn. destruct cur; [congruence|]. cbn [is_nil]. rewrite app_nil_r. reflexivity.
  - inversion Hk as [|? ? Hc Ht]; subst. cbn [split_aux]. destruct (Z.eqb_spec c 47); [congruence|].
    rewrite IH by (auto; left; discriminate). cbn [rev]. rewrite <- app_assoc. reflexivity.
Qed.

Lemma split_aux_app g : forall cur k, g <> [] -> last g 0 = 47 -> simple k -> split_aux cur (g ++ k) = split_aux cur g ++ [k].
Proof.
  induction g as [|c g' IH]; intros cur k Hne Hl [Hk1 Hk2]; [congruence|].
  destruct g' as [|c' g''].
  - cbn in Hl. subst c. cbn [app split_aux]. rewrite Z.eqb_refl.
    rewrite (split_aux_simple k []) by auto. cbn [rev app]. destruct cur; cbn [is_nil]; reflexivity.
  - assert (Hl' : last (c' :: g'') 0 = 47) by exact Hl.
    change ((c :: c' :: g'') ++ k) with (c :: ((c' :: g'') ++ k)). cbn [split_aux].
    destruct (c =? 47).
    + destruct (is_nil cur); [rewrite IH by (try discriminate; try split; auto); reflexivity|].
      rewrite IH by (try discriminate; try split; auto). reflexivity.
    + rewrite IH by (try discriminate; try split; auto). reflexivity.
Qed.

Lemma split_aux_trailing s : forall cur, split_aux cur (s ++ [47]) = split_aux cur s.
Proof.
  induction s as [|c t IH]; intro cur.
  - cbn. destruct cur; reflexivity.
  - cbn [app split_aux]. destruct (c =? 47); [destruct (is_nil cur)|]; rewrite IH; reflexivity.
Qed.

(** the normalised group name: empty, or ends with '/' *)
Definition gwf (gn : str) : Prop := gn = [] \/ (gn <> [] /\ last gn 0 = 47).
Lemma slash_end_wf s : s <> [] -> gwf (slash_end s).
Proof.
  intro Hs. right. unfold slash_end. destruct (Z.eqb_spec (last s 0) 47) as [E|NE].
  - split; assumption.
  - split; [destruct s; discriminate | apply last_last].
Qed.
Lemma split_slash_end s : split_path (slash_end s) = split_path s.
Proof. unfold slash_end, split_path. destruct (last s 0 =? 47); [reflexivity | apply split_aux_trailing]. Qed.

Lemma path_of_key gn k : gwf gn -> simple k -> split_path (gn ++ k) = split_path gn ++ [k].
Proof.
  intros [->|[Hne Hl]] Hk.
  - cbn [app]. unfold split_path. destruct Hk as [H1 H2]. rewrite split_aux_simple by auto. reflexivity.
  - unfold split_path. apply split_aux_app; assumption.
Qed.

(** ** prefixes *)
Lemma is_prefix_refl p : is_prefix p p = true.
Proof. induction p as [|a p IH]; cbn; [reflexivity|]. rewrite IH. replace (str_eqb a a) with true by (symmetry; apply str_eqb_eq; reflexivity). reflexivity. Qed.
Lemma is_prefix_length p : forall q, is_prefix p q = true -> (length p <= length q)%nat.
Proof. induction p as [|a p IH]; intros [|b q]; cbn; try discriminate; try lia. intro H. apply andb_prop in H as [_ H]. apply IH in H. lia. Qed.
Lemma is_prefix_sibling b k1 k2 : k1 <> k2 -> is_prefix (b ++ [k1]) (b ++ [k2]) = false.
Proof.
  intro Hn. induction b as [|a b IH]; cbn.
  - apply str_eqb_neq in Hn. rewrite Hn. reflexivity.
  - rewrite IH. apply andb_false_r.
Qed.
Lemma prefixes_length p : forall q, In q (prefixes p) -> (length q < length p)%nat.
Proof.
  induction p as [|a p IH]; intros q H; cbn in H; [contradiction|].
  destruct H as [<-|H]; [cbn; lia|]. apply in_map_iff in H as [q' [<- H]]. apply IH in H. cbn. lia.
Qed.
Lemma prefixes_snoc b k : In b (prefixes (b ++ [k])).
Proof. induction b as [|a b IH]; cbn; [left; reflexivity|]. right. apply in_map. exact IH. Qed.

(** ** lookups after del / create *)
Lemma lookup_cons_ne q p n f : q <> [] -> p <> q -> lookup q ((p, n) :: f) = lookup q f.
Proof. intros Hq Hn. destruct q; [congruence|]. unfold lookup. cbn [find fst]. apply path_eqb_neq in Hn. rewrite Hn. reflexivity. Qed.
Lemma lookup_cons_eq p n f : p <> [] -> lookup p ((p, n) :: f) = Some n.
Proof. intro Hp. destruct p; [congruence|]. unfold lookup. cbn [find fst]. rewrite (proj2 (path_eqb_eq _ _) eq_refl). reflexivity. Qed.
Lemma mem_lookup p f : mem p f = false <-> lookup p f = None.
Proof. unfold mem. destruct (lookup p f); split; congruence. Qed.
Lemma mem_lookup_t p f : mem p f = true <-> exists n, lookup p f = Some n.
Proof. unfold mem. destruct (lookup p f); split; try congruence; eauto. intros [n H]; discriminate. Qed.

Lemma find_filter_none {A} (eqb keep : A -> bool) (f : list A) :
  (forall e, eqb e = true -> keep e = false) -> find eqb (filter keep f) = None.
Proof.
  intro H. induction f as [|e f IH]; [reflexivity|]. cbn [filter]. destruct (keep e) eqn:K; [|exact IH].
  cbn [find]. destruct (eqb e) eqn:E; [rewrite (H e E) in K; discriminate | exact IH].
Qed.
Lemma find_filter_same {A} (eqb keep : A -> bool) (f : list A) :
  (forall e, eqb e = true -> keep e = true) -> find eqb (filter keep f) = find eqb f.
Proof.
  intro H. induction f as [|e f IH]; [reflexivity|]. cbn [filter find]. destruct (keep e) eqn:K.
  - cbn [find]. destruct (eqb e); [reflexivity | exact IH].
  - destruct (eqb e) eqn:E; [rewrite (H e E) in K; discriminate | exact IH].
Qed.
Lemma lookup_del_same p f : p <> [] -> lookup p (del p f) = None.
Proof.
  intro Hp. destruct p as [|a p]; [congruence|]. unfold lookup, del. rewrite find_filter_none; [reflexivity|].
  intros [q n] E. cbn [fst] in *. apply path_eqb_eq in E. subst q. rewrite is_prefix_refl. reflexivity.
Qed.
Lemma lookup_del_other p q f : is_prefix p q = false -> lookup q (del p f) = lookup q f.
Proof.
  intro Hp. destruct q as [|a q]; [reflexivity|]. unfold lookup, del. rewrite find_filter_same; [reflexivity|].
  intros [r n] E. cbn [fst] in *. apply path_eqb_eq in E. subst r. rewrite Hp. reflexivity.
Qed.

Definition new_groups (p : path) (f : file) : file :=
  fold_right (fun q acc => if mem q f then acc else (q, NGroup) :: acc) [] (prefixes p).
Lemma create_inl p d f f2 : create p d f = inl f2 -> mem p f = false /\ f2 = (p, NData d) :: new_groups p f ++ f.
Proof.
  unfold create. destruct (mem p f); [discriminate|]. destruct (existsb _ _); [discriminate|].
  intro H; inversion H; split; reflexivity.
Qed.
Lemma lookup_new_groups_other p f : forall q g, q <> [] -> ~ In q (prefixes p) -> lookup q (new_groups p f ++ g) = lookup q g.
Proof.
  intros q g Hq. unfold new_groups. induction (prefixes p) as [|r l IH]; intro Hn; cbn [fold_right app]; [reflexivity|].
  destruct (mem r f); [apply IH; intro; apply Hn; right; assumption|].
  cbn [app]. rewrite lookup_cons_ne; [apply IH; intro; apply Hn; right; assumption | exact Hq | intro; apply Hn; left; assumption].
Qed.
Lemma lookup_new_groups_mem p f : forall q, mem q f = true -> lookup q (new_groups p f ++ f) = lookup q f.
Proof.
  intros q Hm. destruct q as [|a q]; [reflexivity|]. unfold new_groups. induction (prefixes p) as [|r l IH]; cbn [fold_right app]; [reflexivity|].
  destruct (mem r f) eqn:E; [exact IH|]. cbn [app]. rewrite lookup_cons_ne; [exact IH | discriminate | intro; subst r; congruence].
Qed.
Lemma mem_new_groups p f : forall q, In q (prefixes p) -> mem q (new_groups p f ++ f) = true.
Proof.
  intros q Hq. destruct (mem q f) eqn:E.
  - unfold mem. rewrite lookup_new_groups_mem by exact E. exact E.
  - destruct q as [|a q]; [reflexivity|]. unfold new_groups. induction (prefixes p) as [|r l IH]; [contradiction|].
    cbn [fold_right]. destruct Hq as [->|Hq].
    + rewrite E. cbn [app]. unfold mem. rewrite lookup_cons_eq by discriminate. reflexivity.
    + destruct (mem r f); [exact (IH Hq)|]. cbn [app]. unfold mem.
      destruct (path_eqb r (a :: q)) eqn:E2.
      * apply path_eqb_eq in E2. subst r. rewrite lookup_cons_eq by discriminate. reflexivity.
      * apply path_eqb_neq in E2. rewrite lookup_cons_ne by (try discriminate; exact E2). exact (IH Hq).
Qed.

Lemma lookup_create_same p d f f2 : p <> [] -> create p d f = inl f2 -> lookup p f2 = Some (NData d).
Proof. intros Hp H. apply create_inl in H as [_ ->]. apply lookup_cons_eq; exact Hp. Qed.
Lemma lookup_create_other p d f f2 q : create p d f = inl f2 -> q <> p -> ~ In q (prefixes p) -> lookup q f2 = lookup q f.
Proof.
  intros H Hn Hi. apply create_inl in H as [_ ->]. destruct q as [|a q]; [reflexivity|].
  rewrite lookup_cons_ne by (try discriminate; congruence). apply lookup_new_groups_other; [discriminate | exact Hi].
Qed.
Lemma mem_create_prefix p d f f2 q : create p d f = inl f2 -> In q (prefixes p) -> mem q f2 = true.
Proof.
  intros H Hq. apply create_inl in H as [_ ->]. destruct q as [|a q]; [reflexivity|].
  unfold mem. rewrite lookup_cons_ne; [apply mem_new_groups; exact Hq | discriminate |].
  intro E. subst p. apply prefixes_length in Hq. lia.
Qed.
Lemma mem_create_keeps p d f f2 q : create p d f = inl f2 -> mem q f = true -> mem q f2 = true.
Proof.
  intros H Hm. pose proof (create_inl _ _ _ _ H) as [Hp ->]. destruct q as [|a q]; [reflexivity|].
  unfold mem. rewrite lookup_cons_ne; [rewrite lookup_new_groups_mem by exact Hm; exact Hm | discriminate | intro; subst p; congruence].
Qed.

(** ** h5py_File_write_dict on a flat dictionary, overwriting *)
Definition flat_item (it : item) : Prop := it = INone \/ exists d, it = IData d.

Section Flat.
Variable gn : str.
Hypothesis Hgn : gwf gn.
Let base := split_path gn.
Let P (k : str) := split_path (gn ++ k).

Lemma P_eq k : simple k -> P k = base ++ [k].
Proof. intro Hk. unfold P, base. apply path_of_key; assumption. Qed.
Lemma P_nonnil k : simple k -> P k <> [].
Proof. intro Hk. rewrite P_eq by exact Hk. destruct base; discriminate. Qed.
Lemma P_inj k1 k2 : simple k1 -> simple k2 -> k1 <> k2 -> P k1 <> P k2.
Proof. intros H1 H2 Hn E. rewrite !P_eq in E by assumption. apply app_inj_tail in E as [_ E]. congruence. Qed.
Lemma P_not_prefix k1 k2 : simple k1 -> simple k2 -> k1 <> k2 -> is_prefix (P k1) (P k2) = false.
Proof. intros H1 H2 Hn. rewrite !P_eq by assumption. apply is_prefix_sibling; exact Hn. Qed.
Lemma P_not_in_prefixes k1 k2 : simple k1 -> simple k2 -> ~ In (P k2) (prefixes (P k1)).
Proof. intros H1 H2 Hi. apply prefixes_length in Hi. rewrite !P_eq in Hi by assumption. rewrite !app_length in Hi. cbn in Hi. lia. Qed.
Lemma base_in_prefixes k : simple k -> In base (prefixes (P k)).
Proof. intro Hk. rewrite P_eq by exact Hk. apply prefixes_snoc. Qed.
Lemma P_not_prefix_base k : simple k -> is_prefix (P k) base = false.
Proof.
  intro Hk. destruct (is_prefix (P k) base) eqn:E; [|reflexivity]. apply is_prefix_length in E.
  rewrite P_eq in E by exact Hk. rewrite app_length in E. cbn in E. lia.
Qed.

(** one key does not disturb its siblings *)
Lemma write_dict_frame items : forall f f' e,
  (forall k it, In (k, it) items -> simple k /\ flat_item it) ->
  write_dict VCur f gn items true = (f', e) ->
  forall k, simple k -> ~ In k (map fst items) -> lookup (P k) f' = lookup (P k) f.
Proof.
  induction items as [|[k0 it0] t IH]; intros f f' e Hit Hw k Hk Hnin.
  - cbn in Hw. inversion Hw; reflexivity.
  - assert (Hk0 : simple k0 /\ flat_item it0) by (apply Hit; left; reflexivity). destruct Hk0 as [Hk0 Hfl].
    assert (Hne : k0 <> k) by (intro; subst; apply Hnin; left; reflexivity).
    assert (Hnin' : ~ In k (map fst t)) by (intro; apply Hnin; right; assumption).
    assert (Hit' : forall k it, In (k, it) t -> simple k /\ flat_item it) by (intros; apply Hit; right; assumption).
    cbn [write_dict] in Hw. fold (P k0) in Hw.
    destruct Hfl as [->|[d ->]].
    + cbn [andb clears_none] in Hw. rewrite (IH _ _ _ Hit' Hw k Hk Hnin').
      destruct (mem (P k0) f); [apply lookup_del_other, P_not_prefix; assumption | reflexivity].
    + rewrite andb_true_r in Hw.
      set (f1 := if mem (P k0) f then del (P k0) f else f) in *.
      assert (E1 : lookup (P k) f1 = lookup (P k) f).
      { unfold f1. destruct (mem (P k0) f); [apply lookup_del_other, P_not_prefix; assumption | reflexivity]. }
      destruct (create (P k0) d f1) as [f2|er] eqn:Ec.
      * rewrite (IH _ _ _ Hit' Hw k Hk Hnin'). rewrite (lookup_create_other _ _ _ _ _ Ec); [exact E1 | |].
        -- apply P_inj; auto.
        -- apply P_not_in_prefixes; assumption.
      * inversion Hw; subst. exact E1.
Qed.

(** the group itself survives the writes of its members *)
Lemma write_dict_keeps_base items : forall f f' e,
  (forall k it, In (k, it) items -> simple k /\ flat_item it) ->
  write_dict VCur f gn items true = (f', e) -> mem base f = true -> mem base f' = true.
Proof.
  induction items as [|[k0 it0] t IH]; intros f f' e Hit Hw Hm.
  - cbn in Hw. inversion Hw; subst; exact Hm.
  - assert (Hk0 : simple k0 /\ flat_item it0) by (apply Hit; left; reflexivity). destruct Hk0 as [Hk0 Hfl].
    assert (Hit' : forall k it, In (k, it) t -> simple k /\ flat_item it) by (intros; apply Hit; right; assumption).
    cbn [write_dict] in Hw. fold (P k0) in Hw.
    assert (Hd : mem base (if mem (P k0) f then del (P k0) f else f) = true).
    { destruct (mem (P k0) f); [|exact Hm]. unfold mem. rewrite lookup_del_other by (apply P_not_prefix_base; exact Hk0). exact Hm. }
    destruct Hfl as [->|[d ->]].
    + cbn [andb clears_none] in Hw. eapply IH; eauto.
    + rewrite andb_true_r in Hw. destruct (create (P k0) d _) as [f2|er] eqn:Ec.
      * eapply IH; eauto. eapply mem_create_keeps; eauto.
      * inversion Hw; subst. exact Hd.
Qed.

(** after a successful overwrite every key holds exactly its item: a dataset for data, nothing for None *)
Lemma write_dict_post items : forall f f',
  (forall k it, In (k, it) items -> simple k /\ flat_item it) -> NoDup (map fst items) ->
  write_dict VCur f gn items true = (f', None) ->
  forall k it, In (k, it) items ->
    match it with INone => lookup (P k) f' = None | IData d => lookup (P k) f' = Some (NData d) /\ mem base f' = true | _ => True end.
Proof.
  induction items as [|[k0 it0] t IH]; intros f f' Hit Hnd Hw k it Hin; [contradiction|].
  assert (Hk0 : simple k0 /\ flat_item it0) by (apply Hit; left; reflexivity). destruct Hk0 as [Hk0 Hfl].
  assert (Hit' : forall k it, In (k, it) t -> simple k /\ flat_item it) by (intros; apply Hit; right; assumption).
  inversion Hnd as [|? ? Hnin Hnd']; subst.
  cbn [write_dict] in Hw. fold (P k0) in Hw.
  destruct Hin as [Hin|Hin].
  - inversion Hin; subst k it. clear Hin.
    destruct Hfl as [->|[d ->]].
    + cbn [andb clears_none] in Hw. rewrite (write_dict_frame _ _ _ _ Hit' Hw k0 Hk0 Hnin).
      destruct (mem (P k0) f) eqn:E; [apply lookup_del_same, P_nonnil; exact Hk0 | apply mem_lookup; exact E].
    + rewrite andb_true_r in Hw. destruct (create (P k0) d _) as [f2|er] eqn:Ec; [|discriminate]. split.
      * rewrite (write_dict_frame _ _ _ _ Hit' Hw k0 Hk0 Hnin). eapply lookup_create_same; [apply P_nonnil; exact Hk0 | exact Ec].
      * eapply write_dict_keeps_base; [exact Hit' | exact Hw |]. eapply mem_create_prefix; [exact Ec | apply base_in_prefixes; exact Hk0].
  - destruct Hfl as [->|[d ->]].
    + cbn [andb clears_none] in Hw. eapply IH; eauto.
    + rewrite andb_true_r in Hw. destruct (create (P k0) d _) as [f2|er] eqn:Ec; [|discriminate]. eapply IH; eauto.
Qed.
End Flat.

(** ** to_hdf5 followed by from_hdf5 *)
(** a value survives its typed reader exactly *)
Definition reader_exact (rd : reader) (v : sval) : bool :=
  match encode v with
  | Some d => match read_d rd d with inl v' => sval_eqb v v' | inr _ => false end
  | None => false
  end.
Definition wf_attr_flat (o : obj) (r : rfield) : bool :=
  match attr (rkey r) o with
  | None => ropt r                                   (* only optional fields may be None *)
  | Some (OS v) => reader_exact (rrd r) v
  | Some (OD _) => false
  end.
Definition wf_obj_flat (s : cls_spec) (o : obj) : bool := forallb (wf_attr_flat o) (reads s).

Fixpoint nodup_z (l : list str) : bool := match l with [] => true | x :: t => negb (existsb (str_eqb x) t) && nodup_z t end.
Lemma nodup_z_spec l : nodup_z l = true -> NoDup l.
Proof.
  induction l as [|x t IH]; intro H; [constructor|]. cbn in H. apply andb_prop in H as [H1 H2]. constructor; [|exact (IH H2)].
  intro Hin. apply negb_true_iff in H1. assert (existsb (str_eqb x) t = true) by (apply existsb_exists; exists x; split; [exact Hin | apply str_eqb_eq; reflexivity]). congruence.
Qed.

(** the table conditions under which the round trip is proved (checked by computation for the generated tables) *)
Definition flat_spec (s : cls_spec) : bool :=
  nodup_z (map (fun kv => zs (fst kv)) (written s))
  && forallb (fun kv => String.eqb (fst kv) (snd kv)) (written s)
  && forallb (fun r => smem (rkey r) (map fst (written s))) (reads s)
  && forallb (fun kv => smem (fst kv) (map rkey (reads s))) (written s)
  && forallb (fun r => negb (reader_eqb (rrd r) RDict)) (reads s)
  && forallb (fun kv => simpleb (zs (fst kv))) (written s)
  && existsb (fun r => negb (ropt r)) (reads s)
  && forallb (fun k => existsb (fun r => String.eqb (rkey r) k && negb (ropt r)) (reads s)) (required s).

Definition proj (s : cls_spec) (o : obj) : list (String.string * option oval) := map (fun r => (rslot r, attr (rkey r) o)) (reads s).

Lemma smem_In k l : smem k l = true -> In k l.
Proof. unfold smem. intro H. apply existsb_exists in H as [x [Hx E]]. apply String.eqb_eq in E. subst. exact Hx. Qed.

Lemma norm_group_wf g gn : norm_group g = inl gn -> gwf gn /\ match g with Some s0 => split_path gn = split_path s0 | None => gn = [] end.
Proof.
  destruct g as [[|c s0]|]; cbn; intro H; inversion H; subst.
  - split; [apply slash_end_wf; discriminate | apply split_slash_end].
  - split; [left; reflexivity | reflexivity].
Qed.

Section RoundTrip.
Variables (s : cls_spec) (o : obj).
Hypothesis Hspec : flat_spec s = true.
Hypothesis Hwf : wf_obj_flat s o = true.

Let items := data_dict s o.

Lemma spec_parts :
  NoDup (map fst items)
  /\ (forall k a, In (k, a) (written s) -> k = a /\ simple (zs k) /\ exists r, In r (reads s) /\ rkey r = k)
  /\ (forall r, In r (reads s) -> In (rkey r, rkey r) (written s) /\ rrd r <> RDict)
  /\ (exists r, In r (reads s) /\ ropt r = false)
  /\ (forall k, In k (required s) -> exists r, In r (reads s) /\ rkey r = k /\ ropt r = false).
Proof.
  pose proof Hspec as Hs. unfold flat_spec in Hs.
  apply andb_prop in Hs as [Hs H8]. apply andb_prop in Hs as [Hs H7]. apply andb_prop in Hs as [Hs H6].
  apply andb_prop in Hs as [Hs H5]. apply andb_prop in Hs as [Hs H4']. apply andb_prop in Hs as [Hs H3'].
  apply andb_prop in Hs as [H1 H2'].
  assert (Hkey : forall k a, In (k, a) (written s) -> k = a).
  { intros k a Hin. rewrite forallb_forall in H2'. specialize (H2' _ Hin). apply String.eqb_eq in H2'. exact H2'. }
  split; [|split; [|split; [|split]]].
  - unfold items, data_dict. rewrite map_map. cbn [fst]. apply nodup_z_spec. exact H1.
  - intros k a Hin. split; [eapply Hkey; eauto|]. split.
    + apply simpleb_spec. rewrite forallb_forall in H6. exact (H6 _ Hin).
    + rewrite forallb_forall in H4'. specialize (H4' _ Hin). cbn [fst] in H4'. apply smem_In in H4'.
      apply in_map_iff in H4' as [r [E Hr]]. exists r. split; assumption.
  - intros r Hr. split.
    + rewrite forallb_forall in H3'. specialize (H3' _ Hr). apply smem_In in H3'. apply in_map_iff in H3' as [[k a] [E Hin]].
      cbn [fst] in E. subst k. pose proof (Hkey _ _ Hin) as Ea. subst a. exact Hin.
    + rewrite forallb_forall in H5. specialize (H5 _ Hr). intro E. rewrite E in H5. discriminate.
  - apply existsb_exists in H7 as [r [Hr E]]. exists r. split; [exact Hr | apply negb_true_iff; exact E].
  - intros k Hk. rewrite forallb_forall in H8. specialize (H8 _ Hk). apply existsb_exists in H8 as [r [Hr E]].
    apply andb_prop in E as [E1 E2]. apply String.eqb_eq in E1. apply negb_true_iff in E2. exists r. auto.
Qed.

Lemma wf_attr_flat_of r : In r (reads s) -> wf_attr_flat o r = true.
Proof. intro H. unfold wf_obj_flat in Hwf. rewrite forallb_forall in Hwf. exact (Hwf _ H). Qed.

Lemma item_of_read r : In r (reads s) ->
  In (zs (rkey r), to_item (attr (rkey r) o)) items
  /\ match attr (rkey r) o with
     | None => to_item (attr (rkey r) o) = INone /\ ropt r = true
     | Some (OS v) => exists d, encode v = Some d /\ to_item (attr (rkey r) o) = IData d /\ read_d (rrd r) d = inl v
     | Some (OD _) => False
     end.
Proof.
  intro Hr. destruct spec_parts as [_ [_ [Hrd _]]]. destruct (Hrd r Hr) as [Hin _]. split.
  - unfold items, data_dict. apply in_map_iff. exists (rkey r, rkey r). split; [reflexivity | exact Hin].
  - pose proof (wf_attr_flat_of r Hr) as W. unfold wf_attr_flat in W. destruct (attr (rkey r) o) as [[v|l]|]; [| discriminate | split; [reflexivity | exact W]].
    unfold reader_exact in W. destruct (encode v) as [d|] eqn:E; [|discriminate]. exists d. split; [reflexivity|]. split; [cbn; rewrite E; reflexivity|].
    destruct (read_d (rrd r) d) as [v'|] eqn:R; [|discriminate]. apply sval_eqb_eq in W. subst v'. reflexivity.
Qed.

Lemma items_flat : forall k it, In (k, it) items -> simple k /\ flat_item it.
Proof.
  intros k it Hin. unfold items, data_dict in Hin. apply in_map_iff in Hin as [[k0 a0] [E Hin]]. cbn [fst snd] in E. inversion E; subst k it. clear E.
  destruct spec_parts as [_ [Hw _]]. destruct (Hw _ _ Hin) as [<- [Hs [r [Hr Ek]]]]. split; [exact Hs|].
  destruct (item_of_read r Hr) as [_ H]. rewrite Ek in H. destruct (attr k0 o) as [[v|l]|].
  - destruct H as [d [_ [E _]]]. right. exists d. exact E.
  - contradiction.
  - left. apply H.
Qed.

Theorem roundtrip_flat (nt : Z) (f f' : file) (g : option str) :
  to_hdf5 VCur s f g o true = (f', None) -> from_hdf5 s nt f' g = construct s nt (proj s o).
Proof.
  unfold to_hdf5, from_hdf5, from_hdf5_gen. destruct (norm_group g) as [gn|e] eqn:Eg; [|discriminate]. intro Hw. fold items in Hw.
  destruct (norm_group_wf _ _ Eg) as [Hgn Hbase].
  destruct spec_parts as [Hnd [Hwr [Hrd [[r0 [Hr0 Hopt0]] Hreq]]]].
  pose proof (write_dict_post gn Hgn items f f' items_flat Hnd Hw) as Post.
  (* what every read field finds in the file *)
  assert (Found : forall r, In r (reads s) ->
            match attr (rkey r) o with
            | None => lookup (split_path (gn ++ zs (rkey r))) f' = None /\ ropt r = true
            | Some (OS v) => exists d, lookup (split_path (gn ++ zs (rkey r))) f' = Some (NData d) /\ read_d (rrd r) d = inl v
                                       /\ mem (split_path gn) f' = true
            | Some (OD _) => False end).
  { intros r Hr. destruct (item_of_read r Hr) as [Hin H]. specialize (Post _ _ Hin). destruct (attr (rkey r) o) as [[v|l]|].
    - destruct H as [d [_ [Ei Rd]]]. rewrite Ei in Post. exists d. destruct Post as [P1 P2]. auto.
    - contradiction.
    - destruct H as [Ei Ho]. rewrite Ei in Post. auto. }
  (* the group exists *)
  assert (Hgrp : match g with Some s0 => mem (split_path s0) f' = true | None => True end).
  { destruct g as [s0|]; [|exact I]. rewrite <- Hbase. specialize (Found r0 Hr0).
    destruct (attr (rkey r0) o) as [[v|l]|]; [destruct Found as [d [_ [_ M]]]; exact M | contradiction | destruct Found; congruence]. }
  replace (match g with Some s0 => negb (mem (split_path s0) f') | None => false end) with false
    by (destruct g; [rewrite Hgrp; reflexivity | reflexivity]).
  (* required fields are present *)
  assert (Hrq : forallb (fun k => mem (split_path (gn ++ zs k)) f') (required s) = true).
  { apply forallb_forall. intros k Hk. destruct (Hreq k Hk) as [r [Hr [Ek Ho]]]. specialize (Found r Hr). rewrite Ek in Found.
    destruct (attr k o) as [[v|l]|]; [destruct Found as [d [L _]]; unfold mem; rewrite L; reflexivity | contradiction | destruct Found; congruence]. }
  rewrite Hrq. cbn [negb].
  (* every field reads back the attribute *)
  assert (Hread : forall l, incl l (reads s) -> read_fields true f' gn l = inl (map (fun r => (rslot r, attr (rkey r) o)) l)).
  { induction l as [|r l IH]; intro Hincl; [reflexivity|].
    assert (Hr : In r (reads s)) by (apply Hincl; left; reflexivity).
    cbn [read_fields map]. specialize (Found r Hr). destruct (Hrd r Hr) as [_ Hnd'].
    rewrite (IH (fun x Hx => Hincl x (or_intror Hx))).
    destruct (attr (rkey r) o) as [[v|l0]|].
    - destruct Found as [d [L [Rd _]]]. unfold mem. rewrite L. rewrite andb_false_r.
      destruct (rrd r) eqn:Er; try congruence; unfold read; rewrite L, Rd; reflexivity.
    - contradiction.
    - destruct Found as [L Ho]. unfold mem. rewrite L, Ho. reflexivity. }
  rewrite (Hread (reads s) (incl_refl _)). reflexivity.
Qed.
End RoundTrip.

(** ** any history of writes to one location: the last object is read back *)
Fixpoint write_all (fx : ver) (s : cls_spec) (f : file) (g : option str) (os : list obj) : file * option err :=
  match os with
  | [] => (f, None)
  | o :: t => match to_hdf5 fx s f g o true with
              | (f1, None) => write_all fx s f1 g t
              | r => r
              end
  end.

Theorem read_after_writes_flat (s : cls_spec) : flat_spec s = true ->
  forall (os : list obj) (o : obj) (f f' : file) (g : option str) (nt : Z),
  wf_obj_flat s o = true -> write_all VCur s f g (os ++ [o]) = (f', None) -> from_hdf5 s nt f' g = construct s nt (proj s o).
Proof.
  intros Hs os. induction os as [|o0 t IH]; intros o f f' g nt Hwf Hw.
  - cbn [app write_all] in Hw. destruct (to_hdf5 VCur s f g o true) as [f1 [e|]] eqn:E; [discriminate|].
    inversion Hw; subst f1. eapply roundtrip_flat; eauto.
  - cbn [app write_all] in Hw. destruct (to_hdf5 VCur s f g o0 true) as [f1 [e|]] eqn:E; [discriminate|]. eapply IH; eauto.
Qed.

(** ** typed values survive their readers *)
Lemma zl_eqb_refl l : zl_eqb l l = true. Proof. apply zl_eqb_eq; reflexivity. Qed.
Lemma zll_eqb_refl l : zll_eqb l l = true. Proof. apply zll_eqb_eq; reflexivity. Qed.
Lemma dtype_eqb_refl t : dtype_eqb t t = true. Proof. destruct t; reflexivity. Qed.

Lemma exact_nd t sh d : reader_exact RNd (VArr t sh d) = true.
Proof. unfold reader_exact. cbn. rewrite dtype_eqb_refl, !zl_eqb_refl. reflexivity. Qed.
Lemma exact_nd_int8 sh d : reader_exact RNdInt8 (VArr TI8 sh d) = true.
Proof. unfold reader_exact. cbn. rewrite !zl_eqb_refl. reflexivity. Qed.
Lemma exact_nd_int sh d : reader_exact RNdInt (VArr TI64 sh d) = true.
Proof. unfold reader_exact. cbn. rewrite !zl_eqb_refl. reflexivity. Qed.
Lemma exact_int z : in_i64 z = true -> reader_exact RInt (VInt z) = true.
Proof. intro H. unfold reader_exact. cbn. rewrite H. cbn. apply Z.eqb_refl. Qed.
Lemma exact_strs l : Forall (Forall scalar) l -> reader_exact RNdUtf8 (VStrs l) = true.
Proof.
  intro H. unfold reader_exact. cbn [encode].
  assert (E : exists bs, opt_all (map utf8_enc l) = Some bs).
  { induction H as [|s t Hs Ht IH]; [exists []; reflexivity|]. destruct IH as [bs E]. destruct (utf8_roundtrip s Hs) as [b [Eb _]].
    exists (b :: bs). cbn. rewrite Eb, E. reflexivity. }
  destruct E as [bs E]. rewrite E. cbn [option_map read_d]. rewrite (opt_all_map_dec_enc _ _ E). cbn. apply zll_eqb_refl.
Qed.
Lemma exact_str s0 : Forall scalar s0 -> reader_exact RUtf8 (VStr s0) = true.
Proof.
  intro H. unfold reader_exact. cbn [encode]. destruct (utf8_roundtrip s0 H) as [b [E D]]. rewrite E. cbn [option_map read_d]. rewrite D.
  cbn. apply zl_eqb_refl.
Qed.

(** ** the constructor leaves complete data unchanged *)
Definition plain_class (s : cls_spec) : bool :=
  negb (String.eqb (cname s) "GM" || String.eqb (cname s) "PGM" || String.eqb (cname s) "ALGM" || String.eqb (cname s) "ADLGM" || String.eqb (cname s) "GE").
Lemma construct_plain s nt data : plain_class s = true -> construct s nt data = inl data.
Proof.
  unfold plain_class, construct. intro H. apply negb_true_iff in H.
  destruct (String.eqb (cname s) "GM"); [discriminate|]. destruct (String.eqb (cname s) "PGM"); [discriminate|].
  destruct (String.eqb (cname s) "ALGM"); [discriminate|]. destruct (String.eqb (cname s) "ADLGM"); [discriminate|].
  destruct (String.eqb (cname s) "GE"); [discriminate|]. reflexivity.
Qed.
Lemma construct_GM s nt data : cname s = "GM"%string -> attr "ploidy" data <> None -> construct s nt data = inl data.
Proof. intros E H. unfold construct. rewrite E. cbn. destruct (attr "ploidy" data); [reflexivity | congruence]. Qed.
Lemma construct_GE s nt data : cname s = "GE"%string -> Forall (fun kv => snd kv <> None) data -> construct s nt data = inl data.
Proof.
  intros E H. unfold construct. rewrite E. cbn. f_equal. induction H as [|[k v] t Hv Ht IH]; [reflexivity|]. cbn [map]. rewrite IH.
  cbn [snd] in Hv. destruct v; [reflexivity | congruence].
Qed.

(** ** when the overwrite succeeds: the group path must not run through a dataset *)
Definition group_free (f : file) (b : path) : Prop := forall q, is_prefix q b = true -> is_data q f = false.

Lemma is_prefix_of_prefixes p : forall q, In q (prefixes p) -> is_prefix q p = true.
Proof.
  induction p as [|a p IH]; intros q H; cbn in H; [contradiction|]. destruct H as [<-|H]; [reflexivity|].
  apply in_map_iff in H as [q' [<- H]]. cbn. rewrite (proj2 (str_eqb_eq a a) eq_refl). cbn. apply IH. exact H.
Qed.
Lemma is_prefix_snoc q b k : is_prefix q (b ++ [k]) = true -> q = b ++ [k] \/ is_prefix q b = true.
Proof.
  revert q. induction b as [|a b IH]; intros q H.
  - destruct q as [|x q]; [right; reflexivity|]. cbn in H. apply andb_prop in H as [H1 H2]. apply str_eqb_eq in H1. subst x.
    destruct q; [left; reflexivity | discriminate].
  - destruct q as [|x q]; [right; reflexivity|]. cbn in H. apply andb_prop in H as [H1 H2]. apply str_eqb_eq in H1. subst x.
    destruct (IH q H2) as [->|Hp]; [left; reflexivity | right; cbn; rewrite (proj2 (str_eqb_eq a a) eq_refl); exact Hp].
Qed.
Lemma is_data_lookup q f : is_data q f = false <-> (forall d, lookup q f <> Some (NData d)).
Proof. unfold is_data. destruct (lookup q f) as [[|d]|]; split; intros; try congruence; try reflexivity. exfalso. eapply H; reflexivity. Qed.

Section Success.
Variable gn : str.
Hypothesis Hgn : gwf gn.
Let base := split_path gn.
Let P (k : str) := split_path (gn ++ k).

Lemma create_ok f k d : simple k -> group_free f base -> mem (P k) f = false -> exists f2, create (P k) d f = inl f2.
Proof.
  intros Hk Hf Hm. unfold create. fold (P k). rewrite Hm.
  replace (existsb (fun q => is_data q f) (prefixes (P k))) with false; [eexists; reflexivity|].
  symmetry. apply not_true_is_false. intro E. apply existsb_exists in E as [q [Hq Hd]].
  apply is_prefix_of_prefixes in Hq. unfold P in Hq. rewrite (path_of_key gn k Hgn Hk) in Hq. fold base in Hq.
  destruct (is_prefix_snoc _ _ _ Hq) as [->|Hp].
  - unfold is_data in Hd. fold base in Hm. unfold P in Hm. rewrite (path_of_key gn k Hgn Hk) in Hm. fold base in Hm.
    apply mem_lookup in Hm. rewrite Hm in Hd. discriminate.
  - rewrite (Hf q Hp) in Hd. discriminate.
Qed.

Lemma group_free_del f k : simple k -> group_free f base -> group_free (del (P k) f) base.
Proof.
  intros Hk Hf q Hq. apply is_data_lookup. intros d E. rewrite lookup_del_other in E.
  - specialize (Hf q Hq). exact (proj1 (is_data_lookup _ _) Hf d E).
  - destruct (is_prefix (P k) q) eqn:Ep; [|reflexivity]. apply is_prefix_length in Ep. apply is_prefix_length in Hq.
    unfold P in Ep. rewrite (path_of_key gn k Hgn Hk) in Ep. fold base in Ep. rewrite app_length in Ep. cbn in Ep. lia.
Qed.
Lemma group_free_create f f2 k d : simple k -> group_free f base -> create (P k) d f = inl f2 -> group_free f2 base.
Proof.
  intros Hk Hf Hc q Hq. apply is_data_lookup. intros d' E. pose proof (create_inl _ _ _ _ Hc) as [Hm ->].
  destruct q as [|a q]; [discriminate|].
  rewrite lookup_cons_ne in E.
  - (* the entry is a new group or an old entry *)
    destruct (mem (a :: q) f) eqn:Em.
    + rewrite lookup_new_groups_mem in E by exact Em. specialize (Hf _ Hq). exact (proj1 (is_data_lookup _ _) Hf d' E).
    + assert (G : forall l, lookup (a :: q) (fold_right (fun r acc => if mem r f then acc else (r, NGroup) :: acc) [] l ++ f) <> Some (NData d')).
      { induction l as [|r l IH]; cbn [fold_right app].
        - apply mem_lookup in Em. rewrite Em. discriminate.
        - destruct (mem r f); [exact IH|]. cbn [app]. destruct (path_eqb r (a :: q)) eqn:E2.
          + apply path_eqb_eq in E2. subst r. rewrite lookup_cons_eq by discriminate. discriminate.
          + apply path_eqb_neq in E2. rewrite lookup_cons_ne by (try discriminate; exact E2). exact IH. }
      exact (G _ E).
  - discriminate.
  - intro Eq. apply is_prefix_length in Hq. rewrite <- Eq in Hq. unfold P in Hq. rewrite (path_of_key gn k Hgn Hk) in Hq. fold base in Hq.
    rewrite app_length in Hq. cbn in Hq. lia.
Qed.

Lemma write_dict_succeeds items : forall f,
  (forall k it, In (k, it) items -> simple k /\ flat_item it) -> group_free f base ->
  exists f', write_dict VCur f gn items true = (f', None).
Proof.
  induction items as [|[k0 it0] t IH]; intros f Hit Hf; [eexists; reflexivity|].
  assert (Hk0 : simple k0 /\ flat_item it0) by (apply Hit; left; reflexivity). destruct Hk0 as [Hk0 Hfl].
  assert (Hit' : forall k it, In (k, it) t -> simple k /\ flat_item it) by (intros; apply Hit; right; assumption).
  cbn [write_dict]. fold (P k0).
  assert (Hf1 : group_free (if mem (P k0) f then del (P k0) f else f) base) by (destruct (mem (P k0) f); [apply group_free_del; assumption | exact Hf]).
  assert (Hm1 : mem (P k0) (if mem (P k0) f then del (P k0) f else f) = false).
  { destruct (mem (P k0) f) eqn:E; [|exact E]. apply mem_lookup. apply lookup_del_same. unfold P. rewrite (path_of_key gn k0 Hgn Hk0). destruct (split_path gn); discriminate. }
  destruct Hfl as [->|[d ->]].
  - cbn [andb clears_none]. apply IH; assumption.
  - rewrite andb_true_r. destruct (create_ok _ k0 d Hk0 Hf1 Hm1) as [f2 Ec]. rewrite Ec. apply IH; [exact Hit'|]. eapply group_free_create; eauto.
Qed.
End Success.

(** a well-typed object of a flat class can always be written over a location whose group path is free *)
Theorem to_hdf5_succeeds (s : cls_spec) (o : obj) (f : file) (g : option str) :
  flat_spec s = true -> wf_obj_flat s o = true -> g <> Some [] ->
  (forall gn, norm_group g = inl gn -> group_free f (split_path gn)) ->
  exists f', to_hdf5 VCur s f g o true = (f', None).
Proof.
  intros Hs Hwf Hg Hfree. unfold to_hdf5. destruct (norm_group g) as [gn|e] eqn:Eg.
  - destruct (norm_group_wf _ _ Eg) as [Hgn _]. apply write_dict_succeeds; [exact Hgn | apply items_flat; assumption | apply Hfree; reflexivity].
  - exfalso. destruct g as [[|c s0]|]; cbn in Eg; try discriminate. apply Hg. reflexivity.
Qed.
