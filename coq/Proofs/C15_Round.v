(** C15 — "unscaling reproduces the raw value to rounding error": error bound of the float round trip
      unscale(from_numpy(x)) = rnd(rnd(s * rnd(rnd(1/s) * rnd(x - l))) + l)
    in the standard model of floating-point arithmetic (every operation returns the exact result times (1+e), |e| <= u),
    and its instance for radix-2, 53-bit, round-to-nearest-even arithmetic with unbounded exponent (Flocq FLX: binary64
    without overflow/underflow). *)
From Coq Require Import Reals Lra Lia.
From Flocq Require Import Core Relative.
Local Open Scope R_scope.

Section RoundTrip.
  Variable rnd : R -> R.
  Variable u : R.
  Hypothesis u_nonneg : 0 <= u.
  Hypothesis rnd_rel : forall r, exists e, Rabs e <= u /\ rnd r = r * (1 + e).

  (** accumulated relative perturbation: |a - 1| <= A, |e| <= u  ->  |a (1+e) - 1| <= (1+A)(1+u) - 1 *)
  Lemma pert_step a A e : 0 <= A -> Rabs (a - 1) <= A -> Rabs e <= u -> Rabs (a * (1 + e) - 1) <= (1 + A) * (1 + u) - 1.
  Proof.
    intros HA Ha He. replace (a * (1 + e) - 1) with ((a - 1) + e + (a - 1) * e) by ring.
    eapply Rle_trans; [apply Rabs_triang|]. eapply Rle_trans; [apply Rplus_le_compat_r; apply Rabs_triang|].
    rewrite Rabs_mult. assert (0 <= Rabs (a - 1)) by apply Rabs_pos. assert (0 <= Rabs e) by apply Rabs_pos.
    assert (Rabs (a - 1) * Rabs e <= A * u) by (apply Rmult_le_compat; assumption). lra.
  Qed.

  Definition B4 : R := (1 + u) * (1 + u) * (1 + u) * (1 + u) - 1.

  (** the value the source computes for one entry: x raw, l location, s scale *)
  Definition roundtrip (x l s : R) : R := rnd (rnd (s * rnd (rnd (1 / s) * rnd (x - l))) + l).

  Theorem roundtrip_error (x l s : R) : s <> 0 ->
    Rabs (roundtrip x l s - x) <= Rabs (x - l) * B4 + u * (Rabs x + Rabs (x - l) * B4).
  Proof.
    intros Hs. unfold roundtrip.
    destruct (rnd_rel (x - l)) as [e1 [He1 E1]]. destruct (rnd_rel (1 / s)) as [e2 [He2 E2]].
    rewrite E1, E2.
    destruct (rnd_rel (1 / s * (1 + e2) * ((x - l) * (1 + e1)))) as [e3 [He3 E3]]. rewrite E3.
    destruct (rnd_rel (s * (1 / s * (1 + e2) * ((x - l) * (1 + e1)) * (1 + e3)))) as [e4 [He4 E4]]. rewrite E4.
    set (p := s * (1 / s * (1 + e2) * ((x - l) * (1 + e1)) * (1 + e3)) * (1 + e4)).
    destruct (rnd_rel (p + l)) as [e5 [He5 E5]]. rewrite E5.
    set (a := (1 + e1) * (1 + e2) * (1 + e3) * (1 + e4)).
    assert (Hp : p = (x - l) * a) by (unfold p, a; field; exact Hs).
    assert (Ha : Rabs (a - 1) <= B4).
    { unfold a, B4.
      pose (A1 := (1 + 0) * (1 + u) - 1). pose (A2 := (1 + A1) * (1 + u) - 1). pose (A3 := (1 + A2) * (1 + u) - 1).
      assert (P1 : 0 <= A1) by (unfold A1; lra).
      assert (P2 : 0 <= A2) by (unfold A2; nra).
      assert (P3 : 0 <= A3) by (unfold A3; nra).
      assert (H1 : Rabs ((1 + e1) - 1) <= A1) by (unfold A1; replace (1 + e1 - 1) with e1 by ring; lra).
      assert (H2 := pert_step (1 + e1) A1 e2 P1 H1 He2). fold A2 in H2.
      assert (H3 := pert_step ((1 + e1) * (1 + e2)) A2 e3 P2 H2 He3). fold A3 in H3.
      assert (H4 := pert_step ((1 + e1) * (1 + e2) * (1 + e3)) A3 e4 P3 H3 He4).
      eapply Rle_trans; [exact H4|]. apply Req_le. unfold A3, A2, A1. ring. }
    assert (Hd : Rabs (p + l - x) <= Rabs (x - l) * B4).
    { replace (p + l - x) with ((x - l) * (a - 1)) by (rewrite Hp; ring). rewrite Rabs_mult. apply Rmult_le_compat_l; [apply Rabs_pos|exact Ha]. }
    replace ((p + l) * (1 + e5) - x) with ((p + l - x) + (p + l) * e5) by ring.
    eapply Rle_trans; [apply Rabs_triang|]. rewrite Rabs_mult.
    assert (Hpl : Rabs (p + l) <= Rabs x + Rabs (x - l) * B4).
    { replace (p + l) with (x + (p + l - x)) by ring. eapply Rle_trans; [apply Rabs_triang|]. lra. }
    assert (0 <= Rabs (p + l)) by apply Rabs_pos. assert (0 <= Rabs e5) by apply Rabs_pos.
    assert (Rabs (p + l) * Rabs e5 <= (Rabs x + Rabs (x - l) * B4) * u) by (apply Rmult_le_compat; assumption). lra.
  Qed.
End RoundTrip.

(** instance: radix 2, precision 53, round to nearest even, unbounded exponent; u = 2^-53 *)
Definition rnd64 : R -> R := round radix2 (FLX_exp 53) ZnearestE.
Lemma rnd64_rel : forall r, exists e, Rabs e <= / 2 * bpow radix2 (- 53 + 1) /\ rnd64 r = r * (1 + e).
Proof.
  intros r. unfold rnd64.
  destruct (relative_error_N_FLX_ex radix2 53 ltac:(lia) (fun x => negb (Z.even x)) r) as [e [He E]].
  exists e. split; [exact He|exact E].
Qed.
Theorem roundtrip_error_binary64 (x l s : R) : s <> 0 ->
  let u := / 2 * bpow radix2 (- 53 + 1) in
  Rabs (roundtrip rnd64 x l s - x) <= Rabs (x - l) * B4 u + u * (Rabs x + Rabs (x - l) * B4 u).
Proof.
  intros Hs u. apply roundtrip_error; [|exact rnd64_rel|exact Hs].
  unfold u. apply Rmult_le_pos; [lra|apply bpow_ge_0].
Qed.
