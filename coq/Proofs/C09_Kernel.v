(** C09 — the kernel expressions regenerated from the source (Gen/C09_Kernel.v) are the ones the hand model uses.
    Every lemma is closed by [reflexivity]: if an expression of the source changes (a rounded reciprocal instead of the
    quotient, [<=] for [<], [nphase + 1] for [ploidy + 1]) the regenerated definition no longer unfolds to the model's and
    this file — hence Props/C09.vo — stops compiling.  [kernel_boundary] restates the boundary theorem about the generated
    definitions themselves. *)
From Coq Require Import PrimFloat.
From PV Require Import Lib.Common Lib.FloatK Lib.FloatDivProof Model.C09_Stats Proofs.C09_Stats Gen.C09_Kernel.
Local Open Scope Z_scope.

Lemma k_afreq_model c N : k_afreq (f_of_Z c) (f_of_Z N) = afreq_f1 c N.            Proof. reflexivity. Qed.
Lemma k_ph_afreq_model c N : k_ph_afreq (f_of_Z c) (f_of_Z N) = afreq_f1 c N.      Proof. reflexivity. Qed.
Lemma k_denom_model ploidy mat : k_denom ploidy (ntaxa mat) = ploidy * ntaxa mat.   Proof. reflexivity. Qed.
Lemma k_ph_denom_model ph n : k_ph_denom (nphase ph) (Z.of_nat n) = nphase ph * Z.of_nat n. Proof. reflexivity. Qed.
Lemma k_afixed_model x : k_afixed x = afixed_f1 x.                                  Proof. reflexivity. Qed.
Lemma k_apoly_model x : k_apoly x = apoly_f1 x.                                     Proof. reflexivity. Qed.
Lemma k_maf_model x : (if k_maf_mask x then k_maf x else x) = maf_f1 x.             Proof. reflexivity. Qed.
Lemma k_ph_maf_model x : (if k_ph_maf_mask x then k_ph_maf x else x) = maf_f1 x.    Proof. reflexivity. Qed.
(** number of genotype classes: the unphased class counts ploidy+1, the phased one nphase+1 with nphase = ploidy *)
Lemma k_gt_nclass_model (ploidy : nat) p mat nph :
  Z.of_nat (length (gtcount ploidy p mat)) = k_gt_nclass (Z.of_nat ploidy) nph.
Proof. rewrite gtcount_classes. unfold k_gt_nclass. lia. Qed.
Lemma k_ph_gt_nclass_model (ploidy : nat) p mat :
  Z.of_nat (length (gtcount ploidy p mat)) = k_ph_gt_nclass (Z.of_nat ploidy) (Z.of_nat ploidy).
Proof. rewrite gtcount_classes. unfold k_ph_gt_nclass. lia. Qed.

(** the whole afreq/afixed/apoly pipeline of the source, as generated, for the unphased and the phased class *)
Lemma afreq_pipeline_model ploidy p mat :
  map (fun c => k_afreq (f_of_Z c) (f_of_Z (k_denom ploidy (ntaxa mat)))) (acount p mat) = afreq_f ploidy p mat.
Proof. reflexivity. Qed.
Lemma afreq_ph_pipeline_model n p ph :
  map (fun c => k_ph_afreq (f_of_Z c) (f_of_Z (k_ph_denom (nphase ph) (Z.of_nat n)))) (acount_ph p ph) = afreq_ph_f n p ph.
Proof. reflexivity. Qed.

(** boundary theorem about the generated kernels *)
Lemma kernel_boundary (c ploidy n : Z) : 0 <= c <= k_denom ploidy n -> 0 < k_denom ploidy n <= 2^53 ->
  let x := k_afreq (f_of_Z c) (f_of_Z (k_denom ploidy n)) in
  k_afixed x = afixed_z c (ploidy * n) /\ k_apoly x = apoly_z c (ploidy * n) /\ k_afixed x = negb (k_apoly x)
  /\ PrimFloat.leb 0%float x = true /\ PrimFloat.leb x 1%float = true.
Proof.
  intros Hc HN x. subst x. change (k_denom ploidy n) with (ploidy * n) in *.
  rewrite k_afreq_model, k_afixed_model, k_apoly_model.
  pose proof (afreq_f1_boundary c (ploidy * n) Hc HN) as B.
  repeat split.
  - apply afixed_f1_exact; assumption.
  - apply apoly_f1_exact; assumption.
  - apply afixed_compl_apoly_f1; assumption.
  - apply B.
  - apply B.
Qed.
