(** C09 — the kernel expressions regenerated from the source (Gen/C09_Kernel.v) are the ones the hand model uses.
    Every lemma is closed by [reflexivity]: if an expression of the source changes (a rounded reciprocal instead of the
    quotient, [<=] for [<], [nphase + 1] for [ploidy + 1]) the regenerated definition no longer unfolds to the model's and
    this file — hence Props/C09.vo — stops compiling.  [kernel_boundary] restates the boundary theorem about the generated
    definitions themselves. *)
From Coq Require Import PrimFloat.
From PV Require Import Lib.Common Lib.FloatK Lib.FloatDivProof Model.C09_Stats Proofs.C09_Stats Gen.C09_Kernel.
Local Open Scope Z_scope.

Lemma k_afreq_model c N : k_afreq (f_of_Z c) (f_of_Z N) = afreq_f1 c N.            Proof. reflexivity. Qed.
Lemma k_ph_afreq_model c N : k_ph_afreq (f_of_Z c) (f_of_Z N) = afreq_f1 c N.      Proof. reflexivity. Qed.
Lemma k_denom_model ploidy mat : k_denom ploidy (ntaxa mat) = ploidy * ntaxa mat.   Proof. reflexivity. Qed.
Lemma k_ph_denom_model ph n : k_ph_denom (nphase ph) (Z.of_nat n) = nphase ph * Z.of_nat n. Proof. reflexivity. Qed.
Lemma k_afixed_model x : k_afixed x = afixed_f1 x.                                  Proof. reflexivity. Qed.
Lemma k_apoly_model x : k_apoly x = apoly_f1 x.                                     Proof. reflexivity. Qed.
Lemma k_maf_model x : (if k_maf_mask x then k_maf x else x) = maf_f1 x.             Proof. reflexivity. Qed.
Lemma k_ph_maf_model x : (if k_ph_maf_mask x then k_ph_maf x else x) = maf_f1 x.    Proof. reflexivity. Qed.
(** number of genotype classes: the unphased class counts ploidy+1, the phased one nphase+1 with nphase = ploidy *)
Lemma k_gt_nclass_model (ploidy : nat) p mat nph :
  Z.of_nat (length (gtcount ploidy p mat)) = k_gt_nclass (Z.of_nat ploidy) nph.
Proof. rewrite gtcount_classes. unfold k_gt_nclass. lia. Qed.
Lemma k_ph_gt_nclass_model (ploidy : nat) p mat :
  Z.of_nat (length (gtcount ploidy p mat)) = k_ph_gt_nclass (Z.of_nat ploidy) (Z.of_nat ploidy).
Proof. rewrite gtcount_classes. unfold k_ph_gt_nclass. lia. Qed.

(** the whole afreq/afixed/apoly pipeline of the source, as generated, for the unphased and the phased class *)
Lemma afreq_pipeline_model ploidy p mat :
  map (fun c => k_afreq (f_of_Z c) (f_of_Z (k_denom ploidy (ntaxa mat)))) (acount p mat) = afreq_f ploidy p mat.
Proof. reflexivity. Qed.
Lemma afreq_ph_pipeline_model n p ph :
  map (fun c => k_ph_afreq (f_of_Z c) (f_of_Z (k_ph_denom (nphase ph) (Z.of_nat n)))) (acount_ph p ph) = afreq_ph_f n p ph.
Proof. reflexivity. Qed.

(** boundary theorem about the generated kernels *)
Lemma kernel_boundary (c ploidy n : Z) : 0 <= c <= k_denom ploidy n -> 0 < k_denom ploidy n <= 2^53 ->
  let x := k_afreq (f_of_Z c) (f_of_Z (k_denom ploidy n)) in
  k_afixed x = afixed_z c (ploidy * n) /\ k_apoly x = apoly_z c (ploidy * n) /\ k_afixed x = negb (k_apoly x)
  /\ PrimFloat.leb 0%float x = true /\ PrimFloat.leb x 1%float = true.
Proof.
  intros Hc HN x. subst x. change (k_denom ploidy n) with (ploidy * n) in *.
  rewrite k_afreq_model, k_afixed_model, k_apoly_model.
  pose proof (afreq_f1_boundary c (ploidy * n) Hc HN) as B.
  repeat split.
  - apply afixed_f1_exact; assumption.
  - apply apoly_f1_exact; assumption.
  - apply afixed_compl_apoly_f1; assumption.
  - apply B.
  - apply B.
Qed.

(** ** kernels of tafreq / gtfreq / meh / the three codings (both classes) *)
Lemma k_tafreq_model ploidy mat :
  map (map (fun x => k_tafreq (k_tafreq_recip (f_of_Z ploidy)) (f_of_Z x))) mat = tafreq_f ploidy mat.
Proof. reflexivity. Qed.
Lemma k_ph_tafreq_model ploidy mat :
  map (map (fun x => k_ph_tafreq (k_ph_tafreq_recip (f_of_Z ploidy)) (f_of_Z x))) mat = tafreq_f ploidy mat.
Proof. reflexivity. Qed.
Lemma k_gtfreq_model (ploidy p : nat) mat :
  map (map (fun c => k_gtfreq (k_gtfreq_recip (f_of_Z (ntaxa mat))) (f_of_Z c))) (gtcount ploidy p mat) = gtfreq_f ploidy p mat.
Proof. reflexivity. Qed.
Lemma k_ph_gtfreq_model (ploidy p : nat) mat :
  map (map (fun c => k_ph_gtfreq (k_ph_gtfreq_recip (f_of_Z (ntaxa mat))) (f_of_Z c))) (gtcount ploidy p mat) = gtfreq_f ploidy p mat.
Proof. reflexivity. Qed.
(** meh: unphased  dot(p, 1 - p) * (ploidy / nvrnt) ; phased  sum(p * (1 - p)) * (ploidy / nvrnt)  — the same exact rational *)
Lemma k_meh_model ploidy p mat :
  Qmult (k_meh_scale (Qmake ploidy 1) (Qmake (Z.of_nat p) 1)) (sumQ (map (fun x => Qmult x (k_meh_compl x)) (afreq_q ploidy p mat)))
  = meh_q ploidy p mat.
Proof. reflexivity. Qed.
Lemma k_ph_meh_model ploidy p mat :
  Qmult (k_ph_meh_scale (Qmake ploidy 1) (Qmake (Z.of_nat p) 1)) (sumQ (map k_ph_meh_term (afreq_q ploidy p mat))) = meh_q ploidy p mat.
Proof. reflexivity. Qed.
Lemma k_fmt_m101_model mat : map (map k_fmt_m101) mat = fmt_m101 mat.        Proof. reflexivity. Qed.
Lemma k_ph_fmt_m101_model mat : map (map k_ph_fmt_m101) mat = fmt_m101 mat.  Proof. reflexivity. Qed.
(** {-1,m,1}: shift, then per column replace the entries selected by the mask by the column mean *)
Definition fmt_m1m1_gen (shift : Z -> Z) (mask : Z -> bool) (p : nat) (mat : list (list Z)) : list (list Q) :=
  let sh := map (map shift) mat in
  let means := map (fun c => Qmake c 1 / Qmake (ntaxa mat) 1)%Q (colsumsZ p sh) in
  map (fun row => map2 (fun x m => if mask x then m else Qmake x 1) row means) sh.
Lemma k_fmt_m1m1_model p mat : fmt_m1m1_gen k_fmt_shift k_fmt_mask p mat = fmt_m1m1 p mat.          Proof. reflexivity. Qed.
Lemma k_ph_fmt_m1m1_model p mat : fmt_m1m1_gen k_ph_fmt_shift k_ph_fmt_mask p mat = fmt_m1m1 p mat. Proof. reflexivity. Qed.

(** what the generated coding kernels compute, for every integer dosage: the {-1,0,1} value is x-1, the float shift of the
    {-1,m,1} branch is the same value, and the entries replaced by the marker mean are exactly the heterozygotes (x = 1);
    for a diploid dosage the {-1,0,1} value lies in {-1,0,1} *)
Lemma kernel_codings (x : Z) :
  k_fmt_m101 x = x - 1 /\ k_ph_fmt_m101 x = x - 1 /\ k_fmt_shift x = k_fmt_m101 x /\ k_ph_fmt_shift x = k_ph_fmt_m101 x
  /\ k_fmt_mask (k_fmt_shift x) = (x =? 1) /\ k_ph_fmt_mask (k_ph_fmt_shift x) = (x =? 1)
  /\ (0 <= x <= 2 -> -1 <= k_fmt_m101 x <= 1 /\ -1 <= k_ph_fmt_m101 x <= 1).
Proof.
  unfold k_fmt_m101, k_ph_fmt_m101, k_fmt_shift, k_ph_fmt_shift, k_fmt_mask, k_ph_fmt_mask.
  repeat split; try lia; destruct (Z.eqb_spec (x - 1) 0), (Z.eqb_spec x 1); try reflexivity; lia.
Qed.
