(** C11 — binary64 statement: scipy's barycentric evaluation returns the stored genetic position *bit for bit* at
    either end of the selected segment, for all finite genetic positions and all knot distances up to 2^53
    (through Flocq's PrimFloat bridge and Lib/FloatDivProof). *)
From Coq Require Import ZArith Reals Lra Lia PrimFloat Uint63.
From Flocq Require Import Core IEEE754.BinarySingleNaN IEEE754.PrimFloat.
From PV Require Import Lib.Common Lib.FloatK Lib.FloatDivProof Model.C11_Map.
Local Open Scope R_scope.

Definition finite64 (y : PrimFloat.float) : Prop := is_finite (Prim2B y) = true.

Lemma rnd_generic x : generic_format radix2 fexp64 x -> rnd64 x = x.
Proof. intros H. apply round_generic; [auto with typeclass_instances | exact H]. Qed.

Lemma B2R_format (b : binary_float FloatOps.prec FloatOps.emax) : generic_format radix2 fexp64 (B2R b).
Proof. rewrite <- fexp_eq. apply generic_format_B2R. Qed.

(** w * y for a weight w whose real value is 0 or 1: exact, finite *)
Lemma mul_weight (w y : PrimFloat.float) (v : R) : finite64 w -> finite64 y -> B2R (Prim2B w) = v -> (v = 0 \/ v = 1) ->
  B2R (Prim2B (PrimFloat.mul w y)) = v * B2R (Prim2B y) /\ finite64 (PrimFloat.mul w y).
Proof.
  intros Fw Fy Ew Hv. unfold finite64 in *. rewrite mul_equiv.
  pose proof (Bmult_correct FloatOps.prec FloatOps.emax Hprec Hmax mode_NE (Prim2B w) (Prim2B y)) as H.
  rewrite fexp_eq, Ew in H. change (round radix2 fexp64 (round_mode mode_NE)) with rnd64 in H.
  assert (G : generic_format radix2 fexp64 (v * B2R (Prim2B y))).
  { destruct Hv as [-> | ->]; [rewrite Rmult_0_l; apply generic_format_0 | rewrite Rmult_1_l; apply B2R_format]. }
  rewrite (rnd_generic _ G) in H. rewrite Rlt_bool_true in H.
  - destruct H as (H1 & H2 & _). split; [exact H1 | now rewrite H2, Fw, Fy].
  - pose proof (abs_B2R_lt_emax _ _ (Prim2B y)) as A.
    destruct Hv as [-> | ->]; [rewrite Rmult_0_l, Rabs_R0; apply bpow_gt_0 | now rewrite Rmult_1_l].
Qed.

Lemma add_exact (a b : PrimFloat.float) (va vb : R) : finite64 a -> finite64 b -> B2R (Prim2B a) = va -> B2R (Prim2B b) = vb ->
  generic_format radix2 fexp64 (va + vb) -> Rabs (va + vb) < bpow radix2 FloatOps.emax ->
  B2R (Prim2B (PrimFloat.add a b)) = va + vb /\ finite64 (PrimFloat.add a b).
Proof.
  intros Fa Fb Ea Eb G A. unfold finite64 in *. rewrite add_equiv.
  pose proof (Bplus_correct FloatOps.prec FloatOps.emax Hprec Hmax mode_NE (Prim2B a) (Prim2B b) Fa Fb) as H.
  rewrite fexp_eq, Ea, Eb in H. change (round radix2 fexp64 (round_mode mode_NE)) with rnd64 in H.
  rewrite (rnd_generic _ G) in H. rewrite Rlt_bool_true in H by exact A. destruct H as (H1 & H2 & _). now split.
Qed.

Lemma fdivZ_val (c N : Z) (v : R) : (0 < N <= 2^53)%Z -> ((c = 0%Z /\ v = 0) \/ (c = N /\ v = 1)) ->
  B2R (Prim2B (fdivZ c N)) = v /\ finite64 (fdivZ c N).
Proof.
  intros HN Hc. destruct (fdivZ_exact c N ltac:(lia) HN) as [Rq Fq]. split; [|exact Fq]. rewrite Rq.
  fold fexp64. fold rnd64. destruct Hc as [[-> ->] | [-> ->]].
  - unfold Rdiv. rewrite Rmult_0_l. apply rnd_generic, generic_format_0.
  - unfold Rdiv. rewrite Rinv_r by (apply not_0_IZR; lia). apply rnd_generic, fmt_1.
Qed.

Definition bary_f (x xl : Z) (yl : PrimFloat.float) (xh : Z) (yh : PrimFloat.float) : PrimFloat.float :=
  PrimFloat.add (PrimFloat.mul (fdivZ (x - xl) (xh - xl)) yh) (PrimFloat.mul (fdivZ (xh - x) (xh - xl)) yl).

(** at the upper knot of the segment the value is y_hi, at the lower knot y_lo — as binary64 numbers *)
Lemma bary_f_at_ends xl xh yl yh : (0 < xh - xl <= 2^53)%Z -> finite64 yl -> finite64 yh ->
  PrimFloat.eqb (bary_f xh xl yl xh yh) yh = true /\ PrimFloat.eqb (bary_f xl xl yl xh yh) yl = true.
Proof.
  intros Hd Fl Fh. unfold bary_f. rewrite !Z.sub_diag.
  destruct (fdivZ_val (xh - xl) (xh - xl) 1 Hd ltac:(right; split; reflexivity)) as [W1 F1].
  destruct (fdivZ_val 0 (xh - xl) 0 Hd ltac:(left; split; reflexivity)) as [W0 F0].
  pose proof (abs_B2R_lt_emax _ _ (Prim2B yh)) as Ah. pose proof (abs_B2R_lt_emax _ _ (Prim2B yl)) as Al.
  split.
  - destruct (mul_weight _ yh 1 F1 Fh W1 ltac:(now right)) as [M1 G1].
    destruct (mul_weight _ yl 0 F0 Fl W0 ltac:(now left)) as [M0 G0].
    destruct (add_exact _ _ _ _ G1 G0 M1 M0) as [S FS].
    + rewrite Rmult_1_l, Rmult_0_l, Rplus_0_r. apply B2R_format.
    + now rewrite Rmult_1_l, Rmult_0_l, Rplus_0_r.
    + rewrite eqb_equiv, Beqb_correct by assumption. rewrite S. apply Req_bool_iff. ring.
  - destruct (mul_weight _ yh 0 F0 Fh W0 ltac:(now left)) as [M0 G0].
    destruct (mul_weight _ yl 1 F1 Fl W1 ltac:(now right)) as [M1 G1].
    destruct (add_exact _ _ _ _ G0 G1 M0 M1) as [S FS].
    + rewrite Rmult_1_l, Rmult_0_l, Rplus_0_l. apply B2R_format.
    + now rewrite Rmult_1_l, Rmult_0_l, Rplus_0_l.
    + rewrite eqb_equiv, Beqb_correct by assumption. rewrite S. apply Req_bool_iff. ring.
Qed.

(** [interp1_f] is [bary_f] on the selected segment *)
Lemma interp1_f_bary pts x :
  let hi := clipn 1 (length pts - 1) (searchsorted (map fst pts) x) in
  interp1_f pts x = bary_f x (fst (nth (hi - 1) pts (0%Z, 0%float))) (snd (nth (hi - 1) pts (0%Z, 0%float)))
                           (fst (nth hi pts (0%Z, 0%float))) (snd (nth hi pts (0%Z, 0%float))).
Proof. cbv zeta. unfold interp1_f, bary_f. destruct (nth _ pts _), (nth _ pts _). reflexivity. Qed.

From PV Require Import Proofs.C11_Map.
Local Open Scope Z_scope.

Lemma searchsorted_at_knot xs i : incr xs -> (i < length xs)%nat -> searchsorted xs (nth i xs 0) = i.
Proof.
  intros Hx Hi. destruct (searchsorted_spec xs (nth i xs 0) Hx) as (A & B & C).
  set (k := searchsorted xs (nth i xs 0)) in *.
  destruct (Nat.lt_trichotomy k i) as [L|[E|G]]; [|exact E|].
  - specialize (B k ltac:(lia)). pose proof (incr_nth xs Hx k i ltac:(lia)). lia.
  - specialize (A i G). lia.
Qed.

(** interpolating a binary64 map at any of its own knots returns the stored binary64 position *)
Lemma interp1_f_at_knot (pts : list (Z * PrimFloat.float)) i : (2 <= length pts)%nat -> incr (map fst pts) ->
  (forall a b, (a < b < length pts)%nat -> nth b (map fst pts) 0 - nth a (map fst pts) 0 <= 2^53) ->
  Forall (fun p => finite64 (snd p)) pts -> (i < length pts)%nat ->
  PrimFloat.eqb (interp1_f pts (fst (nth i pts (0, 0%float)))) (snd (nth i pts (0, 0%float))) = true.
Proof.
  intros Hn Hx Hd Hf Hi. rewrite interp1_f_bary. cbv zeta.
  assert (EX : forall k, nth k (map fst pts) 0 = fst (nth k pts (0, 0%float))) by (intros k; exact (map_nth fst pts (0, 0%float) k)).
  rewrite <- (EX i), searchsorted_at_knot by (exact Hx || now rewrite map_length). rewrite (EX i).
  assert (Fin : forall k, (k < length pts)%nat -> finite64 (snd (nth k pts (0, 0%float)))).
  { intros k Hk. rewrite Forall_forall in Hf. apply Hf, nth_In, Hk. }
  unfold clipn. destruct i as [|i].
  - replace (Nat.min (Nat.max 0 1) (length pts - 1)) with 1%nat by lia. cbn [Nat.sub].
    apply bary_f_at_ends; [|apply Fin; lia|apply Fin; lia]. rewrite <- !EX. split.
    + pose proof (incr_nth _ Hx 0%nat 1%nat ltac:(rewrite map_length; lia)). lia.
    + apply Hd. lia.
  - replace (Nat.min (Nat.max (S i) 1) (length pts - 1)) with (S i) by lia. replace (S i - 1)%nat with i by lia.
    apply bary_f_at_ends; [|apply Fin; lia|apply Fin; lia]. rewrite <- !EX. split.
    + pose proof (incr_nth _ Hx i (S i) ltac:(rewrite map_length; lia)). lia.
    + apply Hd. lia.
Qed.
