(** C06 — scale covariance of the exact optimisers: multiplying all constraint violations by a positive constant and
    all objective values by a positive constant (weights such as 2^-40 or 2^20) changes neither the trajectory nor the
    result of the climbers, nor the selection of the sorting optimiser.  (This is what entitles the correspondence to
    run the model in units of the weights' scale; an absolute tolerance in a comparison would violate it.) *)
From Coq Require Import Lia.
From PV Require Import Lib.Common Model.C06_Opt Proofs.C06_Opt.
Local Open Scope Z_scope.

Lemma ltb_scale a u v : 0 < a -> (a * u <? a * v) = (u <? v).
Proof. intros Ha. destruct (Z.ltb_spec u v), (Z.ltb_spec (a * u) (a * v)); try reflexivity; nia. Qed.
Lemma eqb_scale a u v : 0 < a -> (a * u =? a * v) = (u =? v).
Proof. intros Ha. destruct (Z.eqb_spec u v), (Z.eqb_spec (a * u) (a * v)); try reflexivity; nia. Qed.
Lemma leb_scale a u v : 0 < a -> (a * u <=? a * v) = (u <=? v).
Proof. intros Ha. destruct (Z.leb_spec u v), (Z.leb_spec (a * u) (a * v)); try reflexivity; nia. Qed.

Section ScaleClimb.
  Variables ev ev' : list Z -> evalT.
  Variables a b : Z.
  Hypothesis Ha : 0 < a.
  Hypothesis Hb : 0 < b.
  Hypothesis Hcv : forall x, cv (ev' x) = a * cv (ev x).
  Hypothesis Hsc : forall x, score (ev' x) = b * score (ev x).

  (** the running bests of the two scans name the same exchange and are evaluations of the same decision *)
  Definition same_best (p p' : option (nat * nat) * evalT) : Prop :=
    fst p = fst p' /\ exists y, snd p = ev y /\ snd p' = ev' y.

  Lemma step_scale s w p p' ij : same_best p p' -> same_best (step ev s w p ij) (step ev' s w p' ij).
  Proof.
    intros (Hf & y & E & E'). unfold step. rewrite E, E', !Hcv, !Hsc, ltb_scale, eqb_scale, ltb_scale by assumption.
    destruct (cv (ev (prop s w ij)) <? cv (ev y)); [split; [reflexivity | now exists (prop s w ij)]|].
    destruct ((cv (ev (prop s w ij)) =? cv (ev y)) && (score (ev (prop s w ij)) <? score (ev y))).
    - split; [reflexivity | now exists (prop s w ij)].
    - split; [exact Hf | exists y; now rewrite E, E'].
  Qed.
  Lemma scan_scale s w y : same_best (scan ev s w (ev y)) (scan ev' s w (ev' y)).
  Proof.
    unfold scan. assert (H0 : same_best (None, ev y) (None, ev' y)) by (split; [reflexivity | now exists y]).
    revert H0. generalize (@None (nat * nat), ev y) (@None (nat * nat), ev' y). induction (pairs s w) as [|ij l IH]; intros p p' H; [exact H|].
    cbn [fold_left]. apply IH. now apply step_scale.
  Qed.

  Definition forget (o : option (list Z * list Z * evalT)) : option (list Z * list Z) := option_map fst o.

  (** the stored evaluation of a state reached from a truthful start is the evaluation of its solution, so the scaled and the
      unscaled loop can be compared state by state *)
  Lemma climb_scale fuel : forall s w y g g', g = ev y -> g' = ev' y -> forget (climb ev' fuel s w g') = forget (climb ev fuel s w g).
  Proof.
    induction fuel as [|f IH]; intros s w y g g' -> ->; [reflexivity|]. cbn [climb].
    destruct (scan_scale s w y) as (Hf & z & E & E').
    destruct (scan ev s w (ev y)) as [o r], (scan ev' s w (ev' y)) as [o' r']. cbn [fst snd] in *. subst o'.
    destruct o as [ij|]; [|reflexivity]. apply (IH _ _ z); [exact E | exact E'].
  Qed.

  Theorem climb_from_scale fuel cand start :
    forget (climb_from ev' fuel cand start) = forget (climb_from ev fuel cand start).
  Proof. unfold climb_from. apply (climb_scale fuel _ _ start); reflexivity. Qed.
End ScaleClimb.

(** sorting: scaling the single-member objective by a positive constant does not change the selection *)
Section ScaleSort.
  Variables ev ev' : list Z -> evalT.
  Variable b : Z.
  Hypothesis Hb : 0 < b.
  Hypothesis Hkey : forall e, single_key ev' e = b * single_key ev e.

  Definition sck (kx : Z * Z) : Z * Z := (b * fst kx, snd kx).
  Lemma insert_by_scale kx l : insert_by (sck kx) (map sck l) = map sck (insert_by kx l).
  Proof.
    induction l as [|ky l IH]; [reflexivity|]. cbn [map insert_by].
    change (fst (sck kx)) with (b * fst kx). change (fst (sck ky)) with (b * fst ky).
    rewrite leb_scale by assumption. destruct (fst kx <=? fst ky); [reflexivity|]. cbn [map]. now rewrite <- IH.
  Qed.
  Lemma isort_scale l : isort (map sck l) = map sck (isort l).
  Proof. induction l as [|kx l IH]; [reflexivity|]. cbn [map isort fold_right]. fold (isort (map sck l)). fold (isort l). now rewrite IH, insert_by_scale. Qed.
  Theorem sort_select_scale cand k : sort_select ev' cand k = sort_select ev cand k.
  Proof.
    unfold sort_select, keyed. f_equal.
    rewrite (map_ext (fun e => (single_key ev' e, e)) (fun e => sck (single_key ev e, e))) by (intros e; unfold sck; cbn; now rewrite Hkey).
    rewrite <- (map_map (fun e => (single_key ev e, e)) sck), isort_scale, map_map. reflexivity.
  Qed.
End ScaleSort.
