(** C14 — lemmas about Model/C14_Pheno.v *)
From Coq Require Import String Ascii Permutation Sorted Lqa Setoid.
From PV Require Import Lib.Common Model.C14_Pheno.
Local Open Scope Q_scope.

(** * 1. order on group keys *)
Lemma str_compare_refl (s : str) : String.compare s s = Eq.
Proof. induction s as [|c s IH]; cbn; [reflexivity|]. unfold Ascii.compare. now rewrite N.compare_refl. Qed.

Lemma str_compare_lt_trans : forall a b c : str, String.compare a b = Lt -> String.compare b c = Lt -> String.compare a c = Lt.
Proof.
  induction a as [|x a IH]; intros [|y b] [|z c]; cbn; try discriminate; try reflexivity.
  unfold Ascii.compare.
  destruct (N.compare_spec (N_of_ascii x) (N_of_ascii y)) as [E1|L1|G1]; try discriminate;
  destruct (N.compare_spec (N_of_ascii y) (N_of_ascii z)) as [E2|L2|G2]; try discriminate; intros H1 H2.
  - rewrite E1, E2, N.compare_refl. now apply (IH b c).
  - rewrite E1. now apply N.compare_lt_iff in L2 as ->.
  - rewrite <- E2. now apply N.compare_lt_iff in L1 as ->.
  - assert (L : (N_of_ascii x < N_of_ascii z)%N) by (eapply N.lt_trans; eassumption). now apply N.compare_lt_iff in L as ->.
Qed.

Definition key_ltb (a b : key) : bool := key_leb a b && negb (key_eqb a b).

Lemma key_eqb_eq (a b : key) : key_eqb a b = true <-> a = b.
Proof.
  destruct a as [s z], b as [s' z']. unfold key_eqb; cbn. rewrite andb_true_iff, String.eqb_eq, Z.eqb_eq.
  split; [intros [-> ->]; reflexivity | intros E; inversion E; auto].
Qed.
Lemma key_eqb_refl (a : key) : key_eqb a a = true. Proof. now apply key_eqb_eq. Qed.

Lemma str_leb_lt (a b : str) : String.leb a b = true -> a <> b -> String.compare a b = Lt.
Proof.
  unfold String.leb. destruct (String.compare a b) eqn:E; intros H N; try reflexivity; try discriminate.
  apply String.compare_eq_iff in E. contradiction.
Qed.

Lemma key_ltb_spec (a b : key) : key_ltb a b = true <->
  (String.compare (fst a) (fst b) = Lt \/ (fst a = fst b /\ (snd a < snd b)%Z)).
Proof.
  destruct a as [s z], b as [s' z']. unfold key_ltb, key_leb, key_eqb; cbn.
  destruct (String.eqb_spec s s') as [->|N].
  - rewrite str_compare_refl. cbn. rewrite andb_true_iff, negb_true_iff, Z.leb_le, Z.eqb_neq. split.
    + intros [H1 H2]. right. split; [reflexivity|lia].
    + intros [H|[_ H]]; [discriminate|lia].
  - cbn. rewrite andb_true_r. split.
    + intros H. left. now apply str_leb_lt.
    + intros [H|[H _]]; [|contradiction]. unfold String.leb. now rewrite H.
Qed.

Lemma key_ltb_irrefl (a : key) : key_ltb a a = false.
Proof. unfold key_ltb. now rewrite key_eqb_refl, andb_false_r. Qed.

Lemma key_ltb_trans (a b c : key) : key_ltb a b = true -> key_ltb b c = true -> key_ltb a c = true.
Proof.
  rewrite !key_ltb_spec. intros [H1|[E1 L1]] [H2|[E2 L2]].
  - left. eapply str_compare_lt_trans; eassumption.
  - left. now rewrite <- E2.
  - left. now rewrite E1.
  - right. split; [congruence|lia].
Qed.

Lemma key_ltb_asym (a b : key) : key_ltb a b = true -> key_ltb b a = true -> False.
Proof. intros H1 H2. pose proof (key_ltb_trans _ _ _ H1 H2) as H. now rewrite key_ltb_irrefl in H. Qed.

(** trichotomy in the form used by [ins] *)
Lemma key_not_le_gt (a b : key) : key_eqb a b = false -> key_leb a b = false -> key_ltb b a = true.
Proof.
  intros NE NL. apply key_ltb_spec. destruct a as [s z], b as [s' z']. unfold key_leb, key_eqb in *; cbn in *.
  destruct (String.eqb_spec s s') as [->|N]; cbn in *.
  - right. split; [reflexivity|]. apply Z.leb_gt in NL. lia.
  - left. unfold String.leb in NL. rewrite String.compare_antisym. destruct (String.compare s s'); cbn; try discriminate. reflexivity.
Qed.
Lemma key_le_ne_lt (a b : key) : key_eqb a b = false -> key_leb a b = true -> key_ltb a b = true.
Proof. intros NE L. unfold key_ltb. now rewrite L, NE. Qed.

Definition klt (a b : key) : Prop := key_ltb a b = true.

(** * 2. sorted distinct keys *)
Lemma ins_In (k x : key) (l : list key) : In x (ins k l) <-> x = k \/ In x l.
Proof.
  induction l as [|h t IH]; cbn; [intuition|].
  destruct (key_eqb k h) eqn:E.
  - apply key_eqb_eq in E. subst. cbn. intuition.
  - destruct (key_leb k h); cbn; [intuition|]. rewrite IH. intuition.
Qed.

Lemma ins_sorted (k : key) (l : list key) : StronglySorted klt l -> StronglySorted klt (ins k l).
Proof.
  induction 1 as [|h t Ht IH Hh]; cbn; [repeat constructor|].
  destruct (key_eqb k h) eqn:E; [now constructor|].
  destruct (key_leb k h) eqn:L.
  - pose proof (key_le_ne_lt _ _ E L) as LT. constructor; [now constructor|].
    constructor; [exact LT|]. rewrite Forall_forall in *. intros x Hx. eapply key_ltb_trans; [exact LT | now apply Hh].
  - pose proof (key_not_le_gt _ _ E L) as GT. constructor; [exact IH|].
    rewrite Forall_forall in *. intros x Hx. apply ins_In in Hx as [->|Hx]; [exact GT | now apply Hh].
Qed.

Lemma keys_of_In (ug : bool) (rows : list trow) (k : key) :
  In k (keys_of ug rows) <-> exists r, In r rows /\ key_of ug r = Some k.
Proof.
  induction rows as [|r rows IH]; cbn; [split; [tauto | intros (r & [] & _)]|].
  destruct (key_of ug r) as [k'|] eqn:E.
  - rewrite ins_In, IH. split.
    + intros [->|(r' & Hr' & Hk)]; [exists r; auto | exists r'; auto].
    + intros (r' & [<-|Hr'] & Hk); [left; congruence | right; exists r'; auto].
  - rewrite IH. split.
    + intros (r' & Hr' & Hk). exists r'; auto.
    + intros (r' & [<-|Hr'] & Hk); [congruence | exists r'; auto].
Qed.

Lemma keys_of_sorted (ug : bool) (rows : list trow) : StronglySorted klt (keys_of ug rows).
Proof. induction rows as [|r rows IH]; cbn; [constructor|]. destruct (key_of ug r); [now apply ins_sorted | exact IH]. Qed.

Lemma sorted_NoDup (l : list key) : StronglySorted klt l -> NoDup l.
Proof.
  induction 1 as [|h t Ht IH Hh]; constructor; [|exact IH].
  intro Hin. rewrite Forall_forall in Hh. specialize (Hh _ Hin). unfold klt in Hh. now rewrite key_ltb_irrefl in Hh.
Qed.

(** a strictly sorted list is determined by its set of elements *)
Lemma sorted_unique : forall l1 l2 : list key, StronglySorted klt l1 -> StronglySorted klt l2 ->
  (forall x, In x l1 <-> In x l2) -> l1 = l2.
Proof.
  induction l1 as [|h1 t1 IH]; intros [|h2 t2] S1 S2 HI.
  - reflexivity.
  - exfalso. apply (proj2 (HI h2)). now left.
  - exfalso. apply (proj1 (HI h1)). now left.
  - inversion S1 as [|? ? S1' F1]; inversion S2 as [|? ? S2' F2]; subst. rewrite Forall_forall in F1, F2.
    assert (E : h1 = h2).
    { destruct (proj1 (HI h1) (or_introl eq_refl)) as [E|I1]; [now symmetry|].
      destruct (proj2 (HI h2) (or_introl eq_refl)) as [E|I2]; [exact E|].
      exfalso. apply (key_ltb_asym h1 h2); [now apply F1 | now apply F2]. }
    subst h2. f_equal. apply IH; [assumption|assumption|].
    intros x. split; intros Hx.
    + destruct (proj1 (HI x) (or_intror Hx)) as [E|I]; [|exact I]. subst x. specialize (F1 _ Hx). unfold klt in F1. now rewrite key_ltb_irrefl in F1.
    + destruct (proj2 (HI x) (or_intror Hx)) as [E|I]; [|exact I]. subst x. specialize (F2 _ Hx). unfold klt in F2. now rewrite key_ltb_irrefl in F2.
Qed.

Lemma keys_of_perm (ug : bool) (rows rows' : list trow) : Permutation rows rows' -> keys_of ug rows = keys_of ug rows'.
Proof.
  intros P. apply sorted_unique; try apply keys_of_sorted.
  intros k. rewrite !keys_of_In. split; intros (r & Hr & Hk); exists r; split; auto.
  - eapply Permutation_in; eassumption.
  - eapply Permutation_in; [apply Permutation_sym|]; eassumption.
Qed.

(** * 3. group means *)
Lemma filter_perm {A} (f : A -> bool) (l l' : list A) : Permutation l l' -> Permutation (filter f l) (filter f l').
Proof.
  induction 1 as [|x l l' P IH|x y l|l l' l'' P1 IH1 P2 IH2]; cbn.
  - constructor.
  - destruct (f x); [now constructor | exact IH].
  - destruct (f x), (f y); try apply Permutation_refl. apply perm_swap.
  - eapply Permutation_trans; eassumption.
Qed.

Lemma sumQ_perm (l l' : list Q) : Permutation l l' -> sumQ l == sumQ l'.
Proof.
  induction 1 as [|x l l' P IH|x y l|l l' l'' P1 IH1 P2 IH2]; cbn [sumQ fold_right].
  - reflexivity.
  - fold (sumQ l) (sumQ l'). now rewrite IH.
  - fold (sumQ l). ring.
  - now rewrite IH1.
Qed.

Definition qlist_eq (a b : list Q) : Prop := Forall2 Qeq a b.
Lemma qlist_eq_refl a : qlist_eq a a.
Proof. induction a; constructor; [reflexivity | assumption]. Qed.
Lemma qlist_eq_sym a b : qlist_eq a b -> qlist_eq b a.
Proof. induction 1; constructor; [now symmetry | assumption]. Qed.
Lemma qlist_eq_trans a b c : qlist_eq a b -> qlist_eq b c -> qlist_eq a c.
Proof. intros H. revert c. induction H as [|x y l l' Hxy H IH]; intros c H2; inversion H2; subst; constructor; [etransitivity; eassumption | now apply IH]. Qed.

Lemma mean_rows_perm (sel : list nat) (rs rs' : list trow) : Permutation rs rs' -> qlist_eq (mean_rows sel rs) (mean_rows sel rs').
Proof.
  intros P. unfold mean_rows, qlist_eq. induction sel as [|j sel IH]; cbn [map]; constructor; [|exact IH].
  rewrite (Permutation_length P). apply Qmult_comp; [|reflexivity].
  apply sumQ_perm. now apply Permutation_map.
Qed.

Lemma members_perm (ug : bool) (k : key) (rows rows' : list trow) : Permutation rows rows' -> Permutation (members ug k rows) (members ug k rows').
Proof. apply filter_perm. Qed.

Lemma members_In (ug : bool) (k : key) (rows : list trow) (r : trow) : In r (members ug k rows) <-> In r rows /\ key_of ug r = Some k.
Proof.
  unfold members. rewrite filter_In. unfold has_key. destruct (key_of ug r) as [k'|]; split; intros [H1 H2]; split; auto; try discriminate.
  - apply key_eqb_eq in H2. now subst.
  - inversion H2. apply key_eqb_refl.
Qed.

(** equivalence of aggregated tables: same keys, Q-equal means *)
Definition agg_eq (a b : list (key * list Q)) : Prop := Forall2 (fun x y => fst x = fst y /\ qlist_eq (snd x) (snd y)) a b.

Lemma agg_perm (ug : bool) (sel : list nat) (rows rows' : list trow) : Permutation rows rows' -> agg_eq (agg ug sel rows) (agg ug sel rows').
Proof.
  intros P. unfold agg, agg_eq. rewrite <- (keys_of_perm ug rows rows' P).
  induction (keys_of ug rows) as [|k ks IH]; cbn [map]; constructor; [|exact IH].
  cbn. split; [reflexivity|]. apply mean_rows_perm. now apply members_perm.
Qed.

(** every aggregated row is the arithmetic mean of exactly the records carrying its key *)
Lemma agg_spec (ug : bool) (sel : list nat) (rows : list trow) (k : key) (m : list Q) :
  In (k, m) (agg ug sel rows) ->
  let M := members ug k rows in
  M <> [] /\ (forall r, In r M <-> In r rows /\ key_of ug r = Some k) /\
  m = map (fun j => sumQ (map (fun r => nth j (t_val r) 0) M) / inject_Z (Z.of_nat (length M))) sel.
Proof.
  intros H M. unfold agg in H. apply in_map_iff in H as (k' & E & Hk). inversion E; subst k' m. clear E.
  split; [|split; [intro r; apply members_In | reflexivity]].
  apply keys_of_In in Hk as (r & Hr & Hkr). intro E. assert (I : In r M) by (apply members_In; auto). rewrite E in I. exact I.
Qed.

Lemma agg_keys (ug : bool) (sel : list nat) (rows : list trow) : map fst (agg ug sel rows) = keys_of ug rows.
Proof. unfold agg. rewrite map_map. cbn. apply map_id. Qed.

(** * 4. the join onto the genotype order *)
Definition orow_eq (a b : option (list Q)) : Prop :=
  match a, b with Some x, Some y => qlist_eq x y | None, None => True | _, _ => False end.

Lemma lookup_last_agg_eq (x : str) (a b : list (key * list Q)) : agg_eq a b -> orow_eq (lookup_last x a) (lookup_last x b).
Proof.
  induction 1 as [|[k v] [k' v'] a b [Ek Ev] H IH]; cbn; [exact I|]. cbn in Ek, Ev. subst k'.
  destruct (lookup_last x a), (lookup_last x b); cbn in IH; try contradiction; [exact IH|].
  destruct (String.eqb x (fst k)); cbn; [exact Ev | exact I].
Qed.

Lemma join_agg_eq (gtx : list str) (a b : list (key * list Q)) : agg_eq a b -> Forall2 orow_eq (join gtx a) (join gtx b).
Proof. intros H. unfold join. induction gtx; cbn; constructor; [now apply lookup_last_agg_eq | assumption]. Qed.

Lemma lookup_last_none (x : str) (a : list (key * list Q)) : (forall kv, In kv a -> fst (fst kv) <> x) -> lookup_last x a = None.
Proof.
  induction a as [|[k v] a IH]; intros H; cbn; [reflexivity|].
  rewrite IH by (intros kv Hkv; apply H; now right).
  destruct (String.eqb_spec x (fst k)) as [E|N]; [|reflexivity]. exfalso. apply (H (k, v)); [now left | now symmetry].
Qed.

Lemma key_eq_dec (a b : key) : {a = b} + {a <> b}.
Proof.
  destruct (key_eqb a b) eqn:E; [left; now apply key_eqb_eq | right].
  intro H. apply key_eqb_eq in H. congruence.
Qed.

Lemma lookup_last_unique (x : str) (f : key -> list Q) (ks : list key) (kx : key) :
  In kx ks -> fst kx = x -> (forall k, In k ks -> fst k = x -> k = kx) ->
  lookup_last x (map (fun k => (k, f k)) ks) = Some (f kx).
Proof.
  induction ks as [|k ks IH]; intros Hin Hx Hu; [destruct Hin|]. cbn.
  destruct (in_dec key_eq_dec kx ks) as [I|NI].
  - rewrite IH; auto. intros k' Hk'. apply Hu. now right.
  - destruct Hin as [->|Hin]; [|contradiction].
    rewrite lookup_last_none.
    + subst x. now rewrite String.eqb_refl.
    + intros [k' v'] Hkv. cbn. apply in_map_iff in Hkv as (k'' & E & Hk''). inversion E; subst k'' v'. clear E.
      intro Ek. apply NI. rewrite <- (Hu k'); auto. now right.
Qed.

Lemma key_of_fst (ug : bool) (r : trow) (k : key) : key_of ug r = Some k -> fst k = t_taxa r.
Proof. unfold key_of. destruct ug; [destruct (t_grp r)|]; intros E; inversion E; reflexivity. Qed.

(** every taxon's records fall into one group, none of them null (always true without a group column) *)
Definition single_key (ug : bool) (rows : list trow) : Prop :=
  forall r1 r2, In r1 rows -> In r2 rows -> t_taxa r1 = t_taxa r2 -> key_of ug r1 = key_of ug r2 /\ key_of ug r1 <> None.

Lemma single_key_nogrp (rows : list trow) : single_key false rows.
Proof. intros r1 r2 _ _ E. unfold key_of. rewrite E. split; [reflexivity | discriminate]. Qed.

Definition of_taxon (x : str) (r : trow) : bool := String.eqb (t_taxa r) x.

Lemma lookup_aligned (ug : bool) (sel : list nat) (rows : list trow) (x : str) :
  single_key ug rows -> (exists r, In r rows /\ t_taxa r = x) ->
  lookup_last x (agg ug sel rows) = Some (mean_rows sel (filter (of_taxon x) rows)).
Proof.
  intros SK (r & Hr & Hx).
  destruct (SK r r Hr Hr eq_refl) as [_ NN]. destruct (key_of ug r) as [kx|] eqn:Ek; [clear NN|congruence].
  pose proof (key_of_fst _ _ _ Ek) as Fk.
  unfold agg. rewrite (lookup_last_unique x (fun k => mean_rows sel (members ug k rows)) (keys_of ug rows) kx).
  - f_equal. f_equal. unfold members. apply filter_ext_in. intros r' Hr'. unfold has_key, of_taxon.
    destruct (String.eqb_spec (t_taxa r') x) as [E|N].
    + destruct (SK r' r Hr' Hr) as [E' _]; [congruence|]. rewrite E', Ek. apply key_eqb_refl.
    + destruct (key_of ug r') as [k'|] eqn:Ek'; [|reflexivity]. apply key_of_fst in Ek'.
      destruct (key_eqb kx k') eqn:E; [|reflexivity]. apply key_eqb_eq in E. subst k'. congruence.
  - apply keys_of_In. exists r. auto.
  - congruence.
  - intros k Hk Fx. apply keys_of_In in Hk as (r' & Hr' & Ek'). pose proof (key_of_fst _ _ _ Ek') as Fk'.
    destruct (SK r' r Hr' Hr) as [E' _]; [congruence|]. congruence.
Qed.

Lemma lookup_absent (ug : bool) (sel : list nat) (rows : list trow) (x : str) :
  (forall r, In r rows -> t_taxa r <> x) -> lookup_last x (agg ug sel rows) = None.
Proof.
  intros H. apply lookup_last_none. intros [k v] Hkv. cbn.
  assert (Hk : In k (keys_of ug rows)) by (rewrite <- agg_keys with (sel := sel); apply in_map_iff; exists (k, v); auto).
  apply keys_of_In in Hk as (r & Hr & Ek). apply key_of_fst in Ek. rewrite Ek. now apply H.
Qed.

(** * 5. estimate *)
Definition est_eq (a b : option est_out) : Prop :=
  match a, b with
  | None, None => True
  | Some (tx, tg, tr, m), Some (tx', tg', tr', m') => tx = tx' /\ tg = tg' /\ tr = tr' /\ Forall2 orow_eq m m'
  | _, _ => False
  end.

Lemma agg_eq_keys (a b : list (key * list Q)) : agg_eq a b -> map fst a = map fst b.
Proof. induction 1 as [|x y a b [E _] _ IH]; cbn; [reflexivity|]. now rewrite E, IH. Qed.

Lemma agg_eq_proj {B} (f : key -> B) (a b : list (key * list Q)) : agg_eq a b ->
  map (fun kv => f (fst kv)) a = map (fun kv => f (fst kv)) b.
Proof. induction 1 as [|x y a b [E _] _ IH]; cbn; [reflexivity|]. now rewrite E, IH. Qed.

Lemma agg_eq_rows (a b : list (key * list Q)) : agg_eq a b ->
  Forall2 orow_eq (map (fun kv => Some (snd kv)) a) (map (fun kv => Some (snd kv)) b).
Proof. induction 1 as [|x y a b [_ E] _ IH]; cbn; constructor; [exact E | exact IH]. Qed.

Lemma estimate_perm (ug hg : bool) (tcols names : list str) (rows rows' : list trow) (gt : gtarg) :
  Permutation rows rows' -> est_eq (estimate ug hg tcols names rows gt) (estimate ug hg tcols names rows' gt).
Proof.
  intros P. unfold estimate. destruct (resolve tcols names) as [sel|]; [|exact I].
  destruct (ug && negb hg); [exact I|].
  pose proof (agg_perm ug sel rows rows' P) as AE.
  destruct gt as [[[gtx|] gtg]|]; cbn.
  - repeat split; try reflexivity. now apply join_agg_eq.
  - exact I.
  - split; [exact (agg_eq_proj fst _ _ AE)|]. split; [|split; [reflexivity | now apply agg_eq_rows]].
    destruct ug; [|reflexivity]. f_equal. exact (agg_eq_proj snd _ _ AE).
Qed.

Lemma estimate_aligned (ug hg : bool) (tcols names : list str) (rows : list trow) (gtx : list str) (gtg : option (list Z)) (o : est_out) :
  estimate ug hg tcols names rows (Some (Some gtx, gtg)) = Some o ->
  exists sel, resolve tcols names = Some sel /\
  let '(tx, tg, tr, m) := o in
  tx = gtx /\ tg = gtg /\ tr = tcols /\ length m = length gtx /\
  forall i x, nth_error gtx i = Some x ->
    (single_key ug rows -> (exists r, In r rows /\ t_taxa r = x) ->
       nth_error m i = Some (Some (mean_rows sel (filter (of_taxon x) rows)))) /\
    ((forall r, In r rows -> t_taxa r <> x) -> nth_error m i = Some None).
Proof.
  unfold estimate. destruct (resolve tcols names) as [sel|]; [|discriminate].
  destruct (ug && negb hg); [discriminate|]. intros E. inversion E; subst o. clear E.
  exists sel. split; [reflexivity|]. repeat split; try reflexivity.
  - unfold join. apply map_length.
  - intros SK EX. unfold join. rewrite nth_error_map, H. cbn. f_equal. now apply lookup_aligned.
  - intros AB. unfold join. rewrite nth_error_map, H. cbn. f_equal. now apply lookup_absent.
Qed.

(** without a genotype matrix: one row per distinct key, sorted, each the arithmetic mean of its members *)
Lemma estimate_groups (ug hg : bool) (tcols names : list str) (rows : list trow) (o : est_out) :
  estimate ug hg tcols names rows None = Some o ->
  exists sel, resolve tcols names = Some sel /\
  let '(tx, tg, tr, m) := o in
  tx = map fst (keys_of ug rows) /\ tg = (if ug then Some (map snd (keys_of ug rows)) else None) /\ tr = tcols /\
  StronglySorted klt (keys_of ug rows) /\ NoDup (keys_of ug rows) /\
  (forall k, In k (keys_of ug rows) <-> exists r, In r rows /\ key_of ug r = Some k) /\
  m = map (fun k => Some (mean_rows sel (members ug k rows))) (keys_of ug rows).
Proof.
  unfold estimate. destruct (resolve tcols names) as [sel|]; [|discriminate].
  destruct (ug && negb hg); [discriminate|]. intros E. inversion E; subst o. clear E.
  exists sel. split; [reflexivity|]. unfold agg. rewrite !map_map. cbn.
  repeat split; try reflexivity.
  - apply keys_of_sorted.
  - apply sorted_NoDup, keys_of_sorted.
  - apply keys_of_In.
  - apply keys_of_In.
Qed.

(** the join really ignores the group: a taxon recorded in two groups gets the mean of its last group *)
Lemma join_ignores_group_witness :
  let rows : list trow := [("a"%string, Some 1%Z, [2]); ("a"%string, Some 2%Z, [4]); ("a"%string, Some 2%Z, [16])] in
  exists v, lookup_last "a"%string (agg true [0%nat] rows) = Some [v] /\ v == 10 /\
            ~ v == nth 0 (mean_rows [0%nat] (filter (of_taxon "a"%string) rows)) 0 /\ ~ single_key true rows.
Proof.
  cbv zeta. eexists. split; [vm_compute; reflexivity|]. split; [reflexivity|]. split.
  - vm_compute. discriminate.
  - intro SK. destruct (SK ("a"%string, Some 1%Z, [2]) ("a"%string, Some 2%Z, [4])) as [E _]; cbn; auto. discriminate.
Qed.

(** null groups drop records: a phenotyped taxon is reported missing *)
Lemma null_group_witness :
  let rows : list trow := [("a"%string, None, [2]); ("a"%string, None, [4])] in
  lookup_last "a"%string (agg true [0%nat] rows) = None /\ (exists r, In r rows /\ t_taxa r = "a"%string) /\ ~ single_key true rows.
Proof.
  cbv zeta. split; [reflexivity|]. split; [eexists; split; [left; reflexivity | reflexivity]|].
  intro SK. destruct (SK ("a"%string, None, [2]) ("a"%string, None, [2])) as [_ N]; cbn; auto.
Qed.
