(** C14 — lemmas about Model/C14_Pheno.v *)
From Coq Require Import String Ascii Permutation Sorted Lqa Setoid.
From PV Require Import Lib.Common Model.C14_Pheno.
Local Open Scope Q_scope.

(** * 1. order on group keys *)
Lemma str_compare_refl (s : str) : String.compare s s = Eq.
Proof. induction s as [|c s IH]; cbn; [reflexivity|]. unfold Ascii.compare. now rewrite N.compare_refl. Qed.

Lemma str_compare_lt_trans : forall a b c : str, String.compare a b = Lt -> String.compare b c = Lt -> String.compare a c = Lt.
Proof.
  induction a as [|x a IH]; intros [|y b] [|z c]; cbn; try discriminate; try reflexivity.
  unfold Ascii.compare.
  destruct (N.compare_spec (N_of_ascii x) (N_of_ascii y)) as [E1|L1|G1]; try discriminate;
  destruct (N.compare_spec (N_of_ascii y) (N_of_ascii z)) as [E2|L2|G2]; try discriminate; intros H1 H2.
  - rewrite E1, E2, N.compare_refl. now apply (IH b c).
  - rewrite E1. now apply N.compare_lt_iff in L2 as ->.
  - rewrite <- E2. now apply N.compare_lt_iff in L1 as ->.
  - assert (L : (N_of_ascii x < N_of_ascii z)%N) by (eapply N.lt_trans; eassumption). now apply N.compare_lt_iff in L as ->.
Qed.

Definition key_ltb (a b : key) : bool := key_leb a b && negb (key_eqb a b).

(** group labels: integers in their order, the null label last *)
Definition olt (a b : option Z) : Prop :=
  match a, b with Some x, Some y => (x < y)%Z | Some _, None => True | _, _ => False end.
Definition ole (a b : option Z) : Prop := a = b \/ olt a b.
Lemma olt_trans a b c : olt a b -> olt b c -> olt a c.
Proof. destruct a, b, c; cbn; try tauto. lia. Qed.
Lemma ogrp_eqb_eq (a b : option Z) : opt_eqb Z.eqb a b = true <-> a = b.
Proof.
  destruct a as [x|], b as [y|]; cbn; try (split; [discriminate | intros E; discriminate]); [|tauto].
  rewrite Z.eqb_eq. split; [now intros -> | intros E; now inversion E].
Qed.
Lemma ogrp_lt_spec (a b : option Z) : ogrp_leb a b && negb (opt_eqb Z.eqb a b) = true <-> olt a b.
Proof.
  destruct a as [x|], b as [y|]; cbn; try (split; [discriminate | tauto]); [|tauto].
  rewrite andb_true_iff, negb_true_iff, Z.leb_le, Z.eqb_neq. lia.
Qed.
Lemma ogrp_not_le (a b : option Z) : ogrp_leb a b = false -> olt b a.
Proof. destruct a as [x|], b as [y|]; cbn; try discriminate; try tauto. intros H. apply Z.leb_gt in H. lia. Qed.

Lemma key_eqb_eq (a b : key) : key_eqb a b = true <-> a = b.
Proof.
  destruct a as [s z], b as [s' z']. unfold key_eqb; cbn. rewrite andb_true_iff, String.eqb_eq, ogrp_eqb_eq.
  split; [intros [-> ->]; reflexivity | intros E; inversion E; auto].
Qed.
Lemma key_eqb_refl (a : key) : key_eqb a a = true. Proof. now apply key_eqb_eq. Qed.

Lemma str_leb_lt (a b : str) : String.leb a b = true -> a <> b -> String.compare a b = Lt.
Proof.
  unfold String.leb. destruct (String.compare a b) eqn:E; intros H N; try reflexivity; try discriminate.
  apply String.compare_eq_iff in E. contradiction.
Qed.

Lemma key_ltb_spec (a b : key) : key_ltb a b = true <->
  (String.compare (fst a) (fst b) = Lt \/ (fst a = fst b /\ olt (snd a) (snd b))).
Proof.
  destruct a as [s z], b as [s' z']. unfold key_ltb, key_leb, key_eqb; cbn.
  destruct (String.eqb_spec s s') as [->|N].
  - rewrite str_compare_refl. cbn. rewrite ogrp_lt_spec. split.
    + intros H. right. split; [reflexivity | exact H].
    + intros [H|[_ H]]; [discriminate | exact H].
  - cbn. rewrite andb_true_r. split.
    + intros H. left. now apply str_leb_lt.
    + intros [H|[H _]]; [|contradiction]. unfold String.leb. now rewrite H.
Qed.

Lemma key_ltb_irrefl (a : key) : key_ltb a a = false.
Proof. unfold key_ltb. now rewrite key_eqb_refl, andb_false_r. Qed.

Lemma key_ltb_trans (a b c : key) : key_ltb a b = true -> key_ltb b c = true -> key_ltb a c = true.
Proof.
  rewrite !key_ltb_spec. intros [H1|[E1 L1]] [H2|[E2 L2]].
  - left. eapply str_compare_lt_trans; eassumption.
  - left. now rewrite <- E2.
  - left. now rewrite E1.
  - right. split; [congruence | eapply olt_trans; eassumption].
Qed.

Lemma key_ltb_asym (a b : key) : key_ltb a b = true -> key_ltb b a = true -> False.
Proof. intros H1 H2. pose proof (key_ltb_trans _ _ _ H1 H2) as H. now rewrite key_ltb_irrefl in H. Qed.

(** trichotomy in the form used by [ins] *)
Lemma key_not_le_gt (a b : key) : key_eqb a b = false -> key_leb a b = false -> key_ltb b a = true.
Proof.
  intros NE NL. apply key_ltb_spec. destruct a as [s z], b as [s' z']. unfold key_leb, key_eqb in *; cbn in *.
  destruct (String.eqb_spec s s') as [->|N]; cbn in *.
  - right. split; [reflexivity|]. now apply ogrp_not_le.
  - left. unfold String.leb in NL. rewrite String.compare_antisym. destruct (String.compare s s'); cbn; try discriminate. reflexivity.
Qed.
Lemma key_le_ne_lt (a b : key) : key_eqb a b = false -> key_leb a b = true -> key_ltb a b = true.
Proof. intros NE L. unfold key_ltb. now rewrite L, NE. Qed.

Definition klt (a b : key) : Prop := key_ltb a b = true.

(** * 2. sorted distinct keys *)
Lemma ins_In (k x : key) (l : list key) : In x (ins k l) <-> x = k \/ In x l.
Proof.
  induction l as [|h t IH]; cbn; [intuition|].
  destruct (key_eqb k h) eqn:E.
  - apply key_eqb_eq in E. subst. cbn. intuition.
  - destruct (key_leb k h); cbn; [intuition|]. rewrite IH. intuition.
Qed.

Lemma ins_sorted (k : key) (l : list key) : StronglySorted klt l -> StronglySorted klt (ins k l).
Proof.
  induction 1 as [|h t Ht IH Hh]; cbn; [repeat constructor|].
  destruct (key_eqb k h) eqn:E; [now constructor|].
  destruct (key_leb k h) eqn:L.
  - pose proof (key_le_ne_lt _ _ E L) as LT. constructor; [now constructor|].
    constructor; [exact LT|]. rewrite Forall_forall in *. intros x Hx. eapply key_ltb_trans; [exact LT | now apply Hh].
  - pose proof (key_not_le_gt _ _ E L) as GT. constructor; [exact IH|].
    rewrite Forall_forall in *. intros x Hx. apply ins_In in Hx as [->|Hx]; [exact GT | now apply Hh].
Qed.

Lemma keys_of_In (ug : bool) (rows : list trow) (k : key) :
  In k (keys_of ug rows) <-> exists r, In r rows /\ key_of ug r = k.
Proof.
  induction rows as [|r rows IH]; cbn; [split; [tauto | intros (r & [] & _)]|].
  rewrite ins_In, IH. split.
  - intros [->|(r' & Hr' & Hk)]; [exists r; auto | exists r'; auto].
  - intros (r' & [<-|Hr'] & Hk); [left; congruence | right; exists r'; auto].
Qed.

Lemma keys_of_sorted (ug : bool) (rows : list trow) : StronglySorted klt (keys_of ug rows).
Proof. induction rows as [|r rows IH]; cbn; [constructor | now apply ins_sorted]. Qed.

Lemma sorted_NoDup (l : list key) : StronglySorted klt l -> NoDup l.
Proof.
  induction 1 as [|h t Ht IH Hh]; constructor; [|exact IH].
  intro Hin. rewrite Forall_forall in Hh. specialize (Hh _ Hin). unfold klt in Hh. now rewrite key_ltb_irrefl in Hh.
Qed.

(** a strictly sorted list is determined by its set of elements *)
Lemma sorted_unique : forall l1 l2 : list key, StronglySorted klt l1 -> StronglySorted klt l2 ->
  (forall x, In x l1 <-> In x l2) -> l1 = l2.
Proof.
  induction l1 as [|h1 t1 IH]; intros [|h2 t2] S1 S2 HI.
  - reflexivity.
  - exfalso. apply (proj2 (HI h2)). now left.
  - exfalso. apply (proj1 (HI h1)). now left.
  - inversion S1 as [|? ? S1' F1]; inversion S2 as [|? ? S2' F2]; subst. rewrite Forall_forall in F1, F2.
    assert (E : h1 = h2).
    { destruct (proj1 (HI h1) (or_introl eq_refl)) as [E|I1]; [now symmetry|].
      destruct (proj2 (HI h2) (or_introl eq_refl)) as [E|I2]; [exact E|].
      exfalso. apply (key_ltb_asym h1 h2); [now apply F1 | now apply F2]. }
    subst h2. f_equal. apply IH; [assumption|assumption|].
    intros x. split; intros Hx.
    + destruct (proj1 (HI x) (or_intror Hx)) as [E|I]; [|exact I]. subst x. specialize (F1 _ Hx). unfold klt in F1. now rewrite key_ltb_irrefl in F1.
    + destruct (proj2 (HI x) (or_intror Hx)) as [E|I]; [|exact I]. subst x. specialize (F2 _ Hx). unfold klt in F2. now rewrite key_ltb_irrefl in F2.
Qed.

Lemma keys_of_perm (ug : bool) (rows rows' : list trow) : Permutation rows rows' -> keys_of ug rows = keys_of ug rows'.
Proof.
  intros P. apply sorted_unique; try apply keys_of_sorted.
  intros k. rewrite !keys_of_In. split; intros (r & Hr & Hk); exists r; split; auto.
  - eapply Permutation_in; eassumption.
  - eapply Permutation_in; [apply Permutation_sym|]; eassumption.
Qed.

(** * 3. group means *)
Lemma filter_perm {A} (f : A -> bool) (l l' : list A) : Permutation l l' -> Permutation (filter f l) (filter f l').
Proof.
  induction 1 as [|x l l' P IH|x y l|l l' l'' P1 IH1 P2 IH2]; cbn.
  - constructor.
  - destruct (f x); [now constructor | exact IH].
  - destruct (f x), (f y); try apply Permutation_refl. apply perm_swap.
  - eapply Permutation_trans; eassumption.
Qed.

Lemma sumQ_perm (l l' : list Q) : Permutation l l' -> sumQ l == sumQ l'.
Proof.
  induction 1 as [|x l l' P IH|x y l|l l' l'' P1 IH1 P2 IH2]; cbn [sumQ fold_right].
  - reflexivity.
  - fold (sumQ l) (sumQ l'). now rewrite IH.
  - fold (sumQ l). ring.
  - now rewrite IH1.
Qed.

Definition qlist_eq (a b : list Q) : Prop := Forall2 Qeq a b.
Lemma qlist_eq_refl a : qlist_eq a a.
Proof. induction a; constructor; [reflexivity | assumption]. Qed.
Lemma qlist_eq_sym a b : qlist_eq a b -> qlist_eq b a.
Proof. induction 1; constructor; [now symmetry | assumption]. Qed.
Lemma qlist_eq_trans a b c : qlist_eq a b -> qlist_eq b c -> qlist_eq a c.
Proof. intros H. revert c. induction H as [|x y l l' Hxy H IH]; intros c H2; inversion H2; subst; constructor; [etransitivity; eassumption | now apply IH]. Qed.

Lemma mean_rows_perm (sel : list nat) (rs rs' : list trow) : Permutation rs rs' -> qlist_eq (mean_rows sel rs) (mean_rows sel rs').
Proof.
  intros P. unfold mean_rows, qlist_eq. induction sel as [|j sel IH]; cbn [map]; constructor; [|exact IH].
  rewrite (Permutation_length P). apply Qmult_comp; [|reflexivity].
  apply sumQ_perm. now apply Permutation_map.
Qed.

Lemma members_perm (ug : bool) (k : key) (rows rows' : list trow) : Permutation rows rows' -> Permutation (members ug k rows) (members ug k rows').
Proof. apply filter_perm. Qed.

Lemma members_In (ug : bool) (k : key) (rows : list trow) (r : trow) : In r (members ug k rows) <-> In r rows /\ key_of ug r = k.
Proof.
  unfold members. rewrite filter_In. unfold has_key. rewrite key_eqb_eq. split; intros [H1 H2]; split; auto.
Qed.

(** equivalence of aggregated tables: same keys, Q-equal means *)
Definition agg_eq (a b : list (key * list Q)) : Prop := Forall2 (fun x y => fst x = fst y /\ qlist_eq (snd x) (snd y)) a b.

Lemma agg_perm (ug : bool) (sel : list nat) (rows rows' : list trow) : Permutation rows rows' -> agg_eq (agg ug sel rows) (agg ug sel rows').
Proof.
  intros P. unfold agg, agg_eq. rewrite <- (keys_of_perm ug rows rows' P).
  induction (keys_of ug rows) as [|k ks IH]; cbn [map]; constructor; [|exact IH].
  cbn. split; [reflexivity|]. apply mean_rows_perm. now apply members_perm.
Qed.

(** every aggregated row is the arithmetic mean of exactly the records carrying its key *)
Lemma agg_spec (ug : bool) (sel : list nat) (rows : list trow) (k : key) (m : list Q) :
  In (k, m) (agg ug sel rows) ->
  let M := members ug k rows in
  M <> [] /\ (forall r, In r M <-> In r rows /\ key_of ug r = k) /\
  m = map (fun j => sumQ (map (fun r => nth j (t_val r) 0) M) / inject_Z (Z.of_nat (length M))) sel.
Proof.
  intros H M. unfold agg in H. apply in_map_iff in H as (k' & E & Hk). inversion E; subst k' m. clear E.
  split; [|split; [intro r; apply members_In | reflexivity]].
  apply keys_of_In in Hk as (r & Hr & Hkr). intro E. assert (I : In r M) by (apply members_In; auto). rewrite E in I. exact I.
Qed.

Lemma agg_keys (ug : bool) (sel : list nat) (rows : list trow) : map fst (agg ug sel rows) = keys_of ug rows.
Proof. unfold agg. rewrite map_map. cbn. apply map_id. Qed.

(** * 4. the join onto the genotype order *)
Definition orow_eq (a b : option (list Q)) : Prop :=
  match a, b with Some x, Some y => qlist_eq x y | None, None => True | _, _ => False end.

Lemma lookup_last_agg_eq (x : str) (a b : list (key * list Q)) : agg_eq a b -> orow_eq (lookup_last x a) (lookup_last x b).
Proof.
  induction 1 as [|[k v] [k' v'] a b [Ek Ev] H IH]; cbn; [exact I|]. cbn in Ek, Ev. subst k'.
  destruct (lookup_last x a), (lookup_last x b); cbn in IH; try contradiction; [exact IH|].
  destruct (String.eqb x (fst k)); cbn; [exact Ev | exact I].
Qed.

Lemma join_agg_eq (gtx : list str) (a b : list (key * list Q)) : agg_eq a b -> Forall2 orow_eq (join gtx a) (join gtx b).
Proof. intros H. unfold join. induction gtx; cbn; constructor; [now apply lookup_last_agg_eq | assumption]. Qed.

Lemma lookup_last_none (x : str) (a : list (key * list Q)) : (forall kv, In kv a -> fst (fst kv) <> x) -> lookup_last x a = None.
Proof.
  induction a as [|[k v] a IH]; intros H; cbn; [reflexivity|].
  rewrite IH by (intros kv Hkv; apply H; now right).
  destruct (String.eqb_spec x (fst k)) as [E|N]; [|reflexivity]. exfalso. apply (H (k, v)); [now left | now symmetry].
Qed.

Lemma key_eq_dec (a b : key) : {a = b} + {a <> b}.
Proof.
  destruct (key_eqb a b) eqn:E; [left; now apply key_eqb_eq | right].
  intro H. apply key_eqb_eq in H. congruence.
Qed.

Lemma lookup_last_unique (x : str) (f : key -> list Q) (ks : list key) (kx : key) :
  In kx ks -> fst kx = x -> (forall k, In k ks -> fst k = x -> k = kx) ->
  lookup_last x (map (fun k => (k, f k)) ks) = Some (f kx).
Proof.
  induction ks as [|k ks IH]; intros Hin Hx Hu; [destruct Hin|]. cbn.
  destruct (in_dec key_eq_dec kx ks) as [I|NI].
  - rewrite IH; auto. intros k' Hk'. apply Hu. now right.
  - destruct Hin as [->|Hin]; [|contradiction].
    rewrite lookup_last_none.
    + subst x. now rewrite String.eqb_refl.
    + intros [k' v'] Hkv. cbn. apply in_map_iff in Hkv as (k'' & E & Hk''). inversion E; subst k'' v'. clear E.
      intro Ek. apply NI. rewrite <- (Hu k'); auto. now right.
Qed.

Lemma key_of_fst (ug : bool) (r : trow) : fst (key_of ug r) = t_taxa r.
Proof. unfold key_of. now destruct ug. Qed.

(** every taxon's records carry one group label (always true without a group column; a null label counts as a label) *)
Definition single_key (ug : bool) (rows : list trow) : Prop :=
  forall r1 r2, In r1 rows -> In r2 rows -> t_taxa r1 = t_taxa r2 -> key_of ug r1 = key_of ug r2.

Lemma single_key_nogrp (rows : list trow) : single_key false rows.
Proof. intros r1 r2 _ _ E. unfold key_of. now rewrite E. Qed.

Definition of_taxon (x : str) (r : trow) : bool := String.eqb (t_taxa r) x.

Lemma lookup_aligned (ug : bool) (sel : list nat) (rows : list trow) (x : str) :
  single_key ug rows -> (exists r, In r rows /\ t_taxa r = x) ->
  lookup_last x (agg ug sel rows) = Some (mean_rows sel (filter (of_taxon x) rows)).
Proof.
  intros SK (r & Hr & Hx). set (kx := key_of ug r).
  assert (Fk : fst kx = x) by (unfold kx; now rewrite key_of_fst).
  unfold agg. rewrite (lookup_last_unique x (fun k => mean_rows sel (members ug k rows)) (keys_of ug rows) kx).
  - f_equal. f_equal. unfold members. apply filter_ext_in. intros r' Hr'. unfold has_key, of_taxon.
    destruct (String.eqb_spec (t_taxa r') x) as [E|N].
    + rewrite (SK r' r Hr' Hr) by congruence. apply key_eqb_refl.
    + destruct (key_eqb kx (key_of ug r')) eqn:E; [|reflexivity]. apply key_eqb_eq in E.
      exfalso. apply N. rewrite <- (key_of_fst ug r'), <- E. exact Fk.
  - apply keys_of_In. exists r. auto.
  - exact Fk.
  - intros k Hk Fx. apply keys_of_In in Hk as (r' & Hr' & <-). apply (SK r' r Hr' Hr). rewrite key_of_fst in Fx. congruence.
Qed.

Lemma lookup_absent (ug : bool) (sel : list nat) (rows : list trow) (x : str) :
  (forall r, In r rows -> t_taxa r <> x) -> lookup_last x (agg ug sel rows) = None.
Proof.
  intros H. apply lookup_last_none. intros [k v] Hkv. cbn.
  assert (Hk : In k (keys_of ug rows)) by (rewrite <- agg_keys with (sel := sel); apply in_map_iff; exists (k, v); auto).
  apply keys_of_In in Hk as (r & Hr & <-). rewrite key_of_fst. now apply H.
Qed.

(** a phenotyped taxon is never reported missing, whatever the group labels (null or not) *)
Lemma lookup_present (ug : bool) (sel : list nat) (rows : list trow) (x : str) :
  (exists r, In r rows /\ t_taxa r = x) -> exists v, lookup_last x (agg ug sel rows) = Some v.
Proof.
  intros (r & Hr & Hx). unfold agg.
  assert (Hk : In (key_of ug r) (keys_of ug rows)) by (apply keys_of_In; eauto).
  assert (Fk : fst (key_of ug r) = x) by now rewrite key_of_fst.
  revert Hk Fk. generalize (key_of ug r). induction (keys_of ug rows) as [|k ks IH]; intros kx Hk Fk; [destruct Hk|]. cbn.
  destruct Hk as [->|Hk].
  - destruct (lookup_last x _); [eauto|]. rewrite <- Fk, String.eqb_refl. eauto.
  - destruct (IH kx Hk Fk) as (v & ->). eauto.
Qed.

(** * 5. estimate *)
Definition est_eq (a b : option est_out) : Prop :=
  match a, b with
  | None, None => True
  | Some (tx, tg, tr, m), Some (tx', tg', tr', m') => tx = tx' /\ tg = tg' /\ tr = tr' /\ Forall2 orow_eq m m'
  | _, _ => False
  end.

Lemma agg_eq_keys (a b : list (key * list Q)) : agg_eq a b -> map fst a = map fst b.
Proof. induction 1 as [|x y a b [E _] _ IH]; cbn; [reflexivity|]. now rewrite E, IH. Qed.

Lemma agg_eq_proj {B} (f : key -> B) (a b : list (key * list Q)) : agg_eq a b ->
  map (fun kv => f (fst kv)) a = map (fun kv => f (fst kv)) b.
Proof. induction 1 as [|x y a b [E _] _ IH]; cbn; [reflexivity|]. now rewrite E, IH. Qed.

Lemma agg_eq_rows (a b : list (key * list Q)) : agg_eq a b ->
  Forall2 orow_eq (map (fun kv => Some (snd kv)) a) (map (fun kv => Some (snd kv)) b).
Proof. induction 1 as [|x y a b [_ E] _ IH]; cbn; constructor; [exact E | exact IH]. Qed.

Lemma estimate_gen_perm (b ug hg : bool) (tcols names : list str) (rows rows' : list trow) (gt : gtarg) :
  Permutation rows rows' -> est_eq (estimate_gen b ug hg tcols names rows gt) (estimate_gen b ug hg tcols names rows' gt).
Proof.
  intros P. unfold estimate_gen. destruct (resolve tcols names) as [sel|]; [|exact I].
  destruct (ug && negb hg); [exact I|].
  destruct gt as [[[gtx|] gtg]|]; cbn.
  - repeat split; try reflexivity. apply join_agg_eq. now apply agg_perm.
  - exact I.
  - pose proof (agg_perm ug sel rows rows' P) as AE.
    split; [exact (agg_eq_proj fst _ _ AE)|]. split; [|split; [reflexivity | now apply agg_eq_rows]].
    destruct ug; [|reflexivity]. f_equal. exact (agg_eq_proj (fun k => grp_code (snd k)) _ _ AE).
Qed.

Lemma estimate_perm (ug hg : bool) (tcols names : list str) (rows rows' : list trow) (gt : gtarg) :
  Permutation rows rows' -> est_eq (estimate ug hg tcols names rows gt) (estimate ug hg tcols names rows' gt).
Proof. apply estimate_gen_perm. Qed.

Lemma estimate_aligned (ug hg : bool) (tcols names : list str) (rows : list trow) (gtx : list str) (gtg : option (list Z)) (o : est_out) :
  estimate ug hg tcols names rows (Some (Some gtx, gtg)) = Some o ->
  exists sel, resolve tcols names = Some sel /\
  let '(tx, tg, tr, m) := o in
  tx = gtx /\ tg = gtg /\ tr = tcols /\ length m = length gtx /\
  forall i x, nth_error gtx i = Some x ->
    ((exists r, In r rows /\ t_taxa r = x) ->
       nth_error m i = Some (Some (mean_rows sel (filter (of_taxon x) rows)))) /\
    ((forall r, In r rows -> t_taxa r <> x) -> nth_error m i = Some None).
Proof.
  unfold estimate, estimate_gen. destruct (resolve tcols names) as [sel|]; [|discriminate].
  destruct (ug && negb hg); [discriminate|]. rewrite andb_false_r. intros E. inversion E; subst o. clear E.
  exists sel. split; [reflexivity|]. repeat split; try reflexivity.
  - unfold join. apply map_length.
  - intros EX. unfold join. rewrite nth_error_map, H. cbn. f_equal. apply lookup_aligned; [apply single_key_nogrp | exact EX].
  - intros AB. unfold join. rewrite nth_error_map, H. cbn. f_equal. now apply lookup_absent.
Qed.

(** without a genotype matrix: one row per distinct key, sorted, each the arithmetic mean of its members *)
Lemma estimate_groups (ug hg : bool) (tcols names : list str) (rows : list trow) (o : est_out) :
  estimate ug hg tcols names rows None = Some o ->
  exists sel, resolve tcols names = Some sel /\
  let '(tx, tg, tr, m) := o in
  tx = map fst (keys_of ug rows) /\ tg = (if ug then Some (map (fun k => grp_code (snd k)) (keys_of ug rows)) else None) /\ tr = tcols /\
  StronglySorted klt (keys_of ug rows) /\ NoDup (keys_of ug rows) /\
  (forall k, In k (keys_of ug rows) <-> exists r, In r rows /\ key_of ug r = k) /\
  m = map (fun k => Some (mean_rows sel (members ug k rows))) (keys_of ug rows).
Proof.
  unfold estimate, estimate_gen. destruct (resolve tcols names) as [sel|]; [|discriminate].
  destruct (ug && negb hg); [discriminate|]. intros E. inversion E; subst o. clear E.
  exists sel. split; [reflexivity|]. unfold agg. rewrite !map_map. cbn.
  repeat split; try reflexivity.
  - apply keys_of_sorted.
  - apply sorted_NoDup, keys_of_sorted.
  - apply keys_of_In.
  - apply keys_of_In.
Qed.

(** the join really ignores the group: a taxon recorded in two groups gets the mean of its last group *)
Lemma join_ignores_group_witness :
  let rows : list trow := [("a"%string, Some 1%Z, [2]); ("a"%string, Some 2%Z, [4]); ("a"%string, Some 2%Z, [16])] in
  exists v, lookup_last "a"%string (agg true [0%nat] rows) = Some [v] /\ v == 10 /\
            ~ v == nth 0 (mean_rows [0%nat] (filter (of_taxon "a"%string) rows)) 0 /\ ~ single_key true rows.
Proof.
  cbv zeta. eexists. split; [vm_compute; reflexivity|]. split; [reflexivity|]. split.
  - vm_compute. discriminate.
  - intro SK. assert (E : key_of true ("a"%string, Some 1%Z, [2]) = key_of true ("a"%string, Some 2%Z, [4])) by (apply SK; cbn; auto).
    discriminate.
Qed.

(** an ungrouped population (all group labels null) is aggregated like any other group: the old behaviour lost it *)
Lemma null_group_witness :
  let rows : list trow := [("a"%string, None, [2]); ("a"%string, None, [4])] in
  single_key true rows /\ (exists v, lookup_last "a"%string (agg true [0%nat] rows) = Some [v] /\ v == 3) /\
  lookup_last "a"%string (agg true [0%nat] (drop_null_groups true rows)) = None.
Proof.
  cbv zeta. split; [|split; [eexists; split; [vm_compute; reflexivity | reflexivity] | reflexivity]].
  intros r1 r2 H1 H2 _. cbn in H1, H2. destruct H1 as [<-|[<-|[]]], H2 as [<-|[<-|[]]]; reflexivity.
Qed.

(** * 6. heritability calibration *)
Lemma h2_calibration (v h : Q) : 0 < v -> 0 < h -> h <= 1 -> heritability v (h2_err h v) == h.
Proof.
  intros Hv Hh H1. unfold heritability, h2_err. field. split.
  - intro E. assert (E' : v == 0) by (ring_simplify in E; lra). lra.
  - lra.
Qed.

Lemma h2_err_nonneg (v h : Q) : 0 <= v -> 0 < h -> h <= 1 -> 0 <= h2_err h v.
Proof.
  intros Hv Hh H1. unfold h2_err. apply Qmult_le_0_compat; [|exact Hv].
  unfold Qdiv. apply Qmult_le_0_compat; [lra|]. apply Qlt_le_weak, Qinv_lt_0_compat, Hh.
Qed.

Lemma nth_error_map2 {A B C} (f : A -> B -> C) : forall (l1 : list A) (l2 : list B) (i : nat) (a : A) (b : B),
  nth_error l1 i = Some a -> nth_error l2 i = Some b -> nth_error (map2 f l1 l2) i = Some (f a b).
Proof.
  induction l1 as [|x l1 IH]; intros [|y l2] [|i] a b H1 H2; cbn in *; try discriminate.
  - now inversion H1; inversion H2.
  - now apply IH.
Qed.

Lemma set_h2_calibrated (t : nat) (h : h2arg) (gebv : list (list Q)) (ve : list Q) :
  set_h2 t h gebv = Some ve ->
  forall j hj vj, nth_error (h2_vec t h) j = Some hj -> nth_error (var_cols t gebv) j = Some vj ->
    exists e, nth_error ve j = Some e /\ 0 <= e /\ (0 < vj -> 0 < hj -> hj <= 1 -> heritability vj e == hj).
Proof.
  unfold set_h2. destruct (forallb _ _) eqn:F; [|discriminate]. intros E; inversion E; subst ve; clear E.
  intros j hj vj Hh Hv. exists (h2_err hj vj). split; [now apply nth_error_map2|]. split.
  - rewrite forallb_forall in F. apply Qle_bool_iff, F. eapply nth_error_In. apply (nth_error_map2 h2_err); eassumption.
  - apply h2_calibration.
Qed.

(** population variance is non-negative, so valid targets are always accepted *)
Lemma sumQ_nonneg (l : list Q) : Forall (fun x => 0 <= x) l -> 0 <= sumQ l.
Proof. induction 1 as [|x l Hx _ IH]; cbn; [lra|]. fold (sumQ l). lra. Qed.

Lemma var_pop_nonneg (c : list Q) : 0 <= var_pop c.
Proof.
  unfold var_pop. unfold Qdiv. apply Qmult_le_0_compat.
  - apply sumQ_nonneg. rewrite Forall_forall. intros x Hx. apply in_map_iff in Hx as (y & <- & _).
    set (d := y - _). destruct (Qlt_le_dec d 0); [setoid_replace (d * d) with ((-d) * (-d)) by ring; apply Qmult_le_0_compat; lra | apply Qmult_le_0_compat; assumption].
  - destruct c as [|x c]; [cbn; lra|]. apply Qlt_le_weak, Qinv_lt_0_compat. unfold Qlt; cbn. lia.
Qed.

Lemma set_h2_accepts (t : nat) (h : h2arg) (gebv : list (list Q)) :
  Forall (fun x => 0 < x /\ x <= 1) (h2_vec t h) -> exists ve, set_h2 t h gebv = Some ve.
Proof.
  intros H. unfold set_h2. destruct (forallb _ _) eqn:F; [eexists; reflexivity|]. exfalso.
  assert (G : forallb (Qle_bool 0) (map2 h2_err (h2_vec t h) (var_cols t gebv)) = true); [|congruence].
  clear F. unfold var_cols. generalize (cols 0 t gebv). induction H as [|x l [H0 H1] _ IH]; intros [|c cs]; cbn; try reflexivity.
  rewrite IH, andb_true_r. apply Qle_bool_iff, h2_err_nonneg; [apply var_pop_nonneg | assumption | assumption].
Qed.

(** * 7. the simulated trial *)
Definition cell_is (e r : Z) (rec : prow) : bool := Z.eqb (p_env rec) e && Z.eqb (p_rep rec) r.

Lemma filter_all {A} (f : A -> bool) (l : list A) : Forall (fun x => f x = true) l -> filter f l = l.
Proof. induction 1 as [|x l Hx _ IH]; cbn; [reflexivity|]. now rewrite Hx, IH. Qed.
Lemma filter_none {A} (f : A -> bool) (l : list A) : Forall (fun x => f x = false) l -> filter f l = [].
Proof. induction 1 as [|x l Hx _ IH]; cbn; [reflexivity|]. now rewrite Hx. Qed.

Lemma block_aux_cell : forall tx tg tv err e r env rep,
  Forall (fun rec => p_env rec = e /\ p_rep rec = r) (block_aux tx tg tv e r env rep err).
Proof. induction tx as [|x tx IH]; intros [|g tg] [|v tv] [|er err] e r env rep; cbn; constructor; [split; reflexivity | apply IH]. Qed.

Lemma block_aux_length : forall tx tg tv err e r env rep, length tg = length tx -> length tv = length tx -> length err = length tx ->
  length (block_aux tx tg tv e r env rep err) = length tx.
Proof. induction tx as [|x tx IH]; intros [|g tg] [|v tv] [|er err] e r env rep H1 H2 H3; cbn in *; try discriminate; [reflexivity|]. f_equal. apply IH; lia. Qed.

Lemma block_aux_nth : forall tx tg tv err e r env rep i x g v er,
  nth_error tx i = Some x -> nth_error tg i = Some g -> nth_error tv i = Some v -> nth_error err i = Some er ->
  nth_error (block_aux tx tg tv e r env rep err) i = Some (x, g, e, r, add_effects v env rep er).
Proof.
  induction tx as [|x0 tx IH]; intros [|g0 tg] [|v0 tv] [|er0 err] e r env rep [|i] x g v er H1 H2 H3 H4; cbn in *; try discriminate.
  - inversion H1; inversion H2; inversion H3; inversion H4; reflexivity.
  - now apply IH.
Qed.

Lemma block_aux_In : forall tx tg tv err e r env rep rec, In rec (block_aux tx tg tv e r env rep err) ->
  exists i x g v er, nth_error tx i = Some x /\ nth_error tg i = Some g /\ nth_error tv i = Some v /\ nth_error err i = Some er /\
                     rec = (x, g, e, r, add_effects v env rep er).
Proof.
  induction tx as [|x0 tx IH]; intros [|g0 tg] [|v0 tv] [|er0 err] e r env rep rec H; cbn in H; try contradiction.
  destruct H as [<-|H].
  - exists 0%nat, x0, g0, v0, er0. repeat split; reflexivity.
  - apply IH in H as (i & x & g & v & er & H1 & H2 & H3 & H4 & E). exists (S i), x, g, v, er. repeat split; assumption.
Qed.

Section Trial.
  Variable taxa : list str.
  Variable grp : list (option Z).
  Variable gvm : list (list Q).
  Variables sde sdr sdx : list Q.
  Notation blockM := (block taxa grp gvm).
  Notation repsM := (rep_blocks taxa grp gvm sdr sdx).
  Notation envsM := (env_blocks taxa grp gvm sde sdr sdx).

  Lemma block_filter_same e r env rep err : filter (cell_is e r) (blockM e r env rep err) = blockM e r env rep err.
  Proof.
    apply filter_all. eapply Forall_impl; [|apply block_aux_cell]. intros rec [H1 H2]. unfold cell_is. now rewrite H1, H2, !Z.eqb_refl.
  Qed.
  Lemma block_filter_other e r e' r' env rep err : (e' <> e \/ r' <> r) -> filter (cell_is e r) (blockM e' r' env rep err) = [].
  Proof.
    intros H. apply filter_none. eapply Forall_impl; [|apply block_aux_cell]. intros rec [H1 H2]. unfold cell_is. rewrite H1, H2.
    destruct (Z.eqb_spec e' e), (Z.eqb_spec r' r); cbn; try reflexivity. lia.
  Qed.

  Lemma reps_filter_miss : forall rs r0 e e' r env, (e' <> e \/ r < r0 \/ r >= r0 + Z.of_nat (length rs))%Z ->
    filter (cell_is e r) (repsM e' r0 env rs) = [].
  Proof.
    induction rs as [|[zr ze] rs IH]; intros r0 e e' r env H; cbn [rep_blocks]; [reflexivity|].
    rewrite filter_app, block_filter_other, IH; [reflexivity| |]; cbn [length] in H; lia.
  Qed.

  Lemma reps_filter_hit : forall rs r0 k zr ze e env, nth_error rs k = Some (zr, ze) ->
    filter (cell_is e (r0 + Z.of_nat k)) (repsM e r0 env rs) = blockM e (r0 + Z.of_nat k)%Z env (scale sdr zr) (map (scale sdx) ze).
  Proof.
    induction rs as [|[zr0 ze0] rs IH]; intros r0 [|k] zr ze e env H; cbn in H; try discriminate; cbn [rep_blocks]; rewrite filter_app.
    - inversion H; subst. replace (r0 + Z.of_nat 0)%Z with r0 by lia.
      rewrite block_filter_same, reps_filter_miss by lia. apply app_nil_r.
    - rewrite block_filter_other by lia. cbn [app].
      replace (r0 + Z.of_nat (S k))%Z with (r0 + 1 + Z.of_nat k)%Z by lia. now apply IH.
  Qed.

  Lemma envs_filter_miss : forall ds e0 e r, (e < e0 \/ e >= e0 + Z.of_nat (length ds))%Z -> filter (cell_is e r) (envsM e0 ds) = [].
  Proof.
    induction ds as [|[zenv rs] ds IH]; intros e0 e r H; cbn [env_blocks]; [reflexivity|].
    cbn [length] in H. rewrite filter_app, reps_filter_miss, IH; [reflexivity|lia|lia].
  Qed.

  (** the records of cell (env, rep) are exactly one block: one record per taxon, in taxon order *)
  Lemma envs_filter_hit : forall ds e0 ei zenv rs ri zr ze, nth_error ds ei = Some (zenv, rs) -> nth_error rs ri = Some (zr, ze) ->
    filter (cell_is (e0 + Z.of_nat ei) (1 + Z.of_nat ri)) (envsM e0 ds)
    = blockM (e0 + Z.of_nat ei)%Z (1 + Z.of_nat ri)%Z (scale sde zenv) (scale sdr zr) (map (scale sdx) ze).
  Proof.
    induction ds as [|[zenv0 rs0] ds IH]; intros e0 [|ei] zenv rs ri zr ze H1 H2; cbn in H1; try discriminate; cbn [env_blocks]; rewrite filter_app.
    - inversion H1; subst. replace (e0 + Z.of_nat 0)%Z with e0 by lia.
      rewrite (reps_filter_hit rs 1%Z ri zr ze) by exact H2. rewrite envs_filter_miss by lia. apply app_nil_r.
    - rewrite reps_filter_miss by lia. cbn [app].
      replace (e0 + Z.of_nat (S ei))%Z with (e0 + 1 + Z.of_nat ei)%Z by lia. now apply (IH (e0 + 1)%Z ei zenv rs).
  Qed.

  (** a cell of an existing environment but with a replicate number outside 1..nrep has no record *)
  Lemma envs_filter_norep : forall ds e0 ei zenv rs r, nth_error ds ei = Some (zenv, rs) -> (r < 1 \/ r > Z.of_nat (length rs))%Z ->
    filter (cell_is (e0 + Z.of_nat ei) r) (envsM e0 ds) = [].
  Proof.
    induction ds as [|[zenv0 rs0] ds IH]; intros e0 [|ei] zenv rs r H1 H2; cbn in H1; try discriminate; cbn [env_blocks]; rewrite filter_app.
    - inversion H1; subst. rewrite reps_filter_miss by lia. rewrite envs_filter_miss by lia. reflexivity.
    - rewrite reps_filter_miss by lia. cbn [app].
      replace (e0 + Z.of_nat (S ei))%Z with (e0 + 1 + Z.of_nat ei)%Z by lia. now apply (IH (e0 + 1)%Z ei zenv rs).
  Qed.

  Lemma reps_In : forall rs r0 e env rec, In rec (repsM e r0 env rs) ->
    exists ri zr ze, nth_error rs ri = Some (zr, ze) /\ In rec (blockM e (r0 + Z.of_nat ri)%Z env (scale sdr zr) (map (scale sdx) ze)).
  Proof.
    induction rs as [|[zr0 ze0] rs IH]; intros r0 e env rec H; cbn [rep_blocks] in H; [destruct H|].
    apply in_app_or in H as [H|H].
    - exists 0%nat, zr0, ze0. split; [reflexivity|]. now replace (r0 + Z.of_nat 0)%Z with r0 by lia.
    - apply IH in H as (ri & zr & ze & H1 & H2). exists (S ri), zr, ze. split; [exact H1|].
      now replace (r0 + Z.of_nat (S ri))%Z with (r0 + 1 + Z.of_nat ri)%Z by lia.
  Qed.

  Lemma envs_In : forall ds e0 rec, In rec (envsM e0 ds) ->
    exists ei zenv rs ri zr ze, nth_error ds ei = Some (zenv, rs) /\ nth_error rs ri = Some (zr, ze) /\
      In rec (blockM (e0 + Z.of_nat ei)%Z (1 + Z.of_nat ri)%Z (scale sde zenv) (scale sdr zr) (map (scale sdx) ze)).
  Proof.
    induction ds as [|[zenv0 rs0] ds IH]; intros e0 rec H; cbn [env_blocks] in H; [destruct H|].
    apply in_app_or in H as [H|H].
    - apply reps_In in H as (ri & zr & ze & H1 & H2). exists 0%nat, zenv0, rs0, ri, zr, ze. repeat split; try assumption.
      now replace (e0 + Z.of_nat 0)%Z with e0 by lia.
    - apply IH in H as (ei & zenv & rs & ri & zr & ze & H1 & H2 & H3). exists (S ei), zenv, rs, ri, zr, ze. repeat split; try assumption.
      now replace (e0 + Z.of_nat (S ei))%Z with (e0 + 1 + Z.of_nat ei)%Z by lia.
  Qed.
End Trial.

(** ** shapes of the parsed draws *)
Definition rep_ok (n t : nat) (rd : repdraw) : Prop :=
  length (fst rd) = t /\ length (snd rd) = n /\ Forall (fun row => length row = t) (snd rd).
Definition env_ok (n t : nat) (ed : envdraw) : Prop := length (fst ed) = t /\ Forall (rep_ok n t) (snd ed).

Lemma chunk_ok (t : nat) : forall k l, length l = (k * t)%nat ->
  length (chunk t k l) = k /\ Forall (fun row => length row = t) (chunk t k l).
Proof.
  induction k as [|k IH]; intros l H; cbn [chunk]; [split; [reflexivity | constructor]|].
  destruct (IH (skipn t l)) as [L F]; [rewrite skipn_length; lia|]. split; [cbn; now rewrite L|].
  constructor; [rewrite firstn_length; lia | exact F].
Qed.

Lemma parse_reps_ok (n t : nat) : forall k fl rs rem, parse_reps k n t fl = Some (rs, rem) ->
  Forall (rep_ok n t) rs /\ length rs = k.
Proof.
  induction k as [|k IH]; intros fl rs rem H; cbn in H.
  - inversion H; subst. split; [constructor | reflexivity].
  - destruct fl as [|zr [|ze fl']]; try discriminate.
    destruct (Nat.eqb_spec (length zr) t) as [E1|]; [|discriminate].
    destruct (Nat.eqb_spec (length ze) (n * t)) as [E2|]; [|discriminate]. cbn in H.
    destruct (parse_reps k n t fl') as [[rs' rem']|] eqn:P; [|discriminate]. inversion H as [[Hrs Hrem]]. clear H Hrs Hrem.
    destruct (IH _ _ _ P) as [F L]. destruct (chunk_ok t n ze E2) as [CL CF].
    split; [|cbn; now rewrite L]. constructor; [|exact F]. repeat split; assumption.
Qed.

Lemma parse_envs_ok (n t : nat) : forall nreps fl ds rem, parse_envs nreps n t fl = Some (ds, rem) ->
  Forall (env_ok n t) ds /\ map (fun ed : envdraw => length (snd ed)) ds = nreps.
Proof.
  induction nreps as [|k ks IH]; intros fl ds rem H; cbn in H.
  - inversion H; subst. split; [constructor | reflexivity].
  - destruct fl as [|zenv fl']; [discriminate|].
    destruct (Nat.eqb_spec (length zenv) t) as [E1|]; [|discriminate].
    destruct (parse_reps k n t fl') as [[rs rem1]|] eqn:P; [|discriminate].
    destruct (parse_envs ks n t rem1) as [[es rem2]|] eqn:P2; [|discriminate]. inversion H as [[Hds Hrem]]. clear H Hds Hrem.
    destruct (parse_reps_ok n t _ _ _ _ P) as [F L]. destruct (IH _ _ _ P2) as [F2 L2].
    split; [constructor; [split; assumption | exact F2] | cbn; now rewrite L, L2].
Qed.

(** ** zero noise *)
Definition zero_vec (l : list Q) : Prop := Forall (fun s => s == 0) l.

Lemma scale_zero : forall z sd, zero_vec sd -> zero_vec (scale sd z).
Proof.
  unfold scale. induction z as [|x z IH]; intros [|s sd] H; cbn; try constructor.
  - inversion H; subst. rewrite H2. ring.
  - inversion H; subst. now apply IH.
Qed.
Lemma scale_length (sd z : list Q) : length (scale sd z) = Nat.min (length z) (length sd).
Proof. apply map2_length. Qed.

Lemma add_zero : forall v w, length w = length v -> zero_vec w -> qlist_eq (map2 Qplus v w) v.
Proof.
  induction v as [|x v IH]; intros [|y w] L H; cbn in *; try discriminate; constructor.
  - inversion H; subst. rewrite H2. ring.
  - inversion H; subst. apply IH; [lia | assumption].
Qed.

Lemma add_effects_zero (v env rep er : list Q) : length env = length v -> length rep = length v -> length er = length v ->
  zero_vec env -> zero_vec rep -> zero_vec er -> qlist_eq (add_effects v env rep er) v.
Proof.
  intros L1 L2 L3 Z1 Z2 Z3. unfold add_effects.
  assert (La : length (map2 Qplus v env) = length v) by (rewrite map2_length; lia).
  assert (Lb : length (map2 Qplus (map2 Qplus v env) rep) = length v) by (rewrite map2_length; lia).
  eapply qlist_eq_trans; [apply add_zero; [lia | assumption]|].
  eapply qlist_eq_trans; [apply add_zero; [lia | assumption]|].
  apply add_zero; assumption.
Qed.

Lemma nth_error_map_inv {A B} (f : A -> B) (l : list A) (i : nat) (b : B) : nth_error (map f l) i = Some b -> exists a, nth_error l i = Some a /\ b = f a.
Proof. rewrite nth_error_map. destruct (nth_error l i) as [a|]; cbn; intros H; inversion H. eauto. Qed.

Section Trial2.
  Variable taxa : list str.
  Variable grp : list (option Z).
  Variable gvm : list (list Q).
  Variables sde sdr sdx : list Q.
  Variables n t : nat.
  Hypothesis Ltaxa : length taxa = n.
  Hypothesis Lgrp : length grp = n.
  Hypothesis Lgvm : length gvm = n.
  Notation blockM := (block taxa grp gvm).
  Notation repsM := (rep_blocks taxa grp gvm sdr sdx).
  Notation envsM := (env_blocks taxa grp gvm sde sdr sdx).

  Lemma block_length e r env rep err : length err = n -> length (blockM e r env rep err) = n.
  Proof. intros L. unfold block. rewrite block_aux_length; lia. Qed.

  Lemma reps_length : forall rs e r0 env, Forall (rep_ok n t) rs -> length (repsM e r0 env rs) = (n * length rs)%nat.
  Proof.
    induction rs as [|[zr ze] rs IH]; intros e r0 env F; cbn [rep_blocks length]; [lia|].
    apply Forall_cons_iff in F as [[_ [L _]] F']. cbn in L. rewrite app_length, block_length, IH by (try assumption; now rewrite map_length). lia.
  Qed.

  Lemma envs_length : forall ds e0, Forall (env_ok n t) ds ->
    length (envsM e0 ds) = (n * list_sum (map (fun ed : envdraw => length (snd ed)) ds))%nat.
  Proof.
    induction ds as [|[zenv rs] ds IH]; intros e0 F; cbn [env_blocks length map list_sum fold_right]; [lia|].
    apply Forall_cons_iff in F as [[_ Fr] F']. cbn in Fr. rewrite app_length, reps_length, IH by assumption. unfold list_sum. cbn [snd]. lia.
  Qed.

  (** with all noise variances zero every record carries its taxon's labels and equals its true genotypic value *)
  Lemma zero_noise_truth : forall ds e0 rec,
    zero_vec sde -> zero_vec sdr -> zero_vec sdx -> length sde = t -> length sdr = t -> length sdx = t ->
    Forall (fun v => length v = t) gvm -> Forall (env_ok n t) ds -> In rec (envsM e0 ds) ->
    exists i v, nth_error taxa i = Some (p_taxa rec) /\ nth_error grp i = Some (p_grp rec) /\ nth_error gvm i = Some v /\ qlist_eq (p_val rec) v.
  Proof.
    intros ds e0 rec Z1 Z2 Z3 L1 L2 L3 Fg Fd H.
    apply envs_In in H as (ei & zenv & rs & ri & zr & ze & H1 & H2 & H3).
    apply block_aux_In in H3 as (i & x & g & v & er & Hx & Hg & Hv & He & ->).
    apply nth_error_map_inv in He as (row & Hrow & ->).
    rewrite Forall_forall in Fd. destruct (Fd _ (nth_error_In _ _ H1)) as [Lz Fr]. cbn in Lz, Fr.
    rewrite Forall_forall in Fr. destruct (Fr _ (nth_error_In _ _ H2)) as [Lr [_ Frow]]. cbn in Lr, Frow.
    rewrite Forall_forall in Frow. pose proof (Frow _ (nth_error_In _ _ Hrow)) as Lrow.
    rewrite Forall_forall in Fg. pose proof (Fg _ (nth_error_In _ _ Hv)) as Lv.
    exists i, v. cbn. repeat split; try assumption.
    apply add_effects_zero; try (rewrite scale_length; lia); now apply scale_zero.
  Qed.
End Trial2.

(** * 8. statements about the whole call [phenotype] *)
Lemma auto_labels_length (prefix : str) (n : nat) : length (auto_labels prefix n) = n.
Proof. unfold auto_labels. now rewrite map_length, seq_length. Qed.

Definition labels_ok (n : nat) (taxa : option (list str)) (grp : option (list Z)) : Prop :=
  (forall l, taxa = Some l -> length l = n) /\ (forall l, grp = Some l -> length l = n).

Lemma labels_ok_lengths n taxa grp : labels_ok n taxa grp ->
  length (labels_or_auto "Taxon"%string n taxa) = n /\ length (grp_col n grp) = n.
Proof.
  intros [H1 H2]. split.
  - destruct taxa as [l|]; cbn; [now apply H1 | apply auto_labels_length].
  - destruct grp as [l|]; cbn; [rewrite map_length; now apply H2 | apply repeat_length].
Qed.

Lemma phenotype_inv n t taxa grp gvm nenv nrep sde sdr sdx flat recs :
  phenotype n t taxa grp gvm nenv nrep sde sdr sdx flat = Some recs ->
  exists ds, parse_envs (firstn nenv nrep) n t flat = Some (ds, []) /\
             recs = env_blocks (labels_or_auto "Taxon"%string n taxa) (grp_col n grp) gvm sde sdr sdx 1%Z ds.
Proof.
  unfold phenotype. destruct (length nrep <? nenv)%nat; [discriminate|]. unfold phenotype_loop.
  destruct (parse_envs _ n t flat) as [[ds [|x rem]]|] eqn:P; try discriminate.
  intros H. inversion H. exists ds. split; reflexivity.
Qed.

(** a call that returns has a replicate count for every environment *)
Lemma phenotype_nrep_len n t taxa grp gvm nenv nrep sde sdr sdx flat recs :
  phenotype n t taxa grp gvm nenv nrep sde sdr sdx flat = Some recs -> (nenv <= length nrep)%nat.
Proof. unfold phenotype. destruct (Nat.ltb_spec (length nrep) nenv); [discriminate | auto]. Qed.

Lemma phenotype_cells n t taxa grp gvm nenv nrep sde sdr sdx flat recs :
  phenotype n t taxa grp gvm nenv nrep sde sdr sdx flat = Some recs ->
  labels_ok n taxa grp -> length gvm = n ->
  let tx := labels_or_auto "Taxon"%string n taxa in
  let tg := grp_col n grp in
  let nreps := firstn nenv nrep in
  exists ds, parse_envs nreps n t flat = Some (ds, []) /\ map (fun ed : envdraw => length (snd ed)) ds = nreps /\
    length recs = (n * list_sum nreps)%nat /\
    (forall ei zenv rs ri zr ze, nth_error ds ei = Some (zenv, rs) -> nth_error rs ri = Some (zr, ze) ->
       let cell := filter (cell_is (1 + Z.of_nat ei) (1 + Z.of_nat ri)) recs in
       length cell = n /\
       forall i x g v er, nth_error tx i = Some x -> nth_error tg i = Some g -> nth_error gvm i = Some v -> nth_error ze i = Some er ->
         nth_error cell i = Some (x, g, (1 + Z.of_nat ei)%Z, (1 + Z.of_nat ri)%Z, add_effects v (scale sde zenv) (scale sdr zr) (scale sdx er))) /\
    (forall e r, (e < 1 \/ e > Z.of_nat (length ds))%Z -> filter (cell_is e r) recs = []) /\
    (forall ei zenv rs r, nth_error ds ei = Some (zenv, rs) -> (r < 1 \/ r > Z.of_nat (length rs))%Z ->
       filter (cell_is (1 + Z.of_nat ei) r) recs = []).
Proof.
  intros H LO Lg tx tg nreps. apply phenotype_inv in H as (ds & P & ->). fold tx tg nreps in P |- *.
  destruct (labels_ok_lengths _ _ _ LO) as [Ltx Ltg]. fold tx in Ltx. fold tg in Ltg.
  destruct (parse_envs_ok n t _ _ _ _ P) as [Fd Ln].
  exists ds. split; [exact P|]. split; [exact Ln|]. split; [|split; [|split]].
  - rewrite (envs_length tx tg gvm sde sdr sdx n t) by assumption. now rewrite Ln.
  - intros ei zenv rs ri zr ze H1 H2 cell. unfold cell. rewrite (envs_filter_hit tx tg gvm sde sdr sdx ds 1%Z ei zenv rs ri zr ze H1 H2).
    rewrite Forall_forall in Fd. destruct (Fd _ (nth_error_In _ _ H1)) as [_ Fr]. cbn in Fr.
    rewrite Forall_forall in Fr. destruct (Fr _ (nth_error_In _ _ H2)) as [_ [Lze _]]. cbn in Lze.
    split.
    + apply (block_length tx tg gvm n); try assumption. now rewrite map_length.
    + intros i x g v er Hx Hg Hv He. unfold block. apply block_aux_nth; try assumption.
      rewrite nth_error_map, He. reflexivity.
  - intros e r He. apply envs_filter_miss. lia.
  - intros ei zenv rs r H1 Hr. now apply (envs_filter_norep tx tg gvm sde sdr sdx ds 1%Z ei zenv rs r).
Qed.

Lemma phenotype_zero_noise n t taxa grp gvm nenv nrep sde sdr sdx flat recs :
  phenotype n t taxa grp gvm nenv nrep sde sdr sdx flat = Some recs ->
  labels_ok n taxa grp -> length gvm = n -> Forall (fun v => length v = t) gvm ->
  zero_vec sde -> zero_vec sdr -> zero_vec sdx -> length sde = t -> length sdr = t -> length sdx = t ->
  forall rec, In rec recs ->
    exists i v, nth_error (labels_or_auto "Taxon"%string n taxa) i = Some (p_taxa rec) /\ nth_error (grp_col n grp) i = Some (p_grp rec) /\
                nth_error gvm i = Some v /\ qlist_eq (p_val rec) v.
Proof.
  intros H LO Lg Fg Z1 Z2 Z3 L1 L2 L3 rec Hin. apply phenotype_inv in H as (ds & P & ->).
  destruct (parse_envs_ok n t _ _ _ _ P) as [Fd _].
  destruct (labels_ok_lengths _ _ _ LO) as [Ltx Ltg].
  eapply (zero_noise_truth _ _ gvm sde sdr sdx n t); eassumption.
Qed.

(** the trial has exactly nenv environments, environment e with the e-th stored replicate count (full strength since
    commit c6ec4108: a stored nrep array shorter than nenv is refused) *)
Lemma phenotype_envs n t taxa grp gvm nenv nrep sde sdr sdx flat recs :
  phenotype n t taxa grp gvm nenv nrep sde sdr sdx flat = Some recs ->
  exists ds, parse_envs (firstn nenv nrep) n t flat = Some (ds, []) /\ length ds = nenv /\
             map (fun ed : envdraw => length (snd ed)) ds = firstn nenv nrep.
Proof.
  intros H. pose proof (phenotype_nrep_len _ _ _ _ _ _ _ _ _ _ _ _ H) as Hle.
  apply phenotype_inv in H as (ds & P & _). exists ds. split; [exact P|].
  destruct (parse_envs_ok n t _ _ _ _ P) as [_ Ln]. split; [|exact Ln].
  rewrite <- (map_length (fun ed : envdraw => length (snd ed)) ds), Ln, firstn_length. lia.
Qed.

(** the nenv setter keeps a uniform stored nrep array in step with nenv *)
Lemma uniform_repeat (k m : nat) : uniform (repeat k m) = true.
Proof.
  destruct m as [|m]; [reflexivity|]. cbn. induction m as [|m IH]; cbn; [reflexivity|]. now rewrite Nat.eqb_refl.
Qed.

Lemma set_nenv_same (nenv' : nat) (attr : list nat) : length attr = nenv' -> set_nenv nenv' attr = attr.
Proof. intros L. unfold set_nenv. now rewrite L, Nat.eqb_refl. Qed.

Lemma uniform_eq_repeat : forall (l : list nat) (h : nat), forallb (Nat.eqb h) l = true -> l = repeat h (length l).
Proof.
  induction l as [|x l IH]; intros h H; cbn in *; [reflexivity|].
  apply andb_true_iff in H as [E H]. apply Nat.eqb_eq in E. subst x. f_equal. now apply IH.
Qed.

Lemma set_nenv_uniform (nenv' : nat) (attr : list nat) (h : nat) :
  uniform (h :: attr) = true -> set_nenv nenv' (h :: attr) = repeat h nenv'.
Proof.
  intros U. unfold set_nenv. destruct (Nat.eqb_spec (length (h :: attr)) nenv') as [E|N].
  - cbn in U. rewrite (uniform_eq_repeat attr h U) at 1. rewrite <- E. cbn. reflexivity.
  - now rewrite U.
Qed.

Lemma nrep_attr_scalar (nenv0 k nenv' : nat) : (0 < nenv0)%nat ->
  nrep_attr_of nenv0 (NScalar k) (Some nenv') = nrep_vec nenv' (NScalar k).
Proof.
  intros H. unfold nrep_attr_of, nrep_vec. destruct nenv0 as [|m]; [lia|]. cbn [repeat].
  apply set_nenv_uniform. exact (uniform_repeat k (S m)).
Qed.

Lemma nrep_attr_spec (nenv0 : nat) (a : nreparg) (nenv' : nat) :
  (0 < nenv0)%nat -> (forall l, a = NArr l -> length l = nenv0) ->
  let attr := nrep_attr_of nenv0 a (Some nenv') in
  (forall k, a = NScalar k -> attr = repeat k nenv') /\
  (forall l, a = NArr l -> nenv0 = nenv' -> attr = l) /\
  (forall l h, a = NArr l -> uniform l = true -> hd_error l = Some h -> attr = repeat h nenv') /\
  (forall l, a = NArr l -> nenv0 <> nenv' -> uniform l = false -> attr = l).
Proof.
  intros H0 Ha attr. unfold attr. split; [|split; [|split]].
  - intros k ->. now apply nrep_attr_scalar.
  - intros l -> E. cbn. apply set_nenv_same. rewrite (Ha l eq_refl). exact E.
  - intros l h -> U Hh. cbn. destruct l as [|x l]; [discriminate|]. cbn in Hh. inversion Hh; subst x. now apply set_nenv_uniform.
  - intros l -> N U. cbn. unfold set_nenv. rewrite (Ha l eq_refl). destruct (Nat.eqb_spec nenv0 nenv'); [contradiction|].
    destruct l; [reflexivity|]. now rewrite U.
Qed.

Lemma list_sum_repeat (k m : nat) : list_sum (repeat k m) = (m * k)%nat.
Proof. induction m as [|m IH]; cbn; [reflexivity|]. fold (list_sum (repeat k m)). rewrite IH. lia. Qed.

(** end to end: an integer nrep = k given at construction (any nenv0 > 0), nenv reassigned to nenv' afterwards: the trial
    has nenv' environments with k replicates each, n * nenv' * k records *)
Lemma phenotype_after_set_nenv n t taxa grp gvm nenv0 k nenv' sde sdr sdx flat recs :
  (0 < nenv0)%nat -> labels_ok n taxa grp -> length gvm = n ->
  phenotype n t taxa grp gvm nenv' (nrep_attr_of nenv0 (NScalar k) (Some nenv')) sde sdr sdx flat = Some recs ->
  exists ds, parse_envs (repeat k nenv') n t flat = Some (ds, []) /\ length ds = nenv' /\
             map (fun ed : envdraw => length (snd ed)) ds = repeat k nenv' /\ length recs = (n * (nenv' * k))%nat.
Proof.
  intros H0 LO Lg H. rewrite nrep_attr_scalar in H by exact H0. cbn [nrep_vec] in H.
  assert (F : firstn nenv' (repeat k nenv') = repeat k nenv').
  { rewrite <- (repeat_length k nenv') at 1. apply firstn_all. }
  destruct (phenotype_envs _ _ _ _ _ _ _ _ _ _ _ _ H) as (ds & P & L & M).
  destruct (phenotype_cells _ _ _ _ _ _ _ _ _ _ _ _ H LO Lg) as (ds' & _ & _ & LR & _).
  rewrite F in P, M, LR. exists ds. repeat split; try assumption.
  now rewrite LR, list_sum_repeat.
Qed.

(** the former code (stale nrep array, no length check): nrep broadcast for nenv = 1, then nenv := 3 -- environments 2 and 3 got no record *)
Lemma old_phenotype_stale_nrep_refuted :
  exists recs, old_phenotype 1 1 None None [[1]] 3 (old_nrep_attr_of 1 (NScalar 1) (Some 3%nat)) [0] [0] [0] [[0]; [0]; [0]] = Some recs /\
               length recs = 1%nat /\ filter (cell_is 2 1) recs = [] /\ filter (cell_is 3 1) recs = [].
Proof. eexists. split; [vm_compute; reflexivity|]. repeat split. Qed.

(** the former code with an array: nrep = [1; 2] for nenv = 2, then nenv := 3 -- a trial of 2 environments was returned
    without an error; the code in force refuses *)
Lemma old_phenotype_short_nrep_refuted :
  let flat := [[0]; [0]; [0];  [0]; [0]; [0]; [0]; [0]] in
  (exists recs, old_phenotype 1 1 None None [[1]] 3 (old_nrep_attr_of 2 (NArr [1; 2]%nat) (Some 3%nat)) [0] [0] [0] flat = Some recs /\
                length recs = 3%nat /\ forall r, filter (cell_is 3 r) recs = []) /\
  phenotype 1 1 None None [[1]] 3 (nrep_attr_of 2 (NArr [1; 2]%nat) (Some 3%nat)) [0] [0] [0] flat = None.
Proof.
  cbv zeta. split; [|vm_compute; reflexivity]. eexists. split; [vm_compute; reflexivity|]. split; [reflexivity|].
  intro r. cbn. unfold cell_is; cbn. reflexivity.
Qed.

(** the request stream is consumed in the order env, (rep, err)*, per environment: flattening well-shaped
    structured draws in that order parses back to them, with nothing left over *)
Fixpoint flatten_reps (rs : list repdraw) : list (list Q) :=
  match rs with [] => [] | (zr, ze) :: rest => zr :: concat ze :: flatten_reps rest end.
Fixpoint flatten_envs (ds : list envdraw) : list (list Q) :=
  match ds with [] => [] | (zenv, rs) :: rest => zenv :: flatten_reps rs ++ flatten_envs rest end.

Lemma chunk_concat (t : nat) : forall (ze : list (list Q)), Forall (fun row => length row = t) ze ->
  chunk t (length ze) (concat ze) = ze /\ length (concat ze) = (length ze * t)%nat.
Proof.
  induction 1 as [|row ze Hr _ [IH1 IH2]]; cbn [length concat chunk]; [split; reflexivity|].
  rewrite firstn_app, Hr, Nat.sub_diag, firstn_O, app_nil_r, <- Hr, firstn_all.
  rewrite skipn_app, Hr, Nat.sub_diag, <- Hr, skipn_all. cbn [app skipn]. rewrite Hr in *. rewrite IH1, app_length, IH2. split; [reflexivity | lia].
Qed.

Lemma parse_flatten_reps (n t : nat) : forall rs tail, Forall (rep_ok n t) rs ->
  parse_reps (length rs) n t (flatten_reps rs ++ tail) = Some (rs, tail).
Proof.
  induction rs as [|[zr ze] rs IH]; intros tail F; cbn [length flatten_reps parse_reps app]; [reflexivity|].
  apply Forall_cons_iff in F as [[L1 [L2 Fr]] F']. cbn in L1, L2, Fr.
  destruct (chunk_concat t ze Fr) as [C1 C2]. rewrite L2 in C1, C2.
  rewrite L1, C2, !Nat.eqb_refl. cbn [andb]. rewrite IH by assumption. now rewrite C1.
Qed.

Lemma parse_flatten_envs (n t : nat) : forall ds tail, Forall (env_ok n t) ds ->
  parse_envs (map (fun ed : envdraw => length (snd ed)) ds) n t (flatten_envs ds ++ tail) = Some (ds, tail).
Proof.
  induction ds as [|[zenv rs] ds IH]; intros tail F; cbn [map flatten_envs parse_envs app snd]; [reflexivity|].
  apply Forall_cons_iff in F as [[L1 Fr] F']. cbn in L1, Fr.
  rewrite L1, Nat.eqb_refl, <- app_assoc, parse_flatten_reps by assumption. now rewrite IH.
Qed.

(** * 9. estimate-level corollaries used by Props/C14.v *)
Lemma estimate_absent_missing (ug hg : bool) (tcols names : list str) (rows : list trow) (gtx : list str) (gtg : option (list Z))
    (tx : list str) (tg : option (list Z)) (tr : list str) (m : list (option (list Q))) :
  estimate ug hg tcols names rows (Some (Some gtx, gtg)) = Some (tx, tg, tr, m) ->
  forall i x, nth_error gtx i = Some x -> (forall r, In r rows -> t_taxa r <> x) -> nth_error m i = Some None.
Proof.
  intros H i x Hx Hab. destruct (estimate_aligned _ _ _ _ _ _ _ _ H) as (sel & _ & _ & _ & _ & _ & A). now apply (A i x Hx).
Qed.

Lemma estimate_aligned_full (ug hg : bool) (tcols names : list str) (rows : list trow) (gtx : list str) (gtg : option (list Z))
    (tx : list str) (tg : option (list Z)) (tr : list str) (m : list (option (list Q))) :
  estimate ug hg tcols names rows (Some (Some gtx, gtg)) = Some (tx, tg, tr, m) ->
  tx = gtx /\ tg = gtg /\ tr = tcols /\ length m = length gtx /\
  exists sel, resolve tcols names = Some sel /\
   forall i x, nth_error gtx i = Some x -> (exists r, In r rows /\ t_taxa r = x) ->
     let recs := filter (of_taxon x) rows in
     recs <> [] /\
     nth_error m i = Some (Some (map (fun j => sumQ (map (fun r => nth j (t_val r) 0) recs) / inject_Z (Z.of_nat (length recs))) sel)).
Proof.
  intros H. destruct (estimate_aligned _ _ _ _ _ _ _ _ H) as (sel & R & E1 & E2 & E3 & L & A).
  repeat split; try assumption. exists sel. split; [exact R|]. intros i x Hx EX recs.
  split.
  - destruct EX as (r & Hr & Er). intro E. assert (I : In r recs) by (apply filter_In; split; [exact Hr | unfold of_taxon; now rewrite Er, String.eqb_refl]).
    rewrite E in I. exact I.
  - now apply (A i x Hx).
Qed.

(** the former code (group by (taxa, taxa_grp), join by label): a taxon recorded in two groups got the mean of its last group only *)
Lemma old_estimate_join_refuted :
  exists (rows : list trow) (gtx : list str) tx tg tr m,
    old_estimate true true ["y"%string] ["y"%string] rows (Some (Some gtx, None)) = Some (tx, tg, tr, m) /\
    exists i x, nth_error gtx i = Some x /\ (exists r, In r rows /\ t_taxa r = x) /\
      let recs := filter (of_taxon x) rows in
      exists got, nth_error m i = Some (Some [got]) /\
        ~ got == sumQ (map (fun r => nth 0 (t_val r) 0) recs) / inject_Z (Z.of_nat (length recs)).
Proof.
  exists [("a"%string, Some 1%Z, [2]); ("a"%string, Some 2%Z, [4]); ("a"%string, Some 2%Z, [16])], ["a"%string].
  do 4 eexists. split; [vm_compute; reflexivity|]. exists 0%nat, "a"%string. split; [reflexivity|]. split.
  - eexists. split; [left; reflexivity | reflexivity].
  - eexists. split; [reflexivity|]. vm_compute. discriminate.
Qed.

(** full strength since the fix: a phenotyped taxon is never reported missing, whatever its group labels *)
Lemma estimate_phenotyped_not_missing (ug hg : bool) (tcols names : list str) (rows : list trow) (gtx : list str) (gtg : option (list Z))
    (tx : list str) (tg : option (list Z)) (tr : list str) (m : list (option (list Q))) :
  estimate ug hg tcols names rows (Some (Some gtx, gtg)) = Some (tx, tg, tr, m) ->
  forall i x, nth_error gtx i = Some x -> (exists r, In r rows /\ t_taxa r = x) -> exists v, nth_error m i = Some (Some v).
Proof.
  unfold estimate, estimate_gen. destruct (resolve tcols names) as [sel|]; [|discriminate].
  destruct (ug && negb hg); [discriminate|]. intros E. inversion E; subst. clear E.
  intros i x Hx EX. destruct (lookup_present (ug && false) sel rows x EX) as (v & Hv). exists v.
  unfold join. rewrite nth_error_map, Hx. cbn. now rewrite Hv.
Qed.

(** the behaviour before commit 187dc882 (null-group records dropped): the phenotyped taxon was reported missing *)
Lemma estimate_dropna_refuted :
  exists (rows : list trow) (gtx : list str) tx tg tr m,
    estimate_dropna true true ["y"%string] ["y"%string] rows (Some (Some gtx, None)) = Some (tx, tg, tr, m) /\
    exists i x, nth_error gtx i = Some x /\ (exists r, In r rows /\ t_taxa r = x) /\ nth_error m i = Some None.
Proof.
  exists [("a"%string, None, [2]); ("a"%string, None, [4])], ["a"%string].
  do 4 eexists. split; [vm_compute; reflexivity|]. exists 0%nat, "a"%string. split; [reflexivity|]. split; [|reflexivity].
  eexists. split; [left; reflexivity | reflexivity].
Qed.

Lemma estimate_groups_means (ug hg : bool) (tcols names : list str) (rows : list trow)
    (tx : list str) (tg : option (list Z)) (tr : list str) (m : list (option (list Q))) :
  estimate ug hg tcols names rows None = Some (tx, tg, tr, m) ->
  exists sel, resolve tcols names = Some sel /\
  let ks := keys_of ug rows in
  tx = map fst ks /\ tg = (if ug then Some (map (fun k => grp_code (snd k)) ks) else None) /\ tr = tcols /\ length m = length ks /\
  StronglySorted klt ks /\ NoDup ks /\
  (forall k, In k ks <-> exists r, In r rows /\ key_of ug r = k) /\
  forall i k, nth_error ks i = Some k ->
    let recs := members ug k rows in
    recs <> [] /\ (forall r, In r recs <-> In r rows /\ key_of ug r = k) /\
    nth_error m i = Some (Some (map (fun j => sumQ (map (fun r => nth j (t_val r) 0) recs) / inject_Z (Z.of_nat (length recs))) sel)).
Proof.
  intros H. destruct (estimate_groups _ _ _ _ _ _ H) as (sel & R & E1 & E2 & E3 & S & ND & IK & EM).
  exists sel. split; [exact R|]. cbv zeta.
  split; [exact E1|]. split; [exact E2|]. split; [exact E3|]. split; [rewrite EM; apply map_length|].
  split; [exact S|]. split; [exact ND|]. split; [exact IK|].
  intros i k Hk. split; [|split].
  - apply nth_error_In, IK in Hk as (r & Hr & Hkr). intro E. assert (I : In r (members ug k rows)) by (apply members_In; auto). rewrite E in I. exact I.
  - intro r. apply members_In.
  - rewrite EM, nth_error_map, Hk. reflexivity.
Qed.

(** * 10. TruePhenotyping: one record per taxon carrying its labels and exactly the true genotypic value *)
Lemma nth_error_combine {A B} : forall (l1 : list A) (l2 : list B) i a b,
  nth_error l1 i = Some a -> nth_error l2 i = Some b -> nth_error (combine l1 l2) i = Some (a, b).
Proof.
  induction l1 as [|x l1 IH]; intros [|y l2] [|i] a b H1 H2; cbn in *; try discriminate.
  - now inversion H1; inversion H2.
  - now apply IH.
Qed.

Lemma true_rows_spec n taxa grp gvm : labels_ok n taxa grp -> length gvm = n ->
  length (true_rows n taxa grp gvm) = n /\
  forall i x g v, nth_error (labels_or_auto "Taxon"%string n taxa) i = Some x -> nth_error (grp_col n grp) i = Some g ->
                  nth_error gvm i = Some v -> nth_error (true_rows n taxa grp gvm) i = Some (x, g, v).
Proof.
  intros LO Lg. destruct (labels_ok_lengths _ _ _ LO) as [Ltx Ltg]. unfold true_rows. split.
  - rewrite map2_length, combine_length. lia.
  - intros i x g v Hx Hg Hv.
    rewrite (nth_error_map2 _ _ _ i (x, g) v); [reflexivity | now apply nth_error_combine | exact Hv].
Qed.

