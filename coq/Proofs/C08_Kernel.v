(** C08 — the kernel expressions regenerated from the source (Gen/C08_Kernel.v) are the ones the hand model uses.
    The linking lemmas are closed by [reflexivity]: if an expression of [prng.seed] / [prng.spawn] changes (another argument
    handed to [py_random.seed], [2**32] for [2**32-1], [n <= 0] for [n < 0], [range(n+1)] ...) the regenerated definition no
    longer unfolds to the model's and this file — hence Props/C08.vo — stops compiling.  The range lemmas are stated about the
    generated definitions themselves. *)
From Coq Require Import List ZArith QArith Qround Bool Lia.
From PV Require Import Lib.Common Gen.C08_Entropy Model.C08_World Proofs.C08_World Gen.C08_Kernel Model.C08_SeedK.
Import ListNotations.
Local Open Scope Z_scope.

(** ** generated = hand model *)
(** ([change] checks convertibility of the small closed kernel terms only; a plain [reflexivity] on the whole statement would
    make the conversion unfold the MT19937 primitives) *)
Lemma k_prng_seed_model s : MK.prng_seed s = MT.prng_seed s.
Proof.
  unfold MK.prng_seed, MT.prng_seed.
  change k_seed_np_lo with 0. change k_seed_np_hi with (2 ^ 32 - 1). change (k_seed_py_arg s) with s. reflexivity.
Qed.
Lemma k_spawn_many_model n sbits : forall py, MK.spawn_many n sbits py = MT.spawn_ints n sbits py.
Proof.
  induction n as [|n IH]; intro py; [reflexivity|]. cbn [MK.spawn_many MT.spawn_ints].
  change (k_spawn_many_lo sbits) with 0. change (k_spawn_many_hi sbits) with (2 ^ sbits - 1).
  destruct (MT.randint 0 (2 ^ sbits - 1) py) as [[x py1]|]; [|reflexivity]. now rewrite IH.
Qed.
Lemma k_spawn_one_model sbits py : MK.spawn_one sbits py = MT.spawn_ints 1 sbits py.
Proof.
  unfold MK.spawn_one. cbn [MT.spawn_ints].
  change (k_spawn_one_lo sbits) with 0. change (k_spawn_one_hi sbits) with (2 ^ sbits - 1).
  destruct (MT.randint 0 (2 ^ sbits - 1) py) as [[x py1]|]; reflexivity.
Qed.
Lemma k_seed_py_arg_model s : k_seed_py_arg s = s.                                               Proof. reflexivity. Qed.
Lemma k_seed_np_bounds_model : k_seed_np_lo = 0 /\ k_seed_np_hi = 2 ^ 32 - 1.                    Proof. split; reflexivity. Qed.
Lemma k_spawn_bounds_model sbits :
  k_spawn_one_lo sbits = 0 /\ k_spawn_one_hi sbits = 2 ^ sbits - 1 /\ k_spawn_many_lo sbits = 0 /\ k_spawn_many_hi sbits = 2 ^ sbits - 1.
Proof. repeat split; reflexivity. Qed.
Lemma k_spawn_count_model n : k_spawn_many_count n = n.                                          Proof. reflexivity. Qed.
Lemma k_spawn_reject_model n : k_spawn_reject n = (n <? 0).                                      Proof. reflexivity. Qed.
Lemma k_spawn_default_sbits_model : k_spawn_default_sbits = 64.                                  Proof. reflexivity. Qed.
(** the request list of the old interface (None counted as one stream) is the kernel-built one *)
Lemma k_spawn_req_model (r : option nat) sbits py :
  MK.spawn_req (option_map Z.of_nat r) sbits py = MT.spawn_ints (match r with None => 1%nat | Some n => n end) sbits py.
Proof.
  destruct r as [n|]; cbn [option_map MK.spawn_req].
  - rewrite k_spawn_reject_model. destruct (Z.ltb_spec (Z.of_nat n) 0) as [H|_]; [lia|].
    rewrite k_spawn_count_model, Nat2Z.id. apply k_spawn_many_model.
  - apply k_spawn_one_model.
Qed.
Lemma k_spawn_all_model (reqs : list (option nat)) sbits py :
  MK.spawn_all (map (option_map Z.of_nat) reqs) sbits py = MT.spawn_all (map (fun r => match r with None => 1%nat | Some n => n end) reqs) sbits py.
Proof.
  revert py. induction reqs as [|r t IH]; intro py; [reflexivity|].
  cbn [map MK.spawn_all MT.spawn_all]. rewrite k_spawn_req_model.
  destruct (MT.spawn_ints _ sbits py) as [[l py1]|]; [|reflexivity]. now rewrite IH.
Qed.
Lemma k_scenario_model s (reqs : list (option nat)) sbits pk pp nk np ents pk2 pp2 :
  MK.seed_scenario_agree s (map (option_map Z.of_nat) reqs) (Some sbits) pk pp nk np ents pk2 pp2 =
  MT.seed_scenario_agree s (map (fun r => match r with None => 1%nat | Some n => n end) reqs) sbits pk pp nk np ents pk2 pp2.
Proof.
  unfold MK.seed_scenario_agree, MT.seed_scenario_agree. rewrite k_prng_seed_model.
  destruct (MT.prng_seed s) as [[py np']|]; [|reflexivity]. cbn [MK.sbits_of]. now rewrite k_spawn_all_model.
Qed.

(** ** ranges, about the generated definitions *)
Lemma randint_upper a b py x py' : MT.randint a b py = Some (x, py') -> x <= b.
Proof.
  unfold MT.randint, MT.randbelow. intro H.
  destruct (MT.randbelow_loop 200 (b - a + 1) (MT.bit_length (b - a + 1)) py) as [[r py1]|] eqn:E; [|discriminate].
  inversion H; subst. apply WP.randbelow_loop_range in E. lia.
Qed.

(** the integer handed to numpy.random.seed never exceeds 2^32-1 (numpy's legacy seeding raises ValueError above it;
    with the bound [2**32] that would happen once in 2^32 seeds — invisible to sampling) *)
Lemma kernel_seed_numpy_range s py np x py1 :
  MK.prng_seed s = Some (py, np) ->
  MT.randint k_seed_np_lo k_seed_np_hi (MT.py_seed (k_seed_py_arg s)) = Some (x, py1) -> x <= 4294967295 /\ np = MT.np_seed x /\ py = py1.
Proof.
  unfold MK.prng_seed. intros H E. rewrite E in H. inversion H; subst. apply randint_upper in E.
  split; [|split; reflexivity]. change k_seed_np_hi with 4294967295 in E. exact E.
Qed.

Lemma spawn_many_spec : forall n sbits py l py', MK.spawn_many n sbits py = Some (l, py') ->
  length l = n /\ Forall (fun x => x <= k_spawn_many_hi sbits) l.
Proof.
  induction n as [|n IH]; intros sbits py l py' H; cbn in H.
  - inversion H; subst. split; [reflexivity | constructor].
  - destruct (MT.randint (k_spawn_many_lo sbits) (k_spawn_many_hi sbits) py) as [[x py1]|] eqn:E; [|discriminate].
    destruct (MK.spawn_many n sbits py1) as [[l' py2]|] eqn:E2; [|discriminate].
    inversion H; subst. destruct (IH _ _ _ _ E2) as [Hlen Hall]. split; [cbn; now rewrite Hlen|].
    constructor; [|exact Hall]. now apply randint_upper in E.
Qed.

(** spawn as generated: a request that is answered is either the single stream or a non-negative count; it yields exactly that
    many stream seeds, each at most 2^sbits - 1 *)
Lemma kernel_spawn_req_spec r sbits py l py' : MK.spawn_req r sbits py = Some (l, py') ->
  match r with None => length l = 1%nat | Some n => 0 <= n /\ length l = Z.to_nat n end /\ Forall (fun x => x <= 2 ^ sbits - 1) l.
Proof.
  destruct r as [n|]; cbn [MK.spawn_req]; intro H.
  - destruct (k_spawn_reject n) eqn:R; [discriminate|]. rewrite k_spawn_reject_model in R. apply Z.ltb_ge in R.
    apply spawn_many_spec in H. destruct H as [Hl Hall]. rewrite k_spawn_count_model in Hl. repeat split; assumption.
  - unfold MK.spawn_one in H.
    destruct (MT.randint (k_spawn_one_lo sbits) (k_spawn_one_hi sbits) py) as [[x py1]|] eqn:E; [|discriminate].
    inversion H; subst. split; [reflexivity|]. constructor; [|constructor]. now apply randint_upper in E.
Qed.

(** spawn(0) is accepted (an empty list, the python stream untouched), every negative count is rejected, no other *)
Lemma kernel_spawn_guard n : (k_spawn_reject n = true <-> n < 0) /\ (forall sbits py, MK.spawn_req (Some 0) sbits py = Some ([], py)).
Proof. split; [rewrite k_spawn_reject_model; apply Z.ltb_lt | reflexivity]. Qed.

(** the seed handed to pymoo's minimize(): for every draw u of uniform(lo, hi) = [lo, hi) it is a 32-bit unsigned integer
    (a valid seed of numpy.random.default_rng, never None) *)
Lemma kernel_minimize_seed_range (u : Q) : Qle k_minimize_u_lo u -> Qlt u k_minimize_u_hi -> 0 <= k_minimize_seed u <= 2 ^ 32 - 1.
Proof.
  intros Hlo Hhi. unfold k_minimize_seed, py_int. change k_minimize_u_lo with (0 # 1)%Q in Hlo. change k_minimize_u_hi with (1 # 1)%Q in Hhi.
  assert (H0 : Qle 0 (u * (4294967296 # 1))).
  { apply Qmult_le_0_compat; [exact Hlo | discriminate]. }
  assert (E : Qle_bool 0 (u * (4294967296 # 1)) = true) by (now apply Qle_bool_iff).
  rewrite E. split.
  - change 0 with (Qfloor 0). now apply Qfloor_resp_le.
  - assert (Hlt : Qlt (u * (4294967296 # 1)) (4294967296 # 1)).
    { setoid_replace (4294967296 # 1)%Q with (1 * (4294967296 # 1))%Q at 2 by ring. apply Qmult_lt_compat_r; [reflexivity | exact Hhi]. }
    pose proof (Qfloor_le (u * (4294967296 # 1))) as Hf.
    assert (Hz : Qlt (inject_Z (Qfloor (u * (4294967296 # 1)))) (inject_Z 4294967296)).
    { eapply Qle_lt_trans; [exact Hf|]. exact Hlt. }
    rewrite <- Zlt_Qlt in Hz. change (2 ^ 32) with 4294967296. lia.
Qed.
(** ... and it is monotone in the draw, the two ends of the range are reached (the map is onto a full 32-bit range, not a constant) *)
Lemma kernel_minimize_seed_ends : k_minimize_seed 0 = 0 /\ k_minimize_seed (4294967295 # 4294967296) = 2 ^ 32 - 1.
Proof. split; vm_compute; reflexivity. Qed.
