(** C19 — the min-max normalisation inside the distance transformations: every entry of the normalised matrix lies
    in [0,1]; a constant column becomes 0. *)
From Coq Require Import Lqa.
From PV Require Import Lib.Common Model.C19_Pareto Proofs.C19_Pareto Proofs.C19_Order Proofs.C19_Dist.
Local Open Scope Q_scope.

Notation vle := (Forall2 Qle).

Lemma vle_refl (p : list Q) : vle p p.
Proof. induction p; constructor; [lra | assumption]. Qed.
Lemma vle_trans (p q r : list Q) : vle p q -> vle q r -> vle p r.
Proof.
  intros H. revert r. induction H as [|x y p q Hx Hp IH]; intros r Hr; inversion Hr; subst; constructor; [lra | now apply IH].
Qed.

Lemma Qmin'_le_l x y : Qmin' x y <= x.
Proof. unfold Qmin'. destruct (Qle_bool x y) eqn:E; [lra | apply Qle_bool_false in E; lra]. Qed.
Lemma Qmin'_le_r x y : Qmin' x y <= y.
Proof. unfold Qmin'. destruct (Qle_bool x y) eqn:E; [apply Qle_bool_iff in E; lra | lra]. Qed.
Lemma Qmax'_ge_l x y : x <= Qmax' x y.
Proof. unfold Qmax'. destruct (Qle_bool x y) eqn:E; [apply Qle_bool_iff in E; lra | lra]. Qed.
Lemma Qmax'_ge_r x y : y <= Qmax' x y.
Proof. unfold Qmax'. destruct (Qle_bool x y) eqn:E; [lra | apply Qle_bool_false in E; lra]. Qed.

Lemma map2_min_le : forall a b, length a = length b -> vle (map2 Qmin' a b) a /\ vle (map2 Qmin' a b) b.
Proof.
  induction a as [|x a IH]; intros [|y b] L; cbn in L; try discriminate; [split; constructor|].
  destruct (IH b) as [A B]; [lia|]. cbn [map2]. split; constructor; auto using Qmin'_le_l, Qmin'_le_r.
Qed.
Lemma map2_max_ge : forall a b, length a = length b -> vle a (map2 Qmax' a b) /\ vle b (map2 Qmax' a b).
Proof.
  induction a as [|x a IH]; intros [|y b] L; cbn in L; try discriminate; [split; constructor|].
  destruct (IH b) as [A B]; [lia|]. cbn [map2]. split; constructor; auto using Qmax'_ge_l, Qmax'_ge_r.
Qed.

Lemma colmin_lower (n : nat) : forall rest r0, length r0 = n -> Forall (fun r => length r = n) rest ->
  vle (colmin r0 rest) r0 /\ Forall (fun r => vle (colmin r0 rest) r) rest.
Proof.
  unfold colmin. induction rest as [|r1 rest IH]; intros r0 L0 HR; cbn [fold_left]; [split; [apply vle_refl | constructor]|].
  pose proof (Forall_inv HR) as L1. pose proof (Forall_inv_tail HR) as HR'. cbv beta in L1.
  destruct (map2_min_le r0 r1) as [A B]; [congruence|].
  destruct (IH (map2 Qmin' r0 r1)) as [C D]; [rewrite map2_length, L0, L1; apply Nat.min_id | exact HR'|].
  split; [eapply vle_trans; eauto|]. constructor; [eapply vle_trans; eauto | exact D].
Qed.
Lemma colmax_upper (n : nat) : forall rest r0, length r0 = n -> Forall (fun r => length r = n) rest ->
  vle r0 (colmax r0 rest) /\ Forall (fun r => vle r (colmax r0 rest)) rest.
Proof.
  unfold colmax. induction rest as [|r1 rest IH]; intros r0 L0 HR; cbn [fold_left]; [split; [apply vle_refl | constructor]|].
  pose proof (Forall_inv HR) as L1. pose proof (Forall_inv_tail HR) as HR'. cbv beta in L1.
  destruct (map2_max_ge r0 r1) as [A B]; [congruence|].
  destruct (IH (map2 Qmax' r0 r1)) as [C D]; [rewrite map2_length, L0, L1; apply Nat.min_id | exact HR'|].
  split; [eapply vle_trans; eauto|]. constructor; [eapply vle_trans; eauto | exact D].
Qed.

Lemma sub_nonneg : forall r mn, vle mn r -> Forall (fun x => 0 <= x) (map2 Qminus r mn).
Proof. intros r mn H. induction H as [|a b mn r Hab H IH]; cbn [map2]; constructor; [lra | exact IH]. Qed.

Lemma scale_row_range : forall s mx, vle s mx -> Forall (fun x => 0 <= x) s ->
  Forall (fun y => 0 <= y <= 1) (map2 Qmult (map (fun m => if Qeq_bool m 0 then 0 else / m) mx) s).
Proof.
  intros s mx H. induction H as [|x M s mx HxM H IH]; intros Hs; cbn [map map2]; constructor.
  - pose proof (Forall_inv Hs) as Hx. cbv beta in Hx. destruct (Qeq_bool M 0) eqn:E.
    + split; lra.
    + apply Qeq_bool_neq in E. assert (HM : 0 < M) by (destruct (Qle_lt_or_eq 0 M ltac:(lra)) as [L|Eq]; [exact L | exfalso; apply E; now symmetry]).
      setoid_replace (/ M * x) with (x / M) by (unfold Qdiv; ring). split.
      * apply Qle_shift_div_l; [exact HM | lra].
      * apply Qle_shift_div_r; [exact HM | lra].
  - apply IH. exact (Forall_inv_tail Hs).
Qed.

Lemma normalised_range m mat mulv : rectm m mat -> length mulv = m ->
  Forall (Forall (fun y => 0 <= y <= 1)) (normalised mat mulv).
Proof.
  intros HR Lw. unfold normalised.
  assert (HA : Forall (fun r => length r = m) (map (fun r => map2 Qmult r mulv) mat)).
  { rewrite Forall_map. eapply Forall_impl; [|exact HR]. cbv beta. intros r Lr. rewrite map2_length, Lr, Lw. apply Nat.min_id. }
  destruct (map (fun r => map2 Qmult r mulv) mat) as [|r0 rest]; [constructor|].
  pose proof (Forall_inv HA) as L0. pose proof (Forall_inv_tail HA) as HA'. cbv beta in L0.
  assert (Lmn : length (colmin r0 rest) = m) by (apply fold_map2_length; assumption).
  destruct (colmin_lower m rest r0 L0 HA') as [Lo0 LoR].
  assert (LoA : Forall (fun r => vle (colmin r0 rest) r) (r0 :: rest)) by (constructor; assumption).
  set (M2 := map (fun r => map2 Qminus r (colmin r0 rest)) (r0 :: rest)).
  assert (H2 : Forall (fun r => length r = m) M2).
  { unfold M2. rewrite Forall_map. eapply Forall_impl; [|exact HA]. cbv beta. intros r Lr. rewrite map2_length, Lr, Lmn. apply Nat.min_id. }
  assert (P2 : Forall (Forall (fun x => 0 <= x)) M2).
  { unfold M2. rewrite Forall_map. eapply Forall_impl; [|exact LoA]. cbv beta. intros r Hr. now apply sub_nonneg. }
  destruct M2 as [|s0 srest] eqn:E2; [constructor|].
  pose proof (Forall_inv H2) as Ls0. pose proof (Forall_inv_tail H2) as H2'. cbv beta in Ls0.
  destruct (colmax_upper m srest s0 Ls0 H2') as [Up0 UpR].
  assert (UpA : Forall (fun r => vle r (colmax s0 srest)) (s0 :: srest)) by (constructor; assumption).
  rewrite Forall_map. rewrite Forall_forall in *. intros s Hs. apply scale_row_range; [apply UpA, Hs | apply P2, Hs].
Qed.

(** * entrywise specification of the normalisation: (x - min) / (max - min) per column, 0 for a constant column *)
Lemma nth_map2 (f : Q -> Q -> Q) (d : Q) : forall a b k, (k < length a)%nat -> (k < length b)%nat ->
  nth k (map2 f a b) d = f (nth k a d) (nth k b d).
Proof.
  induction a as [|x a IH]; intros [|y b] k La Lb; cbn in La, Lb; try lia.
  destruct k as [|k]; cbn [map2 nth]; [reflexivity | apply IH; lia].
Qed.

Lemma nth_fold_map2 (f : Q -> Q -> Q) (n : nat) (d : Q) : forall rest r0 k, length r0 = n -> Forall (fun r => length r = n) rest -> (k < n)%nat ->
  nth k (fold_left (map2 f) rest r0) d = fold_left f (map (fun r => nth k r d) rest) (nth k r0 d).
Proof.
  induction rest as [|r1 rest IH]; intros r0 k L0 HR Hk; cbn [fold_left map]; [reflexivity|].
  pose proof (Forall_inv HR) as L1. pose proof (Forall_inv_tail HR) as HR'. cbv beta in L1.
  rewrite IH; [|rewrite map2_length, L0, L1; apply Nat.min_id | exact HR' | exact Hk].
  rewrite nth_map2 by lia. reflexivity.
Qed.

Lemma foldmin_spec : forall l x, fold_left Qmin' l x <= x /\ Forall (fun y => fold_left Qmin' l x <= y) l /\ In (fold_left Qmin' l x) (x :: l).
Proof.
  induction l as [|y l IH]; intros x; cbn [fold_left]; [split; [lra | split; [constructor | now left]]|].
  destruct (IH (Qmin' x y)) as (A & B & C). pose proof (Qmin'_le_l x y). pose proof (Qmin'_le_r x y).
  split; [lra|]. split; [constructor; [lra | exact B]|].
  destruct C as [C|C]; [|right; right; exact C]. rewrite <- C. unfold Qmin'. destruct (Qle_bool x y); [left | right; left]; reflexivity.
Qed.
Lemma foldmax_spec : forall l x, x <= fold_left Qmax' l x /\ Forall (fun y => y <= fold_left Qmax' l x) l /\ In (fold_left Qmax' l x) (x :: l).
Proof.
  induction l as [|y l IH]; intros x; cbn [fold_left]; [split; [lra | split; [constructor | now left]]|].
  destruct (IH (Qmax' x y)) as (A & B & C). pose proof (Qmax'_ge_l x y). pose proof (Qmax'_ge_r x y).
  split; [lra|]. split; [constructor; [lra | exact B]|].
  destruct C as [C|C]; [|right; right; exact C]. rewrite <- C. unfold Qmax'. destruct (Qle_bool x y); [right; left | left]; reflexivity.
Qed.

Lemma nth_map_rows {A B} (f : A -> B) (l : list A) (i : nat) (dA : A) (dB : B) : (i < length l)%nat -> nth i (map f l) dB = f (nth i l dA).
Proof. intros H. rewrite (nth_indep _ dB (f dA)) by (now rewrite map_length). apply map_nth. Qed.

Lemma normalised_minmax m mat mulv i k : rectm m mat -> length mulv = m -> (i < length mat)%nat -> (k < m)%nat ->
  let colk := map (fun r => nth k r 0) (map (fun r => map2 Qmult r mulv) mat) in
  exists mn mx, In mn colk /\ In mx colk /\ Forall (fun y => mn <= y <= mx) colk /\
    nth k (nth i (normalised mat mulv) []) 0 == (if Qeq_bool (mx - mn) 0 then 0 else (nth i colk 0 - mn) / (mx - mn)).
Proof.
  intros HR Lw Hi Hk. cbv zeta. unfold normalised.
  assert (HA : Forall (fun r => length r = m) (map (fun r => map2 Qmult r mulv) mat)).
  { rewrite Forall_map. eapply Forall_impl; [|exact HR]. cbv beta. intros r Lr. rewrite map2_length, Lr, Lw. apply Nat.min_id. }
  assert (LA : length (map (fun r => map2 Qmult r mulv) mat) = length mat) by apply map_length.
  set (A := map (fun r => map2 Qmult r mulv) mat) in *.
  destruct A as [|r0 rest] eqn:EA; [cbn in LA; lia|].
  pose proof (Forall_inv HA) as L0. pose proof (Forall_inv_tail HA) as HA'. cbv beta in L0.
  assert (Lmn : length (colmin r0 rest) = m) by (apply fold_map2_length; assumption).
  set (mnv := colmin r0 rest) in *.
  set (mn := nth k mnv 0).
  assert (Emn : mn = fold_left Qmin' (map (fun r => nth k r 0) rest) (nth k r0 0)) by (apply (nth_fold_map2 Qmin' m); assumption).
  destruct (foldmin_spec (map (fun r => nth k r 0) rest) (nth k r0 0)) as (Mn1 & Mn2 & Mn3). rewrite <- Emn in Mn1, Mn2, Mn3.
  set (colk := map (fun r => nth k r 0) (r0 :: rest)).
  assert (MnAll : Forall (fun y => mn <= y) colk) by (unfold colk; cbn [map]; constructor; assumption).
  set (M2 := map (fun r => map2 Qminus r mnv) (r0 :: rest)).
  assert (H2 : Forall (fun r => length r = m) M2).
  { unfold M2. rewrite Forall_map. eapply Forall_impl; [|exact HA]. cbv beta. intros r Lr. rewrite map2_length, Lr, Lmn. apply Nat.min_id. }
  (* column k of the shifted matrix *)
  assert (Ecol2 : map (fun r => nth k r 0) M2 = map (fun x => x - mn) colk).
  { unfold M2, colk. rewrite !map_map. apply map_ext_in. intros r Hr. rewrite Forall_forall in HA.
    rewrite nth_map2 by (rewrite ?(HA r Hr), ?Lmn; exact Hk). reflexivity. }
  destruct M2 as [|s0 srest] eqn:E2; [discriminate|].
  pose proof (Forall_inv H2) as Ls0. pose proof (Forall_inv_tail H2) as H2'. cbv beta in Ls0.
  set (mxv := colmax s0 srest).
  assert (Lmx : length mxv = m) by (apply fold_map2_length; assumption).
  set (rg := nth k mxv 0).
  assert (Erg : rg = fold_left Qmax' (map (fun r => nth k r 0) srest) (nth k s0 0)) by (apply (nth_fold_map2 Qmax' m); assumption).
  destruct (foldmax_spec (map (fun r => nth k r 0) srest) (nth k s0 0)) as (Mx1 & Mx2 & Mx3). rewrite <- Erg in Mx1, Mx2, Mx3.
  assert (MxAll : Forall (fun y => y <= rg) (map (fun r => nth k r 0) (s0 :: srest))) by (cbn [map]; constructor; assumption).
  change (nth k s0 0 :: map (fun r => nth k r 0) srest) with (map (fun r => nth k r 0) (s0 :: srest)) in Mx3.
  rewrite Ecol2 in Mx3, MxAll. apply in_map_iff in Mx3 as (mx & Emx & Hmx).
  assert (Emx' : mx - mn == rg) by (rewrite Emx; reflexivity).
  exists mn, mx. split; [exact Mn3|]. split; [exact Hmx|]. split.
  - rewrite Forall_map in MxAll. rewrite Forall_forall in *. intros y Hy. specialize (MnAll y Hy). specialize (MxAll y Hy). cbv beta in MxAll. split; lra.
  - (* the entry *)
    assert (Li : (i < length (s0 :: srest))%nat) by (rewrite <- E2; unfold M2; rewrite map_length; cbn [length]; cbn in LA; lia).
    rewrite (nth_map_rows _ _ i [] []) by exact Li.
    assert (Ls : length (nth i (s0 :: srest) []) = m) by (rewrite Forall_forall in H2; apply H2, nth_In, Li).
    rewrite nth_map2 by (rewrite ?map_length, ?Lmx, ?Ls; exact Hk).
    rewrite (nth_map_rows _ mxv k 0 0) by (rewrite Lmx; exact Hk). fold rg.
    (* the shifted entry *)
    assert (Es : nth k (nth i (s0 :: srest) []) 0 = nth i colk 0 - mn).
    { transitivity (nth i (map (fun r => nth k r 0) (s0 :: srest)) 0).
      - symmetry. rewrite (nth_map_rows _ _ i [] 0) by exact Li. reflexivity.
      - rewrite Ecol2. rewrite (nth_map_rows _ _ i 0 0); [reflexivity|]. unfold colk. rewrite map_length. cbn [length]. cbn in LA. lia. }
    rewrite Es, Emx. destruct (Qeq_bool rg 0) eqn:E0.
    + ring.
    + apply Qeq_bool_neq in E0. field. exact E0.
Qed.
