(** C18 — the optimal haploid value of a cross is a function of the SET of its designated parents and grows with that set:
    every member of the parent tuple counts, whatever its position (first, middle, last) and however often it is listed.
    In particular the value over the whole tuple is at least the value over the first and the last parent only, and a
    population exists in which it is strictly larger (a middle parent alone holds the best block).  Companion of the
    planted populations (nparent 1..4, unique_parents both ways) that the correspondence generates. *)
From PV Require Import Lib.Common Model.C18_Haplo Proofs.C18_Haplo.
From Coq Require Import Lia Arith QArith.
Local Open Scope Q_scope.

(** more candidates, larger value (per trait), over abstract candidate lists *)
Lemma ohv_row_mono (ploidy : Z) (nb nt : nat) (cs cs' : list cand_t) (t : nat) :
  (0 <= ploidy)%Z -> (t < nt)%nat -> cs <> [] -> incl cs cs' ->
  (forall c b, In c cs' -> (b < nb)%nat -> exists q, ent c b t = Some q) ->
  exists V V', nth t (ohv_row ploidy nb nt cs) None = Some V /\ nth t (ohv_row ploidy nb nt cs') None = Some V' /\ V <= V'.
Proof.
  intros Hp Ht Hne Hin H.
  assert (Hne' : cs' <> []).
  { destruct cs as [|c r]; [congruence|]. intros E. specialize (Hin c (or_introl eq_refl)). rewrite E in Hin. exact Hin. }
  assert (H0 : forall c b, In c cs -> (b < nb)%nat -> exists q, ent c b t = Some q) by (intros c b Hc; apply H, Hin, Hc).
  destruct (ohv_row_def ploidy nb nt cs t Ht Hne H0) as [E A].
  destruct (ohv_row_def ploidy nb nt cs' t Ht Hne' H) as [E' A'].
  eexists. eexists. split; [exact E|]. split; [exact E'|].
  rewrite !(Qmult_comm (inject_Z ploidy)). apply Qmult_le_compat_r.
  - apply sumQ_map_le. intros b Hb. apply in_seq in Hb.
    destruct (A b) as [_ (c & Hc & Ec)]; [lia|]. destruct (A' b) as [U _]; [lia|]. exact (U c _ (Hin c Hc) Ec).
  - change 0 with (inject_Z 0). rewrite <- Zle_Qle. exact Hp.
Qed.

Lemma cands_incl (hm : hmat_t) (ps ps' : list nat) : incl ps ps' -> incl (cands hm ps) (cands hm ps').
Proof.
  intros Hin c Hc. unfold cands in *. apply in_flat_map in Hc. destruct Hc as (phm & Hphm & Hc).
  apply in_map_iff in Hc. destruct Hc as (d & <- & Hd).
  apply in_flat_map. exists phm. split; [exact Hphm|]. apply in_map_iff. exists d. split; [reflexivity | apply Hin, Hd].
Qed.
Lemma cands_nonempty (hm : hmat_t) (ps : list nat) : hm <> [] -> ps <> [] -> cands hm ps <> [].
Proof. destruct hm as [|phm hm]; [congruence|]. destruct ps as [|d ps]; [congruence|]. intros _ _. cbn. discriminate. Qed.
Lemma cands_in (hm : hmat_t) (ps : list nat) d phm : In d ps -> In phm hm -> In (nth d phm []) (cands hm ps).
Proof. intros Hd Hp. unfold cands. apply in_flat_map. exists phm. split; [exact Hp|]. apply in_map_iff. exists d. split; [reflexivity|exact Hd]. Qed.

(** the parent tuple: every member counts; sub-tuples give at most the value; the same set gives the same value *)
Lemma ohv_every_parent_counts (ploidy : Z) (nb nt : nat) (hm : hmat_t) (ps ps' : list nat) (t : nat) :
  (0 <= ploidy)%Z -> (t < nt)%nat -> hm <> [] -> ps <> [] -> incl ps ps' ->
  (forall c b, In c (cands hm ps') -> (b < nb)%nat -> exists q, ent c b t = Some q) ->
  exists V V', nth t (ohv_row ploidy nb nt (cands hm ps)) None = Some V
    /\ nth t (ohv_row ploidy nb nt (cands hm ps')) None = Some V'
    /\ V <= V'
    /\ (incl ps' ps -> V == V')
    /\ (V' == inject_Z ploidy * sumQ (map (fun b => bestv (cands hm ps') b t) (seq 0 nb)))
    /\ forall d phm b q, In d ps' -> In phm hm -> (b < nb)%nat -> ent (nth d phm []) b t = Some q -> q <= bestv (cands hm ps') b t.
Proof.
  intros Hp Ht Hhm Hps Hin H.
  assert (Hne := cands_nonempty hm ps Hhm Hps).
  assert (Hps' : ps' <> []) by (destruct ps as [|d r]; [congruence|]; intros E; specialize (Hin d (or_introl eq_refl)); rewrite E in Hin; exact Hin).
  assert (Hne' := cands_nonempty hm ps' Hhm Hps').
  destruct (ohv_row_mono ploidy nb nt _ _ t Hp Ht Hne (cands_incl hm _ _ Hin) H) as (V & V' & E & E' & L).
  destruct (ohv_row_def ploidy nb nt (cands hm ps') t Ht Hne' H) as [D A].
  exists V, V'. split; [exact E|]. split; [exact E'|]. split; [exact L|]. split; [|split].
  - intros Hback.
    assert (H0 : forall c b, In c (cands hm ps) -> (b < nb)%nat -> exists q, ent c b t = Some q)
      by (intros c b Hc; apply H, (cands_incl hm _ _ Hin), Hc).
    destruct (ohv_row_mono ploidy nb nt _ _ t Hp Ht Hne' (cands_incl hm _ _ Hback) H0) as (W' & W & F' & F & L').
    rewrite E' in F'. rewrite E in F. injection F' as <-. injection F as <-. apply Qle_antisym; assumption.
  - rewrite E' in D. injection D as ->. reflexivity.
  - intros d phm b q Hd Hphm Hb Eq. destruct (A b Hb) as [U _]. exact (U _ q (cands_in hm ps' d phm Hd Hphm) Eq).
Qed.

Lemma last_in_cons (r : list nat) : forall a d, In (last (a :: r) d) (a :: r).
Proof. induction r as [|b r IH]; intros a d; [now left|]. right. exact (IH b d). Qed.

(** first and last parent only: never more than the whole tuple ... *)
Lemma ohv_first_last_le (ploidy : Z) (nb nt : nat) (hm : hmat_t) (d0 : nat) (ps : list nat) (t : nat) :
  (0 <= ploidy)%Z -> (t < nt)%nat -> hm <> [] ->
  (forall c b, In c (cands hm (d0 :: ps)) -> (b < nb)%nat -> exists q, ent c b t = Some q) ->
  exists V V', nth t (ohv_row ploidy nb nt (cands hm [d0; last ps d0])) None = Some V
    /\ nth t (ohv_row ploidy nb nt (cands hm (d0 :: ps))) None = Some V' /\ V <= V'.
Proof.
  intros Hp Ht Hhm H.
  assert (Hin : incl [d0; last ps d0] (d0 :: ps)).
  { intros x [<-|[<-|[]]]; [now left|]. destruct ps as [|a r]; [now left|]. right. apply last_in_cons. }
  assert (Hne2 : [d0; last ps d0] <> []) by discriminate.
  destruct (ohv_every_parent_counts ploidy nb nt hm _ _ t Hp Ht Hhm Hne2 Hin H) as (V & V' & E & E' & L & _).
  exists V, V'. auto.
Qed.

(** ... and strictly less in a population whose middle parent alone holds the best block:
    one phase, three individuals, two blocks, one trait; block values [1,0], [0,5], [0,1] *)
Definition mid_hm : hmat_t := [[ [[Some 1]; [Some 0]]; [[Some 0]; [Some 5]]; [[Some 0]; [Some 1]] ]].
Lemma ohv_middle_parent_strict :
  nth 0%nat (ohv_row 1 2 1 (cands mid_hm [0; 1; 2]%nat)) None = Some 6
  /\ nth 0%nat (ohv_row 1 2 1 (cands mid_hm [0; 2]%nat)) None = Some 2
  /\ nth 0%nat (ohv_row 1 2 1 (cands mid_hm [1; 0; 2; 1]%nat)) None = Some 6
  /\ calc_ohvmat 1 2 1 mid_hm (calc_xmap 3 3 true) = [[Some 6]].
Proof. repeat split; vm_compute; reflexivity. Qed.
