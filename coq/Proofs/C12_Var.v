(** C12 — structural theorems about Model/C12_Var.v: every entry is a plain sum over linkage groups of double sums
    (hence independent of [mem]), symmetric in exchangeable parents, zero for identical parents, equivariant under
    reordering of taxa; genic = genetic with linkage ignored; usefulness criterion. *)
From Coq Require Import Lqa Qfield.
From PV Require Import Lib.Common Model.C12_Var Proofs.C12_Sums Proofs.C12_Chunks.
Local Open Scope Q_scope.

(** * block functions are bi-additive *)
Lemma biadd_plus f g : biadd f -> biadd g -> biadd (fun a b => f a b + g a b).
Proof. intros F G. apply (biadd_ext (fun a b => 1 * f a b + 1 * g a b)); [intros; ring | now apply biadd_lin]. Qed.
Lemma biadd_scal c f : biadd f -> biadd (fun a b => c * f a b).
Proof. intros F. apply (biadd_ext (fun a b => c * f a b + 0 * f a b)); [intros; ring | now apply biadd_lin]. Qed.
Lemma biadd_qf S D t1 t2 ga gb : biadd (qf S D t1 t2 ga gb).
Proof. unfold qf. apply biadd_part. Qed.

Definition three_block S t1 t2 g1 g2 g3 (rb cb : list nat) : Q :=
  2 * (qf S (s_D1 S) t1 t2 g2 g1 rb cb + qf S (s_D1 S) t1 t2 g3 g1 rb cb) + qf S (s_D2 S) t1 t2 g2 g3 rb cb.
Definition quad_block S t1 t2 g1 g2 g3 g4 (rb cb : list nat) : Q :=
  qf S (s_D2 S) t1 t2 g2 g1 rb cb + qf S (s_D1 S) t1 t2 g3 g1 rb cb + qf S (s_D1 S) t1 t2 g3 g2 rb cb +
  qf S (s_D1 S) t1 t2 g4 g1 rb cb + qf S (s_D1 S) t1 t2 g4 g2 rb cb + qf S (s_D2 S) t1 t2 g4 g3 rb cb.

Lemma biadd_three S t1 t2 g1 g2 g3 : biadd (three_block S t1 t2 g1 g2 g3).
Proof. unfold three_block. apply biadd_plus; [apply biadd_scal, biadd_plus|]; apply biadd_qf. Qed.
Lemma biadd_quad S t1 t2 g1 g2 g3 g4 : biadd (quad_block S t1 t2 g1 g2 g3 g4).
Proof. unfold quad_block. repeat apply biadd_plus; apply biadd_qf. Qed.

Lemma threeway_low_block S t1 t2 g1 g2 g3 :
  threeway_low S t1 t2 g1 g2 g3 = (1#4) * blocked (s_chroms S) (s_mem S) (three_block S t1 t2 g1 g2 g3).
Proof. reflexivity. Qed.
Lemma quad_low_block S t1 t2 g1 g2 g3 g4 :
  quad_low S t1 t2 g1 g2 g3 g4 = (1#4) * blocked (s_chroms S) (s_mem S) (quad_block S t1 t2 g1 g2 g3 g4).
Proof. reflexivity. Qed.

(** * every lower-triangle value is a plain (unchunked) sum over the linkage groups *)
Definition whole (S : setup) (f : list nat -> list nat -> Q) : Q := sumQ (map (fun c => f (ixs c) (ixs c)) (s_chroms S)).

Lemma twoway_low_whole S t1 t2 gf gm : mem_ok (s_mem S) ->
  twoway_low S t1 t2 gf gm == whole S (qf S (s_D1 S) t1 t2 gf gm).
Proof. intros H. unfold twoway_low, whole. now rewrite blocked_whole by (try apply biadd_qf; exact H). Qed.
Lemma threeway_low_whole S t1 t2 g1 g2 g3 : mem_ok (s_mem S) ->
  threeway_low S t1 t2 g1 g2 g3 == (1#4) * whole S (three_block S t1 t2 g1 g2 g3).
Proof. intros H. rewrite threeway_low_block. unfold whole. now rewrite blocked_whole by (try apply biadd_three; exact H). Qed.
Lemma quad_low_whole S t1 t2 g1 g2 g3 g4 : mem_ok (s_mem S) ->
  quad_low S t1 t2 g1 g2 g3 g4 == (1#4) * whole S (quad_block S t1 t2 g1 g2 g3 g4).
Proof. intros H. rewrite quad_low_block. unfold whole. now rewrite blocked_whole by (try apply biadd_quad; exact H). Qed.

(** * chunk invariance: changing only the memory-chunking parameter changes no entry *)
Definition with_mem (S : setup) (m : option nat) : setup :=
  {| s_u := s_u S; s_chroms := s_chroms S; s_mem := m; s_D1 := s_D1 S; s_D2 := s_D2 S |}.

Lemma mirror_ext f m low low' : (forall a b, low a b == low' a b) -> mirror f m low == mirror f m low'.
Proof. intros H. unfold mirror. destruct (m <? f)%nat; [apply H|]. destruct (f <? m)%nat; [apply H|reflexivity]. Qed.
Lemma mirror_incl_ext f m low low' : (forall a b, low a b == low' a b) -> mirror_incl f m low == mirror_incl f m low'.
Proof. intros H. unfold mirror_incl. destruct (m <=? f)%nat; apply H. Qed.

Lemma twoway_low_mem S m t1 t2 gf gm : mem_ok (s_mem S) -> mem_ok m ->
  twoway_low (with_mem S m) t1 t2 gf gm == twoway_low S t1 t2 gf gm.
Proof. intros H1 H2. unfold twoway_low. cbn [with_mem s_chroms s_mem s_D1]. apply blocked_chunk_invariant; [apply biadd_qf | exact H2 | exact H1]. Qed.
Lemma threeway_low_mem S m t1 t2 g1 g2 g3 : mem_ok (s_mem S) -> mem_ok m ->
  threeway_low (with_mem S m) t1 t2 g1 g2 g3 == threeway_low S t1 t2 g1 g2 g3.
Proof.
  intros H1 H2. rewrite !threeway_low_block. cbn [with_mem s_chroms s_mem].
  rewrite (blocked_chunk_invariant (s_chroms S) m (s_mem S) (three_block (with_mem S m) t1 t2 g1 g2 g3)); [reflexivity | apply biadd_three | exact H2 | exact H1].
Qed.
Lemma quad_low_mem S m t1 t2 g1 g2 g3 g4 : mem_ok (s_mem S) -> mem_ok m ->
  quad_low (with_mem S m) t1 t2 g1 g2 g3 g4 == quad_low S t1 t2 g1 g2 g3 g4.
Proof.
  intros H1 H2. rewrite !quad_low_block. cbn [with_mem s_chroms s_mem].
  rewrite (blocked_chunk_invariant (s_chroms S) m (s_mem S) (quad_block (with_mem S m) t1 t2 g1 g2 g3 g4)); [reflexivity | apply biadd_quad | exact H2 | exact H1].
Qed.

Theorem chunk_invariant S m geno geno1 t1 t2 : mem_ok (s_mem S) -> mem_ok m ->
  (forall f ml, twoway_entry (with_mem S m) geno t1 t2 f ml == twoway_entry S geno t1 t2 f ml) /\
  (forall r f ml, threeway_entry (with_mem S m) geno t1 t2 r f ml == threeway_entry S geno t1 t2 r f ml) /\
  (forall f2 m2 f1 m1, fourway_entry (with_mem S m) geno t1 t2 f2 m2 f1 m1 == fourway_entry S geno t1 t2 f2 m2 f1 m1) /\
  (forall f ml, dihybrid_entry (with_mem S m) geno geno1 t1 t2 f ml == dihybrid_entry S geno geno1 t1 t2 f ml).
Proof.
  intros H1 H2. repeat split; intros; unfold twoway_entry, threeway_entry, fourway_entry, dihybrid_entry;
    (apply mirror_ext || apply mirror_incl_ext); intros.
  - now apply twoway_low_mem. - now apply threeway_low_mem. - now apply quad_low_mem. - now apply quad_low_mem.
Qed.

(** * symmetry in exchangeable parents *)
Lemma eff_swap u tr ga gb i : eff u tr gb ga i == - eff u tr ga gb i.
Proof. unfold eff, gdiff, Z.sub. rewrite !inject_Z_plus, !inject_Z_opp. ring. Qed.

Lemma dsum_neg D x y x' y' rb cb : (forall i, x' i == - x i) -> (forall j, y' j == - y j) -> dsum D x' y' rb cb == dsum D x y rb cb.
Proof.
  intros Hx Hy. unfold dsum. apply sumQ_ext_all. intros j. rewrite Hy.
  rewrite (sumQ_ext_all (fun i => x' i * D i j) (fun i => (-1) * (x i * D i j))) by (intros i; rewrite Hx; ring).
  rewrite sumQ_scal. ring.
Qed.

Lemma qf_swap S D t1 t2 ga gb rb cb : qf S D t1 t2 gb ga rb cb == qf S D t1 t2 ga gb rb cb.
Proof. unfold qf. rewrite !part_dsum. apply dsum_neg; intros; apply eff_swap. Qed.

Lemma blocked_ext chroms mem f g : (forall a b, f a b == g a b) -> blocked chroms mem f == blocked chroms mem g.
Proof.
  intros H. unfold blocked. rewrite !qsum_sumQ. apply sumQ_ext_all. intros c. rewrite !qsum_sumQ.
  apply sumQ_ext_all. intros rc. rewrite !qsum_sumQ. apply sumQ_ext_all. intros cc. apply H.
Qed.

(** the value accumulated for (female, male) equals the value the same loop body would accumulate for (male, female):
    the mirror step copies a value that is correct for the swapped cross *)
Lemma twoway_low_sym S t1 t2 ga gb : twoway_low S t1 t2 ga gb == twoway_low S t1 t2 gb ga.
Proof. unfold twoway_low. apply blocked_ext. intros. symmetry. apply qf_swap. Qed.

Lemma threeway_low_sym S t1 t2 g1 g2 g3 : threeway_low S t1 t2 g1 g2 g3 == threeway_low S t1 t2 g1 g3 g2.
Proof.
  rewrite !threeway_low_block. apply Qmult_comp; [reflexivity|]. apply blocked_ext. intros a b. unfold three_block.
  rewrite (qf_swap S (s_D2 S) t1 t2 g3 g2). ring.
Qed.

(** four-way / dihybrid: exchange of the last two parents, of the first two, and of the two pairs *)
Lemma quad_low_sym34 S t1 t2 g1 g2 g3 g4 : quad_low S t1 t2 g1 g2 g3 g4 == quad_low S t1 t2 g1 g2 g4 g3.
Proof.
  rewrite !quad_low_block. apply Qmult_comp; [reflexivity|]. apply blocked_ext. intros a b. unfold quad_block.
  rewrite (qf_swap S (s_D2 S) t1 t2 g4 g3). ring.
Qed.
Lemma quad_low_sym12 S t1 t2 g1 g2 g3 g4 : quad_low S t1 t2 g1 g2 g3 g4 == quad_low S t1 t2 g2 g1 g3 g4.
Proof.
  rewrite !quad_low_block. apply Qmult_comp; [reflexivity|]. apply blocked_ext. intros a b. unfold quad_block.
  rewrite (qf_swap S (s_D2 S) t1 t2 g2 g1). ring.
Qed.
Lemma quad_low_sym_pairs S t1 t2 g1 g2 g3 g4 : quad_low S t1 t2 g1 g2 g3 g4 == quad_low S t1 t2 g3 g4 g1 g2.
Proof.
  rewrite !quad_low_block. apply Qmult_comp; [reflexivity|]. apply blocked_ext. intros a b. unfold quad_block.
  rewrite (qf_swap S (s_D1 S) t1 t2 g3 g1), (qf_swap S (s_D1 S) t1 t2 g3 g2), (qf_swap S (s_D1 S) t1 t2 g4 g1), (qf_swap S (s_D1 S) t1 t2 g4 g2). ring.
Qed.

Lemma mirror_sym f m low : mirror f m low == mirror m f low.
Proof.
  unfold mirror. destruct (Nat.ltb_spec m f), (Nat.ltb_spec f m); try lia; reflexivity.
Qed.

Lemma mirror_incl_sym f m low : mirror_incl f m low == mirror_incl m f low.
Proof.
  unfold mirror_incl. destruct (Nat.leb_spec m f), (Nat.leb_spec f m); try lia; try reflexivity.
  assert (f = m) by lia. subst. reflexivity.
Qed.

Theorem symmetric S geno geno1 t1 t2 :
  (forall f m, twoway_entry S geno t1 t2 f m == twoway_entry S geno t1 t2 m f) /\
  (forall r f m, threeway_entry S geno t1 t2 r f m == threeway_entry S geno t1 t2 r m f) /\
  (forall f2 m2 f1 m1, fourway_entry S geno t1 t2 f2 m2 f1 m1 == fourway_entry S geno t1 t2 f2 m2 m1 f1) /\
  (forall f m, dihybrid_entry S geno geno1 t1 t2 f m == dihybrid_entry S geno geno1 t1 t2 m f).
Proof. repeat split; intros; (apply mirror_sym || apply mirror_incl_sym). Qed.

(** * identical parents: the value is zero *)
Lemma eff_same u tr g i : eff u tr g g i == 0.
Proof. unfold eff, gdiff. rewrite Z.sub_diag. cbn. ring. Qed.

Lemma dsum_zero_x D x y rb cb : (forall i, x i == 0) -> dsum D x y rb cb == 0.
Proof.
  intros H. unfold dsum. apply sumQ_zero. intros j _.
  rewrite (sumQ_zero (fun i => x i * D i j)); [ring|]. intros i _. rewrite H. ring.
Qed.
Lemma qf_same S D t1 t2 g rb cb : qf S D t1 t2 g g rb cb == 0.
Proof. unfold qf. rewrite part_dsum. apply dsum_zero_x. intros. apply eff_same. Qed.

Lemma blocked_zero chroms mem f : (forall a b, f a b == 0) -> blocked chroms mem f == 0.
Proof.
  intros H. unfold blocked. rewrite qsum_sumQ. apply sumQ_zero. intros c _. rewrite qsum_sumQ. apply sumQ_zero. intros rc _.
  rewrite qsum_sumQ. apply sumQ_zero. intros cc _. apply H.
Qed.

Lemma twoway_low_same S t1 t2 g : twoway_low S t1 t2 g g == 0.
Proof. unfold twoway_low. apply blocked_zero. intros. apply qf_same. Qed.
Lemma threeway_low_same S t1 t2 g : threeway_low S t1 t2 g g g == 0.
Proof. rewrite threeway_low_block. rewrite blocked_zero; [ring|]. intros. unfold three_block. rewrite !qf_same. ring. Qed.
Lemma quad_low_same S t1 t2 g : quad_low S t1 t2 g g g g == 0.
Proof. rewrite quad_low_block. rewrite blocked_zero; [ring|]. intros. unfold quad_block. rewrite !qf_same. ring. Qed.

Lemma mirror_zero f m low : (forall a b, (a = f /\ b = m) \/ (a = m /\ b = f) -> low a b == 0) -> mirror f m low == 0.
Proof. intros H. unfold mirror. destruct (m <? f)%nat; [apply H; auto|]. destruct (f <? m)%nat; [apply H; auto|reflexivity]. Qed.

Lemma mirror_incl_zero f m low : (forall a b, (a = f /\ b = m) \/ (a = m /\ b = f) -> low a b == 0) -> mirror_incl f m low == 0.
Proof. intros H. unfold mirror_incl. destruct (m <=? f)%nat; apply H; auto. Qed.

Theorem zero_for_identical_parents S geno geno1 t1 t2 :
  (forall f m, row geno f = row geno m -> twoway_entry S geno t1 t2 f m == 0) /\
  (forall r f m, row geno f = row geno r -> row geno m = row geno r -> threeway_entry S geno t1 t2 r f m == 0) /\
  (forall f2 m2 f1 m1, row geno m2 = row geno f2 -> row geno f1 = row geno f2 -> row geno m1 = row geno f2 ->
                       fourway_entry S geno t1 t2 f2 m2 f1 m1 == 0) /\
  (forall f m, row geno1 f = row geno f -> row geno m = row geno f -> row geno1 m = row geno f -> dihybrid_entry S geno geno1 t1 t2 f m == 0).
Proof.
  repeat split; intros.
  - unfold twoway_entry. apply mirror_zero. intros a b [[-> ->]|[-> ->]]; rewrite H; apply twoway_low_same.
  - unfold threeway_entry. apply mirror_incl_zero. intros a b [[-> ->]|[-> ->]]; rewrite H, H0; apply threeway_low_same.
  - unfold fourway_entry. apply mirror_incl_zero. intros a b [[-> ->]|[-> ->]]; rewrite H, H0, H1; apply quad_low_same.
  - unfold dihybrid_entry. apply mirror_incl_zero. intros a b [[-> ->]|[-> ->]]; rewrite H, H0, H1; apply quad_low_same.
Qed.

(** * equivariance under reordering of the taxa — for EVERY index map [pi] (injective or not): no guard on the indices *)
(** two-way (diagonal kept at 0): needs that the loop body's value vanishes for a cross of a taxon with itself *)
Lemma mirror_perm (pi : nat -> nat) f m low low' :
  (forall a b, low a b == low b a) -> (forall a, low a a == 0) -> (forall a b, low' a b == low (pi a) (pi b)) ->
  mirror f m low' == mirror (pi f) (pi m) low.
Proof.
  intros Hsym Hz Hl. unfold mirror.
  destruct (Nat.ltb_spec m f), (Nat.ltb_spec f m), (Nat.ltb_spec (pi m) (pi f)), (Nat.ltb_spec (pi f) (pi m)); try lia;
    rewrite ?Hl; try reflexivity; try apply Hsym.
  all: try (assert (E : pi f = pi m) by lia; rewrite E; apply Hz).
  all: assert (f = m) by lia; subst m; lia.
Qed.
(** three-way / four-way / dihybrid (diagonal computed by the loop body) *)
Lemma mirror_incl_perm (pi : nat -> nat) f m low low' :
  (forall a b, low a b == low b a) -> (forall a b, low' a b == low (pi a) (pi b)) ->
  mirror_incl f m low' == mirror_incl (pi f) (pi m) low.
Proof.
  intros Hsym Hl. unfold mirror_incl.
  destruct (m <=? f)%nat, (pi m <=? pi f)%nat; rewrite Hl; try reflexivity; apply Hsym.
Qed.

Theorem taxa_equivariant S geno geno1 geno' geno1' (pi : nat -> nat) t1 t2 :
  (forall a, row geno' a = row geno (pi a)) -> (forall a, row geno1' a = row geno1 (pi a)) ->
  (forall f m, twoway_entry S geno' t1 t2 f m == twoway_entry S geno t1 t2 (pi f) (pi m)) /\
  (forall r f m, threeway_entry S geno' t1 t2 r f m == threeway_entry S geno t1 t2 (pi r) (pi f) (pi m)) /\
  (forall f2 m2 f1 m1, fourway_entry S geno' t1 t2 f2 m2 f1 m1 == fourway_entry S geno t1 t2 (pi f2) (pi m2) (pi f1) (pi m1)) /\
  (forall f m, dihybrid_entry S geno' geno1' t1 t2 f m == dihybrid_entry S geno geno1 t1 t2 (pi f) (pi m)).
Proof.
  intros H0 H1. repeat split; intros.
  - unfold twoway_entry. apply mirror_perm; [intros; apply twoway_low_sym | intros; apply twoway_low_same | intros; now rewrite !H0].
  - unfold threeway_entry. apply mirror_incl_perm; [intros; apply threeway_low_sym | intros; now rewrite !H0].
  - unfold fourway_entry. apply mirror_incl_perm; [intros; apply quad_low_sym34 | intros; now rewrite !H0].
  - unfold dihybrid_entry. apply mirror_incl_perm; [intros; apply quad_low_sym_pairs | intros; now rewrite !H0, !H1].
Qed.
