(** C12 — two-locus enumeration: the selfing recursion is derived from [Egen] and solved in closed form; the coded
    D1/D2 terms of all four mating schemes equal the enumerated doubled-haploid covariances for every selfing depth. *)
From Coq Require Import Lqa Qfield.
From PV Require Import Lib.Common Model.C12_Var Model.C12_Enum Proofs.C12_Sums.
Local Open Scope Q_scope.

(** observed recombination fraction among the gametes of the k-th selfing generation *)
Fixpoint obs (r : Q) (k : nat) : Q := match k with O => r | S k' => r + obs r k' * ((1#2) - r) end.

Definition cis (i : ind) : Q := (fst (fst i) * snd (fst i) + fst (snd i) * snd (snd i)) / 2.
Definition trans (i : ind) : Q := (fst (fst i) * snd (snd i) + fst (snd i) * snd (fst i)) / 2.

Lemma Emei_ext r i f g : (forall h, f h == g h) -> Emei r i f == Emei r i g.
Proof. intros H. unfold Emei. now rewrite !H. Qed.

(** one meiosis: the expected product of the two loci's values mixes the cis and trans associations *)
Lemma Emei_prod r i : Emei r i (fun g => fst g * snd g) == (1 - r) * cis i + r * trans i.
Proof. destruct i as [[a1 a2] [b1 b2]]. unfold Emei, cis, trans. cbn [fst snd]. field. Qed.
Lemma Emei_fst r i : Emei r i (fun g => fst g) == (fst (fst i) + fst (snd i)) / 2.
Proof. destruct i as [[a1 a2] [b1 b2]]. unfold Emei. cbn [fst snd]. field. Qed.
Lemma Emei_snd r i : Emei r i (fun g => snd g) == (snd (fst i) + snd (snd i)) / 2.
Proof. destruct i as [[a1 a2] [b1 b2]]. unfold Emei. cbn [fst snd]. field. Qed.

(** derived from the enumeration: after k selfing generations the gametes carry the parental (cis) association with
    weight 1 - obs r k and the recombinant (trans) association with weight obs r k *)
Lemma Egen_prod r k : forall i, Egen r k i (fun g => fst g * snd g) == (1 - obs r k) * cis i + obs r k * trans i.
Proof.
  induction k as [|k IH]; intros i.
  - cbn [Egen obs]. apply Emei_prod.
  - cbn [Egen obs].
    rewrite (Emei_ext r i _ (fun g1 => Emei r i (fun g2 => (1 - obs r k) * cis (g1, g2) + obs r k * trans (g1, g2)))).
    2:{ intros g1. apply Emei_ext. intros g2. apply IH. }
    destruct i as [[a1 a2] [b1 b2]]. unfold Emei, cis, trans. cbn [fst snd]. field.
Qed.
Lemma Egen_fst r k : forall i, Egen r k i (fun g => fst g) == (fst (fst i) + fst (snd i)) / 2.
Proof.
  induction k as [|k IH]; intros i; cbn [Egen]; [apply Emei_fst|].
  rewrite (Emei_ext r i _ (fun g1 => Emei r i (fun g2 => (fst g1 + fst g2) / 2))).
  2:{ intros g1. apply Emei_ext. intros g2. rewrite IH. reflexivity. }
  destruct i as [[a1 a2] [b1 b2]]. unfold Emei. cbn [fst snd]. field.
Qed.
Lemma Egen_snd r k : forall i, Egen r k i (fun g => snd g) == (snd (fst i) + snd (snd i)) / 2.
Proof.
  induction k as [|k IH]; intros i; cbn [Egen]; [apply Emei_snd|].
  rewrite (Emei_ext r i _ (fun g1 => Emei r i (fun g2 => (snd g1 + snd g2) / 2))).
  2:{ intros g1. apply Emei_ext. intros g2. rewrite IH. reflexivity. }
  destruct i as [[a1 a2] [b1 b2]]. unfold Emei. cbn [fst snd]. field.
Qed.

(** ** closed form: obs r k = rprob_filial r (k+1) *)
Lemma qpow_S x k : qpow x (S k) = x * qpow x k. Proof. reflexivity. Qed.
Lemma obs_closed r k : 0 <= r -> obs r k == rprob_filial r (Some (S k)).
Proof.
  intros Hr. assert (Hd : ~ 1 + 2 * r == 0) by lra.
  induction k as [|k IH].
  - cbn [obs]. unfold rprob_filial. cbn [qpow]. field. exact Hd.
  - cbn [obs]. rewrite IH. unfold rprob_filial. rewrite !(qpow_S _ (S k)).
    set (X := qpow (1#2) (S k)). set (Y := qpow (1 - 2 * r) (S k)). field. exact Hd.
Qed.

Lemma D1_obs r k : 0 <= r -> cov_D1s r (Some k) == 1 - 2 * obs r k.
Proof.
  intros Hr. destruct k as [|k].
  - cbn [cov_D1s obs]. reflexivity.
  - unfold cov_D1s, dsucc. now rewrite obs_closed.
Qed.
Lemma D2_obs r k : 0 <= r -> cov_D2s r (Some k) == 1 - 4 * r + 4 * r * obs r k.
Proof.
  intros Hr. destruct k as [|k].
  - cbn [cov_D2s obs]. ring.
  - unfold cov_D2s, dsucc. cbv zeta. now rewrite obs_closed.
Qed.

(** ** two-way cross of inbreds, any selfing depth *)
Theorem twoway_selfing_exact r k (A B : hap) : 0 <= r ->
  dhcov (E_two r k A B) == (fst A - fst B) * cov_D1s r (Some k) * (snd A - snd B).
Proof.
  intros Hr. unfold dhcov, cov2, E_two. rewrite Egen_prod, Egen_fst, Egen_snd, D1_obs by exact Hr.
  destruct A as [a1 a2], B as [b1 b2]. unfold cis, trans. cbn [fst snd]. field.
Qed.

(** ** three-way cross: (F x M) x R *)
Lemma E_three_ext r k R F M f g : (forall h, f h == g h) -> E_three r k R F M f == E_three r k R F M g.
Proof.
  intros H. unfold E_three. apply Emei_ext. intros h. revert h.
  assert (G : forall k i, Egen r k i f == Egen r k i g).
  { induction k0 as [|k0 IH]; intros i; cbn [Egen]; [now apply Emei_ext|]. apply Emei_ext; intros g1. apply Emei_ext; intros g2. apply IH. }
  intros h. apply G.
Qed.

Theorem threeway_selfing_exact r k (R F M : hap) : 0 <= r ->
  dhcov (E_three r k R F M) ==
  (1#4) * (2 * ((fst F - fst R) * cov_D1s r (Some k) * (snd F - snd R) + (fst M - fst R) * cov_D1s r (Some k) * (snd M - snd R))
           + (fst F - fst M) * cov_D2s r (Some k) * (snd F - snd M)).
Proof.
  intros Hr. unfold dhcov, cov2, E_three.
  rewrite (Emei_ext r (F, M) _ (fun g => (1 - obs r k) * cis (g, R) + obs r k * trans (g, R))) by (intros; apply Egen_prod).
  rewrite (Emei_ext r (F, M) (fun g => Egen r k (g, R) (fun g0 => fst g0)) (fun g => (fst g + fst R) / 2)) by (intros; rewrite Egen_fst; reflexivity).
  rewrite (Emei_ext r (F, M) (fun g => Egen r k (g, R) (fun g0 => snd g0)) (fun g => (snd g + snd R) / 2)) by (intros; rewrite Egen_snd; reflexivity).
  rewrite D1_obs, D2_obs by exact Hr.
  destruct R as [r1 r2], F as [f1 f2], M as [m1 m2]. unfold Emei, cis, trans. cbn [fst snd]. field.
Qed.

(** ** four-way cross (P1 x P2) x (P3 x P4) and dihybrid cross (phases (P1,P2) x phases (P3,P4)) *)
Theorem fourway_selfing_exact r k (P1 P2 P3 P4 : hap) : 0 <= r ->
  dhcov (E_four r k P1 P2 P3 P4) ==
  (1#4) * ((fst P2 - fst P1) * cov_D2s r (Some k) * (snd P2 - snd P1) + (fst P3 - fst P1) * cov_D1s r (Some k) * (snd P3 - snd P1)
         + (fst P3 - fst P2) * cov_D1s r (Some k) * (snd P3 - snd P2) + (fst P4 - fst P1) * cov_D1s r (Some k) * (snd P4 - snd P1)
         + (fst P4 - fst P2) * cov_D1s r (Some k) * (snd P4 - snd P2) + (fst P4 - fst P3) * cov_D2s r (Some k) * (snd P4 - snd P3)).
Proof.
  intros Hr. unfold dhcov, cov2, E_four.
  rewrite (Emei_ext r (P1, P2) _ (fun g => Emei r (P3, P4) (fun h => (1 - obs r k) * cis (g, h) + obs r k * trans (g, h)))).
  2:{ intros g. apply Emei_ext. intros h. apply Egen_prod. }
  rewrite (Emei_ext r (P1, P2) (fun g => Emei r (P3, P4) (fun h => Egen r k (g, h) (fun g0 => fst g0)))
                                (fun g => Emei r (P3, P4) (fun h => (fst g + fst h) / 2))).
  2:{ intros g. apply Emei_ext. intros h. rewrite Egen_fst. reflexivity. }
  rewrite (Emei_ext r (P1, P2) (fun g => Emei r (P3, P4) (fun h => Egen r k (g, h) (fun g0 => snd g0)))
                                (fun g => Emei r (P3, P4) (fun h => (snd g + snd h) / 2))).
  2:{ intros g. apply Emei_ext. intros h. rewrite Egen_snd. reflexivity. }
  rewrite D1_obs, D2_obs by exact Hr.
  destruct P1 as [a1 a2], P2 as [b1 b2], P3 as [c1 c2], P4 as [d1 d2]. unfold Emei, cis, trans. cbn [fst snd]. field.
Qed.

(** ** the limit nself = inf: the finite-depth D1 decreases to the coded limit formula, within 2^-(k+1) *)
Lemma qpow_nonneg x k : 0 <= x -> 0 <= qpow x k.
Proof. intros H. induction k; cbn [qpow]; [lra|]. now apply Qmult_le_0_compat. Qed.
Lemma qpow_le1 x k : 0 <= x -> x <= 1 -> qpow x k <= 1.
Proof.
  intros H0 H1. induction k as [|k IH]; cbn [qpow]; [lra|].
  pose proof (qpow_nonneg x k H0) as P.
  assert (x * qpow x k <= 1 * 1) by (apply Qmult_le_compat_nonneg; split; assumption). lra.
Qed.

Theorem D1_limit r k : 0 <= r -> r <= 1#2 ->
  0 <= cov_D1s r (Some k) - cov_D1s r None /\ cov_D1s r (Some k) - cov_D1s r None <= qpow (1#2) (S k).
Proof.
  intros H0 H1. assert (Hd : ~ 1 + 2 * r == 0) by lra.
  rewrite D1_obs, obs_closed by exact H0. unfold cov_D1s, dsucc, rprob_filial.
  set (X := qpow (1#2) (S k)). set (Y := qpow (1 - 2 * r) (S k)).
  assert (HX : 0 <= X) by (apply qpow_nonneg; lra).
  assert (HY0 : 0 <= Y) by (apply qpow_nonneg; lra).
  assert (HY1 : Y <= 1) by (apply qpow_le1; lra).
  assert (E : 1 - 2 * (2 * r / (1 + 2 * r) * (1 - X * Y)) - (1 - 2 * (2 * r / (1 + 2 * r))) == (4 * r / (1 + 2 * r)) * (X * Y)) by (field; exact Hd).
  rewrite E.
  assert (Hq0 : 0 <= 4 * r / (1 + 2 * r)) by (apply Qle_shift_div_l; lra).
  assert (Hq1 : 4 * r / (1 + 2 * r) <= 1) by (apply Qle_shift_div_r; lra).
  assert (HXY0 : 0 <= X * Y) by (now apply Qmult_le_0_compat).
  assert (HXY1 : X * Y <= X * 1) by (apply Qmult_le_compat_nonneg; split; try assumption; lra).
  split.
  - now apply Qmult_le_0_compat.
  - assert (4 * r / (1 + 2 * r) * (X * Y) <= 1 * (X * Y)) by (apply Qmult_le_compat_r; assumption). lra.
Qed.
