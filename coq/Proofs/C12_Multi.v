(** C12 — the model's entries equal the doubled-haploid covariance under the MULTI-LOCUS gamete enumeration with selfing,
    for every scheme, every number of loci, every linkage-group layout and every selfing depth. *)
From Coq Require Import Lqa Qfield.
From PV Require Import Lib.Common Model.C12_Var Model.C12_Enum Proofs.C12_Sums Proofs.C12_Chunks Proofs.C12_Var Proofs.C12_Selfing
  Proofs.C12_Meiosis Proofs.C12_Exact Proofs.C12_Lift.
Local Open Scope Q_scope.

(** * D(1/2) = 0: independent loci contribute nothing, at every depth *)
Lemma obs_half r k : r == 1#2 -> obs r k == 1#2.
Proof. intros H. induction k as [|k IH]; cbn [obs]; [exact H|]. rewrite IH. lra. Qed.
Lemma D1_half r k : r == 1#2 -> cov_D1s r (Some k) == 0.
Proof. intros H. rewrite D1_obs by lra. rewrite (obs_half r k H). lra. Qed.
Lemma D2_half r k : r == 1#2 -> cov_D2s r (Some k) == 0.
Proof. intros H. rewrite D2_obs by lra. rewrite (obs_half r k H). nra. Qed.

Definition vanishes (ps : list Q) (D : nat -> nat -> Q) : Prop :=
  forall i j k, (Nat.min i j <= k < Nat.max i j)%nat -> nth k ps 0 == 1#2 -> D i j == 0.

Lemma vanishes_D1 ps k : vanishes ps (fun i j => cov_D1s (rpair ps i j) (Some k)).
Proof. intros i j m Hm Hp. apply D1_half. unfold rpair. rewrite (rho_zero ps i j m Hm Hp). reflexivity. Qed.
Lemma vanishes_D2 ps k : vanishes ps (fun i j => cov_D2s (rpair ps i j) (Some k)).
Proof. intros i j m Hm Hp. apply D2_half. unfold rpair. rewrite (rho_zero ps i j m Hm Hp). reflexivity. Qed.

Lemma dsum_groups_gen ps D x y : vanishes ps D -> forall chroms lo hi, consecutive chroms lo hi -> free_between ps lo chroms ->
  dsum D x y (seq lo (hi - lo)) (seq lo (hi - lo)) == sumQ (map (fun c => dsum D x y (ixs c) (ixs c)) chroms).
Proof.
  intros HV. induction chroms as [|[st sp] rest IH]; intros lo hi Hc Hf.
  - cbn [consecutive] in Hc. subst hi. rewrite Nat.sub_diag. reflexivity.
  - cbn [consecutive fst snd] in Hc. destruct Hc as (-> & Hle & Hrest).
    pose proof (consecutive_le rest sp hi Hrest) as Hle2.
    replace (hi - lo)%nat with ((sp - lo) + (hi - sp))%nat by lia. rewrite seq_app. replace (lo + (sp - lo))%nat with sp by lia.
    rewrite dsum_app_l, !dsum_app_r. cbn [map]. rewrite sumQ_cons. unfold ixs at 1 2. cbn [fst snd].
    inversion Hf as [|? ? Hhd Htl]; subst.
    rewrite (IH sp hi Hrest).
    2:{ unfold free_between in *. rewrite Forall_forall in *. intros c Hin Hlt. apply Htl; [exact Hin|lia]. }
    assert (Z : forall i j, In i (seq lo (sp - lo)) -> In j (seq sp (hi - sp)) -> D i j == 0 /\ D j i == 0).
    { intros i j Hi Hj. apply in_seq in Hi. apply in_seq in Hj.
      destruct rest as [|[st2 sp2] rest2]; [cbn [consecutive] in Hrest; lia|].
      cbn [consecutive fst snd] in Hrest. destruct Hrest as (-> & _ & _).
      inversion Htl as [|? ? Hb _]; subst. cbn [fst] in Hb.
      assert (Hp : nth (sp - 1) ps 0 == 1#2) by (apply Hb; lia).
      split; apply (HV _ _ (sp - 1)%nat); try exact Hp; lia. }
    rewrite (dsum_zero_D D x y (seq lo (sp - lo)) (seq sp (hi - sp))) by (intros i j Hi Hj; apply (Z i j Hi Hj)).
    rewrite (dsum_zero_D D x y (seq sp (hi - sp)) (seq lo (sp - lo))) by (intros i j Hi Hj; apply (Z j i Hj Hi)).
    ring.
Qed.

(** parental haplotypes as allele values, and the effect column of one trait *)
Definition alleles (g : list Z) (L : nat) : list Q := map (fun i => inject_Z (nth i g 0%Z)) (seq 0 L).
Definition ucol (u : list (list Q)) (tr : nat) (L : nat) : list Q := map (fun i => nth tr (nth i u []) 0) (seq 0 L).
Lemma alleles_length g L : length (alleles g L) = L. Proof. unfold alleles. now rewrite map_length, seq_length. Qed.
Lemma nth_alleles g L i : (i < L)%nat -> nth i (alleles g L) 0 = inject_Z (nth i g 0%Z).
Proof. intros H. unfold alleles. now rewrite nth_map_seq. Qed.
Lemma nth_ucol u tr L i : (i < L)%nat -> nth i (ucol u tr L) 0 = nth tr (nth i u []) 0.
Proof. intros H. unfold ucol. now rewrite nth_map_seq. Qed.

Lemma allpairs_dsum L D x y : allpairs L (fun i j => x i * D i j * y j) == dsum D x y (seq 0 L) (seq 0 L).
Proof. unfold allpairs. symmetry. apply dsum_terms. Qed.
Lemma allpairs_plus L F G : allpairs L (fun i j => F i j + G i j) == allpairs L F + allpairs L G.
Proof. unfold allpairs. rewrite <- sumQ_plus. apply sumQ_ext_all. intros j. now rewrite sumQ_plus. Qed.
Lemma allpairs_scal L c F : allpairs L (fun i j => c * F i j) == c * allpairs L F.
Proof. unfold allpairs. rewrite <- sumQ_scal. apply sumQ_ext_all. intros j. now rewrite sumQ_scal. Qed.

Lemma eff_alleles u tr L ga gb i : (i < L)%nat ->
  nth i (ucol u tr L) 0 * (nth i (alleles ga L) 0 - nth i (alleles gb L) 0) == eff u tr ga gb i.
Proof. intros H. rewrite nth_ucol, !nth_alleles by exact H. unfold eff, gdiff, Z.sub. rewrite inject_Z_plus, inject_Z_opp. ring. Qed.

(** the quadratic form of one parental difference, summed over the linkage groups, is the all-pairs sum with the chain D *)
Lemma whole_as_allpairs S ps k (two : bool) t1 t2 ga gb :
  let L := Datatypes.S (length ps) in
  consecutive (s_chroms S) 0 L -> free_between ps 0 (s_chroms S) ->
  (forall c i j, In c (s_chroms S) -> In i (ixs c) -> In j (ixs c) ->
     (if two then s_D2 S i j else s_D1 S i j) == (if two then cov_D2s else cov_D1s) (rpair ps i j) (Some k)) ->
  whole S (qf S (if two then s_D2 S else s_D1 S) t1 t2 ga gb) ==
  allpairs L (fun i j => eff (s_u S) t1 ga gb i * (if two then cov_D2s else cov_D1s) (rpair ps i j) (Some k) * eff (s_u S) t2 ga gb j).
Proof.
  intros L Hc Hf HD. rewrite allpairs_dsum.
  pose proof (dsum_groups_gen ps (fun i j => (if two then cov_D2s else cov_D1s) (rpair ps i j) (Some k))
                (eff (s_u S) t1 ga gb) (eff (s_u S) t2 ga gb)) as G.
  assert (V : vanishes ps (fun i j => (if two then cov_D2s else cov_D1s) (rpair ps i j) (Some k))) by (destruct two; [apply vanishes_D2 | apply vanishes_D1]).
  specialize (G V (s_chroms S) 0%nat L Hc Hf). rewrite Nat.sub_0_r in G. rewrite G.
  unfold whole. apply sumQ_ext. intros c Hin. unfold qf. rewrite part_dsum.
  apply dsum_ext; try (intros; reflexivity). intros i j Hi Hj. destruct two; apply (HD c i j Hin Hi Hj).
Qed.

Definition chain_tables (S : setup) (ps : list Q) (k : nat) : Prop :=
  forall c i j, In c (s_chroms S) -> In i (ixs c) -> In j (ixs c) ->
    s_D1 S i j == cov_D1s (rpair ps i j) (Some k) /\ s_D2 S i j == cov_D2s (rpair ps i j) (Some k).
Definition r_nonneg (ps : list Q) : Prop := forall i j, 0 <= rpair ps i j.

Section Multi.
Variables (S : setup) (ps : list Q) (k : nat) (t1 t2 : nat).
Let L := Datatypes.S (length ps).
Hypothesis Hm : mem_ok (s_mem S).
Hypothesis Hc : consecutive (s_chroms S) 0 L.
Hypothesis Hf : free_between ps 0 (s_chroms S).
Hypothesis HD : chain_tables S ps k.
Hypothesis Hr : r_nonneg ps.

Let U1 := ucol (s_u S) t1 L.
Let U2 := ucol (s_u S) t2 L.

Lemma W1 ga gb : whole S (qf S (s_D1 S) t1 t2 ga gb) ==
  allpairs L (fun i j => eff (s_u S) t1 ga gb i * cov_D1s (rpair ps i j) (Some k) * eff (s_u S) t2 ga gb j).
Proof. apply (whole_as_allpairs S ps k false t1 t2 ga gb Hc Hf). intros c i j H1 H2 H3. apply (HD c i j H1 H2 H3). Qed.
Lemma W2 ga gb : whole S (qf S (s_D2 S) t1 t2 ga gb) ==
  allpairs L (fun i j => eff (s_u S) t1 ga gb i * cov_D2s (rpair ps i j) (Some k) * eff (s_u S) t2 ga gb j).
Proof. apply (whole_as_allpairs S ps k true t1 t2 ga gb Hc Hf). intros c i j H1 H2 H3. apply (HD c i j H1 H2 H3). Qed.

Theorem twoway_multilocus_exact gA gB :
  twoway_low S t1 t2 gA gB == covL L (EL_two ps k (alleles gA L) (alleles gB L)) U1 U2.
Proof.
  unfold L. rewrite EL_two_pairs by apply alleles_length. fold L.
  rewrite twoway_low_whole by exact Hm. rewrite W1. apply allpairs_ext. intros i j Hi Hj.
  rewrite twoway_selfing_exact by apply Hr. unfold pr. cbn [fst snd]. unfold U1, U2.
  rewrite <- (eff_alleles (s_u S) t1 L gA gB i Hi), <- (eff_alleles (s_u S) t2 L gA gB j Hj). ring.
Qed.

Theorem threeway_multilocus_exact g1 g2 g3 :
  threeway_low S t1 t2 g1 g2 g3 == covL L (EL_three ps k (alleles g1 L) (alleles g2 L) (alleles g3 L)) U1 U2.
Proof.
  unfold L. rewrite EL_three_pairs by apply alleles_length. fold L.
  rewrite threeway_low_whole by exact Hm. unfold whole, three_block. rewrite sumQ_plus, sumQ_scal, sumQ_plus.
  fold (whole S (qf S (s_D1 S) t1 t2 g2 g1)) (whole S (qf S (s_D1 S) t1 t2 g3 g1)) (whole S (qf S (s_D2 S) t1 t2 g2 g3)).
  rewrite !W1, W2. rewrite <- allpairs_plus, <- allpairs_scal, <- allpairs_plus, <- allpairs_scal.
  apply allpairs_ext. intros i j Hi Hj.
  rewrite threeway_selfing_exact by apply Hr. unfold pr. cbn [fst snd]. unfold U1, U2.
  rewrite <- !(eff_alleles (s_u S) t1 L _ _ i Hi), <- !(eff_alleles (s_u S) t2 L _ _ j Hj). ring.
Qed.

Theorem quad_multilocus_exact g1 g2 g3 g4 :
  quad_low S t1 t2 g1 g2 g3 g4 == covL L (EL_four ps k (alleles g1 L) (alleles g2 L) (alleles g3 L) (alleles g4 L)) U1 U2.
Proof.
  unfold L. rewrite EL_four_pairs by apply alleles_length. fold L.
  rewrite quad_low_whole by exact Hm. unfold whole, quad_block. rewrite !sumQ_plus.
  fold (whole S (qf S (s_D2 S) t1 t2 g2 g1)) (whole S (qf S (s_D1 S) t1 t2 g3 g1)) (whole S (qf S (s_D1 S) t1 t2 g3 g2))
       (whole S (qf S (s_D1 S) t1 t2 g4 g1)) (whole S (qf S (s_D1 S) t1 t2 g4 g2)) (whole S (qf S (s_D2 S) t1 t2 g4 g3)).
  rewrite !W1, !W2. rewrite <- !allpairs_plus, <- allpairs_scal.
  apply allpairs_ext. intros i j Hi Hj.
  rewrite fourway_selfing_exact by apply Hr. unfold pr. cbn [fst snd]. unfold U1, U2.
  rewrite <- !(eff_alleles (s_u S) t1 L _ _ i Hi), <- !(eff_alleles (s_u S) t2 L _ _ j Hj). ring.
Qed.
End Multi.

(** gap probabilities in [0,1/2] give pair fractions in [0,1/2] *)
Lemma qprod_range l : (forall x, In x l -> 0 <= x <= 1) -> 0 <= qprod l <= 1.
Proof.
  induction l as [|a l IH]; intros H; cbn [qprod]; [lra|].
  destruct (H a (or_introl eq_refl)) as [A0 A1]. destruct IH as [P0 P1]; [intros; apply H; now right|]. split; [now apply Qmult_le_0_compat|].
  assert (a * qprod l <= 1 * 1) by (apply Qmult_le_compat_nonneg; split; assumption). lra.
Qed.
Lemma In_firstn' {A} (x : A) : forall n l, In x (firstn n l) -> In x l.
Proof. induction n as [|n IH]; intros [|a l] H; cbn in *; try tauto. destruct H; [now left | right; now apply IH]. Qed.
Lemma In_skipn' {A} (x : A) : forall n l, In x (skipn n l) -> In x l.
Proof. induction n as [|n IH]; intros [|a l] H; cbn in *; try tauto. right. now apply IH. Qed.
Lemma r_nonneg_of_gaps ps : (forall p, In p ps -> 0 <= p <= 1#2) -> r_nonneg ps.
Proof.
  intros H i j. unfold rpair, rho.
  destruct (qprod_range (map (fun p => 1 - 2 * p) (firstn (Nat.max i j - Nat.min i j) (skipn (Nat.min i j) ps)))) as [P0 P1].
  - intros x Hx. apply in_map_iff in Hx. destruct Hx as (p & <- & Hp). apply In_firstn' in Hp. apply In_skipn' in Hp. specialize (H p Hp). lra.
  - apply Qle_shift_div_l; [reflexivity|]. lra.
Qed.
