(** C07 — the cross-map index generators of pybrops/core/util/array.py (triudix / triuix / xmapix):
    every strictly increasing (resp. non-decreasing) k-tuple below n exactly once, in lexicographic order. *)
From Coq Require Import Permutation Sorting.Sorted.
From PV Require Import Lib.Common Model.C17_Sampling Proofs.C17_Sampling Model.C07_Config.
Local Open Scope nat_scope.

Inductive lexlt : list nat -> list nat -> Prop :=
| lex_head : forall a b s t, a < b -> lexlt (a :: s) (b :: t)
| lex_tail : forall a s t, lexlt s t -> lexlt (a :: s) (a :: t).

(** * generic toolkit *)
Lemma lexlt_irrefl t : ~ lexlt t t.
Proof.
  induction t as [|a t IH]; intros H; inversion H; subst; [lia | now apply IH].
Qed.

Lemma lexlt_trans : forall r s t, lexlt r s -> lexlt s t -> lexlt r t.
Proof.
  intros r s t H; revert t. induction H as [a b s0 t0 Hab | a s0 t0 Hst IH]; intros u Hu; inversion Hu; subst.
  - apply lex_head; lia.
  - now apply lex_head.
  - now apply lex_head.
  - apply lex_tail. now apply IH.
Qed.

Lemma SS_irrefl_NoDup {A} (R : A -> A -> Prop) l : (forall a, ~ R a a) -> StronglySorted R l -> NoDup l.
Proof.
  intros Hir H. induction H as [|a l Hl IH Hf]; constructor; [|exact IH].
  intros Hin. rewrite Forall_forall in Hf. exact (Hir a (Hf a Hin)).
Qed.

Lemma SS_app {A} (R : A -> A -> Prop) l1 l2 : StronglySorted R l1 -> StronglySorted R l2 ->
  (forall a b, In a l1 -> In b l2 -> R a b) -> StronglySorted R (l1 ++ l2).
Proof.
  intros H1 H2 H. induction H1 as [|a l Hl IH Hf]; cbn [app]; [exact H2|].
  constructor.
  - apply IH. intros x y Hx Hy. apply H; [now right | exact Hy].
  - apply Forall_app. split; [exact Hf|]. apply Forall_forall. intros y Hy. apply H; [now left | exact Hy].
Qed.

Lemma SS_map_cons i L : StronglySorted lexlt L -> StronglySorted lexlt (map (cons i) L).
Proof.
  intros H. induction H as [|t L HL IH Hf]; cbn [map]; constructor; [exact IH|].
  rewrite Forall_forall in *. intros y Hy. apply in_map_iff in Hy as (s & E & Hs). subst y.
  apply lex_tail. now apply Hf.
Qed.

Lemma SS_flat_map_seq (g : nat -> list (list nat)) :
  (forall i, StronglySorted lexlt (g i)) -> (forall i t, In t (g i) -> exists s, t = i :: s) ->
  forall m st, StronglySorted lexlt (flat_map g (seq st m)).
Proof.
  intros Hs Hh m. induction m as [|m IH]; intros st; cbn [seq flat_map]; [constructor|].
  apply SS_app; [apply Hs | apply IH |].
  intros a b Ha Hb. apply in_flat_map in Hb as (j & Hj & Hb). apply in_seq in Hj.
  apply Hh in Ha as (s & ->). apply Hh in Hb as (s' & ->). apply lex_head. lia.
Qed.

Lemma SS_singletons m : forall st, StronglySorted lexlt (map (fun i => [i]) (seq st m)).
Proof.
  induction m as [|m IH]; intros st; cbn [seq map]; constructor; [apply IH|].
  apply Forall_forall. intros y Hy. apply in_map_iff in Hy as (j & E & Hj). subst y.
  apply in_seq in Hj. apply lex_head. lia.
Qed.

(** * the recursion, for an arbitrary lower bound *)
Definition ord (strict : bool) : nat -> nat -> Prop := if strict then lt else le.

Lemma tri_rec_sorted strict n k1 : forall st, StronglySorted lexlt (tri_rec strict n k1 st).
Proof.
  induction k1 as [|k' IH]; intros st; cbn [tri_rec]; [apply SS_singletons|].
  apply (SS_flat_map_seq (fun i => map (cons i) (tri_rec strict n k' (if strict then S i else i)))).
  - intros i. apply SS_map_cons, IH.
  - intros i t Ht. apply in_map_iff in Ht as (s & E & _). now exists s.
Qed.

Lemma tri_rec_In strict n k1 : forall st t, In t (tri_rec strict n k1 st) <->
  (length t = S k1 /\ StronglySorted (ord strict) t /\ Forall (fun i => st <= i < n) t).
Proof.
  induction k1 as [|k' IH]; intros st t; cbn [tri_rec].
  - rewrite in_map_iff. split.
    + intros (i & E & Hi). subst t. apply in_seq in Hi. split; [reflexivity|]. split.
      * constructor; constructor.
      * constructor; [lia | constructor].
    + intros (Hl & _ & Hf). destruct t as [|i [|j u]]; try discriminate Hl.
      inversion Hf as [|? ? Hi _]; subst. exists i. split; [reflexivity|]. apply in_seq. lia.
  - rewrite in_flat_map. split.
    + intros (i & Hi & Ht). apply in_seq in Hi. apply in_map_iff in Ht as (s & E & Hs). subst t.
      apply IH in Hs as (Hl & Hss & Hf). rewrite Forall_forall in Hf. split; [cbn [length]; lia|]. split.
      * constructor; [exact Hss|]. apply Forall_forall. intros j Hj. specialize (Hf j Hj).
        destruct strict; cbn [ord]; lia.
      * constructor; [lia|]. apply Forall_forall. intros j Hj. specialize (Hf j Hj). destruct strict; lia.
    + intros (Hl & Hss & Hf). destruct t as [|i s]; [discriminate Hl|].
      inversion Hss as [|? ? Hs Hr]; subst. inversion Hf as [|? ? Hi Hfs]; subst.
      exists i. split; [apply in_seq; lia|]. apply in_map_iff. exists s. split; [reflexivity|].
      apply IH. split; [cbn [length] in Hl; lia|]. split; [exact Hs|].
      rewrite Forall_forall in *. intros j Hj. specialize (Hr j Hj). specialize (Hfs j Hj).
      destruct strict; cbn [ord] in Hr; lia.
Qed.

Lemma tri_rec_spec strict n k1 L : tri_rec strict n k1 0 = L ->
  (forall t, In t L <-> (length t = S k1 /\ StronglySorted (ord strict) t /\ Forall (fun i => i < n) t)) /\
  NoDup L /\ StronglySorted lexlt L.
Proof.
  intros <-. split; [|split].
  - intros t. rewrite tri_rec_In. split; intros (H1 & H2 & H3); (split; [exact H1|]); (split; [exact H2|]);
      (eapply Forall_impl; [|exact H3]); cbn beta; intros; lia.
  - apply (SS_irrefl_NoDup lexlt); [apply lexlt_irrefl | apply tri_rec_sorted].
  - apply tri_rec_sorted.
Qed.

(** * the four statements *)
Theorem triudix_enumerates : forall n k L, (0 < k)%nat -> triudix n k = Some L ->
  (forall t, In t L <-> (length t = k /\ StronglySorted lt t /\ Forall (fun i => i < n) t)) /\
  NoDup L /\ StronglySorted lexlt L.
Proof.
  intros n k L Hk H. destruct k as [|k1]; [lia|]. cbn [triudix] in H. injection H as H.
  exact (tri_rec_spec true n k1 L H).
Qed.

Theorem triuix_enumerates : forall n k L, (0 < k)%nat -> triuix n k = Some L ->
  (forall t, In t L <-> (length t = k /\ StronglySorted le t /\ Forall (fun i => i < n) t)) /\
  NoDup L /\ StronglySorted lexlt L.
Proof.
  intros n k L Hk H. destruct k as [|k1]; [lia|]. cbn [triuix] in H. injection H as H.
  exact (tri_rec_spec false n k1 L H).
Qed.

Theorem xmapix_total : forall n k u, (0 < k)%nat -> exists L, xmapix n k u = Some L.
Proof.
  intros n k u Hk. destruct k as [|k1]; [lia|]. destruct u; cbn [xmapix triudix triuix]; eexists; reflexivity.
Qed.

Lemma SS_lt_NoDup t : StronglySorted lt t -> NoDup t.
Proof. apply SS_irrefl_NoDup. intros a. lia. Qed.

Theorem triudix_no_selfing : forall n k L t, (0 < k)%nat -> triudix n k = Some L -> In t L -> NoDup t.
Proof.
  intros n k L t Hk H Ht. destruct (triudix_enumerates n k L Hk H) as (Hin & _ & _).
  apply Hin in Ht as (_ & Hs & _). now apply SS_lt_NoDup.
Qed.

(** * the number of crosses: C(n,k) *)
Fixpoint binomial (n k : nat) : nat :=
  match k with
  | O => 1
  | S k' => match n with O => 0 | S n' => binomial n' k' + binomial n' k end
  end.

Lemma binomial_1 m : binomial m 1 = m.
Proof. induction m as [|m IH]; cbn [binomial]; [reflexivity|]. rewrite IH. destruct m; reflexivity. Qed.

Lemma tri_rec_true_length n k1 : forall st, length (tri_rec true n k1 st) = binomial (n - st) (S k1).
Proof.
  induction k1 as [|k' IH]; intros st; cbn [tri_rec].
  - now rewrite map_length, seq_length, binomial_1.
  - remember (n - st) as m eqn:Hm. revert st Hm. induction m as [|m IHm]; intros st Hm; [reflexivity|].
    cbn [seq flat_map]. rewrite app_length, map_length, IH, (IHm (S st)) by lia.
    replace (n - S st) with m by lia. reflexivity.
Qed.

Theorem triudix_count : forall n k L, (0 < k)%nat -> triudix n k = Some L -> length L = binomial n k.
Proof.
  intros n k L Hk H. destruct k as [|k1]; [lia|]. cbn [triudix] in H. injection H as <-.
  rewrite tri_rec_true_length. now rewrite Nat.sub_0_r.
Qed.

(** * concrete instances *)
Example triudix_4_2 : triudix 4 2 = Some [[0;1];[0;2];[0;3];[1;2];[1;3];[2;3]].
Proof. reflexivity. Qed.
Example triuix_3_2 : triuix 3 2 = Some [[0;0];[0;1];[0;2];[1;1];[1;2];[2;2]].
Proof. reflexivity. Qed.
Example triudix_4_2_count : binomial 4 2 = 6.
Proof. reflexivity. Qed.

Print Assumptions triudix_enumerates.
Print Assumptions triuix_enumerates.
Print Assumptions xmapix_total.
Print Assumptions triudix_no_selfing.
Print Assumptions triudix_count.
